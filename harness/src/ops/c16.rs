//! C16 — conversions between representations on the real code.
//!
//!   conv_chain <desc> [tag …]     build `desc`, then `T::from(previous)` along the tags
//!                                 (al am mx el; wu wi only as the last tag)
//!       =>  obs_0 obs_1 … obs_k   one observation per digraph, `panic` ends the list
//!   conv_from_rows <repr> <rows>  al am: rows of ids (collected into `BTreeSet`s);
//!                                 wu wi: rows of `[v w]` (collected into `BTreeMap`s)
//!   conv_from_arcs <repr> <arcs>  mx el: `T::from(Vec<(usize, usize)>)`
//!       =>  obs | panic
//!   conv_from_rows_lazy <repr> <shape> <entries>   entries: `none` | row; the rows reach `From` through a
//!   conv_from_arcs_lazy <repr> <shape> <entries>   LAZY iterator over `Vec<Option<_>>` whose size hint differs
//!                                 from the real length: shape ∈ mapwhile takewhile (stop at the first `none`)
//!                                 | flatten filter (skip every `none`)
//!   conv_mx_big <order> <arcs> <tgt>   (stress only) matrix of order ≥ 65 536 built by `add_arc`, converted to
//!                                 el | al; cell indices ≥ 2^32   =>  [order [arcs of the source] [arcs of the target]]
//!
//! obs = `[order [vertices] [[u v] …]]`, for the weighted lists `[order [vertices] [[u v w] …]]`.
#![allow(clippy::all)]

use crate::graphs::{self, Desc};
use crate::rng::Rng;
use crate::value::V;
use graaf::{
    AddArc, AddArcWeighted, AdjacencyList, AdjacencyListWeighted, AdjacencyMap, AdjacencyMatrix, Arcs, ArcsWeighted,
    EdgeList, Empty, Order, Vertices,
};
use std::collections::{BTreeMap, BTreeSet};
use std::panic::{catch_unwind, AssertUnwindSafe};

enum Any {
    Al(AdjacencyList),
    Am(AdjacencyMap),
    Mx(AdjacencyMatrix),
    El(EdgeList),
    Wu(AdjacencyListWeighted<usize>),
    Wi(AdjacencyListWeighted<isize>),
}

fn observe_wu(d: &AdjacencyListWeighted<usize>) -> V {
    V::L(vec![
        V::u(d.order()),
        V::us(d.vertices()),
        V::L(d.arcs_weighted().map(|(u, v, w)| V::L(vec![V::u(u), V::u(v), V::u(*w)])).collect()),
    ])
}

fn observe_wi(d: &AdjacencyListWeighted<isize>) -> V {
    V::L(vec![
        V::u(d.order()),
        V::us(d.vertices()),
        V::L(d.arcs_weighted().map(|(u, v, w)| V::L(vec![V::u(u), V::u(v), V::i(*w)])).collect()),
    ])
}

/// One `==` check with the implementation's own `PartialEq`; a panic inside it is data.
fn guard(f: impl FnOnce() -> bool) -> V {
    match catch_unwind(AssertUnwindSafe(f)) {
        Ok(x) => V::bool(x),
        Err(_) => V::atom("panic"),
    }
}

/// `[rebuilt, round trip through each other unweighted representation]` for an unweighted digraph:
/// `x == rebuild(x)` (`empty(order)` + `add_arc` over `x.arcs()`) and `x == T::from(S::from(x.clone()))`.
macro_rules! eq_checks {
    ($d:expr, $T:ty, $($S:ty),*) => {{
        let d: &$T = $d;
        let mut out = vec![guard(|| {
            let mut h = <$T>::empty(d.order());
            for (u, v) in d.arcs() {
                h.add_arc(u, v);
            }
            *d == h
        })];
        $( out.push(guard(|| *d == <$T>::from(<$S>::from(d.clone())))); )*
        V::L(out)
    }};
}

fn eq_weighted<W: Copy + Eq>(d: &AdjacencyListWeighted<W>) -> V {
    V::L(vec![guard(|| {
        let mut h = AdjacencyListWeighted::<W>::empty(d.order());
        for (u, v, w) in d.arcs_weighted() {
            h.add_arc_weighted(u, v, *w);
        }
        *d == h
    })])
}

fn eq_value(per_digraph: Vec<V>) -> V {
    let mut xs = vec![V::atom("eq")];
    xs.extend(per_digraph);
    V::L(xs)
}

impl Any {
    fn eq_checks(&self) -> V {
        match self {
            Any::Al(d) => eq_checks!(d, AdjacencyList, AdjacencyMap, AdjacencyMatrix, EdgeList),
            Any::Am(d) => eq_checks!(d, AdjacencyMap, AdjacencyList, AdjacencyMatrix, EdgeList),
            Any::Mx(d) => eq_checks!(d, AdjacencyMatrix, AdjacencyList, AdjacencyMap, EdgeList),
            Any::El(d) => eq_checks!(d, EdgeList, AdjacencyList, AdjacencyMap, AdjacencyMatrix),
            Any::Wu(d) => eq_weighted(d),
            Any::Wi(d) => eq_weighted(d),
        }
    }
    fn observe(&self) -> V {
        match self {
            Any::Al(d) => graphs::observe(d),
            Any::Am(d) => graphs::observe(d),
            Any::Mx(d) => graphs::observe(d),
            Any::El(d) => graphs::observe(d),
            Any::Wu(d) => observe_wu(d),
            Any::Wi(d) => observe_wi(d),
        }
    }
    fn build(desc: &Desc) -> Option<Any> {
        Some(match desc.repr.as_str() {
            "al" => Any::Al(desc.build_al()),
            "am" => Any::Am(desc.build_am()),
            "mx" => Any::Mx(desc.build_mx()),
            "el" => Any::El(desc.build_el()),
            _ => return None,
        })
    }
    /// `T::from(self)` for the impl named by `tag`; `None` = there is no such impl.
    fn convert(self, tag: &str) -> Option<Any> {
        macro_rules! to {
            ($d:expr) => {
                match tag {
                    "al" => Any::Al(AdjacencyList::from($d)),
                    "am" => Any::Am(AdjacencyMap::from($d)),
                    "mx" => Any::Mx(AdjacencyMatrix::from($d)),
                    "el" => Any::El(EdgeList::from($d)),
                    "wu" => Any::Wu(AdjacencyListWeighted::<usize>::from($d)),
                    "wi" => Any::Wi(AdjacencyListWeighted::<isize>::from($d)),
                    _ => return None,
                }
            };
        }
        Some(match self {
            Any::Al(d) if tag != "al" => to!(d),
            Any::Am(d) if tag != "am" => to!(d),
            Any::Mx(d) if tag != "mx" => to!(d),
            Any::El(d) if tag != "el" => to!(d),
            _ => return None,
        })
    }
}

/// observation + `==` checks of one freshly built digraph (unpacked into two output values by `eval`)
fn both(a: Any) -> V {
    V::L(vec![V::atom("pair"), a.observe(), eq_value(vec![a.eq_checks()])])
}

pub fn eval(op: &str, args: &[V]) -> Option<Vec<V>> {
    let out = eval_inner(op, args)?;
    if let [V::L(xs)] = out.as_slice() {
        if xs.len() == 3 && xs[0] == V::atom("pair") {
            return Some(vec![xs[1].clone(), xs[2].clone()]);
        }
    }
    Some(out)
}

fn eval_inner(op: &str, args: &[V]) -> Option<Vec<V>> {
    match op {
        "conv_chain" => {
            let [desc, tags] = args else { return None };
            let desc = Desc::parse(desc)?;
            let tags: Vec<String> =
                tags.as_list()?.iter().map(|t| t.as_atom().map(str::to_string)).collect::<Option<_>>()?;
            // well-formedness of the path: known tags, no T -> T, weighted only last
            let mut prev = desc.repr.clone();
            for (i, t) in tags.iter().enumerate() {
                if !graphs::ALL_REPRS.contains(&t.as_str()) || *t == prev {
                    return None;
                }
                if (t == "wu" || t == "wi") && i + 1 != tags.len() {
                    return None;
                }
                prev = t.clone();
            }
            if !graphs::UNWEIGHTED.contains(&desc.repr.as_str()) {
                return None;
            }
            let mut cur = match catch_unwind(AssertUnwindSafe(|| Any::build(&desc))) {
                Ok(Some(d)) => d,
                Ok(None) => return None,
                Err(_) => return Some(vec![V::atom("panic")]),
            };
            let mut out = vec![cur.observe()];
            let mut eqs = vec![cur.eq_checks()];
            for t in &tags {
                match catch_unwind(AssertUnwindSafe(|| cur.convert(t))) {
                    Ok(Some(next)) => {
                        out.push(next.observe());
                        eqs.push(next.eq_checks());
                        cur = next;
                    }
                    Ok(None) => return None,
                    Err(_) => {
                        out.push(V::atom("panic"));
                        break;
                    }
                }
            }
            out.push(eq_value(eqs));
            Some(out)
        }
        "conv_from_rows" => {
            let [repr, rows] = args else { return None };
            let rows = rows.as_list()?;
            match repr.as_atom()? {
                r @ ("al" | "am") => {
                    let sets: Vec<BTreeSet<usize>> = rows
                        .iter()
                        .map(|row| row.as_usizes().map(|xs| xs.into_iter().collect()))
                        .collect::<Option<_>>()?;
                    Some(vec![if r == "al" {
                        both(Any::Al(AdjacencyList::from(sets)))
                    } else {
                        both(Any::Am(AdjacencyMap::from(sets)))
                    }])
                }
                "wu" => {
                    let mut maps: Vec<BTreeMap<usize, usize>> = vec![];
                    for row in rows {
                        let mut m = BTreeMap::new();
                        for e in row.as_list()? {
                            let e = e.as_list()?;
                            if e.len() != 2 {
                                return None;
                            }
                            let _ = m.insert(e[0].as_usize()?, e[1].as_usize()?);
                        }
                        maps.push(m);
                    }
                    Some(vec![both(Any::Wu(AdjacencyListWeighted::<usize>::from(maps)))])
                }
                "wi" => {
                    let mut maps: Vec<BTreeMap<usize, isize>> = vec![];
                    for row in rows {
                        let mut m = BTreeMap::new();
                        for e in row.as_list()? {
                            let e = e.as_list()?;
                            if e.len() != 2 {
                                return None;
                            }
                            let _ = m.insert(e[0].as_usize()?, e[1].as_isize()?);
                        }
                        maps.push(m);
                    }
                    Some(vec![both(Any::Wi(AdjacencyListWeighted::<isize>::from(maps)))])
                }
                _ => None,
            }
        }
        "conv_from_arcs" => {
            let [repr, arcs] = args else { return None };
            let arcs = arcs.as_pairs()?;
            // the matrix allocates order^2 bits: keep ids modest
            if arcs.iter().any(|&(u, v)| u > 4096 || v > 4096) {
                return None;
            }
            match repr.as_atom()? {
                "mx" => Some(vec![both(Any::Mx(AdjacencyMatrix::from(arcs)))]),
                "el" => Some(vec![both(Any::El(EdgeList::from(arcs)))]),
                _ => None,
            }
        }
        "conv_from_rows_lazy" => {
            let [repr, shape, entries] = args else { return None };
            let shape = shape.as_atom()?;
            let entries = entries.as_list()?;
            macro_rules! lazy {
                ($v:expr, $build:expr) => {
                    match shape {
                        "mapwhile" => $build($v.into_iter().map_while(|r| r)),
                        "takewhile" => $build($v.into_iter().take_while(Option::is_some).map(Option::unwrap)),
                        "flatten" => $build($v.into_iter().flatten()),
                        "filter" => $build($v.into_iter().filter(Option::is_some).map(Option::unwrap)),
                        _ => return None,
                    }
                };
            }
            match repr.as_atom()? {
                r @ ("al" | "am") => {
                    let sets: Vec<Option<BTreeSet<usize>>> = entries
                        .iter()
                        .map(|e| match e {
                            V::A(a) if a == "none" => Some(None),
                            row => row.as_usizes().map(|xs| Some(xs.into_iter().collect())),
                        })
                        .collect::<Option<_>>()?;
                    Some(vec![if r == "al" {
                        lazy!(sets, |it| both(Any::Al(AdjacencyList::from(it))))
                    } else {
                        lazy!(sets, |it| both(Any::Am(AdjacencyMap::from(it))))
                    }])
                }
                r @ ("wu" | "wi") => {
                    let mut maps: Vec<Option<BTreeMap<usize, isize>>> = vec![];
                    for e in entries {
                        if matches!(e, V::A(a) if a == "none") {
                            maps.push(None);
                            continue;
                        }
                        let mut m = BTreeMap::new();
                        for kv in e.as_list()? {
                            let kv = kv.as_list()?;
                            if kv.len() != 2 {
                                return None;
                            }
                            let _ = m.insert(kv[0].as_usize()?, kv[1].as_isize()?);
                        }
                        maps.push(Some(m));
                    }
                    if r == "wi" {
                        Some(vec![lazy!(maps, |it| both(Any::Wi(AdjacencyListWeighted::<isize>::from(it))))])
                    } else {
                        let maps: Vec<Option<BTreeMap<usize, usize>>> = maps
                            .into_iter()
                            .map(|m| m.map(|m| m.into_iter().map(|(k, w)| (k, w.unsigned_abs())).collect()))
                            .collect();
                        Some(vec![lazy!(maps, |it| both(Any::Wu(AdjacencyListWeighted::<usize>::from(it))))])
                    }
                }
                _ => None,
            }
        }
        "conv_from_arcs_lazy" => {
            let [repr, shape, entries] = args else { return None };
            let shape = shape.as_atom()?;
            let mut arcs: Vec<Option<(usize, usize)>> = vec![];
            for e in entries.as_list()? {
                if matches!(e, V::A(a) if a == "none") {
                    arcs.push(None);
                } else {
                    let p = e.as_list()?;
                    if p.len() != 2 {
                        return None;
                    }
                    let (u, v) = (p[0].as_usize()?, p[1].as_usize()?);
                    if u > 4096 || v > 4096 {
                        return None;
                    }
                    arcs.push(Some((u, v)));
                }
            }
            macro_rules! lazy {
                ($build:expr) => {
                    match shape {
                        "mapwhile" => $build(arcs.into_iter().map_while(|r| r)),
                        "takewhile" => $build(arcs.into_iter().take_while(Option::is_some).map(Option::unwrap)),
                        "flatten" => $build(arcs.into_iter().flatten()),
                        "filter" => $build(arcs.into_iter().filter(Option::is_some).map(Option::unwrap)),
                        _ => return None,
                    }
                };
            }
            match repr.as_atom()? {
                "mx" => Some(vec![lazy!(|it| both(Any::Mx(AdjacencyMatrix::from(it))))]),
                "el" => Some(vec![lazy!(|it| both(Any::El(EdgeList::from(it))))]),
                _ => None,
            }
        }
        "conv_mx_big" => {
            let [order, arcs, tgt] = args else { return None };
            let order = order.as_usize()?;
            let arcs = arcs.as_pairs()?;
            if !(65_536..=70_000).contains(&order) || arcs.len() > 64 {
                return None;
            }
            let mut m = AdjacencyMatrix::empty(order);
            for &(u, v) in &arcs {
                m.add_arc(u, v);
            }
            let src = V::pairs(m.arcs());
            let out = match tgt.as_atom()? {
                "el" => V::pairs(EdgeList::from(m).arcs()),
                "al" => V::pairs(AdjacencyList::from(m).arcs()),
                _ => return None,
            };
            Some(vec![V::L(vec![V::u(order), src, out])])
        }
        _ => None,
    }
}

const TARGETS: [&str; 6] = ["al", "am", "mx", "el", "wu", "wi"];

fn tags_v(tags: &[&str]) -> V {
    V::L(tags.iter().map(|t| V::atom(t)).collect())
}

fn emit_all_pairs(d: &Desc, emit: &mut dyn FnMut(String)) {
    for src in graphs::UNWEIGHTED {
        let s = d.with_repr(src).to_v();
        for tgt in TARGETS {
            if tgt != src {
                emit(format!("conv_chain {s} {}", tags_v(&[tgt])));
            }
        }
    }
}

fn random_chain(rng: &mut Rng, src: &str) -> Vec<&'static str> {
    let len = 2 + rng.below(4);
    let mut tags: Vec<&'static str> = vec![];
    let mut prev: &str = src;
    for i in 0..len {
        let last = i + 1 == len;
        loop {
            let t = if last && rng.chance(1, 3) { *rng.pick(&["wu", "wi"]) } else { *rng.pick(&graphs::UNWEIGHTED) };
            if t != prev {
                tags.push(t);
                prev = t;
                break;
            }
        }
    }
    tags
}

fn gen_rows(rng: &mut Rng, weighted: Option<bool>) -> String {
    // 0 = valid, 1 = self-loop, 2 = head out of range, 3 = empty
    let kind = match rng.below(20) {
        0..=10 => 0,
        11..=13 => 1,
        14..=16 => 2,
        _ => 3,
    };
    let n = if kind == 3 { 0 } else if rng.chance(1, 8) { 20 + rng.below(60) } else { 1 + rng.below(9) };
    let mut rows: Vec<Vec<(usize, i64)>> = vec![];
    for u in 0..n {
        let mut row = vec![];
        if n > 1 {
            let k = match rng.below(4) { 0 => 0, 1 => 1, 2 => rng.below(n), _ => rng.below(4) };
            for _ in 0..k {
                let mut v = rng.below(n);
                if v == u {
                    v = (u + 1) % n;
                }
                let w = match weighted { Some(true) => rng.range(-50, 50), _ => rng.range(0, 50) };
                row.push((v, w));
                if rng.chance(1, 6) {
                    // listed twice (sets / maps collapse it; for maps the last weight wins)
                    row.push((v, w + 1));
                }
            }
        }
        rows.push(row);
    }
    if kind == 1 && n > 0 {
        let u = rng.below(n);
        let at = rng.below(rows[u].len() + 1);
        rows[u].insert(at, (u, 1));
    }
    if kind == 2 && n > 0 {
        let u = rng.below(n);
        let bad = match rng.below(3) { 0 => n, 1 => n + 1 + rng.below(5), _ => 1 << 40 };
        let at = rng.below(rows[u].len() + 1);
        rows[u].insert(at, (bad, 1));
    }
    let body: Vec<String> = rows
        .iter()
        .map(|row| {
            let items: Vec<String> = row
                .iter()
                .map(|&(v, w)| if weighted.is_some() { format!("[{v} {w}]") } else { format!("{v}") })
                .collect();
            format!("[{}]", items.join(" "))
        })
        .collect();
    format!("[{}]", body.join(" "))
}

fn gen_arc_list(rng: &mut Rng) -> String {
    let kind = match rng.below(20) { 0 | 1 => 2, 2..=5 => 1, _ => 0 }; // empty / self-loop / valid
    let mut arcs: Vec<(usize, usize)> = vec![];
    if kind != 2 {
        let n = if rng.chance(1, 8) { 60 + rng.below(140) } else { 2 + rng.below(10) };
        let k = 1 + rng.below(if n > 20 { 60 } else { 2 * n });
        for _ in 0..k {
            let u = rng.below(n);
            let mut v = rng.below(n);
            if v == u {
                v = (u + 1) % n;
            }
            arcs.push((u, v));
            if rng.chance(1, 5) {
                arcs.push((u, v)); // duplicate
            }
        }
        if kind == 1 {
            let x = rng.below(n);
            let at = rng.below(arcs.len() + 1);
            arcs.insert(at, (x, x));
        }
    }
    V::pairs(arcs).to_string()
}

const SHAPES: [&str; 4] = ["mapwhile", "takewhile", "flatten", "filter"];

/// Rows behind a lazy iterator: `(shape, entries)`. The rows that really reach `From` (`eff`) are
/// valid, or carry a self-loop, or a head in the window `real order <= v < number of entries`
/// (what a wrong use of `size_hint().1` accepts), or a head beyond everything; bad heads sit in
/// rows that also have smaller in-range heads.
fn gen_lazy_rows(rng: &mut Rng, weighted: Option<bool>, big: bool) -> (String, String) {
    let shape = *rng.pick(&SHAPES);
    let n = if rng.chance(1, 12) { 0 } else if big { 20 + rng.below(200) } else { 1 + rng.below(8) };
    let holes = 1 + rng.below(if big { 40 } else { 4 });
    let kind = match rng.below(20) { 0..=9 => 0, 10..=15 => 1, 16 | 17 => 2, _ => 3 };
    let mut rows: Vec<Vec<(usize, i64)>> = (0..n)
        .map(|u| {
            let mut row = vec![];
            if n > 1 {
                for _ in 0..rng.below(4) {
                    let mut v = rng.below(n);
                    if v == u {
                        v = (u + 1) % n;
                    }
                    let w = match weighted { Some(true) => rng.range(-50, 50), _ => rng.range(0, 50) };
                    row.push((v, w));
                }
            }
            row
        })
        .collect();
    if n > 0 {
        let u = rng.below(n);
        match kind {
            1 => rows[u].push((n + rng.below(holes), 1)),
            2 => rows[u].push((u, 1)),
            3 => rows[u].push((n + holes + rng.below(3), 1)),
            _ => {}
        }
    }
    let show = |row: &Vec<(usize, i64)>| {
        let items: Vec<String> = row
            .iter()
            .map(|&(v, w)| if weighted.is_some() { format!("[{v} {w}]") } else { format!("{v}") })
            .collect();
        format!("[{}]", items.join(" "))
    };
    let mut entries: Vec<String> = vec![];
    if shape == "mapwhile" || shape == "takewhile" {
        entries.extend(rows.iter().map(show));
        entries.push("none".into());
        for _ in 1..holes {
            // never reached
            entries.push(if rng.chance(1, 2) { "none".into() } else { "[]".into() });
        }
    } else {
        let mut slots: Vec<bool> = (0..n).map(|_| true).chain((0..holes).map(|_| false)).collect();
        rng.shuffle(&mut slots);
        let mut it = rows.iter();
        for real in slots {
            entries.push(if real { show(it.next().expect("row")) } else { "none".into() });
        }
    }
    (shape.to_string(), format!("[{}]", entries.join(" ")))
}

fn gen_lazy_arcs(rng: &mut Rng) -> (String, String) {
    let shape = *rng.pick(&SHAPES);
    let kind = match rng.below(20) { 0 | 1 => 2, 2..=4 => 1, _ => 0 }; // empty / self-loop / valid
    let n = 2 + rng.below(12);
    let mut arcs: Vec<Option<(usize, usize)>> = vec![];
    if kind != 2 {
        for _ in 0..(1 + rng.below(2 * n)) {
            let u = rng.below(n);
            let mut v = rng.below(n);
            if v == u {
                v = (u + 1) % n;
            }
            arcs.push(Some((u, v)));
        }
        if kind == 1 {
            let x = rng.below(n);
            let at = rng.below(arcs.len() + 1);
            arcs.insert(at, Some((x, x)));
        }
    }
    let holes = 1 + rng.below(4);
    if shape == "mapwhile" || shape == "takewhile" {
        arcs.push(None);
        for _ in 1..holes {
            // never reached: larger ids and even a self-loop must not matter
            arcs.push(if rng.chance(1, 2) { None } else { Some((n + 5, n + 5 + rng.below(2))) });
        }
    } else {
        for _ in 0..holes {
            let at = rng.below(arcs.len() + 1);
            arcs.insert(at, None);
        }
    }
    let items: Vec<String> =
        arcs.iter().map(|a| a.map_or("none".to_string(), |(u, v)| format!("[{u} {v}]"))).collect();
    (shape.to_string(), format!("[{}]", items.join(" ")))
}

fn emit_lazy(rng: &mut Rng, n_rows: usize, n_arcs: usize, big: bool, emit: &mut dyn FnMut(String)) {
    for _ in 0..n_rows {
        let (repr, w) = match rng.below(4) {
            0 => ("al", None),
            1 => ("am", None),
            2 => ("wu", Some(false)),
            _ => ("wi", Some(true)),
        };
        let (shape, entries) = gen_lazy_rows(rng, w, big);
        emit(format!("conv_from_rows_lazy {repr} {shape} {entries}"));
    }
    for _ in 0..n_arcs {
        let repr = if rng.chance(1, 2) { "mx" } else { "el" };
        let (shape, entries) = gen_lazy_arcs(rng);
        emit(format!("conv_from_arcs_lazy {repr} {shape} {entries}"));
    }
}

pub fn gen(rng: &mut Rng, thorough: bool, emit: &mut dyn FnMut(String)) {
    if crate::stress() {
        // out-of-distribution stream, most promising first (the orchestrator runs it when a tie is broken)
        emit_lazy(rng, 3000, 800, false, emit);
        emit_lazy(rng, 300, 0, true, emit);
        // rows mixing in-range and out-of-range heads, eager
        for _ in 0..2000 {
            match rng.below(4) {
                0 => emit(format!("conv_from_rows al {}", gen_rows(rng, None))),
                1 => emit(format!("conv_from_rows am {}", gen_rows(rng, None))),
                2 => emit(format!("conv_from_rows wu {}", gen_rows(rng, Some(false)))),
                _ => emit(format!("conv_from_rows wi {}", gen_rows(rng, Some(true)))),
            }
        }
        // matrix of order >= 65 536: cell indices >= 2^32 (~550 MB of zero pages, a few seconds)
        emit("conv_mx_big 66000 [[65999 0] [65999 65998] [65076 1] [65075 65999] [0 1] [70 65999] [33000 33001]] el".to_string());
        emit("conv_mx_big 65536 [[65535 0] [65535 65534] [1 65535] [65534 65535]] al".to_string());
        return;
    }
    // (1) exhaustive small scope: every digraph on 1..=3 (thorough: 4) vertices, every ordered pair
    let max_small = if thorough { 4 } else { 3 };
    for n in 1usize..=max_small {
        let pairs: Vec<(usize, usize)> =
            (0..n).flat_map(|u| (0..n).filter(move |&v| v != u).map(move |v| (u, v))).collect();
        for code in 0u32..(1u32 << pairs.len()) {
            let arcs: Vec<(usize, usize)> =
                pairs.iter().enumerate().filter(|(i, _)| code >> i & 1 == 1).map(|(_, &a)| a).collect();
            let k = arcs.len();
            let d = Desc { repr: "al".into(), verts: (0..n).collect(), arcs, weights: vec![1; k] };
            if n <= 3 || !thorough {
                emit_all_pairs(&d, emit);
            } else {
                // 4 vertices: one random source, every target
                let src = *rng.pick(&graphs::UNWEIGHTED);
                let s = d.with_repr(src).to_v();
                for tgt in TARGETS {
                    if tgt != src {
                        emit(format!("conv_chain {s} {}", tags_v(&[tgt])));
                    }
                }
            }
        }
    }
    // (2) random contiguous digraphs (shared generator: families x densities x order mixture):
    //     every ordered pair for a part, random chains of length 2..5 for all
    let n_graphs = if thorough { 1500 } else { 220 };
    for i in 0..n_graphs {
        let (_fam, d) = graphs::gen_desc(rng, "al", 100);
        if i % 3 == 0 || d.order() <= 8 {
            emit_all_pairs(&d, emit);
        }
        for _ in 0..4 {
            let src = *rng.pick(&graphs::UNWEIGHTED);
            let tags = random_chain(rng, src);
            emit(format!("conv_chain {} {}", d.with_repr(src).to_v(), tags_v(&tags)));
        }
    }
    // (3) outside the property (correspondence only): AdjacencyMap sources with non-contiguous ids
    for _ in 0..(if thorough { 1500 } else { 300 }) {
        let (_fam, d) = graphs::gen_am_sparse(rng, 8);
        let tgt = *rng.pick(&["al", "mx", "el", "wu", "wi"]);
        emit(format!("conv_chain {} {}", d.to_v(), tags_v(&[tgt])));
    }
    // (4) From<rows>
    for _ in 0..(if thorough { 10000 } else { 1600 }) {
        match rng.below(4) {
            0 => emit(format!("conv_from_rows al {}", gen_rows(rng, None))),
            1 => emit(format!("conv_from_rows am {}", gen_rows(rng, None))),
            2 => emit(format!("conv_from_rows wu {}", gen_rows(rng, Some(false)))),
            _ => emit(format!("conv_from_rows wi {}", gen_rows(rng, Some(true)))),
        }
    }
    // (4b) the same through lazy iterators whose size hint differs from the real length
    emit_lazy(rng, if thorough { 4000 } else { 700 }, if thorough { 1500 } else { 300 }, false, emit);
    // (4c) one matrix of order >= 65 536 (cell indices >= 2^32; ~0.7 s, ~535 MB of zero pages)
    emit("conv_mx_big 66000 [[65999 0] [65999 65998] [65076 1] [65075 65999] [0 1] [70 65999] [33000 33001]] el".to_string());
    // (4d) From<arcs> at orders around the multiples of 8 and 64 (order^2 a multiple of 64: block-count
    //      boundary of the bit matrix); the `==` checks see a non-canonical block vector
    for order in [2usize, 3, 7, 8, 9, 15, 16, 17, 24, 32, 40, 48, 56, 63, 64, 65, 72, 96, 128, 136, 192, 200] {
        for repr in ["mx", "el"] {
            let mut arcs: Vec<(usize, usize)> = vec![(rng.below(order - 1), order - 1)];
            for _ in 0..(1 + rng.below(6)) {
                let u = rng.below(order);
                let v = (u + 1 + rng.below(order - 1)) % order;
                arcs.push((u, v));
            }
            rng.shuffle(&mut arcs);
            emit(format!("conv_from_arcs {repr} {}", V::pairs(arcs.iter().copied())));
            let items: Vec<String> = arcs.iter().map(|(u, v)| format!("[{u} {v}]")).collect();
            emit(format!("conv_from_arcs_lazy {repr} filter [none {}]", items.join(" none ")));
        }
    }
    // (5) From<arcs>
    for _ in 0..(if thorough { 10000 } else { 1600 }) {
        let repr = if rng.chance(1, 2) { "mx" } else { "el" };
        emit(format!("conv_from_arcs {repr} {}", gen_arc_list(rng)));
    }
}
