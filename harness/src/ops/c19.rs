//! C19 — `PredecessorTree::search_by` / `search` on the real code.
//!
//!   pt_search_by <pred> <s> <tgt>   =>  panic | none | [path]
//!   pt_search    <pred> <s> <t>     =>  panic | none | [path]
//!
//!   pt_big <len> <dflt> [[i e]..] <s> <tgt>   long vector in a compact description: every entry is
//!       `dflt` (`none | self | next | prev | id`) except the listed ones; `[eq t]` calls `search`
//!
//! `pred` = list of `none` | id; `tgt` ∈ `[eq t] [in [..]] [predeq x] prednone always never
//! [reach2 <pred2> t]` (the predicate runs `search(v, t)` on a second tree).
#![allow(clippy::all)]

use crate::rng::Rng;
use crate::value::V;
use graaf::PredecessorTree;

fn parse_pred(v: &V) -> Option<Vec<Option<usize>>> {
    v.as_list()?.iter().map(V::as_opt_usize).collect()
}

fn out(r: Option<Vec<usize>>) -> Vec<V> {
    vec![r.map_or_else(V::none, |p| V::us(p))]
}

/// `search_by` with a protocol predicate.
fn search_tgt(tree: &PredecessorTree, s: usize, tgt: &V) -> Option<Option<Vec<usize>>> {
    Some(match tgt {
        V::A(a) if a == "prednone" => tree.search_by(s, |_, p| p.is_none()),
        V::A(a) if a == "always" => tree.search_by(s, |_, _| true),
        V::A(a) if a == "never" => tree.search_by(s, |_, _| false),
        V::L(xs) if xs.len() == 2 => match xs[0].as_atom()? {
            "eq" => {
                let t = xs[1].as_usize()?;
                tree.search_by(s, |&v, _| v == t)
            }
            "in" => {
                let ts = xs[1].as_usizes()?;
                tree.search_by(s, |v, _| ts.contains(v))
            }
            "predeq" => {
                let x = xs[1].as_usize()?;
                tree.search_by(s, |_, p| *p == Some(x))
            }
            _ => return None,
        },
        // `[reach2 pred2 t]`: "a search in a SECOND predecessor tree from v reaches t" — a pure
        // function of the vertex that itself runs `search` (re-entrancy of the library code)
        V::L(xs) if xs.len() == 3 && xs[0].as_atom() == Some("reach2") => {
            let tree2 = PredecessorTree::from(parse_pred(&xs[1])?);
            let len2 = xs[1].as_list()?.len();
            let t = xs[2].as_usize()?;
            tree.search_by(s, |&v, _| v < len2 && tree2.search(v, t).is_some())
        }
        _ => return None,
    })
}

/// Compact description of a long vector: `len dflt [[i e]..]`, `dflt` ∈ `none | self | next | prev | id`.
fn build_big(len: &V, dflt: &V, exc: &V) -> Option<Vec<Option<usize>>> {
    let len = len.as_usize()?;
    if len > 1 << 20 {
        return None;
    }
    let mut pred: Vec<Option<usize>> = match dflt {
        V::A(a) if a == "none" => vec![None; len],
        V::A(a) if a == "self" => (0..len).map(Some).collect(),
        V::A(a) if a == "next" => (0..len).map(|i| if i + 1 < len { Some(i + 1) } else { None }).collect(),
        V::A(a) if a == "prev" => (0..len).map(|i| i.checked_sub(1)).collect(),
        v => vec![Some(v.as_usize()?); len],
    };
    for e in exc.as_list()? {
        let e = e.as_list()?;
        if e.len() != 2 {
            return None;
        }
        *pred.get_mut(e[0].as_usize()?)? = e[1].as_opt_usize()?;
    }
    Some(pred)
}

pub fn eval(op: &str, args: &[V]) -> Option<Vec<V>> {
    match op {
        "pt_search_by" => {
            let [pred, s, tgt] = args else { return None };
            let tree = PredecessorTree::from(parse_pred(pred)?);
            Some(out(search_tgt(&tree, s.as_usize()?, tgt)?))
        }
        "pt_search" => {
            let [pred, s, t] = args else { return None };
            let tree = PredecessorTree::from(parse_pred(pred)?);
            Some(out(tree.search(s.as_usize()?, t.as_usize()?)))
        }
        "pt_big" => {
            let [len, dflt, exc, s, tgt] = args else { return None };
            let tree = PredecessorTree::from(build_big(len, dflt, exc)?);
            let s = s.as_usize()?;
            // `[eq t]` goes through `search` itself
            if let V::L(xs) = tgt {
                if xs.len() == 2 && xs[0].as_atom() == Some("eq") {
                    return Some(out(tree.search(s, xs[1].as_usize()?)));
                }
            }
            Some(out(search_tgt(&tree, s, tgt)?))
        }
        _ => None,
    }
}

fn show_pred(p: &[Option<usize>]) -> V {
    V::L(p.iter().map(|e| V::opt_u(*e)).collect())
}

fn gen_tgt(rng: &mut Rng, len: usize) -> V {
    match rng.below(8) {
        0 => V::atom("prednone"),
        1 => V::atom("never"),
        2 => V::atom("always"),
        3 => V::L(vec![V::atom("predeq"), V::u(rng.below(len + 1))]),
        4 | 5 => {
            let k = 1 + rng.below(3);
            V::L(vec![V::atom("in"), V::us((0..k).map(|_| rng.below(len + 1)))])
        }
        _ => V::L(vec![V::atom("eq"), V::u(rng.below(len + 1))]),
    }
}

/// Round 2: a walk laid out explicitly over ids that collide under bit tricks (`k`, `k+32`, `k+64`,
/// `k+128`, `k+256` — same residue mod 32 / 64, same or neighbouring 64-bit word), in a vector of
/// length 33..300; the walk ends in `none`, in a self-reference (not at the start), in a back edge
/// (rho) or back at the start; the other entries are random.
fn gen_collide(rng: &mut Rng, emit: &mut dyn FnMut(String)) {
    let len = match rng.below(6) {
        0 => 33 + rng.below(8),
        1 => 63 + rng.below(6),
        2 => 96 + rng.below(40),
        3 => 255 + rng.below(46),
        _ => 33 + rng.below(268),
    };
    // distinct ids of the walk
    let mut walk: Vec<usize> = Vec::new();
    let push = |walk: &mut Vec<usize>, x: usize| {
        if x < len && !walk.contains(&x) { walk.push(x); }
    };
    let start = rng.below(len);
    push(&mut walk, start);
    let groups = 1 + rng.below(3);
    for _ in 0..groups {
        let k = rng.below(len);
        let mut g: Vec<usize> = vec![k];
        for d in [32usize, 64, 96, 128, 256] {
            if rng.chance(2, 3) { g.push(k + d); }
            if k >= d && rng.chance(1, 3) { g.push(k - d); }
        }
        rng.shuffle(&mut g);
        for x in g {
            // a few unrelated vertices in between
            if rng.chance(1, 3) { let y = rng.below(len); push(&mut walk, y); }
            push(&mut walk, x);
        }
    }
    for _ in 0..rng.below(4) { let y = rng.below(len); push(&mut walk, y); }
    let mut pred: Vec<Option<usize>> = (0..len)
        .map(|i| match rng.below(8) { 0 => None, 1 => Some(i), _ => Some(rng.below(len)) })
        .collect();
    for w in walk.windows(2) {
        pred[w[0]] = Some(w[1]);
    }
    let last = *walk.last().unwrap();
    let end_kind = rng.below(5);
    pred[last] = match end_kind {
        0 => None,
        1 => if walk.len() > 1 { Some(last) } else { None },   // self-reference, not at the start
        2 => Some(walk[rng.below(walk.len())]),                 // rho: back into the walk
        3 => Some(start),                                       // cycle through the start
        _ => pred[last],                                        // whatever the random filling says
    };
    let p = show_pred(&pred);
    // targets: the last vertex, one in the middle, one off the walk, predicates on the entry
    let tgt = match rng.below(8) {
        0 | 1 | 2 => V::L(vec![V::atom("eq"), V::u(last)]),
        3 => V::L(vec![V::atom("eq"), V::u(walk[walk.len() / 2])]),
        4 => V::L(vec![V::atom("eq"), V::u(rng.below(len + 1))]),
        5 => V::atom("prednone"),
        6 => V::L(vec![V::atom("predeq"), V::u(last)]),
        _ => V::atom("never"),
    };
    if let V::L(xs) = &tgt {
        if xs[0] == V::atom("eq") && rng.chance(1, 2) {
            emit(format!("pt_search {p} {start} {}", xs[1]));
            return;
        }
    }
    emit(format!("pt_search_by {p} {start} {tgt}"));
}

/// Round 2b: long vectors (compact description) whose walk steps onto the TOP ids (the last
/// `len % 64` ones and the ids around word / block boundaries of a bitset).
fn gen_big(rng: &mut Rng, huge: bool, emit: &mut dyn FnMut(String)) {
    let len = match rng.below(if huge { 8 } else { 7 }) {
        0..=2 => 4097 + rng.below(64),          // 4097..4160
        3 | 4 => 8191 + rng.below(10),          // 8191..8200
        5 => *rng.pick(&[4095usize, 4096, 4159, 4161, 4223, 12_289, 16_385]),
        6 => 4097 + rng.below(4200),
        _ => 65_537,
    };
    let top = len - 1 - rng.below(63.min(len - 1));       // one of the last 1..63 ids
    let word0 = (len / 64) * 64;                            // first id of the last (partial) word
    let ids = |rng: &mut Rng| -> usize {
        let x = match rng.below(8) {
            0 | 1 => len - 1 - rng.below(63),
            2 => len - 1,
            3 => word0,
            4 => word0.saturating_sub(1 + rng.below(2)),
            5 => *rng.pick(&[0usize, 63, 64, 4095, 4096]),
            _ => rng.below(len),
        };
        x.min(len - 1)                                      // always in range
    };
    let mut walk: Vec<usize> = vec![if rng.chance(1, 2) { rng.below(64) } else { ids(rng) }];
    let k = 1 + rng.below(6);
    for i in 0..k {
        let x = if i == 0 || rng.chance(1, 2) { if i == 0 { top } else { ids(rng) } } else { rng.below(len) };
        if !walk.contains(&x) { walk.push(x); }
    }
    let start = walk[0];
    let last = *walk.last().unwrap();
    let dflt = match rng.below(6) { 0 | 1 | 2 => "none".to_string(), 3 => "self".to_string(), 4 => format!("{}", rng.below(len)), _ => "none".to_string() };
    let mut exc: Vec<(usize, Option<usize>)> = walk.windows(2).map(|w| (w[0], Some(w[1]))).collect();
    match rng.below(5) {
        0 => exc.push((last, None)),
        1 => if walk.len() > 1 { exc.push((last, Some(last))) } else { exc.push((last, None)) },
        2 => exc.push((last, Some(walk[rng.below(walk.len())]))),
        3 => exc.push((last, Some(start))),
        _ => exc.push((last, None)),
    }
    let exc_v = V::L(exc.iter().map(|&(i, e)| V::L(vec![V::u(i), V::opt_u(e)])).collect());
    let tgt = match rng.below(8) {
        0..=3 => V::L(vec![V::atom("eq"), V::u(last)]),
        4 => V::L(vec![V::atom("eq"), V::u(walk[walk.len() / 2])]),
        5 => V::L(vec![V::atom("in"), V::us([last, rng.below(len)])]),
        6 => V::L(vec![V::atom("predeq"), V::u(last)]),
        _ => V::L(vec![V::atom("eq"), V::u(rng.below(len))]),
    };
    emit(format!("pt_big {len} {dflt} {exc_v} {start} {tgt}"));
}

/// `next` / `prev` defaults: a long run near the top of the vector.
fn gen_big_run(rng: &mut Rng, emit: &mut dyn FnMut(String)) {
    let len = if rng.chance(1, 2) { 4097 + rng.below(64) } else { 8191 + rng.below(10) };
    let s = len - 1 - rng.below(150);
    if rng.chance(1, 2) {
        // walk up to the end of the vector
        let t = if rng.chance(3, 4) { len - 1 - rng.below(3) } else { rng.below(len) };
        emit(format!("pt_big {len} next [] {s} [eq {t}]"));
    } else {
        // walk down from the top for a bounded number of steps
        let stop = s - 20 - rng.below(100);
        let t = if rng.chance(3, 4) { stop + rng.below(3) } else { rng.below(len) };
        emit(format!("pt_big {len} prev [[{stop} none]] {s} [eq {t}]"));
    }
}

/// Round 2b: the predicate itself searches a second predecessor tree.
fn gen_reach2(rng: &mut Rng, emit: &mut dyn FnMut(String)) {
    let cap = if rng.chance(1, 5) { 60 } else { 12 };
    let len = 2 + rng.below(cap);
    let rnd = |rng: &mut Rng| -> Vec<Option<usize>> {
        let shape = rng.below(3);
        (0..len)
            .map(|i| match shape {
                0 => if rng.chance(1, 5) { None } else { Some(rng.below(len)) },
                1 => if i == 0 { None } else { Some(rng.below(i)) },           // a tree rooted at 0
                _ => if i + 1 < len { Some(i + 1) } else { None },              // a chain
            })
            .collect()
    };
    let fwd = rnd(rng);
    let bwd = rnd(rng);
    let s = rng.below(len);
    let t = if rng.chance(1, 3) { 0 } else { rng.below(len + 1) };
    emit(format!("pt_search_by {} {s} [reach2 {} {t}]", show_pred(&fwd), show_pred(&bwd)));
}

pub fn gen(rng: &mut Rng, thorough: bool, emit: &mut dyn FnMut(String)) {
    // (00) round 2b: long vectors / top ids, re-entrant predicates
    if crate::stress() {
        emit("pt_big 4097 none [[0 4096] [4096 1]] 0 [eq 1]".to_string());
        emit("pt_big 65537 none [[0 65536] [65536 1]] 0 [eq 1]".to_string());
        emit("pt_search_by [1 2 none] 0 [reach2 [none 0 1] 0]".to_string());
        for i in 0..1_500 { gen_big(rng, i % 25 == 0, emit); }
        for _ in 0..60 { gen_big_run(rng, emit); }
        for _ in 0..4_000 { gen_reach2(rng, emit); }
    } else {
        for i in 0..(if thorough { 600 } else { 60 }) { gen_big(rng, i % 60 == 59, emit); }
        for _ in 0..(if thorough { 30 } else { 4 }) { gen_big_run(rng, emit); }
        for _ in 0..(if thorough { 20_000 } else { 2_500 }) { gen_reach2(rng, emit); }
    }
    // (0) round 2: colliding ids on long walks — in the stress tier ONLY these
    if crate::stress() {
        emit("pt_search [1 2 34 none 0 0 0 0 0 0 0 0 0 0 0 0 0 0 0 0 0 0 0 0 0 0 0 0 0 0 0 0 0 0 3] 0 3".to_string());
        for _ in 0..40_000 { gen_collide(rng, emit); }
        return;
    }
    for _ in 0..(if thorough { 20_000 } else { 3_000 }) { gen_collide(rng, emit); }
    // (1) exhaustive: every predecessor vector of length <= L (entries none | in range),
    //     every start, every equality target (incl. one absent id) + `prednone`.
    //     (6^5 + ... vectors: 5 is cheap enough for both tiers, DESIGN.md §6 C19)
    let max_len = 5;
    for len in 1usize..=max_len {
        let base = len + 1; // none + len ids
        let total = base.pow(len as u32);
        for code in 0..total {
            let mut c = code;
            let mut pred = Vec::with_capacity(len);
            for _ in 0..len {
                let d = c % base;
                c /= base;
                pred.push(if d == 0 { None } else { Some(d - 1) });
            }
            let p = show_pred(&pred);
            for s in 0..len {
                for t in 0..=len {
                    emit(format!("pt_search {p} {s} {t}"));
                }
                emit(format!("pt_search_by {p} {s} prednone"));
            }
        }
    }
    // (2) random longer vectors: chains, rho-shapes, cycles, self references
    let n_random = if thorough { 60_000 } else { 16_000 };
    for _ in 0..n_random {
        let len = if rng.chance(1, 3) { 6 + rng.below(4) } else { 1 + rng.below(60) };
        let shape = rng.below(4);
        let mut pred: Vec<Option<usize>> = (0..len)
            .map(|i| match shape {
                0 => if rng.chance(1, 6) { None } else { Some(rng.below(len)) },
                1 => if i + 1 < len { Some(i + 1) } else { None },          // one long chain
                2 => Some((i + 1) % len),                                     // one long cycle
                _ => if rng.chance(1, 10) { Some(i) } else { Some(rng.below(len)) },
            })
            .collect();
        if shape == 1 && rng.chance(1, 2) {
            // close the chain into a rho
            let last = len - 1;
            pred[last] = Some(rng.below(len));
        }
        let p = show_pred(&pred);
        let s = rng.below(len);
        let tgt = gen_tgt(rng, len);
        emit(format!("pt_search_by {p} {s} {tgt}"));
        if rng.chance(1, 4) {
            emit(format!("pt_search {p} {s} {}", rng.below(len + 1)));
        }
    }
}

/// Malformed stream (used by C13, not by C19: C19 speaks about in-range entries only):
/// start out of range (documented panic), entries out of range (must end the search, never UB).
pub fn gen_malformed(rng: &mut Rng, thorough: bool, emit: &mut dyn FnMut(String)) {
    for _ in 0..(if thorough { 2_000 } else { 200 }) {
        let len = 1 + rng.below(6);
        let pred: Vec<Option<usize>> = (0..len)
            .map(|_| match rng.below(5) {
                0 => None,
                1 => Some(len + rng.below(3)),
                2 => Some(1usize << 40),
                _ => Some(rng.below(len)),
            })
            .collect();
        let p = show_pred(&pred);
        let s = if rng.chance(1, 5) { len + rng.below(2) } else { rng.below(len) };
        emit(format!("pt_search_by {p} {s} {}", gen_tgt(rng, len)));
    }
}
