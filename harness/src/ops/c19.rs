//! C19 — `PredecessorTree::search_by` / `search` on the real code.
//!
//!   pt_search_by <pred> <s> <tgt>   =>  panic | none | [path]
//!   pt_search    <pred> <s> <t>     =>  panic | none | [path]
//!
//! `pred` = list of `none` | id; `tgt` ∈ `[eq t] [in [..]] [predeq x] prednone always never`.
#![allow(clippy::all)]

use crate::rng::Rng;
use crate::value::V;
use graaf::PredecessorTree;

fn parse_pred(v: &V) -> Option<Vec<Option<usize>>> {
    v.as_list()?.iter().map(V::as_opt_usize).collect()
}

fn out(r: Option<Vec<usize>>) -> Vec<V> {
    vec![r.map_or_else(V::none, |p| V::us(p))]
}

pub fn eval(op: &str, args: &[V]) -> Option<Vec<V>> {
    match op {
        "pt_search_by" => {
            let [pred, s, tgt] = args else { return None };
            let tree = PredecessorTree::from(parse_pred(pred)?);
            let s = s.as_usize()?;
            let r = match tgt {
                V::A(a) if a == "prednone" => tree.search_by(s, |_, p| p.is_none()),
                V::A(a) if a == "always" => tree.search_by(s, |_, _| true),
                V::A(a) if a == "never" => tree.search_by(s, |_, _| false),
                V::L(xs) if xs.len() == 2 => match xs[0].as_atom()? {
                    "eq" => {
                        let t = xs[1].as_usize()?;
                        tree.search_by(s, |&v, _| v == t)
                    }
                    "in" => {
                        let ts = xs[1].as_usizes()?;
                        tree.search_by(s, |v, _| ts.contains(v))
                    }
                    "predeq" => {
                        let x = xs[1].as_usize()?;
                        tree.search_by(s, |_, p| *p == Some(x))
                    }
                    _ => return None,
                },
                _ => return None,
            };
            Some(out(r))
        }
        "pt_search" => {
            let [pred, s, t] = args else { return None };
            let tree = PredecessorTree::from(parse_pred(pred)?);
            Some(out(tree.search(s.as_usize()?, t.as_usize()?)))
        }
        _ => None,
    }
}

fn show_pred(p: &[Option<usize>]) -> V {
    V::L(p.iter().map(|e| V::opt_u(*e)).collect())
}

fn gen_tgt(rng: &mut Rng, len: usize) -> V {
    match rng.below(8) {
        0 => V::atom("prednone"),
        1 => V::atom("never"),
        2 => V::atom("always"),
        3 => V::L(vec![V::atom("predeq"), V::u(rng.below(len + 1))]),
        4 | 5 => {
            let k = 1 + rng.below(3);
            V::L(vec![V::atom("in"), V::us((0..k).map(|_| rng.below(len + 1)))])
        }
        _ => V::L(vec![V::atom("eq"), V::u(rng.below(len + 1))]),
    }
}

pub fn gen(rng: &mut Rng, thorough: bool, emit: &mut dyn FnMut(String)) {
    // (1) exhaustive: every predecessor vector of length <= L (entries none | in range),
    //     every start, every equality target (incl. one absent id) + `prednone`.
    //     (6^5 + ... vectors: 5 is cheap enough for both tiers, DESIGN.md §6 C19)
    let max_len = 5;
    for len in 1usize..=max_len {
        let base = len + 1; // none + len ids
        let total = base.pow(len as u32);
        for code in 0..total {
            let mut c = code;
            let mut pred = Vec::with_capacity(len);
            for _ in 0..len {
                let d = c % base;
                c /= base;
                pred.push(if d == 0 { None } else { Some(d - 1) });
            }
            let p = show_pred(&pred);
            for s in 0..len {
                for t in 0..=len {
                    emit(format!("pt_search {p} {s} {t}"));
                }
                emit(format!("pt_search_by {p} {s} prednone"));
            }
        }
    }
    // (2) random longer vectors: chains, rho-shapes, cycles, self references
    let n_random = if thorough { 60_000 } else { 16_000 };
    for _ in 0..n_random {
        let len = if rng.chance(1, 3) { 6 + rng.below(4) } else { 1 + rng.below(60) };
        let shape = rng.below(4);
        let mut pred: Vec<Option<usize>> = (0..len)
            .map(|i| match shape {
                0 => if rng.chance(1, 6) { None } else { Some(rng.below(len)) },
                1 => if i + 1 < len { Some(i + 1) } else { None },          // one long chain
                2 => Some((i + 1) % len),                                     // one long cycle
                _ => if rng.chance(1, 10) { Some(i) } else { Some(rng.below(len)) },
            })
            .collect();
        if shape == 1 && rng.chance(1, 2) {
            // close the chain into a rho
            let last = len - 1;
            pred[last] = Some(rng.below(len));
        }
        let p = show_pred(&pred);
        let s = rng.below(len);
        let tgt = gen_tgt(rng, len);
        emit(format!("pt_search_by {p} {s} {tgt}"));
        if rng.chance(1, 4) {
            emit(format!("pt_search {p} {s} {}", rng.below(len + 1)));
        }
    }
}

/// Malformed stream (used by C13, not by C19: C19 speaks about in-range entries only):
/// start out of range (documented panic), entries out of range (must end the search, never UB).
pub fn gen_malformed(rng: &mut Rng, thorough: bool, emit: &mut dyn FnMut(String)) {
    for _ in 0..(if thorough { 2_000 } else { 200 }) {
        let len = 1 + rng.below(6);
        let pred: Vec<Option<usize>> = (0..len)
            .map(|_| match rng.below(5) {
                0 => None,
                1 => Some(len + rng.below(3)),
                2 => Some(1usize << 40),
                _ => Some(rng.below(len)),
            })
            .collect();
        let p = show_pred(&pred);
        let s = if rng.chance(1, 5) { len + rng.below(2) } else { rng.below(len) };
        emit(format!("pt_search_by {p} {s} {}", gen_tgt(rng, len)));
    }
}
