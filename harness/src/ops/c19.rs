//! C19 — `PredecessorTree::search_by` / `search` on the real code.
//!
//!   pt_search_by <pred> <s> <tgt>   =>  panic | none | [path]
//!   pt_search    <pred> <s> <t>     =>  panic | none | [path]
//!
//! `pred` = list of `none` | id; `tgt` ∈ `[eq t] [in [..]] [predeq x] prednone always never`.
#![allow(clippy::all)]

use crate::rng::Rng;
use crate::value::V;
use graaf::PredecessorTree;

fn parse_pred(v: &V) -> Option<Vec<Option<usize>>> {
    v.as_list()?.iter().map(V::as_opt_usize).collect()
}

fn out(r: Option<Vec<usize>>) -> Vec<V> {
    vec![r.map_or_else(V::none, |p| V::us(p))]
}

pub fn eval(op: &str, args: &[V]) -> Option<Vec<V>> {
    match op {
        "pt_search_by" => {
            let [pred, s, tgt] = args else { return None };
            let tree = PredecessorTree::from(parse_pred(pred)?);
            let s = s.as_usize()?;
            let r = match tgt {
                V::A(a) if a == "prednone" => tree.search_by(s, |_, p| p.is_none()),
                V::A(a) if a == "always" => tree.search_by(s, |_, _| true),
                V::A(a) if a == "never" => tree.search_by(s, |_, _| false),
                V::L(xs) if xs.len() == 2 => match xs[0].as_atom()? {
                    "eq" => {
                        let t = xs[1].as_usize()?;
                        tree.search_by(s, |&v, _| v == t)
                    }
                    "in" => {
                        let ts = xs[1].as_usizes()?;
                        tree.search_by(s, |v, _| ts.contains(v))
                    }
                    "predeq" => {
                        let x = xs[1].as_usize()?;
                        tree.search_by(s, |_, p| *p == Some(x))
                    }
                    _ => return None,
                },
                _ => return None,
            };
            Some(out(r))
        }
        "pt_search" => {
            let [pred, s, t] = args else { return None };
            let tree = PredecessorTree::from(parse_pred(pred)?);
            Some(out(tree.search(s.as_usize()?, t.as_usize()?)))
        }
        _ => None,
    }
}

fn show_pred(p: &[Option<usize>]) -> V {
    V::L(p.iter().map(|e| V::opt_u(*e)).collect())
}

fn gen_tgt(rng: &mut Rng, len: usize) -> V {
    match rng.below(8) {
        0 => V::atom("prednone"),
        1 => V::atom("never"),
        2 => V::atom("always"),
        3 => V::L(vec![V::atom("predeq"), V::u(rng.below(len + 1))]),
        4 | 5 => {
            let k = 1 + rng.below(3);
            V::L(vec![V::atom("in"), V::us((0..k).map(|_| rng.below(len + 1)))])
        }
        _ => V::L(vec![V::atom("eq"), V::u(rng.below(len + 1))]),
    }
}

/// Round 2: a walk laid out explicitly over ids that collide under bit tricks (`k`, `k+32`, `k+64`,
/// `k+128`, `k+256` — same residue mod 32 / 64, same or neighbouring 64-bit word), in a vector of
/// length 33..300; the walk ends in `none`, in a self-reference (not at the start), in a back edge
/// (rho) or back at the start; the other entries are random.
fn gen_collide(rng: &mut Rng, emit: &mut dyn FnMut(String)) {
    let len = match rng.below(6) {
        0 => 33 + rng.below(8),
        1 => 63 + rng.below(6),
        2 => 96 + rng.below(40),
        3 => 255 + rng.below(46),
        _ => 33 + rng.below(268),
    };
    // distinct ids of the walk
    let mut walk: Vec<usize> = Vec::new();
    let push = |walk: &mut Vec<usize>, x: usize| {
        if x < len && !walk.contains(&x) { walk.push(x); }
    };
    let start = rng.below(len);
    push(&mut walk, start);
    let groups = 1 + rng.below(3);
    for _ in 0..groups {
        let k = rng.below(len);
        let mut g: Vec<usize> = vec![k];
        for d in [32usize, 64, 96, 128, 256] {
            if rng.chance(2, 3) { g.push(k + d); }
            if k >= d && rng.chance(1, 3) { g.push(k - d); }
        }
        rng.shuffle(&mut g);
        for x in g {
            // a few unrelated vertices in between
            if rng.chance(1, 3) { let y = rng.below(len); push(&mut walk, y); }
            push(&mut walk, x);
        }
    }
    for _ in 0..rng.below(4) { let y = rng.below(len); push(&mut walk, y); }
    let mut pred: Vec<Option<usize>> = (0..len)
        .map(|i| match rng.below(8) { 0 => None, 1 => Some(i), _ => Some(rng.below(len)) })
        .collect();
    for w in walk.windows(2) {
        pred[w[0]] = Some(w[1]);
    }
    let last = *walk.last().unwrap();
    let end_kind = rng.below(5);
    pred[last] = match end_kind {
        0 => None,
        1 => if walk.len() > 1 { Some(last) } else { None },   // self-reference, not at the start
        2 => Some(walk[rng.below(walk.len())]),                 // rho: back into the walk
        3 => Some(start),                                       // cycle through the start
        _ => pred[last],                                        // whatever the random filling says
    };
    let p = show_pred(&pred);
    // targets: the last vertex, one in the middle, one off the walk, predicates on the entry
    let tgt = match rng.below(8) {
        0 | 1 | 2 => V::L(vec![V::atom("eq"), V::u(last)]),
        3 => V::L(vec![V::atom("eq"), V::u(walk[walk.len() / 2])]),
        4 => V::L(vec![V::atom("eq"), V::u(rng.below(len + 1))]),
        5 => V::atom("prednone"),
        6 => V::L(vec![V::atom("predeq"), V::u(last)]),
        _ => V::atom("never"),
    };
    if let V::L(xs) = &tgt {
        if xs[0] == V::atom("eq") && rng.chance(1, 2) {
            emit(format!("pt_search {p} {start} {}", xs[1]));
            return;
        }
    }
    emit(format!("pt_search_by {p} {start} {tgt}"));
}

pub fn gen(rng: &mut Rng, thorough: bool, emit: &mut dyn FnMut(String)) {
    // (0) round 2: colliding ids on long walks — in the stress tier ONLY these
    if crate::stress() {
        emit("pt_search [1 2 34 none 0 0 0 0 0 0 0 0 0 0 0 0 0 0 0 0 0 0 0 0 0 0 0 0 0 0 0 0 0 0 3] 0 3".to_string());
        for _ in 0..40_000 { gen_collide(rng, emit); }
        return;
    }
    for _ in 0..(if thorough { 20_000 } else { 3_000 }) { gen_collide(rng, emit); }
    // (1) exhaustive: every predecessor vector of length <= L (entries none | in range),
    //     every start, every equality target (incl. one absent id) + `prednone`.
    //     (6^5 + ... vectors: 5 is cheap enough for both tiers, DESIGN.md §6 C19)
    let max_len = 5;
    for len in 1usize..=max_len {
        let base = len + 1; // none + len ids
        let total = base.pow(len as u32);
        for code in 0..total {
            let mut c = code;
            let mut pred = Vec::with_capacity(len);
            for _ in 0..len {
                let d = c % base;
                c /= base;
                pred.push(if d == 0 { None } else { Some(d - 1) });
            }
            let p = show_pred(&pred);
            for s in 0..len {
                for t in 0..=len {
                    emit(format!("pt_search {p} {s} {t}"));
                }
                emit(format!("pt_search_by {p} {s} prednone"));
            }
        }
    }
    // (2) random longer vectors: chains, rho-shapes, cycles, self references
    let n_random = if thorough { 60_000 } else { 16_000 };
    for _ in 0..n_random {
        let len = if rng.chance(1, 3) { 6 + rng.below(4) } else { 1 + rng.below(60) };
        let shape = rng.below(4);
        let mut pred: Vec<Option<usize>> = (0..len)
            .map(|i| match shape {
                0 => if rng.chance(1, 6) { None } else { Some(rng.below(len)) },
                1 => if i + 1 < len { Some(i + 1) } else { None },          // one long chain
                2 => Some((i + 1) % len),                                     // one long cycle
                _ => if rng.chance(1, 10) { Some(i) } else { Some(rng.below(len)) },
            })
            .collect();
        if shape == 1 && rng.chance(1, 2) {
            // close the chain into a rho
            let last = len - 1;
            pred[last] = Some(rng.below(len));
        }
        let p = show_pred(&pred);
        let s = rng.below(len);
        let tgt = gen_tgt(rng, len);
        emit(format!("pt_search_by {p} {s} {tgt}"));
        if rng.chance(1, 4) {
            emit(format!("pt_search {p} {s} {}", rng.below(len + 1)));
        }
    }
}

/// Malformed stream (used by C13, not by C19: C19 speaks about in-range entries only):
/// start out of range (documented panic), entries out of range (must end the search, never UB).
pub fn gen_malformed(rng: &mut Rng, thorough: bool, emit: &mut dyn FnMut(String)) {
    for _ in 0..(if thorough { 2_000 } else { 200 }) {
        let len = 1 + rng.below(6);
        let pred: Vec<Option<usize>> = (0..len)
            .map(|_| match rng.below(5) {
                0 => None,
                1 => Some(len + rng.below(3)),
                2 => Some(1usize << 40),
                _ => Some(rng.below(len)),
            })
            .collect();
        let p = show_pred(&pred);
        let s = if rng.chance(1, 5) { len + rng.below(2) } else { rng.below(len) };
        emit(format!("pt_search_by {p} {s} {}", gen_tgt(rng, len)));
    }
}
