//! C04 — `Bfs`, `BfsDist` on the real code, every representation.
//!
//!   bfs_iter           <desc> <sources>  =>  [v …]
//!   bfs_dist_iter      <desc> <sources>  =>  [[v w] …]
//!   bfs_dist_distances <desc> <sources>  =>  [d …]          (usize::MAX printed in full)
//!
//! `<desc>` is a digraph description (`graphs::Desc`), `<sources>` a list of vertex ids handed to
//! `new` in that order.  A panic anywhere (building, `new`, iteration) is reported by `main.rs`
//! as `panic`.
#![allow(clippy::all)]

use crate::graphs::{self, Desc};
use crate::rng::Rng;
use crate::value::V;
use crate::with_digraph;
use graaf::{Bfs, BfsDist};
use std::collections::BTreeSet;

pub fn eval(op: &str, args: &[V]) -> Option<Vec<V>> {
    match op {
        "bfs_iter" => {
            let [desc, srcs] = args else { return None };
            let desc = Desc::parse(desc)?;
            let srcs = srcs.as_usizes()?;
            let out: Vec<usize> = with_digraph!(&desc, d => Bfs::new(&d, srcs.iter().copied()).collect());
            Some(vec![V::us(out)])
        }
        "bfs_dist_iter" => {
            let [desc, srcs] = args else { return None };
            let desc = Desc::parse(desc)?;
            let srcs = srcs.as_usizes()?;
            let out: Vec<(usize, usize)> =
                with_digraph!(&desc, d => BfsDist::new(&d, srcs.iter().copied()).collect());
            Some(vec![V::pairs(out)])
        }
        "bfs_dist_distances" => {
            let [desc, srcs] = args else { return None };
            let desc = Desc::parse(desc)?;
            let srcs = srcs.as_usizes()?;
            let out: Vec<usize> =
                with_digraph!(&desc, d => BfsDist::new(&d, srcs.iter().copied()).distances());
            Some(vec![V::us(out)])
        }
        _ => None,
    }
}

// ---------------------------------------------------------------------------------------
// generator (shared with c05.rs)
// ---------------------------------------------------------------------------------------

/// Families that stress a breadth-first traversal: deep levels (fuel bound, level growth),
/// wide levels, ties between parents, several components.  Vertex ids are permuted so that
/// discovery order differs from id order.
fn gen_bfs_family(rng: &mut Rng, n: usize) -> (&'static str, Vec<(usize, usize)>) {
    let mut set: BTreeSet<(usize, usize)> = BTreeSet::new();
    let name: &'static str;
    match rng.below(7) {
        0 => {
            name = "path";
            for i in 0..n.saturating_sub(1) {
                let _ = set.insert((i, i + 1));
            }
        }
        1 => {
            name = "cycle";
            if n >= 2 {
                for i in 0..n {
                    let _ = set.insert((i, (i + 1) % n));
                }
            }
            if n >= 4 && rng.chance(1, 2) {
                // a chord: two routes of different length to the same vertex
                let a = rng.below(n);
                let b = (a + 2 + rng.below(n - 3)) % n;
                if a != b {
                    let _ = set.insert((a, b));
                }
            }
        }
        2 => {
            name = "out-tree";
            let k = 1 + rng.below(3);
            for v in 1..n {
                let _ = set.insert(((v - 1) / k, v));
            }
        }
        3 => {
            name = "in-tree";
            let k = 1 + rng.below(3);
            for v in 1..n {
                let _ = set.insert((v, (v - 1) / k));
            }
        }
        4 => {
            name = "grid";
            let w = 1 + rng.below(n.min(12));
            for v in 0..n {
                if (v + 1) % w != 0 && v + 1 < n {
                    let _ = set.insert((v, v + 1));
                    if rng.chance(1, 2) {
                        let _ = set.insert((v + 1, v));
                    }
                }
                if v + w < n {
                    let _ = set.insert((v, v + w));
                    if rng.chance(1, 2) {
                        let _ = set.insert((v + w, v));
                    }
                }
            }
        }
        5 => {
            // complete layers: every vertex of layer i points to every vertex of layer i+1,
            // so every vertex has many candidate parents
            name = "full-layers";
            let w = 1 + rng.below(n.min(9));
            for u in 0..n {
                for v in 0..n {
                    if v / w == u / w + 1 {
                        let _ = set.insert((u, v));
                    }
                }
            }
            if rng.chance(1, 2) && n >= 2 {
                let _ = set.insert((n - 1, 0));
            }
        }
        _ => {
            // several small components, some of them cyclic
            name = "components";
            let mut start = 0;
            while start < n {
                let len = (1 + rng.below(5)).min(n - start);
                for i in 0..len.saturating_sub(1) {
                    let _ = set.insert((start + i, start + i + 1));
                }
                if len >= 2 && rng.chance(1, 2) {
                    let _ = set.insert((start + len - 1, start));
                }
                start += len;
            }
        }
    }
    // relabel
    let mut perm: Vec<usize> = (0..n).collect();
    if rng.chance(3, 4) {
        rng.shuffle(&mut perm);
    }
    let mut arcs: Vec<(usize, usize)> = set.into_iter().map(|(u, v)| (perm[u], perm[v])).filter(|&(u, v)| u != v).collect();
    rng.shuffle(&mut arcs);
    (name, arcs)
}

/// One traversal input: a description in a random representation (all six are used) and a
/// list of distinct in-range sources (empty / single / several).
pub fn gen_case(rng: &mut Rng) -> (Desc, Vec<usize>) {
    let repr = *rng.pick(&graphs::ALL_REPRS);
    let mut desc = if rng.chance(1, 4) {
        let n = graphs::gen_order(rng, 130);
        let (_, arcs) = gen_bfs_family(rng, n);
        let k = arcs.len();
        Desc { repr: repr.to_string(), verts: (0..n).collect(), arcs, weights: vec![1; k] }
    } else {
        graphs::gen_desc(rng, repr, 130).1
    };
    match repr {
        "wu" => desc.weights = desc.arcs.iter().map(|_| i128::from(rng.range(0, 9))).collect(),
        "wi" => desc.weights = desc.arcs.iter().map(|_| i128::from(rng.range(-5, 9))).collect(),
        _ => {}
    }
    let srcs = graphs::gen_sources(rng, desc.order());
    (desc, srcs)
}

/// All digraphs (no self-loops) on exactly `n` vertices × all source subsets; `f` gets the
/// running index (used to rotate representations / ops), arcs and sources.
pub fn for_all_small(n: usize, f: &mut dyn FnMut(usize, &[(usize, usize)], &[usize])) {
    let pairs: Vec<(usize, usize)> =
        (0..n).flat_map(|u| (0..n).filter(move |&v| v != u).map(move |v| (u, v))).collect();
    let mut idx = 0usize;
    for code in 0u32..(1u32 << pairs.len()) {
        let arcs: Vec<(usize, usize)> =
            pairs.iter().enumerate().filter(|(i, _)| code >> i & 1 == 1).map(|(_, &p)| p).collect();
        for smask in 0u32..(1u32 << n) {
            let srcs: Vec<usize> = (0..n).filter(|i| smask >> i & 1 == 1).collect();
            f(idx, &arcs, &srcs);
            idx += 1;
        }
    }
}

pub fn small_desc(repr: &str, n: usize, arcs: &[(usize, usize)]) -> Desc {
    Desc { repr: repr.to_string(), verts: (0..n).collect(), arcs: arcs.to_vec(), weights: vec![1; arcs.len()] }
}

const OPS: [&str; 3] = ["bfs_iter", "bfs_dist_iter", "bfs_dist_distances"];

pub fn gen(rng: &mut Rng, thorough: bool, emit: &mut dyn FnMut(String)) {
    // (1) exhaustive small scope: all digraphs on <= 3 (quick) / <= 4 (thorough) vertices x all
    //     source subsets; representation and op rotate (thorough: every op on <= 3 vertices).
    let max_n = if thorough { 4 } else { 3 };
    for n in 1..=max_n {
        for_all_small(n, &mut |idx, arcs, srcs| {
            let repr = graphs::ALL_REPRS[idx % 6];
            let d = small_desc(repr, n, arcs).to_v();
            let s = V::us(srcs.iter().copied());
            if thorough && n <= 3 {
                for op in OPS {
                    emit(format!("{op} {d} {s}"));
                }
            } else {
                emit(format!("{} {d} {s}", OPS[(idx / 6) % 3]));
            }
            // the order in which the sources are handed over is part of the input
            if srcs.len() >= 2 && (n <= 3 && thorough || idx % 4 == 0) {
                let r = V::us(srcs.iter().rev().copied());
                emit(format!("bfs_dist_iter {d} {r}"));
            }
        });
    }
    // (2) random: shared families + BFS families, orders 1..130, all representations
    let n_random = if thorough { 20_000 } else { 1_000 };
    for _ in 0..n_random {
        let (desc, srcs) = gen_case(rng);
        let d = desc.to_v();
        let s = V::us(srcs.iter().copied());
        for op in OPS {
            emit(format!("{op} {d} {s}"));
        }
    }
}
