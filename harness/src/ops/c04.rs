//! C04 — `Bfs`, `BfsDist` on the real code, every representation.
//!
//!   bfs_iter           <desc> <sources> [shape]  =>  [v …]
//!   bfs_dist_iter      <desc> <sources> [shape]  =>  [[v w] …]
//!   bfs_dist_distances <desc> <sources> [shape]  =>  [d …]          (usize::MAX printed in full)
//!   bfs_dist_distances_twice <desc> <sources> [shape]  =>  [d …] [d …]   (same object, called twice)
//!   bfs_iter_repoll / bfs_dist_iter_repoll <desc> <sources> <k> <extra> [shape]
//!                                              =>  [first ≤k items] [rest] [rest of a clone] [extra polls after None]
//!
//! `<desc>` is a digraph description (`graphs::Desc`), `<sources>` a list of vertex ids handed to
//! `new` in that order, `[shape]` the KIND OF ITERATOR they are handed over as (default `slice`):
//! exact-size ones (`slice`, `vec`) and lazy ones whose `size_hint()` lower bound is 0
//! (`filter flat_map flatten from_fn take_while map_while skip_while scan`, and `range_filter` =
//! `(0..order).filter(|u| sources.contains(u))`, i.e. ascending and duplicate-free).
//! A panic anywhere (building, `new`, iteration) is reported by `main.rs` as `panic`.
#![allow(clippy::all)]

use crate::graphs::{self, Desc};
use crate::rng::Rng;
use crate::value::V;
use crate::with_digraph;
use graaf::{Bfs, BfsDist, Order, OutNeighbors};
use std::collections::BTreeSet;

pub const SHAPES: [&str; 11] = [
    "slice", "vec", "filter", "flat_map", "flatten", "from_fn", "take_while", "map_while", "skip_while", "scan",
    "range_filter",
];
/// The lazy ones (lower size hint 0) that keep the order of `<sources>`.
pub const LAZY: [&str; 8] = ["filter", "flat_map", "flatten", "from_fn", "take_while", "map_while", "skip_while", "scan"];

/// Run `$body` with `$it` bound to the sources as an iterator of the named shape
/// (`Iterator<Item = usize> + Clone`). `$n` = order (for `range_filter`).
#[macro_export]
macro_rules! with_sources {
    ($shape:expr, $srcs:expr, $n:expr, $it:ident => $body:expr) => {{
        let s__: &Vec<usize> = $srcs;
        let n__: usize = $n;
        match $shape {
            "slice" => { let $it = s__.iter().copied(); $body }
            "vec" => { let $it = s__.clone().into_iter(); $body }
            "filter" => { let $it = s__.iter().copied().filter(|_| true); $body }
            "flat_map" => { let $it = s__.iter().flat_map(|&u| std::iter::once(u)); $body }
            "flatten" => { let $it = s__.iter().map(|&u| Some(u)).flatten(); $body }
            "from_fn" => {
                let mut i__ = 0usize;
                let $it = std::iter::from_fn(move || { let r = s__.get(i__).copied(); i__ += 1; r });
                $body
            }
            "take_while" => { let $it = s__.iter().copied().take_while(|_| true); $body }
            "map_while" => { let $it = s__.iter().copied().map_while(Some); $body }
            "skip_while" => { let $it = s__.iter().copied().skip_while(|_| false); $body }
            "scan" => { let $it = s__.iter().copied().scan((), |_, u| Some(u)); $body }
            "range_filter" => { let $it = (0..n__).filter(|u| s__.contains(u)); $body }
            other => panic!("unknown source shape {other}"),
        }
    }};
}

pub fn shape_of(v: Option<&V>) -> Option<&str> {
    match v {
        None => Some("slice"),
        Some(v) => {
            let a = v.as_atom()?;
            SHAPES.contains(&a).then_some(a)
        }
    }
}

enum Job {
    Iter,
    DistIter,
    Distances,
    DistancesTwice,
    IterRepoll(usize, usize),
    DistRepoll(usize, usize),
}

/// poll ≤ k items, clone, drain the original, drain the clone, poll the original `extra` more times
pub fn repoll<I: Iterator + Clone>(mut it: I, k: usize, extra: usize, show: &dyn Fn(&I::Item) -> V) -> Vec<V> {
    let mut first = vec![];
    for _ in 0..k {
        match it.next() {
            Some(x) => first.push(show(&x)),
            None => break,
        }
    }
    let mut it2 = it.clone();
    let mut rest = vec![];
    while let Some(x) = it.next() {
        rest.push(show(&x));
    }
    let mut rest2 = vec![];
    while let Some(x) = it2.next() {
        rest2.push(show(&x));
    }
    let late: Vec<V> = (0..extra).map(|_| it.next().map_or_else(V::none, |x| show(&x))).collect();
    vec![V::L(first), V::L(rest), V::L(rest2), V::L(late)]
}

fn run_job<D, T>(d: &D, it: T, job: &Job) -> Vec<V>
where
    D: Order + OutNeighbors + Clone,
    T: Iterator<Item = usize> + Clone,
{
    match job {
        Job::Iter => vec![V::us(Bfs::new(d, it))],
        Job::DistIter => vec![V::pairs(BfsDist::new(d, it))],
        Job::Distances => vec![V::us(BfsDist::new(d, it).distances())],
        Job::DistancesTwice => {
            let mut b = BfsDist::new(d, it);
            let a = b.distances();
            let c = b.distances();
            vec![V::us(a), V::us(c)]
        }
        Job::IterRepoll(k, extra) => repoll(Bfs::new(d, it), *k, *extra, &|&v| V::u(v)),
        Job::DistRepoll(k, extra) => {
            repoll(BfsDist::new(d, it), *k, *extra, &|&(v, w)| V::L(vec![V::u(v), V::u(w)]))
        }
    }
}

pub fn eval(op: &str, args: &[V]) -> Option<Vec<V>> {
    let (job, rest) = match op {
        "bfs_iter" => (Job::Iter, args.get(2..)?),
        "bfs_dist_iter" => (Job::DistIter, args.get(2..)?),
        "bfs_dist_distances" => (Job::Distances, args.get(2..)?),
        "bfs_dist_distances_twice" => (Job::DistancesTwice, args.get(2..)?),
        "bfs_iter_repoll" => (Job::IterRepoll(args.get(2)?.as_usize()?, args.get(3)?.as_usize()?), args.get(4..)?),
        "bfs_dist_iter_repoll" => {
            (Job::DistRepoll(args.get(2)?.as_usize()?, args.get(3)?.as_usize()?), args.get(4..)?)
        }
        _ => return None,
    };
    if rest.len() > 1 {
        return None;
    }
    let shape = shape_of(rest.first())?;
    let desc = Desc::parse(&args[0])?;
    let srcs = args[1].as_usizes()?;
    let n = desc.order();
    Some(with_digraph!(&desc, d => crate::with_sources!(shape, &srcs, n, it => run_job(&d, it, &job))))
}

// ---------------------------------------------------------------------------------------
// generator (shared with c05.rs)
// ---------------------------------------------------------------------------------------

/// Families that stress a breadth-first traversal: deep levels (fuel bound, level growth),
/// wide levels, ties between parents, several components.  Vertex ids are permuted so that
/// discovery order differs from id order.
fn gen_bfs_family(rng: &mut Rng, n: usize) -> (&'static str, Vec<(usize, usize)>) {
    let mut set: BTreeSet<(usize, usize)> = BTreeSet::new();
    let name: &'static str;
    match rng.below(7) {
        0 => {
            name = "path";
            for i in 0..n.saturating_sub(1) {
                let _ = set.insert((i, i + 1));
            }
        }
        1 => {
            name = "cycle";
            if n >= 2 {
                for i in 0..n {
                    let _ = set.insert((i, (i + 1) % n));
                }
            }
            if n >= 4 && rng.chance(1, 2) {
                // a chord: two routes of different length to the same vertex
                let a = rng.below(n);
                let b = (a + 2 + rng.below(n - 3)) % n;
                if a != b {
                    let _ = set.insert((a, b));
                }
            }
        }
        2 => {
            name = "out-tree";
            let k = 1 + rng.below(3);
            for v in 1..n {
                let _ = set.insert(((v - 1) / k, v));
            }
        }
        3 => {
            name = "in-tree";
            let k = 1 + rng.below(3);
            for v in 1..n {
                let _ = set.insert((v, (v - 1) / k));
            }
        }
        4 => {
            name = "grid";
            let w = 1 + rng.below(n.min(12));
            for v in 0..n {
                if (v + 1) % w != 0 && v + 1 < n {
                    let _ = set.insert((v, v + 1));
                    if rng.chance(1, 2) {
                        let _ = set.insert((v + 1, v));
                    }
                }
                if v + w < n {
                    let _ = set.insert((v, v + w));
                    if rng.chance(1, 2) {
                        let _ = set.insert((v + w, v));
                    }
                }
            }
        }
        5 => {
            // complete layers: every vertex of layer i points to every vertex of layer i+1,
            // so every vertex has many candidate parents
            name = "full-layers";
            let w = 1 + rng.below(n.min(9));
            for u in 0..n {
                for v in 0..n {
                    if v / w == u / w + 1 {
                        let _ = set.insert((u, v));
                    }
                }
            }
            if rng.chance(1, 2) && n >= 2 {
                let _ = set.insert((n - 1, 0));
            }
        }
        _ => {
            // several small components, some of them cyclic
            name = "components";
            let mut start = 0;
            while start < n {
                let len = (1 + rng.below(5)).min(n - start);
                for i in 0..len.saturating_sub(1) {
                    let _ = set.insert((start + i, start + i + 1));
                }
                if len >= 2 && rng.chance(1, 2) {
                    let _ = set.insert((start + len - 1, start));
                }
                start += len;
            }
        }
    }
    // relabel
    let mut perm: Vec<usize> = (0..n).collect();
    if rng.chance(3, 4) {
        rng.shuffle(&mut perm);
    }
    let mut arcs: Vec<(usize, usize)> = set.into_iter().map(|(u, v)| (perm[u], perm[v])).filter(|&(u, v)| u != v).collect();
    rng.shuffle(&mut arcs);
    (name, arcs)
}

/// One traversal input: a description in a random representation (all six are used) and a
/// list of distinct in-range sources (empty / single / several).
pub fn gen_case(rng: &mut Rng) -> (Desc, Vec<usize>) {
    let repr = *rng.pick(&graphs::ALL_REPRS);
    let mut desc = if rng.chance(1, 4) {
        let n = graphs::gen_order(rng, 130);
        let (_, arcs) = gen_bfs_family(rng, n);
        let k = arcs.len();
        Desc { repr: repr.to_string(), verts: (0..n).collect(), arcs, weights: vec![1; k] }
    } else {
        graphs::gen_desc(rng, repr, 130).1
    };
    match repr {
        "wu" => desc.weights = desc.arcs.iter().map(|_| i128::from(rng.range(0, 9))).collect(),
        "wi" => desc.weights = desc.arcs.iter().map(|_| i128::from(rng.range(-5, 9))).collect(),
        _ => {}
    }
    let srcs = graphs::gen_sources(rng, desc.order());
    (desc, srcs)
}

/// All digraphs (no self-loops) on exactly `n` vertices × all source subsets; `f` gets the
/// running index (used to rotate representations / ops), arcs and sources.
pub fn for_all_small(n: usize, f: &mut dyn FnMut(usize, &[(usize, usize)], &[usize])) {
    let pairs: Vec<(usize, usize)> =
        (0..n).flat_map(|u| (0..n).filter(move |&v| v != u).map(move |v| (u, v))).collect();
    let mut idx = 0usize;
    for code in 0u32..(1u32 << pairs.len()) {
        let arcs: Vec<(usize, usize)> =
            pairs.iter().enumerate().filter(|(i, _)| code >> i & 1 == 1).map(|(_, &p)| p).collect();
        for smask in 0u32..(1u32 << n) {
            let srcs: Vec<usize> = (0..n).filter(|i| smask >> i & 1 == 1).collect();
            f(idx, &arcs, &srcs);
            idx += 1;
        }
    }
}

pub fn small_desc(repr: &str, n: usize, arcs: &[(usize, usize)]) -> Desc {
    Desc { repr: repr.to_string(), verts: (0..n).collect(), arcs: arcs.to_vec(), weights: vec![1; arcs.len()] }
}

const OPS: [&str; 3] = ["bfs_iter", "bfs_dist_iter", "bfs_dist_distances"];

/// The trailing `[shape]` argument (with its leading blank): half of the cases keep the
/// exact-size default, the others hand the sources over as a lazy iterator.
/// `range_filter` enumerates ascending, so the sources are sorted for it.
pub fn gen_shape(rng: &mut Rng, srcs: &mut Vec<usize>) -> String {
    if rng.chance(1, 2) {
        return String::new();
    }
    if rng.chance(1, 8) {
        return " vec".to_string();
    }
    if rng.chance(1, 6) {
        srcs.sort_unstable();
        return " range_filter".to_string();
    }
    format!(" {}", rng.pick(&LAZY))
}

/// Large digraphs for the stress stream: sparse families of any order, or a given density.
/// Returns the arcs and a vertex from which (for the path-like families) the search is deep.
pub fn gen_large(rng: &mut Rng, n: usize, density: Option<(u64, u64)>) -> (Vec<(usize, usize)>, usize) {
    let mut perm: Vec<usize> = (0..n).collect();
    rng.shuffle(&mut perm);
    let mut set: BTreeSet<(usize, usize)> = BTreeSet::new();
    if let Some((a, b)) = density {
        for u in 0..n {
            for v in 0..n {
                if u != v && rng.chance(a, b) {
                    let _ = set.insert((u, v));
                }
            }
        }
    } else {
        match rng.below(5) {
            0 => {
                for i in 0..n - 1 {
                    let _ = set.insert((i, i + 1));
                }
                if rng.chance(1, 2) {
                    let _ = set.insert((n - 1, 0));
                }
            }
            1 => {
                let k = 1 + rng.below(3);
                for v in 1..n {
                    let _ = set.insert(((v - 1) / k, v));
                    if rng.chance(1, 8) {
                        let _ = set.insert((v, (v - 1) / k));
                    }
                }
            }
            2 => {
                let w = 2 + rng.below(30);
                for v in 0..n {
                    if (v + 1) % w != 0 && v + 1 < n {
                        let _ = set.insert((v, v + 1));
                    }
                    if v + w < n {
                        let _ = set.insert((v, v + w));
                    }
                    if v >= w && rng.chance(1, 4) {
                        let _ = set.insert((v, v - w));
                    }
                }
            }
            3 => {
                // complete layers of width w: every vertex has w candidate parents
                let w = 2 + rng.below(14);
                for u in 0..n {
                    for v in (u / w + 1) * w..((u / w + 2) * w).min(n) {
                        let _ = set.insert((u, v));
                    }
                }
            }
            _ => {
                for u in 0..n {
                    for _ in 0..1 + rng.below(3) {
                        let v = rng.below(n);
                        if v != u {
                            let _ = set.insert((u, v));
                        }
                    }
                }
            }
        }
    }
    let mut arcs: Vec<(usize, usize)> = set.into_iter().map(|(u, v)| (perm[u], perm[v])).collect();
    rng.shuffle(&mut arcs);
    (arcs, perm[0])
}

/// Sources for a large digraph: the deep start vertex and up to two more.
pub fn large_sources(rng: &mut Rng, n: usize, start: usize) -> Vec<usize> {
    let mut s = vec![start];
    for _ in 0..rng.below(3) {
        let v = rng.below(n);
        if !s.contains(&v) {
            s.push(v);
        }
    }
    if rng.chance(1, 3) {
        s.reverse();
    }
    s
}

pub const STRESS_ORDERS: [usize; 12] = [192, 255, 256, 257, 320, 363, 384, 511, 512, 513, 577, 600];
/// (order, density, representation) of the few dense stress cases (lines of 0.3 - 2.5 MB)
pub const STRESS_DENSE: [(usize, (u64, u64), &str); 7] = [
    (257, (1, 1), "al"), (256, (1, 2), "mx"), (363, (1, 1), "wu"), (363, (1, 2), "al"),
    (257, (1, 2), "el"), (512, (1, 4), "al"), (513, (1, 4), "mx"),
];

fn with_weights(rng: &mut Rng, repr: &str, arcs: Vec<(usize, usize)>, n: usize) -> Desc {
    let k = arcs.len();
    let mut d = Desc { repr: repr.to_string(), verts: (0..n).collect(), arcs, weights: vec![1; k] };
    if repr == "wi" {
        d.weights = (0..k).map(|_| i128::from(rng.range(-5, 9))).collect();
    }
    d
}

pub fn large_desc(rng: &mut Rng, repr: &str, n: usize, density: Option<(u64, u64)>) -> (Desc, Vec<usize>) {
    let (arcs, start) = gen_large(rng, n, density);
    let srcs = large_sources(rng, n, start);
    (with_weights(rng, repr, arcs, n), srcs)
}

/// Out-of-distribution stream (only for `gharness gen C04 <seed> stress`), most promising first.
fn gen_stress(rng: &mut Rng, emit: &mut dyn FnMut(String)) {
    // (s1) every op with every source-iterator shape on small and medium digraphs, re-polling
    for i in 0..400 {
        let (desc, mut srcs) = gen_case(rng);
        let shape = SHAPES[i % SHAPES.len()];
        if shape == "range_filter" {
            srcs.sort_unstable();
        }
        let d = desc.to_v();
        let s = V::us(srcs.iter().copied());
        for op in OPS {
            emit(format!("{op} {d} {s} {shape}"));
        }
        let k = rng.below(desc.order() + 2);
        emit(format!("bfs_iter_repoll {d} {s} {k} {} {shape}", 1 + rng.below(3)));
        emit(format!("bfs_dist_iter_repoll {d} {s} {k} {} {shape}", 1 + rng.below(3)));
        emit(format!("bfs_dist_distances_twice {d} {s} {shape}"));
    }
    // (s2) large sparse digraphs of the threshold orders, every representation
    for round in 0..2 {
        for (j, &n) in STRESS_ORDERS.iter().enumerate() {
            let repr = graphs::ALL_REPRS[(j + round * 5) % 6];
            let (desc, mut srcs) = large_desc(rng, repr, n, None);
            let shape = gen_shape(rng, &mut srcs);
            let d = desc.to_v();
            let s = V::us(srcs.iter().copied());
            emit(format!("bfs_iter {d} {s}{shape}"));
            emit(format!("bfs_dist_iter {d} {s}{shape}"));
            emit(format!("bfs_dist_distances {d} {s}{shape}"));
            emit(format!("bfs_dist_iter_repoll {d} {s} {} 2{shape}", rng.below(n)));
        }
    }
    // (s3) a few dense ones (long queues, every vertex has hundreds of candidate parents)
    for &(n, dens, repr) in &STRESS_DENSE {
        let (desc, srcs) = large_desc(rng, repr, n, Some(dens));
        let d = desc.to_v();
        let s = V::us(srcs.iter().copied());
        emit(format!("bfs_dist_iter {d} {s}"));
        emit(format!("bfs_iter_repoll {d} {s} {} 2 filter", n / 2));
    }
}

pub fn gen(rng: &mut Rng, thorough: bool, emit: &mut dyn FnMut(String)) {
    if crate::stress() {
        gen_stress(rng, emit);
        return;
    }
    // (1) exhaustive small scope: all digraphs on <= 3 (quick) / <= 4 (thorough) vertices x all
    //     source subsets; representation, op and source-iterator shape rotate (thorough: every op
    //     on <= 3 vertices).
    let max_n = if thorough { 4 } else { 3 };
    for n in 1..=max_n {
        for_all_small(n, &mut |idx, arcs, srcs| {
            let repr = graphs::ALL_REPRS[idx % 6];
            let d = small_desc(repr, n, arcs).to_v();
            let s = V::us(srcs.iter().copied());
            // ascending subsets: every shape (also `range_filter`) keeps this order
            let shape = SHAPES[(idx / 3) % SHAPES.len()];
            if thorough && n <= 3 {
                for op in OPS {
                    emit(format!("{op} {d} {s} {shape}"));
                }
            } else {
                emit(format!("{} {d} {s} {shape}", OPS[(idx / 6) % 3]));
            }
            // the order in which the sources are handed over is part of the input
            if srcs.len() >= 2 && (n <= 3 && thorough || idx % 4 == 0) {
                let r = V::us(srcs.iter().rev().copied());
                emit(format!("bfs_dist_iter {d} {r}"));
            }
            if idx % 5 == 0 {
                let k = idx % (n + 2);
                emit(format!("bfs_iter_repoll {d} {s} {k} 2 {shape}"));
                emit(format!("bfs_dist_iter_repoll {d} {s} {k} 1 {shape}"));
            }
        });
    }
    // (2) random: shared families + BFS families, orders 1..130, all representations; half of the
    //     cases with a lazy source iterator; re-polling / second `distances()` on a fraction
    let n_random = if thorough { 20_000 } else { 1_000 };
    for _ in 0..n_random {
        let (desc, mut srcs) = gen_case(rng);
        let shape = gen_shape(rng, &mut srcs);
        let d = desc.to_v();
        let s = V::us(srcs.iter().copied());
        for op in OPS {
            emit(format!("{op} {d} {s}{shape}"));
        }
        if rng.chance(1, 4) {
            let k = rng.below(desc.order() + 2);
            let op = if rng.chance(1, 2) { "bfs_iter_repoll" } else { "bfs_dist_iter_repoll" };
            emit(format!("{op} {d} {s} {k} {}{shape}", 1 + rng.below(3)));
        }
        if rng.chance(1, 8) {
            emit(format!("bfs_dist_distances_twice {d} {s}{shape}"));
        }
    }
    // (3) thorough: a sample of the large orders of the stress stream
    if thorough {
        for (j, &n) in STRESS_ORDERS.iter().enumerate() {
            let repr = graphs::ALL_REPRS[j % 6];
            let (desc, mut srcs) = large_desc(rng, repr, n, None);
            let shape = gen_shape(rng, &mut srcs);
            let d = desc.to_v();
            let s = V::us(srcs.iter().copied());
            for op in OPS {
                emit(format!("{op} {d} {s}{shape}"));
            }
        }
    }
}
