//! C20 — `==`, `cmp`, `Hash` and `Clone` of the real representations.
//!
//!   eq_pair <repr> [<startA> <opsA>] [<startB> <opsB>] <mut>
//!     =>  [eq cmp hasheq] OBSA OBSB [ceq ret OBSA' OBSC] [ceq ret OBSB' OBSC']
//!
//! Two digraphs of representation `<repr>` are built by two histories (start description +
//! calls, as in `repr_history`; panicking calls are caught and skipped).  Observed:
//! `a == b`, `a.cmp(&b)` (`less|equal|greater`), equality of the `DefaultHasher` outputs
//! (only equality, never the value), `OBS = [order [vertices] [arcs]]` of both;
//! then clone independence: `c = a.clone()`, `ceq = (c == a)`, the call `<mut>` is applied to
//! the CLONE (`ret`), and both `a` (must be unchanged) and `c` are observed; for `b` the call
//! is applied to the ORIGINAL and both `b` and its earlier clone (must be unchanged) are
//! observed.
#![allow(unused_imports, dead_code, clippy::all)]

use super::c01::{self, parse_ops, show_arcs, show_ops, HOp, Subject};
use crate::graphs::{self, Desc};
use crate::rng::Rng;
use crate::value::V;
use crate::with_subject;
use std::collections::hash_map::DefaultHasher;
use std::hash::{Hash, Hasher};

fn obs<D: Subject>(d: &D) -> V {
    V::L(vec![V::u(d.order_()), V::us(d.verts_()), show_arcs(D::WEIGHTED, &d.arcs_())])
}

fn hash_of<D: Hash>(d: &D) -> u64 {
    let mut h = DefaultHasher::new();
    d.hash(&mut h);
    h.finish()
}

fn replay<D: Subject>(d: &mut D, ops: &[HOp]) -> Option<()> {
    for op in ops {
        let _ = d.apply(op)?;
    }
    Some(())
}

fn compare<D: Subject>(mut a: D, mut b: D, ops_a: &[HOp], ops_b: &[HOp], m: &HOp) -> Option<Vec<V>> {
    replay(&mut a, ops_a)?;
    replay(&mut b, ops_b)?;
    let cmp = match a.cmp(&b) {
        std::cmp::Ordering::Less => "less",
        std::cmp::Ordering::Equal => "equal",
        std::cmp::Ordering::Greater => "greater",
    };
    let mut out = vec![
        V::L(vec![V::bool(a == b), V::atom(cmp), V::bool(hash_of(&a) == hash_of(&b))]),
        obs(&a),
        obs(&b),
    ];
    // clone, mutate the clone, the original must not move
    let mut c = a.clone();
    let ceq = c == a;
    let ret = c.apply(m)?;
    out.push(V::L(vec![V::bool(ceq), ret, obs(&a), obs(&c)]));
    // clone, mutate the original, the clone must not move
    let c2 = b.clone();
    let ceq2 = c2 == b;
    let ret2 = b.apply(m)?;
    out.push(V::L(vec![V::bool(ceq2), ret2, obs(&b), obs(&c2)]));
    Some(out)
}

/// `[desc ops]` or `[desc ops via]`: with `via` the start digraph is first built in the
/// representation `via` and then converted with `From` (unweighted, contiguous ids only).
fn parse_hist(v: &V) -> Option<(Desc, Vec<HOp>, Option<String>)> {
    let xs = v.as_list()?;
    match xs.len() {
        2 => Some((Desc::parse(&xs[0])?, parse_ops(&xs[1])?, None)),
        3 => Some((Desc::parse(&xs[0])?, parse_ops(&xs[1])?, Some(xs[2].as_atom()?.to_string()))),
        _ => None,
    }
}

macro_rules! build_via {
    ($desc:expr, $via:expr, $target:ty, $direct:ident) => {{
        let d: &Desc = $desc;
        match $via.as_deref() {
            None => Some(d.$direct()),
            Some(v) if v == d.repr => Some(d.$direct()),
            Some("al") => Some(<$target>::from(d.build_al())),
            Some("am") => Some(<$target>::from(d.build_am())),
            Some("mx") => Some(<$target>::from(d.build_mx())),
            Some("el") => Some(<$target>::from(d.build_el())),
            _ => None,
        }
    }};
}

pub fn eval(op: &str, args: &[V]) -> Option<Vec<V>> {
    match op {
        "eq_pair" => {
            let [repr, ha, hb, m] = args else { return None };
            let repr = repr.as_atom()?;
            let (da, oa, va) = parse_hist(ha)?;
            let (db, ob, vb) = parse_hist(hb)?;
            let m = HOp::parse(m)?;
            if da.repr != repr || db.repr != repr {
                return None;
            }
            // `From<Self>` is the identity conversion: same-type `via` is handled in the macro
            match repr {
                "al" => compare(
                    build_via!(&da, va, graaf::AdjacencyList, build_al)?,
                    build_via!(&db, vb, graaf::AdjacencyList, build_al)?, &oa, &ob, &m),
                "am" => compare(
                    build_via!(&da, va, graaf::AdjacencyMap, build_am)?,
                    build_via!(&db, vb, graaf::AdjacencyMap, build_am)?, &oa, &ob, &m),
                "mx" => compare(
                    build_via!(&da, va, graaf::AdjacencyMatrix, build_mx)?,
                    build_via!(&db, vb, graaf::AdjacencyMatrix, build_mx)?, &oa, &ob, &m),
                "el" => compare(
                    build_via!(&da, va, graaf::EdgeList, build_el)?,
                    build_via!(&db, vb, graaf::EdgeList, build_el)?, &oa, &ob, &m),
                "wu" if va.is_none() && vb.is_none() => compare(da.build_wu(), db.build_wu(), &oa, &ob, &m),
                "wi" if va.is_none() && vb.is_none() => compare(da.build_wi(), db.build_wi(), &oa, &ob, &m),
                _ => None,
            }
        }
        _ => None,
    }
}

// ------------------------------------------------------------------------------ generator

fn add_op(repr: &str, u: usize, v: usize, w: i128) -> HOp {
    if repr == "wu" || repr == "wi" {
        HOp::AddW(u, v, w)
    } else {
        HOp::Add(u, v)
    }
}

/// A pair of histories over the same vertex set that CONVERGE to the same digraph: the same
/// target arc set inserted in two different orders, with detours (add → remove, toggle twice,
/// weight written twice, rejected calls) that cancel.
fn gen_converging(rng: &mut Rng, repr: &str) -> ((Desc, Vec<HOp>), (Desc, Vec<HOp>), Vec<(usize, usize)>) {
    let weighted = repr == "wu" || repr == "wi";
    let base = if repr == "am" && rng.chance(1, 2) {
        graphs::gen_am_sparse(rng, 8).1
    } else if weighted {
        let (lo, hi) = if repr == "wu" { (0, 5) } else { (-3, 3) };
        graphs::gen_wdesc(rng, repr, 40, lo, hi).1
    } else {
        graphs::gen_desc(rng, repr, 40).1
    };
    let ids = base.verts.clone();
    let n = ids.len();
    let mk = |rng: &mut Rng| -> (Desc, Vec<HOp>) {
        // split the target arcs: a random part goes into the start description, the rest is
        // added by calls in a fresh random order
        let mut idx: Vec<usize> = (0..base.arcs.len()).collect();
        rng.shuffle(&mut idx);
        let cut = rng.below(idx.len() + 1);
        let mut start = Desc { repr: repr.to_string(), verts: ids.clone(), arcs: vec![], weights: vec![] };
        for &i in &idx[..cut] {
            start.arcs.push(base.arcs[i]);
            start.weights.push(base.weights[i]);
        }
        let mut ops = vec![];
        for &i in &idx[cut..] {
            let (u, v) = base.arcs[i];
            let w = base.weights[i];
            match rng.below(6) {
                0 => {
                    // add, remove, add again
                    ops.push(add_op(repr, u, v, w));
                    ops.push(HOp::Rem(u, v));
                    ops.push(add_op(repr, u, v, w));
                }
                1 if weighted => {
                    // another weight first, then the final one
                    ops.push(add_op(repr, u, v, w + 1));
                    ops.push(add_op(repr, u, v, w));
                }
                1 if repr == "mx" => {
                    ops.push(HOp::Tog(u, v));
                }
                2 if repr == "mx" => {
                    ops.push(HOp::Add(u, v));
                    ops.push(HOp::Tog(u, v));
                    ops.push(HOp::Tog(u, v));
                }
                _ => ops.push(add_op(repr, u, v, w)),
            }
            // detours on arcs that are NOT in the target: add then remove (no residue allowed)
            if n >= 2 && rng.chance(1, 4) {
                let a = ids[rng.below(n)];
                let b = ids[rng.below(n)];
                if a != b && !base.arcs.contains(&(a, b)) {
                    ops.push(add_op(repr, a, b, 1));
                    ops.push(HOp::Rem(a, b));
                }
            }
            // rejected calls leave no trace
            if rng.chance(1, 6) && n >= 1 {
                let a = ids[rng.below(n)];
                let top = ids.iter().copied().max().map_or(0, |m| m + 1);
                match rng.below(3) {
                    0 => ops.push(add_op(repr, a, a, 0)),
                    // out of range: rejected by every fixed-order representation (the map
                    // would admit the vertex, so it only gets self-loops)
                    1 if repr != "am" => ops.push(add_op(repr, top, a, 0)),
                    2 if repr != "am" => ops.push(add_op(repr, a, top + 1, 0)),
                    _ => ops.push(add_op(repr, a, a, 0)),
                }
                if repr == "mx" && rng.chance(1, 2) {
                    ops.push(HOp::Tog(top, a));
                }
            }
        }
        (start, ops)
    };
    let a = mk(rng);
    let b = mk(rng);
    (a, b, base.arcs.clone())
}

/// Make `h` differ from what it was in exactly one arc / one weight / one vertex.
fn perturb(rng: &mut Rng, repr: &str, h: &mut (Desc, Vec<HOp>), target: &[(usize, usize)]) -> &'static str {
    let weighted = repr == "wu" || repr == "wi";
    let ids = h.0.verts.clone();
    let n = ids.len();
    match rng.below(4) {
        0 if repr == "am" => {
            // one more vertex, no arc: add then remove
            let x = ids.iter().copied().max().map_or(0, |m| m + 1 + rng.below(3));
            let y = if n > 0 { ids[rng.below(n)] } else { x + 1 };
            h.1.push(HOp::Add(y, x));
            h.1.push(HOp::Rem(y, x));
            "diff-vertex"
        }
        0 if repr != "am" && rng.chance(1, 2) => {
            // one more vertex: same arcs over a larger order
            let n1 = h.0.verts.len();
            h.0.verts.push(n1);
            "diff-vertex"
        }
        1 if weighted && !h.0.arcs.is_empty() => {
            let i = rng.below(h.0.arcs.len());
            let (u, v) = h.0.arcs[i];
            // the last write wins: append a write of a different weight, unless the history
            // removes it again later (it never does: removals only hit detour arcs)
            h.1.push(HOp::AddW(u, v, h.0.weights[i] + 1 + rng.below(2) as i128));
            "diff-weight"
        }
        _ => {
            if n < 2 {
                return "same";
            }
            let a = ids[rng.below(n)];
            let mut b = ids[rng.below(n)];
            if a == b {
                b = ids[(ids.iter().position(|&x| x == a).unwrap() + 1) % n];
            }
            // flip the arc a -> b at the end of the history: present → removed, absent → added
            if target.contains(&(a, b)) {
                h.1.push(HOp::Rem(a, b));
            } else {
                h.1.push(add_op(repr, a, b, 4));
            }
            "flip"
        }
    }
}

pub fn gen(rng: &mut Rng, thorough: bool, emit: &mut dyn FnMut(String)) {
    // shortest lines first: the first failing case the orchestrator sees is a small one
    let mut lines: Vec<String> = vec![];
    gen_unsorted(rng, thorough, &mut |s| lines.push(s));
    lines.sort_by_key(String::len);
    for l in lines {
        emit(l);
    }
}

fn gen_unsorted(rng: &mut Rng, thorough: bool, emit: &mut dyn FnMut(String)) {
    let per_repr = if thorough { 1700 } else { 100 };
    for _ in 0..per_repr {
        for repr in graphs::ALL_REPRS {
            let (mut a, mut b, target) = gen_converging(rng, repr);
            if rng.chance(1, 2) {
                // differ in exactly one arc / weight / vertex; either side
                if rng.chance(1, 2) {
                    let _ = perturb(rng, repr, &mut b, &target);
                } else {
                    let _ = perturb(rng, repr, &mut a, &target);
                }
            }
            // the mutation used for the clone-independence observation
            let ids = &a.0.verts;
            let n = ids.len();
            let (u, v) = if n >= 2 {
                let i = rng.below(n);
                let j = (i + 1 + rng.below(n - 1)) % n;
                (ids[i], ids[j])
            } else {
                (0, 1)
            };
            let m = match rng.below(5) {
                0 | 1 => add_op(repr, u, v, 7),
                2 | 3 => HOp::Rem(u, v),
                _ if repr == "mx" => HOp::Tog(u, v),
                _ => add_op(repr, u, u, 7),
            };
            // sometimes one start digraph is built in ANOTHER representation and converted
            let contiguous = |d: &Desc| d.verts.iter().enumerate().all(|(i, &x)| i == x);
            let unweighted = repr != "wu" && repr != "wi";
            let mut via = |rng: &mut Rng, d: &Desc| -> String {
                if unweighted && contiguous(d) && rng.chance(1, 3) {
                    let others: Vec<&str> = graphs::UNWEIGHTED.iter().copied().filter(|r| *r != repr).collect();
                    format!(" {}", rng.pick(&others))
                } else {
                    String::new()
                }
            };
            let via_a = via(rng, &a.0);
            let via_b = via(rng, &b.0);
            emit(format!(
                "eq_pair {repr} [{} {}{via_a}] [{} {}{via_b}] {}",
                a.0.to_v(),
                show_ops(&a.1),
                b.0.to_v(),
                show_ops(&b.1),
                m.to_v()
            ));
        }
    }
}
