//! C20 — `==`, `cmp`, `Hash` and `Clone` of the real representations.
//!
//!   eq_pair <repr> [<startA> <opsA>] [<startB> <opsB>] <mut>
//!     =>  [eq cmp hasheq] OBSA OBSB [ceq ret OBSA' OBSC] [ceq ret OBSB' OBSC'] CONSA CONSB
//!     =>  [refused a|b|ab]                      (a `from` conversion panicked)
//!
//! `CONS = [drained rebuiltEq rebuiltHashEq rebuiltCmp]`: a clone with every shown arc removed `==`
//! a fresh digraph on the shown vertices; a fresh digraph with the shown arcs (weights) added is
//! `==`, hashes equal, compares `equal` to the digraph itself.
//!
//! Two digraphs of representation `<repr>` are built by two histories (start description +
//! calls, as in `repr_history`; panicking calls are caught and skipped).  Observed:
//! `a == b`, `a.cmp(&b)` (`less|equal|greater`), equality of the `DefaultHasher` outputs
//! (only equality, never the value), `OBS = [order [vertices] [arcs]]` of both;
//! then clone independence: `c = a.clone()`, `ceq = (c == a)`, the call `<mut>` is applied to
//! the CLONE (`ret`), and both `a` (must be unchanged) and `c` are observed; for `b` the call
//! is applied to the ORIGINAL and both `b` and its earlier clone (must be unchanged) are
//! observed.
//!
//!   eq_clonefrom <repr> [<startDst> <opsDst> (<via>)] [<startSrc> <opsSrc> (<via>)] <mut>
//!     =>  [eq cmp hasheq] OBSDST OBSSRC [ret OBSSRC' OBSDST']
//!
//! `dst.clone_from(&src)` (not `clone`), then `dst == src`, `cmp`, hash equality, both
//! observations; then `<mut>` is applied to `dst` and both are observed again.
//!
//! `<via>` (third element of a history) says how the START digraph is produced before the calls:
//!   * `al|am|mx|el`: built in that representation, converted with `From`;
//!   * a generator `complete circuit cycle path star wheel biclique empty tournament erdos rrt`:
//!     `X::<gen>(order)`;
//!   * an operation `complement converse union filter`: the operation applied to digraphs built so
//!     that its result should be the described digraph (complement of the complement arc set, …);
//!   * `[from <src-description>]`: the digraph `<src-description>` (in ITS representation, e.g. a map
//!     with non-contiguous ids) is built and converted with `From` under `catch_unwind`; a panicking
//!     conversion makes the whole case `[refused a|b|ab]`; an accepted one is used as it is;
//! and (the atom kinds) then FIXED UP by `add_arc` / `remove_arc` calls (computed from the observed arcs) so that the
//! start digraph denotes exactly `<start>`.  Whatever produced it, it must be `==` to the same
//! digraph built by plain calls.
#![allow(unused_imports, dead_code, clippy::all)]

use super::c01::{self, parse_ops, show_arcs, show_ops, HOp, Subject};
use crate::graphs::{self, Desc};
use crate::rng::Rng;
use crate::value::V;
use crate::with_subject;
use std::collections::hash_map::DefaultHasher;
use graaf::{
    Biclique, Circuit, Complement, Complete, Converse, Cycle, Empty, ErdosRenyi, FilterVertices, Path,
    RandomRecursiveTree, RandomTournament, Star, Union, Wheel,
};
use std::collections::BTreeSet;
use std::hash::{Hash, Hasher};

fn obs<D: Subject>(d: &D) -> V {
    V::L(vec![V::u(d.order_()), V::us(d.verts_()), show_arcs(D::WEIGHTED, &d.arcs_())])
}

fn hash_of<D: Hash>(d: &D) -> u64 {
    let mut h = DefaultHasher::new();
    d.hash(&mut h);
    h.finish()
}

fn replay<D: Subject>(d: &mut D, ops: &[HOp]) -> Option<()> {
    for op in ops {
        let _ = d.apply(op)?;
    }
    Some(())
}

fn compare<D: Subject + Fresh>(mut a: D, mut b: D, ops_a: &[HOp], ops_b: &[HOp], m: &HOp) -> Option<Vec<V>> {
    replay(&mut a, ops_a)?;
    replay(&mut b, ops_b)?;
    let cmp = match a.cmp(&b) {
        std::cmp::Ordering::Less => "less",
        std::cmp::Ordering::Equal => "equal",
        std::cmp::Ordering::Greater => "greater",
    };
    let mut out = vec![
        V::L(vec![V::bool(a == b), V::atom(cmp), V::bool(hash_of(&a) == hash_of(&b))]),
        obs(&a),
        obs(&b),
    ];
    let (cons_a, cons_b) = (consistency(&a), consistency(&b));
    // clone, mutate the clone, the original must not move
    let mut c = a.clone();
    let ceq = c == a;
    let ret = c.apply(m)?;
    out.push(V::L(vec![V::bool(ceq), ret, obs(&a), obs(&c)]));
    // clone, mutate the original, the clone must not move
    let c2 = b.clone();
    let ceq2 = c2 == b;
    let ret2 = b.apply(m)?;
    out.push(V::L(vec![V::bool(ceq2), ret2, obs(&b), obs(&c2)]));
    out.push(cons_a);
    out.push(cons_b);
    Some(out)
}

/// `[desc ops]` or `[desc ops via]`: with `via` the start digraph is first built in the
/// representation `via` and then converted with `From` (unweighted, contiguous ids only).
fn parse_hist(v: &V) -> Option<(Desc, Vec<HOp>, Option<String>, Option<Desc>)> {
    let xs = v.as_list()?;
    match xs.len() {
        2 => Some((Desc::parse(&xs[0])?, parse_ops(&xs[1])?, None, None)),
        3 => match &xs[2] {
            V::A(a) => Some((Desc::parse(&xs[0])?, parse_ops(&xs[1])?, Some(a.clone()), None)),
            V::L(f) if f.len() == 2 && f[0].as_atom() == Some("from") => {
                Some((Desc::parse(&xs[0])?, parse_ops(&xs[1])?, None, Some(Desc::parse(&f[1])?)))
            }
            _ => None,
        },
        _ => None,
    }
}

/// A start digraph, or a `From` conversion that panicked.
pub enum Start<T> {
    Built(T),
    Refused,
}

fn conv<T, F: FnOnce() -> T>(f: F) -> Start<T> {
    match std::panic::catch_unwind(std::panic::AssertUnwindSafe(f)) {
        Ok(t) => Start::Built(t),
        Err(_) => Start::Refused,
    }
}

/// `<$target>::from(<source built from its own description>)` for every `From` impl pair.
macro_rules! from_src {
    ($src:expr, $target:ty, $tname:expr) => {{
        let src: &Desc = $src;
        if src.repr == $tname {
            None
        } else {
            match src.repr.as_str() {
                "al" => { let g = src.build_al(); Some(conv(move || <$target>::from(g))) }
                "am" => { let g = src.build_am(); Some(conv(move || <$target>::from(g))) }
                "mx" => { let g = src.build_mx(); Some(conv(move || <$target>::from(g))) }
                "el" => { let g = src.build_el(); Some(conv(move || <$target>::from(g))) }
                _ => None,
            }
        }
    }};
}

/// A digraph of the same type on the same vertices without arcs, through the public API.
pub trait Fresh: Sized {
    fn fresh(&self) -> Self;
}
impl Fresh for graaf::AdjacencyList {
    fn fresh(&self) -> Self { Self::empty(graaf::Order::order(self)) }
}
impl Fresh for graaf::AdjacencyMatrix {
    fn fresh(&self) -> Self { Self::empty(graaf::Order::order(self)) }
}
impl Fresh for graaf::EdgeList {
    fn fresh(&self) -> Self { Self::empty(graaf::Order::order(self)) }
}
impl Fresh for graaf::AdjacencyListWeighted<usize> {
    fn fresh(&self) -> Self { Self::empty(graaf::Order::order(self)) }
}
impl Fresh for graaf::AdjacencyListWeighted<isize> {
    fn fresh(&self) -> Self { Self::empty(graaf::Order::order(self)) }
}
impl Fresh for graaf::AdjacencyMap {
    fn fresh(&self) -> Self {
        let verts: Vec<usize> = graaf::Vertices::vertices(self).collect();
        Desc { repr: "am".to_string(), verts, arcs: vec![], weights: vec![] }.build_am()
    }
}

/// Implementation-only consistency of one digraph with what it shows.
fn consistency<D: Subject + Fresh>(d: &D) -> V {
    let arcs = d.arcs_();
    let mut drained = d.clone();
    for &(u, v, _) in &arcs {
        let _ = drained.apply(&HOp::Rem(u, v));
    }
    let fresh = d.fresh();
    let mut rebuilt = d.fresh();
    for &(u, v, w) in &arcs {
        let _ = rebuilt.apply(&if D::WEIGHTED { HOp::AddW(u, v, w) } else { HOp::Add(u, v) });
    }
    V::L(vec![
        V::bool(drained == fresh),
        V::bool(rebuilt == *d),
        V::bool(hash_of(&rebuilt) == hash_of(d)),
        V::bool(rebuilt.cmp(d) == std::cmp::Ordering::Equal),
    ])
}

pub const GENERATORS: [&str; 11] =
    ["complete", "circuit", "cycle", "path", "star", "wheel", "biclique", "empty", "tournament", "erdos", "rrt"];
pub const OPERATIONS: [&str; 3] = ["complement", "converse", "union"];

fn seed_of(n: usize) -> u64 {
    (n as u64).wrapping_mul(7919).wrapping_add(1)
}

/// The description with the complementary arc set (same vertices).
fn complement_desc(d: &Desc) -> Desc {
    let have: BTreeSet<(usize, usize)> = d.arcs.iter().copied().collect();
    let mut arcs = vec![];
    for &u in &d.verts {
        for &v in &d.verts {
            if u != v && !have.contains(&(u, v)) {
                arcs.push((u, v));
            }
        }
    }
    let k = arcs.len();
    Desc { repr: d.repr.clone(), verts: d.verts.clone(), arcs, weights: vec![1; k] }
}

fn converse_desc(d: &Desc) -> Desc {
    let arcs: Vec<(usize, usize)> = d.arcs.iter().map(|&(u, v)| (v, u)).collect();
    Desc { repr: d.repr.clone(), verts: d.verts.clone(), arcs, weights: d.weights.clone() }
}

/// Two descriptions whose union is `d`: the arcs alternate; the second keeps only the vertices
/// up to its largest endpoint (contiguous ids) resp. its endpoints (map), so the orders differ.
fn split_desc(d: &Desc) -> (Desc, Desc) {
    let mut a = Desc { repr: d.repr.clone(), verts: d.verts.clone(), arcs: vec![], weights: vec![] };
    let mut b = Desc { repr: d.repr.clone(), verts: vec![], arcs: vec![], weights: vec![] };
    for (i, &arc) in d.arcs.iter().enumerate() {
        if i % 2 == 0 {
            a.arcs.push(arc);
            a.weights.push(1);
        } else {
            b.arcs.push(arc);
            b.weights.push(1);
        }
    }
    if d.repr == "am" {
        let mut vs: BTreeSet<usize> = BTreeSet::new();
        for &(u, v) in &b.arcs {
            let _ = vs.insert(u);
            let _ = vs.insert(v);
        }
        if vs.is_empty() {
            let _ = vs.insert(d.verts[0]);
        }
        b.verts = vs.into_iter().collect();
    } else {
        let top = b.arcs.iter().map(|&(u, v)| u.max(v)).max().unwrap_or(0);
        b.verts = (0..=top).collect();
    }
    (a, b)
}

/// After the start digraph was produced in some roundabout way: make it denote `desc` with
/// plain calls computed from what it shows (nothing to do when it already does).
fn fix_up<D: Subject>(g: &mut D, desc: &Desc) {
    let want: BTreeSet<(usize, usize)> = desc.arcs.iter().copied().collect();
    let have: BTreeSet<(usize, usize)> = g.plain_arcs_().into_iter().collect();
    for &(u, v) in have.difference(&want) {
        let _ = g.apply(&HOp::Rem(u, v));
    }
    for &(u, v) in want.difference(&have) {
        let _ = g.apply(&HOp::Add(u, v));
    }
}

macro_rules! start_of {
    ($desc:expr, $via:expr, $target:ty, $direct:ident) => {{
        let d: &Desc = $desc;
        let n = d.order();
        let g: Option<$target> = match $via.as_deref() {
            None => Some(d.$direct()),
            Some(v) if v == d.repr => Some(d.$direct()),
            Some("al") => Some(<$target>::from(d.build_al())),
            Some("am") => Some(<$target>::from(d.build_am())),
            Some("mx") => Some(<$target>::from(d.build_mx())),
            Some("el") => Some(<$target>::from(d.build_el())),
            Some("complete") => Some(<$target>::complete(n)),
            Some("circuit") => Some(<$target>::circuit(n)),
            Some("cycle") => Some(<$target>::cycle(n)),
            Some("path") => Some(<$target>::path(n)),
            Some("star") => Some(<$target>::star(n)),
            Some("wheel") => Some(<$target>::wheel(n)),
            Some("biclique") => Some(<$target>::biclique((n + 1) / 2, n / 2)),
            Some("empty") => Some(<$target>::empty(n)),
            Some("tournament") => Some(<$target>::random_tournament(n, seed_of(n))),
            Some("erdos") => Some(<$target>::erdos_renyi(n, 0.5, seed_of(n))),
            Some("rrt") => Some(<$target>::random_recursive_tree(n, seed_of(n))),
            Some("complement") => Some(complement_desc(d).$direct().complement()),
            Some("converse") => Some(converse_desc(d).$direct().converse()),
            Some("union") => {
                let (a, b) = split_desc(d);
                // both operand orders: the implementation clones the larger one
                if d.arcs.len() % 2 == 0 { Some(a.$direct().union(&b.$direct())) } else { Some(b.$direct().union(&a.$direct())) }
            }
            _ => None,
        };
        g.map(|mut g| {
            if $via.is_some() {
                fix_up(&mut g, d);
            }
            g
        })
    }};
}

/// `filter_vertices` exists on the map only: extra vertices and arcs that the filter drops again.
fn start_am(d: &Desc, via: &Option<String>) -> Option<graaf::AdjacencyMap> {
    if via.as_deref() == Some("filter") {
        let top = d.verts.iter().copied().max().map_or(0, |x| x + 1);
        let mut big = d.clone();
        big.verts.push(top);
        big.verts.push(top + 3);
        for (i, &x) in d.verts.iter().enumerate() {
            if i % 2 == 0 {
                big.arcs.push((x, top));
                big.arcs.push((top + 3, x));
                big.weights.push(1);
                big.weights.push(1);
            }
        }
        let keep: BTreeSet<usize> = d.verts.iter().copied().collect();
        let mut g = big.build_am().filter_vertices(|v| keep.contains(&v));
        fix_up(&mut g, d);
        return Some(g);
    }
    start_of!(d, via, graaf::AdjacencyMap, build_am)
}

fn clone_from_case<D: Subject + Fresh>(mut dst: D, mut src: D, ops_d: &[HOp], ops_s: &[HOp], m: &HOp) -> Option<Vec<V>> {
    replay(&mut dst, ops_d)?;
    replay(&mut src, ops_s)?;
    dst.clone_from(&src);
    let cmp = match dst.cmp(&src) {
        std::cmp::Ordering::Less => "less",
        std::cmp::Ordering::Equal => "equal",
        std::cmp::Ordering::Greater => "greater",
    };
    let mut out = vec![
        V::L(vec![V::bool(dst == src), V::atom(cmp), V::bool(hash_of(&dst) == hash_of(&src))]),
        obs(&dst),
        obs(&src),
    ];
    let ret = dst.apply(m)?;
    out.push(V::L(vec![ret, obs(&src), obs(&dst)]));
    Some(out)
}

pub fn eval(op: &str, args: &[V]) -> Option<Vec<V>> {
    if op != "eq_pair" && op != "eq_clonefrom" {
        return None;
    }
    let [repr, ha, hb, m] = args else { return None };
    let repr = repr.as_atom()?;
    let (da, oa, va, fa) = parse_hist(ha)?;
    let (db, ob, vb, fb) = parse_hist(hb)?;
    let m = HOp::parse(m)?;
    if da.repr != repr || db.repr != repr {
        return None;
    }
    macro_rules! run {
        ($a:expr, $b:expr) => {{
            match ($a?, $b?) {
                (Start::Built(a), Start::Built(b)) => {
                    if op == "eq_pair" { compare(a, b, &oa, &ob, &m) } else { clone_from_case(a, b, &oa, &ob, &m) }
                }
                (Start::Refused, Start::Built(_)) => Some(vec![V::L(vec![V::atom("refused"), V::atom("a")])]),
                (Start::Built(_), Start::Refused) => Some(vec![V::L(vec![V::atom("refused"), V::atom("b")])]),
                (Start::Refused, Start::Refused) => Some(vec![V::L(vec![V::atom("refused"), V::atom("ab")])]),
            }
        }};
    }
    // one side: `[from src]` (conversion under catch_unwind) or any of the other start kinds
    macro_rules! side {
        ($d:expr, $via:expr, $from:expr, $target:ty, $tname:expr, $plain:expr) => {{
            match $from {
                Some(src) => from_src!(src, $target, $tname),
                None => $plain.map(Start::Built),
            }
        }};
    }
    match repr {
        "al" => run!(
            side!(&da, va, &fa, graaf::AdjacencyList, "al", start_of!(&da, va, graaf::AdjacencyList, build_al)),
            side!(&db, vb, &fb, graaf::AdjacencyList, "al", start_of!(&db, vb, graaf::AdjacencyList, build_al))
        ),
        "am" => run!(
            side!(&da, va, &fa, graaf::AdjacencyMap, "am", start_am(&da, &va)),
            side!(&db, vb, &fb, graaf::AdjacencyMap, "am", start_am(&db, &vb))
        ),
        "mx" => run!(
            side!(&da, va, &fa, graaf::AdjacencyMatrix, "mx", start_of!(&da, va, graaf::AdjacencyMatrix, build_mx)),
            side!(&db, vb, &fb, graaf::AdjacencyMatrix, "mx", start_of!(&db, vb, graaf::AdjacencyMatrix, build_mx))
        ),
        "el" => run!(
            side!(&da, va, &fa, graaf::EdgeList, "el", start_of!(&da, va, graaf::EdgeList, build_el)),
            side!(&db, vb, &fb, graaf::EdgeList, "el", start_of!(&db, vb, graaf::EdgeList, build_el))
        ),
        "wu" if va.is_none() && vb.is_none() => run!(
            side!(&da, va, &fa, graaf::AdjacencyListWeighted<usize>, "wu", Some(da.build_wu())),
            side!(&db, vb, &fb, graaf::AdjacencyListWeighted<usize>, "wu", Some(db.build_wu()))
        ),
        "wi" if va.is_none() && vb.is_none() => run!(
            side!(&da, va, &fa, graaf::AdjacencyListWeighted<isize>, "wi", Some(da.build_wi())),
            side!(&db, vb, &fb, graaf::AdjacencyListWeighted<isize>, "wi", Some(db.build_wi()))
        ),
        _ => None,
    }
}

// ------------------------------------------------------------------------------ generator

fn add_op(repr: &str, u: usize, v: usize, w: i128) -> HOp {
    if repr == "wu" || repr == "wi" {
        HOp::AddW(u, v, w)
    } else {
        HOp::Add(u, v)
    }
}

/// A pair of histories over the same vertex set that CONVERGE to the same digraph: the same
/// target arc set inserted in two different orders, with detours (add → remove, toggle twice,
/// weight written twice, rejected calls) that cancel.
fn gen_converging(rng: &mut Rng, repr: &str) -> ((Desc, Vec<HOp>), (Desc, Vec<HOp>), Vec<(usize, usize)>) {
    let weighted = repr == "wu" || repr == "wi";
    let base = if repr == "am" && rng.chance(1, 2) {
        graphs::gen_am_sparse(rng, 8).1
    } else if weighted {
        let (lo, hi) = if repr == "wu" { (0, 5) } else { (-3, 3) };
        graphs::gen_wdesc(rng, repr, 40, lo, hi).1
    } else {
        graphs::gen_desc(rng, repr, 40).1
    };
    let ids = base.verts.clone();
    let n = ids.len();
    let mk = |rng: &mut Rng| -> (Desc, Vec<HOp>) {
        // split the target arcs: a random part goes into the start description, the rest is
        // added by calls in a fresh random order
        let mut idx: Vec<usize> = (0..base.arcs.len()).collect();
        rng.shuffle(&mut idx);
        let cut = rng.below(idx.len() + 1);
        let mut start = Desc { repr: repr.to_string(), verts: ids.clone(), arcs: vec![], weights: vec![] };
        for &i in &idx[..cut] {
            start.arcs.push(base.arcs[i]);
            start.weights.push(base.weights[i]);
        }
        let mut ops = vec![];
        for &i in &idx[cut..] {
            let (u, v) = base.arcs[i];
            let w = base.weights[i];
            match rng.below(6) {
                0 => {
                    // add, remove, add again
                    ops.push(add_op(repr, u, v, w));
                    ops.push(HOp::Rem(u, v));
                    ops.push(add_op(repr, u, v, w));
                }
                1 if weighted => {
                    // another weight first, then the final one
                    ops.push(add_op(repr, u, v, w + 1));
                    ops.push(add_op(repr, u, v, w));
                }
                1 if repr == "mx" => {
                    ops.push(HOp::Tog(u, v));
                }
                2 if repr == "mx" => {
                    ops.push(HOp::Add(u, v));
                    ops.push(HOp::Tog(u, v));
                    ops.push(HOp::Tog(u, v));
                }
                _ => ops.push(add_op(repr, u, v, w)),
            }
            // detours on arcs that are NOT in the target: add then remove (no residue allowed)
            if n >= 2 && rng.chance(1, 4) {
                let a = ids[rng.below(n)];
                let b = ids[rng.below(n)];
                if a != b && !base.arcs.contains(&(a, b)) {
                    ops.push(add_op(repr, a, b, 1));
                    ops.push(HOp::Rem(a, b));
                }
            }
            // rejected calls leave no trace
            if rng.chance(1, 6) && n >= 1 {
                let a = ids[rng.below(n)];
                let top = ids.iter().copied().max().map_or(0, |m| m + 1);
                match rng.below(3) {
                    0 => ops.push(add_op(repr, a, a, 0)),
                    // out of range: rejected by every fixed-order representation (the map
                    // would admit the vertex, so it only gets self-loops)
                    1 if repr != "am" => ops.push(add_op(repr, top, a, 0)),
                    2 if repr != "am" => ops.push(add_op(repr, a, top + 1, 0)),
                    _ => ops.push(add_op(repr, a, a, 0)),
                }
                if repr == "mx" && rng.chance(1, 2) {
                    ops.push(HOp::Tog(top, a));
                }
            }
        }
        (start, ops)
    };
    let a = mk(rng);
    let b = mk(rng);
    (a, b, base.arcs.clone())
}

/// Make `h` differ from what it was in exactly one arc / one weight / one vertex.
fn perturb(rng: &mut Rng, repr: &str, h: &mut (Desc, Vec<HOp>), target: &[(usize, usize)]) -> &'static str {
    let weighted = repr == "wu" || repr == "wi";
    let ids = h.0.verts.clone();
    let n = ids.len();
    match rng.below(4) {
        0 if repr == "am" => {
            // one more vertex, no arc: add then remove
            let x = ids.iter().copied().max().map_or(0, |m| m + 1 + rng.below(3));
            let y = if n > 0 { ids[rng.below(n)] } else { x + 1 };
            h.1.push(HOp::Add(y, x));
            h.1.push(HOp::Rem(y, x));
            "diff-vertex"
        }
        0 if repr != "am" && rng.chance(1, 2) => {
            // one more vertex: same arcs over a larger order
            let n1 = h.0.verts.len();
            h.0.verts.push(n1);
            "diff-vertex"
        }
        1 if weighted && !h.0.arcs.is_empty() => {
            let i = rng.below(h.0.arcs.len());
            let (u, v) = h.0.arcs[i];
            // the last write wins: append a write of a different weight, unless the history
            // removes it again later (it never does: removals only hit detour arcs)
            h.1.push(HOp::AddW(u, v, h.0.weights[i] + 1 + rng.below(2) as i128));
            "diff-weight"
        }
        _ => {
            if n < 2 {
                return "same";
            }
            let a = ids[rng.below(n)];
            let mut b = ids[rng.below(n)];
            if a == b {
                b = ids[(ids.iter().position(|&x| x == a).unwrap() + 1) % n];
            }
            // flip the arc a -> b at the end of the history: present → removed, absent → added
            if target.contains(&(a, b)) {
                h.1.push(HOp::Rem(a, b));
            } else {
                h.1.push(add_op(repr, a, b, 4));
            }
            "flip"
        }
    }
}

pub fn gen(rng: &mut Rng, thorough: bool, emit: &mut dyn FnMut(String)) {
    // shortest lines first: the first failing case the orchestrator sees is a small one
    let mut lines: Vec<String> = vec![];
    gen_unsorted(rng, thorough, &mut |s| lines.push(s));
    lines.sort_by_key(String::len);
    for l in lines {
        emit(l);
    }
}

fn contiguous_desc(repr: &str, n: usize, arcs: Vec<(usize, usize)>) -> Desc {
    let k = arcs.len();
    Desc { repr: repr.to_string(), verts: (0..n).collect(), arcs, weights: vec![1; k] }
}

fn via_ok(via: &str, repr: &str, n: usize) -> bool {
    match via {
        "wheel" => n >= 4,
        "biclique" => n >= 2,
        "filter" => repr == "am",
        _ => n >= 1,
    }
}

/// What the generator `via` shows in `AdjacencyList` (only used to write a self-contained
/// description into the input line; nothing is assumed about it).
fn shown_by(via: &str, n: usize) -> Vec<(usize, usize)> {
    use graaf::{AdjacencyList as L, Arcs};
    let g = match via {
        "complete" => L::complete(n),
        "circuit" => L::circuit(n),
        "cycle" => L::cycle(n),
        "path" => L::path(n),
        "star" => L::star(n),
        "wheel" => L::wheel(n),
        "biclique" => L::biclique((n + 1) / 2, n / 2),
        "tournament" => L::random_tournament(n, seed_of(n)),
        "erdos" => L::erdos_renyi(n, 0.5, seed_of(n)),
        "rrt" => L::random_recursive_tree(n, seed_of(n)),
        _ => L::empty(n),
    };
    g.arcs().collect()
}

/// One side produced by a generator / a digraph-returning operation / a conversion (then fixed
/// up to the described digraph), the other side the SAME digraph built by plain calls.
fn gen_built(rng: &mut Rng, emit: &mut dyn FnMut(String), repr: &str, orders: &[usize], sparse: bool) {
    let mut kinds: Vec<&str> = vec![];
    kinds.extend(GENERATORS);
    kinds.extend(OPERATIONS);
    kinds.push("filter");
    for &n in orders {
        for via in &kinds {
            if !via_ok(via, repr, n) {
                continue;
            }
            // the described digraph: nothing / what the generator shows / something random
            // (`sparse`: big orders — keep the described digraph, hence every observation, small)
            let dense_kind = matches!(*via, "complete" | "tournament" | "erdos" | "biclique");
            let arcs: Vec<(usize, usize)> = match rng.below(3) {
                0 => vec![],
                1 if !(sparse && dense_kind) => {
                    let mut a = shown_by(via, n);
                    rng.shuffle(&mut a);
                    a
                }
                _ if sparse => {
                    let mut a: BTreeSet<(usize, usize)> = BTreeSet::new();
                    for _ in 0..(1 + rng.below(2 * n)) {
                        let (u, v) = (rng.below(n), rng.below(n));
                        if u != v {
                            let _ = a.insert((u, v));
                        }
                    }
                    let mut a: Vec<(usize, usize)> = a.into_iter().collect();
                    rng.shuffle(&mut a);
                    a
                }
                _ => graphs::gen_arcs(rng, n).1,
            };
            let produced = contiguous_desc(repr, n, arcs.clone());
            // the other side: the same arcs, half in the description, half by calls, one detour
            let cut = rng.below(arcs.len() + 1);
            let direct = contiguous_desc(repr, n, arcs[..cut].to_vec());
            let mut ops: Vec<HOp> = arcs[cut..].iter().map(|&(u, v)| HOp::Add(u, v)).collect();
            if n >= 2 && rng.chance(1, 2) {
                let (u, v) = (rng.below(n), rng.below(n));
                if u != v && !arcs.contains(&(u, v)) {
                    ops.push(if repr == "mx" { HOp::Tog(u, v) } else { HOp::Add(u, v) });
                    ops.push(if repr == "mx" && rng.chance(1, 2) { HOp::Tog(u, v) } else { HOp::Rem(u, v) });
                }
            }
            let m = match rng.below(4) {
                0 if n >= 2 => HOp::Add(0, n - 1),
                1 if !arcs.is_empty() => HOp::Rem(arcs[0].0, arcs[0].1),
                2 => HOp::Add(n - 1, n - 1),
                _ => HOp::Rem(n, 0),
            };
            let (left, right) = (
                format!("[{} [] {via}]", produced.to_v()),
                format!("[{} {}]", direct.to_v(), show_ops(&ops)),
            );
            if rng.chance(1, 2) {
                emit(format!("eq_pair {repr} {left} {right} {}", m.to_v()));
            } else {
                emit(format!("eq_pair {repr} {right} {left} {}", m.to_v()));
            }
        }
    }
}

/// `clone_from` between digraphs of different and equal order / block count.
fn gen_clonefrom(rng: &mut Rng, emit: &mut dyn FnMut(String), repr: &str, pairs: &[(usize, usize)]) {
    let weighted = repr == "wu" || repr == "wi";
    for &(nd, ns) in pairs {
        let mk = |rng: &mut Rng, n: usize| -> Desc {
            let arcs = if rng.chance(1, 4) {
                vec![]
            } else if n > 130 {
                (0..n - 1).map(|u| (u, u + 1)).collect()
            } else {
                graphs::gen_arcs(rng, n).1
            };
            let mut d = contiguous_desc(repr, n, arcs);
            if weighted {
                d.weights = d.arcs.iter().map(|_| i128::from(rng.range(0, 4))).collect();
            }
            d
        };
        let dst = mk(rng, nd);
        let src = mk(rng, ns);
        let m = if ns >= 2 {
            let u = rng.below(ns);
            let v = (u + 1 + rng.below(ns - 1)) % ns;
            if rng.chance(1, 2) { add_op(repr, u, v, 3) } else { HOp::Rem(u, v) }
        } else {
            HOp::Rem(0, 0)
        };
        emit(format!("eq_clonefrom {repr} [{} []] [{} []] {}", dst.to_v(), src.to_v(), m.to_v()));
    }
}

/// A source digraph for a `From` conversion, in representation `src`. For the map: contiguous
/// ids, sparse ids, ids just past the order with a tail ≥ order → head < order arc (or the other
/// way round, or none), and filter_vertices-like shapes (a vertex of `0..n` missing).
fn gen_from_source(rng: &mut Rng, src: &str, shape: usize) -> Desc {
    if src != "am" {
        let max = if rng.chance(1, 6) { 40 } else { 9 };
        return graphs::gen_desc(rng, src, max).1;
    }
    match shape % 8 {
        0 => graphs::gen_desc(rng, "am", 9).1,
        1 => graphs::gen_am_sparse(rng, 6).1,
        2 | 3 | 4 => {
            // 0..n plus ids at / just past the resulting order
            let n = 1 + rng.below(7);
            let extras = 1 + rng.below(2);
            let order = n + extras;
            let mut verts: Vec<usize> = (0..n).collect();
            let mut far = vec![];
            for k in 0..extras {
                let e = order + k + rng.below(3) * (k + 1);
                if !verts.contains(&e) {
                    verts.push(e);
                    far.push(e);
                }
            }
            let mut arcs = if n >= 2 { graphs::gen_arcs(rng, n).1 } else { vec![] };
            arcs.truncate(2 * n);
            if let Some(&e) = far.first() {
                let x = rng.below(n);
                match shape % 8 {
                    2 => arcs.push((e, x)), // tail ≥ order, head < order
                    3 => arcs.push((x, e)), // head ≥ order
                    _ => {}                 // the far vertex stays isolated: the conversion is fine
                }
            }
            let k = arcs.len();
            Desc { repr: "am".to_string(), verts, arcs, weights: vec![1; k] }
        }
        _ => {
            // what filter_vertices leaves: 0..n without one or two vertices, arcs among the rest
            let n = 3 + rng.below(6);
            let drop = if rng.chance(1, 2) { 0 } else { rng.below(n) };
            let verts: Vec<usize> = (0..n).filter(|&x| x != drop && !(x == n / 2 && rng.chance(1, 3))).collect();
            let mut arcs = vec![];
            if shape % 8 != 7 {
                for _ in 0..rng.below(2 * verts.len() + 1) {
                    let (u, v) = (*rng.pick(&verts), *rng.pick(&verts));
                    if u != v && !arcs.contains(&(u, v)) {
                        arcs.push((u, v));
                    }
                }
            }
            let k = arcs.len();
            Desc { repr: "am".to_string(), verts, arcs, weights: vec![1; k] }
        }
    }
}

/// Pair sides constructed by `From` (every impl pair), compared with the same digraph by plain calls.
fn gen_from(rng: &mut Rng, emit: &mut dyn FnMut(String), per_pair: usize) {
    for target in graphs::ALL_REPRS {
        for src in graphs::UNWEIGHTED {
            if src == target {
                continue;
            }
            let cases = if src == "am" { 5 * per_pair } else { per_pair };
            for i in 0..cases {
                let source = gen_from_source(rng, src, i);
                let order = source.verts.len();
                // what an accepted conversion denotes (meaningless when it is refused)
                let kept: Vec<(usize, usize)> =
                    source.arcs.iter().copied().filter(|&(u, v)| u < order && v < order).collect();
                let k = kept.len();
                let claimed = Desc { repr: target.to_string(), verts: (0..order).collect(), arcs: kept.clone(), weights: vec![1; k] };
                let len = rng.below(4);
                let mut ops = c01::gen_ops(rng, target, &claimed, len);
                if rng.chance(1, 3) {
                    ops.clear();
                }
                // the other side: plain calls (sometimes another conversion of an equal source)
                let mut shuffled = kept.clone();
                rng.shuffle(&mut shuffled);
                let cut = rng.below(shuffled.len() + 1);
                let mut direct = claimed.clone();
                direct.arcs = shuffled[..cut].to_vec();
                direct.weights = vec![1; cut];
                let mut ops_b: Vec<HOp> = shuffled[cut..].iter().map(|&(u, v)| add_op(target, u, v, 1)).collect();
                ops_b.extend(ops.iter().cloned());
                if rng.chance(1, 4) && order >= 2 {
                    // differ in one arc
                    let (u, v) = (rng.below(order), rng.below(order));
                    if u != v {
                        ops_b.push(if kept.contains(&(u, v)) { HOp::Rem(u, v) } else { add_op(target, u, v, 1) });
                    }
                }
                let m = if order >= 2 && rng.chance(2, 3) {
                    let u = rng.below(order);
                    let v = (u + 1 + rng.below(order - 1)) % order;
                    if rng.chance(1, 2) { add_op(target, u, v, 1) } else { HOp::Rem(u, v) }
                } else {
                    add_op(target, 0, 0, 1)
                };
                let left = format!("[{} {} [from {}]]", claimed.to_v(), show_ops(&ops), source.to_v());
                let right = if rng.chance(1, 6) && src != "el" && target != "el" {
                    // both sides by conversion, from different source representations
                    let other = Desc { repr: "el".to_string(), verts: (0..order).collect(), arcs: kept.clone(), weights: vec![1; k] };
                    format!("[{} {} [from {}]]", claimed.to_v(), show_ops(&ops), other.to_v())
                } else {
                    format!("[{} {}]", direct.to_v(), show_ops(&ops_b))
                };
                if rng.chance(1, 2) {
                    emit(format!("eq_pair {target} {left} {right} {}", m.to_v()));
                } else {
                    emit(format!("eq_pair {target} {right} {left} {}", m.to_v()));
                }
            }
        }
    }
}

fn gen_unsorted(rng: &mut Rng, thorough: bool, emit: &mut dyn FnMut(String)) {
    if crate::stress() {
        // big matrices: block-level shortcuts usually switch on above some order (256, 512, …)
        let orders = [256usize, 257, 264, 300, 511, 513];
        gen_built(rng, emit, "mx", &orders, true);
        gen_built(rng, emit, "el", &[257], true);
        gen_built(rng, emit, "al", &[257], true);
        let pairs: Vec<(usize, usize)> = vec![(255, 256), (256, 255), (257, 256), (300, 301), (64, 65), (128, 127)];
        gen_clonefrom(rng, emit, "mx", &pairs);
        return;
    }
    // (00) sides constructed by `From` from a source in another representation (may be refused)
    gen_from(rng, emit, if thorough { 60 } else { 10 });
    // (0) sides produced by generators / operations / conversions, orders with full and partial last blocks
    let mx_orders: Vec<usize> = if thorough {
        (1..=40).chain([48, 63, 64, 65, 72, 96, 127, 128, 129]).collect()
    } else {
        (1..=17).chain([23, 24, 25, 32, 33, 40, 64, 65]).collect()
    };
    gen_built(rng, emit, "mx", &mx_orders, false);
    let small: Vec<usize> = if thorough { (1..=24).chain([40, 65]).collect() } else { (1..=9).chain([16, 17]).collect() };
    for repr in ["al", "el", "am"] {
        gen_built(rng, emit, repr, &small, false);
    }
    // (0b) clone_from: every pair of matrix orders 1..=12 (equal block counts at different orders:
    // 1..8, 9..11, 12..13), random pairs for the other representations
    let mut pairs = vec![];
    let top = if thorough { 17 } else { 12 };
    for a in 1..=top {
        for b in 1..=top {
            pairs.push((a, b));
        }
    }
    // once more the pairs with equal block count but different order, and equal orders
    for a in 1..=17usize {
        for b in 1..=17usize {
            if a != b && (a * a + 63) / 64 == (b * b + 63) / 64 && (a > 8 || rng.chance(1, 2)) {
                pairs.push((a, b));
            }
        }
        pairs.push((a, a));
        pairs.push((a, a));
        pairs.push((a, a));
    }
    gen_clonefrom(rng, emit, "mx", &pairs);
    for repr in ["al", "am", "el", "wu", "wi"] {
        let ps: Vec<(usize, usize)> = (0..(if thorough { 120 } else { 24 }))
            .map(|i| {
                let a = 1 + rng.below(12);
                if i % 3 == 0 { (a, a) } else { (a, 1 + rng.below(12)) }
            })
            .collect();
        gen_clonefrom(rng, emit, repr, &ps);
    }
    let per_repr = if thorough { 1700 } else { 70 };
    for _ in 0..per_repr {
        for repr in graphs::ALL_REPRS {
            let (mut a, mut b, target) = gen_converging(rng, repr);
            if rng.chance(1, 2) {
                // differ in exactly one arc / weight / vertex; either side
                if rng.chance(1, 2) {
                    let _ = perturb(rng, repr, &mut b, &target);
                } else {
                    let _ = perturb(rng, repr, &mut a, &target);
                }
            }
            // the mutation used for the clone-independence observation
            let ids = &a.0.verts;
            let n = ids.len();
            let (u, v) = if n >= 2 {
                let i = rng.below(n);
                let j = (i + 1 + rng.below(n - 1)) % n;
                (ids[i], ids[j])
            } else {
                (0, 1)
            };
            let m = match rng.below(5) {
                0 | 1 => add_op(repr, u, v, 7),
                2 | 3 => HOp::Rem(u, v),
                _ if repr == "mx" => HOp::Tog(u, v),
                _ => add_op(repr, u, u, 7),
            };
            // sometimes one start digraph is built in ANOTHER representation and converted
            let contiguous = |d: &Desc| d.verts.iter().enumerate().all(|(i, &x)| i == x);
            let unweighted = repr != "wu" && repr != "wi";
            let mut via = |rng: &mut Rng, d: &Desc| -> String {
                if unweighted && contiguous(d) && rng.chance(1, 3) {
                    let others: Vec<&str> = graphs::UNWEIGHTED.iter().copied().filter(|r| *r != repr).collect();
                    format!(" {}", rng.pick(&others))
                } else {
                    String::new()
                }
            };
            let via_a = via(rng, &a.0);
            let via_b = via(rng, &b.0);
            emit(format!(
                "eq_pair {repr} [{} {}{via_a}] [{} {}{via_b}] {}",
                a.0.to_v(),
                show_ops(&a.1),
                b.0.to_v(),
                show_ops(&b.1),
                m.to_v()
            ));
        }
    }
}
