//! C10 — `Johnson75::circuits` on the real code.
//!
//!   johnson_circuits <family> [am verts arcs]   =>  [[circuit] ...] | panic
//!
//!   johnson_repeat   <family> <k|clone> [am verts arcs] =>  [[circuit] ...] x k | panic
//!
//! `johnson_repeat` calls `circuits()` `k` times on ONE `Johnson75` value (`clone`: call once,
//! clone the value, call the clone) and reports every returned vector.
//! `<family>` is a label of the generator family (ignored by `eval`, histogrammed by the driver).
//! Only contiguous vertex sets `0..n` are generated (the property's scope).
#![allow(clippy::all)]

use crate::graphs::{self, Desc};
use crate::rng::Rng;
use crate::value::V;
use graaf::Johnson75;
use std::collections::BTreeSet;

pub fn eval(op: &str, args: &[V]) -> Option<Vec<V>> {
    match op {
        "johnson_circuits" => {
            let [_fam, desc] = args else { return None };
            let desc = Desc::parse(desc)?;
            if desc.repr != "am" {
                return None;
            }
            let d = desc.build_am();
            let cs = Johnson75::new(&d).circuits();
            Some(vec![V::L(cs.into_iter().map(V::us).collect())])
        }
        "johnson_repeat" => {
            let [_fam, mode, desc] = args else { return None };
            let desc = Desc::parse(desc)?;
            if desc.repr != "am" {
                return None;
            }
            let d = desc.build_am();
            let show = |cs: Vec<Vec<usize>>| V::L(cs.into_iter().map(V::us).collect());
            let mut j = Johnson75::new(&d);
            match mode {
                V::A(m) if m == "clone" => {
                    let first = j.circuits();
                    let mut j2 = j.clone();
                    let second = j2.circuits();
                    Some(vec![show(first), show(second)])
                }
                _ => {
                    let k = mode.as_usize()?;
                    if k == 0 || k > 8 {
                        return None;
                    }
                    Some((0..k).map(|_| show(j.circuits())).collect())
                }
            }
        }
        _ => None,
    }
}

// ------------------------------------------------------------------------------ generator

/// Naive circuit counter (capped) — only used to keep generated cases small; it is NOT an
/// oracle (the oracle is the verified Lean enumerator).
fn count_circuits(n: usize, arcs: &[(usize, usize)], cap: usize) -> usize {
    let mut out = vec![Vec::new(); n];
    for &(u, v) in arcs {
        out[u].push(v);
    }
    fn go(out: &[Vec<usize>], s: usize, v: usize, on: &mut Vec<bool>, cnt: &mut usize, cap: usize) {
        for &w in &out[v] {
            if *cnt > cap {
                return;
            }
            if w == s {
                *cnt += 1;
            } else if w > s && !on[w] {
                on[w] = true;
                go(out, s, w, on, cnt, cap);
                on[w] = false;
            }
        }
    }
    let mut cnt = 0;
    for s in 0..n {
        let mut on = vec![false; n];
        on[s] = true;
        go(&out, s, s, &mut on, &mut cnt, cap);
        if cnt > cap {
            break;
        }
    }
    cnt
}

/// Work of the naive enumeration (number of path extensions tried), capped.
fn naive_work(n: usize, arcs: &[(usize, usize)], cap: usize) -> usize {
    let mut out = vec![Vec::new(); n];
    for &(u, v) in arcs {
        out[u].push(v);
    }
    fn go(out: &[Vec<usize>], s: usize, v: usize, on: &mut Vec<bool>, cnt: &mut usize, cap: usize) {
        for &w in &out[v] {
            *cnt += 1;
            if *cnt > cap {
                return;
            }
            if w > s && !on[w] {
                on[w] = true;
                go(out, s, w, on, cnt, cap);
                on[w] = false;
            }
        }
    }
    let mut cnt = 0;
    for s in 0..n {
        let mut on = vec![false; n];
        on[s] = true;
        go(&out, s, s, &mut on, &mut cnt, cap);
        if cnt > cap {
            break;
        }
    }
    cnt
}

/// Larger sparse digraphs (order 20..40) whose naive enumeration stays small: a few strongly
/// connected blocks of 4..8 vertices (rich in circuits, dead ends and B-list traffic) chained by
/// forward arcs, plus isolated vertices and tails (trivial components: roots that stay blocked).
fn big_sparse(rng: &mut Rng) -> (usize, Vec<(usize, usize)>) {
    let n = 20 + rng.below(21);
    let mut lab: Vec<usize> = (0..n).collect();
    if rng.chance(1, 2) {
        rng.shuffle(&mut lab);
    }
    let mut arcs: Vec<(usize, usize)> = Vec::new();
    let mut start = 0;
    while start < n {
        let len = (1 + rng.below(8)).min(n - start);
        if len >= 2 {
            for i in 0..len {
                arcs.push((lab[start + i], lab[start + (i + 1) % len]));
            }
            for _ in 0..(len + rng.below(2 * len)) {
                arcs.push((lab[start + rng.below(len)], lab[start + rng.below(len)]));
            }
        }
        if start + len < n {
            for _ in 0..(1 + rng.below(3)) {
                arcs.push((lab[start + rng.below(len)], lab[start + len + rng.below(n - start - len)]));
            }
        }
        start += len;
    }
    let mut arcs = dedup(arcs);
    while naive_work(n, &arcs, 60_000) > 60_000 || count_circuits(n, &arcs, 2000) > 2000 {
        let drop = (arcs.len() / 8).max(1);
        for _ in 0..drop {
            let i = rng.below(arcs.len());
            let _ = arcs.swap_remove(i);
        }
    }
    rng.shuffle(&mut arcs);
    (n, arcs)
}

fn repeat_line(fam: &str, mode: &str, n: usize, arcs: &[(usize, usize)]) -> String {
    let d = Desc { repr: "am".to_string(), verts: (0..n).collect(), arcs: arcs.to_vec(), weights: vec![1; arcs.len()] };
    format!("johnson_repeat {fam} {mode} {}", d.to_v())
}

/// Drop random arcs until the digraph has at most `cap` circuits.
fn cap_circuits(rng: &mut Rng, n: usize, arcs: &mut Vec<(usize, usize)>, cap: usize) {
    while count_circuits(n, arcs, cap) > cap {
        let drop = (arcs.len() / 6).max(1);
        for _ in 0..drop {
            if arcs.is_empty() {
                break;
            }
            let i = rng.below(arcs.len());
            let _ = arcs.swap_remove(i);
        }
    }
}

fn line(fam: &str, n: usize, arcs: &[(usize, usize)]) -> String {
    let d = Desc { repr: "am".to_string(), verts: (0..n).collect(), arcs: arcs.to_vec(), weights: vec![1; arcs.len()] };
    format!("johnson_circuits {fam} {}", d.to_v())
}

fn dedup(arcs: Vec<(usize, usize)>) -> Vec<(usize, usize)> {
    let set: BTreeSet<(usize, usize)> = arcs.into_iter().filter(|&(u, v)| u != v).collect();
    set.into_iter().collect()
}

/// Families aimed at the blocked / B-list bookkeeping.
fn special(rng: &mut Rng, n: usize) -> (&'static str, Vec<(usize, usize)>) {
    let mut arcs: Vec<(usize, usize)> = Vec::new();
    let name: &'static str;
    // a random relabelling so that "explored first" (= smaller id) varies
    let mut lab: Vec<usize> = (0..n).collect();
    rng.shuffle(&mut lab);
    match rng.below(8) {
        0 => {
            // dead end explored before the closing branch: a spine cycle, plus trap vertices
            // whose only ways out lead back into the spine (= vertices that are on the stack)
            name = "trap-then-close";
            let k = (2 + rng.below(n.max(3) - 1)).min(n);
            for i in 0..k {
                arcs.push((lab[i], lab[(i + 1) % k]));
            }
            for t in k..n {
                // entered from the spine (or an earlier trap), leaves only to spine vertices
                let from = lab[rng.below(t)];
                arcs.push((from, lab[t]));
                for _ in 0..(1 + rng.below(2)) {
                    arcs.push((lab[t], lab[rng.below(k)]));
                }
                if rng.chance(1, 3) {
                    arcs.push((lab[t], lab[rng.below(t)]));
                }
            }
            for _ in 0..rng.below(3) {
                arcs.push((lab[rng.below(k)], lab[rng.below(k)]));
            }
        }
        1 => {
            // nested / overlapping cycles: one long cycle with chords
            name = "cycle-chords";
            for i in 0..n {
                arcs.push((lab[i], lab[(i + 1) % n]));
            }
            for _ in 0..(1 + rng.below(n + 1)) {
                arcs.push((lab[rng.below(n)], lab[rng.below(n)]));
            }
        }
        2 => {
            // theta: several internally disjoint paths from a to b and one path back
            name = "theta";
            if n >= 3 {
                let (a, b) = (lab[0], lab[1]);
                let mut next = 2;
                let paths = 2 + rng.below(3);
                for _ in 0..paths {
                    let len = rng.below(3);
                    let mut prev = a;
                    for _ in 0..len {
                        if next >= n {
                            break;
                        }
                        arcs.push((prev, lab[next]));
                        prev = lab[next];
                        next += 1;
                    }
                    arcs.push((prev, b));
                }
                let mut prev = b;
                while next < n {
                    arcs.push((prev, lab[next]));
                    prev = lab[next];
                    next += 1;
                    if rng.chance(1, 3) {
                        arcs.push((prev, lab[rng.below(next)]));
                    }
                }
                arcs.push((prev, a));
            }
        }
        3 => {
            // cycles sharing one vertex (figure eight, flowers)
            name = "flower";
            let hub = lab[0];
            let mut next = 1;
            while next < n {
                let len = (1 + rng.below(3)).min(n - next);
                let mut prev = hub;
                for _ in 0..len {
                    arcs.push((prev, lab[next]));
                    prev = lab[next];
                    next += 1;
                }
                arcs.push((prev, hub));
                if rng.chance(1, 3) && next > 2 {
                    arcs.push((lab[1 + rng.below(next - 1)], lab[1 + rng.below(next - 1)]));
                }
            }
        }
        4 => {
            // bidirected path / cycle / tree: many 2-circuits, long back-tracking
            name = "bidirected";
            for i in 1..n {
                let p = if rng.chance(1, 2) { i - 1 } else { rng.below(i) };
                arcs.push((lab[p], lab[i]));
                arcs.push((lab[i], lab[p]));
            }
            if n >= 3 && rng.chance(1, 2) {
                arcs.push((lab[n - 1], lab[0]));
                if rng.chance(1, 2) {
                    arcs.push((lab[0], lab[n - 1]));
                }
            }
        }
        5 => {
            // two strongly connected blocks joined one way, plus a tail that never closes
            name = "two-blocks";
            let k = n / 2;
            for i in 0..k {
                arcs.push((lab[i], lab[(i + 1) % k.max(1)]));
            }
            for i in k..n {
                arcs.push((lab[i], lab[if i + 1 < n { i + 1 } else { k }]));
            }
            if k >= 1 && k < n {
                arcs.push((lab[rng.below(k)], lab[k + rng.below(n - k)]));
                if rng.chance(1, 2) {
                    arcs.push((lab[rng.below(k)], lab[k + rng.below(n - k)]));
                }
            }
            for _ in 0..rng.below(4) {
                let (a, b) = (rng.below(n), rng.below(n));
                if (a < k) == (b < k) || a < k {
                    arcs.push((lab[a], lab[b]));
                }
            }
        }
        6 => {
            // Johnson's own worst-case shape: k parallel 2-step detours in a row and a return arc
            name = "ladder";
            let mut prev = vec![lab[0]];
            let mut next = 1;
            while next < n {
                let w = (1 + rng.below(3)).min(n - next);
                let layer: Vec<usize> = (0..w).map(|j| lab[next + j]).collect();
                for &p in &prev {
                    for &q in &layer {
                        if rng.chance(4, 5) {
                            arcs.push((p, q));
                        }
                    }
                }
                next += w;
                prev = layer;
            }
            for &p in &prev {
                arcs.push((p, lab[0]));
            }
            for _ in 0..rng.below(3) {
                arcs.push((lab[rng.below(n)], lab[rng.below(n)]));
            }
        }
        _ => {
            // sparse random with a guaranteed spanning cycle in id order: every s has work to do
            name = "sparse-hamiltonian";
            for i in 0..n {
                arcs.push((i, (i + 1) % n));
            }
            for _ in 0..(n / 2 + rng.below(n + 1)) {
                arcs.push((rng.below(n), rng.below(n)));
            }
        }
    }
    (name, dedup(arcs))
}

pub fn gen(rng: &mut Rng, thorough: bool, emit: &mut dyn FnMut(String)) {
    let cap = if thorough { 3000 } else { 1200 };
    let modes = ["2", "3", "clone"];

    // (0) state carried between calls: `circuits()` two / three times on the same value (and on a
    //     clone taken after a call).  Every digraph with a trivial component leaves a blocked root.
    {
        // exhaustive: all digraphs on <= 3 vertices, twice
        for n in 1..=3usize {
            let pairs: Vec<(usize, usize)> =
                (0..n).flat_map(|u| (0..n).filter(move |&v| v != u).map(move |v| (u, v))).collect();
            for code in 0u32..(1u32 << pairs.len()) {
                let arcs: Vec<(usize, usize)> =
                    pairs.iter().enumerate().filter(|(i, _)| code >> i & 1 == 1).map(|(_, &p)| p).collect();
                emit(repeat_line(&format!("all{n}"), "2", n, &arcs));
            }
        }
        let n_rep = if crate::stress() { 1500 } else if thorough { 2500 } else { 450 };
        for i in 0..n_rep {
            let n = if rng.chance(2, 3) { 3 + rng.below(6) } else { 9 + rng.below(6) };
            let (name, mut arcs) = if rng.chance(1, 2) { special(rng, n) } else { graphs::gen_arcs(rng, n) };
            cap_circuits(rng, n, &mut arcs, cap / 3);
            emit(repeat_line(name, modes[i % 3], n, &arcs));
        }
    }

    // stress stream: larger sparse digraphs, single and repeated calls; nothing else in that mode
    if crate::stress() {
        for i in 0..400 {
            let (n, arcs) = big_sparse(rng);
            if i % 2 == 0 {
                emit(line("big-sparse", n, &arcs));
            } else {
                emit(repeat_line("big-sparse", modes[i % 3], n, &arcs));
            }
        }
        return;
    }
    // a few of the larger sparse digraphs in every tier
    for i in 0..(if thorough { 400 } else { 150 }) {
        let (n, arcs) = big_sparse(rng);
        if i % 3 == 2 {
            emit(repeat_line("big-sparse", "2", n, &arcs));
        } else {
            emit(line("big-sparse", n, &arcs));
        }
    }

    // (1) exhaustive small scopes
    let exhaustive_n: &[usize] = if thorough { &[1, 2, 3, 4] } else { &[1, 2, 3] };
    for &n in exhaustive_n {
        let pairs: Vec<(usize, usize)> =
            (0..n).flat_map(|u| (0..n).filter(move |&v| v != u).map(move |v| (u, v))).collect();
        for code in 0u32..(1u32 << pairs.len()) {
            let arcs: Vec<(usize, usize)> =
                pairs.iter().enumerate().filter(|(i, _)| code >> i & 1 == 1).map(|(_, &p)| p).collect();
            emit(line(&format!("all{n}"), n, &arcs));
        }
    }
    if !thorough {
        // a sample of the 4096 digraphs on 4 vertices
        let n = 4;
        let pairs: Vec<(usize, usize)> =
            (0..n).flat_map(|u| (0..n).filter(move |&v| v != u).map(move |v| (u, v))).collect();
        for _ in 0..300 {
            let code = rng.below(1 << pairs.len()) as u32;
            let arcs: Vec<(usize, usize)> =
                pairs.iter().enumerate().filter(|(i, _)| code >> i & 1 == 1).map(|(_, &p)| p).collect();
            emit(line("all4", n, &arcs));
        }
    }
    // all tournaments on 5 vertices (thorough), a sample of them (quick)
    {
        let n = 5;
        let pairs: Vec<(usize, usize)> = (0..n).flat_map(|u| ((u + 1)..n).map(move |v| (u, v))).collect();
        let total = 1u32 << pairs.len();
        let codes: Vec<u32> = if thorough { (0..total).collect() } else { (0..120).map(|_| rng.below(total as usize) as u32).collect() };
        for code in codes {
            let arcs: Vec<(usize, usize)> =
                pairs.iter().enumerate().map(|(i, &(u, v))| if code >> i & 1 == 1 { (u, v) } else { (v, u) }).collect();
            emit(line("tournament5", n, &arcs));
        }
    }
    // complete digraphs K_1..K_5 (K_6 in the thorough tier)
    for n in 1..=(if thorough { 6 } else { 5 }) {
        let arcs: Vec<(usize, usize)> = (0..n).flat_map(|u| (0..n).filter(move |&v| v != u).map(move |v| (u, v))).collect();
        emit(line("complete", n, &arcs));
    }

    // (2) special families (blocked / B-list machinery), orders 3..14
    let n_special = if thorough { 6000 } else { 700 };
    for _ in 0..n_special {
        let n = if rng.chance(2, 3) { 3 + rng.below(7) } else { 10 + rng.below(5) };
        let (name, mut arcs) = special(rng, n);
        cap_circuits(rng, n, &mut arcs, cap);
        rng.shuffle(&mut arcs);
        emit(line(name, n, &arcs));
    }

    // (3) the shared families: dense up to 9 vertices, sparse up to 14
    let n_shared = if thorough { 6000 } else { 500 };
    for _ in 0..n_shared {
        let n = if rng.chance(3, 4) { 1 + rng.below(9) } else { 10 + rng.below(5) };
        let (name, mut arcs) = graphs::gen_arcs(rng, n);
        cap_circuits(rng, n, &mut arcs, cap);
        emit(line(name, n, &arcs));
    }
}
