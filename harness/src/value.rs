//! Line-protocol values (same syntax as `GraafVerif/Data/Value.lean`):
//! `value ::= INT | ATOM | '[' value* ']'`, blank separated.

use std::fmt;

#[derive(Clone, Debug, PartialEq, Eq)]
pub enum V {
    I(i128),
    A(String),
    L(Vec<V>),
}

impl fmt::Display for V {
    fn fmt(&self, f: &mut fmt::Formatter<'_>) -> fmt::Result {
        match self {
            V::I(n) => write!(f, "{n}"),
            V::A(s) => write!(f, "{s}"),
            V::L(xs) => {
                write!(f, "[")?;
                for (i, x) in xs.iter().enumerate() {
                    if i > 0 {
                        write!(f, " ")?;
                    }
                    write!(f, "{x}")?;
                }
                write!(f, "]")
            }
        }
    }
}

pub fn parse_line(s: &str) -> Option<Vec<V>> {
    let s = s.replace('[', " [ ").replace(']', " ] ");
    let mut stack: Vec<Vec<V>> = Vec::new();
    let mut cur: Vec<V> = Vec::new();
    for t in s.split_whitespace() {
        match t {
            "[" => {
                stack.push(std::mem::take(&mut cur));
            }
            "]" => {
                let mut up = stack.pop()?;
                up.push(V::L(std::mem::take(&mut cur)));
                cur = up;
            }
            _ => cur.push(match t.parse::<i128>() {
                Ok(n) => V::I(n),
                Err(_) => V::A(t.to_string()),
            }),
        }
    }
    if stack.is_empty() {
        Some(cur)
    } else {
        None
    }
}

#[allow(dead_code)]
impl V {
    pub fn atom(s: &str) -> V {
        V::A(s.to_string())
    }
    pub fn none() -> V {
        V::atom("none")
    }
    pub fn bool(b: bool) -> V {
        V::atom(if b { "true" } else { "false" })
    }
    pub fn u(n: usize) -> V {
        V::I(n as i128)
    }
    pub fn i(n: isize) -> V {
        V::I(n as i128)
    }
    pub fn us<I: IntoIterator<Item = usize>>(it: I) -> V {
        V::L(it.into_iter().map(V::u).collect())
    }
    pub fn is<I: IntoIterator<Item = isize>>(it: I) -> V {
        V::L(it.into_iter().map(V::i).collect())
    }
    pub fn pairs<I: IntoIterator<Item = (usize, usize)>>(it: I) -> V {
        V::L(it.into_iter().map(|(a, b)| V::L(vec![V::u(a), V::u(b)])).collect())
    }
    pub fn opt_u(o: Option<usize>) -> V {
        o.map_or_else(V::none, V::u)
    }
    pub fn list(xs: Vec<V>) -> V {
        V::L(xs)
    }
    pub fn as_usize(&self) -> Option<usize> {
        match self {
            V::I(n) if *n >= 0 && *n <= usize::MAX as i128 => Some(*n as usize),
            _ => None,
        }
    }
    pub fn as_isize(&self) -> Option<isize> {
        match self {
            V::I(n) if *n >= isize::MIN as i128 && *n <= isize::MAX as i128 => Some(*n as isize),
            _ => None,
        }
    }
    pub fn as_u64(&self) -> Option<u64> {
        match self {
            V::I(n) if *n >= 0 && *n <= u64::MAX as i128 => Some(*n as u64),
            _ => None,
        }
    }
    pub fn as_atom(&self) -> Option<&str> {
        match self {
            V::A(s) => Some(s),
            _ => None,
        }
    }
    pub fn as_list(&self) -> Option<&[V]> {
        match self {
            V::L(xs) => Some(xs),
            _ => None,
        }
    }
    pub fn as_usizes(&self) -> Option<Vec<usize>> {
        self.as_list()?.iter().map(V::as_usize).collect()
    }
    pub fn as_pairs(&self) -> Option<Vec<(usize, usize)>> {
        self.as_list()?
            .iter()
            .map(|p| {
                let p = p.as_list()?;
                if p.len() != 2 {
                    return None;
                }
                Some((p[0].as_usize()?, p[1].as_usize()?))
            })
            .collect()
    }
    pub fn as_opt_usize(&self) -> Option<Option<usize>> {
        match self {
            V::A(s) if s == "none" => Some(None),
            v => v.as_usize().map(Some),
        }
    }
}
