//! Digraph descriptions: parsing, building the REAL graaf structures through the public
#![allow(dead_code)]
//! API, and the shared random generator of descriptions.
//!
//! `[al n arcs] [mx n arcs] [el n arcs]`, `[am verts arcs]`, `[wu n warcs] [wi n warcs]`.

use crate::rng::Rng;
use crate::value::V;
use graaf::{
    AddArc, AddArcWeighted, AdjacencyList, AdjacencyListWeighted, AdjacencyMap, AdjacencyMatrix,
    EdgeList, Empty, FilterVertices, RemoveArc,
};
use std::collections::BTreeSet;

#[derive(Clone, Debug)]
pub struct Desc {
    pub repr: String,
    /// vertex ids (0..order for everything except `am`)
    pub verts: Vec<usize>,
    pub arcs: Vec<(usize, usize)>,
    /// weights, parallel to `arcs` (all 1 for unweighted)
    pub weights: Vec<i128>,
}

#[allow(dead_code)]
impl Desc {
    pub fn order(&self) -> usize {
        self.verts.len()
    }
    pub fn weighted(&self) -> bool {
        self.repr == "wu" || self.repr == "wi"
    }
    pub fn to_v(&self) -> V {
        let head = if self.repr == "am" {
            V::us(self.verts.iter().copied())
        } else {
            V::u(self.verts.len())
        };
        let arcs = if self.weighted() {
            V::L(self
                .arcs
                .iter()
                .zip(&self.weights)
                .map(|(&(u, v), &w)| V::L(vec![V::u(u), V::u(v), V::I(w)]))
                .collect())
        } else {
            V::pairs(self.arcs.iter().copied())
        };
        V::L(vec![V::atom(&self.repr), head, arcs])
    }
    pub fn parse(v: &V) -> Option<Desc> {
        let xs = v.as_list()?;
        if xs.len() != 3 {
            return None;
        }
        let repr = xs[0].as_atom()?.to_string();
        match repr.as_str() {
            "am" => {
                let arcs = xs[2].as_pairs()?;
                let mut vs: BTreeSet<usize> = xs[1].as_usizes()?.into_iter().collect();
                for &(u, v) in &arcs {
                    let _ = vs.insert(u);
                    let _ = vs.insert(v);
                }
                let n = arcs.len();
                Some(Desc { repr, verts: vs.into_iter().collect(), arcs, weights: vec![1; n] })
            }
            "al" | "mx" | "el" => {
                let arcs = xs[2].as_pairs()?;
                let n = arcs.len();
                Some(Desc { repr, verts: (0..xs[1].as_usize()?).collect(), arcs, weights: vec![1; n] })
            }
            "wu" | "wi" => {
                let mut arcs = vec![];
                let mut weights = vec![];
                for t in xs[2].as_list()? {
                    let t = t.as_list()?;
                    if t.len() != 3 {
                        return None;
                    }
                    arcs.push((t[0].as_usize()?, t[1].as_usize()?));
                    match &t[2] {
                        V::I(w) => weights.push(*w),
                        _ => return None,
                    }
                }
                Some(Desc { repr, verts: (0..xs[1].as_usize()?).collect(), arcs, weights })
            }
            _ => None,
        }
    }
    pub fn with_repr(&self, repr: &str) -> Desc {
        let mut d = self.clone();
        d.repr = repr.to_string();
        d
    }

    // ---- builders: only the public API of graaf is used -------------------------------
    pub fn build_al(&self) -> AdjacencyList {
        let mut d = AdjacencyList::empty(self.order());
        for &(u, v) in &self.arcs {
            d.add_arc(u, v);
        }
        d
    }
    pub fn build_mx(&self) -> AdjacencyMatrix {
        let mut d = AdjacencyMatrix::empty(self.order());
        for &(u, v) in &self.arcs {
            d.add_arc(u, v);
        }
        d
    }
    pub fn build_el(&self) -> EdgeList {
        let mut d = EdgeList::empty(self.order());
        for &(u, v) in &self.arcs {
            d.add_arc(u, v);
        }
        d
    }
    /// Any finite vertex set is reachable through the public API: `add_arc` admits new
    /// endpoints, `remove_arc` keeps them, `filter_vertices` drops vertex 0 when unwanted.
    pub fn build_am(&self) -> AdjacencyMap {
        let mut d = AdjacencyMap::empty(1);
        for &x in &self.verts {
            if x != 0 {
                d.add_arc(0, x);
                let _ = d.remove_arc(0, x);
            }
        }
        for &(u, v) in &self.arcs {
            d.add_arc(u, v);
        }
        if !self.verts.contains(&0) {
            d = d.filter_vertices(|v| v != 0);
        }
        d
    }
    pub fn build_wu(&self) -> AdjacencyListWeighted<usize> {
        let mut d = AdjacencyListWeighted::<usize>::empty(self.order());
        for (&(u, v), &w) in self.arcs.iter().zip(&self.weights) {
            d.add_arc_weighted(u, v, usize::try_from(w).expect("usize weight"));
        }
        d
    }
    pub fn build_wi(&self) -> AdjacencyListWeighted<isize> {
        let mut d = AdjacencyListWeighted::<isize>::empty(self.order());
        for (&(u, v), &w) in self.arcs.iter().zip(&self.weights) {
            d.add_arc_weighted(u, v, isize::try_from(w).expect("isize weight"));
        }
        d
    }
}

/// Run `$body` with `$d` bound to the real digraph built from `$desc`, for whichever of the
/// six representations the description names. `$body` must type-check for all of them.
#[macro_export]
macro_rules! with_digraph {
    ($desc:expr, $d:ident => $body:expr) => {{
        let desc__: &$crate::graphs::Desc = $desc;
        match desc__.repr.as_str() {
            "al" => { let $d = desc__.build_al(); $body }
            "am" => { let $d = desc__.build_am(); $body }
            "mx" => { let $d = desc__.build_mx(); $body }
            "el" => { let $d = desc__.build_el(); $body }
            "wu" => { let $d = desc__.build_wu(); $body }
            "wi" => { let $d = desc__.build_wi(); $body }
            r => panic!("unknown repr {r}"),
        }
    }};
}

/// As `with_digraph!` but only the four unweighted representations.
#[macro_export]
macro_rules! with_unweighted {
    ($desc:expr, $d:ident => $body:expr) => {{
        let desc__: &$crate::graphs::Desc = $desc;
        match desc__.repr.as_str() {
            "al" => { let $d = desc__.build_al(); $body }
            "am" => { let $d = desc__.build_am(); $body }
            "mx" => { let $d = desc__.build_mx(); $body }
            "el" => { let $d = desc__.build_el(); $body }
            r => panic!("unknown unweighted repr {r}"),
        }
    }};
}

pub const UNWEIGHTED: [&str; 4] = ["al", "am", "mx", "el"];
pub const ALL_REPRS: [&str; 6] = ["al", "am", "mx", "el", "wu", "wi"];

// ---------------------------------------------------------------------------------------
// Shared generator of contiguous digraph shapes (arc lists over 0..n)
// ---------------------------------------------------------------------------------------

/// Order mixture of DESIGN.md §5: small (≈65 %), medium (≈20 %), large (≈15 %).
pub fn gen_order(rng: &mut Rng, max: usize) -> usize {
    let r = rng.below(100);
    let n = if r < 65 {
        1 + rng.below(8)
    } else if r < 85 {
        9 + rng.below(32)
    } else {
        60 + rng.below(71)
    };
    n.min(max).max(1)
}

/// A random arc set over `0..n` from a mixture of families. Valid: no self-loops, ids < n,
/// no duplicates. Returns (family name, arcs).
pub fn gen_arcs(rng: &mut Rng, n: usize) -> (&'static str, Vec<(usize, usize)>) {
    let mut set: BTreeSet<(usize, usize)> = BTreeSet::new();
    let fam = rng.below(14);
    let name: &'static str;
    match fam {
        0..=4 => {
            name = "density";
            let dens: [(u64, u64); 7] = [(0, 1), (1, n.max(1) as u64), (1, 10), (3, 10), (5, 10), (8, 10), (1, 1)];
            let (a, b) = *rng.pick(&dens);
            for u in 0..n {
                for v in 0..n {
                    if u != v && rng.chance(a, b) {
                        let _ = set.insert((u, v));
                    }
                }
            }
        }
        5 => {
            name = "dag";
            for u in 0..n {
                for v in (u + 1)..n {
                    if rng.chance(1, 3) {
                        let _ = set.insert((u, v));
                    }
                }
            }
        }
        6 => {
            name = "tournament";
            for u in 0..n {
                for v in (u + 1)..n {
                    let _ = if rng.chance(1, 2) { set.insert((u, v)) } else { set.insert((v, u)) };
                }
            }
        }
        7 => {
            name = "complete-minus";
            for u in 0..n {
                for v in 0..n {
                    if u != v {
                        let _ = set.insert((u, v));
                    }
                }
            }
            if n >= 2 && rng.chance(2, 3) {
                let u = rng.below(n);
                let mut v = rng.below(n);
                if v == u {
                    v = (u + 1) % n;
                }
                let _ = set.remove(&(u, v));
                if rng.chance(1, 2) {
                    let _ = set.remove(&(v, u));
                }
            }
        }
        8 => {
            // n(n-1)/2 arcs, but one pair doubled and one pair missing: defeats size shortcuts
            name = "pseudo-tournament";
            for u in 0..n {
                for v in (u + 1)..n {
                    let _ = if rng.chance(1, 2) { set.insert((u, v)) } else { set.insert((v, u)) };
                }
            }
            if n >= 3 {
                let (a, b) = (rng.below(n), rng.below(n));
                let (c, d) = (rng.below(n), rng.below(n));
                if a != b && c != d && (a.min(b), a.max(b)) != (c.min(d), c.max(d)) {
                    let _ = set.insert((a, b));
                    let _ = set.insert((b, a));
                    let _ = set.remove(&(c, d));
                    let _ = set.remove(&(d, c));
                }
            }
        }
        9 => {
            name = "symmetric";
            for u in 0..n {
                for v in (u + 1)..n {
                    if rng.chance(1, 3) {
                        let _ = set.insert((u, v));
                        let _ = set.insert((v, u));
                    }
                }
            }
        }
        10 => {
            name = "functional";
            for u in 0..n {
                let v = rng.below(n);
                if v != u {
                    let _ = set.insert((u, v));
                }
            }
        }
        11 => {
            name = "layered";
            let layers = 2 + rng.below(4);
            for u in 0..n {
                for v in 0..n {
                    if u != v && (v % layers) == (u % layers + 1) % layers && rng.chance(1, 2) {
                        let _ = set.insert((u, v));
                    }
                }
            }
        }
        12 => {
            // a few cycles joined by forward arcs: several SCCs
            name = "scc-chain";
            let k = 1 + rng.below(4);
            let mut start = 0;
            while start < n {
                let len = (1 + rng.below(k + 2)).min(n - start);
                if len >= 2 {
                    for i in 0..len {
                        let _ = set.insert((start + i, start + (i + 1) % len));
                    }
                }
                if start + len < n && rng.chance(2, 3) {
                    let _ = set.insert((start + rng.below(len), start + len));
                }
                if start > 0 && rng.chance(1, 4) {
                    let a = start + rng.below(len);
                    let b = rng.below(start);
                    if rng.chance(1, 2) {
                        let _ = set.insert((b, a));
                    }
                }
                start += len;
            }
        }
        _ => {
            // diamonds with a late shortcut (stale heap / stack entries)
            name = "diamond";
            for u in 0..n {
                for _ in 0..2 {
                    let v = rng.below(n);
                    if v != u {
                        let _ = set.insert((u, v));
                    }
                }
            }
            if n >= 4 {
                let _ = set.insert((0, 1));
                let _ = set.insert((0, 2));
                let _ = set.insert((0, 3));
                let _ = set.insert((3, 2));
            }
        }
    }
    let mut arcs: Vec<(usize, usize)> = set.into_iter().collect();
    // insertion order is part of a history: shuffle so that rows are not built ascending
    rng.shuffle(&mut arcs);
    (name, arcs)
}

/// A random unweighted description in representation `repr` (contiguous ids).
pub fn gen_desc(rng: &mut Rng, repr: &str, max_order: usize) -> (&'static str, Desc) {
    let n = gen_order(rng, max_order);
    let (name, arcs) = gen_arcs(rng, n);
    let k = arcs.len();
    (name, Desc { repr: repr.to_string(), verts: (0..n).collect(), arcs, weights: vec![1; k] })
}

/// Weighted variant: weights uniform in `lo..=hi`.
pub fn gen_wdesc(rng: &mut Rng, repr: &str, max_order: usize, lo: i64, hi: i64) -> (&'static str, Desc) {
    let (name, mut d) = gen_desc(rng, repr, max_order);
    d.weights = d.arcs.iter().map(|_| i128::from(rng.range(lo, hi))).collect();
    (name, d)
}

/// Non-contiguous `am` description: ids drawn from a sparse pool, arcs by relabelling.
pub fn gen_am_sparse(rng: &mut Rng, max_order: usize) -> (&'static str, Desc) {
    const POOL: [usize; 12] = [0, 2, 3, 7, 11, 63, 64, 65, 100, 127, 128, 1000];
    let n = gen_order(rng, max_order.min(POOL.len()));
    let mut ids: Vec<usize> = POOL.to_vec();
    rng.shuffle(&mut ids);
    ids.truncate(n);
    ids.sort_unstable();
    let (name, arcs) = gen_arcs(rng, n);
    let arcs: Vec<(usize, usize)> = arcs.into_iter().map(|(u, v)| (ids[u], ids[v])).collect();
    let k = arcs.len();
    (name, Desc { repr: "am".to_string(), verts: ids, arcs, weights: vec![1; k] })
}

/// Distinct in-range sources: empty / single / several.
pub fn gen_sources(rng: &mut Rng, n: usize) -> Vec<usize> {
    let k = match rng.below(10) {
        0 => 0,
        1..=6 => 1,
        _ => 2 + rng.below(3),
    };
    let mut all: Vec<usize> = (0..n).collect();
    rng.shuffle(&mut all);
    all.truncate(k.min(n));
    all
}

// ---------------------------------------------------------------------------------------
// Observation through the public API: `[order [vertices] [[u v] …]]`
// ---------------------------------------------------------------------------------------

/// What a user can see of an unweighted digraph: order, vertices, arcs (in iteration order).
pub fn observe<D>(d: &D) -> V
where
    D: graaf::Order + graaf::Vertices + graaf::Arcs,
{
    V::L(vec![V::u(d.order()), V::us(d.vertices()), V::pairs(d.arcs())])
}

