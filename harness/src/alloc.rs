//! Counting allocator (in the harness, not in graaf): live bytes for leak checks (C13).

use std::alloc::{GlobalAlloc, Layout, System};
use std::sync::atomic::{AtomicIsize, Ordering};

pub struct Counting;

static LIVE: AtomicIsize = AtomicIsize::new(0);

unsafe impl GlobalAlloc for Counting {
    unsafe fn alloc(&self, layout: Layout) -> *mut u8 {
        let p = unsafe { System.alloc(layout) };
        if !p.is_null() {
            let _ = LIVE.fetch_add(layout.size() as isize, Ordering::Relaxed);
        }
        p
    }
    unsafe fn dealloc(&self, ptr: *mut u8, layout: Layout) {
        let _ = LIVE.fetch_sub(layout.size() as isize, Ordering::Relaxed);
        unsafe { System.dealloc(ptr, layout) }
    }
    unsafe fn realloc(&self, ptr: *mut u8, layout: Layout, new_size: usize) -> *mut u8 {
        let p = unsafe { System.realloc(ptr, layout, new_size) };
        if !p.is_null() {
            let _ = LIVE.fetch_add(new_size as isize - layout.size() as isize, Ordering::Relaxed);
        }
        p
    }
}

#[global_allocator]
static GLOBAL: Counting = Counting;

/// Bytes currently allocated through the global allocator.
#[allow(dead_code)]
pub fn live_bytes() -> isize {
    LIVE.load(Ordering::Relaxed)
}
