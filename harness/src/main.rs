//! `gharness`: runs the REAL graaf code (path dependency on /repo, rebuilt by cargo from the
//! current working tree).
//!
//!   gharness gen  <Cxx> <seed> <quick|thorough>   print generated input lines `op arg*`
//!   gharness eval                                  stdin: input lines; stdout: `op arg* => out*`
//!
//! `eval` first prints `@t <available_parallelism()>` so that the model is called with the
//! thread count the real code saw (steered from outside with `taskset`).

mod alloc;
mod graphs;
mod ops;
mod rng;
mod value;

use std::io::{BufRead, Write};
use std::panic::{catch_unwind, AssertUnwindSafe};
use value::V;

pub static STRESS: std::sync::atomic::AtomicBool = std::sync::atomic::AtomicBool::new(false);

/// True when input lines for the `stress` tier are being generated.
#[allow(dead_code)]
pub fn stress() -> bool {
    STRESS.load(std::sync::atomic::Ordering::Relaxed)
}

fn eval_line(line: &str) -> String {
    let Some(vs) = value::parse_line(line) else {
        return format!("{line} => badline");
    };
    let pre: Vec<V> = vs.iter().take_while(|v| **v != V::atom("=>")).cloned().collect();
    let Some(V::A(op)) = pre.first().cloned() else {
        return format!("{line} => badline");
    };
    let args = &pre[1..];
    let res = catch_unwind(AssertUnwindSafe(|| ops::eval(&op, args)));
    let shown = pre.iter().map(ToString::to_string).collect::<Vec<_>>().join(" ");
    match res {
        Ok(Some(out)) => {
            let outs = out.iter().map(ToString::to_string).collect::<Vec<_>>().join(" ");
            format!("{shown} => {outs}")
        }
        Ok(None) => format!("{shown} => badargs"),
        Err(_) => format!("{shown} => panic"),
    }
}

fn main() {
    let argv: Vec<String> = std::env::args().collect();
    // panics are data here; keep stderr quiet
    std::panic::set_hook(Box::new(|_| {}));
    match argv.get(1).map(String::as_str) {
        Some("gen") => {
            let prop = argv.get(2).expect("property id");
            let seed: u64 = argv.get(3).and_then(|s| s.parse().ok()).unwrap_or(1);
            let tier = argv.get(4).map(String::as_str).unwrap_or("quick");
            // `stress` = thorough + the out-of-distribution stream (large orders, extreme ids and weights,
            // repeated calls): used by the orchestrator when a tie is broken and a failing input is searched
            let thorough = tier == "thorough" || tier == "stress";
            STRESS.store(tier == "stress", std::sync::atomic::Ordering::Relaxed);
            let mut rng = rng::Rng::new(seed);
            let stdout = std::io::stdout();
            let mut out = std::io::BufWriter::new(stdout.lock());
            let mut emit = |s: String| {
                writeln!(out, "{s}").expect("write");
            };
            if !ops::gen(prop, &mut rng, thorough, &mut emit) {
                eprintln!("no generator for {prop}");
                std::process::exit(2);
            }
        }
        Some("eval") => {
            let t = std::thread::available_parallelism().map_or(1, std::num::NonZero::get);
            let stdin = std::io::stdin();
            let stdout = std::io::stdout();
            let mut out = stdout.lock();
            writeln!(out, "@t {t}").expect("write");
            for line in stdin.lock().lines() {
                let line = line.expect("read");
                let line = line.trim();
                if line.is_empty() || line.starts_with('#') || line.starts_with('@') {
                    continue;
                }
                let res = eval_line(line);
                // flush per line: after a crash the orchestrator knows the culprit
                writeln!(out, "{res}").expect("write");
                out.flush().expect("flush");
            }
        }
        _ => {
            eprintln!("usage: gharness gen <Cxx> <seed> <quick|thorough> | gharness eval");
            std::process::exit(2);
        }
    }
}
