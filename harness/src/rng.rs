//! The single PRNG every generated choice derives from (SplitMix64).

#[derive(Clone, Debug)]
pub struct Rng(pub u64);

#[allow(dead_code)]
impl Rng {
    pub fn new(seed: u64) -> Self {
        Rng(seed ^ 0x9E37_79B9_7F4A_7C15)
    }
    pub fn next(&mut self) -> u64 {
        self.0 = self.0.wrapping_add(0x9E37_79B9_7F4A_7C15);
        let mut z = self.0;
        z = (z ^ (z >> 30)).wrapping_mul(0xBF58_476D_1CE4_E5B9);
        z = (z ^ (z >> 27)).wrapping_mul(0x94D0_49BB_1331_11EB);
        z ^ (z >> 31)
    }
    /// uniform in `0..n` (n > 0)
    pub fn below(&mut self, n: usize) -> usize {
        (self.next() % (n as u64)) as usize
    }
    /// uniform in `lo..=hi`
    pub fn range(&mut self, lo: i64, hi: i64) -> i64 {
        lo + (self.next() % ((hi - lo + 1) as u64)) as i64
    }
    pub fn chance(&mut self, num: u64, den: u64) -> bool {
        self.next() % den < num
    }
    pub fn pick<'a, T>(&mut self, xs: &'a [T]) -> &'a T {
        &xs[self.below(xs.len())]
    }
    pub fn shuffle<T>(&mut self, xs: &mut [T]) {
        for i in (1..xs.len()).rev() {
            let j = self.below(i + 1);
            xs.swap(i, j);
        }
    }
    pub fn fork(&mut self) -> Rng {
        Rng(self.next())
    }
}
