/-!
# Line-protocol values

One textual value syntax is shared by the Rust harness (`/verif/harness/src/value.rs`),
this driver and the orchestrator:

  value ::= INT | ATOM | '[' value* ']'        (tokens separated by blanks)

A case line is `op arg* => out`.  Nothing here is used by a theorem; it is part of the
trusted correspondence machinery (DESIGN.md §9).
-/
namespace GraafVerif

inductive V where
  | i (n : Int)
  | a (s : String)
  | l (xs : List V)
  deriving Repr, BEq, Inhabited

namespace V

partial def toStr : V → String
  | .i n => toString n
  | .a s => s
  | .l xs => "[" ++ " ".intercalate (xs.map toStr) ++ "]"

instance : ToString V := ⟨toStr⟩

/-- Tokenise: brackets are their own tokens, everything else splits on blanks. -/
def tokens (s : String) : List String :=
  let s := s.replace "[" " [ " |>.replace "]" " ] "
  (s.splitOn " ").filter (fun t => t ≠ "" && t ≠ "\n" && t ≠ "\r")
    |>.map (fun t => t.trimAscii.toString) |>.filter (· ≠ "")

def atomOrInt (t : String) : V :=
  match t.toInt? with
  | some n => .i n
  | none => .a t

/-- Parse a token list into a list of values (top level sequence). Returns `none` on
unbalanced brackets. `stack` holds the partially built enclosing lists (reversed). -/
def parseToks : List String → List (List V) → List V → Option (List V)
  | [], [], cur => some cur.reverse
  | [], _ :: _, _ => none
  | "[" :: ts, stack, cur => parseToks ts (cur :: stack) []
  | "]" :: ts, up :: stack, cur => parseToks ts stack (V.l cur.reverse :: up)
  | "]" :: _, [], _ => none
  | t :: ts, stack, cur => parseToks ts stack (atomOrInt t :: cur)

def parseLine (s : String) : Option (List V) := parseToks (tokens s) [] []

/-- Split a parsed case line at the atom `=>`. -/
def splitArrow (vs : List V) : List V × List V :=
  let pre := vs.takeWhile (fun v => !(v == V.a "=>"))
  let post := (vs.dropWhile (fun v => !(v == V.a "=>"))).drop 1
  (pre, post)

/-! Accessors (total, `Option`-valued: a malformed line is a `BADLINE`, never a default). -/

def nat? : V → Option Nat
  | .i n => if n ≥ 0 then some n.toNat else none
  | _ => none

def int? : V → Option Int
  | .i n => some n
  | _ => none

def atom? : V → Option String
  | .a s => some s
  | _ => none

def list? : V → Option (List V)
  | .l xs => some xs
  | _ => none

def listOf? {α : Type} (f : V → Option α) : V → Option (List α)
  | .l xs => xs.mapM f
  | _ => none

def pair? {α β : Type} (f : V → Option α) (g : V → Option β) : V → Option (α × β)
  | .l [x, y] => do pure (← f x, ← g y)
  | _ => none

def triple? {α β γ : Type} (f : V → Option α) (g : V → Option β) (h : V → Option γ) : V → Option (α × β × γ)
  | .l [x, y, z] => do pure (← f x, ← g y, ← h z)
  | _ => none

/-- `none` atom or a value: the encoding of Rust `Option`. -/
def opt? {α : Type} (f : V → Option α) : V → Option (Option α)
  | .a "none" => some none
  | v => (f v).map some

def ofNat (n : Nat) : V := .i n
def ofNats (xs : List Nat) : V := .l (xs.map ofNat)
def ofInts (xs : List Int) : V := .l (xs.map V.i)
def ofPair (p : Nat × Nat) : V := .l [ofNat p.1, ofNat p.2]
def ofPairs (xs : List (Nat × Nat)) : V := .l (xs.map ofPair)
def ofOptNat : Option Nat → V
  | none => .a "none"
  | some n => ofNat n
def ofBool (b : Bool) : V := .a (if b then "true" else "false")
def bool? : V → Option Bool
  | .a "true" => some true
  | .a "false" => some false
  | _ => none

end V
end GraafVerif
