import GraafVerif.Proof.JohnsonTarjan
import GraafVerif.Spec.Johnson
/-!
# The digraph the driver builds from a valid description meets the hypotheses of the C10 theorems

`Graph.ofRows (rowsOfArcs n arcs)` (what `GDesc.graph` computes) for arcs that are in range and
loop-free — exactly what the handler `H10.hCircuits` checks before it evaluates a case — is
well-formed, loop-free and has duplicate-free (strictly ascending) rows.
-/
set_option linter.unusedVariables false
namespace GraafVerif.Johnson
open GraafVerif

/-- Row invariant of `rowsOfArcs`. -/
def RowsOK (n : Nat) (rows : Array (List Nat)) : Prop :=
  rows.size = n ∧ ∀ u, Asc ((rows[u]?).getD []) ∧ ∀ v ∈ (rows[u]?).getD [], v < n ∧ v ≠ u

theorem rowsOK_step (n : Nat) (rows : Array (List Nat)) (a : Nat × Nat) (h : RowsOK n rows)
    (ha : a.1 < n ∧ a.2 < n ∧ a.1 ≠ a.2) :
    RowsOK n (if a.1 < rows.size then rows.modify a.1 (insertAsc a.2) else rows) := by
  split
  · refine ⟨by rw [Array.size_modify]; exact h.1, ?_⟩
    intro u
    rw [Array.getElem?_modify]
    split
    · rename_i e
      subst e
      cases hr : rows[a.1]? with
      | none =>
        simp [Asc]
      | some row =>
        have hu := h.2 a.1
        rw [hr] at hu
        simp only [Option.map_some, Option.getD_some] at hu ⊢
        refine ⟨asc_insertAsc a.2 row hu.1, ?_⟩
        intro v hv
        rcases (mem_insertAsc' a.2 row v).1 hv with rfl | hv
        · exact ⟨ha.2.1, fun e => ha.2.2 e.symm⟩
        · exact hu.2 v hv
    · exact h.2 u
  · exact h

theorem rowsOfArcs_ok (n : Nat) (arcs : List (Nat × Nat))
    (hv : ∀ a ∈ arcs, a.1 < n ∧ a.2 < n ∧ a.1 ≠ a.2) : RowsOK n (rowsOfArcs n arcs) := by
  unfold rowsOfArcs
  have key : ∀ (as : List (Nat × Nat)) (rows : Array (List Nat)), (∀ a ∈ as, a.1 < n ∧ a.2 < n ∧ a.1 ≠ a.2) →
      RowsOK n rows →
      RowsOK n (as.foldl (fun rows a => if a.1 < rows.size then rows.modify a.1 (insertAsc a.2) else rows) rows) := by
    intro as
    induction as with
    | nil => intro rows _ h; exact h
    | cons a as ih =>
      intro rows hv h
      simp only [List.foldl_cons]
      exact ih _ (fun x hx => hv x (by simp [hx])) (rowsOK_step n rows a h (hv a (by simp)))
  apply key arcs _ hv
  refine ⟨Array.size_replicate, ?_⟩
  intro u
  rw [Array.getElem?_replicate]
  split <;> simp [Asc]

theorem asc_nodup {l : List Nat} (h : Asc l) : l.Nodup :=
  List.Pairwise.imp (fun hab => Nat.ne_of_lt hab) h

/-- The hypotheses of `C10.statement` hold for every digraph the driver evaluates. -/
theorem driver_graph_ok (n : Nat) (arcs : List (Nat × Nat))
    (hv : ∀ a ∈ arcs, a.1 < n ∧ a.2 < n ∧ a.1 ≠ a.2) :
    (Graph.ofRows (rowsOfArcs n arcs)).WF ∧ NoLoops (Graph.ofRows (rowsOfArcs n arcs)) ∧
      RowsNodup (Graph.ofRows (rowsOfArcs n arcs)) := by
  obtain ⟨hsz, hrows⟩ := rowsOfArcs_ok n arcs hv
  have hout : ∀ u, (Graph.ofRows (rowsOfArcs n arcs)).out u = ((rowsOfArcs n arcs)[u]?).getD [] := by
    intro u
    simp [Graph.ofRows, Array.getD_eq_getD_getElem?]
  refine ⟨?_, ?_, ?_⟩
  · intro u v h
    rw [hout] at h
    have hvn := ((hrows u).2 v h).1
    refine ⟨?_, by simpa [Graph.ofRows, hsz] using hvn⟩
    show u < (rowsOfArcs n arcs).size
    apply Classical.byContradiction
    intro hge
    have : (rowsOfArcs n arcs)[u]? = none := by
      apply Array.getElem?_eq_none; omega
    rw [this] at h
    simp at h
  · intro u h
    rw [hout] at h
    exact ((hrows u).2 u h).2 rfl
  · intro u
    rw [hout]
    exact asc_nodup (hrows u).1

end GraafVerif.Johnson
