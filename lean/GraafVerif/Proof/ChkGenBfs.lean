import GraafVerif.Proof.ChkGenRt
import GraafVerif.Model.AlgoGen
import GraafVerif.Proof.AlgoGenPredTree
/-!
# C13 on the regenerated BFS family (`Model/AlgoGen.lean`, generated from `src/algo/bfs*.rs`)

Direct proofs on the generated definitions: for EVERY digraph (`g.out` arbitrary: successors may
exceed the order), every source list, every fuel.  `Inv n s`: `visited.len() = n` and every queued
vertex is `< n` — what `new` establishes and `next` keeps; under it the derived entry points
(`distances`, `predecessors`, `shortest_path`, `cycles`) never write outside their `order`-sized vector.
-/
namespace GraafVerif.C13Gen
open GraafVerif GraafVerif.AlgoGen

namespace Bfs

def Inv (n : Nat) (s : AlgoGen.Bfs) : Prop := s.visited.length = n ∧ ∀ x ∈ s.queue, x < n

theorem new_for0_safe {R : AlgoGen.Bfs → Prop} (order : Nat) (st : List Nat × List Bool) (u : Nat)
    (h : st.2.length = order ∧ ∀ x ∈ st.1, x < order) :
    Safe (AlgoGen.Bfs.new_for0 order st u) (fun st' => st'.2.length = order ∧ ∀ x ∈ st'.1, x < order)
      (fun st' => st'.2.length = order ∧ ∀ x ∈ st'.1, x < order) R := by
  unfold AlgoGen.Bfs.new_for0
  refine safe_bind (safe_assert _) (fun _ ha => ?_)
  have hu : u < order := by simpa using ha
  refine safe_bind (safe_wr _ _ _ _ (by rw [h.1]; exact hu)) (fun t0 ht0 => ?_)
  refine safe_pure ⟨by rw [ht0]; simpa using h.1, ?_⟩
  intro x hx
  rcases List.mem_append.mp hx with hx | hx
  · exact h.2 x hx
  · simp at hx; omega

/-- `Bfs::new` for every source list: no `ub`; the result satisfies `Inv`. -/
theorem new_safe (g : Graph) (S : List Nat) : RSafe (AlgoGen.Bfs.new g S) (Inv g.n) := by
  unfold AlgoGen.Bfs.new
  refine safe_fnBody ?_
  refine safe_bind (safe_forLoop _ _ _ (fun st => st.2.length = g.n ∧ ∀ x ∈ st.1, x < g.n) _ ⟨by simp, by intro x hx; cases hx⟩
    (fun st u _ hst => new_for0_safe g.n st u hst)) (fun t1 ht1 => ?_)
  exact safe_pure ht1

theorem next_for0_safe {R : Option Nat × AlgoGen.Bfs → Prop} (order : Nat) (q0 : List Nat) (self : AlgoGen.Bfs) (v : Nat)
    (h : self.visited.length = order ∧ ∀ x ∈ self.queue, x ∈ q0 ∨ x < order) :
    Safe (AlgoGen.Bfs.next_for0 order self v) (fun s => s.visited.length = order ∧ ∀ x ∈ s.queue, x ∈ q0 ∨ x < order)
      (fun s => s.visited.length = order ∧ ∀ x ∈ s.queue, x ∈ q0 ∨ x < order) R := by
  unfold AlgoGen.Bfs.next_for0
  refine safe_bind (safe_assert _) (fun _ ha => ?_)
  have hv : v < order := by simpa using ha
  have hvl : v < self.visited.length := by rw [h.1]; exact hv
  refine safe_bind (safe_rd _ _ _ hvl) (fun t1 _ => ?_)
  split
  · refine safe_bind (safe_wr _ _ _ _ hvl) (fun t2 ht2 => ?_)
    refine safe_pure ⟨by show t2.length = order; rw [ht2]; simpa using h.1, ?_⟩
    intro x hx
    rcases List.mem_append.mp hx with hx | hx
    · exact h.2 x hx
    · right; simp at hx; omega
  · exact safe_pure h

/-- `Bfs::next` in EVERY state: no `ub`; it keeps `visited.len()`, new queue entries are `< visited.len()`. -/
theorem next_safe_any (g : Graph) (s : AlgoGen.Bfs) :
    RSafe (AlgoGen.Bfs.next g s) (fun r => r.2.visited.length = s.visited.length ∧
      (∀ x ∈ r.2.queue, x ∈ s.queue ∨ x < s.visited.length) ∧ ∀ x, r.1 = some x → x ∈ s.queue) := by
  unfold AlgoGen.Bfs.next
  refine safe_fnBody ?_
  cases hq : s.queue with
  | nil => exact safe_ret ⟨rfl, by intro x hx; left; rw [hq] at hx; exact hx, by intro x hx; cases hx⟩
  | cons u q =>
    simp only [popFront]
    refine safe_bind (safe_forLoop _ _ _ (fun s' => s'.visited.length = s.visited.length ∧ ∀ x ∈ s'.queue, x ∈ q ∨ x < s.visited.length) _
      ⟨rfl, fun x hx => Or.inl hx⟩ (fun s' v _ hs' => next_for0_safe _ q s' v hs')) (fun s' hs' => ?_)
    refine safe_pure ⟨hs'.1, ?_, ?_⟩
    · intro x hx
      rcases hs'.2 x hx with h | h
      · left; exact List.mem_cons_of_mem _ h
      · right; exact h
    · intro x hx; cases hx; exact List.mem_cons_self

theorem next_safe (g : Graph) (n : Nat) (s : AlgoGen.Bfs) (h : Inv n s) :
    RSafe (AlgoGen.Bfs.next g s) (fun r => Inv n r.2 ∧ ∀ x, r.1 = some x → x < n) := by
  refine (next_safe_any g s).mono ?_
  intro r ⟨h1, h2, h3⟩
  refine ⟨⟨by rw [h1]; exact h.1, ?_⟩, fun x hx => h.2 x (h3 x hx)⟩
  intro x hx
  rcases h2 x hx with hh | hh
  · exact h.2 x hh
  · rw [h.1] at hh; exact hh

end Bfs

/-! ## `PredecessorTree` (safe code after the fix; the equality with the C19 model is unconditional) -/

namespace PredecessorTree

theorem new_safe (n : Nat) : RSafe (AlgoGen.PredecessorTree.new n) (fun p => p.pred.length = n) := by
  unfold AlgoGen.PredecessorTree.new
  refine safe_fnBody ?_
  refine safe_bind (safe_assert _) (fun _ _ => ?_)
  exact safe_pure (by simp)

/-- `search_by` for EVERY predecessor vector (entries out of range included), start, predicate, fuel. -/
theorem searchBy_safe (fuel : Nat) (t : AlgoGen.PredecessorTree) (s : Nat) (isT : Nat → Option Nat → Bool) :
    RSafe (AlgoGen.PredecessorTree.searchBy fuel t s isT) (fun _ => True) := by
  rw [AlgoGenThm.PredecessorTree.searchBy_eq]
  cases PredTree.searchByFuel t.pred s isT fuel <;> trivial

theorem search_safe (fuel : Nat) (t : AlgoGen.PredecessorTree) (s x : Nat) :
    RSafe (AlgoGen.PredecessorTree.search fuel t s x) (fun _ => True) := by
  rw [AlgoGenThm.PredecessorTree.search_eq]
  cases PredTree.searchByFuel t.pred s (fun v _ => v == x) fuel <;> trivial

end PredecessorTree

/-- `*ptr.add(i) = x` into a vector of length `n` for `i < n` -/
theorem safe_wr_len {β ρ α : Type} {B : β → Prop} {R : ρ → Prop} (site : String) (l : List α) (i : Nat) (v : α) (n : Nat)
    (hl : l.length = n) (hi : i < n) : Safe (wr site l i v : Blk β ρ (List α)) (fun l' => l'.length = n) B R :=
  (safe_wr site l i v (by rw [hl]; exact hi)).mono (fun l' h => by rw [h]; simpa using hl) (fun _ h => h) (fun _ h => h)

namespace BfsDist

def Inv (n : Nat) (s : AlgoGen.BfsDist) : Prop := s.visited.length = n ∧ ∀ x ∈ s.queue, x.1 < n

theorem new_for0_safe {R : AlgoGen.BfsDist → Prop} (order : Nat) (st : List (Nat × Nat) × List Bool) (u : Nat)
    (h : st.2.length = order ∧ ∀ x ∈ st.1, x.1 < order) :
    Safe (AlgoGen.BfsDist.new_for0 order st u) (fun st' => st'.2.length = order ∧ ∀ x ∈ st'.1, x.1 < order)
      (fun st' => st'.2.length = order ∧ ∀ x ∈ st'.1, x.1 < order) R := by
  unfold AlgoGen.BfsDist.new_for0
  refine safe_bind (safe_assert _) (fun _ ha => ?_)
  have hu : u < order := by simpa using ha
  refine safe_bind (safe_wr _ _ _ _ (by rw [h.1]; exact hu)) (fun t0 ht0 => ?_)
  refine safe_pure ⟨by rw [ht0]; simpa using h.1, ?_⟩
  intro x hx
  rcases List.mem_append.mp hx with hx | hx
  · exact h.2 x hx
  · simp at hx; rw [hx]; exact hu

theorem new_safe (g : Graph) (S : List Nat) : RSafe (AlgoGen.BfsDist.new g S) (Inv g.n) := by
  unfold AlgoGen.BfsDist.new
  refine safe_fnBody ?_
  refine safe_bind (safe_forLoop _ _ _ (fun st => st.2.length = g.n ∧ ∀ x ∈ st.1, x.1 < g.n) _ ⟨by simp, by intro x hx; cases hx⟩
    (fun st u _ hst => new_for0_safe g.n st u hst)) (fun t1 ht1 => ?_)
  exact safe_pure ht1

theorem next_for0_safe {R : Option (Nat × Nat) × AlgoGen.BfsDist → Prop} (w order : Nat) (q0 : List (Nat × Nat))
    (self : AlgoGen.BfsDist) (v : Nat) (h : self.visited.length = order ∧ ∀ x ∈ self.queue, x ∈ q0 ∨ x.1 < order) :
    Safe (AlgoGen.BfsDist.next_for0 w order self v) (fun s => s.visited.length = order ∧ ∀ x ∈ s.queue, x ∈ q0 ∨ x.1 < order)
      (fun s => s.visited.length = order ∧ ∀ x ∈ s.queue, x ∈ q0 ∨ x.1 < order) R := by
  unfold AlgoGen.BfsDist.next_for0
  refine safe_bind (safe_assert _) (fun _ ha => ?_)
  have hv : v < order := by simpa using ha
  have hvl : v < self.visited.length := by rw [h.1]; exact hv
  refine safe_bind (safe_rd _ _ _ hvl) (fun t1 _ => ?_)
  split
  · refine safe_bind (safe_wr _ _ _ _ hvl) (fun t2 ht2 => ?_)
    refine safe_pure ⟨by show t2.length = order; rw [ht2]; simpa using h.1, ?_⟩
    intro x hx
    rcases List.mem_append.mp hx with hx | hx
    · exact h.2 x hx
    · right; simp at hx; rw [hx]; exact hv
  · exact safe_pure h

/-- `BfsDist::next` in EVERY state. -/
theorem next_safe_any (g : Graph) (s : AlgoGen.BfsDist) :
    RSafe (AlgoGen.BfsDist.next g s) (fun r => r.2.visited.length = s.visited.length ∧
      (∀ x ∈ r.2.queue, x ∈ s.queue ∨ x.1 < s.visited.length) ∧ ∀ x, r.1 = some x → x ∈ s.queue) := by
  unfold AlgoGen.BfsDist.next
  refine safe_fnBody ?_
  cases hq : s.queue with
  | nil => exact safe_ret ⟨rfl, by intro x hx; left; rw [hq] at hx; exact hx, by intro x hx; cases hx⟩
  | cons u q =>
    simp only [popFront]
    refine safe_bind (safe_forLoop _ _ _ (fun (s' : AlgoGen.BfsDist) => s'.visited.length = s.visited.length ∧
        ∀ x ∈ s'.queue, x ∈ q ∨ x.1 < s.visited.length) _
      ⟨rfl, fun x hx => Or.inl hx⟩ (fun s' v _ hs' => next_for0_safe _ _ q s' v hs')) (fun s' hs' => ?_)
    refine safe_pure ⟨hs'.1, ?_, ?_⟩
    · intro x hx
      rcases hs'.2 x hx with h | h
      · left; exact List.mem_cons_of_mem _ h
      · right; exact h
    · intro x hx; cases hx; exact List.mem_cons_self

theorem next_safe (g : Graph) (n : Nat) (s : AlgoGen.BfsDist) (h : Inv n s) :
    RSafe (AlgoGen.BfsDist.next g s) (fun r => Inv n r.2 ∧ ∀ x, r.1 = some x → x.1 < n) := by
  refine (next_safe_any g s).mono ?_
  intro r ⟨h1, h2, h3⟩
  refine ⟨⟨by rw [h1]; exact h.1, ?_⟩, fun x hx => h.2 x (h3 x hx)⟩
  intro x hx
  rcases h2 x hx with hh | hh
  · exact h.2 x hh
  · rw [h.1] at hh; exact hh

/-- `BfsDist::distances` on every state satisfying `Inv` (= every state `new`/`next` produce), every fuel. -/
theorem distances_safe (g : Graph) (inf fuel : Nat) (s : AlgoGen.BfsDist) (h : Inv g.n s) :
    RSafe (AlgoGen.BfsDist.distances g inf fuel s) (fun r => r.1.length = g.n ∧ Inv g.n r.2) := by
  unfold AlgoGen.BfsDist.distances
  refine safe_fnBody ?_
  refine safe_bind (safe_iterLoop (AlgoGen.BfsDist.next g) AlgoGen.BfsDist.distances_for0 (Inv g.n) (fun x => x.1 < g.n)
    (fun d => d.length = g.n) _ (fun t ht => next_safe g g.n t ht) ?_ fuel s _ h (by simp)) (fun t1 ht1 => safe_pure ht1)
  intro d x hd hx
  unfold AlgoGen.BfsDist.distances_for0
  exact safe_bind (safe_wr_len _ d x.1 x.2 g.n hd hx) (fun t0 ht0 => safe_pure ht0)

end BfsDist

namespace BfsPred

def Inv (n : Nat) (s : AlgoGen.BfsPred) : Prop := s.visited.length = n ∧ ∀ x ∈ s.queue, x.2 < n

theorem new_for0_safe {R : AlgoGen.BfsPred → Prop} (order : Nat) (st : List (Option Nat × Nat) × List Bool) (u : Nat)
    (h : st.2.length = order ∧ ∀ x ∈ st.1, x.2 < order) :
    Safe (AlgoGen.BfsPred.new_for0 order st u) (fun st' => st'.2.length = order ∧ ∀ x ∈ st'.1, x.2 < order)
      (fun st' => st'.2.length = order ∧ ∀ x ∈ st'.1, x.2 < order) R := by
  unfold AlgoGen.BfsPred.new_for0
  refine safe_bind (safe_assert _) (fun _ ha => ?_)
  have hu : u < order := by simpa using ha
  refine safe_bind (safe_wr _ _ _ _ (by rw [h.1]; exact hu)) (fun t0 ht0 => ?_)
  refine safe_pure ⟨by rw [ht0]; simpa using h.1, ?_⟩
  intro x hx
  rcases List.mem_append.mp hx with hx | hx
  · exact h.2 x hx
  · simp at hx; rw [hx]; exact hu

theorem new_safe (g : Graph) (S : List Nat) : RSafe (AlgoGen.BfsPred.new g S) (Inv g.n) := by
  unfold AlgoGen.BfsPred.new
  refine safe_fnBody ?_
  refine safe_bind (safe_forLoop _ _ _ (fun st => st.2.length = g.n ∧ ∀ x ∈ st.1, x.2 < g.n) _ ⟨by simp, by intro x hx; cases hx⟩
    (fun st u _ hst => new_for0_safe g.n st u hst)) (fun t1 ht1 => ?_)
  exact safe_pure ht1

theorem next_for0_safe {R : Option (Option Nat × Nat) × AlgoGen.BfsPred → Prop} (p order : Nat) (q0 : List (Option Nat × Nat))
    (self : AlgoGen.BfsPred) (v : Nat) (h : self.visited.length = order ∧ ∀ x ∈ self.queue, x ∈ q0 ∨ x.2 < order) :
    Safe (AlgoGen.BfsPred.next_for0 p order self v) (fun s => s.visited.length = order ∧ ∀ x ∈ s.queue, x ∈ q0 ∨ x.2 < order)
      (fun s => s.visited.length = order ∧ ∀ x ∈ s.queue, x ∈ q0 ∨ x.2 < order) R := by
  unfold AlgoGen.BfsPred.next_for0
  refine safe_bind (safe_assert _) (fun _ ha => ?_)
  have hv : v < order := by simpa using ha
  have hvl : v < self.visited.length := by rw [h.1]; exact hv
  refine safe_bind (safe_rd _ _ _ hvl) (fun t1 _ => ?_)
  split
  · refine safe_bind (safe_wr _ _ _ _ hvl) (fun t2 ht2 => ?_)
    refine safe_pure ⟨by show t2.length = order; rw [ht2]; simpa using h.1, ?_⟩
    intro x hx
    rcases List.mem_append.mp hx with hx | hx
    · exact h.2 x hx
    · right; simp at hx; rw [hx]; exact hv
  · exact safe_pure h

/-- `BfsPred::next` in EVERY state. -/
theorem next_safe_any (g : Graph) (s : AlgoGen.BfsPred) :
    RSafe (AlgoGen.BfsPred.next g s) (fun r => r.2.visited.length = s.visited.length ∧
      (∀ x ∈ r.2.queue, x ∈ s.queue ∨ x.2 < s.visited.length) ∧ ∀ x, r.1 = some x → x ∈ s.queue) := by
  unfold AlgoGen.BfsPred.next
  refine safe_fnBody ?_
  cases hq : s.queue with
  | nil => exact safe_ret ⟨rfl, by intro x hx; left; rw [hq] at hx; exact hx, by intro x hx; cases hx⟩
  | cons u q =>
    simp only [popFront]
    refine safe_bind (safe_forLoop _ _ _ (fun (s' : AlgoGen.BfsPred) => s'.visited.length = s.visited.length ∧
        ∀ x ∈ s'.queue, x ∈ q ∨ x.2 < s.visited.length) _
      ⟨rfl, fun x hx => Or.inl hx⟩ (fun s' v _ hs' => next_for0_safe _ _ q s' v hs')) (fun s' hs' => ?_)
    refine safe_pure ⟨hs'.1, ?_, ?_⟩
    · intro x hx
      rcases hs'.2 x hx with h | h
      · left; exact List.mem_cons_of_mem _ h
      · right; exact h
    · intro x hx; cases hx; exact List.mem_cons_self

theorem next_safe (g : Graph) (n : Nat) (s : AlgoGen.BfsPred) (h : Inv n s) :
    RSafe (AlgoGen.BfsPred.next g s) (fun r => Inv n r.2 ∧ ∀ x, r.1 = some x → x.2 < n) := by
  refine (next_safe_any g s).mono ?_
  intro r ⟨h1, h2, h3⟩
  refine ⟨⟨by rw [h1]; exact h.1, ?_⟩, fun x hx => h.2 x (h3 x hx)⟩
  intro x hx
  rcases h2 x hx with hh | hh
  · exact h.2 x hh
  · rw [h.1] at hh; exact hh

theorem predecessors_safe (g : Graph) (fuel : Nat) (s : AlgoGen.BfsPred) (h : Inv g.n s) :
    RSafe (AlgoGen.BfsPred.predecessors g fuel s) (fun r => r.1.pred.length = g.n ∧ Inv g.n r.2) := by
  unfold AlgoGen.BfsPred.predecessors
  refine safe_fnBody ?_
  refine safe_bind (safe_call (PredecessorTree.new_safe g.n)) (fun t0 ht0 => ?_)
  refine safe_bind (safe_iterLoop (AlgoGen.BfsPred.next g) AlgoGen.BfsPred.predecessors_for0 (Inv g.n) (fun x => x.2 < g.n)
    (fun (p : AlgoGen.PredecessorTree) => p.pred.length = g.n) _ (fun t ht => next_safe g g.n t ht) ?_ fuel s _ h ht0)
    (fun t1 ht1 => safe_pure ht1)
  intro p x hp hx
  unfold AlgoGen.BfsPred.predecessors_for0
  exact safe_bind (safe_wr_len _ p.pred x.2 x.1 g.n hp hx) (fun t0 ht0 => safe_pure ht0)

theorem shortestPath_safe (g : Graph) (fuel : Nat) (s : AlgoGen.BfsPred) (isT : Nat → Bool) (h : Inv g.n s) :
    RSafe (AlgoGen.BfsPred.shortestPath g fuel s isT) (fun _ => True) := by
  unfold AlgoGen.BfsPred.shortestPath
  refine safe_fnBody ?_
  refine safe_bind (safe_call (PredecessorTree.new_safe g.n)) (fun t0 ht0 => ?_)
  refine safe_bind (safe_iterLoopS (AlgoGen.BfsPred.next g) (AlgoGen.BfsPred.shortestPath_for0 fuel isT) (Inv g.n) (fun x => x.2 < g.n)
    (fun (p : AlgoGen.PredecessorTree) => p.pred.length = g.n) (fun _ => True) (fun t ht => next_safe g g.n t ht) ?_ fuel s _ h ht0)
    (fun t1 _ => safe_pure trivial)
  intro t p x _ hp hx
  unfold AlgoGen.BfsPred.shortestPath_for0
  refine safe_bind (safe_wr_len _ p.pred x.2 x.1 g.n hp hx) (fun t1 ht1 => ?_)
  split
  · exact safe_bind (safe_call (PredecessorTree.searchBy_safe _ _ _ _)) (fun _ _ => safe_ret trivial)
  · exact safe_pure ht1

theorem cycles_for0_safe {R : List (List Nat) × AlgoGen.BfsPred → Prop} (fuel : Nat) (pred : AlgoGen.PredecessorTree) (v : Nat)
    (cycles : List (List Nat)) (x : Nat) :
    Safe (AlgoGen.BfsPred.cycles_for0 fuel pred v cycles x) (fun _ => True) (fun _ => True) R := by
  unfold AlgoGen.BfsPred.cycles_for0
  refine safe_bind (safe_call (PredecessorTree.search_safe _ _ _ _)) (fun t4 _ => ?_)
  cases t4 <;> exact safe_pure trivial

theorem cycles_safe (g : Graph) (fuel : Nat) (s : AlgoGen.BfsPred) (h : Inv g.n s) :
    RSafe (AlgoGen.BfsPred.cycles g fuel s) (fun _ => True) := by
  unfold AlgoGen.BfsPred.cycles
  refine safe_fnBody ?_
  refine safe_bind (safe_call (PredecessorTree.new_safe g.n)) (fun t0 ht0 => ?_)
  refine safe_bind (safe_whileLoop (AlgoGen.BfsPred.cycles_while0 g fuel)
    (fun st => Inv g.n st.1 ∧ st.2.1.pred.length = g.n) (fun _ => True) ?_ fuel _ ⟨h, ht0⟩) (fun _ _ => safe_pure trivial)
  intro st ⟨hs, hp⟩
  unfold AlgoGen.BfsPred.cycles_while0
  refine safe_bind (safe_call (next_safe g g.n st.1 hs)) (fun t1 ht1 => ?_)
  cases ho : t1.1 with
  | none => exact safe_brk ⟨ht1.1, hp⟩
  | some t2 =>
    simp only []
    have hv : t2.2 < g.n := ht1.2 t2 ho
    refine safe_bind (safe_wr_len _ st.2.1.pred t2.2 t2.1 g.n hp hv) (fun t3 ht3 => ?_)
    refine safe_bind (safe_forLoop _ _ _ (fun _ => True) _ trivial (fun c x _ _ => cycles_for0_safe _ _ _ c x)) (fun _ _ => ?_)
    exact safe_pure ⟨ht1.1, ht3⟩

end BfsPred

end GraafVerif.C13Gen
