import GraafVerif.Proof.GenSets
/-!
# `BTreeMap` as a key-ascending list: lemmas about `mupsert` / `mget`

(Local copies; the "repr" builder proves the same facts in `Proof/ReprSorted.lean`.)
-/
namespace GraafVerif.Gen
open GraafVerif.Repr

variable {X : Type}

theorem sortedK_cons {a : Nat × X} {l : List (Nat × X)} :
    SortedK (a :: l) ↔ (∀ b ∈ l, a.1 < b.1) ∧ SortedK l := by
  unfold SortedK; exact List.pairwise_cons

/-- keys of a key-ascending list are unique -/
theorem sortedK_unique {l : List (Nat × X)} (h : SortedK l) {k : Nat} {x y : X}
    (hx : (k, x) ∈ l) (hy : (k, y) ∈ l) : x = y := by
  induction l with
  | nil => cases hx
  | cons a l ih =>
    rw [sortedK_cons] at h
    rcases List.mem_cons.mp hx with hx1 | hx1
    · rcases List.mem_cons.mp hy with hy1 | hy1
      · rw [← hx1] at hy1; exact (Prod.mk.inj hy1).2.symm
      · subst hx1; have := h.1 _ hy1; simp at this
    · rcases List.mem_cons.mp hy with hy1 | hy1
      · subst hy1; have := h.1 _ hx1; simp at this
      · exact ih h.2 hx1 hy1

theorem mem_keys_of_mem {l : List (Nat × X)} {k : Nat} {x : X} (h : (k, x) ∈ l) : k ∈ l.map (·.1) :=
  List.mem_map.mpr ⟨(k, x), h, rfl⟩

theorem mem_mupsert_keys {k a : Nat} {d : X} {f : X → X} {l : List (Nat × X)} :
    a ∈ (mupsert k d f l).map (·.1) ↔ a = k ∨ a ∈ l.map (·.1) := by
  induction l with
  | nil => simp [mupsert]
  | cons y ys ih =>
    obtain ⟨k', x⟩ := y
    unfold mupsert
    split
    · simp
    · split
      · rename_i h; subst h; simp
      · simp only [List.map_cons, List.mem_cons, ih]; grind

theorem sortedK_mupsert {k : Nat} {d : X} {f : X → X} {l : List (Nat × X)} (h : SortedK l) :
    SortedK (mupsert k d f l) := by
  induction l with
  | nil => simp [mupsert, SortedK]
  | cons y ys ih =>
    obtain ⟨k', x⟩ := y
    rw [sortedK_cons] at h
    unfold mupsert
    split
    · rename_i hlt
      rw [sortedK_cons]
      refine ⟨?_, sortedK_cons.mpr h⟩
      intro b hb
      rcases List.mem_cons.mp hb with rfl | hb
      · exact hlt
      · exact Nat.lt_trans hlt (h.1 b hb)
    · split
      · rw [sortedK_cons]; exact ⟨h.1, h.2⟩
      · rename_i h1 h2
        rw [sortedK_cons]
        refine ⟨?_, ih h.2⟩
        intro b hb
        have : b.1 ∈ (mupsert k d f ys).map (·.1) := List.mem_map.mpr ⟨b, hb, rfl⟩
        rcases mem_mupsert_keys.mp this with hk | hk
        · simp only; omega
        · obtain ⟨c, hc, hcb⟩ := List.mem_map.mp hk
          have := h.1 c hc; simp only at this hcb ⊢; omega

/-- key absent: the entry `(k, f dflt)` is added, nothing else changes -/
theorem mem_mupsert_absent {k : Nat} {d : X} {f : X → X} {l : List (Nat × X)}
    (habs : k ∉ l.map (·.1)) {p : Nat × X} :
    p ∈ mupsert k d f l ↔ p = (k, f d) ∨ p ∈ l := by
  induction l with
  | nil => simp [mupsert]
  | cons y ys ih =>
    obtain ⟨k', x⟩ := y
    simp only [List.map_cons, List.mem_cons, not_or] at habs
    unfold mupsert
    split
    · simp
    · split
      · rename_i h; exact absurd h habs.1
      · simp only [List.mem_cons, ih habs.2]; grind

/-- key present with value `x` (list key-ascending): that entry becomes `(k, f x)` -/
theorem mem_mupsert_present {k : Nat} {d : X} {f : X → X} {l : List (Nat × X)} (hs : SortedK l)
    {x : X} (hx : (k, x) ∈ l) {p : Nat × X} :
    p ∈ mupsert k d f l ↔ p = (k, f x) ∨ (p ∈ l ∧ p.1 ≠ k) := by
  induction l with
  | nil => cases hx
  | cons y ys ih =>
    obtain ⟨k', x'⟩ := y
    rw [sortedK_cons] at hs
    unfold mupsert
    rcases List.mem_cons.mp hx with heq | hx'
    · obtain ⟨rfl, rfl⟩ := Prod.mk.inj heq
      simp only [Nat.lt_irrefl, if_false, if_true, List.mem_cons]
      constructor
      · rintro (h | h)
        · exact Or.inl h
        · right; refine ⟨Or.inr h, ?_⟩
          have := hs.1 p h; simp only at this; omega
      · rintro (h | ⟨h | h, hne⟩)
        · exact Or.inl h
        · subst h; exact absurd rfl hne
        · exact Or.inr h
    · have hlt : k' < k := by have := hs.1 _ hx'; simpa using this
      have h1 : ¬ k < k' := by omega
      have h2 : ¬ k = k' := by omega
      simp only [h1, h2, if_false, List.mem_cons, ih hs.2 hx']
      constructor
      · rintro (h | h | ⟨h, hne⟩)
        · subst h; right; exact ⟨Or.inl rfl, by simp only; omega⟩
        · exact Or.inl h
        · exact Or.inr ⟨Or.inr h, hne⟩
      · rintro (h | ⟨h | h, hne⟩)
        · exact Or.inr (Or.inl h)
        · exact Or.inl h
        · exact Or.inr (Or.inr ⟨h, hne⟩)

/-- key present: the key list is unchanged -/
theorem keys_mupsert_present {k : Nat} {d : X} {f : X → X} {l : List (Nat × X)} (hs : SortedK l)
    (hk : k ∈ l.map (·.1)) : (mupsert k d f l).map (·.1) = l.map (·.1) := by
  induction l with
  | nil => cases hk
  | cons y ys ih =>
    obtain ⟨k', x'⟩ := y
    rw [sortedK_cons] at hs
    unfold mupsert
    simp only [List.map_cons, List.mem_cons] at hk
    rcases hk with rfl | hk
    · simp
    · have hlt : k' < k := by
        obtain ⟨c, hc, hcb⟩ := List.mem_map.mp hk
        have := hs.1 c hc; simp only at this hcb; omega
      have h1 : ¬ k < k' := by omega
      have h2 : ¬ k = k' := by omega
      simp only [h1, h2, if_false, List.map_cons, ih hs.2 hk]

/-- `entry(k).or_default()` on a present key changes nothing -/
theorem mupsert_id_present {k : Nat} {d : X} {l : List (Nat × X)} (hs : SortedK l)
    (hk : k ∈ l.map (·.1)) : mupsert k d id l = l := by
  induction l with
  | nil => cases hk
  | cons y ys ih =>
    obtain ⟨k', x'⟩ := y
    rw [sortedK_cons] at hs
    unfold mupsert
    simp only [List.map_cons, List.mem_cons] at hk
    rcases hk with rfl | hk
    · simp
    · have hlt : k' < k := by
        obtain ⟨c, hc, hcb⟩ := List.mem_map.mp hk
        have := hs.1 c hc; simp only at this hcb; omega
      have h1 : ¬ k < k' := by omega
      have h2 : ¬ k = k' := by omega
      simp only [h1, h2, if_false, ih hs.2 hk]

theorem mget_eq_some_iff {l : List (Nat × X)} (hs : SortedK l) {k : Nat} {x : X} :
    mget k l = some x ↔ (k, x) ∈ l := by
  induction l with
  | nil => simp [mget]
  | cons y ys ih =>
    obtain ⟨k', x'⟩ := y
    rw [sortedK_cons] at hs
    unfold mget
    split
    · rename_i h; subst h
      constructor
      · intro h; have := Option.some.inj h; subst this; exact List.mem_cons_self ..
      · intro h
        rcases List.mem_cons.mp h with h | h
        · rw [(Prod.mk.inj h).2]
        · have := hs.1 _ h; simp at this
    · split
      · rename_i h1 h2
        constructor
        · intro h; cases h
        · intro h
          rcases List.mem_cons.mp h with h | h
          · exact absurd (Prod.mk.inj h).1 h1
          · have := hs.1 _ h; simp only at this; omega
      · rename_i h1 h2
        rw [ih hs.2]
        constructor
        · exact fun h => List.mem_cons_of_mem _ h
        · intro h
          rcases List.mem_cons.mp h with h | h
          · exact absurd (Prod.mk.inj h).1 h1
          · exact h

theorem mget_isSome_iff {l : List (Nat × X)} (hs : SortedK l) {k : Nat} :
    (mget k l).isSome ↔ k ∈ l.map (·.1) := by
  constructor
  · intro h
    obtain ⟨x, hx⟩ := Option.isSome_iff_exists.mp h
    exact mem_keys_of_mem ((mget_eq_some_iff hs).mp hx)
  · intro h
    obtain ⟨⟨k', x⟩, hc, hcb⟩ := List.mem_map.mp h
    simp only at hcb; subst hcb
    rw [(mget_eq_some_iff hs).mpr hc]; rfl

end GraafVerif.Gen
