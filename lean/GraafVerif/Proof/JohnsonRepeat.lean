import GraafVerif.Proof.JohnsonTarjan3
/-!
# Every `circuits()` call on the same `Johnson75` value returns the full enumeration

State survives between calls (`blocked` keeps the roots of trivial components); the per-root reset
of `circuits` makes every round independent of it.  `rounds_sound` / `rounds_complete` are the
outer-loop lemmas from an ARBITRARY state satisfying the between-rounds invariant `GInv2`;
`repeat_statement` applies them to every call of `circuitsRepeat`.
-/
set_option linter.unusedVariables false
namespace GraafVerif.Johnson
open GraafVerif

theorem rounds_sound (g : Graph) (hwf : g.WF) (hloops : NoLoops g) (hrows : RowsNodup g) :
    ∀ (ss : List Nat) (st : JState), ss.Nodup → (∀ s ∈ ss, s < g.n) → GInv st →
      st.result.Nodup → (∀ c ∈ st.result, IsCanonicalElemCircuit g c ∧ ∀ h, c.head? = some h → h ∉ ss) →
      (ss.foldl (circuitsStep (AM.ofGraph g)) st).result.Nodup ∧
        ∀ c ∈ (ss.foldl (circuitsStep (AM.ofGraph g)) st).result, IsCanonicalElemCircuit g c := by
  intro ss
  induction ss with
  | nil => intro st _ _ _ h1 h2; exact ⟨h1, fun c hc => (h2 c hc).1⟩
  | cons s ss ih =>
    intro st hnd hlt hst h1 h2
    simp only [List.foldl_cons]
    have hnd' := List.nodup_cons.1 hnd
    have hr := round_post g hwf hloops hrows s (hlt s (by simp)) st hst
    obtain ⟨new, hres, hnew, hgood⟩ := hr.res
    apply ih _ hnd'.2 (fun x hx => hlt x (by simp [hx])) hr.ginv
    · rw [hres, List.nodup_append]
      refine ⟨h1, hnew, ?_⟩
      intro a ha b hb hab
      subst hab
      have := (h2 a ha).2 s (hgood a hb).2
      simp at this
    · intro c hc
      rw [hres] at hc
      rcases List.mem_append.1 hc with hc | hc
      · refine ⟨(h2 c hc).1, fun h hh hm => (h2 c hc).2 h hh (by simp [hm])⟩
      · refine ⟨(hgood c hc).1, fun h hh hm => ?_⟩
        rw [(hgood c hc).2] at hh
        simp at hh
        subst hh
        exact hnd'.1 hm

theorem rounds_complete (g : Graph) (hwf : g.WF) (hloops : NoLoops g) (hrows : RowsNodup g)
    (c : List Nat) (hcan : IsCanonicalElemCircuit g c) (s : Nat) (hhead : c.head? = some s) :
    ∀ (ss : List Nat) (st : JState), (∀ x ∈ ss, x < g.n) → GInv2 g st →
      (s ∈ ss ∨ c ∈ st.result) →
      GInv2 g (ss.foldl (circuitsStep (AM.ofGraph g)) st) ∧
        c ∈ (ss.foldl (circuitsStep (AM.ofGraph g)) st).result := by
  intro ss
  induction ss with
  | nil =>
    intro st _ hst h
    rcases h with h | h
    · simp at h
    · exact ⟨hst, h⟩
  | cons x ss ih =>
    intro st hlt hst h
    simp only [List.foldl_cons]
    have hr := round_post2 g hwf hloops hrows (tarjanCovers g hwf) x (hlt x (by simp)) st hst
    apply ih _ (fun y hy => hlt y (by simp [hy])) hr.1
    rcases h with h | h
    · rcases List.mem_cons.1 h with rfl | h
      · exact Or.inr (hr.2.2 _ hcan hhead)
      · exact Or.inl h
    · exact Or.inr (hr.2.1 _ h)

theorem rounds_ginv2 (g : Graph) (hwf : g.WF) (hloops : NoLoops g) (hrows : RowsNodup g) :
    ∀ (ss : List Nat) (st : JState), (∀ x ∈ ss, x < g.n) → GInv2 g st →
      GInv2 g (ss.foldl (circuitsStep (AM.ofGraph g)) st)
  | [], st, _, h => h
  | x :: ss, st, hlt, h => by
    simp only [List.foldl_cons]
    exact rounds_ginv2 g hwf hloops hrows ss _ (fun y hy => hlt y (by simp [hy]))
      (round_post2 g hwf hloops hrows (tarjanCovers g hwf) x (hlt x (by simp)) st h).1

theorem GInv2.reset_result {g : Graph} {st : JState} (h : GInv2 g st) :
    GInv2 g { st with result := [] } :=
  ⟨⟨h.ginv.i1, h.ginv.stack⟩, h.bnd, h.blt, h.blen⟩

theorem GInv2.new (g : Graph) : GInv2 g (JState.new (AM.ofGraph g)) :=
  ⟨⟨fun y _ => by simp only [JState.Bof, JState.new, List.getElem?_replicate]; split <;> rfl, rfl⟩,
    by simp [JState.new], by simp [JState.new], by simp [JState.new, AM.ofGraph, AM.order]⟩

/-- One call from any state satisfying the between-rounds invariant: full enumeration, and the
invariant holds again afterwards. -/
theorem call_statement (g : Graph) (hwf : g.WF) (hloops : NoLoops g) (hrows : RowsNodup g)
    (st : JState) (hst : GInv2 g st) :
    GInv2 g (circuitsCall (AM.ofGraph g) st) ∧ (circuitsCall (AM.ofGraph g) st).result.Nodup ∧
      ∀ c, c ∈ (circuitsCall (AM.ofGraph g) st).result ↔ IsCanonicalElemCircuit g c := by
  have h0 := hst.reset_result
  have hlt : ∀ x ∈ (AM.ofGraph g).verts, x < g.n := fun x hx => List.mem_range.1 hx
  have hs := rounds_sound g hwf hloops hrows (AM.ofGraph g).verts { st with result := [] }
    List.nodup_range hlt h0.ginv (by simp) (by simp)
  refine ⟨rounds_ginv2 g hwf hloops hrows _ _ hlt h0, hs.1, fun c => ⟨hs.2 c, fun hc => ?_⟩⟩
  obtain ⟨s, rest, rfl, hne, hnd, hwalk, hclose, hgt⟩ := hc
  have hsn : s < g.n := by
    cases rest with
    | nil => exact absurd rfl hne
    | cons a t => exact (hwf s a hwalk.1).1
  exact (rounds_complete g hwf hloops hrows (s :: rest) ⟨s, rest, rfl, hne, hnd, hwalk, hclose, hgt⟩ s rfl
    (AM.ofGraph g).verts { st with result := [] } hlt h0 (Or.inl (List.mem_range.2 hsn))).2

theorem repeat_statement (g : Graph) (hwf : g.WF) (hloops : NoLoops g) (hrows : RowsNodup g) :
    ∀ (k : Nat) (st : JState), GInv2 g st → ∀ out ∈ circuitsRepeat (AM.ofGraph g) k st,
      out.Nodup ∧ ∀ c, c ∈ out ↔ IsCanonicalElemCircuit g c
  | 0, _, _, out, h => by simp [circuitsRepeat] at h
  | k+1, st, hst, out, h => by
    have hc := call_statement g hwf hloops hrows st hst
    simp only [circuitsRepeat, List.mem_cons] at h
    rcases h with rfl | h
    · exact hc.2
    · exact repeat_statement g hwf hloops hrows k _ hc.1 out h

theorem circuitsRepeat_length (a : AM) : ∀ (k : Nat) (st : JState), (circuitsRepeat a k st).length = k
  | 0, _ => rfl
  | k+1, st => by simp [circuitsRepeat, circuitsRepeat_length a k]

theorem circuitsAM_eq_call (a : AM) : circuitsAM a = (circuitsCall a (JState.new a)).result := rfl

end GraafVerif.Johnson
