import GraafVerif.Proof.OracleHop
import GraafVerif.Proof.Bfm
/-!
# The naive weighted-distance oracle `wdistB` is exact

`wdistB g S` labels the sources `0`, runs `n` Bellman-Ford rounds (no early exit; inside a round
the rows are scanned in ascending tail order and the label `du` of the tail is read ONCE at the
start of its row), and reports whether one more round would still improve something.

Proved here, for `g.WF` and sources in range:

* every finite label is the weight of a walk from a source, the source labels are `≤ 0`
  (`WInv`); labels only decrease;
* after `j` rounds every walk of `≤ j` arcs from a source bounds the label of its end (`Cov`);
* flag `false` ⇒ the extra round changed nothing and every arc is tight ⇒ the labels are exact
  (`IsMinDist`, `none ↔ ¬ WReachFrom`) and no negative circuit is reachable;
* no reachable negative circuit ⇒ walks can be shortened to `≤ n-1` arcs
  (`Bfm.short_walk`) ⇒ after `n` rounds every arc is tight ⇒ flag `false`.

So `flag = true ↔` a negative circuit is reachable from `S`.
-/
namespace GraafVerif.OracleProof
open GraafVerif.Bfm (short_walk NoNegReach)

/-! ## Named pieces of `wdistB` -/

def wInit (g : WGraph) (S : List Nat) : List (Option Int) :=
  S.foldl (fun d s => d.set s (some 0)) (List.replicate g.n none)

def wIn (du : Int) (a : List (Option Int) × Bool) (vw : Nat × Int) : List (Option Int) × Bool :=
  match a.1[vw.1]?.getD none with
  | none => (a.1.set vw.1 (some (du + vw.2)), true)
  | some dv => if du + vw.2 < dv then (a.1.set vw.1 (some (du + vw.2)), true) else a

def wOut (g : WGraph) (acc : List (Option Int) × Bool) (u : Nat) : List (Option Int) × Bool :=
  match acc.1[u]?.getD none with
  | none => acc
  | some du => (g.out u).foldl (wIn du) acc

def wRound (g : WGraph) (d : List (Option Int)) : List (Option Int) × Bool :=
  (List.range g.n).foldl (wOut g) (d, false)

/-- The label vector after `m` rounds. -/
def wRoundsN (g : WGraph) (S : List Nat) (m : Nat) : List (Option Int) :=
  (List.range m).foldl (fun d _ => (wRound g d).1) (wInit g S)

theorem wdistB_eq (g : WGraph) (S : List Nat) :
    wdistB g S = (wRoundsN g S g.n, (wRound g (wRoundsN g S g.n)).2) := rfl

/-! ## Bounds on labels -/

/-- Label `v` is finite and at most `c`. -/
def BndL (d : List (Option Int)) (v : Nat) (c : Int) : Prop := ∃ x, lk d v = some x ∧ x ≤ c

theorem BndL.mono {d : List (Option Int)} {v : Nat} {c c' : Int} (h : BndL d v c) (hc : c ≤ c') :
    BndL d v c' := by
  obtain ⟨x, hx, hxc⟩ := h
  exact ⟨x, hx, by omega⟩

theorem wIn_cases (du : Int) (a : List (Option Int) × Bool) (vw : Nat × Int) :
    ((lk a.1 vw.1 = none ∨ ∃ dv, lk a.1 vw.1 = some dv ∧ du + vw.2 < dv) ∧
      wIn du a vw = (a.1.set vw.1 (some (du + vw.2)), true)) ∨
    (∃ dv, lk a.1 vw.1 = some dv ∧ dv ≤ du + vw.2 ∧ wIn du a vw = a) := by
  unfold wIn lk
  cases h : a.1[vw.1]?.getD none with
  | none => left; exact ⟨Or.inl rfl, rfl⟩
  | some dv =>
    by_cases hlt : du + vw.2 < dv
    · left; exact ⟨Or.inr ⟨dv, rfl, hlt⟩, by simp [hlt]⟩
    · right; exact ⟨dv, rfl, by omega, by simp [hlt]⟩

theorem wOut_cases (g : WGraph) (acc : List (Option Int) × Bool) (u : Nat) :
    (lk acc.1 u = none ∧ wOut g acc u = acc) ∨
    (∃ du, lk acc.1 u = some du ∧ wOut g acc u = (g.out u).foldl (wIn du) acc) := by
  unfold wOut lk
  cases h : acc.1[u]?.getD none with
  | none => left; exact ⟨rfl, rfl⟩
  | some du => right; exact ⟨du, rfl, rfl⟩

theorem wIn_length (du : Int) (a : List (Option Int) × Bool) (vw : Nat × Int) :
    (wIn du a vw).1.length = a.1.length := by
  rcases wIn_cases du a vw with ⟨_, h⟩ | ⟨_, _, _, h⟩ <;> rw [h]
  simp

/-- Labels only decrease. -/
theorem wIn_bnd (du : Int) (a : List (Option Int) × Bool) (vw : Nat × Int) {y : Nat} {c : Int}
    (h : BndL a.1 y c) : BndL (wIn du a vw).1 y c := by
  rcases wIn_cases du a vw with ⟨hc, h1⟩ | ⟨_, _, _, h1⟩
  · rw [h1]
    obtain ⟨x, hx, hxc⟩ := h
    show BndL (a.1.set vw.1 (some (du + vw.2))) y c
    unfold BndL
    rw [lk_set]
    by_cases hvy : vw.1 = y
    · subst hvy
      rw [if_pos ⟨rfl, lk_lt hx⟩]
      rcases hc with hn | ⟨dv, hdv, hlt⟩
      · rw [hn] at hx; cases hx
      · rw [hdv] at hx
        cases hx
        exact ⟨_, rfl, by omega⟩
    · rw [if_neg (fun h => hvy h.1)]
      exact ⟨x, hx, hxc⟩
  · rw [h1]; exact h

theorem wIn_foldl_length (du : Int) (l : List (Nat × Int)) (a : List (Option Int) × Bool) :
    (l.foldl (wIn du) a).1.length = a.1.length :=
  foldl_inv (fun b : List (Option Int) × Bool => b.1.length = a.1.length) (wIn du) l
    (fun b vw _ h => by rw [wIn_length]; exact h) a rfl

theorem wIn_foldl_bnd (du : Int) (l : List (Nat × Int)) (a : List (Option Int) × Bool) {y : Nat} {c : Int}
    (h : BndL a.1 y c) : BndL (l.foldl (wIn du) a).1 y c :=
  foldl_inv (fun b : List (Option Int) × Bool => BndL b.1 y c) (wIn du) l
    (fun b vw _ h => wIn_bnd du b vw h) a h

theorem wOut_length (g : WGraph) (acc : List (Option Int) × Bool) (u : Nat) :
    (wOut g acc u).1.length = acc.1.length := by
  rcases wOut_cases g acc u with ⟨_, h⟩ | ⟨du, _, h⟩ <;> rw [h]
  exact wIn_foldl_length du _ acc

theorem wOut_bnd (g : WGraph) (acc : List (Option Int) × Bool) (u : Nat) {y : Nat} {c : Int}
    (h : BndL acc.1 y c) : BndL (wOut g acc u).1 y c := by
  rcases wOut_cases g acc u with ⟨_, h1⟩ | ⟨du, _, h1⟩ <;> rw [h1]
  · exact h
  · exact wIn_foldl_bnd du _ acc h

theorem wRound_length (g : WGraph) (d : List (Option Int)) : (wRound g d).1.length = d.length :=
  foldl_inv (fun b : List (Option Int) × Bool => b.1.length = d.length) (wOut g) _
    (fun b u _ h => by rw [wOut_length]; exact h) (d, false) rfl

theorem wRound_bnd (g : WGraph) (d : List (Option Int)) {y : Nat} {c : Int} (h : BndL d y c) :
    BndL (wRound g d).1 y c :=
  foldl_inv (fun b : List (Option Int) × Bool => BndL b.1 y c) (wOut g) _
    (fun b u _ h => wOut_bnd g b u h) (d, false) h

/-! ## Finite labels are walk weights -/

/-- `x` is the weight of some walk from a source to `v`. -/
def IsWalkWt (g : WGraph) (S : List Nat) (v : Nat) (x : Int) : Prop := ∃ s ∈ S, ∃ k, WWalk g s v k x

structure WInv (g : WGraph) (S : List Nat) (d : List (Option Int)) : Prop where
  len : d.length = g.n
  src : ∀ s ∈ S, BndL d s 0
  walk : ∀ v x, lk d v = some x → IsWalkWt g S v x

theorem wInv_wIn {g : WGraph} {S : List Nat} {a : List (Option Int) × Bool} {u du} {vw : Nat × Int}
    (h : WInv g S a.1) (hdu : IsWalkWt g S u du) (ha : g.A u vw.1 vw.2) : WInv g S (wIn du a vw).1 := by
  refine ⟨by rw [wIn_length, h.len], fun s hs => wIn_bnd du a vw (h.src s hs), ?_⟩
  rcases wIn_cases du a vw with ⟨_, h1⟩ | ⟨_, _, _, h1⟩
  · rw [h1]
    intro y x hy
    change lk (a.1.set vw.1 (some (du + vw.2))) y = some x at hy
    rw [lk_set] at hy
    by_cases hvy : vw.1 = y ∧ vw.1 < a.1.length
    · rw [if_pos hvy] at hy
      cases hy
      obtain ⟨s, hs, k, hw⟩ := hdu
      exact ⟨s, hs, k+1, hvy.1 ▸ WWalk.snoc hw ha⟩
    · rw [if_neg hvy] at hy; exact h.walk y x hy
  · rw [h1]; exact h.walk

theorem wInv_wOut {g : WGraph} {S : List Nat} {a : List (Option Int) × Bool} (u : Nat)
    (h : WInv g S a.1) : WInv g S (wOut g a u).1 := by
  rcases wOut_cases g a u with ⟨_, h1⟩ | ⟨du, hdu, h1⟩ <;> rw [h1]
  · exact h
  · have hw := h.walk u du hdu
    exact foldl_inv (fun b : List (Option Int) × Bool => WInv g S b.1) (wIn du) _
      (fun _ vw hvw hb => wInv_wIn hb hw hvw) a h

theorem wInv_round {g : WGraph} {S : List Nat} {d : List (Option Int)} (h : WInv g S d) :
    WInv g S (wRound g d).1 :=
  foldl_inv (fun b : List (Option Int) × Bool => WInv g S b.1) (wOut g) _
    (fun _ u _ hb => wInv_wOut u hb) (d, false) h

theorem wInit_lk (g : WGraph) (S : List Nat) (v : Nat) :
    lk (wInit g S) v = if v ∈ S ∧ v < g.n then some 0 else none := by
  unfold wInit
  rw [lk_init 0 g.n v S _ (by simp), lk_replicate]

theorem wInv_init (g : WGraph) {S : List Nat} (hS : ∀ s ∈ S, s < g.n) : WInv g S (wInit g S) := by
  refine ⟨by unfold wInit; rw [length_init]; simp, ?_, ?_⟩
  · intro s hs
    exact ⟨0, by rw [wInit_lk, if_pos ⟨hs, hS s hs⟩], by omega⟩
  · intro v x hx
    rw [wInit_lk] at hx
    by_cases hv : v ∈ S ∧ v < g.n
    · rw [if_pos hv] at hx
      cases hx
      exact ⟨v, hv.1, 0, WWalk.nil v⟩
    · rw [if_neg hv] at hx; cases hx

theorem wInv_rounds {g : WGraph} {S : List Nat} (hS : ∀ s ∈ S, s < g.n) :
    ∀ m, WInv g S (wRoundsN g S m) := by
  intro m
  induction m with
  | zero => exact wInv_init g hS
  | succ m ih =>
    unfold wRoundsN at ih ⊢
    rw [List.range_succ, List.foldl_append]
    exact wInv_round ih

/-! ## One round covers one more arc -/

/-- Every walk of at most `j` arcs from a source bounds the label of its end vertex. -/
def Cov (g : WGraph) (S : List Nat) (d : List (Option Int)) (j : Nat) : Prop :=
  ∀ s ∈ S, ∀ v k wt, k ≤ j → WWalk g s v k wt → BndL d v wt

/-- After a round started at `d`: the head of every arc is bounded through the tail's
label in `d`. -/
theorem round_arc {g : WGraph} (hwf : g.WF) {d : List (Option Int)} (hlen : d.length = g.n)
    {u v : Nat} {w c : Int} (ha : g.A u v w) (hu : BndL d u c) : BndL (wRound g d).1 v (c + w) := by
  unfold wRound
  have key := foldl_establish
    (fun a : List (Option Int) × Bool => a.1.length = g.n ∧ ∀ y c, BndL d y c → BndL a.1 y c)
    (fun (u : Nat) (a : List (Option Int) × Bool) =>
      ∀ c, BndL d u c → ∀ vw ∈ g.out u, BndL a.1 vw.1 (c + vw.2))
    (wOut g) (List.range g.n)
    (fun a b _ h => ⟨by rw [wOut_length]; exact h.1, fun y c hy => wOut_bnd g a b (h.2 y c hy)⟩)
    (fun a b _ hI c hb vw hvw => by
      obtain ⟨x, hx, hxc⟩ := hI.2 b c hb
      rcases wOut_cases g a b with ⟨hn, _⟩ | ⟨du, hdu, h1⟩
      · rw [hn] at hx; cases hx
      · rw [h1]
        rw [hdu] at hx
        have hxe := Option.some.inj hx
        subst hxe
        have := foldl_establish (fun a : List (Option Int) × Bool => a.1.length = g.n)
          (fun (vw : Nat × Int) (a : List (Option Int) × Bool) => BndL a.1 vw.1 (du + vw.2))
          (wIn du) (g.out b)
          (fun a vw _ h => by rw [wIn_length]; exact h)
          (fun a vw hvw hl => by
            have hlt : vw.1 < a.1.length := by rw [hl]; exact (hwf b vw.1 vw.2 hvw).2
            rcases wIn_cases du a vw with ⟨_, h1⟩ | ⟨dv, hdv, hle, h1⟩
            · rw [h1]
              exact ⟨du + vw.2, by show lk (a.1.set vw.1 _) vw.1 = _; rw [lk_set, if_pos ⟨rfl, hlt⟩],
                Int.le_refl _⟩
            · rw [h1]; exact ⟨dv, hdv, hle⟩)
          (fun a vw c hc => wIn_bnd du a vw hc)
          a hI.1 vw hvw
        exact this.mono (by omega))
    (fun a b c hc c' hc' vw hvw => wOut_bnd g a b (hc c' hc' vw hvw))
    (d, false) ⟨hlen, fun _ _ h => h⟩ u (List.mem_range.mpr (hwf u v w ha).1) c hu
  exact key (v, w) ha

theorem cov_round {g : WGraph} (hwf : g.WF) {S : List Nat} {d : List (Option Int)} {j : Nat}
    (hlen : d.length = g.n) (hc : Cov g S d j) : Cov g S (wRound g d).1 (j+1) := by
  intro s hs v k wt hk hw
  rcases Bfm.wwalk_inv hw with ⟨rfl, rfl, rfl⟩ | ⟨u, k', wt', w, rfl, rfl, hw', ha⟩
  · exact wRound_bnd g d (hc _ hs _ 0 0 (by omega) (WWalk.nil _))
  · exact round_arc hwf hlen ha (hc s hs u k' wt' (by omega) hw')

theorem cov_rounds {g : WGraph} (hwf : g.WF) {S : List Nat} (hS : ∀ s ∈ S, s < g.n) :
    ∀ m, Cov g S (wRoundsN g S m) m := by
  intro m
  induction m with
  | zero =>
    intro s hs v k wt hk hw
    cases hw with
    | nil => exact (wInv_init g hS).src s hs
    | snoc _ _ => omega
  | succ m ih =>
    have hlen := (wInv_rounds (g := g) hS m).len
    unfold wRoundsN at ih hlen ⊢
    rw [List.range_succ, List.foldl_append]
    exact cov_round hwf hlen ih

/-! ## Tightness, the flag -/

/-- Every arc of `g` is tight under `d`. -/
def TightL (g : WGraph) (d : List (Option Int)) : Prop :=
  ∀ u v w du, g.A u v w → lk d u = some du → BndL d v (du + w)

theorem tightL_walk {g : WGraph} {d : List (Option Int)} (ht : TightL g d) {u v k : Nat} {wt du : Int}
    (hw : WWalk g u v k wt) (hu : lk d u = some du) : BndL d v (du + wt) := by
  induction hw with
  | nil => exact ⟨du, hu, by omega⟩
  | snoc _ ha ih =>
    obtain ⟨x, hx, hle⟩ := ih
    exact (ht _ _ _ x ha hx).mono (by omega)

theorem wIn_flag_mono (du : Int) (a : List (Option Int) × Bool) (vw : Nat × Int) (h : a.2 = true) :
    (wIn du a vw).2 = true := by
  rcases wIn_cases du a vw with ⟨_, h1⟩ | ⟨_, _, _, h1⟩ <;> rw [h1]
  exact h

theorem wIn_foldl_flag_mono (du : Int) (l : List (Nat × Int)) (a : List (Option Int) × Bool)
    (h : a.2 = true) : (l.foldl (wIn du) a).2 = true :=
  foldl_inv (fun b : List (Option Int) × Bool => b.2 = true) (wIn du) l
    (fun b vw _ hb => wIn_flag_mono du b vw hb) a h

theorem wOut_flag_mono (g : WGraph) (a : List (Option Int) × Bool) (u : Nat) (h : a.2 = true) :
    (wOut g a u).2 = true := by
  rcases wOut_cases g a u with ⟨_, h1⟩ | ⟨du, _, h1⟩ <;> rw [h1]
  · exact h
  · exact wIn_foldl_flag_mono du _ a h

theorem wOut_foldl_flag_mono (g : WGraph) (l : List Nat) (a : List (Option Int) × Bool) (h : a.2 = true) :
    (l.foldl (wOut g) a).2 = true :=
  foldl_inv (fun b : List (Option Int) × Bool => b.2 = true) (wOut g) l
    (fun b u _ hb => wOut_flag_mono g b u hb) a h

theorem wIn_foldl_noupdate (du : Int) : ∀ (l : List (Nat × Int)) (a : List (Option Int) × Bool),
    (l.foldl (wIn du) a).2 = false →
    l.foldl (wIn du) a = a ∧ ∀ vw ∈ l, BndL a.1 vw.1 (du + vw.2) := by
  intro l
  induction l with
  | nil => intro a _; exact ⟨rfl, fun v hv => by cases hv⟩
  | cons b rest ih =>
    intro a h
    rw [List.foldl_cons] at h ⊢
    rcases wIn_cases du a b with ⟨_, h1⟩ | ⟨dv, hdv, hle, h1⟩
    · rw [h1, wIn_foldl_flag_mono du rest _ rfl] at h; cases h
    · rw [h1] at h ⊢
      obtain ⟨e, hall⟩ := ih a h
      refine ⟨e, fun vw hvw => ?_⟩
      rcases List.mem_cons.mp hvw with rfl | hvw
      · exact ⟨dv, hdv, hle⟩
      · exact hall vw hvw

theorem wOut_foldl_noupdate (g : WGraph) : ∀ (l : List Nat) (a : List (Option Int) × Bool),
    (l.foldl (wOut g) a).2 = false →
    l.foldl (wOut g) a = a ∧
      ∀ u ∈ l, ∀ du, lk a.1 u = some du → ∀ vw ∈ g.out u, BndL a.1 vw.1 (du + vw.2) := by
  intro l
  induction l with
  | nil => intro a _; exact ⟨rfl, fun v hv => by cases hv⟩
  | cons b rest ih =>
    intro a h
    rw [List.foldl_cons] at h ⊢
    have hb : (wOut g a b).2 = false := by
      cases hf : (wOut g a b).2 with
      | false => rfl
      | true => rw [wOut_foldl_flag_mono g rest _ hf] at h; cases h
    have hstep : wOut g a b = a ∧ ∀ du, lk a.1 b = some du → ∀ vw ∈ g.out b, BndL a.1 vw.1 (du + vw.2) := by
      rcases wOut_cases g a b with ⟨hn, h1⟩ | ⟨du, hdu, h1⟩
      · exact ⟨h1, fun du hdu => by rw [hn] at hdu; cases hdu⟩
      · rw [h1] at hb ⊢
        obtain ⟨e, hall⟩ := wIn_foldl_noupdate du _ a hb
        refine ⟨e, fun du' hdu' => ?_⟩
        rw [hdu] at hdu'; cases hdu'
        exact hall
    rw [hstep.1] at h ⊢
    obtain ⟨e, hall⟩ := ih a h
    refine ⟨e, fun u hu => ?_⟩
    rcases List.mem_cons.mp hu with rfl | hu
    · exact hstep.2
    · exact hall u hu

/-- Flag `false`: the round changed nothing and every arc is tight. -/
theorem wRound_noupdate {g : WGraph} (hwf : g.WF) {d : List (Option Int)} (h : (wRound g d).2 = false) :
    (wRound g d).1 = d ∧ TightL g d := by
  unfold wRound at h ⊢
  obtain ⟨e, hall⟩ := wOut_foldl_noupdate g _ _ h
  rw [e]
  refine ⟨rfl, fun u v w du ha hdu => ?_⟩
  exact hall u (List.mem_range.mpr (hwf u v w ha).1) du hdu (v, w) ha

/-- All arcs tight: the round does nothing. -/
theorem wRound_tight {g : WGraph} {d : List (Option Int)} (ht : TightL g d) : wRound g d = (d, false) := by
  unfold wRound
  refine foldl_inv (fun b : List (Option Int) × Bool => b = (d, false)) (wOut g) _ ?_ _ rfl
  intro a u _ ha
  subst ha
  rcases wOut_cases g (d, false) u with ⟨_, h1⟩ | ⟨du, hdu, h1⟩ <;> rw [h1]
  refine foldl_inv (fun b : List (Option Int) × Bool => b = (d, false)) (wIn du) _ ?_ _ rfl
  intro a vw hvw ha
  subst ha
  rcases wIn_cases du (d, false) vw with ⟨hc, _⟩ | ⟨_, _, _, h1⟩
  · exfalso
    obtain ⟨x, hx, hle⟩ := ht u vw.1 vw.2 du hvw hdu
    rcases hc with hn | ⟨dv, hdv, hlt⟩
    · rw [show lk (d, false).1 vw.1 = lk d vw.1 from rfl, hx] at hn; cases hn
    · rw [show lk (d, false).1 vw.1 = lk d vw.1 from rfl, hx] at hdv
      cases hdv; omega
  · exact h1

/-! ## Assembly -/

/-- A negative circuit is reachable from `S`. -/
def NegReachableFrom (g : WGraph) (S : List Nat) : Prop := ∃ x, WReachFrom g S x ∧ NegCycleAt g x

/-- Tight labels that are walk weights with source labels `≤ 0` are exact. -/
theorem exact_of_tight {g : WGraph} {S : List Nat} {d : List (Option Int)} (hinv : WInv g S d)
    (ht : TightL g d) :
    (∀ v x, lk d v = some x → IsMinDist g S v x) ∧ (∀ v, lk d v = none ↔ ¬ WReachFrom g S v) ∧
    ¬ NegReachableFrom g S := by
  have key : ∀ s ∈ S, ∀ v k wt, WWalk g s v k wt → BndL d v wt := by
    intro s hs v k wt hw
    obtain ⟨x0, hx0, hle0⟩ := hinv.src s hs
    exact (tightL_walk ht hw hx0).mono (by omega)
  refine ⟨?_, ?_, ?_⟩
  · intro v x hx
    refine ⟨hinv.walk v x hx, fun s hs k wt hw => ?_⟩
    obtain ⟨y, hy, hle⟩ := key s hs v k wt hw
    rw [hx] at hy; cases hy; exact hle
  · intro v
    constructor
    · rintro hn ⟨s, hs, k, wt, hw⟩
      obtain ⟨y, hy, _⟩ := key s hs v k wt hw
      rw [hn] at hy; cases hy
    · intro hnr
      cases hx : lk d v with
      | none => rfl
      | some x =>
        obtain ⟨s, hs, k, hw⟩ := hinv.walk v x hx
        exact absurd ⟨s, hs, k, x, hw⟩ hnr
  · rintro ⟨x, ⟨s, hs, k, wt, hw⟩, kc, wc, _, hcyc, hneg⟩
    obtain ⟨dx, hdx, _⟩ := key s hs x k wt hw
    obtain ⟨dx', hdx', hle⟩ := tightL_walk ht hcyc hdx
    rw [hdx] at hdx'; cases hdx'; omega

/-- Without a reachable negative circuit the labels after `n` rounds are tight. -/
theorem tight_of_noNeg {g : WGraph} (hwf : g.WF) {S : List Nat} (hS : ∀ s ∈ S, s < g.n)
    (hnn : ¬ NegReachableFrom g S) : TightL g (wRoundsN g S g.n) := by
  intro u v w du ha hdu
  obtain ⟨s, hs, k, hk⟩ := (wInv_rounds (g := g) hS g.n).walk u du hdu
  have hnn' : NoNegReach g s := by
    rintro x ⟨s', hs', k', wt', hw'⟩ hneg
    rw [List.mem_singleton.mp hs'] at hw'
    exact hnn ⟨x, ⟨s, hs, k', wt', hw'⟩, hneg⟩
  obtain ⟨k', wt', hk', hle, hw'⟩ := short_walk hwf (hS s hs) hnn' (WWalk.snoc hk ha)
  exact (cov_rounds hwf hS g.n s hs v k' wt' (by omega) hw').mono hle

/-- **Flag of `wdistB`: `true` iff a negative circuit is reachable from `S`.** -/
theorem wdistB_flag {g : WGraph} (hwf : g.WF) {S : List Nat} (hS : ∀ s ∈ S, s < g.n) :
    (wdistB g S).2 = true ↔ NegReachableFrom g S := by
  rw [wdistB_eq]
  constructor
  · intro hf
    apply Classical.byContradiction
    intro hnn
    rw [wRound_tight (tight_of_noNeg hwf hS hnn)] at hf
    cases hf
  · intro hneg
    cases hf : (wRound g (wRoundsN g S g.n)).2 with
    | true => rfl
    | false =>
      obtain ⟨_, ht⟩ := wRound_noupdate hwf hf
      exact absurd hneg (exact_of_tight (wInv_rounds hS g.n) ht).2.2

/-- **Flag `false`: the entries of `wdistB` are exact.** -/
theorem wdistB_spec {g : WGraph} (hwf : g.WF) {S : List Nat} (hS : ∀ s ∈ S, s < g.n)
    (hf : (wdistB g S).2 = false) :
    (wdistB g S).1.length = g.n ∧
    (∀ v x, (wdistB g S).1[v]?.getD none = some x ↔ IsMinDist g S v x) ∧
    (∀ v, (wdistB g S).1[v]?.getD none = none ↔ ¬ WReachFrom g S v) := by
  rw [wdistB_eq] at hf ⊢
  obtain ⟨_, ht⟩ := wRound_noupdate hwf hf
  have hinv := wInv_rounds (g := g) hS g.n
  obtain ⟨h1, h2, _⟩ := exact_of_tight hinv ht
  refine ⟨hinv.len, fun v x => ⟨h1 v x, fun hmin => ?_⟩, h2⟩
  show lk (wRoundsN g S g.n) v = some x
  cases hy : lk (wRoundsN g S g.n) v with
  | none =>
    obtain ⟨⟨s, hs, k, hw⟩, _⟩ := hmin
    exact absurd ⟨s, hs, k, x, hw⟩ ((h2 v).mp hy)
  | some y => rw [Bfm.isMinDist_unique (h1 v y hy) hmin]

end GraafVerif.OracleProof
