import GraafVerif.Model.ReprEqHist
import GraafVerif.Proof.ReprSorted
/-!
# Lifting a one-call refinement to whole histories, and small helpers shared by the five
representation proofs (`Proof/ReprEL`, `ReprAL`, `ReprW`, `ReprAM`, `ReprMX`).
-/
namespace GraafVerif.Repr
open GraafVerif.ReprSpec

/-- If every single call preserves `WF` and commutes with the abstraction, so does every
finite history (final state and all outputs). -/
theorem run_refines_gen {σ ο α : Type} (step : σ → ο → σ × Out) (sstep : α → ο → α × Out)
    (WF : σ → Prop) (abs : σ → α)
    (hWF : ∀ r op, WF r → WF (step r op).1)
    (href : ∀ r op, WF r → abs (step r op).1 = (sstep (abs r) op).1 ∧ (step r op).2 = (sstep (abs r) op).2) :
    ∀ (ops : List ο) (r : σ), WF r →
      WF (run step r ops).1 ∧ abs (run step r ops).1 = (run sstep (abs r) ops).1 ∧
      (run step r ops).2 = (run sstep (abs r) ops).2 := by
  intro ops
  induction ops with
  | nil => intro r h; exact ⟨h, rfl, rfl⟩
  | cons op ops ih =>
    intro r h
    have h1 := hWF r op h
    have h2 := href r op h
    have h3 := ih (step r op).1 h1
    simp only [run]
    refine ⟨h3.1, ?_, ?_⟩
    · rw [h3.2.1, h2.1]
    · rw [h3.2.2, h2.1, h2.2]

theorem run_append {σ ο : Type} (step : σ → ο → σ × Out) (s : σ) (xs ys : List ο) :
    run step s (xs ++ ys) =
      ((run step (run step s xs).1 ys).1, (run step s xs).2 ++ (run step (run step s xs).1 ys).2) := by
  induction xs generalizing s with
  | nil => simp [run]
  | cons x xs ih => simp [run, ih]

@[simp] theorem unitOf_isSome (b : Bool) : (unitOf b).isSome = b := by cases b <;> rfl

theorem unitOf_congr {b c : Bool} (h : b = true ↔ c = true) : unitOf b = unitOf c := by
  cases b <;> cases c <;> simp_all

theorem unitOf_inj {b c : Bool} (h : unitOf b = unitOf c) : b = c := by
  cases b <;> cases c <;> simp_all [unitOf]

@[simp] theorem unitOf_true : unitOf true = some () := rfl
@[simp] theorem unitOf_false : unitOf false = none := rfl

theorem outOfOpt_none {σ : Type} (old : σ) : outOfOpt old none = (old, .panic) := rfl
theorem outOfOpt_some {σ : Type} (old d : σ) : outOfOpt old (some d) = (d, .unit) := rfl

/-- `rejected` for a fixed-order digraph whose vertex set is `0..n`. -/
theorem rejected_fixed_range {ω : Type} (n : Nat) (W : Nat → Nat → Option ω) (u v : Nat) :
    rejected .fixed (⟨fun x => decide (x < n), W⟩ : SpecState ω) u v =
      (decide (u = v) || !(decide (u < n) && decide (v < n))) := by
  simp [rejected]

theorem lt_of_decide_lt_eq {n m : Nat} (h : (fun x => decide (x < n)) = (fun x => decide (x < m))) : n = m := by
  have h1 := congrFun h n
  have h2 := congrFun h m
  simp at h1 h2
  omega

end GraafVerif.Repr
