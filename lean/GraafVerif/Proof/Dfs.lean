import GraafVerif.Model.Dfs
import GraafVerif.Spec.Dfs
/-!
# Invariants of the DFS model (C06)

1. bookkeeping (`isVis_set`, `pushAll_eq`, `next_eq`): under well-formedness no assert fires and
   the neighbour loop is a filter;
2. `Inv`: the reachability invariant shared by today's `run` and the corrected `runFixed`;
3. fuel adequacy of both;
4. `run` is a prefix of `runFixed`, cut at the first stale pop;
5. payload morphisms: `Dfs`, `DfsDist`, `DfsPred` are projections of one annotated search;
6. `PInv`: the stack is the concatenation, deepest first, of what the vertices of the search
   path pushed — hence every item of `runFixed` is a valid depth-first step with the prescribed
   parent and depth.
-/
namespace GraafVerif.Dfs

/-! ## 1. Bookkeeping -/

theorem isVis_set (vis : List Bool) (v x : Nat) (hv : v < vis.length) :
    isVis (vis.set v true) x = (isVis vis x || decide (x = v)) := by
  unfold isVis
  by_cases h : x = v
  · subst h; simp [hv]
  · have : v ≠ x := fun e => h e.symm
    simp [List.getElem?_set_ne this, h]

theorem isVis_replicate (n x : Nat) : isVis (List.replicate n false) x = false := by
  unfold isVis; by_cases h : x < n <;> simp [h]

theorem isVis_lt (vis : List Bool) (x : Nat) (h : isVis vis x = true) : x < vis.length := by
  unfold isVis at h
  rcases hlt : vis[x]? with _ | b
  · simp [hlt] at h
  · exact (List.getElem?_eq_some_iff.mp hlt).1

/-- What the neighbour loop pushes (top first). -/
def pushed {α : Type} (vis : List Bool) (c : α) (vs : List Nat) : List (Nat × α) :=
  ((vs.filter (fun v => !isVis vis v)).map (fun v => (v, c))).reverse

theorem pushAll_eq {α : Type} (order : Nat) (vis : List Bool) (c : α) (vs : List Nat)
    (stk : List (Nat × α)) (h : ∀ v ∈ vs, v < order) :
    pushAll order vis c vs stk = some (pushed vis c vs ++ stk) := by
  induction vs generalizing stk with
  | nil => simp [pushAll, pushed]
  | cons v vs ih =>
    have hv : v < order := h v (by simp)
    have ih' := fun stk => ih stk (fun x hx => h x (by simp [hx]))
    simp only [pushAll, hv, if_true]
    rw [ih']
    by_cases hvis : isVis vis v = true
    · simp [pushed, hvis]
    · have : isVis vis v = false := by simpa using hvis
      simp [pushed, this]

theorem mem_pushed {α : Type} (vis : List Bool) (c : α) (vs : List Nat) (e : Nat × α) :
    e ∈ pushed vis c vs ↔ e.2 = c ∧ e.1 ∈ vs ∧ isVis vis e.1 = false := by
  obtain ⟨v, a⟩ := e
  simp only [pushed, List.mem_reverse, List.mem_map, List.mem_filter]
  constructor
  · rintro ⟨w, ⟨hw, hv⟩, heq⟩
    simp only [Prod.mk.injEq] at heq
    obtain ⟨rfl, rfl⟩ := heq
    exact ⟨rfl, hw, by simpa using hv⟩
  · rintro ⟨h1, h2, h3⟩
    exact ⟨v, ⟨h2, by simpa using h3⟩, by simp [h1]⟩

theorem pushed_length_le {α : Type} (vis : List Bool) (c : α) (vs : List Nat) :
    (pushed vis c vs).length ≤ vs.length := by
  simp only [pushed, List.length_reverse, List.length_map]
  exact List.length_filter_le _ _

/-- `next` when no assert can fire. -/
theorem next_eq {α : Type} (g : Graph) (hg : g.WF) (child : Nat → α → α) (st : St α)
    (hlen : st.visited.length = g.n) (hstk : ∀ e ∈ st.stack, e.1 < g.n) :
    next g child st =
      match st.stack with
      | [] => .done
      | (u, a) :: rest =>
        if isVis st.visited u then .stale ⟨rest, st.visited⟩
        else .item (u, a) ⟨pushed (st.visited.set u true) (child u a) (g.out u) ++ rest, st.visited.set u true⟩ := by
  unfold next
  cases hs : st.stack with
  | nil => rfl
  | cons e rest =>
    obtain ⟨u, a⟩ := e
    have hu : u < st.visited.length := by rw [hlen]; exact hstk (u, a) (by simp [hs])
    simp only [hu, if_true]
    by_cases hv : isVis st.visited u = true
    · simp [hv]
    · have hp := pushAll_eq (st.visited.set u true).length (st.visited.set u true) (child u a) (g.out u) rest
        (by intro v hv; simp [hlen]; exact (hg u v hv).2)
      simp only [hv]
      rw [hp]

/-! ## 2. The reachability invariant -/

/-- `ys` = vertices yielded so far. -/
structure Inv {α : Type} (g : Graph) (S : List Nat) (ys : List Nat) (st : St α) : Prop where
  len : st.visited.length = g.n
  vis : ∀ x, isVis st.visited x = true ↔ x ∈ ys
  nodup : ys.Nodup
  stk_lt : ∀ e ∈ st.stack, e.1 < g.n
  reach : ∀ x ∈ ys, ReachFrom g S x
  stk_reach : ∀ e ∈ st.stack, ReachFrom g S e.1
  closed : ∀ y ∈ ys, ∀ w ∈ g.out y, w ∈ ys ∨ w ∈ st.stack.map (·.1)
  src : ∀ s ∈ S, s ∈ ys ∨ s ∈ st.stack.map (·.1)

theorem Inv.ys_lt {α : Type} {g : Graph} {S ys : List Nat} {st : St α} (h : Inv g S ys st) :
    ∀ x ∈ ys, x < g.n := by
  intro x hx
  have := isVis_lt _ _ ((h.vis x).mpr hx)
  rw [h.len] at this; exact this

theorem Inv.length_le {α : Type} {g : Graph} {S ys : List Nat} {st : St α} (h : Inv g S ys st) :
    ys.length ≤ g.n := by
  have hsub : ys ⊆ List.range g.n := fun x hx => List.mem_range.mpr (h.ys_lt x hx)
  simpa using h.nodup.length_le_of_subset hsub

theorem inv_new {α : Type} (g : Graph) (S : List Nat) (a0 : α) (hS : ∀ s ∈ S, s < g.n) :
    Inv g S [] (new g S a0) := by
  refine ⟨by simp [new], ?_, List.nodup_nil, ?_, by simp, ?_, by simp, ?_⟩
  · intro x; simp [new, isVis_replicate]
  · intro e he; simp [new] at he; obtain ⟨s, hs, rfl⟩ := he; exact hS s hs
  · intro e he; simp [new] at he; obtain ⟨s, hs, rfl⟩ := he; exact ⟨s, hs, Reach.refl s⟩
  · intro s hs; right; simp [new]; exact hs

/-- The three possible outcomes of `next` under the invariant. -/
theorem next_cases {α : Type} (g : Graph) (hg : g.WF) (child : Nat → α → α) (S ys : List Nat) (st : St α)
    (h : Inv g S ys st) :
    (st.stack = [] ∧ next g child st = .done) ∨
    (∃ u a rest, st.stack = (u, a) :: rest ∧ u ∈ ys ∧ next g child st = .stale ⟨rest, st.visited⟩) ∨
    (∃ u a rest, st.stack = (u, a) :: rest ∧ u ∉ ys ∧
      next g child st = .item (u, a)
        ⟨pushed (st.visited.set u true) (child u a) (g.out u) ++ rest, st.visited.set u true⟩) := by
  rw [next_eq g hg child st h.len h.stk_lt]
  cases hs : st.stack with
  | nil => left; simp
  | cons e rest =>
    obtain ⟨u, a⟩ := e
    right
    by_cases hv : isVis st.visited u = true
    · left; exact ⟨u, a, rest, rfl, (h.vis u).mp hv, by simp [hv]⟩
    · right; exact ⟨u, a, rest, rfl, fun hu => hv ((h.vis u).mpr hu), by simp [hv]⟩

theorem inv_stale {α : Type} (g : Graph) (S ys : List Nat) (st : St α) (u : Nat) (a : α) (rest : List (Nat × α))
    (h : Inv g S ys st) (hs : st.stack = (u, a) :: rest) (hu : u ∈ ys) :
    Inv g S ys ⟨rest, st.visited⟩ := by
  refine ⟨h.len, h.vis, h.nodup, ?_, h.reach, ?_, ?_, ?_⟩
  · intro e he; exact h.stk_lt e (by simp [hs, he])
  · intro e he; exact h.stk_reach e (by simp [hs, he])
  · intro y hy w hw
    rcases h.closed y hy w hw with hw | hw
    · exact Or.inl hw
    · simp only [hs, List.map_cons, List.mem_cons] at hw
      rcases hw with rfl | hw
      · exact Or.inl hu
      · exact Or.inr hw
  · intro s hsS
    rcases h.src s hsS with hw | hw
    · exact Or.inl hw
    · simp only [hs, List.map_cons, List.mem_cons] at hw
      rcases hw with rfl | hw
      · exact Or.inl hu
      · exact Or.inr hw

theorem inv_item {α : Type} (g : Graph) (hg : g.WF) (S ys : List Nat) (st : St α) (u : Nat) (a c : α)
    (rest : List (Nat × α)) (h : Inv g S ys st) (hs : st.stack = (u, a) :: rest) (hu : u ∉ ys) :
    Inv g S (ys ++ [u]) ⟨pushed (st.visited.set u true) c (g.out u) ++ rest, st.visited.set u true⟩ := by
  have hult : u < st.visited.length := by rw [h.len]; exact h.stk_lt (u, a) (by simp [hs])
  have hvis' : ∀ x, isVis (st.visited.set u true) x = true ↔ x ∈ ys ++ [u] := by
    intro x; rw [isVis_set _ _ _ hult]; simp [h.vis x]
  have hur : ReachFrom g S u := h.stk_reach (u, a) (by simp [hs])
  refine ⟨by simp [h.len], hvis', ?_, ?_, ?_, ?_, ?_, ?_⟩
  · exact List.nodup_append.mpr ⟨h.nodup, by simp, by intro x hx y hy; simp at hy; subst hy; intro e; exact hu (e ▸ hx)⟩
  · intro e he
    simp only [List.mem_append] at he
    rcases he with he | he
    · exact (hg u e.1 ((mem_pushed _ _ _ e).mp he).2.1).2
    · exact h.stk_lt e (by simp [hs, he])
  · intro x hx
    simp only [List.mem_append, List.mem_singleton] at hx
    rcases hx with hx | rfl
    · exact h.reach x hx
    · exact hur
  · intro e he
    simp only [List.mem_append] at he
    rcases he with he | he
    · obtain ⟨s, hs', hr⟩ := hur
      exact ⟨s, hs', Reach.step hr ((mem_pushed _ _ _ e).mp he).2.1⟩
    · exact h.stk_reach e (by simp [hs, he])
  · intro y hy w hw
    by_cases hwy : w ∈ ys ++ [u]
    · exact Or.inl hwy
    · right
      simp only [List.mem_append, List.mem_singleton] at hy
      simp only [List.map_append, List.mem_append]
      rcases hy with hy | rfl
      · rcases h.closed y hy w hw with hw' | hw'
        · exact absurd (List.mem_append_left _ hw') hwy
        · simp only [hs, List.map_cons, List.mem_cons] at hw'
          rcases hw' with rfl | hw'
          · exact absurd (by simp) hwy
          · exact Or.inr hw'
      · left
        refine List.mem_map.mpr ⟨(w, c), (mem_pushed _ _ _ _).mpr ⟨rfl, hw, ?_⟩, rfl⟩
        have := hvis' w
        simp only at this ⊢
        cases hb : isVis (st.visited.set y true) w
        · rfl
        · exact absurd (this.mp hb) hwy
  · intro s hsS
    by_cases hsu : s = u
    · left; simp [hsu]
    · rcases h.src s hsS with hw | hw
      · exact Or.inl (List.mem_append_left _ hw)
      · simp only [hs, List.map_cons, List.mem_cons] at hw
        rcases hw with rfl | hw
        · exact absurd rfl hsu
        · right; simp only [List.map_append, List.mem_append]; exact Or.inr hw

/-- With an empty stack every reachable vertex has been yielded. -/
theorem inv_complete {α : Type} (g : Graph) (S ys : List Nat) (st : St α) (h : Inv g S ys st)
    (hq : st.stack = []) : ∀ v, ReachFrom g S v → v ∈ ys := by
  rintro v ⟨s, hs, hr⟩
  induction hr with
  | refl => rcases h.src s hs with h' | h'; exact h'; simp [hq] at h'
  | step _ ha ih => rcases h.closed _ ih _ ha with h' | h'; exact h'; simp [hq] at h'


/-! ## 3. Whole runs: reachability, no panic, fuel adequacy -/

theorem run_spec {α : Type} (g : Graph) (hg : g.WF) (child : Nat → α → α) (S : List Nat) :
    ∀ (f : Nat) (ys : List Nat) (st : St α), Inv g S ys st →
      ∃ st' : St α, Inv g S (ys ++ (run g child f st).verts) st' ∧
        ((run g child f st).ending = .done → st'.stack = []) ∧
        (run g child f st).ending ≠ .panic ∧
        (g.n < f + ys.length → (run g child f st).ending ≠ .fuel) := by
  intro f
  induction f with
  | zero =>
    intro ys st h
    refine ⟨st, by simpa [run, Out.verts] using h, by simp [run], by simp [run], ?_⟩
    intro hlt; have := h.length_le; omega
  | succ f ih =>
    intro ys st h
    rcases next_cases g hg child S ys st h with ⟨hs, hn⟩ | ⟨u, a, rest, hs, hu, hn⟩ | ⟨u, a, rest, hs, hu, hn⟩
    · exact ⟨st, by simpa [run, hn, Out.verts] using h, fun _ => hs, by simp [run, hn], by simp [run, hn]⟩
    · exact ⟨st, by simpa [run, hn, Out.verts] using h, by simp [run, hn], by simp [run, hn], by simp [run, hn]⟩
    · have h' := inv_item g hg S ys st u a (child u a) rest h hs hu
      obtain ⟨st', i1, i2, i3, i4⟩ := ih (ys ++ [u]) _ h'
      refine ⟨st', ?_, ?_, ?_, ?_⟩
      · simpa [run, hn, Out.verts, List.append_assoc] using i1
      · simpa [run, hn] using i2
      · simpa [run, hn] using i3
      · intro hlt; simp only [run, hn]; exact i4 (by simp; omega)

/-- Unvisited out-degree mass: what can still be pushed. -/
def W (g : Graph) (vis : List Bool) : Nat :=
  (((List.range g.n).filter (fun u => !isVis vis u)).map (fun u => (g.out u).length)).sum

/-- Every pop decreases `stack.length + W`. -/
def mu {α : Type} (g : Graph) (st : St α) : Nat := st.stack.length + W g st.visited

theorem sum_filter_set (f : Nat → Nat) (vis : List Bool) (u : Nat) (hu : u < vis.length)
    (hv : isVis vis u = false) (l : List Nat) (hnd : l.Nodup) :
    ((l.filter (fun x => !isVis vis x)).map f).sum =
      ((l.filter (fun x => !isVis (vis.set u true) x)).map f).sum + (if u ∈ l then f u else 0) := by
  induction l with
  | nil => simp
  | cons x l ih =>
    have hx : x ∉ l := (List.nodup_cons.mp hnd).1
    have ih := ih (List.nodup_cons.mp hnd).2
    by_cases hxu : x = u
    · subst hxu
      have h2 : isVis (vis.set x true) x = true := by rw [isVis_set _ _ _ hu]; simp
      simp only [hx, if_false] at ih
      simp [hv, h2, ih]; omega
    · have h2 : isVis (vis.set u true) x = isVis vis x := by rw [isVis_set _ _ _ hu]; simp [hxu]
      have h3 : (u ∈ x :: l) ↔ u ∈ l := by
        simp only [List.mem_cons, or_iff_right_iff_imp]; intro e; exact absurd e.symm hxu
      simp only [List.filter_cons, h2]
      by_cases hb : isVis vis x = true
      · simp [hb, ih, h3]
      · have hb' : isVis vis x = false := by simpa using hb
        simp only [hb', Bool.not_false, if_true, List.map_cons, List.sum_cons, ih, h3]; omega

theorem W_set (g : Graph) (vis : List Bool) (u : Nat) (hu : u < vis.length) (hun : u < g.n)
    (hv : isVis vis u = false) : W g vis = W g (vis.set u true) + (g.out u).length := by
  have := sum_filter_set (fun u => (g.out u).length) vis u hu hv (List.range g.n) List.nodup_range
  simpa [W, hun] using this

theorem runFixed_spec {α : Type} (g : Graph) (hg : g.WF) (child : Nat → α → α) (S : List Nat) :
    ∀ (f : Nat) (ys : List Nat) (st : St α), Inv g S ys st →
      ∃ st' : St α, Inv g S (ys ++ (runFixed g child f st).verts) st' ∧
        ((runFixed g child f st).ending = .done → st'.stack = []) ∧
        (runFixed g child f st).ending ≠ .panic ∧ (runFixed g child f st).ending ≠ .stale ∧
        (mu g st < f → (runFixed g child f st).ending ≠ .fuel) := by
  intro f
  induction f with
  | zero =>
    intro ys st h
    exact ⟨st, by simpa [runFixed, Out.verts] using h, by simp [runFixed], by simp [runFixed], by simp [runFixed],
      by intro hlt; omega⟩
  | succ f ih =>
    intro ys st h
    rcases next_cases g hg child S ys st h with ⟨hs, hn⟩ | ⟨u, a, rest, hs, hu, hn⟩ | ⟨u, a, rest, hs, hu, hn⟩
    · exact ⟨st, by simpa [runFixed, hn, Out.verts] using h, fun _ => hs, by simp [runFixed, hn],
        by simp [runFixed, hn], by simp [runFixed, hn]⟩
    · have h' := inv_stale g S ys st u a rest h hs hu
      obtain ⟨st', i1, i2, i3, i4, i5⟩ := ih ys _ h'
      refine ⟨st', by simpa [runFixed, hn] using i1, by simpa [runFixed, hn] using i2,
        by simpa [runFixed, hn] using i3, by simpa [runFixed, hn] using i4, ?_⟩
      intro hlt; simp only [runFixed, hn]; apply i5
      simp only [mu, hs, List.length_cons] at hlt ⊢; omega
    · have h' := inv_item g hg S ys st u a (child u a) rest h hs hu
      obtain ⟨st', i1, i2, i3, i4, i5⟩ := ih (ys ++ [u]) _ h'
      refine ⟨st', ?_, ?_, ?_, ?_, ?_⟩
      · simpa [runFixed, hn, Out.verts, List.append_assoc] using i1
      · simpa [runFixed, hn] using i2
      · simpa [runFixed, hn] using i3
      · simpa [runFixed, hn] using i4
      · intro hlt; simp only [runFixed, hn]; apply i5
        have hun : u < g.n := h.stk_lt (u, a) (by simp [hs])
        have hul : u < st.visited.length := by rw [h.len]; exact hun
        have hnv : isVis st.visited u = false := by
          cases hb : isVis st.visited u
          · rfl
          · exact absurd ((h.vis u).mp hb) hu
        have hW := W_set g st.visited u hul hun hnv
        have hp := pushed_length_le (st.visited.set u true) (child u a) (g.out u)
        simp only [mu, hs, List.length_cons, List.length_append] at hlt ⊢; omega

theorem run_succ {α : Type} (g : Graph) (child : Nat → α → α) (f : Nat) (st : St α) :
    run g child (f+1) st = match next g child st with
      | .done => ⟨[], .done⟩
      | .panic => ⟨[], .panic⟩
      | .stale _ => ⟨[], .stale⟩
      | .item x st' => ⟨x :: (run g child f st').items, (run g child f st').ending⟩ := rfl

theorem runFixed_succ {α : Type} (g : Graph) (child : Nat → α → α) (f : Nat) (st : St α) :
    runFixed g child (f+1) st = match next g child st with
      | .done => ⟨[], .done⟩
      | .panic => ⟨[], .panic⟩
      | .stale st' => runFixed g child f st'
      | .item x st' => ⟨x :: (runFixed g child f st').items, (runFixed g child f st').ending⟩ := rfl

theorem staleAt_succ {α : Type} (g : Graph) (child : Nat → α → α) (f : Nat) (st : St α) :
    staleAt g child (f+1) st = match next g child st with
      | .done => none
      | .panic => none
      | .stale _ => some 0
      | .item _ st' => (staleAt g child f st').map (· + 1) := rfl

/-- Once a run ended for another reason than lack of fuel, more fuel changes nothing. -/
theorem run_fuel_succ {α : Type} (g : Graph) (child : Nat → α → α) :
    ∀ (f : Nat) (st : St α), (run g child f st).ending ≠ .fuel → run g child (f+1) st = run g child f st := by
  intro f
  induction f with
  | zero => intro st h; simp [run] at h
  | succ f ih =>
    intro st h
    rw [run_succ g child (f+1), run_succ g child f]
    cases hn : next g child st with
    | done => rfl
    | panic => rfl
    | stale st' => rfl
    | item x st' =>
      have : (run g child f st').ending ≠ .fuel := by simpa [run, hn] using h
      simp only [ih st' this]

theorem run_fuel_indep {α : Type} (g : Graph) (child : Nat → α → α) (f k : Nat) (st : St α)
    (h : (run g child f st).ending ≠ .fuel) : run g child (f + k) st = run g child f st := by
  induction k with
  | zero => rfl
  | succ k ih => rw [← Nat.add_assoc, run_fuel_succ g child (f + k) st (by rw [ih]; exact h), ih]

theorem runFixed_fuel_succ {α : Type} (g : Graph) (child : Nat → α → α) :
    ∀ (f : Nat) (st : St α), (runFixed g child f st).ending ≠ .fuel →
      runFixed g child (f+1) st = runFixed g child f st := by
  intro f
  induction f with
  | zero => intro st h; simp [runFixed] at h
  | succ f ih =>
    intro st h
    rw [runFixed_succ g child (f+1), runFixed_succ g child f]
    cases hn : next g child st with
    | done => rfl
    | panic => rfl
    | stale st' =>
      have : (runFixed g child f st').ending ≠ .fuel := by simpa [runFixed, hn] using h
      simp only [ih st' this]
    | item x st' =>
      have : (runFixed g child f st').ending ≠ .fuel := by simpa [runFixed, hn] using h
      simp only [ih st' this]

theorem runFixed_fuel_indep {α : Type} (g : Graph) (child : Nat → α → α) (f k : Nat) (st : St α)
    (h : (runFixed g child f st).ending ≠ .fuel) : runFixed g child (f + k) st = runFixed g child f st := by
  induction k with
  | zero => rfl
  | succ k ih => rw [← Nat.add_assoc, runFixed_fuel_succ g child (f + k) st (by rw [ih]; exact h), ih]

theorem mu_new {α : Type} (g : Graph) (S : List Nat) (a0 : α) : mu g (new g S a0) < fuelFixed g S := by
  have : (List.range g.n).filter (fun u => !isVis (List.replicate g.n false) u) = List.range g.n := by
    simp [isVis_replicate]
  simp [mu, W, new, fuelFixed, this]

/-! ## 4. Today's run is the corrected run cut at the first stale pop -/

theorem run_prefix_fixed {α : Type} (g : Graph) (child : Nat → α → α) :
    ∀ (f f' : Nat) (st : St α), f ≤ f' →
      (run g child f st).items <+: (runFixed g child f' st).items := by
  intro f
  induction f with
  | zero => intro f' st _; simp [run]
  | succ f ih =>
    intro f' st hle
    obtain ⟨f'', rfl⟩ : ∃ k, f' = k + 1 := ⟨f' - 1, by omega⟩
    rw [run_succ, runFixed_succ]
    cases hn : next g child st with
    | done => simp
    | panic => simp
    | stale st' => simp
    | item x st' =>
      simp only [List.cons_prefix_cons, true_and]
      exact ih f'' st' (by omega)

theorem run_stale_at {α : Type} (g : Graph) (child : Nat → α → α) :
    ∀ (f f' : Nat) (st : St α), f ≤ f' → (run g child f st).ending = .stale →
      staleAt g child f' st = some (run g child f st).items.length := by
  intro f
  induction f with
  | zero => intro f' st _ h; simp [run] at h
  | succ f ih =>
    intro f' st hle h
    obtain ⟨f'', rfl⟩ : ∃ k, f' = k + 1 := ⟨f' - 1, by omega⟩
    rw [run_succ] at h ⊢
    rw [staleAt_succ]
    cases hn : next g child st with
    | done => simp [hn] at h
    | panic => simp [hn] at h
    | stale st' => simp
    | item x st' =>
      simp only [hn] at h
      simp [ih f'' st' (by omega) h]

/-- Re-polling today's iterator through its `None`s yields exactly the corrected variant's items. -/
theorem pollTrace_items {α : Type} (g : Graph) (child : Nat → α → α) :
    ∀ (f : Nat) (st : St α), (pollTrace g child f st).filterMap id = (runFixed g child f st).items := by
  intro f
  induction f with
  | zero => intro st; rfl
  | succ f ih =>
    intro st
    rw [runFixed_succ]
    simp only [pollTrace]
    cases hn : next g child st with
    | done => rfl
    | panic => rfl
    | stale st' => simp [ih st']
    | item x st' => simp [ih st']

/-! ## 5. Payload morphisms: the three iterators are projections of one search -/

def St.map {α β : Type} (h : α → β) (st : St α) : St β := ⟨st.stack.map (fun e => (e.1, h e.2)), st.visited⟩
def Out.map {α β : Type} (h : α → β) (o : Out α) : Out β := ⟨o.items.map (fun e => (e.1, h e.2)), o.ending⟩
def Next.map {α β : Type} (h : α → β) : Next α → Next β
  | .done => .done
  | .panic => .panic
  | .stale st => .stale (st.map h)
  | .item x st => .item (x.1, h x.2) (st.map h)

theorem pushAll_map {α β : Type} (h : α → β) (order : Nat) (vis : List Bool) (c : α) (vs : List Nat)
    (stk : List (Nat × α)) :
    pushAll order vis (h c) vs (stk.map (fun e => (e.1, h e.2))) =
      (pushAll order vis c vs stk).map (List.map (fun e => (e.1, h e.2))) := by
  induction vs generalizing stk with
  | nil => simp [pushAll]
  | cons v vs ih =>
    simp only [pushAll]
    by_cases hv : v < order
    · simp only [hv, if_true]
      by_cases hb : isVis vis v = true
      · simp [hb, ih]
      · simp only [hb]
        have := ih ((v, c) :: stk)
        simpa using this
    · simp [hv]

theorem next_map {α β : Type} (g : Graph) (h : α → β) (c1 : Nat → α → α) (c2 : Nat → β → β)
    (hc : ∀ u a, h (c1 u a) = c2 u (h a)) (st : St α) :
    next g c2 (st.map h) = (next g c1 st).map h := by
  unfold next
  cases hs : st.stack with
  | nil => simp [St.map, hs, Next.map]
  | cons e rest =>
    obtain ⟨u, a⟩ := e
    simp only [St.map, hs, List.map_cons]
    by_cases hu : u < st.visited.length
    · simp only [hu, if_true]
      by_cases hb : isVis st.visited u = true
      · simp [hb, Next.map, St.map]
      · simp only [hb]
        rw [← hc, pushAll_map]
        cases pushAll (st.visited.set u true).length (st.visited.set u true) (c1 u a) (g.out u) rest with
        | none => simp [Next.map]
        | some stk => simp [Next.map, St.map]
    · simp [hu, Next.map]

theorem run_map {α β : Type} (g : Graph) (h : α → β) (c1 : Nat → α → α) (c2 : Nat → β → β)
    (hc : ∀ u a, h (c1 u a) = c2 u (h a)) :
    ∀ (f : Nat) (st : St α), run g c2 f (st.map h) = (run g c1 f st).map h := by
  intro f
  induction f with
  | zero => intro st; simp [run, Out.map]
  | succ f ih =>
    intro st
    rw [run_succ, run_succ, next_map g h c1 c2 hc]
    cases next g c1 st with
    | done => simp [Next.map, Out.map]
    | panic => simp [Next.map, Out.map]
    | stale st' => simp [Next.map, Out.map]
    | item x st' => simp [Next.map, Out.map, ih st']

theorem runFixed_map {α β : Type} (g : Graph) (h : α → β) (c1 : Nat → α → α) (c2 : Nat → β → β)
    (hc : ∀ u a, h (c1 u a) = c2 u (h a)) :
    ∀ (f : Nat) (st : St α), runFixed g c2 f (st.map h) = (runFixed g c1 f st).map h := by
  intro f
  induction f with
  | zero => intro st; simp [runFixed, Out.map]
  | succ f ih =>
    intro st
    rw [runFixed_succ, runFixed_succ, next_map g h c1 c2 hc]
    cases next g c1 st with
    | done => simp [Next.map, Out.map]
    | panic => simp [Next.map, Out.map]
    | stale st' => simp [Next.map, ih st']
    | item x st' => simp [Next.map, Out.map, ih st']

theorem new_map {α β : Type} (g : Graph) (S : List Nat) (h : α → β) (a0 : α) :
    (new g S a0).map h = new g S (h a0) := by
  simp [new, St.map, Function.comp_def]

theorem Out.map_verts {α β : Type} (h : α → β) (o : Out α) : (o.map h).verts = o.verts := by
  simp [Out.map, Out.verts, Function.comp_def]


theorem run_done_eq_fixed {α : Type} (g : Graph) (child : Nat → α → α) :
    ∀ (f f' : Nat) (st : St α), f ≤ f' → (run g child f st).ending = .done →
      runFixed g child f' st = run g child f st := by
  intro f
  induction f with
  | zero => intro f' st _ h; simp [run] at h
  | succ f ih =>
    intro f' st hle h
    obtain ⟨f'', rfl⟩ : ∃ k, f' = k + 1 := ⟨f' - 1, by omega⟩
    rw [run_succ] at h ⊢
    rw [runFixed_succ]
    cases hn : next g child st with
    | done => rfl
    | panic => rfl
    | stale st' => simp [hn] at h
    | item x st' =>
      simp only [hn] at h
      simp only [ih f'' st' (by omega) h]

/-! ## 6. The preorder invariant -/

/-- Payload of the annotated search: (parent, depth). -/
abbrev PD := Option Nat × Nat
def childPD : Nat → PD → PD := fun u a => (some u, a.2 + 1)

theorem hasFresh_false (g : Graph) (ys : List Nat) (u : Nat) :
    hasFresh g ys u = false ↔ ∀ w ∈ g.out u, w ∈ ys := by
  simp [hasFresh]

theorem hasFresh_true (g : Graph) (ys : List Nat) (u : Nat) :
    hasFresh g ys u = true ↔ ∃ w ∈ g.out u, w ∉ ys := by
  simp [hasFresh]

theorem hasFresh_mono (g : Graph) (ys ys' : List Nat) (u : Nat) (hsub : ∀ y ∈ ys, y ∈ ys')
    (h : hasFresh g ys u = false) : hasFresh g ys' u = false := by
  rw [hasFresh_false] at h ⊢
  exact fun w hw => hsub w (h w hw)

/-- `StackOK ys path stack`: the stack is, top first, what the vertices of the search path
(deepest first) pushed and is not popped yet, on top of the remaining source entries; every
still unyielded out-neighbour of a path vertex is in that vertex' segment. -/
inductive StackOK (g : Graph) (S : List Nat) (ys : List Nat) : List Nat → List (Nat × PD) → Prop
  | base (stk : List (Nat × PD)) (h1 : ∀ e ∈ stk, e.2 = (none, 0) ∧ e.1 ∈ S)
      (h2 : ∀ s ∈ S, s ∉ ys → s ∈ stk.map (·.1)) : StackOK g S ys [] stk
  | cons (d : Nat) (P : List Nat) (seg rest : List (Nat × PD)) (hr : StackOK g S ys P rest)
      (h1 : ∀ e ∈ seg, e.2 = (some d, P.length + 1) ∧ e.1 ∈ g.out d)
      (h2 : ∀ w ∈ g.out d, w ∉ ys → w ∈ seg.map (·.1)) : StackOK g S ys (d :: P) (seg ++ rest)

theorem StackOK.mono {g : Graph} {S ys ys' P : List Nat} {stk : List (Nat × PD)}
    (h : StackOK g S ys P stk) (hsub : ∀ y ∈ ys, y ∈ ys') : StackOK g S ys' P stk := by
  induction h with
  | base stk h1 h2 => exact .base stk h1 (fun s hs hn => h2 s hs (fun hy => hn (hsub s hy)))
  | cons d P seg rest _ h1 h2 ih => exact .cons d P seg rest ih h1 (fun w hw hn => h2 w hw (fun hy => hn (hsub w hy)))

theorem StackOK.pop_stale {g : Graph} {S ys P : List Nat} {stk0 : List (Nat × PD)}
    (h : StackOK g S ys P stk0) :
    ∀ e stk, stk0 = e :: stk → e.1 ∈ ys → StackOK g S ys P stk := by
  induction h with
  | base stk0 h1 h2 =>
    intro e stk heq he
    subst heq
    refine .base stk (fun e' he' => h1 e' (List.mem_cons_of_mem _ he')) ?_
    intro s hs hn
    have := h2 s hs hn
    simp only [List.map_cons, List.mem_cons] at this
    rcases this with rfl | h'
    · exact absurd he hn
    · exact h'
  | cons d P seg rest hr h1 h2 ih =>
    intro e stk heq he
    cases seg with
    | nil =>
      simp only [List.nil_append] at heq
      have := StackOK.cons d P [] stk (ih e stk heq he) (by simp) (by simpa using h2)
      simpa using this
    | cons e' seg' =>
      simp only [List.cons_append, List.cons.injEq] at heq
      obtain ⟨rfl, rfl⟩ := heq
      refine .cons d P seg' rest hr (fun x hx => h1 x (List.mem_cons_of_mem _ hx)) ?_
      intro w hw hn
      have := h2 w hw hn
      simp only [List.map_cons, List.mem_cons] at this
      rcases this with rfl | h'
      · exact absurd he hn
      · exact h'

theorem StackOK.pop_fresh {g : Graph} {S ys P : List Nat} {stk0 : List (Nat × PD)}
    (h : StackOK g S ys P stk0) :
    ∀ e stk, stk0 = e :: stk → e.1 ∉ ys →
      (P.dropWhile (fun d => !hasFresh g ys d) = [] → e.2 = (none, 0) ∧ e.1 ∈ S) ∧
      (∀ d rest', P.dropWhile (fun d => !hasFresh g ys d) = d :: rest' →
          e.2 = (some d, rest'.length + 1) ∧ e.1 ∈ g.out d) ∧
      StackOK g S (ys ++ [e.1]) (P.dropWhile (fun d => !hasFresh g ys d)) stk := by
  induction h with
  | base stk0 h1 h2 =>
    intro e stk heq he
    subst heq
    refine ⟨fun _ => h1 e (by simp), by simp, ?_⟩
    refine .base stk (fun e' he' => h1 e' (List.mem_cons_of_mem _ he')) ?_
    intro s hs hn
    simp only [List.mem_append, List.mem_singleton, not_or] at hn
    have := h2 s hs hn.1
    simp only [List.map_cons, List.mem_cons] at this
    rcases this with rfl | h'
    · exact absurd rfl hn.2
    · exact h'
  | cons d P seg rest hr h1 h2 ih =>
    intro e stk heq he
    cases seg with
    | nil =>
      simp only [List.nil_append] at heq
      have hnf : hasFresh g ys d = false := by
        rw [hasFresh_false]; intro w hw
        cases hb : decide (w ∈ ys) with
        | true => simpa using hb
        | false => have := h2 w hw (by simpa using hb); simp at this
      have hdw : (d :: P).dropWhile (fun d => !hasFresh g ys d) = P.dropWhile (fun d => !hasFresh g ys d) := by
        simp [hnf]
      rw [hdw]
      exact ih e stk heq he
    | cons e' seg' =>
      simp only [List.cons_append, List.cons.injEq] at heq
      obtain ⟨rfl, rfl⟩ := heq
      have he1 := h1 e' (by simp)
      have hf : hasFresh g ys d = true := (hasFresh_true g ys d).mpr ⟨e'.1, he1.2, he⟩
      have hdw : (d :: P).dropWhile (fun d => !hasFresh g ys d) = d :: P := by
        simp [hf]
      rw [hdw]
      refine ⟨by simp, ?_, ?_⟩
      · intro d0 rest' heq
        simp only [List.cons.injEq] at heq
        obtain ⟨rfl, rfl⟩ := heq
        exact he1
      · refine .cons d P seg' rest (hr.mono (fun y hy => List.mem_append_left _ hy))
          (fun x hx => h1 x (List.mem_cons_of_mem _ hx)) ?_
        intro w hw hn
        simp only [List.mem_append, List.mem_singleton, not_or] at hn
        have := h2 w hw hn.1
        simp only [List.map_cons, List.mem_cons] at this
        rcases this with rfl | h'
        · exact absurd rfl hn.2
        · exact h'

theorem mem_dropWhile_or {α : Type} (p : α → Bool) (l : List α) (x : α) (hx : x ∈ l) :
    x ∈ l.dropWhile p ∨ p x = true := by
  induction l with
  | nil => simp at hx
  | cons y l ih =>
    by_cases hp : p y = true
    · simp only [List.dropWhile_cons, hp, if_true]
      rcases List.mem_cons.mp hx with rfl | hx
      · exact Or.inr hp
      · exact ih hx
    · left; simp only [List.dropWhile_cons, hp]; simpa using hx

theorem mem_of_mem_dropWhile {α : Type} (p : α → Bool) (l : List α) (x : α) (hx : x ∈ l.dropWhile p) : x ∈ l :=
  (List.dropWhile_sublist p).subset hx

/-- The invariant tying the stack to the search state of the specification. -/
structure PInv (g : Graph) (S : List Nat) (s : Search) (st : St PD) : Prop where
  inv : Inv g S s.yielded st
  stk : StackOK g S s.yielded s.path st.stack
  off : ∀ y ∈ s.yielded, y ∉ s.path → hasFresh g s.yielded y = false
  sub : ∀ d ∈ s.path, d ∈ s.yielded

theorem pinv_new (g : Graph) (S : List Nat) (hS : ∀ s ∈ S, s < g.n) :
    PInv g S ⟨[], []⟩ (new g S ((none, 0) : PD)) := by
  refine ⟨inv_new g S _ hS, ?_, by simp, by simp⟩
  refine .base _ ?_ ?_
  · intro e he; simp [new] at he; obtain ⟨s, hs, rfl⟩ := he; exact ⟨rfl, hs⟩
  · intro s hs _; simp [new]; exact hs

theorem pinv_stale (g : Graph) (S : List Nat) (s : Search) (st : St PD) (u : Nat) (a : PD)
    (rest : List (Nat × PD)) (h : PInv g S s st) (hs : st.stack = (u, a) :: rest) (hu : u ∈ s.yielded) :
    PInv g S s ⟨rest, st.visited⟩ :=
  ⟨inv_stale g S s.yielded st u a rest h.inv hs hu, h.stk.pop_stale (u, a) rest hs hu, h.off, h.sub⟩

theorem pinv_item (g : Graph) (hg : g.WF) (S : List Nat) (s : Search) (st : St PD) (u : Nat) (a : PD)
    (rest : List (Nat × PD)) (h : PInv g S s st) (hs : st.stack = (u, a) :: rest) (hu : u ∉ s.yielded) :
    expect g S s u = some a ∧
    PInv g S (advance g s u)
      ⟨pushed (st.visited.set u true) (childPD u a) (g.out u) ++ rest, st.visited.set u true⟩ := by
  obtain ⟨hA0, hA1, hA2⟩ := h.stk.pop_fresh (u, a) rest hs hu
  dsimp only at hA0 hA1 hA2
  have hinv' := inv_item g hg S s.yielded st u a (childPD u a) rest h.inv hs hu
  have hact : active g s = s.path.dropWhile (fun d => !hasFresh g s.yielded d) := rfl
  -- depth bookkeeping: the popped entry's depth is the length of the active path
  have hdepth : a.2 = (active g s).length := by
    cases hA : active g s with
    | nil => rw [hact] at hA; rw [(hA0 hA).1]; rfl
    | cons d rest' => rw [hact] at hA; rw [(hA1 d rest' hA).1]; simp
  refine ⟨?_, hinv', ?_, ?_, ?_⟩
  · unfold expect
    have hc : s.yielded.contains u = false := by simpa using hu
    simp only [hc]
    cases hA : active g s with
    | nil =>
      rw [hact] at hA
      obtain ⟨ha, hS⟩ := hA0 hA
      have hall : s.yielded.all (fun y => !hasFresh g s.yielded y) = true := by
        rw [List.all_eq_true]
        intro y hy
        by_cases hyp : y ∈ s.path
        · rcases mem_dropWhile_or (fun d => !hasFresh g s.yielded d) s.path y hyp with h' | h'
          · rw [hA] at h'; simp at h'
          · exact h'
        · simp [h.off y hy hyp]
      have hSc : S.contains u = true := by simpa using hS
      simp only [hSc, hall, Bool.and_self, if_true]
      rw [← ha]; simp
    | cons d rest' =>
      rw [hact] at hA
      obtain ⟨ha, hout⟩ := hA1 d rest' hA
      have : (g.out d).contains u = true := by simpa using hout
      simp only [this, if_true]
      rw [← ha]; simp
  · -- stack shape
    show StackOK g S (s.yielded ++ [u]) (u :: active g s) _
    refine .cons u (active g s) _ rest hA2 ?_ ?_
    · intro e he
      obtain ⟨h1, h2, _⟩ := (mem_pushed _ _ _ e).mp he
      refine ⟨?_, h2⟩
      rw [h1, childPD, hdepth]
    · intro w hw hn
      refine List.mem_map.mpr ⟨(w, childPD u a), (mem_pushed _ _ _ _).mpr ⟨rfl, hw, ?_⟩, rfl⟩
      cases hb : isVis (st.visited.set u true) w
      · rfl
      · exact absurd ((hinv'.vis w).mp hb) hn
  · intro y hy hnp
    simp only [advance, List.mem_cons, not_or] at hnp
    simp only [advance, List.mem_append, List.mem_singleton] at hy
    have hy' : y ∈ s.yielded := by
      rcases hy with hy | rfl
      · exact hy
      · exact absurd rfl hnp.1
    have hold : hasFresh g s.yielded y = false := by
      by_cases hyp : y ∈ s.path
      · rcases mem_dropWhile_or (fun d => !hasFresh g s.yielded d) s.path y hyp with h' | h'
        · exact absurd h' hnp.2
        · simpa using h'
      · exact h.off y hy' hyp
    exact hasFresh_mono g _ _ y (fun z hz => List.mem_append_left _ hz) hold
  · intro d hd
    simp only [advance, List.mem_cons] at hd
    simp only [advance, List.mem_append, List.mem_singleton]
    rcases hd with rfl | hd
    · exact Or.inr rfl
    · exact Or.inl (h.sub d (mem_of_mem_dropWhile _ _ _ hd))

/-- Every item the corrected search yields is the step the property prescribes, with the
prescribed parent and depth. -/
theorem runFixed_annot (g : Graph) (hg : g.WF) (S : List Nat) :
    ∀ (f : Nat) (s : Search) (st : St PD), PInv g S s st →
      annotateFrom g S s (runFixed g childPD f st).verts = some (runFixed g childPD f st).items := by
  intro f
  induction f with
  | zero => intro s st _; simp [runFixed, Out.verts, annotateFrom]
  | succ f ih =>
    intro s st h
    rcases next_cases g hg childPD S s.yielded st h.inv with ⟨hs, hn⟩ | ⟨u, a, rest, hs, hu, hn⟩ | ⟨u, a, rest, hs, hu, hn⟩
    · simp [runFixed, hn, Out.verts, annotateFrom]
    · have := ih s _ (pinv_stale g S s st u a rest h hs hu)
      simpa [runFixed, hn] using this
    · obtain ⟨hexp, h'⟩ := pinv_item g hg S s st u a rest h hs hu
      have := ih _ _ h'
      simp only [Out.verts] at this
      simp [runFixed, hn, Out.verts, annotateFrom, hexp, this]

/-- The same for today's iterator (it stops early, but what it yields is valid). -/
theorem run_annot (g : Graph) (hg : g.WF) (S : List Nat) :
    ∀ (f : Nat) (s : Search) (st : St PD), PInv g S s st →
      annotateFrom g S s (run g childPD f st).verts = some (run g childPD f st).items := by
  intro f
  induction f with
  | zero => intro s st _; simp [run, Out.verts, annotateFrom]
  | succ f ih =>
    intro s st h
    rcases next_cases g hg childPD S s.yielded st h.inv with ⟨hs, hn⟩ | ⟨u, a, rest, hs, hu, hn⟩ | ⟨u, a, rest, hs, hu, hn⟩
    · simp [run, hn, Out.verts, annotateFrom]
    · simp [run, hn, Out.verts, annotateFrom]
    · obtain ⟨hexp, h'⟩ := pinv_item g hg S s st u a rest h hs hu
      have := ih _ _ h'
      simp only [Out.verts] at this
      simp [run, hn, Out.verts, annotateFrom, hexp, this]

/-! ### `predecessors()` is the forest -/

theorem foldl_set_length (items : List (Nat × Option Nat)) (p : List (Option Nat)) :
    (items.foldl (fun p x => p.set x.1 x.2) p).length = p.length := by
  induction items generalizing p with
  | nil => rfl
  | cons x xs ih => simp [ih]

theorem foldl_set_getElem? (items : List (Nat × Option Nat)) (hnd : (items.map (·.1)).Nodup)
    (p : List (Option Nat)) (v : Nat) (hv : v < p.length) :
    (items.foldl (fun p x => p.set x.1 x.2) p)[v]? =
      match items.find? (fun a => a.1 == v) with
      | some a => some a.2
      | none => p[v]? := by
  induction items generalizing p with
  | nil => simp
  | cons x xs ih =>
    simp only [List.map_cons, List.nodup_cons] at hnd
    simp only [List.foldl_cons]
    rw [ih hnd.2 (p.set x.1 x.2) (by simpa using hv)]
    by_cases hx : x.1 = v
    · have hnone : xs.find? (fun a => a.1 == v) = none := by
        rw [List.find?_eq_none]; intro a ha
        have : a.1 ≠ x.1 := fun e => hnd.1 (e ▸ List.mem_map.mpr ⟨a, ha, rfl⟩)
        simp [hx ▸ this]
      simp [hnone, hx, hv]
    · have hx' : (x.1 == v) = false := by simpa using hx
      simp only [List.find?_cons, hx']
      cases xs.find? (fun a => a.1 == v) with
      | some a => rfl
      | none => simp [List.getElem?_set_ne hx]

theorem predFold_eq_forest (n : Nat) (ann : List Ann) (hnd : (ann.map (·.1)).Nodup) :
    predFold n (ann.map (fun a => (a.1, a.2.1))) = forestOf n ann := by
  apply List.ext_getElem?
  intro v
  by_cases hv : v < n
  · unfold predFold
    rw [foldl_set_getElem? _ (by simpa [Function.comp_def] using hnd) _ v (by simpa using hv)]
    simp only [forestOf, List.getElem?_map, List.getElem?_range hv, Option.map_some, List.find?_map,
      Function.comp_def]
    cases ann.find? (fun a => a.1 == v) with
    | some a => simp
    | none => simp [hv]
  · have h1 : (predFold n (ann.map (fun a => (a.1, a.2.1)))).length = n := by
      simp [predFold, foldl_set_length]
    have h2 : (forestOf n ann).length = n := by simp [forestOf]
    rw [List.getElem?_eq_none (by omega), List.getElem?_eq_none (by omega)]


/-! ## 7. Assembly for the iterators started by `new` -/

/-- The annotated searches all three iterators are projections of. -/
def dfsAnn (g : Graph) (S : List Nat) : Out PD := run g childPD (fuel g) (new g S (none, 0))
def dfsAnnFixed (g : Graph) (S : List Nat) : Out PD := runFixed g childPD (fuelFixed g S) (new g S (none, 0))

theorem dfs_eq_ann (g : Graph) (S : List Nat) : dfs g S = (dfsAnn g S).map (fun _ => ()) := by
  unfold dfs dfsAnn
  rw [← run_map g (fun _ => ()) childPD childU (fun _ _ => rfl), new_map]
theorem dfsDist_eq_ann (g : Graph) (S : List Nat) : dfsDist g S = (dfsAnn g S).map (·.2) := by
  unfold dfsDist dfsAnn
  rw [← run_map g (·.2) childPD childD (fun _ _ => rfl), new_map]
theorem dfsPred_eq_ann (g : Graph) (S : List Nat) : dfsPred g S = (dfsAnn g S).map (·.1) := by
  unfold dfsPred dfsAnn
  rw [← run_map g (·.1) childPD childP (fun _ _ => rfl), new_map]
theorem dfsFixed_eq_ann (g : Graph) (S : List Nat) : dfsFixed g S = (dfsAnnFixed g S).map (fun _ => ()) := by
  unfold dfsFixed dfsAnnFixed
  rw [← runFixed_map g (fun _ => ()) childPD childU (fun _ _ => rfl), new_map]
theorem dfsDistFixed_eq_ann (g : Graph) (S : List Nat) : dfsDistFixed g S = (dfsAnnFixed g S).map (·.2) := by
  unfold dfsDistFixed dfsAnnFixed
  rw [← runFixed_map g (·.2) childPD childD (fun _ _ => rfl), new_map]
theorem dfsPredFixed_eq_ann (g : Graph) (S : List Nat) : dfsPredFixed g S = (dfsAnnFixed g S).map (·.1) := by
  unfold dfsPredFixed dfsAnnFixed
  rw [← runFixed_map g (·.1) childPD childP (fun _ _ => rfl), new_map]

/-- Today's iteration from `new`: never panics, never runs out of fuel, yields distinct reachable
vertices, and all of them when it ends on an empty stack. -/
theorem run_new_spec {α : Type} (g : Graph) (hg : g.WF) (child : Nat → α → α) (S : List Nat)
    (hS : ∀ s ∈ S, s < g.n) (a0 : α) :
    ((run g child (fuel g) (new g S a0)).ending = .done ∨ (run g child (fuel g) (new g S a0)).ending = .stale) ∧
    (run g child (fuel g) (new g S a0)).verts.Nodup ∧
    (∀ v ∈ (run g child (fuel g) (new g S a0)).verts, ReachFrom g S v) ∧
    ((run g child (fuel g) (new g S a0)).ending = .done →
      ∀ v, ReachFrom g S v → v ∈ (run g child (fuel g) (new g S a0)).verts) := by
  obtain ⟨st', i1, i2, i3, i4⟩ := run_spec g hg child S (fuel g) [] _ (inv_new g S a0 hS)
  simp only [List.nil_append] at i1
  have i4' := i4 (by simp [fuel])
  refine ⟨?_, i1.nodup, i1.reach, fun hd => inv_complete g S _ st' i1 (i2 hd)⟩
  cases he : (run g child (fuel g) (new g S a0)).ending with
  | done => simp
  | stale => simp
  | panic => exact absurd he i3
  | fuel => exact absurd he i4'

theorem run_new_fuel_indep {α : Type} (g : Graph) (hg : g.WF) (child : Nat → α → α) (S : List Nat)
    (hS : ∀ s ∈ S, s < g.n) (a0 : α) (k : Nat) :
    run g child (fuel g + k) (new g S a0) = run g child (fuel g) (new g S a0) := by
  apply run_fuel_indep
  rcases (run_new_spec g hg child S hS a0).1 with h | h <;> simp [h]

/-- The corrected iteration from `new`: ends on an empty stack having yielded exactly the
reachable vertices, once each. -/
theorem runFixed_new_spec {α : Type} (g : Graph) (hg : g.WF) (child : Nat → α → α) (S : List Nat)
    (hS : ∀ s ∈ S, s < g.n) (a0 : α) :
    (runFixed g child (fuelFixed g S) (new g S a0)).ending = .done ∧
    Exact g S (runFixed g child (fuelFixed g S) (new g S a0)).verts := by
  obtain ⟨st', i1, i2, i3, i4, i5⟩ := runFixed_spec g hg child S (fuelFixed g S) [] _ (inv_new g S a0 hS)
  simp only [List.nil_append] at i1
  have i5' := i5 (mu_new g S a0)
  have hd : (runFixed g child (fuelFixed g S) (new g S a0)).ending = .done := by
    cases he : (runFixed g child (fuelFixed g S) (new g S a0)).ending with
    | done => rfl
    | stale => exact absurd he i4
    | panic => exact absurd he i3
    | fuel => exact absurd he i5'
  exact ⟨hd, i1.nodup, fun v => ⟨i1.reach v, inv_complete g S _ st' i1 (i2 hd) v⟩⟩

theorem runFixed_new_fuel_indep {α : Type} (g : Graph) (hg : g.WF) (child : Nat → α → α) (S : List Nat)
    (hS : ∀ s ∈ S, s < g.n) (a0 : α) (k : Nat) :
    runFixed g child (fuelFixed g S + k) (new g S a0) = runFixed g child (fuelFixed g S) (new g S a0) := by
  apply runFixed_fuel_indep
  simp [(runFixed_new_spec g hg child S hS a0).1]

/-- Today's output is a prefix of the corrected output. -/
theorem run_new_prefix {α : Type} (g : Graph) (hg : g.WF) (child : Nat → α → α) (S : List Nat)
    (hS : ∀ s ∈ S, s < g.n) (a0 : α) :
    (run g child (fuel g) (new g S a0)).items <+: (runFixed g child (fuelFixed g S) (new g S a0)).items := by
  rw [← runFixed_new_fuel_indep g hg child S hS a0 (fuel g)]
  exact run_prefix_fixed g child _ _ _ (by omega)

/-- … cut exactly where the corrected variant pops its first stale entry. -/
theorem run_new_stale_at {α : Type} (g : Graph) (child : Nat → α → α) (S : List Nat) (a0 : α) (f' : Nat)
    (hf : fuel g ≤ f') (h : (run g child (fuel g) (new g S a0)).ending = .stale) :
    staleAt g child f' (new g S a0) = some (run g child (fuel g) (new g S a0)).items.length :=
  run_stale_at g child _ _ _ hf h

/-- When today's iteration ends on an empty stack it IS the corrected iteration. -/
theorem run_new_done_eq {α : Type} (g : Graph) (hg : g.WF) (child : Nat → α → α) (S : List Nat)
    (hS : ∀ s ∈ S, s < g.n) (a0 : α) (h : (run g child (fuel g) (new g S a0)).ending = .done) :
    runFixed g child (fuelFixed g S) (new g S a0) = run g child (fuel g) (new g S a0) := by
  rw [← runFixed_new_fuel_indep g hg child S hS a0 (fuel g)]
  exact run_done_eq_fixed g child _ _ _ (by omega) h

theorem dfsAnnFixed_annot (g : Graph) (hg : g.WF) (S : List Nat) (hS : ∀ s ∈ S, s < g.n) :
    annotate g S (dfsAnnFixed g S).verts = some (dfsAnnFixed g S).items :=
  runFixed_annot g hg S _ _ _ (pinv_new g S hS)

theorem dfsAnn_annot (g : Graph) (hg : g.WF) (S : List Nat) (hS : ∀ s ∈ S, s < g.n) :
    annotate g S (dfsAnn g S).verts = some (dfsAnn g S).items :=
  run_annot g hg S _ _ _ (pinv_new g S hS)

end GraafVerif.Dfs
