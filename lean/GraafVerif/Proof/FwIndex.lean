import GraafVerif.Model.Fw
/-!
# Lemmas about the flat index of the distance matrix (C08, `fw_index`)
-/
namespace GraafVerif.Fw
open GraafVerif

theorem idx_lt {n u v : Nat} (hu : u < n) (hv : v < n) : u * n + v < n * n := by
  have : (u + 1) * n ≤ n * n := Nat.mul_le_mul_right n hu
  rw [Nat.add_mul] at this
  omega

theorem idx_inj {n u v u' v' : Nat} (hv : v < n) (hv' : v' < n) (h : u * n + v = u' * n + v') :
    u = u' ∧ v = v' := by
  have hn : 0 < n := by omega
  have h1 : (u * n + v) / n = u := by
    rw [Nat.mul_comm, Nat.mul_add_div hn, Nat.div_eq_of_lt hv]; rfl
  have h2 : (u' * n + v') / n = u' := by
    rw [Nat.mul_comm, Nat.mul_add_div hn, Nat.div_eq_of_lt hv']; rfl
  have : u = u' := by rw [← h1, ← h2, h]
  subst this
  exact ⟨rfl, by omega⟩

theorem get_put_same {n : Nat} {m : Mat} {u v : Nat} {x : Option Int} (h : u * n + v < m.length) :
    get n (put n m u v x) u v = x := by
  simp [get, put, h]

theorem get_put_other {n : Nat} {m : Mat} {u v u' v' : Nat} {x : Option Int}
    (hv : v < n) (hv' : v' < n) (hne : ¬ (u = u' ∧ v = v')) :
    get n (put n m u v x) u' v' = get n m u' v' := by
  have : u * n + v ≠ u' * n + v' := fun h => hne (idx_inj hv hv' h)
  simp [get, put, List.getElem?_set_ne this]

theorem length_put {n : Nat} {m : Mat} {u v : Nat} {x : Option Int} : (put n m u v x).length = m.length := by
  simp [put]
end GraafVerif.Fw
