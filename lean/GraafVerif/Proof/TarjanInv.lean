import GraafVerif.Proof.TarjanBasic
import GraafVerif.Proof.TarjanCheck
/-!
# The invariants of Tarjan's algorithm on the model

Following Chen, Cohen, Lévy, Merz, Théry, *Formal Proofs of Tarjan's Strongly Connected
Components Algorithm in Why3, Coq and Isabelle* (ITP 2019), adapted to the imperative shape of
graaf's code (`index`/`low_link` maps, explicit `on_stack` set, low-link stored per vertex
instead of being returned).

The ghost parameter `gray` is the list of vertices whose `connect` call is in progress (the call
path); it is not part of the state.
-/
namespace GraafVerif.Tarjan
open GraafVerif

def St.indexed (s : St) (x : Nat) : Prop := mget s.index x ≠ none
def St.idx (s : St) (x : Nat) : Nat := (mget s.index x).getD 0
def St.lw (s : St) (x : Nat) : Nat := (mget s.low x).getD 0

theorem St.indexed_iff (s : St) (x : Nat) : s.indexed x ↔ mget s.index x = some (s.idx x) := by
  unfold St.indexed St.idx
  cases mget s.index x <;> simp

theorem St.idx_of_some {s : St} {x k : Nat} (h : mget s.index x = some k) : s.idx x = k := by
  simp [St.idx, h]

theorem St.indexed_of_some {s : St} {x k : Nat} (h : mget s.index x = some k) : s.indexed x := by
  simp [St.indexed, h]

/-- `c` is a strongly connected component: mutually reachable and maximal. -/
def IsSCC (g : VGraph) (c : List Nat) : Prop :=
  (∀ x ∈ c, ∀ y ∈ c, VReach g x y) ∧ (∀ x ∈ c, ∀ y, VReach g x y → VReach g y x → y ∈ c)

structure Inv (g : VGraph) (gray : List Nat) (s : St) : Prop where
  nofault : s.fault = none
  onStack : ∀ x, x ∈ s.onStack ↔ x ∈ s.stack
  indexedIff : ∀ x, s.indexed x ↔ (x ∈ s.stack ∨ ∃ c ∈ s.comps, x ∈ c)
  compStack : ∀ c ∈ s.comps, ∀ x ∈ c, x ∉ s.stack
  compDisj : s.comps.Pairwise (fun c d => ∀ x ∈ c, x ∉ d)
  compAsc : ∀ c ∈ s.comps, c.Pairwise (· < ·) ∧ c ≠ []
  verts : ∀ x, s.indexed x → x ∈ g.verts
  lowDef : ∀ x, s.indexed x → mget s.low x ≠ none
  idxLt : ∀ x, s.indexed x → s.idx x < s.i
  sorted : s.stack.Pairwise (fun a b => s.idx b < s.idx a)
  grayStack : ∀ z ∈ gray, z ∈ s.stack
  blackOut : ∀ x, s.indexed x → x ∉ gray → ∀ y ∈ g.out x, s.indexed y
  grayReach : ∀ z ∈ gray, ∀ y ∈ s.stack, s.idx z ≤ s.idx y → VReach g z y
  toGray : ∀ y ∈ s.stack, ∃ z ∈ gray, s.idx z ≤ s.idx y ∧ VReach g y z
  sccs : ∀ c ∈ s.comps, IsSCC g c

/-- `s'` extends `s`: what a nested call may change. -/
structure Ext (s s' : St) : Prop where
  stack : ∃ ext, s'.stack = ext ++ s.stack
  comps : ∃ new, s'.comps = s.comps ++ new
  index : ∀ x, s.indexed x → mget s'.index x = mget s.index x
  low : ∀ x, s.indexed x → mget s'.low x = mget s.low x
  newIdx : ∀ x, ¬ s.indexed x → s'.indexed x → s.i ≤ s'.idx x
  i : s.i ≤ s'.i

theorem Ext.refl (s : St) : Ext s s :=
  ⟨⟨[], rfl⟩, ⟨[], by simp⟩, fun _ _ => rfl, fun _ _ => rfl, fun _ h h' => absurd h' h, Nat.le_refl _⟩

theorem Ext.indexed {s s' : St} (e : Ext s s') {x : Nat} (h : s.indexed x) : s'.indexed x := by
  unfold St.indexed at *
  rw [e.index x h]; exact h

theorem Ext.idx {s s' : St} (e : Ext s s') {x : Nat} (h : s.indexed x) : s'.idx x = s.idx x := by
  unfold St.idx
  rw [e.index x h]

theorem Ext.lw {s s' : St} (e : Ext s s') {x : Nat} (h : s.indexed x) : s'.lw x = s.lw x := by
  unfold St.lw
  rw [e.low x h]

theorem Ext.trans {s s' s'' : St} (e : Ext s s') (e' : Ext s' s'') : Ext s s'' := by
  obtain ⟨x1, h1⟩ := e.stack
  obtain ⟨x2, h2⟩ := e'.stack
  obtain ⟨c1, hc1⟩ := e.comps
  obtain ⟨c2, hc2⟩ := e'.comps
  refine ⟨⟨x2 ++ x1, by rw [h2, h1, List.append_assoc]⟩, ⟨c1 ++ c2, by rw [hc2, hc1, List.append_assoc]⟩,
    ?_, ?_, ?_, Nat.le_trans e.i e'.i⟩
  · intro x h; rw [e'.index x (e.indexed h), e.index x h]
  · intro x h; rw [e'.low x (e.indexed h), e.low x h]
  · intro x hn h
    by_cases hx : s'.indexed x
    · rw [e'.idx hx]; exact e.newIdx x hn hx
    · exact Nat.le_trans e.i (e'.newIdx x hx h)

/-- The measure does not increase along `Ext`. -/
theorem Ext.unindexed_le (g : VGraph) {s s' : St} (e : Ext s s') : unindexed g s' ≤ unindexed g s := by
  unfold unindexed
  apply filter_length_le
  intro x _ hx
  cases h : mget s.index x with
  | none => rfl
  | some k =>
    have : s.indexed x := by simp [St.indexed, h]
    have := e.indexed this
    simp [St.indexed] at this
    cases h' : mget s'.index x with
    | none => exact absurd h' this
    | some k' => simp [h'] at hx

theorem Ext.unindexed_lt (g : VGraph) {s s' : St} (e : Ext s s') (u : Nat) (hu : u ∈ g.verts)
    (h0 : ¬ s.indexed u) (h1 : s'.indexed u) : unindexed g s' < unindexed g s := by
  unfold unindexed
  apply filter_length_lt _ _ _ _ u hu
  · simp only [St.indexed, ne_eq, Decidable.not_not] at h0
    simp [h0]
  · simp only [St.indexed, ne_eq] at h1
    cases h' : mget s'.index u with
    | none => exact absurd h' h1
    | some k' => simp
  · intro x _ hx
    cases h : mget s.index x with
    | none => rfl
    | some k =>
      have : s.indexed x := by simp [St.indexed, h]
      have := e.indexed this
      simp [St.indexed] at this
      cases h' : mget s'.index x with
      | none => exact absurd h' this
      | some k' => simp [h'] at hx

/-- Precondition of `connect v` in state `s` with call path `gray`. -/
structure Pre (g : VGraph) (gray : List Nat) (v : Nat) (s : St) : Prop where
  inv : Inv g gray s
  vert : v ∈ g.verts
  fresh : ¬ s.indexed v
  reach : ∀ z ∈ gray, VReach g z v

/-- Postcondition of `connect v` from `s` to `s'`. -/
structure Post (g : VGraph) (gray : List Nat) (v : Nat) (s s' : St) : Prop where
  inv : Inv g gray s'
  ext : Ext s s'
  idxV : mget s'.index v = some s.i
  lowLe : s'.lw v ≤ s.i
  alt : (v ∉ s'.stack ∧ s'.stack = s.stack ∧ s'.lw v = s.i) ∨
        (v ∈ s'.stack ∧ ∃ y ∈ s'.stack, s'.idx y = s'.lw v ∧ VReach g v y)
  lowX : ∀ x ∈ s'.stack, x ∉ s.stack → ∀ y ∈ g.out x, y ∈ s.stack → s'.lw v ≤ s'.idx y

/-- Invariant of the `for v in out_neighbors(u)` loop; `s0` is the state when `connect u` was
entered, `done` the out-neighbours already handled. -/
structure Loop (g : VGraph) (gray : List Nat) (u : Nat) (s0 s : St) (done : List Nat) : Prop where
  inv : Inv g (u :: gray) s
  ext : Ext s0 s
  stack : ∃ ext, s.stack = ext ++ u :: s0.stack
  idxU : mget s.index u = some s0.i
  doneIdx : ∀ v ∈ done, s.indexed v
  lowLe : s.lw u ≤ s0.i
  lowWit : ∃ y ∈ s.stack, s.idx y = s.lw u ∧ VReach g u y
  lowDone : ∀ v ∈ done, v ∈ s.stack → s.lw u ≤ s.idx v
  lowX : ∀ x ∈ s.stack, x ∉ s0.stack → x ≠ u → ∀ y ∈ g.out x, y ∈ s0.stack → s.lw u ≤ s.idx y

/-! ## Facts about a stack sorted by decreasing index -/

theorem sorted_split {idx : Nat → Nat} {ext rest : List Nat} {u : Nat}
    (h : (ext ++ u :: rest).Pairwise (fun a b => idx b < idx a)) :
    (∀ y ∈ ext, idx u < idx y) ∧ (∀ y ∈ rest, idx y < idx u) ∧
    (∀ y ∈ ext, ∀ z ∈ rest, idx z < idx y) ∧ rest.Pairwise (fun a b => idx b < idx a) := by
  rw [List.pairwise_append] at h
  obtain ⟨_, h2, h3⟩ := h
  rw [List.pairwise_cons] at h2
  refine ⟨fun y hy => h3 y hy u List.mem_cons_self, h2.1, fun y hy z hz => h3 y hy z (List.mem_cons_of_mem _ hz), h2.2⟩

theorem Inv.stack_idx_inj {g : VGraph} {gray : List Nat} {s : St} (inv : Inv g gray s) {a b : Nat}
    (ha : a ∈ s.stack) (hb : b ∈ s.stack) (h : s.idx a = s.idx b) : a = b := by
  have := inv.sorted
  generalize s.stack = l at *
  induction l with
  | nil => simp at ha
  | cons c l ih =>
    rw [List.pairwise_cons] at this
    rcases List.mem_cons.mp ha with rfl | ha' <;> rcases List.mem_cons.mp hb with rfl | hb'
    · rfl
    · have := this.1 b hb'; omega
    · have := this.1 a ha'; omega
    · exact ih ha' hb' this.2

theorem Inv.stack_indexed {g : VGraph} {gray : List Nat} {s : St} (inv : Inv g gray s) {x : Nat}
    (hx : x ∈ s.stack) : s.indexed x := (inv.indexedIff x).mpr (Or.inl hx)

end GraafVerif.Tarjan
