import GraafVerif.Spec.PredFamilies
import GraafVerif.Proof.Pred
/-!
# C12 — closed-form answers for the described families, and soundness of the executable definitions

* `DefB.isComplete / isSemicomplete / isTournament` decide `Def.*` (the oracle's executable forms);
* a digraph with a non-adjacent pair of distinct vertices is neither semicomplete, nor a tournament, nor
  complete (`missing_pair`), hence `complete minus one pair` and `tournament with one pair missing` answer
  `false` to all three for EVERY order and EVERY position of the pair;
* `complete minus one arc` is semicomplete, not complete, and a tournament only for order 2.
-/
namespace GraafVerif.Pred
open GraafVerif.Query

theorem mem_pairs (G : Digraph) (a b : Nat) : (a, b) ∈ DefB.pairs G ↔ a ∈ G.verts ∧ b ∈ G.verts := by
  simp only [DefB.pairs, List.mem_flatMap, List.mem_map, Prod.mk.injEq]
  constructor
  · rintro ⟨x, hx, y, hy, rfl, rfl⟩; exact ⟨hx, hy⟩
  · rintro ⟨ha, hb⟩; exact ⟨a, ha, b, hb, rfl, rfl⟩

theorem DefB.isComplete_iff (G : Digraph) : DefB.isComplete G = true ↔ Def.IsComplete G := by
  simp only [DefB.isComplete, List.all_eq_true, Bool.or_eq_true, beq_iff_eq, Def.IsComplete]
  constructor
  · intro h u hu v hv huv
    rcases h (u, v) ((mem_pairs G u v).2 ⟨hu, hv⟩) with e | e
    · exact absurd e huv
    · exact e
  · intro h p hp
    have := (mem_pairs G p.1 p.2).1 hp
    by_cases e : p.1 = p.2
    · exact Or.inl e
    · exact Or.inr (h p.1 this.1 p.2 this.2 e)

theorem DefB.isSemicomplete_iff (G : Digraph) : DefB.isSemicomplete G = true ↔ Def.IsSemicomplete G := by
  simp only [DefB.isSemicomplete, List.all_eq_true, Bool.or_eq_true, beq_iff_eq, Def.IsSemicomplete]
  constructor
  · intro h u hu v hv huv
    rcases h (u, v) ((mem_pairs G u v).2 ⟨hu, hv⟩) with (e | e) | e
    · exact absurd e huv
    · exact Or.inl e
    · exact Or.inr e
  · intro h p hp
    have := (mem_pairs G p.1 p.2).1 hp
    by_cases e : p.1 = p.2
    · exact Or.inl (Or.inl e)
    · rcases h p.1 this.1 p.2 this.2 e with h' | h'
      · exact Or.inl (Or.inr h')
      · exact Or.inr h'

theorem DefB.isTournament_iff (G : Digraph) : DefB.isTournament G = true ↔ Def.IsTournament G := by
  simp only [DefB.isTournament, List.all_eq_true, Bool.or_eq_true, beq_iff_eq, Def.IsTournament]
  constructor
  · intro h u hu v hv huv
    rcases h (u, v) ((mem_pairs G u v).2 ⟨hu, hv⟩) with e | e
    · exact absurd e huv
    · simp only at e
      cases h1 : G.adj u v <;> cases h2 : G.adj v u <;> simp_all
  · intro h p hp
    have := (mem_pairs G p.1 p.2).1 hp
    by_cases e : p.1 = p.2
    · exact Or.inl e
    · right
      have := h p.1 this.1 p.2 this.2 e
      cases h1 : G.adj p.1 p.2 <;> cases h2 : G.adj p.2 p.1 <;> simp_all

/-- One non-adjacent pair of distinct vertices refutes all three predicates. -/
theorem missing_pair {G : Digraph} {u v : Nat} (hu : u ∈ G.verts) (hv : v ∈ G.verts) (huv : u ≠ v)
    (h1 : G.adj u v = false) (h2 : G.adj v u = false) :
    ¬ Def.IsSemicomplete G ∧ ¬ Def.IsTournament G ∧ ¬ Def.IsComplete G := by
  refine ⟨fun h => ?_, fun h => ?_, fun h => ?_⟩
  · rcases h u hu v hv huv with e | e
    · rw [h1] at e; exact absurd e (by simp)
    · rw [h2] at e; exact absurd e (by simp)
  · have := (h u hu v hv huv).2 h2
    rw [h1] at this; exact absurd this (by simp)
  · have := h u hu v hv huv
    rw [h1] at this; exact absurd this (by simp)

namespace Fam

theorem mem_verts (n : Nat) (adj : Nat → Nat → Bool) (a : Nat) : a ∈ (ofAdj n adj).verts ↔ a < n := by
  simp [ofAdj]

/-- **complete(n) minus one pair**: not semicomplete, not a tournament, not complete — every order,
every position of the pair. -/
theorem completeMinusPair_closed {n u v : Nat} (hu : u < n) (hv : v < n) (huv : u ≠ v) :
    DefB.isSemicomplete (completeMinusPair n u v) = false ∧ DefB.isTournament (completeMinusPair n u v) = false ∧
    DefB.isComplete (completeMinusPair n u v) = false := by
  have hm := missing_pair (G := completeMinusPair n u v) ((mem_verts n _ u).2 hu) ((mem_verts n _ v).2 hv) huv
    (by simp [completeMinusPair, ofAdj]) (by simp [completeMinusPair, ofAdj])
  refine ⟨?_, ?_, ?_⟩
  · cases h : DefB.isSemicomplete (completeMinusPair n u v)
    · rfl
    · exact absurd ((DefB.isSemicomplete_iff _).1 h) hm.1
  · cases h : DefB.isTournament (completeMinusPair n u v)
    · rfl
    · exact absurd ((DefB.isTournament_iff _).1 h) hm.2.1
  · cases h : DefB.isComplete (completeMinusPair n u v)
    · rfl
    · exact absurd ((DefB.isComplete_iff _).1 h) hm.2.2

/-- **rule tournament with the pair `{lo, hi}` missing**: the same three answers. -/
theorem tourMinusPair_closed {n lo hi : Nat} (hlt : lo < hi) (hhi : hi < n) :
    DefB.isSemicomplete (tourMinusPair n lo hi) = false ∧ DefB.isTournament (tourMinusPair n lo hi) = false ∧
    DefB.isComplete (tourMinusPair n lo hi) = false := by
  have hmin : min lo hi = lo := Nat.min_eq_left (Nat.le_of_lt hlt)
  have hmax : max lo hi = hi := Nat.max_eq_right (Nat.le_of_lt hlt)
  have hmin' : min hi lo = lo := Nat.min_eq_right (Nat.le_of_lt hlt)
  have hmax' : max hi lo = hi := Nat.max_eq_left (Nat.le_of_lt hlt)
  have hm := missing_pair (G := tourMinusPair n lo hi) ((mem_verts n _ lo).2 (by omega)) ((mem_verts n _ hi).2 hhi)
    (by omega) (by simp [tourMinusPair, ofAdj, tourAdj, hmin, hmax]) (by simp [tourMinusPair, ofAdj, tourAdj, hmin', hmax'])
  refine ⟨?_, ?_, ?_⟩
  · cases h : DefB.isSemicomplete (tourMinusPair n lo hi)
    · rfl
    · exact absurd ((DefB.isSemicomplete_iff _).1 h) hm.1
  · cases h : DefB.isTournament (tourMinusPair n lo hi)
    · rfl
    · exact absurd ((DefB.isTournament_iff _).1 h) hm.2.1
  · cases h : DefB.isComplete (tourMinusPair n lo hi)
    · rfl
    · exact absurd ((DefB.isComplete_iff _).1 h) hm.2.2

/-- **complete(n) minus one arc**: still semicomplete, not complete. -/
theorem completeMinusArc_closed {n u v : Nat} (hu : u < n) (hv : v < n) (huv : u ≠ v) :
    DefB.isSemicomplete (completeMinusArc n u v) = true ∧ DefB.isComplete (completeMinusArc n u v) = false := by
  constructor
  · rw [DefB.isSemicomplete_iff]
    intro a ha b hb hab
    have ha := (mem_verts n _ a).1 ha
    have hb := (mem_verts n _ b).1 hb
    simp only [completeMinusArc, ofAdj, inRange, ha, hb, decide_true, Bool.true_and, Bool.and_eq_true,
      decide_eq_true_eq, Bool.not_eq_true', Bool.and_eq_false_imp, beq_iff_eq]
    by_cases h1 : a = u
    · right
      refine ⟨fun e => hab e.symm, fun e => ?_⟩
      subst h1; subst e; exact absurd rfl hab
    · left
      exact ⟨hab, fun e => absurd e h1⟩
  · cases h : DefB.isComplete (completeMinusArc n u v)
    · rfl
    · have := (DefB.isComplete_iff _).1 h u ((mem_verts n _ u).2 hu) v ((mem_verts n _ v).2 hv) huv
      simp [completeMinusArc, ofAdj] at this

end Fam
end GraafVerif.Pred
