import GraafVerif.Proof.OpsSorted
import GraafVerif.Spec.Ops
/-!
# `AdjacencyMatrix::{complement, converse, union}` compute their set definitions

Bit level first (`has_arc` reads cell `u*order+v`, `add_arc` sets exactly that cell, `arcs()`
lists exactly the set cells), then every operation is a fold of cell-setting steps
(`CellStep` / `cellStep_foldlM`).
-/
namespace GraafVerif.Ops
open GraafVerif.Repr

theorem getLsbD_mask (i k : Nat) : (AdjMatrix.mask i).getLsbD k = decide (k = i % 64) := by
  unfold AdjMatrix.mask
  have hi : i % 64 < 64 := Nat.mod_lt _ (by decide)
  rw [BitVec.getLsbD_shiftLeft]
  by_cases hk : k < 64
  · by_cases hlt : k < i % 64
    · simp [hk, hlt]; omega
    · simp [hk, hlt, BitVec.getLsbD_one]; omega
  · simp [hk]; omega

theorem and_mask_ne_zero (x : BitVec 64) (i : Nat) :
    ((x &&& AdjMatrix.mask i) != 0#64) = x.getLsbD (i % 64) := by
  have hi : i % 64 < 64 := Nat.mod_lt _ (by decide)
  cases hx : x.getLsbD (i % 64)
  · have : x &&& AdjMatrix.mask i = 0#64 := by
      apply BitVec.eq_of_getLsbD_eq
      intro k hk
      rw [BitVec.getLsbD_and, getLsbD_mask]
      by_cases hki : k = i % 64
      · subst hki; simp [hx]
      · simp [hki]
    simp [this]
  · have h1 : (x &&& AdjMatrix.mask i).getLsbD (i % 64) = true := by
      rw [BitVec.getLsbD_and, getLsbD_mask]; simp [hx]
    have hne : x &&& AdjMatrix.mask i ≠ 0#64 := by
      intro h; rw [h] at h1; simp at h1
    simp [bne, hne]

/-- `has_arc` reads the cell `u * order + v`. -/
theorem hasArcMX_iff {d : AdjMatrix} {u v : Nat} :
    d.hasArc u v = true ↔ u < d.order ∧ v < d.order ∧ d.cell (u * d.order + v) = true := by
  unfold AdjMatrix.hasArc AdjMatrix.cell AdjMatrix.index
  by_cases h : u ≥ d.order || v ≥ d.order
  · rw [if_pos h]
    simp at h
    constructor
    · intro hc; cases hc
    · intro hc; omega
  · rw [if_neg h, and_mask_ne_zero]
    simp at h
    constructor
    · intro hc; exact ⟨h.1, h.2, hc⟩
    · intro hc; exact hc.2.2

/-- Shape invariant of a matrix of order `n`. -/
def MInv (g : AdjMatrix) (n : Nat) : Prop := g.order = n ∧ g.blocks.length = (n * n + 63) / 64

theorem cell_true_lt {d : AdjMatrix} {c : Nat} (h : d.cell c = true) : c < 64 * d.blocks.length := by
  unfold AdjMatrix.cell at h
  cases hb : d.blocks[c / 64]? with
  | none => simp [hb] at h
  | some x =>
    have := (List.getElem?_eq_some_iff.mp hb).1
    omega

theorem div_mod_eq {c i : Nat} (h1 : c / 64 = i / 64) (h2 : c % 64 = i % 64) : c = i := by
  have := Nat.div_add_mod c 64
  have := Nat.div_add_mod i 64
  omega

/-- Setting bit `i` (`|= mask(i)`) changes exactly cell `i`. -/
theorem cell_setBlock_or {d : AdjMatrix} {i : Nat} (hi : i / 64 < d.blocks.length) (c : Nat) :
    (d.setBlock i (· ||| AdjMatrix.mask i)).cell c = (d.cell c || c == i) := by
  unfold AdjMatrix.setBlock AdjMatrix.cell
  simp only []
  rw [List.getElem?_set]
  by_cases hc : i / 64 = c / 64
  · simp only [hc, if_true]
    have hc' : c / 64 < d.blocks.length := by omega
    simp only [hc', if_true, Option.getD_some]
    rw [← hc, BitVec.getLsbD_or, getLsbD_mask]
    congr 1
    by_cases hm : c % 64 = i % 64
    · have := div_mod_eq hc.symm hm
      simp [this]
    · have : ¬ c = i := fun e => hm (by rw [e])
      simp [hm, this]
  · simp only [hc, if_false]
    have : ¬ c = i := fun e => hc (by rw [e])
    simp [this]

theorem idx_lt {n u v : Nat} (hu : u < n) (hv : v < n) : u * n + v < n * n := by
  have : u * n + n ≤ n * n := by
    have := Nat.mul_le_mul_right n (Nat.succ_le_of_lt hu)
    rw [Nat.succ_mul] at this
    exact this
  omega

theorem idx_inj {n u v u' v' : Nat} (hv : v < n) (hv' : v' < n) (h : u * n + v = u' * n + v') :
    u = u' ∧ v = v' := by
  have hn : 0 < n := by omega
  have h1 : (u * n + v) / n = u := by
    rw [Nat.mul_comm, Nat.mul_add_div hn, Nat.div_eq_of_lt hv]; simp
  have h2 : (u' * n + v') / n = u' := by
    rw [Nat.mul_comm, Nat.mul_add_div hn, Nat.div_eq_of_lt hv']; simp
  have hu : u = u' := by rw [← h1, ← h2, h]
  subst hu
  exact ⟨rfl, by omega⟩

/-- `add_arc` on a matrix of order `n`: no panic for a valid arc; sets exactly that cell. -/
theorem addArcMX_spec {g : AdjMatrix} {n u v : Nat} (hg : MInv g n) (hu : u < n) (hv : v < n) (hne : u ≠ v) :
    ∃ g', g.addArc u v = some g' ∧ MInv g' n ∧ ∀ c, g'.cell c = (g.cell c || c == u * n + v) := by
  obtain ⟨ho, hl⟩ := hg
  have hidx : g.index u v = u * n + v := by simp [AdjMatrix.index, ho]
  have hin : (u * n + v) / 64 < g.blocks.length := by
    have := idx_lt hu hv
    rw [hl]
    omega
  refine ⟨g.setBlock (g.index u v) (· ||| AdjMatrix.mask (g.index u v)), ?_, ?_, ?_⟩
  · unfold AdjMatrix.addArc
    rw [if_neg hne, if_neg (by omega), if_neg (by omega)]
  · simp [MInv, AdjMatrix.setBlock, ho, hl]
  · intro c
    rw [hidx]
    exact cell_setBlock_or hin c

/-! ## Folding cell-setting steps -/

/-- `step g x` (for admissible `x`) returns normally and sets exactly the cells selected by `P x`. -/
def CellStep {α : Type} (n : Nat) (Q : α → Prop) (step : AdjMatrix → α → Option AdjMatrix)
    (P : α → Nat → Bool) : Prop :=
  ∀ g x, Q x → MInv g n →
    ∃ g', step g x = some g' ∧ MInv g' n ∧ ∀ c, g'.cell c = (g.cell c || P x c)

theorem cellStep_foldlM {α : Type} {n : Nat} {Q : α → Prop} {step : AdjMatrix → α → Option AdjMatrix}
    {P : α → Nat → Bool} (h : CellStep n Q step P) :
    ∀ (xs : List α), (∀ x ∈ xs, Q x) → ∀ g, MInv g n →
      ∃ g', xs.foldlM step g = some g' ∧ MInv g' n ∧
        ∀ c, g'.cell c = (g.cell c || xs.any (fun x => P x c)) := by
  intro xs
  induction xs with
  | nil => intro _ g hg; exact ⟨g, rfl, hg, by simp⟩
  | cons x xs ih =>
    intro hq g hg
    obtain ⟨g1, h1, hg1, hc1⟩ := h g x (hq x (by simp)) hg
    obtain ⟨g2, h2, hg2, hc2⟩ := ih (fun y hy => hq y (by simp [hy])) g1 hg1
    refine ⟨g2, ?_, hg2, ?_⟩
    · simp only [List.foldlM_cons, h1, Option.bind_eq_bind, Option.bind_some, h2]
    · intro c; rw [hc2, hc1]; simp [Bool.or_assoc]

theorem cellStep_addArc (n : Nat) :
    CellStep n (fun a : Nat × Nat => a.1 < n ∧ a.2 < n ∧ a.1 ≠ a.2)
      (fun g a => g.addArc a.1 a.2) (fun a c => c == a.1 * n + a.2) :=
  fun _ _ hq hg => addArcMX_spec hg hq.1 hq.2.1 hq.2.2

theorem emptyMX_spec {n : Nat} (hn : 0 < n) (hlt : n * n < 2 ^ 64) :
    ∃ e, AdjMatrix.empty n = some e ∧ MInv e n ∧ ∀ c, e.cell c = false := by
  refine ⟨⟨List.replicate ((n * n + 63) / 64) 0#64, n⟩, ?_, ⟨rfl, by simp⟩, ?_⟩
  · unfold AdjMatrix.empty
    rw [if_neg (by omega), if_neg (by omega)]
  · intro c
    unfold AdjMatrix.cell
    simp only []
    by_cases h : c / 64 < (n * n + 63) / 64
    · simp [h]
    · simp [h]

/-! ## `arcs()` lists exactly the set cells -/

theorem mem_arcsMX {d : AdjMatrix} (hn : 0 < d.order) {u v : Nat} :
    (u, v) ∈ d.arcs ↔ d.hasArc u v = true := by
  rw [hasArcMX_iff]
  unfold AdjMatrix.arcs
  simp only [List.mem_map, List.mem_filter, List.mem_range, Bool.and_eq_true, decide_eq_true_eq,
    Prod.mk.injEq]
  constructor
  · rintro ⟨c, ⟨_, hcell, hlt⟩, rfl, rfl⟩
    have hv : c % d.order < d.order := Nat.mod_lt _ hn
    have hc : c / d.order * d.order + c % d.order = c := by
      rw [Nat.mul_comm]; exact Nat.div_add_mod c d.order
    refine ⟨?_, hv, by rw [hc]; exact hcell⟩
    have : c / d.order * d.order < d.order * d.order := by omega
    exact Nat.lt_of_mul_lt_mul_right this
  · rintro ⟨hu, hv, hcell⟩
    refine ⟨u * d.order + v, ⟨cell_true_lt hcell, hcell, idx_lt hu hv⟩, ?_, ?_⟩
    · rw [Nat.mul_comm, Nat.mul_add_div hn, Nat.div_eq_of_lt hv]; simp
    · rw [Nat.mul_comm, Nat.mul_add_mod]; exact Nat.mod_eq_of_lt hv

theorem absMX_V {d : AdjMatrix} {v : Nat} : (absMX d).V v ↔ v < d.order := by
  simp [absMX, AdjMatrix.vertices]

theorem absMX_A {d : AdjMatrix} {u v : Nat} :
    (absMX d).A u v ↔ u < d.order ∧ v < d.order ∧ d.cell (u * d.order + v) = true := hasArcMX_iff

theorem wfMX_ne {d : AdjMatrix} (h : d.WF) {u v : Nat} (ha : d.hasArc u v = true) : u ≠ v := by
  rw [hasArcMX_iff] at ha
  rintro rfl
  have := h.2.2.2 u ha.1
  simp only [AdjMatrix.index] at this
  rw [this] at ha
  exact absurd ha.2.2 (by simp)

theorem absMX_valid {d : AdjMatrix} (h : d.WF) : (absMX d).Valid := by
  intro u v ha
  have hne := wfMX_ne h ha
  rw [absMX_A] at ha
  exact ⟨absMX_V.mpr ha.1, absMX_V.mpr ha.2.1, hne⟩

theorem wfMX_inv {d : AdjMatrix} (h : d.WF) : MInv d d.order := ⟨rfl, h.2.1⟩

/-- A matrix of the right shape whose set cells are all off-diagonal cells `< n²` is `WF`. -/
theorem wfMX_of_cells {g : AdjMatrix} {n : Nat} (hn : 0 < n) (hg : MInv g n)
    (hc : ∀ c, g.cell c = true → ∃ u v, u < n ∧ v < n ∧ u ≠ v ∧ c = u * n + v) : g.WF := by
  obtain ⟨ho, hl⟩ := hg
  refine ⟨by omega, by rw [ho]; exact hl, ?_, ?_⟩
  · intro c hge
    cases hcell : g.cell c
    · rfl
    · obtain ⟨u, v, hu, hv, _, rfl⟩ := hc c hcell
      have := idx_lt hu hv
      rw [ho] at hge; omega
  · intro u hu
    cases hcell : g.cell (g.index u u)
    · rfl
    · obtain ⟨a, b, ha, hb, hne, he⟩ := hc _ hcell
      simp only [AdjMatrix.index, ho] at he
      rw [ho] at hu
      have := idx_inj hu hb he
      omega

/-! ## complement -/

/-- Body of the inner loop of `AdjacencyMatrix::complement` for the pair `u < v`. -/
def complStepMX (d : AdjMatrix) (u : Nat) (g : AdjMatrix) (v : Nat) : Option AdjMatrix := do
  let g ← if !d.hasArc u v then g.addArc u v else pure g
  if !d.hasArc v u then g.addArc v u else pure g

theorem complementMX_eq (d : AdjMatrix) : complementMX d = (do
    let e ← AdjMatrix.empty d.order
    (List.range d.order).foldlM (fun g u =>
      (List.range' (u + 1) (d.order - (u + 1))).foldlM (complStepMX d u) g) e) := rfl

theorem cellStep_complStep (d : AdjMatrix) (u : Nat) :
    CellStep d.order (fun v => u < d.order ∧ v < d.order ∧ u ≠ v) (complStepMX d u)
      (fun v c => (!d.hasArc u v && c == u * d.order + v) || (!d.hasArc v u && c == v * d.order + u)) := by
  intro g v hq hg
  obtain ⟨hu, hv, hne⟩ := hq
  unfold complStepMX
  by_cases h1 : d.hasArc u v = true
  · by_cases h2 : d.hasArc v u = true
    · exact ⟨g, by simp [h1, h2], hg, by simp [h1, h2]⟩
    · obtain ⟨g', e, hg', hc⟩ := addArcMX_spec hg hv hu (fun e => hne e.symm)
      exact ⟨g', by simp [h1, h2, e], hg', by intro c; simp [h1, h2, hc]⟩
  · obtain ⟨g1, e1, hg1, hc1⟩ := addArcMX_spec hg hu hv hne
    by_cases h2 : d.hasArc v u = true
    · exact ⟨g1, by simp [h1, h2, e1], hg1, by intro c; simp [h1, h2, hc1]⟩
    · obtain ⟨g2, e2, hg2, hc2⟩ := addArcMX_spec hg1 hv hu (fun e => hne e.symm)
      exact ⟨g2, by simp [h1, h2, e1, e2], hg2, by intro c; simp [h1, h2, hc2, hc1, Bool.or_assoc]⟩

theorem complementMX_cells (d : AdjMatrix) (hn : 0 < d.order) (hlt : d.order * d.order < 2 ^ 64) :
    ∃ r, complementMX d = some r ∧ MInv r d.order ∧
      ∀ c, r.cell c = true ↔ ∃ a b, a < d.order ∧ b < d.order ∧ a ≠ b ∧ ¬ d.hasArc a b = true ∧
        c = a * d.order + b := by
  obtain ⟨e, he, hge, hce⟩ := emptyMX_spec hn hlt
  have hinner : CellStep d.order (fun u => u < d.order)
      (fun g u => (List.range' (u + 1) (d.order - (u + 1))).foldlM (complStepMX d u) g)
      (fun u c => (List.range' (u + 1) (d.order - (u + 1))).any (fun v =>
        (!d.hasArc u v && c == u * d.order + v) || (!d.hasArc v u && c == v * d.order + u))) := by
    intro g u hu hg
    apply cellStep_foldlM (cellStep_complStep d u) _ _ g hg
    intro v hv
    rw [List.mem_range'_1] at hv
    exact ⟨hu, by omega, by omega⟩
  obtain ⟨r, hr, hgr, hcr⟩ := cellStep_foldlM hinner (List.range d.order) (by simp) e hge
  refine ⟨r, by rw [complementMX_eq, he]; exact hr, hgr, ?_⟩
  intro c
  rw [hcr, hce]
  simp only [Bool.false_or, List.any_eq_true, List.mem_range, List.mem_range'_1, Bool.or_eq_true,
    Bool.and_eq_true, Bool.not_eq_true', beq_iff_eq]
  constructor
  · rintro ⟨u, hu, v, hv, h | h⟩
    · exact ⟨u, v, hu, by omega, by omega, by simp [h.1], h.2⟩
    · exact ⟨v, u, by omega, hu, by omega, by simp [h.1], h.2⟩
  · rintro ⟨a, b, ha, hb, hne, hna, hc⟩
    have hna' : d.hasArc a b = false := by simpa using hna
    by_cases hab : a < b
    · exact ⟨a, ha, b, by omega, Or.inl ⟨hna', hc⟩⟩
    · exact ⟨b, hb, a, by omega, Or.inr ⟨hna', hc⟩⟩

theorem complementMX_spec (d : AdjMatrix) (h : d.WF) (hlt : d.order * d.order < 2 ^ 64) :
    ∃ r, complementMX d = some r ∧ r.WF ∧ absMX r = specComplement (absMX d) := by
  have hn := h.1
  obtain ⟨r, hr, hg, hc⟩ := complementMX_cells d hn hlt
  refine ⟨r, hr, ?_, ?_⟩
  · apply wfMX_of_cells hn hg
    intro c hcell
    obtain ⟨a, b, ha, hb, hne, _, e⟩ := (hc c).mp hcell
    exact ⟨a, b, ha, hb, hne, e⟩
  · rw [DG.ext_iff']
    constructor
    · intro v; simp [absMX_V, specComplement, hg.1]
    · intro u v
      rw [absMX_A, hg.1]
      simp only [specComplement, absMX_V]
      constructor
      · rintro ⟨hu, hv, hcell⟩
        obtain ⟨a, b, ha, hb, hne, hna, e⟩ := (hc _).mp hcell
        obtain ⟨rfl, rfl⟩ := idx_inj hv hb e
        exact ⟨hu, hv, hne, hna⟩
      · rintro ⟨hu, hv, hne, hna⟩
        exact ⟨hu, hv, (hc _).mpr ⟨u, v, hu, hv, hne, hna, rfl⟩⟩

/-! ## converse -/

theorem wfMX_arc {d : AdjMatrix} (h : d.WF) {a : Nat × Nat} (ha : a ∈ d.arcs) :
    a.1 < d.order ∧ a.2 < d.order ∧ a.1 ≠ a.2 := by
  have h1 : d.hasArc a.1 a.2 = true := (mem_arcsMX h.1).mp ha
  have hne := wfMX_ne h h1
  rw [hasArcMX_iff] at h1
  exact ⟨h1.1, h1.2.1, hne⟩

theorem converseMX_spec (d : AdjMatrix) (h : d.WF) (hlt : d.order * d.order < 2 ^ 64) :
    ∃ r, converseMX d = some r ∧ r.WF ∧ absMX r = specConverse (absMX d) := by
  have hn := h.1
  obtain ⟨e, he, hge, hce⟩ := emptyMX_spec hn hlt
  have hstep : CellStep d.order (fun a : Nat × Nat => a.1 < d.order ∧ a.2 < d.order ∧ a.1 ≠ a.2)
      (fun g a => g.addArc a.2 a.1) (fun a c => c == a.2 * d.order + a.1) :=
    fun _ a hq hg => addArcMX_spec hg hq.2.1 hq.1 (fun e => hq.2.2 e.symm)
  obtain ⟨r, hr, hg, hc⟩ := cellStep_foldlM hstep d.arcs (fun a ha => wfMX_arc h ha) e hge
  have hcell : ∀ c, r.cell c = true ↔ ∃ a ∈ d.arcs, c = a.2 * d.order + a.1 := by
    intro c; rw [hc, hce]; simp
  refine ⟨r, by unfold converseMX; rw [he]; exact hr, ?_, ?_⟩
  · apply wfMX_of_cells hn hg
    intro c hcl
    obtain ⟨a, ha, e⟩ := (hcell c).mp hcl
    have := wfMX_arc h ha
    exact ⟨a.2, a.1, this.2.1, this.1, fun e => this.2.2 e.symm, e⟩
  · rw [DG.ext_iff']
    constructor
    · intro v; simp [absMX_V, specConverse, hg.1]
    · intro u v
      rw [absMX_A, hg.1]
      simp only [specConverse]
      show _ ↔ d.hasArc v u = true
      rw [← mem_arcsMX hn]
      constructor
      · rintro ⟨hu, hv, hcl⟩
        obtain ⟨a, ha, e⟩ := (hcell _).mp hcl
        obtain ⟨rfl, rfl⟩ := idx_inj hv (wfMX_arc h ha).1 e
        exact ha
      · intro ha
        have := wfMX_arc h ha
        exact ⟨this.2.1, this.1, (hcell _).mpr ⟨(v, u), ha, rfl⟩⟩

/-! ## union -/

theorem unionMX_spec (a b : AdjMatrix) (ha : a.WF) (hb : b.WF) :
    ∃ r, unionMX a b = some r ∧ r.WF ∧ absMX r = specUnion (absMX a) (absMX b) := by
  have key : ∀ (big small : AdjMatrix), big.WF → small.WF → small.order ≤ big.order →
      ∃ r, small.arcs.foldlM (fun g x => g.addArc x.1 x.2) big = some r ∧ r.WF ∧
        absMX r = specUnion (absMX big) (absMX small) := by
    intro big small hbig hsmall hle
    have hq : ∀ x ∈ small.arcs, x.1 < big.order ∧ x.2 < big.order ∧ x.1 ≠ x.2 := by
      intro x hx
      have := wfMX_arc hsmall hx
      exact ⟨by omega, by omega, this.2.2⟩
    obtain ⟨r, hr, hg, hc⟩ := cellStep_foldlM (cellStep_addArc big.order) small.arcs hq big (wfMX_inv hbig)
    have hcell : ∀ c, r.cell c = true ↔ big.cell c = true ∨ ∃ x ∈ small.arcs, c = x.1 * big.order + x.2 := by
      intro c; rw [hc]; simp
    have hbigcell : ∀ c, big.cell c = true → ∃ u v, u < big.order ∧ v < big.order ∧ u ≠ v ∧ c = u * big.order + v := by
      intro c hcl
      have hlt : c < big.order * big.order := by
        cases hcmp : decide (c < big.order * big.order)
        · have := hbig.2.2.1 c (by simpa using hcmp)
          rw [this] at hcl; cases hcl
        · simpa using hcmp
      have hv : c % big.order < big.order := Nat.mod_lt _ hbig.1
      have hce : c / big.order * big.order + c % big.order = c := by
        rw [Nat.mul_comm]; exact Nat.div_add_mod c big.order
      have hu : c / big.order < big.order := by
        have : c / big.order * big.order < big.order * big.order := by omega
        exact Nat.lt_of_mul_lt_mul_right this
      refine ⟨c / big.order, c % big.order, hu, hv, ?_, hce.symm⟩
      have harc : big.hasArc (c / big.order) (c % big.order) = true :=
        hasArcMX_iff.mpr ⟨hu, hv, by rw [hce]; exact hcl⟩
      exact wfMX_ne hbig harc
    refine ⟨r, hr, ?_, ?_⟩
    · apply wfMX_of_cells hbig.1 hg
      intro c hcl
      rcases (hcell c).mp hcl with hcl | ⟨x, hx, e⟩
      · exact hbigcell c hcl
      · exact ⟨x.1, x.2, (hq x hx).1, (hq x hx).2.1, (hq x hx).2.2, e⟩
    · rw [DG.ext_iff']
      constructor
      · intro v; simp only [absMX_V, specUnion, hg.1]; omega
      · intro u v
        rw [absMX_A, hg.1]
        simp only [specUnion]
        show _ ↔ big.hasArc u v = true ∨ small.hasArc u v = true
        rw [← mem_arcsMX hsmall.1, hasArcMX_iff]
        constructor
        · rintro ⟨hu, hv, hcl⟩
          rcases (hcell _).mp hcl with hcl | ⟨x, hx, e⟩
          · exact Or.inl ⟨hu, hv, hcl⟩
          · obtain ⟨rfl, rfl⟩ := idx_inj hv (hq x hx).2.1 e
            exact Or.inr hx
        · rintro (⟨hu, hv, hcl⟩ | hx)
          · exact ⟨hu, hv, (hcell _).mpr (Or.inl hcl)⟩
          · exact ⟨(hq _ hx).1, (hq _ hx).2.1, (hcell _).mpr (Or.inr ⟨(u, v), hx, rfl⟩)⟩
  unfold unionMX
  by_cases hgt : a.order > b.order
  · simp only [hgt, if_true]
    exact key a b ha hb (by omega)
  · simp only [hgt, if_false]
    obtain ⟨r, h1, h2, h3⟩ := key b a hb ha (by omega)
    exact ⟨r, h1, h2, by rw [h3, specUnion_comm]⟩

end GraafVerif.Ops
