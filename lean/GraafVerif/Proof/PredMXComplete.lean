import GraafVerif.Proof.PredMX
/-!
# C12 — the generator `AdjacencyMatrix::complete` (`empty` + `add_arc` of both arcs of every pair)
meets its specification; hence `AdjacencyMatrix::is_complete` decides completeness
-/
namespace GraafVerif.Pred
open GraafVerif.Query GraafVerif.Repr
namespace MX
open GraafVerif.Query.MX (hasArc_eq_cell hasArc_oob div_mod_cell)

/-! ## the generator `AdjacencyMatrix::complete` meets its specification -/

theorem mask_getLsbD (i k : Nat) (hk : k < 64) : (AdjMatrix.mask i).getLsbD k = decide (k = i % 64) := by
  unfold AdjMatrix.mask
  simp only [BitVec.getLsbD_shiftLeft, hk, decide_true, Bool.true_and, BitVec.getLsbD_one]
  by_cases h1 : k < i % 64
  · have : ¬ k = i % 64 := by omega
    simp [h1, this]
  · by_cases h2 : k = i % 64
    · simp [h2]
    · have : k - i % 64 ≠ 0 := by omega
      simp [h1, h2, this]

theorem cell_setBlock_or (d : AdjMatrix) (i c : Nat) (hi : i / 64 < d.blocks.length) :
    (d.setBlock i (· ||| AdjMatrix.mask i)).cell c = (d.cell c || decide (c = i)) := by
  unfold AdjMatrix.setBlock AdjMatrix.cell
  have hc64 : c % 64 < 64 := Nat.mod_lt _ (by decide)
  simp only
  by_cases hb : i / 64 = c / 64
  · rw [← hb, List.getElem?_set_self hi]
    simp only [Option.getD_some, BitVec.getLsbD_or, mask_getLsbD _ _ hc64]
    congr 1
    have : (c % 64 = i % 64) ↔ c = i := by omega
    simp [this]
  · rw [List.getElem?_set_ne hb]
    have : ¬ c = i := fun e => hb (by rw [e])
    simp [this]

/-- the model digraph `g` has order `n`, is well formed, and its arc relation on `0..n` is `P` -/
structure MInv (n : Nat) (g : AdjMatrix) (P : Nat → Nat → Bool) : Prop where
  wf : g.WF
  order : g.order = n
  arcs : ∀ a b, a < n → b < n → g.hasArc a b = P a b

theorem idx_inj {n u v a b : Nat} (hv : v < n) (hb : b < n) (h : a * n + b = u * n + v) : a = u ∧ b = v := by
  have h1 := div_mod_cell (u := a) hb
  have h2 := div_mod_cell (u := u) hv
  rw [h] at h1
  exact ⟨h1.1.symm.trans h2.1, h1.2.symm.trans h2.2⟩

theorem addArc_inv {n : Nat} {g : AdjMatrix} {P : Nat → Nat → Bool} (hg : MInv n g P) {u v : Nat}
    (huv : u ≠ v) (hu : u < n) (hv : v < n) :
    ∃ g', g.addArc u v = some g' ∧ MInv n g' (fun a b => P a b || (a == u && b == v)) := by
  have hord := hg.order
  have hwf := hg.wf
  have hidx : g.index u v < g.order * g.order := by
    unfold AdjMatrix.index
    rw [hord]
    calc u * n + v < u * n + n := by omega
      _ = (u + 1) * n := by rw [Nat.add_mul]; simp
      _ ≤ n * n := Nat.mul_le_mul_right n (by omega)
  have hblk : g.index u v / 64 < g.blocks.length := by
    have := Query.MX.blocks_cover hwf
    omega
  refine ⟨g.setBlock (g.index u v) (· ||| AdjMatrix.mask (g.index u v)), ?_, ?_⟩
  · unfold AdjMatrix.addArc
    simp [huv, hord, hu, hv]
  · have hcell := fun c => cell_setBlock_or g (g.index u v) c hblk
    have hord' : (g.setBlock (g.index u v) (· ||| AdjMatrix.mask (g.index u v))).order = g.order := rfl
    have hwf' : (g.setBlock (g.index u v) (· ||| AdjMatrix.mask (g.index u v))).WF := by
      refine ⟨hwf.1, ?_, ?_, ?_⟩
      · simp [AdjMatrix.setBlock, hwf.2.1]
      · intro c hc
        rw [hcell c, hwf.2.2.1 c hc]
        have : ¬ c = g.index u v := by rw [hord'] at hc; omega
        simp [this]
      · intro w hw
        rw [hord'] at hw
        show AdjMatrix.cell _ (w * g.order + w) = false
        rw [hcell]
        have h0 := hwf.2.2.2 w hw
        unfold AdjMatrix.index at h0
        rw [h0]
        have : ¬ w * g.order + w = g.index u v := by
          intro e
          unfold AdjMatrix.index at e
          have := idx_inj (hord ▸ hv) hw e
          exact huv (this.1.symm.trans this.2)
        simp [this]
    refine ⟨hwf', hord'.trans hord, ?_⟩
    intro a b ha hb
    rw [hasArc_eq_cell _ (by rw [hord', hord]; exact ha) (by rw [hord', hord]; exact hb), hord', hcell,
      ← hasArc_eq_cell g (by rw [hord]; exact ha) (by rw [hord]; exact hb), hg.arcs a b ha hb]
    congr 1
    unfold AdjMatrix.index
    rw [hord]
    by_cases hab : a = u ∧ b = v
    · simp [hab.1, hab.2]
    · have : ¬ a * n + b = u * n + v := fun e => hab (idx_inj hv hb e)
      rw [decide_eq_false this]
      by_cases h1 : a = u
      · have : ¬ b = v := fun e => hab ⟨h1, e⟩
        simp [this]
      · simp [h1]

theorem empty_inv {n : Nat} (hn : 0 < n) (hov : n * n < 2 ^ 64) :
    ∃ e, AdjMatrix.empty n = some e ∧ MInv n e (fun _ _ => false) := by
  have h0 : ¬ n = 0 := by omega
  have h1 : ¬ n * n ≥ 2 ^ 64 := by omega
  refine ⟨⟨List.replicate ((n * n + 63) / 64) 0#64, n⟩, by simp [AdjMatrix.empty, h0, h1], ?_⟩
  have hcell : ∀ c, (⟨List.replicate ((n * n + 63) / 64) 0#64, n⟩ : AdjMatrix).cell c = false := by
    intro c
    unfold AdjMatrix.cell
    simp only [List.getElem?_replicate]
    split <;> simp
  refine ⟨⟨hn, by simp, fun c _ => hcell c, fun u _ => hcell _⟩, rfl, ?_⟩
  intro a b ha hb
  rw [hasArc_eq_cell _ ha hb, hcell]

theorem MInv.congr {n : Nat} {g : AdjMatrix} {P Q : Nat → Nat → Bool} (h : MInv n g P) (hpq : ∀ a b, P a b = Q a b) :
    MInv n g Q := ⟨h.wf, h.order, fun a b ha hb => (h.arcs a b ha hb).trans (hpq a b)⟩

/-- arcs added by the inner loop of `complete` for row `u` over the heads `vs` -/
def innerP (u : Nat) (vs : List Nat) (a b : Nat) : Bool := (a == u && vs.contains b) || (b == u && vs.contains a)
def outerP (n : Nat) (us : List Nat) (a b : Nat) : Bool := us.any (fun u => innerP u (above u n) a b)

/-- the body of the inner loop: `add_arc(u, v); add_arc(v, u)` -/
def addBoth (u : Nat) (g : AdjMatrix) (v : Nat) : Option AdjMatrix := (g.addArc u v).bind (fun g => g.addArc v u)

theorem inner_fold {n : Nat} (u : Nat) (hu : u < n) : ∀ (vs : List Nat) (g : AdjMatrix) (P : Nat → Nat → Bool),
    MInv n g P → (∀ v ∈ vs, v < n ∧ v ≠ u) →
    ∃ g', vs.foldlM (addBoth u) g = some g' ∧ MInv n g' (fun a b => P a b || innerP u vs a b)
  | [], g, P, hg, _ => ⟨g, rfl, hg.congr (fun a b => by simp [innerP])⟩
  | v :: vs, g, P, hg, hvs => by
    have hv := hvs v (by simp)
    obtain ⟨g1, h1, hg1⟩ := addArc_inv hg (Ne.symm hv.2) hu hv.1
    obtain ⟨g2, h2, hg2⟩ := addArc_inv hg1 hv.2 hv.1 hu
    obtain ⟨g', h3, hg3⟩ := inner_fold u hu vs g2 _ hg2 (fun x hx => hvs x (by simp [hx]))
    refine ⟨g', ?_, hg3.congr ?_⟩
    · rw [List.foldlM_cons]
      show (addBoth u g v).bind _ = _
      unfold addBoth
      rw [h1]
      simp only [Option.bind_some, h2]
      exact h3
    · intro a b
      simp only [innerP, List.contains_cons]
      cases P a b <;> cases (a == u) <;> cases (b == u) <;> cases (a == v) <;> cases (b == v) <;>
        cases vs.contains a <;> cases vs.contains b <;> rfl

theorem outer_fold {n : Nat} : ∀ (us : List Nat) (g : AdjMatrix) (P : Nat → Nat → Bool),
    MInv n g P → (∀ u ∈ us, u < n) →
    ∃ g', us.foldlM (fun g u => (above u n).foldlM (addBoth u) g) g = some g' ∧
      MInv n g' (fun a b => P a b || outerP n us a b)
  | [], g, P, hg, _ => ⟨g, rfl, hg.congr (fun a b => by simp [outerP])⟩
  | u :: us, g, P, hg, hus => by
    have hu := hus u (by simp)
    obtain ⟨g1, h1, hg1⟩ := inner_fold u hu (above u n) g P hg (fun v hv => by
      have := mem_above.1 hv; omega)
    obtain ⟨g', h2, hg2⟩ := outer_fold us g1 _ hg1 (fun x hx => hus x (by simp [hx]))
    refine ⟨g', ?_, hg2.congr ?_⟩
    · rw [List.foldlM_cons]
      show ((above u n).foldlM (addBoth u) g).bind _ = _
      rw [h1]
      exact h2
    · intro a b
      simp only [outerP, List.any_cons, Bool.or_assoc]

theorem outerP_range {n a b : Nat} (ha : a < n) (hb : b < n) : outerP n (List.range n) a b = decide (a ≠ b) := by
  unfold outerP
  by_cases hab : a = b
  · subst hab
    simp only [ne_eq, not_true_eq_false, decide_false]
    rw [List.any_eq_false]
    intro u _
    simp only [innerP, Bool.or_self, Bool.and_eq_true, beq_iff_eq, List.contains_iff_mem, not_and]
    intro e
    subst e
    intro hm
    have := (mem_above.1 hm).1
    omega
  · simp only [ne_eq, hab, not_false_eq_true, decide_true]
    rw [List.any_eq_true]
    rcases Nat.lt_or_gt_of_ne hab with hlt | hlt
    · refine ⟨a, List.mem_range.2 ha, ?_⟩
      have : b ∈ above a n := mem_above.2 ⟨hlt, hb⟩
      simp [innerP, this]
    · refine ⟨b, List.mem_range.2 hb, ?_⟩
      have : a ∈ above b n := mem_above.2 ⟨hlt, ha⟩
      simp [innerP, this]

/-- `AdjacencyMatrix::complete(n)`: well formed, order `n`, arcs exactly the ordered pairs `u ≠ v`. -/
theorem complete_spec {n : Nat} (hn : 0 < n) (hov : n * n < 2 ^ 64) :
    ∃ c, complete n = some c ∧ c.WF ∧ c.order = n ∧
      ∀ u v, c.hasArc u v = (decide (u < n) && decide (v < n) && decide (u ≠ v)) := by
  have key : ∀ c, MInv n c (fun a b => decide (a ≠ b)) →
      ∀ u v, c.hasArc u v = (decide (u < n) && decide (v < n) && decide (u ≠ v)) := by
    intro c hc u v
    by_cases hb : u < n ∧ v < n
    · rw [hc.arcs u v hb.1 hb.2]; simp [hb.1, hb.2]
    · rw [hasArc_oob c (by rw [hc.order]; exact hb)]
      have : ¬ u < n ∨ ¬ v < n := by omega
      rcases this with h' | h' <;> simp [h']
  by_cases h1 : n = 1
  · subst h1
    obtain ⟨e, he, hinv⟩ := empty_inv (n := 1) (by decide) (by decide)
    have hinv' : MInv 1 e (fun a b => decide (a ≠ b)) := ⟨hinv.wf, hinv.order, fun a b ha hb => by
      rw [hinv.arcs a b ha hb]
      have : a = b := by omega
      simp [this]⟩
    exact ⟨e, by simp [complete, he], hinv.wf, hinv.order, key e hinv'⟩
  · obtain ⟨e, he, hinv⟩ := empty_inv hn hov
    obtain ⟨c, hc, hcinv⟩ := outer_fold (List.range n) e _ hinv (fun u hu => List.mem_range.1 hu)
    have hcinv' : MInv n c (fun a b => decide (a ≠ b)) := ⟨hcinv.wf, hcinv.order, fun a b ha hb => by
      rw [hcinv.arcs a b ha hb, outerP_range ha hb]; simp⟩
    refine ⟨c, ?_, hcinv.wf, hcinv.order, key c hcinv'⟩
    have e1 : (n == 1) = false := by simp [h1]
    unfold complete
    rw [e1]
    simp only [Bool.false_eq_true, if_false]
    show (AdjMatrix.empty n).bind _ = _
    rw [he]
    exact hc

/-- `AdjacencyMatrix::is_complete` decides completeness. -/
theorem isComplete_correct {d : AdjMatrix} (h : d.WF) (hov : d.order * d.order < 2 ^ 64) :
    ∃ b, isComplete d = some b ∧ (b = true ↔ Def.IsComplete (Query.MX.abs d)) := by
  obtain ⟨c, hcmp, hc, hco, hca⟩ := complete_spec h.1 hov
  obtain ⟨h1, h2⟩ := isComplete_of_complete_spec h hcmp hc hco hca
  exact ⟨_, h1, h2⟩

end MX
end GraafVerif.Pred
