import GraafVerif.Spec.Graph
import GraafVerif.Spec.Johnson
import GraafVerif.Spec.Tarjan
import GraafVerif.Proof.Cross
/-!
# Spec-level lemmas for the second family of cross-algorithm theorems (tag `Cross2`)

Nothing here mentions an algorithm model (only `Tarjan.VGraph`, the INPUT type of the Tarjan
model, and the declarative `IsSCCPartition`).  Contents:

* `Reach` is transitive; `StronglyConnected g` (every in-range vertex reaches every other);
* weighted reachability is reachability in the underlying digraph
  (`WReachFrom g [u] v ↔ Reach g.toGraph u v` — the direction `Cross.md` §5 left open);
* walks as vertex lists: joining / splitting `IsWalk` at a vertex, `Reach` ↔ a walk list;
* cyclic lists `IsCyc g c` (`c = h :: t` with `IsWalk g (h :: t ++ [h])`), shortening a cyclic
  list with a repeated vertex, rotation to the minimum: **a vertex that lies on a closed walk
  lies on a canonical elementary circuit** (`exists_canonical_through`), and conversely the
  vertices of a canonical elementary circuit are pairwise mutually reachable;
* combinatorics of an `IsSCCPartition`: blocks that share a vertex are equal, exactly one block
  iff strongly connected, a block with two members iff some circuit.
-/
namespace GraafVerif.Cross2
open GraafVerif GraafVerif.Cross GraafVerif.Johnson

/-! ## 1. Reachability -/

theorem reach_trans {g : Graph} {u v w : Nat} (h₁ : Reach g u v) (h₂ : Reach g v w) : Reach g u w := by
  induction h₂ with
  | refl => exact h₁
  | step _ a ih => exact Reach.step ih a

theorem reach_of_arc {g : Graph} {u v : Nat} (a : g.A u v) : Reach g u v := Reach.step (Reach.refl u) a

/-- Reachable vertices of a well-formed digraph are vertices (when the start is one). -/
theorem reach_lt {g : Graph} (hg : g.WF) {u v : Nat} (h : Reach g u v) (hu : u < g.n) : v < g.n := by
  induction h with
  | refl => exact hu
  | step _ a _ => exact (hg _ _ a).2

/-- Every vertex `< n` reaches every vertex `< n`. -/
def StronglyConnected (g : Graph) : Prop := ∀ u v, u < g.n → v < g.n → Reach g u v

/-- `Reach` only looks at the out-neighbour function. -/
theorem reach_congr {g g' : Graph} (h : g.out = g'.out) {u v : Nat} : Reach g u v ↔ Reach g' u v := by
  have key : ∀ {a b : Graph}, a.out = b.out → ∀ {u v}, Reach a u v → Reach b u v := by
    intro a b hab u v hr
    induction hr with
    | refl => exact Reach.refl _
    | step _ ha ih => exact Reach.step ih (by unfold Graph.A at *; rw [← hab]; exact ha)
  exact ⟨key h, key h.symm⟩

/-! ## 2. Weighted reachability = reachability in the underlying digraph -/

theorem toGraph_A {g : WGraph} {u v : Nat} : g.toGraph.A u v ↔ ∃ w, g.A u v w := by
  simp only [Graph.A, WGraph.toGraph, WGraph.A, List.mem_map]
  constructor
  · rintro ⟨⟨v', w⟩, hm, rfl⟩; exact ⟨w, hm⟩
  · rintro ⟨w, hm⟩; exact ⟨(v, w), hm, rfl⟩

theorem toGraph_wf {g : WGraph} (h : g.WF) : g.toGraph.WF := by
  intro u v hv
  obtain ⟨w, hw⟩ := toGraph_A.mp hv
  exact h u v w hw

theorem wwalk_reach {g : WGraph} {u v k : Nat} {wt : Int} (h : WWalk g u v k wt) :
    Reach g.toGraph u v := by
  induction h with
  | nil => exact Reach.refl _
  | snoc _ a ih => exact Reach.step ih (toGraph_A.mpr ⟨_, a⟩)

theorem reach_wwalk {g : WGraph} {u v : Nat} (h : Reach g.toGraph u v) : ∃ k wt, WWalk g u v k wt := by
  induction h with
  | refl => exact ⟨0, 0, WWalk.nil _⟩
  | step _ a ih =>
    obtain ⟨k, wt, hw⟩ := ih
    obtain ⟨w, ha⟩ := toGraph_A.mp a
    exact ⟨k + 1, wt + w, WWalk.snoc hw ha⟩

/-- Reachability by weighted walks from one source = `Reach` in the digraph without weights. -/
theorem wreachFrom_single_iff {g : WGraph} {u v : Nat} : WReachFrom g [u] v ↔ Reach g.toGraph u v := by
  constructor
  · rintro ⟨s, hs, k, wt, hw⟩
    cases List.mem_singleton.mp hs
    exact wwalk_reach hw
  · intro h
    obtain ⟨k, wt, hw⟩ := reach_wwalk h
    exact ⟨u, List.mem_singleton.mpr rfl, k, wt, hw⟩

theorem reachFrom_single_iff {g : Graph} {u v : Nat} : ReachFrom g [u] v ↔ Reach g u v := by
  constructor
  · rintro ⟨s, hs, hr⟩; cases List.mem_singleton.mp hs; exact hr
  · intro h; exact ⟨u, List.mem_singleton.mpr rfl, h⟩

/-! ## 3. Walks as vertex lists -/

theorem isWalk_tail {g : Graph} {x : Nat} {l : List Nat} (h : IsWalk g (x :: l)) : IsWalk g l := by
  cases l with
  | nil => trivial
  | cons y r => exact h.2

/-- Join two walks at a common vertex. -/
theorem isWalk_join {g : Graph} {x : Nat} {q : List Nat} :
    ∀ p : List Nat, IsWalk g (p ++ [x]) → IsWalk g (x :: q) → IsWalk g (p ++ x :: q)
  | [], _, h₂ => h₂
  | [_], h₁, h₂ => ⟨h₁.1, h₂⟩
  | _ :: b :: p, h₁, h₂ => ⟨h₁.1, isWalk_join (b :: p) h₁.2 h₂⟩

/-- Split a walk at a vertex. -/
theorem isWalk_split {g : Graph} {x : Nat} {q : List Nat} :
    ∀ p : List Nat, IsWalk g (p ++ x :: q) → IsWalk g (p ++ [x]) ∧ IsWalk g (x :: q)
  | [], h => ⟨trivial, h⟩
  | [_], h => ⟨⟨h.1, trivial⟩, h.2⟩
  | _ :: b :: p, h =>
    have ih := isWalk_split (b :: p) h.2
    ⟨⟨h.1, ih.1⟩, ih.2⟩

theorem isWalk_prefix {g : Graph} {p q : List Nat} (h : IsWalk g (p ++ q)) : IsWalk g p := by
  cases q with
  | nil => simpa using h
  | cons x q =>
    have := (isWalk_split p h).1
    cases p with
    | nil => trivial
    | cons a p =>
      -- drop the last vertex again
      have aux : ∀ (l : List Nat) (y : Nat), IsWalk g (l ++ [y]) → IsWalk g l := by
        intro l
        induction l with
        | nil => intro _ _; trivial
        | cons c l ih =>
          intro y hy
          cases l with
          | nil => trivial
          | cons d l => exact ⟨hy.1, ih y hy.2⟩
      exact aux _ _ this

/-- `l ++ [x]` is a walk iff `l` is one and its last vertex has an arc to `x`. -/
theorem isWalk_snoc_iff {g : Graph} {x : Nat} :
    ∀ (l : List Nat) (h : l ≠ []), IsWalk g (l ++ [x]) ↔ IsWalk g l ∧ g.A (l.getLast h) x
  | [a], _ => by simp [IsWalk]
  | a :: b :: l, _ => by
    have ih := isWalk_snoc_iff (g := g) (x := x) (b :: l) (List.cons_ne_nil _ _)
    show g.A a b ∧ IsWalk g ((b :: l) ++ [x]) ↔ (g.A a b ∧ IsWalk g (b :: l)) ∧ _
    rw [ih, List.getLast_cons (List.cons_ne_nil b l)]
    exact and_assoc.symm

/-- The first vertex of a walk reaches every later one. -/
theorem isWalk_reach {g : Graph} : ∀ (l : List Nat) (x : Nat), IsWalk g (x :: l) → ∀ y ∈ l, Reach g x y
  | [], _, _, _, hy => by cases hy
  | z :: l, x, h, y, hy => by
    rcases List.mem_cons.mp hy with rfl | hy'
    · exact reach_of_arc h.1
    · exact reach_trans (reach_of_arc h.1) (isWalk_reach l z h.2 y hy')

/-- `Reach` as a walk list. -/
theorem reach_walk {g : Graph} {u v : Nat} (h : Reach g u v) : u = v ∨ ∃ l, IsWalk g (u :: l ++ [v]) := by
  induction h with
  | refl => exact Or.inl rfl
  | @step v' w _ a ih =>
    right
    rcases ih with rfl | ⟨l, hl⟩
    · exact ⟨[], a, trivial⟩
    · refine ⟨l ++ [v'], ?_⟩
      have : IsWalk g ((u :: l) ++ v' :: [w]) := isWalk_join (u :: l) hl ⟨a, trivial⟩
      simpa using this

/-! ## 4. Cyclic lists -/

/-- `c = h :: t` read cyclically is a closed walk: consecutive vertices are arcs and the last
vertex has an arc back to `h`. -/
def IsCyc (g : Graph) (c : List Nat) : Prop := ∃ h t, c = h :: t ∧ IsWalk g (h :: t ++ [h])

theorem IsCyc.ne_nil {g : Graph} {c : List Nat} (h : IsCyc g c) : c ≠ [] := by
  obtain ⟨a, t, rfl, _⟩ := h; exact List.cons_ne_nil _ _

/-- Two distinct mutually reachable vertices lie on a closed walk. -/
theorem cyc_of_mutual {g : Graph} {u v : Nat} (huv : u ≠ v) (h₁ : Reach g u v) (h₂ : Reach g v u) :
    ∃ c, IsCyc g c ∧ u ∈ c ∧ v ∈ c := by
  rcases reach_walk h₁ with rfl | ⟨l₁, hl₁⟩
  · exact absurd rfl huv
  rcases reach_walk h₂ with rfl | ⟨l₂, hl₂⟩
  · exact absurd rfl huv
  refine ⟨u :: l₁ ++ v :: l₂, ⟨u, l₁ ++ v :: l₂, rfl, ?_⟩, by simp, by simp⟩
  have := isWalk_join (u :: l₁) hl₁ hl₂
  simpa using this

/-- A list with a repeated entry decomposes around the repetition. -/
theorem exists_dup_of_not_nodup : ∀ (l : List Nat), ¬ l.Nodup →
    ∃ a x b d, l = a ++ x :: b ++ x :: d
  | [], h => absurd List.nodup_nil h
  | y :: l, h => by
    by_cases hy : y ∈ l
    · obtain ⟨b, d, rfl⟩ := List.append_of_mem hy
      exact ⟨[], y, b, d, by simp⟩
    · have hl : ¬ l.Nodup := fun hn => h (List.nodup_cons.mpr ⟨hy, hn⟩)
      obtain ⟨a, x, b, d, rfl⟩ := exists_dup_of_not_nodup l hl
      exact ⟨y :: a, x, b, d, by simp⟩

/-- A cyclic list with a repeated vertex splits into two shorter cyclic lists that together
contain all its vertices. -/
theorem cyc_shorten {g : Graph} {a b d : List Nat} {x : Nat} (h : IsCyc g (a ++ x :: b ++ x :: d)) :
    IsCyc g (a ++ x :: d) ∧ IsCyc g (x :: b) := by
  obtain ⟨hd, t, he, hw⟩ := h
  cases a with
  | nil =>
    simp only [List.nil_append, List.cons_append, List.cons.injEq] at he
    obtain ⟨rfl, rfl⟩ := he
    -- walk: x :: b ++ x :: d ++ [x]
    have hw' : IsWalk g ((x :: b) ++ x :: (d ++ [x])) := by simpa using hw
    obtain ⟨h1, h2⟩ := isWalk_split (x :: b) hw'
    exact ⟨⟨x, d, rfl, h2⟩, ⟨x, b, rfl, h1⟩⟩
  | cons a0 a =>
    simp only [List.cons_append, List.cons.injEq] at he
    obtain ⟨rfl, rfl⟩ := he
    have hw' : IsWalk g ((a0 :: a) ++ x :: (b ++ x :: (d ++ [a0]))) := by simpa using hw
    obtain ⟨h1, h2⟩ := isWalk_split (a0 :: a) hw'
    have h2' : IsWalk g ((x :: b) ++ x :: (d ++ [a0])) := by simpa using h2
    obtain ⟨h3, h4⟩ := isWalk_split (x :: b) h2'
    refine ⟨⟨a0, a ++ x :: d, by simp, ?_⟩, ⟨x, b, rfl, h3⟩⟩
    have := isWalk_join (a0 :: a) h1 h4
    simpa using this

/-- Every vertex of a cyclic list lies on a duplicate-free cyclic list. -/
theorem cyc_nodup_through {g : Graph} (u : Nat) : ∀ (n : Nat) (c : List Nat), c.length ≤ n →
    IsCyc g c → u ∈ c → ∃ c', IsCyc g c' ∧ u ∈ c' ∧ c'.Nodup
  | 0, c, hlen, hc, _ => by
    have := hc.ne_nil
    cases c with
    | nil => exact absurd rfl this
    | cons _ _ => simp at hlen
  | n+1, c, hlen, hc, hu => by
    by_cases hnd : c.Nodup
    · exact ⟨c, hc, hu, hnd⟩
    · obtain ⟨a, x, b, d, rfl⟩ := exists_dup_of_not_nodup c hnd
      obtain ⟨h1, h2⟩ := cyc_shorten hc
      have hu' : u ∈ a ++ x :: d ∨ u ∈ x :: b := by
        simp only [List.mem_append, List.mem_cons] at hu ⊢
        grind
      have hl : (a ++ x :: b ++ x :: d).length = a.length + b.length + d.length + 2 := by
        simp only [List.length_append, List.length_cons]; omega
      rcases hu' with h | h
      · exact cyc_nodup_through u n _ (by simp only [List.length_append, List.length_cons]; omega) h1 h
      · exact cyc_nodup_through u n _ (by simp only [List.length_cons]; omega) h2 h

/-- A non-empty list has a least member. -/
theorem exists_min_mem : ∀ (l : List Nat), l ≠ [] → ∃ m ∈ l, ∀ x ∈ l, m ≤ x
  | [a], _ => ⟨a, by simp, by simp⟩
  | a :: b :: l, _ => by
    obtain ⟨m, hm, hle⟩ := exists_min_mem (b :: l) (List.cons_ne_nil _ _)
    by_cases h : a ≤ m
    · refine ⟨a, by simp, ?_⟩
      intro x hx
      rcases List.mem_cons.mp hx with rfl | hx'
      · exact Nat.le_refl _
      · exact Nat.le_trans h (hle x hx')
    · refine ⟨m, List.mem_cons_of_mem _ hm, ?_⟩
      intro x hx
      rcases List.mem_cons.mp hx with rfl | hx'
      · omega
      · exact hle x hx'

/-- Rotate a cyclic list to start at a given member. -/
theorem cyc_rotate {g : Graph} {a b : List Nat} {m : Nat} (h : IsCyc g (a ++ m :: b)) :
    IsCyc g (m :: b ++ a) := by
  obtain ⟨hd, t, he, hw⟩ := h
  cases a with
  | nil =>
    simp only [List.nil_append, List.cons.injEq] at he
    obtain ⟨rfl, rfl⟩ := he
    exact ⟨m, b, by simp, hw⟩
  | cons a0 a =>
    simp only [List.cons_append, List.cons.injEq] at he
    obtain ⟨rfl, rfl⟩ := he
    have hw' : IsWalk g ((a0 :: a) ++ m :: (b ++ [a0])) := by simpa using hw
    obtain ⟨h1, h2⟩ := isWalk_split (a0 :: a) hw'
    refine ⟨m, b ++ a0 :: a, by simp, ?_⟩
    have h2' : IsWalk g ((m :: b) ++ [a0]) := by simpa using h2
    have := isWalk_join (m :: b) h2' h1
    simpa using this

/-- **Closed walk ⇒ canonical elementary circuit through the same vertex** (loop-free digraphs). -/
theorem exists_canonical_through {g : Graph} (hloops : NoLoops g) {c : List Nat} {u : Nat}
    (hc : IsCyc g c) (hu : u ∈ c) : ∃ c', IsCanonicalElemCircuit g c' ∧ u ∈ c' := by
  obtain ⟨c₁, hc₁, hu₁, hnd⟩ := cyc_nodup_through u c.length c (Nat.le_refl _) hc hu
  obtain ⟨m, hm, hmin⟩ := exists_min_mem c₁ hc₁.ne_nil
  obtain ⟨a, b, rfl⟩ := List.append_of_mem hm
  have hrot := cyc_rotate hc₁
  obtain ⟨hd, t, he, hw⟩ := hrot
  simp only [List.cons_append, List.cons.injEq] at he
  obtain ⟨rfl, rfl⟩ := he
  have hperm : (m :: (b ++ a)).Perm (a ++ m :: b) := by
    have : (m :: b ++ a).Perm (a ++ m :: b) := List.perm_append_comm
    simpa using this
  have hnd' : (m :: (b ++ a)).Nodup := hperm.nodup_iff.mpr hnd
  have hne : b ++ a ≠ [] := by
    intro hnil
    rw [hnil] at hw
    exact hloops m hw.1
  have hsn := (isWalk_snoc_iff (g := g) (x := m) (m :: (b ++ a)) (List.cons_ne_nil _ _)).mp hw
  refine ⟨m :: (b ++ a), ⟨m, b ++ a, rfl, hne, hnd', hsn.1, hsn.2, ?_⟩, ?_⟩
  · intro x hx
    have hx' : x ∈ a ++ m :: b := hperm.subset (List.mem_cons_of_mem _ hx)
    have hle := hmin x hx'
    have hne' : m ≠ x := by
      rintro rfl
      exact (List.nodup_cons.mp hnd').1 hx
    omega
  · exact hperm.symm.subset hu₁

/-- The vertices of a canonical elementary circuit are pairwise mutually reachable. -/
theorem canonical_mutual {g : Graph} {c : List Nat} (hc : IsCanonicalElemCircuit g c) :
    ∀ x ∈ c, ∀ y ∈ c, Reach g x y := by
  obtain ⟨s, rest, rfl, _, _, hw, hlast, _⟩ := hc
  have hcyc : IsWalk g ((s :: rest) ++ [s]) :=
    (isWalk_snoc_iff (s :: rest) (List.cons_ne_nil _ _)).mpr ⟨hw, hlast⟩
  have from_s : ∀ y ∈ s :: rest, Reach g s y := by
    intro y hy
    rcases List.mem_cons.mp hy with rfl | hy'
    · exact Reach.refl _
    · exact isWalk_reach rest s hw y hy'
  have to_s : ∀ x ∈ s :: rest, Reach g x s := by
    intro x hx
    obtain ⟨p, q, hpq⟩ := List.append_of_mem hx
    rw [hpq] at hcyc
    have h2 : IsWalk g (p ++ x :: (q ++ [s])) := by simpa using hcyc
    exact isWalk_reach (q ++ [s]) x (isWalk_split p h2).2 s (by simp)
  intro x hx y hy
  exact reach_trans (to_s x hx) (from_s y hy)

/-- A canonical elementary circuit has two different vertices. -/
theorem canonical_two {g : Graph} {c : List Nat} (hc : IsCanonicalElemCircuit g c) :
    ∃ x ∈ c, ∃ y ∈ c, x ≠ y := by
  obtain ⟨s, rest, rfl, hne, _, _, _, hlt⟩ := hc
  cases rest with
  | nil => exact absurd rfl hne
  | cons r rest =>
    exact ⟨s, by simp, r, by simp, by have := hlt r (by simp); omega⟩

/-- Every vertex of a canonical elementary circuit of a well-formed digraph is `< n`. -/
theorem canonical_lt {g : Graph} (hg : g.WF) {c : List Nat} (hc : IsCanonicalElemCircuit g c) :
    ∀ x ∈ c, x < g.n := by
  intro x hx
  obtain ⟨y, hy, z, hz, hyz⟩ := canonical_two hc
  have hm := canonical_mutual hc
  -- `x` reaches a different vertex, so it has an out-arc
  have key : ∀ {a b : Nat}, a ≠ b → Reach g a b → b < g.n := by
    intro a b hab hr
    cases hr with
    | refl => exact absurd rfl hab
    | step _ ha => exact (hg _ _ ha).2
  by_cases hxy : x = y
  · subst hxy; exact key (Ne.symm hyz) (hm z hz x hx)
  · exact key (Ne.symm hxy) (hm y hy x hx)

/-- No closed walk: no arc `u → v` with `v` reaching `u` back. -/
def Acyclic (g : Graph) : Prop := ∀ u v, g.A u v → ¬ Reach g v u

/-- In a loop-free digraph: no elementary circuit iff no closed walk at all. -/
theorem no_circuit_iff_acyclic {g : Graph} (hloops : NoLoops g) :
    (∀ c, ¬ IsCanonicalElemCircuit g c) ↔ Acyclic g := by
  constructor
  · intro h u v a hr
    have huv : u ≠ v := by rintro rfl; exact hloops u a
    obtain ⟨c, hc, hu, _⟩ := cyc_of_mutual huv (reach_of_arc a) hr
    obtain ⟨c', hc', _⟩ := exists_canonical_through hloops hc hu
    exact h c' hc'
  · intro h c hc
    obtain ⟨s, rest, rfl, hne, _, hw, _, _⟩ := id hc
    cases rest with
    | nil => exact hne rfl
    | cons r rest =>
      exact h s r hw.1 (canonical_mutual hc r (by simp) s (by simp))

/-! ## 5. The vertex-id view of a `Graph` and the combinatorics of an SCC partition -/

open GraafVerif.Tarjan

/-- What `Tarjan::new(&g)` sees of a digraph with vertex set `0..n`: the ids `0..n` in
iteration order and the same out-neighbour function (the `vg` of `Compose`'s `ViewIs`). -/
def vgOf (g : Graph) : VGraph := ⟨List.range g.n, g.out⟩

theorem vgOf_closed {g : Graph} (hg : g.WF) : (vgOf g).Closed := by
  intro u _ v hv
  exact List.mem_range.mpr (hg u v hv).2

theorem vgOf_mem {g : Graph} {v : Nat} : v ∈ (vgOf g).verts ↔ v < g.n := List.mem_range

theorem vreach_vgOf {g : Graph} {u v : Nat} : VReach (vgOf g) u v ↔ Reach g u v :=
  reach_congr (g := (vgOf g).toGraph) (g' := g) rfl

theorem pairwise_mem {α : Type} {R : α → α → Prop} : ∀ {l : List α}, l.Pairwise R →
    ∀ {a b : α}, a ∈ l → b ∈ l → a = b ∨ R a b ∨ R b a
  | [], _, _, _, ha, _ => by cases ha
  | x :: l, h, a, b, ha, hb => by
    obtain ⟨hx, hl⟩ := List.pairwise_cons.mp h
    rcases List.mem_cons.mp ha with rfl | ha'
    · rcases List.mem_cons.mp hb with rfl | hb'
      · exact Or.inl rfl
      · exact Or.inr (Or.inl (hx b hb'))
    · rcases List.mem_cons.mp hb with rfl | hb'
      · exact Or.inr (Or.inr (hx a ha'))
      · exact pairwise_mem hl ha' hb'

/-- Blocks of a partition that share a vertex are the same block. -/
theorem block_eq {vg : VGraph} {cs : List (List Nat)} (hp : IsSCCPartition vg cs) {c d : List Nat}
    (hc : c ∈ cs) (hd : d ∈ cs) {x : Nat} (hxc : x ∈ c) (hxd : x ∈ d) : c = d := by
  rcases pairwise_mem hp.disjoint hc hd with h | h | h
  · exact h
  · exact absurd hxd (h x hxc)
  · exact absurd hxc (h x hxd)

/-- Same block ⇔ mutually reachable, for the vertex-id view of a `Graph`. -/
theorem same_block_iff {g : Graph} {cs : List (List Nat)} (hp : IsSCCPartition (vgOf g) cs)
    {u v : Nat} (hu : u < g.n) (hv : v < g.n) :
    (∃ c ∈ cs, u ∈ c ∧ v ∈ c) ↔ (Reach g u v ∧ Reach g v u) := by
  rw [hp.scc u (vgOf_mem.mpr hu) v (vgOf_mem.mpr hv), vreach_vgOf, vreach_vgOf]

theorem block_mem_lt {g : Graph} {cs : List (List Nat)} (hp : IsSCCPartition (vgOf g) cs)
    {c : List Nat} (hc : c ∈ cs) {x : Nat} (hx : x ∈ c) : x < g.n :=
  vgOf_mem.mp ((hp.cover x).mpr ⟨c, hc, hx⟩)

theorem exists_block {g : Graph} {cs : List (List Nat)} (hp : IsSCCPartition (vgOf g) cs)
    {v : Nat} (hv : v < g.n) : ∃ c ∈ cs, v ∈ c := (hp.cover v).mp (vgOf_mem.mpr hv)

/-- Exactly one block iff strongly connected (order ≥ 1). -/
theorem one_block_iff {g : Graph} (hn : 0 < g.n) {cs : List (List Nat)}
    (hp : IsSCCPartition (vgOf g) cs) : (∃ c, cs = [c]) ↔ StronglyConnected g := by
  constructor
  · rintro ⟨c, rfl⟩ u v hu hv
    obtain ⟨cu, hcu, hucu⟩ := exists_block hp hu
    obtain ⟨cv, hcv, hvcv⟩ := exists_block hp hv
    cases List.mem_singleton.mp hcu
    cases List.mem_singleton.mp hcv
    exact ((same_block_iff hp hu hv).mp ⟨c, List.mem_singleton.mpr rfl, hucu, hvcv⟩).1
  · intro hsc
    obtain ⟨c0, hc0, _⟩ := exists_block hp hn
    cases cs with
    | nil => cases hc0
    | cons c rest =>
      cases rest with
      | nil => exact ⟨c, rfl⟩
      | cons d rest =>
        exfalso
        have hc : c ∈ c :: d :: rest := by simp
        have hd : d ∈ c :: d :: rest := by simp
        obtain ⟨x, hx⟩ := List.exists_mem_of_ne_nil c (hp.nonempty c hc)
        obtain ⟨y, hy⟩ := List.exists_mem_of_ne_nil d (hp.nonempty d hd)
        have hxl := block_mem_lt hp hc hx
        have hyl := block_mem_lt hp hd hy
        obtain ⟨e, he, hxe, hye⟩ := (same_block_iff hp hxl hyl).mpr ⟨hsc x y hxl hyl, hsc y x hyl hxl⟩
        have h1 : c = e := block_eq hp hc he hx hxe
        have h2 : d = e := block_eq hp hd he hy hye
        have hdis := (List.pairwise_cons.mp hp.disjoint).1 d (by simp)
        exact hdis x hx (by rw [h2, ← h1]; exact hx)

theorem two_le_length_of_mem_ne {l : List Nat} {x y : Nat} (hx : x ∈ l) (hy : y ∈ l) (hxy : x ≠ y) :
    2 ≤ l.length := by
  match l, hx, hy with
  | [], hx, _ => cases hx
  | [a], hx, hy =>
    rw [List.mem_singleton] at hx hy
    exact absurd (hx.trans hy.symm) hxy
  | _ :: _ :: _, _, _ => simp

theorem exists_ne_of_two_le {l : List Nat} (hnd : l.Nodup) (hl : 2 ≤ l.length) (x : Nat) :
    ∃ y ∈ l, y ≠ x := by
  match l, hnd, hl with
  | [], _, hl => simp at hl
  | [_], _, hl => simp at hl
  | a :: b :: r, hnd, _ =>
    have hab : a ≠ b := by
      intro h
      exact (List.nodup_cons.mp hnd).1 (by rw [h]; simp)
    by_cases hxa : a = x
    · exact ⟨b, by simp, fun h => hab (hxa.trans h.symm)⟩
    · exact ⟨a, by simp, hxa⟩

/-- A vertex lies on a canonical elementary circuit iff its block has at least two members. -/
theorem on_circuit_iff_block_two {g : Graph} (hg : g.WF) (hloops : NoLoops g) {cs : List (List Nat)}
    (hp : IsSCCPartition (vgOf g) cs) {v : Nat} (hv : v < g.n) :
    (∃ c, IsCanonicalElemCircuit g c ∧ v ∈ c) ↔ ∃ comp ∈ cs, v ∈ comp ∧ 2 ≤ comp.length := by
  constructor
  · rintro ⟨c, hc, hvc⟩
    obtain ⟨x, hx, y, hy, hxy⟩ := canonical_two hc
    have hm := canonical_mutual hc
    have hlt := canonical_lt hg hc
    -- a vertex of `c` different from `v`
    obtain ⟨w, hw, hwv⟩ : ∃ w ∈ c, w ≠ v := by
      by_cases h : x = v
      · exact ⟨y, hy, fun h' => hxy (h.trans h'.symm)⟩
      · exact ⟨x, hx, h⟩
    obtain ⟨comp, hcomp, hvin, hwin⟩ :=
      (same_block_iff hp hv (hlt w hw)).mpr ⟨hm v hvc w hw, hm w hw v hvc⟩
    exact ⟨comp, hcomp, hvin, two_le_length_of_mem_ne hwin hvin hwv⟩
  · rintro ⟨comp, hcomp, hvin, hlen⟩
    obtain ⟨w, hw, hwv⟩ := exists_ne_of_two_le (hp.nodup comp hcomp) hlen v
    have hwl := block_mem_lt hp hcomp hw
    obtain ⟨h1, h2⟩ := (same_block_iff hp hv hwl).mp ⟨comp, hcomp, hvin, hw⟩
    obtain ⟨c, hc, hvc, _⟩ := cyc_of_mutual (Ne.symm hwv) h1 h2
    exact exists_canonical_through hloops hc hvc

/-- Every canonical elementary circuit lies inside ONE block. -/
theorem circuit_in_block {g : Graph} (hg : g.WF) {cs : List (List Nat)}
    (hp : IsSCCPartition (vgOf g) cs) {c : List Nat} (hc : IsCanonicalElemCircuit g c) :
    ∃ comp ∈ cs, ∀ x ∈ c, x ∈ comp := by
  have hm := canonical_mutual hc
  have hlt := canonical_lt hg hc
  obtain ⟨s, rest, rfl, _⟩ := id hc
  have hs : s ∈ s :: rest := by simp
  obtain ⟨comp, hcomp, hsin⟩ := exists_block hp (hlt s hs)
  refine ⟨comp, hcomp, fun x hx => ?_⟩
  obtain ⟨e, he, hse, hxe⟩ := (same_block_iff hp (hlt s hs) (hlt x hx)).mpr ⟨hm s hs x hx, hm x hx s hs⟩
  rw [block_eq hp hcomp he hsin hse]
  exact hxe

/-- No elementary circuit iff every block is a singleton. -/
theorem no_circuit_iff_singletons {g : Graph} (hg : g.WF) (hloops : NoLoops g) {cs : List (List Nat)}
    (hp : IsSCCPartition (vgOf g) cs) :
    (∀ c, ¬ IsCanonicalElemCircuit g c) ↔ ∀ comp ∈ cs, comp.length = 1 := by
  constructor
  · intro h comp hcomp
    obtain ⟨v, hv⟩ := List.exists_mem_of_ne_nil comp (hp.nonempty comp hcomp)
    have hpos : 1 ≤ comp.length := List.length_pos_of_mem hv
    by_cases h2 : 2 ≤ comp.length
    · obtain ⟨c, hc, _⟩ := (on_circuit_iff_block_two hg hloops hp (block_mem_lt hp hcomp hv)).mpr
        ⟨comp, hcomp, hv, h2⟩
      exact absurd hc (h c)
    · omega
  · intro h c hc
    obtain ⟨s, rest, rfl, _⟩ := id hc
    have hs : s ∈ s :: rest := by simp
    obtain ⟨comp, hcomp, _, h2⟩ := (on_circuit_iff_block_two hg hloops hp (canonical_lt hg hc s hs)).mp
      ⟨_, hc, hs⟩
    have := h comp hcomp
    omega

end GraafVerif.Cross2
