import GraafVerif.Model.AlgoGen2
import GraafVerif.Proof.AlgoGenRt
import GraafVerif.Model.Johnson
import GraafVerif.Proof.JohnsonTarjan
import GraafVerif.Proof.JohnsonTop
/-!
# Generated `Johnson75::{new, is_blocked, unblock, circuit, circuits}` (`Model/AlgoGen2.lean`) vs the
hand-written `Model/Johnson.lean`

Differences between the two sides, and how the theorems deal with them:
* **Fuel.**  The hand-written `unblock` / `circuit` return the state unchanged when the fuel is
  used up (no fault); the generated ones answer `div`.  The equalities therefore have the form
  `Agree r h`: the generated call `r` either is `div` or returns exactly the hand-written result
  `h` — for every generated fuel `F` and every hand-written fuel `≥ F` (so the hand-written
  top-level fuel `order + 1` is covered by every `F ≤ order + 1`).
* **`unblock`: literal loop vs snapshot.**  The generated loop re-reads `b[u]` and pops its first
  element in every round; the hand-written model folds over the snapshot of `b[u]` and clears it
  first.  `unblock_setB` (a nested `unblock` neither reads nor writes `b[u]` while `u` is not
  blocked, and never re-blocks) turns one into the other.
* **Unchecked accesses / asserts.**  `*b_ptr.add(i)` is `ub` out of range and `out_neighbors(v)`
  panics for a non-key, where the hand-written model reads `getD []` / has no assert.  The
  invariant `JInv n` (|b| = n, blocked vertices < n, B-lists strictly ascending with entries < n)
  and `CompOk` (the component's out-neighbours are keys < n) exclude both; `circuits` establishes
  them from the leading `assert!` and the closedness of the digraph.
-/
set_option linter.unusedSimpArgs false
namespace GraafVerif.AlgoGenThm
open GraafVerif GraafVerif.AlgoGen

namespace Johnson75
open GraafVerif.Johnson (JState AM unblock circuit circuitStep addToB insBlocked resetFor circuitsStep minByKey Asc)

/-- the fields of the struct (the `result` vector is a separate `&mut` parameter) -/
def ofH (st : JState) : AlgoGen.Johnson75 := ⟨st.B, st.blocked, st.stack⟩

/-- the generated call is `div` or returns exactly `h` -/
def Agree {α : Type} (r : Res α) (h : α) : Prop := r = .error .div ∨ r = .ok h

/-- `Johnson75::new` = the hand-written `JState.new`. -/
theorem new_eq (a : AM) : AlgoGen.Johnson75.new a = .ok (ofH (JState.new a)) := rfl

/-- `is_blocked` -/
theorem isBlocked_eq (st : JState) (u : Nat) : AlgoGen.Johnson75.isBlocked (ofH st) u = .ok (st.isBlocked u) := rfl

/-! ### hand-written side: what `unblock` touches -/

def setB (st : JState) (u : Nat) (l : List Nat) : JState := { st with B := st.B.set u l }

theorem unblock_succ (f : Nat) (st : JState) (u : Nat) :
    unblock (f + 1) st u =
      if st.isBlocked u then
        (st.Bof u).foldl (unblock f) { st with blocked := st.blocked.filter (· != u), B := st.B.set u [] }
      else st := rfl

theorem foldl_sub {P : JState → Prop} (f : JState → Nat → JState) (hf : ∀ st x, P st → P (f st x)) :
    ∀ (l : List Nat) (st : JState), P st → P (l.foldl f st) := by
  intro l
  induction l with
  | nil => intro st h; exact h
  | cons x l ih => intro st h; exact ih _ (hf st x h)

/-- blocked only shrinks, `b` keeps its length -/
theorem unblock_shrinks : ∀ (f : Nat) (st : JState) (u : Nat),
    (∀ x ∈ (unblock f st u).blocked, x ∈ st.blocked) ∧ (unblock f st u).B.length = st.B.length := by
  intro f
  induction f with
  | zero => intro st u; exact ⟨fun x h => h, rfl⟩
  | succ f ih =>
    intro st u
    rw [unblock_succ]
    split
    · have key : ∀ (l : List Nat) (s0 : JState),
          (∀ x ∈ (l.foldl (unblock f) s0).blocked, x ∈ s0.blocked) ∧ (l.foldl (unblock f) s0).B.length = s0.B.length := by
        intro l
        induction l with
        | nil => intro s0; exact ⟨fun x h => h, rfl⟩
        | cons y l ihl =>
          intro s0
          obtain ⟨h1, h2⟩ := ihl (unblock f s0 y)
          obtain ⟨h3, h4⟩ := ih s0 y
          exact ⟨fun x hx => h3 x (h1 x hx), by rw [List.foldl_cons, h2, h4]⟩
      obtain ⟨h1, h2⟩ := key (st.Bof u) { st with blocked := st.blocked.filter (· != u), B := st.B.set u [] }
      refine ⟨fun x hx => ?_, by rw [h2]; simp⟩
      have := h1 x hx
      exact (List.mem_filter.1 this).1
    · exact ⟨fun x h => h, rfl⟩

/-- `unblock` leaves `stack` and `result` alone -/
theorem unblock_frame : ∀ (f : Nat) (st : JState) (u : Nat),
    (unblock f st u).result = st.result ∧ (unblock f st u).stack = st.stack := by
  intro f
  induction f with
  | zero => intro st u; exact ⟨rfl, rfl⟩
  | succ f ih =>
    intro st u
    rw [unblock_succ]
    split
    · exact foldl_sub (P := fun s => s.result = st.result ∧ s.stack = st.stack) (unblock f)
        (fun s x hs => ⟨(ih s x).1.trans hs.1, (ih s x).2.trans hs.2⟩) _ _ ⟨rfl, rfl⟩
    · exact ⟨rfl, rfl⟩

/-- A nested `unblock` neither reads nor writes `b[u]` while `u` is not blocked. -/
theorem unblock_setB : ∀ (f : Nat) (st : JState) (x u : Nat) (l : List Nat), u ∉ st.blocked →
    unblock f (setB st u l) x = setB (unblock f st x) u l := by
  intro f
  induction f with
  | zero => intro st x u l _; rfl
  | succ f ih =>
    intro st x u l hu
    rw [unblock_succ, unblock_succ]
    have hb : (setB st u l).isBlocked x = st.isBlocked x := rfl
    rw [hb]
    by_cases hx : st.isBlocked x = true
    · simp only [hx, if_true]
      have hxu : x ≠ u := by
        intro e; subst e
        exact hu (by simpa [JState.isBlocked] using hx)
      have hBof : (setB st u l).Bof x = st.Bof x := by
        simp only [JState.Bof, setB]
        rw [List.getElem?_set_ne (Ne.symm hxu)]
      rw [hBof]
      have hst : ({ setB st u l with blocked := (setB st u l).blocked.filter (· != x), B := (setB st u l).B.set x [] } : JState) =
          setB { st with blocked := st.blocked.filter (· != x), B := st.B.set x [] } u l := by
        simp only [setB]
        congr 1
        exact List.set_comm _ _ (Ne.symm hxu)
      rw [hst]
      have key : ∀ (ys : List Nat) (s0 : JState), u ∉ s0.blocked →
          ys.foldl (unblock f) (setB s0 u l) = setB (ys.foldl (unblock f) s0) u l := by
        intro ys
        induction ys with
        | nil => intro s0 _; rfl
        | cons y ys ihy =>
          intro s0 h0
          simp only [List.foldl_cons]
          rw [ih s0 y u l h0]
          exact ihy _ (fun hm => h0 ((unblock_shrinks f s0 y).1 u hm))
      exact key _ _ (fun hm => hu (List.mem_filter.1 hm).1)
    · simp only [hx, if_false, Bool.false_eq_true]

/-! ### the invariant that excludes `ub` and bounds the `while` of `unblock` -/

structure JInv (n : Nat) (st : JState) : Prop where
  len : st.B.length = n
  blk : ∀ x ∈ st.blocked, x < n
  asc : ∀ l ∈ st.B, Asc l ∧ ∀ x ∈ l, x < n

theorem asc_len {n : Nat} {l : List Nat} (h1 : Asc l) (h2 : ∀ x ∈ l, x < n) : l.length ≤ n := by
  have hnd : l.Nodup := by
    unfold Asc at h1
    exact h1.imp (fun h => Nat.ne_of_lt h)
  have := List.Nodup.length_le_of_subset hnd (l₂ := List.range n) (fun x hx => List.mem_range.2 (h2 x hx))
  simpa using this

theorem setB_inv {n : Nat} {st : JState} (h : JInv n st) (u : Nat) (l : List Nat) (hl : Asc l ∧ ∀ x ∈ l, x < n) :
    JInv n (setB st u l) := by
  refine ⟨by simp [setB, h.len], h.blk, ?_⟩
  intro l' hl'
  rcases List.mem_or_eq_of_mem_set hl' with h1 | h1
  · exact h.asc l' h1
  · rw [h1]; exact hl

theorem asc_nil (n : Nat) : Asc ([] : List Nat) ∧ ∀ x ∈ ([] : List Nat), x < n :=
  ⟨List.Pairwise.nil, fun x hx => by cases hx⟩

theorem unblock_inv (n : Nat) : ∀ (f : Nat) (st : JState) (u : Nat), JInv n st → JInv n (unblock f st u) := by
  intro f
  induction f with
  | zero => intro st u h; exact h
  | succ f ih =>
    intro st u h
    rw [unblock_succ]
    split
    · refine foldl_sub (P := JInv n) (unblock f) (fun s x hs => ih s x hs) _ _ ?_
      have h0 := setB_inv h u [] (asc_nil n)
      exact ⟨h0.len, fun x hx => h.blk x (List.mem_filter.1 hx).1, h0.asc⟩
    · exact h

/-- the generated block is `div` or returns exactly `h` -/
def AgreeB {β ρ σ : Type} (r : Blk β ρ σ) (h : σ) : Prop := r = .error (.err .div) ∨ r = .ok h

theorem setB_setB (st : JState) (u : Nat) (l l' : List Nat) : setB (setB st u l) u l' = setB st u l' := by
  simp [setB, List.set_set]

/-- `while let Some(v) = b[u].pop_first() { self.unblock(v) }` on a state whose `b[u]` is the rest
`suffix` of the snapshot = the hand-written fold over `suffix` on the state whose `b[u]` is empty. -/
theorem unblock_while0_eq (n F' : Nat) (recf : AlgoGen.Johnson75 → Nat → Res (Unit × AlgoGen.Johnson75))
    (hrec : ∀ (st' : JState) (x : Nat), JInv n st' → Agree (recf (ofH st') x) ((), ofH (unblock F' st' x)))
    (u : Nat) (hu : u < n) : ∀ (suffix : List Nat) (h : JState) (k : Nat), suffix.length < k →
      JInv n (setB h u suffix) → u ∉ h.blocked → h = setB h u [] →
      AgreeB (whileLoop (AlgoGen.Johnson75.unblock_while0 recf u) k (ofH (setB h u suffix)) :
          Blk Empty (Unit × AlgoGen.Johnson75) _) (ofH (suffix.foldl (unblock F') h)) := by
  intro suffix
  induction suffix with
  | nil =>
    intro h k hk hinv _ hh
    cases k with
    | zero => simp at hk
    | succ k =>
      right
      rw [whileLoop_succ]
      have hlen : u < (setB h u []).B.length := by rw [hinv.len]; exact hu
      have hrd : (setB h u []).B[u]? = some [] := by
        simp only [setB]; rw [List.getElem?_set_self (by simpa [setB] using hlen)]
      unfold AlgoGen.Johnson75.unblock_while0
      simp only [ofH, rd_some _ _ _ _ hrd, ok_bind, popFront_nil, brk_def]
      rw [← hh]; rfl
  | cons x rest ih =>
    intro h k hk hinv hub hh
    cases k with
    | zero => simp at hk
    | succ k =>
      rw [whileLoop_succ]
      have hlen : u < (setB h u (x :: rest)).B.length := by rw [hinv.len]; exact hu
      have hrd : (setB h u (x :: rest)).B[u]? = some (x :: rest) := by
        simp only [setB]; rw [List.getElem?_set_self (by simpa [setB] using hlen)]
      have hasc := hinv.asc (x :: rest) (List.mem_of_getElem? hrd)
      have hrest : Asc rest ∧ ∀ y ∈ rest, y < n :=
        ⟨(List.pairwise_cons.1 hasc.1).2, fun y hy => hasc.2 y (List.mem_cons_of_mem _ hy)⟩
      have hinv' : JInv n (setB h u rest) := by
        have := setB_inv hinv u rest hrest
        rwa [setB_setB] at this
      have hstep : (AlgoGen.Johnson75.unblock_while0 recf u (ofH (setB h u (x :: rest))) :
          Blk _ (Unit × AlgoGen.Johnson75) _) =
          (call (recf (ofH (setB h u rest)) x) >>= fun t4 => pure t4.2) := by
        unfold AlgoGen.Johnson75.unblock_while0
        simp only [ofH, rd_some _ _ _ _ hrd, ok_bind, popFront_cons, wr_lt _ _ _ _ hlen]
        simp [setB, List.set_set]
      rw [hstep]
      rcases hrec (setB h u rest) x hinv' with hd | hok
      · left; rw [hd]; rfl
      · rw [hok, unblock_setB F' h x u rest hub]
        simp only [call_ok, ok_bind, pure_eq_ok, List.foldl_cons]
        have hinv2 : JInv n (setB (unblock F' h x) u rest) := by
          rw [← unblock_setB F' h x u rest hub]; exact unblock_inv n F' _ x hinv'
        refine ih (unblock F' h x) k (by simpa using hk) hinv2
          (fun hm => hub ((unblock_shrinks F' h x).1 u hm)) ?_
        conv => lhs; rw [hh]
        rw [unblock_setB F' h x u [] hub]

/-- `Johnson75::unblock` (literal loop) agrees with the hand-written `unblock` (snapshot fold), for
every generated fuel `F` and every hand-written fuel `F' ≥ F`, on every state satisfying `JInv`. -/
theorem unblock_eq (n : Nat) : ∀ (F F' : Nat) (st : JState) (u : Nat), F ≤ F' → JInv n st →
    Agree (AlgoGen.Johnson75.unblock F (ofH st) u) ((), ofH (unblock F' st u)) := by
  intro F
  induction F with
  | zero => intro F' st u _ _; left; rfl
  | succ F ih =>
    intro F' st u hF hinv
    cases F' with
    | zero => omega
    | succ F' =>
      rw [unblock_succ]
      unfold AlgoGen.Johnson75.unblock
      simp only [isBlocked_eq, call_ok, ok_bind]
      by_cases hb : st.isBlocked u = true
      · have hmem : u ∈ st.blocked := by simpa [JState.isBlocked] using hb
        have hu : u < n := hinv.blk u hmem
        have hlen : u < st.B.length := by rw [hinv.len]; exact hu
        simp only [hb, if_true]
        let st0 : JState := { st with blocked := st.blocked.filter (· != u), B := st.B.set u [] }
        have hBof : st.Bof u = st.B[u] := by simp [JState.Bof, List.getElem?_eq_getElem hlen]
        have hs1 : ({ ofH st with blocked := setRemove u (ofH st).blocked } : AlgoGen.Johnson75) =
            ofH (setB st0 u (st.Bof u)) := by
          simp only [ofH, setB, setRemove, st0, hBof, List.set_set, List.set_getElem_self]
        have hinv0 : JInv n (setB st0 u (st.Bof u)) := by
          refine ⟨by simp [setB, st0, hinv.len], fun x hx => hinv.blk x (List.mem_filter.1 hx).1, ?_⟩
          intro l hl
          simp only [setB, st0, hBof, List.set_set, List.set_getElem_self] at hl
          exact hinv.asc l hl
        have hw := unblock_while0_eq n F' (AlgoGen.Johnson75.unblock F)
          (fun st' x h' => ih F' st' x (by omega) h') u hu (st.Bof u) st0 (st.B.length + 1)
          (by
            have := hinv.asc st.B[u] (List.getElem_mem hlen)
            have := asc_len this.1 this.2
            rw [hBof, hinv.len]; omega)
          hinv0 (fun hm => by simpa using (List.mem_filter.1 hm).2) (by simp [setB, st0, List.set_set])
        rw [hs1]
        have hl2 : (ofH st).b.length = st.B.length := rfl
        rw [hl2]
        rcases hw with hd | hok
        · left; rw [hd]; rfl
        · right; rw [hok]; rfl
      · right
        simp [hb]

/-! ### `circuit` -/

/-- the component's out-neighbours are keys of the component below `n` -/
def CompOk (n : Nat) (comp : AM) : Prop := ∀ x ∈ comp.verts, ∀ w ∈ comp.out x, w ∈ comp.verts ∧ w < n

theorem circuit_succ (comp : AM) (s uf f : Nat) (st : JState) (v : Nat) :
    circuit comp s uf (f + 1) st v =
      let st1 : JState := { st with stack := st.stack ++ [v], blocked := insBlocked v st.blocked }
      let r := (comp.out v).foldl (circuitStep (circuit comp s uf f) s) (false, st1)
      let st2 : JState := if r.1 then unblock uf r.2 v else { r.2 with B := addToB v r.2.B (comp.out v) }
      (r.1, { st2 with stack := st2.stack.dropLast }) := rfl

theorem addToB_inv (n v : Nat) (hv : v < n) : ∀ (ws : List Nat) (st : JState), JInv n st →
    JInv n { st with B := addToB v st.B ws } := by
  intro ws
  induction ws with
  | nil => intro st h; exact h
  | cons w ws ih =>
    intro st h
    have h1 : JInv n { st with B := st.B.set w (insertAsc v ((st.B[w]?).getD [])) } := by
      refine setB_inv h w _ ⟨?_, ?_⟩
      · apply GraafVerif.Johnson.asc_insertAsc
        cases hw : st.B[w]? with
        | none => exact List.Pairwise.nil
        | some l => exact (h.asc l (List.mem_of_getElem? hw)).1
      · intro x hx
        rcases (GraafVerif.Johnson.mem_insertAsc' v _ x).1 hx with h2 | h2
        · rw [h2]; exact hv
        · cases hw : st.B[w]? with
          | none => rw [hw] at h2; cases h2
          | some l => rw [hw] at h2; exact (h.asc l (List.mem_of_getElem? hw)).2 x h2
    exact ih _ h1

theorem foldl_circuitStep_inv (n s : Nat) (rec : JState → Nat → Bool × JState) : ∀ (ws : List Nat)
    (_hrec : ∀ st w, w ∈ ws → JInv n st → JInv n (rec st w).2) (acc : Bool × JState), JInv n acc.2 →
    JInv n (ws.foldl (circuitStep rec s) acc).2 := by
  intro ws
  induction ws with
  | nil => intro _ acc h; exact h
  | cons w ws ih =>
    intro hrec acc h
    refine ih (fun st x hx => hrec st x (List.mem_cons_of_mem _ hx)) _ ?_
    unfold circuitStep
    split
    · exact ⟨h.len, h.blk, h.asc⟩
    · split
      · exact hrec _ _ List.mem_cons_self h
      · exact h

theorem insBlocked_mem (v : Nat) (bl : List Nat) : ∀ x ∈ insBlocked v bl, x = v ∨ x ∈ bl := by
  intro x hx
  unfold insBlocked at hx
  split at hx
  · exact Or.inr hx
  · simpa using hx

/-- the hand-written `circuit` preserves the invariant (for a vertex below `n`) -/
theorem circuit_inv (n : Nat) (comp : AM) (hc : CompOk n comp) (s uf : Nat) : ∀ (f : Nat) (st : JState) (v : Nat),
    v ∈ comp.verts → v < n → JInv n st → JInv n (circuit comp s uf f st v).2 := by
  intro f
  induction f with
  | zero => intro st v _ _ h; exact h
  | succ f ih =>
    intro st v hvm hv h
    rw [circuit_succ]
    have h1 : JInv n ({ st with stack := st.stack ++ [v], blocked := insBlocked v st.blocked } : JState) := by
      refine ⟨h.len, ?_, h.asc⟩
      intro x hx
      rcases insBlocked_mem v _ x hx with e | e
      · rw [e]; exact hv
      · exact h.blk x e
    dsimp only
    have h2 := foldl_circuitStep_inv n s (circuit comp s uf f) (comp.out v)
      (fun st' w hw hst => ih st' w (hc v hvm w hw).1 (hc v hvm w hw).2 hst) (false, _) h1
    generalize (comp.out v).foldl (circuitStep (circuit comp s uf f) s)
      (false, ({ st with stack := st.stack ++ [v], blocked := insBlocked v st.blocked } : JState)) = r at h2
    split
    · have := unblock_inv n uf r.2 v h2
      exact ⟨this.len, this.blk, this.asc⟩
    · have := addToB_inv n v hv (comp.out v) r.2 h2
      exact ⟨this.len, this.blk, this.asc⟩

/-- `for w in scc.out_neighbors(v) { b[w].insert(v) }` = the hand-written `addToB` (in range: no `ub`). -/
theorem circuit_for1_eq {β : Type} (n v : Nat) : ∀ (ws : List Nat) (st : JState), st.B.length = n → (∀ w ∈ ws, w < n) →
    (forLoop (AlgoGen.Johnson75.circuit_for1 v) ws (ofH st) :
        Blk β (Bool × AlgoGen.Johnson75 × List (List Nat)) _) = .ok (ofH { st with B := addToB v st.B ws }) := by
  intro ws
  induction ws with
  | nil => intro st _ _; rfl
  | cons w ws ih =>
    intro st hlen hws
    have hw : w < st.B.length := by rw [hlen]; exact hws w List.mem_cons_self
    have hget : st.B[w]? = some st.B[w] := List.getElem?_eq_getElem hw
    rw [forLoop_cons_ok (s' := ofH { st with B := st.B.set w (insertAsc v ((st.B[w]?).getD [])) }) (h := by
      unfold AlgoGen.Johnson75.circuit_for1
      simp [ofH, rd_some _ _ _ _ hget, wr_lt _ _ _ _ hw, hget, setInsertA])]
    exact ih _ (by simpa using hlen) (fun x hx => hws x (List.mem_cons_of_mem _ hx))

/-- what a hand-written `circuit` result looks like on the generated side -/
def outC (r : Bool × JState) : Bool × AlgoGen.Johnson75 × List (List Nat) := (r.1, ofH r.2, r.2.result)

/-- The first neighbour loop of `circuit` = the fold of the hand-written `circuitStep`. -/
theorem circuit_for0_eq (n s : Nat) (comp : AM)
    (recf : AlgoGen.Johnson75 → Nat → Nat → AM → List (List Nat) → Res (Bool × AlgoGen.Johnson75 × List (List Nat)))
    (rec : JState → Nat → Bool × JState) : ∀ (ws : List Nat)
    (_hrec : ∀ st' w, w ∈ ws → JInv n st' → Agree (recf (ofH st') w s comp st'.result) (outC (rec st' w)) ∧ JInv n (rec st' w).2)
    (acc : Bool × JState), JInv n acc.2 →
    AgreeB (forLoop (AlgoGen.Johnson75.circuit_for0 recf s comp) ws (ofH acc.2, acc.2.result, acc.1) :
        Blk Empty (Bool × AlgoGen.Johnson75 × List (List Nat)) _)
      (ofH (ws.foldl (circuitStep rec s) acc).2, (ws.foldl (circuitStep rec s) acc).2.result,
        (ws.foldl (circuitStep rec s) acc).1) := by
  intro ws
  induction ws with
  | nil => intro _ acc _; right; rfl
  | cons w ws ih =>
    intro hrec acc hinv
    have hrec' := fun st' x hx => hrec st' x (List.mem_cons_of_mem _ hx)
    rw [List.foldl_cons]
    by_cases hws : w = s
    · have hstep : circuitStep rec s acc w = (true, { acc.2 with result := acc.2.result ++ [acc.2.stack] }) := by
        unfold circuitStep; simp [hws]
      rw [forLoop_cons_ok (s' := (ofH (circuitStep rec s acc w).2, (circuitStep rec s acc w).2.result,
          (circuitStep rec s acc w).1)) (h := by
        rw [hstep]; unfold AlgoGen.Johnson75.circuit_for0; simp [hws, ofH])]
      exact ih hrec' _ (by rw [hstep]; exact ⟨hinv.len, hinv.blk, hinv.asc⟩)
    · by_cases hb : acc.2.isBlocked w = true
      · have hstep : circuitStep rec s acc w = acc := by unfold circuitStep; simp [hws, hb]
        rw [forLoop_cons_ok (s' := (ofH (circuitStep rec s acc w).2, (circuitStep rec s acc w).2.result,
            (circuitStep rec s acc w).1)) (h := by
          rw [hstep]; unfold AlgoGen.Johnson75.circuit_for0; simp [hws, isBlocked_eq, hb])]
        exact ih hrec' _ (by rw [hstep]; exact hinv)
      · have hb' : acc.2.isBlocked w = false := by simpa using hb
        have hstep : circuitStep rec s acc w = (acc.1 || (rec acc.2 w).1, (rec acc.2 w).2) := by
          unfold circuitStep; simp [hws, hb']
        obtain ⟨hag, hinv'⟩ := hrec acc.2 w List.mem_cons_self hinv
        rcases hag with hd | hok
        · left
          rw [forLoop_cons_err (e := .div) (h := by
            unfold AlgoGen.Johnson75.circuit_for0; simp [hws, isBlocked_eq, hb', hd])]
        · rw [forLoop_cons_ok (s' := (ofH (circuitStep rec s acc w).2, (circuitStep rec s acc w).2.result,
              (circuitStep rec s acc w).1)) (h := by
            rw [hstep]; unfold AlgoGen.Johnson75.circuit_for0
            simp only [hws, if_false, isBlocked_eq, call_ok, ok_bind, hb', if_true, hok, outC, pure_eq_ok]
            cases (rec acc.2 w).1 <;> cases acc.1 <;> simp)]
          exact ih hrec' _ (by rw [hstep]; exact hinv')

/-- `Johnson75::circuit` agrees with the hand-written `circuit`: for every generated fuel `F`, every
hand-written fuels `F' ≥ F` (recursion) and `uf ≥ F` (the `unblock` calls), every state satisfying
`JInv n`, every key `v < n` of a component whose out-neighbours are keys below `n`. -/
theorem circuit_eq (n : Nat) (comp : AM) (hc : CompOk n comp) (s : Nat) : ∀ (F F' uf : Nat) (st : JState) (v : Nat),
    F ≤ F' → F ≤ uf → JInv n st → v ∈ comp.verts → v < n →
    Agree (AlgoGen.Johnson75.circuit F (ofH st) v s comp st.result) (outC (circuit comp s uf F' st v)) := by
  intro F
  induction F with
  | zero => intro F' uf st v _ _ _ _ _; left; rfl
  | succ F ih =>
    intro F' uf st v hF huf hinv hvm hv
    cases F' with
    | zero => omega
    | succ F' =>
      rw [circuit_succ]
      dsimp only
      have h1 : JInv n ({ st with stack := st.stack ++ [v], blocked := insBlocked v st.blocked } : JState) := by
        refine ⟨hinv.len, ?_, hinv.asc⟩
        intro x hx
        rcases insBlocked_mem v _ x hx with e | e
        · rw [e]; exact hv
        · exact hinv.blk x e
      have hloop := circuit_for0_eq n s comp (AlgoGen.Johnson75.circuit F) (circuit comp s uf F') (comp.out v)
        (fun st' w hw hst' => ⟨ih F' uf st' w (by omega) (by omega) hst' (hc v hvm w hw).1 (hc v hvm w hw).2,
          circuit_inv n comp hc s uf F' st' w (hc v hvm w hw).1 (hc v hvm w hw).2 hst'⟩)
        (false, { st with stack := st.stack ++ [v], blocked := insBlocked v st.blocked }) h1
      have hinv2 := foldl_circuitStep_inv n s (circuit comp s uf F') (comp.out v)
        (fun st' w hw hst' => circuit_inv n comp hc s uf F' st' w (hc v hvm w hw).1 (hc v hvm w hw).2 hst')
        (false, { st with stack := st.stack ++ [v], blocked := insBlocked v st.blocked }) h1
      generalize (comp.out v).foldl (circuitStep (circuit comp s uf F') s)
        (false, ({ st with stack := st.stack ++ [v], blocked := insBlocked v st.blocked } : JState)) = r at hloop hinv2
      have hvc : comp.verts.contains v = true := by simpa using hvm
      unfold AlgoGen.Johnson75.circuit
      have hst1 : ({ ({ ofH st with stack := (ofH st).stack ++ [v] } : AlgoGen.Johnson75) with
            blocked := setInsertN v (ofH st).blocked } : AlgoGen.Johnson75) =
          ofH { st with stack := st.stack ++ [v], blocked := insBlocked v st.blocked } := rfl
      simp only [hvc, assert_true, ok_bind]
      rw [hst1]
      rcases hloop with hd | hok
      · left; rw [hd]; rfl
      · rw [hok]
        simp only [ok_bind]
        by_cases hr : r.1 = true
        · simp only [hr, if_true]
          rcases unblock_eq n F uf r.2 v (by omega) hinv2 with hd | hok2
          · left; rw [hd]; rfl
          · right; rw [hok2]; simp [outC, ofH, hr, (unblock_frame uf r.2 v).1]
        · have hr' : r.1 = false := by simpa using hr
          simp only [hr', Bool.false_eq_true, if_false, assert_true, ok_bind]
          rw [circuit_for1_eq n v (comp.out v) r.2 hinv2.len (fun w hw => (hc v hvm w hw).2)]
          right
          simp [outC, ofH, hr']

/-! ### `circuits` -/

theorem resetFor_inv (n : Nat) : ∀ (vs : List Nat) (st : JState), JInv n st → JInv n (resetFor vs st) := by
  intro vs st h
  unfold resetFor
  refine foldl_sub (P := JInv n) _ (fun s x hs => ?_) vs st h
  have h0 := setB_inv hs x [] (asc_nil n)
  exact ⟨h0.len, fun y hy => hs.blk y (List.mem_filter.1 hy).1, h0.asc⟩

/-- `for vertex in component.vertices() { blocked.remove(vertex); b[vertex].clear() }` = `resetFor`. -/
theorem circuits_for1_eq {β : Type} (n : Nat) : ∀ (vs : List Nat) (st : JState), st.B.length = n → (∀ x ∈ vs, x < n) →
    (forLoop AlgoGen.Johnson75.circuits_for1 vs (ofH st) :
        Blk β (List (List Nat) × AlgoGen.Johnson75) _) = .ok (ofH (resetFor vs st)) := by
  intro vs
  induction vs with
  | nil => intro st _ _; rfl
  | cons x vs ih =>
    intro st hlen hvs
    have hx : x < st.B.length := by rw [hlen]; exact hvs x List.mem_cons_self
    rw [forLoop_cons_ok (s' := ofH { st with blocked := st.blocked.filter (· != x), B := st.B.set x [] }) (h := by
      unfold AlgoGen.Johnson75.circuits_for1
      simp [ofH, setRemove, wr_lt _ _ _ _ hx])]
    exact ih _ (by simpa using hlen) (fun y hy => hvs y (List.mem_cons_of_mem _ hy))

/-- what `circuits` needs of the digraph: the `assert!` (vertices below the order) and closedness -/
structure AOk (a : AM) : Prop where
  lt : ∀ u ∈ a.verts, u < a.order
  closed : ∀ u ∈ a.verts, ∀ v ∈ a.out u, v ∈ a.verts

theorem filter_closed (a : AM) (h : AOk a) (p : Nat → Bool) :
    ∀ u ∈ (a.filter p).verts, ∀ v ∈ (a.filter p).out u, v ∈ (a.filter p).verts := by
  intro u hu v hv
  simp only [AM.filter, List.mem_filter] at hu hv ⊢
  rw [if_pos hu.2] at hv
  obtain ⟨hv1, hv2⟩ := List.mem_filter.1 hv
  exact ⟨h.closed u hu.1 v hv1, hv2⟩

theorem filter_compOk (a : AM) (h : AOk a) (p : Nat → Bool) : CompOk a.order (a.filter p) := by
  intro u hu v hv
  have hm := filter_closed a h p u hu v hv
  exact ⟨hm, h.lt v (List.mem_filter.1 hm).1⟩

/-- every member of a component the hand-written Tarjan emits is a vertex of its digraph -/
theorem tarjan_members (sub : AM) (hcl : ∀ u ∈ sub.verts, ∀ v ∈ sub.out u, v ∈ sub.verts) :
    ∀ c ∈ GraafVerif.Johnson.tarjan sub, ∀ x ∈ c, x ∈ sub.verts := by
  intro c hc x hx
  cases hv : sub.verts with
  | nil =>
    exfalso
    have : GraafVerif.Johnson.tarjan sub = [] := by
      unfold GraafVerif.Johnson.tarjan GraafVerif.Johnson.tarjanFuel
      rw [hv]; rfl
    rw [this] at hc; cases hc
  | cons s0 rest =>
    have := (GraafVerif.Johnson.tarjan_facts sub (fun u => u ∈ sub.verts) (fun u hu v hv' => hcl u hu v hv')
      (fun u hu => hu) s0 rest hv).1 c hc
    rw [← hv]
    exact this.2.2 x hx

/-- Body of `for s in self.a.vertices()` agrees with the hand-written `circuitsStep` and keeps the invariant. -/
theorem circuits_for0_eq (a : AM) (h : AOk a) (F : Nat) (hF : F ≤ a.order + 1) (st : JState) (hinv : JInv a.order st) (s : Nat) :
    AgreeB (AlgoGen.Johnson75.circuits_for0 a F (ofH st, st.result) s :
        Blk (AlgoGen.Johnson75 × List (List Nat)) (List (List Nat) × AlgoGen.Johnson75) _)
      (ofH (circuitsStep a st s), (circuitsStep a st s).result) ∧ JInv a.order (circuitsStep a st s) := by
  unfold AlgoGen.Johnson75.circuits_for0 circuitsStep
  simp only [minByKeyMin]
  have hge : (fun u_1 => decide (u_1 ≥ s)) = (fun u => decide (s ≤ u)) := rfl
  rw [hge]
  cases hm : minByKey (GraafVerif.Johnson.tarjan (a.filter fun u => decide (s ≤ u))) with
  | none => exact ⟨Or.inr rfl, hinv⟩
  | some minScc =>
    simp only
    by_cases ho : (a.filter fun u => minScc.contains u).order > 0
    · simp only [ho, if_true]
      have hmem := (GraafVerif.Johnson.minByKey_spec _ _ hm).1
      have hsub := tarjan_members _ (filter_closed a h _) minScc hmem
      obtain ⟨y, hy⟩ : ∃ y, y ∈ (a.filter fun u => minScc.contains u).verts := by
        cases hv : (a.filter fun u => minScc.contains u).verts with
        | nil => exfalso; unfold AM.order at ho; rw [hv] at ho; simp at ho
        | cons y l => exact ⟨y, List.mem_cons_self⟩
      have hyin : y ∈ minScc := by
        have := (List.mem_filter.1 hy).2
        simpa using this
      cases hh : minScc.head? with
      | none =>
        cases minScc with
        | nil => cases hyin
        | cons z l => cases hh
      | some start =>
        have hstart : start ∈ minScc := by
          cases minScc with
          | nil => cases hh
          | cons z l => simp at hh; rw [← hh]; exact List.mem_cons_self
        have hsv : start ∈ a.verts := (List.mem_filter.1 (hsub start hstart)).1
        have hsc : start ∈ (a.filter fun u => minScc.contains u).verts :=
          List.mem_filter.2 ⟨hsv, by simpa using hstart⟩
        have hres := circuits_for1_eq (β := AlgoGen.Johnson75 × List (List Nat)) a.order
          (a.filter fun u => minScc.contains u).verts st hinv.len
          (fun x hx => h.lt x (List.mem_filter.1 hx).1)
        have hinv1 := resetFor_inv a.order (a.filter fun u => minScc.contains u).verts st hinv
        have hresr : (resetFor (a.filter fun u => minScc.contains u).verts st).result = st.result := by
          unfold resetFor
          exact foldl_sub (P := fun s' => s'.result = st.result)
            (fun st x => ({ st with blocked := st.blocked.filter (· != x), B := st.B.set x [] } : JState))
            (fun s' x hs => hs) _ _ rfl
        have hc := circuit_eq a.order _ (filter_compOk a h _) start F (a.order + 1) (a.order + 1)
          (resetFor (a.filter fun u => minScc.contains u).verts st) start hF hF hinv1 hsc (h.lt start hsv)
        have hci := circuit_inv a.order _ (filter_compOk a h _) start (a.order + 1) (a.order + 1)
          (resetFor (a.filter fun u => minScc.contains u).verts st) start hsc (h.lt start hsv) hinv1
        refine ⟨?_, hci⟩
        simp only [unwrapO, ok_bind, hres]
        rw [hresr] at hc
        rcases hc with hd | hok
        · left; rw [hd]; rfl
        · right; rw [hok]; rfl
    · simp only [ho, if_false]
      exact ⟨Or.inr rfl, hinv⟩

/-- The outer loop agrees with the fold of the hand-written `circuitsStep`. -/
theorem circuits_loop_eq (a : AM) (h : AOk a) (F : Nat) (hF : F ≤ a.order + 1) : ∀ (vs : List Nat) (st : JState),
    JInv a.order st →
    AgreeB (forLoop (AlgoGen.Johnson75.circuits_for0 a F) vs (ofH st, st.result) :
        Blk Empty (List (List Nat) × AlgoGen.Johnson75) _)
      (ofH (vs.foldl (circuitsStep a) st), (vs.foldl (circuitsStep a) st).result) := by
  intro vs
  induction vs with
  | nil => intro st _; right; rfl
  | cons s vs ih =>
    intro st hinv
    obtain ⟨hag, hinv'⟩ := circuits_for0_eq a h F hF st hinv s
    rcases hag with hd | hok
    · left; rw [forLoop_cons_err (e := .div) (h := hd)]
    · rw [forLoop_cons_ok (h := hok)]
      exact ih _ hinv'

/-- `Johnson75::circuits` (one call on a value whose fields are those of `st`) agrees with the
hand-written `circuitsCall`, for every generated fuel `F ≤ order + 1`: the returned vector and the
value afterwards.  The leading `assert!` is the hypothesis `AOk.lt` (otherwise the call panics, as
`circuitsChecked` says). -/
theorem circuits_eq (a : AM) (h : AOk a) (F : Nat) (hF : F ≤ a.order + 1) (st : JState) (hinv : JInv a.order st) :
    Agree (AlgoGen.Johnson75.circuits a F (ofH st))
      ((GraafVerif.Johnson.circuitsCall a st).result, ofH (GraafVerif.Johnson.circuitsCall a st)) := by
  unfold AlgoGen.Johnson75.circuits GraafVerif.Johnson.circuitsCall
  have hall : List.all a.verts (fun u => decide (u < a.order)) = true := by
    simp only [List.all_eq_true, decide_eq_true_eq]; exact h.lt
  have hl := circuits_loop_eq a h F hF a.verts { st with result := [] } ⟨hinv.len, hinv.blk, hinv.asc⟩
  simp only [hall, assert_true, ok_bind]
  have e : (ofH st, ([] : List (List Nat))) = (ofH { st with result := [] }, ({ st with result := [] } : JState).result) := rfl
  rw [e]
  rcases hl with hd | hok
  · left; rw [hd]; rfl
  · right; rw [hok]; rfl

/-- the leading `assert!` fails: the call panics (`circuitsChecked = none`) -/
theorem circuits_panic (a : AM) (F : Nat) (s : AlgoGen.Johnson75)
    (h : a.verts.all (fun u => decide (u < a.order)) = false) :
    AlgoGen.Johnson75.circuits a F s = .error (.fault .panic) := by
  unfold AlgoGen.Johnson75.circuits
  simp [h]

theorem new_inv (a : AM) : JInv a.order (JState.new a) := by
  refine ⟨by simp [JState.new], ?_, ?_⟩
  · intro x hx; simp [JState.new] at hx
  · intro l hl
    simp only [JState.new] at hl
    rw [List.eq_of_mem_replicate hl]
    exact asc_nil _

end Johnson75

end GraafVerif.AlgoGenThm
