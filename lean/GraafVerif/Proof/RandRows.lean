import GraafVerif.Proof.RandBasic
/-! `rowInsert` (insert into one of the rows): membership, commutation. -/
namespace GraafVerif.Rand
open GraafVerif.Repr

@[simp] theorem rowInsert_length (rows : List (List Nat)) (a : Nat × Nat) : (rowInsert rows a).length = rows.length := by
  simp [rowInsert]

theorem foldl_rowInsert_length (arcs : List (Nat × Nat)) (rows : List (List Nat)) :
    (arcs.foldl rowInsert rows).length = rows.length := by
  induction arcs generalizing rows with
  | nil => rfl
  | cons a as ih => simp [ih]

theorem rowInsert_comm (rows : List (List Nat)) (a b : Nat × Nat) :
    rowInsert (rowInsert rows a) b = rowInsert (rowInsert rows b) a := by
  unfold rowInsert
  by_cases h : a.1 = b.1
  · rw [h]
    by_cases hb : b.1 < rows.length
    · simp [hb, sinsert_comm]
    · have : rows.length ≤ b.1 := by omega
      simp [List.set_eq_of_length_le, this]
  · have h' : b.1 ≠ a.1 := fun e => h e.symm
    simp [List.getElem?_set_ne, h, h']
    exact List.set_comm _ _ h

theorem mem_rowInsert (rows : List (List Nat)) (a : Nat × Nat) (u v : Nat) :
    v ∈ (rowInsert rows a)[u]?.getD [] ↔ v ∈ rows[u]?.getD [] ∨ (a = (u, v) ∧ u < rows.length) := by
  unfold rowInsert
  by_cases h : a.1 = u
  · subst h
    by_cases hb : a.1 < rows.length
    · simp [hb, mem_sinsert]
      constructor
      · rintro (h | h)
        · right; exact Prod.ext rfl h.symm
        · left; exact h
      · rintro (h | h)
        · right; exact h
        · left; rw [h]
    · have : rows.length ≤ a.1 := by omega
      simp [List.set_eq_of_length_le, this, hb]
  · have : ¬ a = (u, v) := fun e => h (by rw [e])
    simp [List.getElem?_set_ne, h, this]

theorem mem_foldl_rowInsert (arcs : List (Nat × Nat)) (rows : List (List Nat)) (u v : Nat) :
    v ∈ (arcs.foldl rowInsert rows)[u]?.getD [] ↔ v ∈ rows[u]?.getD [] ∨ ((u, v) ∈ arcs ∧ u < rows.length) := by
  induction arcs generalizing rows with
  | nil => simp
  | cons a as ih =>
    simp only [List.foldl_cons, ih, mem_rowInsert, rowInsert_length, List.mem_cons]
    grind

end GraafVerif.Rand
