import GraafVerif.Model.Query
import GraafVerif.Spec.Query
/-!
# C02 — generic lemmas: walks, ascending enumerations, max/min, derived queries
-/
namespace GraafVerif.Query

theorem walkLoop_eq_chain (G : Digraph) (has : Nat → Nat → Bool) (h : ∀ u v, has u v = G.adj u v) :
    ∀ w, walkLoop has w = Spec.chain G w
  | [] => rfl
  | [_] => rfl
  | u :: v :: rest => by
    have ih := walkLoop_eq_chain G has h (v :: rest)
    simp only [walkLoop, Spec.chain, h, ih]
    cases G.adj u v <;> simp

theorem hasWalkPtr_eq (G : Digraph) (has : Nat → Nat → Bool) (h : ∀ u v, has u v = G.adj u v) (w : List Nat) :
    hasWalkPtr has w = Spec.hasWalk G w := by
  unfold hasWalkPtr Spec.hasWalk
  rw [walkLoop_eq_chain G has h]
  by_cases hl : w.length ≤ 1
  · have : ¬ 2 ≤ w.length := by omega
    simp [hl, this]
  · have : 2 ≤ w.length := by omega
    simp [hl, this]

theorem zipAll_eq_chain (G : Digraph) (has : Nat → Nat → Bool) (h : ∀ u v, has u v = G.adj u v) :
    ∀ w, (w.zip (w.drop 1)).all (fun p => has p.1 p.2) = Spec.chain G w
  | [] => rfl
  | [_] => by simp [Spec.chain]
  | u :: v :: rest => by
    have ih := zipAll_eq_chain G has h (v :: rest)
    simp only [List.drop_succ_cons, List.drop_zero] at ih ⊢
    simp only [List.zip_cons_cons, List.all_cons, Spec.chain]
    rw [← ih, h]

theorem hasWalkZip_eq (G : Digraph) (has : Nat → Nat → Bool) (h : ∀ u v, has u v = G.adj u v) (w : List Nat) :
    hasWalkZip has w = Spec.hasWalk G w := by
  unfold hasWalkZip Spec.hasWalk
  rw [zipAll_eq_chain G has h]
  by_cases hl : w.length > 1
  · have : 2 ≤ w.length := by omega
    simp [hl, this]
  · have : ¬ 2 ≤ w.length := by omega
    simp [hl, this]

theorem chain_iff (G : Digraph) : ∀ w : List Nat,
    Spec.chain G w = true ↔ ∀ i, (h : i + 1 < w.length) → G.adj (w[i]'(by omega)) (w[i+1]'h) = true
  | [] => by simp [Spec.chain]
  | [_] => by simp [Spec.chain]
  | u :: v :: rest => by
    have ih := chain_iff G (v :: rest)
    simp only [Spec.chain, Bool.and_eq_true, ih]
    constructor
    · rintro ⟨h0, hr⟩ i hi
      cases i with
      | zero => simpa using h0
      | succ i => 
        have := hr i (by simp at hi ⊢; omega)
        simpa using this
    · intro h
      refine ⟨by simpa using h 0 (by simp), fun i hi => ?_⟩
      have := h (i+1) (by simp at hi ⊢; omega)
      simpa using this

theorem hasWalk_iff (G : Digraph) (w : List Nat) : Spec.hasWalk G w = true ↔ IsWalkSeq G w := by
  unfold Spec.hasWalk IsWalkSeq
  simp only [Bool.and_eq_true, decide_eq_true_eq, chain_iff]

/-! ## strictly ascending lists are determined by their members -/
theorem sorted_ext : ∀ {l₁ l₂ : List Nat}, l₁.Pairwise (· < ·) → l₂.Pairwise (· < ·) →
    (∀ x, x ∈ l₁ ↔ x ∈ l₂) → l₁ = l₂
  | [], [], _, _, _ => rfl
  | [], b :: _, _, _, h => by have := (h b).2 (by simp); simp at this
  | a :: _, [], _, _, h => by have := (h a).1 (by simp); simp at this
  | a :: l₁, b :: l₂, h₁, h₂, h => by
    rw [List.pairwise_cons] at h₁ h₂
    have hab : a = b := by
      have ha := (h a).1 (by simp)
      have hb := (h b).2 (by simp)
      simp only [List.mem_cons] at ha hb
      rcases ha with rfl | ha
      · rfl
      · rcases hb with rfl | hb
        · rfl
        · have := h₂.1 a ha
          have := h₁.1 b hb
          omega
    subst hab
    congr 1
    apply sorted_ext h₁.2 h₂.2
    intro x
    have hx := h x
    simp only [List.mem_cons] at hx
    constructor
    · intro hm
      have := h₁.1 x hm
      rcases hx.1 (Or.inr hm) with rfl | h'
      · omega
      · exact h'
    · intro hm
      have := h₂.1 x hm
      rcases hx.2 (Or.inr hm) with rfl | h'
      · omega
      · exact h'

theorem isAscEnum_filter {l : List Nat} (hl : l.Pairwise (· < ·)) (p : Nat → Bool) :
    IsAscEnum (l.filter p) (fun x => x ∈ l ∧ p x = true) :=
  ⟨hl.filter p, fun x => by simp [List.mem_filter]⟩

theorem IsAscEnum.unique {l₁ l₂ : List Nat} {P : Nat → Prop} (h₁ : IsAscEnum l₁ P) (h₂ : IsAscEnum l₂ P) : l₁ = l₂ :=
  sorted_ext h₁.1 h₂.1 (fun x => by rw [h₁.2, h₂.2])

/-! ## max / min -/
theorem maxOr0_eq (l : List Nat) : maxOr0 l = Spec.maxL l := by cases l <;> rfl
theorem minOr0_eq (l : List Nat) : minOr0 l = Spec.minL l := by cases l <;> rfl

theorem foldl_max_spec (l : List Nat) (a : Nat) :
    (l.foldl max a = a ∨ l.foldl max a ∈ l) ∧ a ≤ l.foldl max a ∧ ∀ x ∈ l, x ≤ l.foldl max a := by
  induction l generalizing a with
  | nil => simp
  | cons b l ih =>
    simp only [List.foldl_cons, List.mem_cons]
    obtain ⟨h1, h2, h3⟩ := ih (max a b)
    refine ⟨?_, by omega, ?_⟩
    · rcases h1 with h | h
      · rw [h]; rcases Nat.le_total a b with hab | hab
        · right; left; exact Nat.max_eq_right hab
        · left; exact Nat.max_eq_left hab
      · right; right; exact h
    · intro x hx
      rcases hx with rfl | hx
      · omega
      · exact h3 x hx

theorem foldl_min_spec (l : List Nat) (a : Nat) :
    (l.foldl min a = a ∨ l.foldl min a ∈ l) ∧ l.foldl min a ≤ a ∧ ∀ x ∈ l, l.foldl min a ≤ x := by
  induction l generalizing a with
  | nil => simp
  | cons b l ih =>
    simp only [List.foldl_cons, List.mem_cons]
    obtain ⟨h1, h2, h3⟩ := ih (min a b)
    refine ⟨?_, by omega, ?_⟩
    · rcases h1 with h | h
      · rw [h]; rcases Nat.le_total a b with hab | hab
        · left; exact Nat.min_eq_left hab
        · right; left; exact Nat.min_eq_right hab
      · right; right; exact h
    · intro x hx
      rcases hx with rfl | hx
      · omega
      · exact h3 x hx

theorem isMaxOf_maxL (l : List Nat) : IsMaxOf (Spec.maxL l) l := by
  cases l with
  | nil => left; exact ⟨rfl, rfl⟩
  | cons a l =>
    right
    obtain ⟨h1, h2, h3⟩ := foldl_max_spec l a
    simp only [Spec.maxL, List.mem_cons]
    refine ⟨?_, ?_⟩
    · rcases h1 with h | h
      · left; exact h
      · right; exact h
    · intro x hx
      rcases hx with rfl | hx
      · exact h2
      · exact h3 x hx

theorem isMinOf_minL (l : List Nat) : IsMinOf (Spec.minL l) l := by
  cases l with
  | nil => left; exact ⟨rfl, rfl⟩
  | cons a l =>
    right
    obtain ⟨h1, h2, h3⟩ := foldl_min_spec l a
    simp only [Spec.minL, List.mem_cons]
    refine ⟨?_, ?_⟩
    · rcases h1 with h | h
      · left; exact h
      · right; exact h
    · intro x hx
      rcases hx with rfl | hx
      · exact h2
      · exact h3 x hx

/-! ## Option-valued combinators on total inputs -/
theorem mapO_eq_some {α β : Type} (f : α → Option β) (g : α → β) :
    ∀ l : List α, (∀ a ∈ l, f a = some (g a)) → mapO f l = some (l.map g)
  | [], _ => rfl
  | a :: as, h => by
    have ha := h a (by simp)
    have ih := mapO_eq_some f g as (fun x hx => h x (by simp [hx]))
    simp [mapO, ha, ih]

theorem filterO_eq_some {α : Type} (f : α → Option Bool) (g : α → Bool) :
    ∀ l : List α, (∀ a ∈ l, f a = some (g a)) → filterO f l = some (l.filter g)
  | [], _ => rfl
  | a :: as, h => by
    have ha := h a (by simp)
    have ih := filterO_eq_some f g as (fun x hx => h x (by simp [hx]))
    simp only [filterO, ha, ih, List.filter_cons]

/-- `(l.filter p).length == 0` is `all (!p)`. -/
theorem filter_length_eq_zero {α : Type} (p : α → Bool) (l : List α) :
    ((l.filter p).length == 0) = l.all (fun x => !p x) := by
  induction l with
  | nil => rfl
  | cons a l ih =>
    simp only [List.filter_cons, List.all_cons]
    cases p a <;> simp [ih]

/-! ## generic facts about `Spec.arcs` -/

theorem filterMap_eq_singleton {l : List Nat} (hl : l.Nodup) (v u : Nat) :
    l.filterMap (fun y => if v == y then some u else none) = if v ∈ l then [u] else [] := by
  induction l with
  | nil => rfl
  | cons a l ih =>
    rw [List.nodup_cons] at hl
    simp only [List.mem_cons]
    by_cases hva : v = a
    · subst hva
      have : l.filterMap (fun y => if v == y then some u else none) = [] := by
        rw [ih hl.2]; simp [hl.1]
      rw [List.filterMap_cons] 
      simp only [beq_self_eq_true, if_true, this, true_or]
    · have h1 : (v == a) = false := by simp [hva]
      rw [List.filterMap_cons]
      simp only [h1, ih hl.2, hva, false_or]
      rfl

theorem flatMap_ite_singleton (l : List Nat) (p : Nat → Bool) :
    l.flatMap (fun u => if p u then [u] else []) = l.filter p := by
  induction l with
  | nil => rfl
  | cons a l ih =>
    simp only [List.flatMap_cons, ih, List.filter_cons]
    cases p a <;> simp

theorem nodup_of_sorted {l : List Nat} (h : l.Pairwise (· < ·)) : l.Nodup :=
  h.imp (fun hab => Nat.ne_of_lt hab)

theorem arcs_filterMap_col {G : Digraph} (hG : G.Valid) (v : Nat) :
    (Spec.arcs G).filterMap (fun a => if v == a.2 then some a.1 else none) = Spec.inNeighbors G v := by
  simp only [Spec.arcs, List.filterMap_flatMap, List.filterMap_map, Function.comp_def, Spec.outNeighbors, Spec.inNeighbors]
  rw [← flatMap_ite_singleton]
  congr 1
  funext u
  rw [filterMap_eq_singleton (nodup_of_sorted (hG.sorted.filter _))]
  simp only [List.mem_filter]
  by_cases h : G.adj u v = true
  · simp [h, (hG.closed u v h).2]
  · simp [h]

theorem mem_arcs {G : Digraph} (hG : G.Valid) (u v : Nat) : (u, v) ∈ Spec.arcs G ↔ G.adj u v = true := by
  simp only [Spec.arcs, Spec.outNeighbors, List.mem_flatMap, List.mem_map, List.mem_filter, Prod.mk.injEq]
  constructor
  · rintro ⟨a, _, b, ⟨_, hb⟩, rfl, rfl⟩; exact hb
  · intro h
    exact ⟨u, (hG.closed u v h).1, v, ⟨(hG.closed u v h).2, h⟩, rfl, rfl⟩

/-! ## what the `Spec` values mean, and totality outside `V` -/
theorem outNeighbors_isAscEnum {G : Digraph} (hG : G.Valid) (u : Nat) :
    IsAscEnum (Spec.outNeighbors G u) (fun v => G.adj u v = true) := by
  refine ⟨hG.sorted.filter _, fun x => ?_⟩
  simp only [Spec.outNeighbors, List.mem_filter]
  exact ⟨fun h => h.2, fun h => ⟨(hG.closed u x h).2, h⟩⟩

theorem inNeighbors_isAscEnum {G : Digraph} (hG : G.Valid) (v : Nat) :
    IsAscEnum (Spec.inNeighbors G v) (fun u => G.adj u v = true) := by
  refine ⟨hG.sorted.filter _, fun x => ?_⟩
  simp only [Spec.inNeighbors, List.mem_filter]
  exact ⟨fun h => h.2, fun h => ⟨(hG.closed x v h).1, h⟩⟩

theorem outNeighborsWeighted_mem {G : Digraph} (hG : G.Valid) (u v : Nat) (w : Int) :
    (v, w) ∈ Spec.outNeighborsWeighted G u ↔ G.wt u v = some w := by
  simp only [Spec.outNeighborsWeighted, List.mem_filterMap, Option.map_eq_some_iff, Prod.mk.injEq]
  constructor
  · rintro ⟨a, _, b, hb, rfl, rfl⟩; exact hb
  · intro h
    have : G.adj u v = true := by rw [← hG.wt_iff, h]; rfl
    exact ⟨v, (hG.closed u v this).2, w, h, rfl, rfl⟩

theorem hasArc_outside {G : Digraph} (hG : G.Valid) {u v : Nat} (h : u ∉ G.verts ∨ v ∉ G.verts) :
    Spec.hasArc G u v = false := by
  cases hc : Spec.hasArc G u v
  · rfl
  · have := hG.closed u v hc
    rcases h with h | h
    · exact absurd this.1 h
    · exact absurd this.2 h

theorem hasEdge_outside {G : Digraph} (hG : G.Valid) {u v : Nat} (h : u ∉ G.verts ∨ v ∉ G.verts) :
    Spec.hasEdge G u v = false := by
  have := hasArc_outside hG h
  simp only [Spec.hasArc] at this
  simp [Spec.hasEdge, this]

theorem arcWeight_outside {G : Digraph} (hG : G.Valid) {u v : Nat} (h : u ∉ G.verts ∨ v ∉ G.verts) :
    Spec.arcWeight G u v = none := by
  have h1 := hasArc_outside hG h
  have h2 := hG.wt_iff u v
  simp only [Spec.hasArc] at h1
  rw [h1] at h2
  simpa [Spec.arcWeight] using h2

theorem hasWalk_outside {G : Digraph} (hG : G.Valid) {w : List Nat} {x : Nat} (hx : x ∈ w) (hxV : x ∉ G.verts) :
    Spec.hasWalk G w = false := by
  cases hc : Spec.hasWalk G w
  · rfl
  · obtain ⟨hlen, hch⟩ := (hasWalk_iff G w).1 hc
    obtain ⟨i, hi, rfl⟩ := List.getElem_of_mem hx
    by_cases hlast : i + 1 < w.length
    · exact absurd (hG.closed _ _ (hch i hlast)).1 hxV
    · have hi1 : i - 1 + 1 < w.length := by omega
      have := (hG.closed _ _ (hch (i - 1) hi1)).2
      have hidx : i - 1 + 1 = i := by omega
      simp only [hidx] at this
      exact absurd this hxV

theorem sinks_isAscEnum {G : Digraph} (hG : G.Valid) :
    IsAscEnum (Spec.sinks G) (fun u => u ∈ G.verts ∧ ∀ v, G.adj u v = false) := by
  refine ⟨hG.sorted.filter _, fun x => ?_⟩
  simp only [Spec.sinks, List.mem_filter, Spec.isSink, Spec.outdegree, beq_iff_eq, List.length_eq_zero_iff]
  constructor
  · rintro ⟨hx, h0⟩
    refine ⟨hx, fun v => ?_⟩
    cases hv : G.adj x v
    · rfl
    · have : v ∈ Spec.outNeighbors G x := ((outNeighbors_isAscEnum hG x).2 v).2 hv
      rw [h0] at this; simp at this
  · rintro ⟨hx, h0⟩
    refine ⟨hx, ?_⟩
    apply List.eq_nil_iff_forall_not_mem.2
    intro v hv
    have : G.adj x v = true := ((outNeighbors_isAscEnum hG x).2 v).1 hv
    rw [h0 v] at this; simp at this

theorem sources_isAscEnum {G : Digraph} (hG : G.Valid) :
    IsAscEnum (Spec.sources G) (fun v => v ∈ G.verts ∧ ∀ u, G.adj u v = false) := by
  refine ⟨hG.sorted.filter _, fun x => ?_⟩
  simp only [Spec.sources, List.mem_filter, Spec.isSource, Spec.indegree, beq_iff_eq, List.length_eq_zero_iff]
  constructor
  · rintro ⟨hx, h0⟩
    refine ⟨hx, fun v => ?_⟩
    cases hv : G.adj v x
    · rfl
    · have : v ∈ Spec.inNeighbors G x := ((inNeighbors_isAscEnum hG x).2 v).2 hv
      rw [h0] at this; simp at this
  · rintro ⟨hx, h0⟩
    refine ⟨hx, ?_⟩
    apply List.eq_nil_iff_forall_not_mem.2
    intro v hv
    have : G.adj v x = true := ((inNeighbors_isAscEnum hG x).2 v).1 hv
    rw [h0 v] at this; simp at this

/-! ## `CoreCorrect → DerivedCorrect` (the blanket impls, once for all representations) -/
/-- The per-representation queries agree with the definitions on `G`. -/
structure CoreCorrect (q : Core) (G : Digraph) : Prop where
  order : q.order = Spec.order G
  vertices : q.vertices = G.verts
  arcs_mem : ∀ u v, (u, v) ∈ q.arcs ↔ G.adj u v = true
  size : q.size = Spec.size G
  hasArc : ∀ u v, q.hasArc u v = Spec.hasArc G u v
  hasEdge : ∀ u v, q.hasEdge u v = Spec.hasEdge G u v
  hasWalk : ∀ w, q.hasWalk w = Spec.hasWalk G w
  outNeighbors : ∀ u ∈ G.verts, q.outNeighbors u = some (Spec.outNeighbors G u)
  inNeighbors : ∀ v, q.inNeighbors v = Spec.inNeighbors G v
  indegree : ∀ v ∈ G.verts, q.indegree v = some (Spec.indegree G v)
  isSource : ∀ v, q.isSource v = Spec.isSource G v
  outdegree : ∀ u ∈ G.verts, q.outdegree u = some (Spec.outdegree G u)
  isSink : ∀ u ∈ G.verts, q.isSink u = some (Spec.isSink G u)

/-- The two sequences every representation codes itself (`IndegreeSequence`, `DegreeSequence`;
`t` = number of worker threads, only `AdjacencyList::degree_sequence` depends on it). -/
structure SeqCorrect (q : Core) (G : Digraph) : Prop where
  indegreeSequence : q.indegreeSequence = some (Spec.indegreeSequence G)
  degreeSequence : ∀ t, 0 < t → q.degreeSequence t = some (Spec.degreeSequence G)

/-- The derived queries (blanket impls over `Core`) agree with the definitions on `G`. -/
structure DerivedCorrect (q : Core) (G : Digraph) : Prop where
  degree : ∀ u ∈ G.verts, q.degree u = some (Spec.degree G u)
  isIsolated : ∀ u ∈ G.verts, q.isIsolated u = some (Spec.isIsolated G u)
  isPendant : ∀ u ∈ G.verts, q.isPendant u = some (Spec.isPendant G u)
  sinks : q.sinks = some (Spec.sinks G)
  sources : q.sources = Spec.sources G
  outdegreeSequence : q.outdegreeSequence = some (Spec.outdegreeSequence G)
  semidegreeSequence : q.semidegreeSequence = some (Spec.semidegreeSequence G)
  maxDegree : q.maxDegree = some (Spec.maxDegree G)
  minDegree : q.minDegree = some (Spec.minDegree G)
  maxIndegree : q.maxIndegree = some (Spec.maxIndegree G)
  minIndegree : q.minIndegree = some (Spec.minIndegree G)
  maxOutdegree : q.maxOutdegree = some (Spec.maxOutdegree G)
  minOutdegree : q.minOutdegree = some (Spec.minOutdegree G)

theorem derived_correct {q : Core} {G : Digraph} (h : CoreCorrect q G) : DerivedCorrect q G := by
  have hdeg : ∀ u ∈ G.verts, q.degree u = some (Spec.degree G u) := by
    intro u hu
    simp [Core.degree, h.indegree u hu, h.outdegree u hu, Spec.degree]
  refine ⟨hdeg, ?_, ?_, ?_, ?_, ?_, ?_, ?_, ?_, ?_, ?_, ?_, ?_⟩
  · intro u hu
    simp only [Core.isIsolated, h.isSink u hu, h.isSource, Spec.isIsolated, Spec.isSink, Spec.isSource, Bool.and_comm]
  · intro u hu
    simp [Core.isPendant, hdeg u hu, Spec.isPendant]
  · simp only [Core.sinks, h.vertices]
    exact filterO_eq_some _ _ _ h.isSink
  · simp only [Core.sources, h.vertices, Spec.sources]
    exact List.filter_congr (fun x _ => h.isSource x)
  · simp only [Core.outdegreeSequence, h.vertices]
    exact mapO_eq_some _ _ _ h.outdegree
  · simp only [Core.semidegreeSequence, h.vertices]
    exact mapO_eq_some _ _ _ (fun u hu => by simp [h.indegree u hu, h.outdegree u hu])
  · simp only [Core.maxDegree, h.vertices, mapO_eq_some _ _ _ hdeg, Option.map_some, maxOr0_eq]; rfl
  · simp only [Core.minDegree, h.vertices, mapO_eq_some _ _ _ hdeg, Option.map_some, minOr0_eq]; rfl
  · simp only [Core.maxIndegree, h.vertices, mapO_eq_some _ _ _ h.indegree, Option.map_some, maxOr0_eq]; rfl
  · simp only [Core.minIndegree, h.vertices, mapO_eq_some _ _ _ h.indegree, Option.map_some, minOr0_eq]; rfl
  · simp only [Core.maxOutdegree, h.vertices, mapO_eq_some _ _ _ h.outdegree, Option.map_some, maxOr0_eq]; rfl
  · simp only [Core.minOutdegree, h.vertices, mapO_eq_some _ _ _ h.outdegree, Option.map_some, minOr0_eq]; rfl

/-- `vertices().map(indegree)` / `vertices().map(degree)` (the four non-list representations). -/
theorem indegreeSequenceDefault_correct (G : Digraph) (ind : Nat → Option Nat)
    (h : ∀ v ∈ G.verts, ind v = some (Spec.indegree G v)) :
    indegreeSequenceDefault G.verts ind = some (Spec.indegreeSequence G) :=
  mapO_eq_some _ _ _ h

theorem degreeSequenceDefault_correct (G : Digraph) (ind outd : Nat → Option Nat)
    (hi : ∀ v ∈ G.verts, ind v = some (Spec.indegree G v))
    (ho : ∀ v ∈ G.verts, outd v = some (Spec.outdegree G v)) :
    degreeSequenceDefault G.verts ind outd = some (Spec.degreeSequence G) :=
  mapO_eq_some _ _ _ (fun u hu => by simp [hi u hu, ho u hu, Spec.degree])

end GraafVerif.Query
