import GraafVerif.Proof.Pred
import GraafVerif.Proof.QueryMX
/-!
# C12 — `AdjacencyMatrix`: `is_semicomplete`, `is_tournament`, `is_simple`; canonical form and
`is_complete` (= equality with `complete(order)`) relative to the specification of the generator
-/
namespace GraafVerif.Pred
open GraafVerif.Query GraafVerif.Repr

namespace MX
open GraafVerif.Query.MX (abs abs_valid size_spec hasArc_eq_cell hasArc_oob div_mod_cell)

theorem isSemicomplete_correct {d : AdjMatrix} (h : d.WF) : isSemicomplete d = true ↔ Def.IsSemicomplete (abs d) :=
  semiScan_correct (abs_valid h) d.order rfl d.size (size_spec h)

theorem isTournament_correct {d : AdjMatrix} (h : d.WF) : isTournament d = true ↔ Def.IsTournament (abs d) :=
  tourScan_correct (abs_valid h) d.order rfl d.size (size_spec h)

theorem isSimple_true {d : AdjMatrix} (h : d.WF) : isSimple d = true := by
  unfold isSimple
  rw [List.all_eq_true]
  intro u _
  have := (abs_valid h).irrefl u
  simp only [abs] at this
  simp [this]

/-! ### canonical form: a well-formed matrix is determined by its order and its arc relation -/
theorem cell_lt {d : AdjMatrix} (h : d.WF) {c : Nat} (hc : c < d.order * d.order) :
    d.cell c = d.hasArc (c / d.order) (c % d.order) := by
  have hn : 0 < d.order := h.1
  have hu : c / d.order < d.order := by
    rw [Nat.div_lt_iff_lt_mul hn]; exact hc
  have hv : c % d.order < d.order := Nat.mod_lt _ hn
  rw [hasArc_eq_cell d hu hv]
  congr 1
  have := Nat.div_add_mod c d.order
  rw [Nat.mul_comm] at this
  omega

theorem canonical {d c : AdjMatrix} (hd : d.WF) (hc : c.WF) (ho : d.order = c.order)
    (ha : ∀ u v, d.hasArc u v = c.hasArc u v) : d = c := by
  have hcell : ∀ k, d.cell k = c.cell k := by
    intro k
    by_cases hk : k < d.order * d.order
    · rw [cell_lt hd hk, cell_lt hc (ho ▸ hk), ha, ho]
    · rw [hd.2.2.1 k (by omega), hc.2.2.1 k (by rw [← ho]; omega)]
  have hlen : d.blocks.length = c.blocks.length := by rw [hd.2.1, hc.2.1, ho]
  have hb : d.blocks = c.blocks := by
    apply List.ext_getElem hlen
    intro i h1 h2
    apply BitVec.eq_of_getLsbD_eq
    intro j hj
    have := hcell (64 * i + j)
    unfold AdjMatrix.cell at this
    have e1 : (64 * i + j) / 64 = i := by omega
    have e2 : (64 * i + j) % 64 = j := by omega
    rw [e1, e2] at this
    simpa [h1, h2] using this
  cases d; cases c
  simp only at hb ho
  subst hb; subst ho; rfl

/-- `is_complete` = equality with `complete(order)`, given the specification of the generator
(`complete n` is well formed, of order `n`, with exactly the arcs `u ≠ v` — property C14). -/
theorem isComplete_of_complete_spec {d c : AdjMatrix} (h : d.WF)
    (hcmp : complete d.order = some c) (hc : c.WF) (hco : c.order = d.order)
    (hca : ∀ u v, c.hasArc u v = (decide (u < d.order) && decide (v < d.order) && decide (u ≠ v))) :
    isComplete d = some (d == c) ∧ ((d == c) = true ↔ Def.IsComplete (abs d)) := by
  refine ⟨by simp [isComplete, hcmp], ?_⟩
  rw [beq_iff_eq]
  constructor
  · intro e u hu v hv huv
    have hu : u < d.order := by simpa [abs, AdjMatrix.vertices] using hu
    have hv : v < d.order := by simpa [abs, AdjMatrix.vertices] using hv
    show d.hasArc u v = true
    rw [e, hca]; simp [hu, hv, huv]
  · intro hdef
    apply canonical h hc hco.symm
    intro u v
    rw [hca]
    by_cases hb : u < d.order ∧ v < d.order
    · by_cases huv : u = v
      · subst huv
        have := (abs_valid h).irrefl u
        simp only [abs] at this
        simp [this]
      · have := hdef u (by simp [abs, AdjMatrix.vertices, hb.1]) v (by simp [abs, AdjMatrix.vertices, hb.2]) huv
        simp only [abs] at this
        simp [this, hb.1, hb.2, huv]
    · rw [hasArc_oob d hb]
      have : ¬ (u < d.order) ∨ ¬ (v < d.order) := by omega
      rcases this with h' | h' <;> simp [h']

end MX
end GraafVerif.Pred
