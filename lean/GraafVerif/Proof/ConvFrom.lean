import GraafVerif.Proof.Conv
/-!
# C16: `From<rows>` and `From<arcs>` — exactly the given rows / arcs, or a panic
-/
namespace GraafVerif.Conv
open GraafVerif.Repr GraafVerif.Gen

/-! ## rows of out-neighbour sets -/

/-- the rows describe a digraph: at least one row, no self-loop, every head `< number of rows` -/
def RowsValid (rows : List (List Nat)) : Prop :=
  rows ≠ [] ∧ ∀ (u : Nat) (row : List Nat), rows[u]? = some row → ∀ v ∈ row, v ≠ u ∧ v < rows.length

theorem arcsValid_iff {n : Nat} {arcs : List (Nat × Nat)} :
    arcsValid n arcs = true ↔ ∀ a ∈ arcs, a.1 ≠ a.2 ∧ a.2 < n := by
  unfold arcsValid
  rw [List.all_eq_true]
  constructor
  · intro h a ha; have := h a ha; simpa using this
  · intro h a ha; have := h a ha; simpa using this

theorem AL.rowsValid_iff {rows : List (List Nat)} :
    RowsValid rows ↔ (⟨rows⟩ : AdjList).order ≠ 0 ∧
      arcsValid (⟨rows⟩ : AdjList).order (⟨rows⟩ : AdjList).arcs = true := by
  unfold RowsValid
  rw [arcsValid_iff]
  have hlen : (⟨rows⟩ : AdjList).order = rows.length := rfl
  constructor
  · rintro ⟨hne, h⟩
    refine ⟨by rw [hlen]; intro h0; exact hne (List.length_eq_zero_iff.mp h0), ?_⟩
    intro a ha
    obtain ⟨row, hrow, hv⟩ := Gen.AL.mem_arcs.mp (show (a.1, a.2) ∈ (⟨rows⟩ : AdjList).arcs from ha)
    have := h a.1 row hrow a.2 hv
    exact ⟨fun e => this.1 e.symm, this.2⟩
  · rintro ⟨hne, h⟩
    refine ⟨fun e => hne (by rw [hlen, e]; rfl), ?_⟩
    intro u row hrow v hv
    have := h (u, v) (Gen.AL.mem_arcs.mpr ⟨row, hrow, hv⟩)
    exact ⟨fun e => this.1 e.symm, this.2⟩

/-- `AdjacencyList::from(rows)`: exactly the given rows when they are valid, a panic otherwise. -/
theorem AL.fromRows_spec (rows : List (List Nat)) :
    (RowsValid rows → AL.fromRows rows = some ⟨rows⟩) ∧ (¬ RowsValid rows → AL.fromRows rows = none) := by
  rw [AL.rowsValid_iff]
  unfold AL.fromRows
  constructor
  · rintro ⟨h0, hv⟩; simp [h0, hv]
  · intro h
    by_cases h0 : (⟨rows⟩ : AdjList).order = 0
    · simp [h0]
    · have : ¬ arcsValid (⟨rows⟩ : AdjList).order (⟨rows⟩ : AdjList).arcs = true := fun hv => h ⟨h0, hv⟩
      simp [h0, this]

/-- … and the result is a well-formed digraph (the rows are `BTreeSet`s: strictly ascending). -/
theorem AL.fromRows_wf {rows : List (List Nat)} (hs : ∀ row ∈ rows, SortedS row) (hv : RowsValid rows) :
    (⟨rows⟩ : AdjList).WF := by
  refine ⟨?_, ?_⟩
  · show 0 < rows.length
    exact List.length_pos_iff.mpr hv.1
  · intro u row hrow
    exact ⟨hs row (List.mem_of_getElem? hrow), fun v hvr => ⟨(hv.2 u row hrow v hvr).2, (hv.2 u row hrow v hvr).1⟩⟩

/-! ## rows of weight maps -/

def RowsValidW (rows : List (List (Nat × Int))) : Prop :=
  rows ≠ [] ∧ ∀ (u : Nat) (row : List (Nat × Int)), rows[u]? = some row → ∀ p ∈ row, p.1 ≠ u ∧ p.1 < rows.length

theorem WL.rowsValid_iff {rows : List (List (Nat × Int))} :
    RowsValidW rows ↔ (⟨rows⟩ : AdjListW).order ≠ 0 ∧
      arcsValid (⟨rows⟩ : AdjListW).order (⟨rows⟩ : AdjListW).arcs = true := by
  unfold RowsValidW
  rw [arcsValid_iff]
  have hlen : (⟨rows⟩ : AdjListW).order = rows.length := rfl
  constructor
  · rintro ⟨hne, h⟩
    refine ⟨by rw [hlen]; intro h0; exact hne (List.length_eq_zero_iff.mp h0), ?_⟩
    intro a ha
    obtain ⟨row, hrow, w, hv⟩ := Gen.WL.mem_arcs.mp (show (a.1, a.2) ∈ (⟨rows⟩ : AdjListW).arcs from ha)
    have := h a.1 row hrow (a.2, w) hv
    exact ⟨fun e => this.1 e.symm, this.2⟩
  · rintro ⟨hne, h⟩
    refine ⟨fun e => hne (by rw [hlen, e]; rfl), ?_⟩
    intro u row hrow p hp
    have := h (u, p.1) (Gen.WL.mem_arcs.mpr ⟨row, hrow, p.2, hp⟩)
    exact ⟨fun e => this.1 e.symm, this.2⟩

theorem WL.fromRows_spec (rows : List (List (Nat × Int))) :
    (RowsValidW rows → WL.fromRows rows = some ⟨rows⟩) ∧ (¬ RowsValidW rows → WL.fromRows rows = none) := by
  rw [WL.rowsValid_iff]
  unfold WL.fromRows
  constructor
  · rintro ⟨h0, hv⟩; simp [h0, hv]
  · intro h
    by_cases h0 : (⟨rows⟩ : AdjListW).order = 0
    · simp [h0]
    · have : ¬ arcsValid (⟨rows⟩ : AdjListW).order (⟨rows⟩ : AdjListW).arcs = true := fun hv => h ⟨h0, hv⟩
      simp [h0, this]

theorem WL.fromRows_wf {rows : List (List (Nat × Int))} (hs : ∀ row ∈ rows, SortedK row)
    (hv : RowsValidW rows) : (⟨rows⟩ : AdjListW).WF := by
  refine ⟨?_, ?_⟩
  · show 0 < rows.length
    exact List.length_pos_iff.mpr hv.1
  · intro u row hrow
    exact ⟨hs row (List.mem_of_getElem? hrow), fun p hp => ⟨(hv.2 u row hrow p hp).2, (hv.2 u row hrow p hp).1⟩⟩

/-! ## `AdjacencyMap::from(rows)`: keys `0..len` by `enumerate()` -/

/-- `rows.enumerate()` as key/row pairs -/
def enumRows (rows : List (List Nat)) : List (Nat × List Nat) := rows.zipIdx.map (fun p => (p.2, p.1))

theorem mem_enumRows {rows : List (List Nat)} {u : Nat} {row : List Nat} :
    (u, row) ∈ enumRows rows ↔ rows[u]? = some row := by
  unfold enumRows
  rw [List.mem_map]
  constructor
  · rintro ⟨⟨r, i⟩, hmem, heq⟩
    simp only [Prod.mk.injEq] at heq
    obtain ⟨rfl, rfl⟩ := heq
    exact List.mem_zipIdx_iff_getElem?.mp hmem
  · intro h
    exact ⟨(row, u), List.mem_zipIdx_iff_getElem?.mpr h, rfl⟩

theorem keys_enumRows (rows : List (List Nat)) : (enumRows rows).map (·.1) = List.range rows.length := by
  unfold enumRows
  rw [List.map_map]
  apply List.ext_getElem?
  intro i
  simp only [List.getElem?_map, List.getElem?_zipIdx, Function.comp_def, Option.map_map]
  by_cases hi : i < rows.length
  · simp [List.getElem?_eq_getElem hi, List.getElem?_range hi]
  · rw [List.getElem?_eq_none (by omega), List.getElem?_eq_none (by simp; omega)]; rfl

theorem sortedK_enumRows (rows : List (List Nat)) : SortedK (enumRows rows) := by
  unfold SortedK
  have h := keys_enumRows rows
  have hp : ((enumRows rows).map (·.1)).Pairwise (· < ·) := by rw [h]; exact List.pairwise_lt_range
  exact (List.pairwise_map.mp hp)

theorem AM.rowsValid_iff {rows : List (List Nat)} :
    RowsValid rows ↔ (⟨enumRows rows⟩ : AdjMap).order ≠ 0 ∧
      (⟨enumRows rows⟩ : AdjMap).arcs.all
        (fun a => a.1 != a.2 && (mget a.2 (⟨enumRows rows⟩ : AdjMap).rows).isSome) = true := by
  unfold RowsValid
  rw [List.all_eq_true]
  have hlen : (⟨enumRows rows⟩ : AdjMap).order = rows.length := by
    show (enumRows rows).length = rows.length
    simp [enumRows]
  have hsome : ∀ v, (mget v (enumRows rows)).isSome ↔ v < rows.length := by
    intro v
    rw [mget_isSome_iff (sortedK_enumRows rows), keys_enumRows, List.mem_range]
  constructor
  · rintro ⟨hne, h⟩
    refine ⟨by rw [hlen]; intro h0; exact hne (List.length_eq_zero_iff.mp h0), ?_⟩
    intro a ha
    obtain ⟨row, hrow, hv⟩ := Gen.AM.mem_arcs.mp (show (a.1, a.2) ∈ (⟨enumRows rows⟩ : AdjMap).arcs from ha)
    have := h a.1 row (mem_enumRows.mp hrow) a.2 hv
    have h2 := (hsome a.2).mpr this.2
    have h1 : a.1 ≠ a.2 := fun e => this.1 e.symm
    simp only [Bool.and_eq_true, bne_iff_ne, ne_eq]
    exact ⟨h1, h2⟩
  · rintro ⟨hne, h⟩
    refine ⟨fun e => hne (by rw [hlen, e]; rfl), ?_⟩
    intro u row hrow v hv
    have := h (u, v) (Gen.AM.mem_arcs.mpr ⟨row, mem_enumRows.mpr hrow, hv⟩)
    simp only [Bool.and_eq_true, bne_iff_ne, ne_eq] at this
    exact ⟨fun e => this.1 e.symm, (hsome v).mp this.2⟩

/-- `AdjacencyMap::from(rows)`: keys `0..len` with exactly the given rows, or a panic. -/
theorem AM.fromRows_spec (rows : List (List Nat)) :
    (RowsValid rows → AM.fromRows rows = some ⟨enumRows rows⟩) ∧
    (¬ RowsValid rows → AM.fromRows rows = none) := by
  rw [AM.rowsValid_iff]
  unfold AM.fromRows
  constructor
  · rintro ⟨h0, hv⟩
    have h0' : ¬ (⟨enumRows rows⟩ : AdjMap).order = 0 := h0
    simp only [enumRows] at h0' hv ⊢
    simp [h0', hv]
  · intro h
    by_cases h0 : (⟨enumRows rows⟩ : AdjMap).order = 0
    · simp only [enumRows] at h0 ⊢; simp [h0]
    · have hv : ¬ _ := fun hv => h ⟨h0, hv⟩
      simp only [enumRows] at h0 hv ⊢
      simp [h0, hv]

theorem AM.fromRows_wf {rows : List (List Nat)} (hs : ∀ row ∈ rows, SortedS row) (hv : RowsValid rows) :
    (⟨enumRows rows⟩ : AdjMap).WF ∧ Gen.AM.Contiguous ⟨enumRows rows⟩ := by
  refine ⟨⟨sortedK_enumRows rows, ?_⟩, ?_⟩
  · intro u row hrow
    have hr := mem_enumRows.mp hrow
    refine ⟨hs row (List.mem_of_getElem? hr), fun v hvr => ⟨(hv.2 u row hr v hvr).1, ?_⟩⟩
    show (mget v (enumRows rows)).isSome
    rw [mget_isSome_iff (sortedK_enumRows rows), keys_enumRows, List.mem_range]
    exact (hv.2 u row hr v hvr).2
  · show (enumRows rows).map (·.1) = List.range (enumRows rows).length
    rw [keys_enumRows]; simp [enumRows]

/-! ## arcs: `order = largest id + 1` -/

theorem maxId_foldl_le (arcs : List (Nat × Nat)) (o : Nat) :
    o ≤ arcs.foldl (fun o a => max (max o a.1) a.2) o ∧
    ∀ a ∈ arcs, a.1 ≤ arcs.foldl (fun o a => max (max o a.1) a.2) o ∧
                a.2 ≤ arcs.foldl (fun o a => max (max o a.1) a.2) o := by
  induction arcs generalizing o with
  | nil => simp
  | cons x xs ih =>
    simp only [List.foldl_cons]
    have := ih (max (max o x.1) x.2)
    refine ⟨by omega, ?_⟩
    intro a ha
    rcases List.mem_cons.mp ha with rfl | ha
    · omega
    · exact this.2 a ha

theorem le_maxId {arcs : List (Nat × Nat)} {a : Nat × Nat} (ha : a ∈ arcs) :
    a.1 ≤ maxId arcs ∧ a.2 ≤ maxId arcs := (maxId_foldl_le arcs 0).2 a ha

/-- the maximum is attained: `maxId` really is the largest id that occurs -/
theorem maxId_foldl_attained (arcs : List (Nat × Nat)) (o : Nat) :
    arcs.foldl (fun o a => max (max o a.1) a.2) o = o ∨
    ∃ a ∈ arcs, a.1 = arcs.foldl (fun o a => max (max o a.1) a.2) o ∨
                a.2 = arcs.foldl (fun o a => max (max o a.1) a.2) o := by
  induction arcs generalizing o with
  | nil => simp
  | cons x xs ih =>
    simp only [List.foldl_cons]
    rcases ih (max (max o x.1) x.2) with h | ⟨a, ha, h⟩
    · rw [h]
      by_cases h1 : max (max o x.1) x.2 = o
      · exact Or.inl h1
      · right; exact ⟨x, List.mem_cons_self .., by omega⟩
    · right; exact ⟨a, List.mem_cons_of_mem _ ha, h⟩

theorem maxId_attained {arcs : List (Nat × Nat)} (hne : arcs ≠ []) :
    ∃ a ∈ arcs, a.1 = maxId arcs ∨ a.2 = maxId arcs := by
  rcases maxId_foldl_attained arcs 0 with h | h
  · cases arcs with
    | nil => exact absurd rfl hne
    | cons x xs =>
      have := le_maxId (arcs := x :: xs) (List.mem_cons_self ..)
      refine ⟨x, List.mem_cons_self .., ?_⟩
      unfold maxId at this ⊢
      rw [h] at this ⊢; omega
  · exact h

theorem noLoop_iff {arcs : List (Nat × Nat)} :
    arcs.any (fun a => a.1 == a.2) = false ↔ ∀ a ∈ arcs, a.1 ≠ a.2 := by
  rw [List.any_eq_false]
  constructor
  · intro h a ha; have := h a ha; simpa using this
  · intro h a ha; have := h a ha; simpa using this

/-- `AdjacencyMatrix::from(arcs)`: non-empty, loop-free arcs give order `max id + 1` and
exactly those arcs (duplicates collapse: the statement is about membership). -/
theorem MX.fromArcs_spec {arcs : List (Nat × Nat)} (hne : arcs ≠ []) (hnl : ∀ a ∈ arcs, a.1 ≠ a.2)
    (hfit : (maxId arcs + 1) * (maxId arcs + 1) < 2 ^ 64) :
    ∃ d, MX.fromArcs arcs = some d ∧ d.WF ∧ d.order = maxId arcs + 1 ∧
      ∀ u v, (u, v) ∈ d.arcs ↔ (u, v) ∈ arcs := by
  obtain ⟨e, he, hwf, ho, hno⟩ := Gen.MX.empty_spec (n := maxId arcs + 1) (by omega) hfit
  have hv : ArcsValid (Gen.MX.repr.order e) arcs := by
    intro a ha
    show a.1 ≠ a.2 ∧ a.1 < e.order ∧ a.2 < e.order
    rw [ho]
    have := le_maxId ha
    exact ⟨hnl a ha, by omega, by omega⟩
  obtain ⟨d, hd, hwf', ho', hhas⟩ := foldlM_addArc Gen.MX.repr arcs e hwf hv
  refine ⟨d, ?_, hwf', by rw [← ho]; exact ho', ?_⟩
  · unfold MX.fromArcs
    have h1 : arcs.any (fun a => a.1 == a.2) = false := noLoop_iff.mpr hnl
    have h2 : arcs.isEmpty = false := by cases arcs with | nil => exact absurd rfl hne | cons _ _ => rfl
    simp only [h1, h2, Bool.false_eq_true, if_false, he]
    exact hd
  · intro u v
    have := hhas u v
    simp only [Gen.MX.repr] at this
    rw [this]
    constructor
    · rintro (h | h)
      · exact absurd h (hno u v)
      · exact h
    · exact Or.inr

theorem mem_foldl_pinsert (arcs : List (Nat × Nat)) (s : List (Nat × Nat)) (a : Nat × Nat) :
    a ∈ arcs.foldl (fun s a => pinsert a s) s ↔ a ∈ s ∨ a ∈ arcs := by
  induction arcs generalizing s with
  | nil => simp
  | cons x xs ih =>
    simp only [List.foldl_cons, ih, mem_pinsert, List.mem_cons]
    constructor
    · rintro ((h | h) | h)
      · exact Or.inr (Or.inl h)
      · exact Or.inl h
      · exact Or.inr (Or.inr h)
    · rintro (h | h | h)
      · exact Or.inl (Or.inr h)
      · exact Or.inl (Or.inl h)
      · exact Or.inr h

theorem sorted_foldl_pinsert (arcs : List (Nat × Nat)) (s : List (Nat × Nat)) (hs : SortedP s) :
    SortedP (arcs.foldl (fun s a => pinsert a s) s) := by
  induction arcs generalizing s with
  | nil => exact hs
  | cons x xs ih => exact ih _ (sorted_pinsert hs)

/-- `EdgeList::from(arcs)`: loop-free arcs (possibly none) give order `max id + 1` (1 for no arc)
and exactly those arcs. -/
theorem EL.fromArcs_spec {arcs : List (Nat × Nat)} (hnl : ∀ a ∈ arcs, a.1 ≠ a.2) :
    ∃ d, EL.fromArcs arcs = some d ∧ d.WF ∧ d.order = maxId arcs + 1 ∧
      ∀ u v, (u, v) ∈ d.arcs ↔ (u, v) ∈ arcs := by
  have h1 : arcs.any (fun a => a.1 == a.2) = false := noLoop_iff.mpr hnl
  refine ⟨⟨arcs.foldl (fun s a => pinsert a s) [], maxId arcs + 1⟩, by simp [EL.fromArcs, h1], ?_, rfl, ?_⟩
  · refine ⟨by show 0 < maxId arcs + 1; omega, sorted_foldl_pinsert arcs [] (by simp [SortedP]), ?_⟩
    intro a ha
    have ha' : a ∈ arcs := by
      have := (mem_foldl_pinsert arcs [] a).mp ha
      simpa using this
    have := le_maxId ha'
    show a.1 < maxId arcs + 1 ∧ a.2 < maxId arcs + 1 ∧ a.1 ≠ a.2
    exact ⟨by omega, by omega, hnl a ha'⟩
  · intro u v
    show (u, v) ∈ arcs.foldl (fun s a => pinsert a s) [] ↔ _
    rw [mem_foldl_pinsert]; simp

end GraafVerif.Conv
