import GraafVerif.Proof.JohnsonUnblock
/-!
# `unblock` with enough fuel: the cascade is complete

With `blocked` duplicate-free and shorter than the fuel, `unblock u` really unblocks `u`, unblocks
every member of the B-list of every vertex it unblocks, and leaves the B-lists of the vertices
that stay blocked untouched (`unblock_spec2`).  Also fuel adequacy (`unblock_fuel_irrel`).
-/
set_option linter.unusedVariables false
namespace GraafVerif.Johnson

structure USpec2 (st : JState) (u : Nat) (st' : JState) : Prop where
  gone : u ∉ st'.blocked
  closure : ∀ w, w ∈ st.blocked → w ∉ st'.blocked → ∀ x ∈ st.Bof w, x ∉ st'.blocked
  keep : ∀ w, w ∈ st'.blocked → st'.Bof w = st.Bof w
  nd : st'.blocked.Nodup
  len : st'.blocked.length ≤ st.blocked.length

structure USpec2L (st : JState) (l : List Nat) (st' : JState) : Prop where
  gone : ∀ v ∈ l, v ∉ st'.blocked
  closure : ∀ w, w ∈ st.blocked → w ∉ st'.blocked → ∀ x ∈ st.Bof w, x ∉ st'.blocked
  keep : ∀ w, w ∈ st'.blocked → st'.Bof w = st.Bof w
  nd : st'.blocked.Nodup
  len : st'.blocked.length ≤ st.blocked.length

theorem uspec2_fold (fuel : Nat) (f : JState → Nat → JState)
    (hf1 : ∀ st v, USpec st v (f st v))
    (hf : ∀ st v, st.blocked.Nodup → st.blocked.length < fuel → USpec2 st v (f st v)) :
    ∀ (l : List Nat) (st : JState), st.blocked.Nodup → st.blocked.length < fuel →
      USpec2L st l (l.foldl f st)
  | [], st, hnd, _ => ⟨by simp, fun w hw hnw => absurd hw hnw, fun _ _ => rfl, hnd, Nat.le_refl _⟩
  | v :: l, st, hnd, hlen => by
    have h1 := hf st v hnd hlen
    have ih := uspec2_fold fuel f hf1 hf l (f st v) h1.nd (by have := h1.len; omega)
    have mono := (uspec_fold f hf1 l (f st v)).bl
    simp only [List.foldl_cons]
    refine ⟨?_, ?_, ?_, ih.nd, by have := ih.len; have := h1.len; omega⟩
    · intro x hx
      rcases List.mem_cons.1 hx with rfl | hx
      · exact fun h => h1.gone (mono _ h)
      · exact ih.gone x hx
    · intro w hw hnw x hx
      by_cases hw1 : w ∈ (f st v).blocked
      · exact ih.closure w hw1 hnw x (by rw [h1.keep w hw1]; exact hx)
      · exact fun h => h1.closure w hw hw1 x hx (mono _ h)
    · intro w hw
      rw [ih.keep w hw, h1.keep w (mono _ hw)]

theorem unblock_spec2 : ∀ (fuel : Nat) (st : JState) (u : Nat), st.blocked.Nodup →
    st.blocked.length < fuel → USpec2 st u (unblock fuel st u)
  | 0, st, u, _, h => by omega
  | fuel+1, st, u, hnd, hlen => by
    unfold unblock
    split
    · rename_i hb
      have hub : u ∈ st.blocked := by simpa [JState.isBlocked] using hb
      have hmem : ∀ x, x ∈ st.blocked.filter (· != u) ↔ x ∈ st.blocked ∧ x ≠ u := by
        intro x; simp [List.mem_filter]
      have hlt : (st.blocked.filter (· != u)).length < st.blocked.length :=
        List.length_filter_lt_length_iff_exists.2 ⟨u, hub, by simp⟩
      have hL := uspec2_fold fuel (unblock fuel) (unblock_spec fuel) (unblock_spec2 fuel) (st.Bof u)
        { st with blocked := st.blocked.filter (· != u), B := st.B.set u [] }
        (hnd.sublist List.filter_sublist) (by show (st.blocked.filter (· != u)).length < fuel; omega)
      have mono := (uspec_fold (unblock fuel) (unblock_spec fuel) (st.Bof u)
        { st with blocked := st.blocked.filter (· != u), B := st.B.set u [] }).bl
      have hBne : ∀ w, w ≠ u →
          ({ st with blocked := st.blocked.filter (· != u), B := st.B.set u [] } : JState).Bof w = st.Bof w := by
        intro w hw
        have := Bof_set st u [] w
        simp only [JState.Bof] at this ⊢
        rw [this]
        simp [hw]
      refine ⟨?_, ?_, ?_, hL.nd, ?_⟩
      · intro h
        exact ((hmem u).1 (mono u h)).2 rfl
      · intro w hw hnw x hx
        by_cases hwu : w = u
        · subst hwu; exact hL.gone x hx
        · exact hL.closure w ((hmem w).2 ⟨hw, hwu⟩) hnw x (by rw [hBne w hwu]; exact hx)
      · intro w hw
        have hwu : w ≠ u := ((hmem w).1 (mono w hw)).2
        rw [hL.keep w hw, hBne w hwu]
      · have h3 : (List.foldl (unblock fuel)
            { st with blocked := st.blocked.filter (· != u), B := st.B.set u [] } (st.Bof u)).blocked.length ≤
            (st.blocked.filter (· != u)).length := hL.len
        omega
    · rename_i hb
      have hub : u ∉ st.blocked := by simpa [JState.isBlocked] using hb
      exact ⟨hub, fun w hw hnw => absurd hw hnw, fun _ _ => rfl, hnd, Nat.le_refl _⟩

/-- Fuel adequacy of `unblock`: any two fuels above `|blocked|` give the same result. -/
theorem unblock_fuel_irrel : ∀ (f1 f2 : Nat) (st : JState) (u : Nat), st.blocked.Nodup →
    st.blocked.length < f1 → st.blocked.length < f2 → unblock f1 st u = unblock f2 st u
  | 0, _, st, u, _, h, _ => by omega
  | _, 0, st, u, _, _, h => by omega
  | f1+1, f2+1, st, u, hnd, h1, h2 => by
    unfold unblock
    split
    · rename_i hb
      have hub : u ∈ st.blocked := by simpa [JState.isBlocked] using hb
      have hlt : (st.blocked.filter (· != u)).length < st.blocked.length :=
        List.length_filter_lt_length_iff_exists.2 ⟨u, hub, by simp⟩
      -- both folds agree step by step
      have key : ∀ (l : List Nat) (s0 : JState), s0.blocked.Nodup → s0.blocked.length < f1 →
          s0.blocked.length < f2 → l.foldl (unblock f1) s0 = l.foldl (unblock f2) s0 := by
        intro l
        induction l with
        | nil => intro s0 _ _ _; rfl
        | cons v l ih =>
          intro s0 hnd0 ha hb'
          simp only [List.foldl_cons]
          rw [unblock_fuel_irrel f1 f2 s0 v hnd0 ha hb']
          have hs := unblock_spec2 f2 s0 v hnd0 hb'
          exact ih _ hs.nd (by have := hs.len; omega) (by have := hs.len; omega)
      exact key _ _ (hnd.sublist List.filter_sublist)
        (by show (st.blocked.filter (· != u)).length < f1; omega)
        (by show (st.blocked.filter (· != u)).length < f2; omega)
    · rfl

end GraafVerif.Johnson
