import GraafVerif.Proof.ComposeView
import GraafVerif.Proof.ComposeAlgo
/-!
# Compose — representation × mutation history × algorithm

`ReprModel` captures what the composition needs of one representation: the invariant `WF`, the
abstraction `abs` to C01's mathematical digraph (`SpecState`), the model's transition function
`step` and the spec's `sstep`, the views handed to the traversals, and the three proved facts
`step_WF`, `step_refines` (C01) and `view_spec` / `vview_spec` (C02 + `Proof/ComposeView`).

The generic theorems then say: for EVERY well-formed start value, EVERY finite list of mutating
calls (valid or rejected), the algorithms run on the view of the FINAL MODEL STATE satisfy their
properties with respect to the arc relation of the FINAL SPEC STATE — the plain arc set obtained
by applying the same calls to the abstract digraph.  Nothing on the specification side mentions
rows, bit blocks, sorted containers or out-neighbour lists.
-/
namespace GraafVerif.Compose
open GraafVerif GraafVerif.Repr GraafVerif.ReprSpec

/-- The arc relation of a spec state. -/
def _root_.GraafVerif.ReprSpec.SpecState.Arc {ω : Type} (s : SpecState ω) : Rel := fun u v => s.A u v = true
/-- The weighted arc relation of a weighted spec state. -/
def _root_.GraafVerif.ReprSpec.SpecState.WArc (s : SpecState Int) : WRel := fun u v w => s.W u v = some w

/-! ## Spec-level facts about histories -/

/-- A fixed-order history never changes the vertex set. -/
theorem specRun_fixed_V {ω : Type} (ops : List (Op ω)) (s : SpecState ω) :
    (run (specStep .fixed) s ops).1.V = s.V := by
  induction ops generalizing s with
  | nil => rfl
  | cons op ops ih =>
    simp only [run]
    rw [ih]
    cases op with
    | add u v w =>
      simp only [specStep]
      split <;> rfl
    | rem u v => rfl

theorem specRunMx_V (ops : List MxOp) (s : SpecState Unit) : (run specStepMx s ops).1.V = s.V := by
  induction ops generalizing s with
  | nil => rfl
  | cons op ops ih =>
    simp only [run]
    rw [ih]
    cases op with
    | add u v => simp only [specStepMx, specStep]; split <;> rfl
    | rem u v => rfl
    | tog u v => simp only [specStepMx]; split <;> rfl

/-- The vertex ids a call mentions. -/
def opIds {ω : Type} : Op ω → List Nat
  | .add u v _ => [u, v]
  | .rem u v => [u, v]

/-- A growing (`AdjacencyMap`) history whose calls mention only existing vertices never changes
the vertex set either. -/
theorem specRun_growing_V {ω : Type} (ops : List (Op ω)) (s : SpecState ω)
    (h : ∀ op ∈ ops, ∀ x ∈ opIds op, s.V x = true) : (run (specStep .growing) s ops).1.V = s.V := by
  induction ops generalizing s with
  | nil => rfl
  | cons op ops ih =>
    have hstep : (specStep .growing s op).1.V = s.V := by
      cases op with
      | add u v w =>
        have hu : s.V u = true := h _ (List.mem_cons_self) u (by simp [opIds])
        have hv : s.V v = true := h _ (List.mem_cons_self) v (by simp [opIds])
        simp only [specStep]
        split
        · rfl
        · funext a
          simp only [grow, addV]
          by_cases hav : a = v
          · subst hav; simp [hv]
          · by_cases hau : a = u
            · subst hau; simp [hu]
            · simp [hav, hau]
      | rem u v => rfl
    simp only [run]
    rw [ih, hstep]
    intro op' hop' x hx
    rw [hstep]
    exact h op' (List.mem_cons_of_mem _ hop') x hx

/-! ## The structure -/

/-- What the composition needs of one representation (`σ` its model type, `ο` its mutating
calls, `ω` its weight type). -/
structure ReprModel (σ ο ω : Type) where
  WF : σ → Prop
  abs : σ → SpecState ω
  step : σ → ο → σ × Out
  sstep : SpecState ω → ο → SpecState ω × Out
  order : σ → Nat
  /-- what `Bfs`, `Dfs`, `Johnson75` see: `order()` + `out_neighbors()` -/
  view : σ → Graph
  /-- what `Tarjan` sees: `vertices()` + `out_neighbors()` -/
  vview : σ → Tarjan.VGraph
  /-- side condition under which the positional view is meaningful
  (`True` except for the map, where it is "the key set is `0..order`") -/
  viewOK : σ → Prop
  step_WF : ∀ r op, WF r → WF (step r op).1
  step_refines : ∀ r op, WF r →
    abs (step r op).1 = (sstep (abs r) op).1 ∧ (step r op).2 = (sstep (abs r) op).2
  view_spec : ∀ r, WF r → viewOK r →
    (view r).n = order r ∧ (view r).WF ∧ (∀ u v, (view r).A u v ↔ (abs r).Arc u v) ∧
    Johnson.NoLoops (view r) ∧ Johnson.RowsNodup (view r)
  vview_spec : ∀ r, WF r →
    (vview r).Closed ∧ (∀ x, x ∈ (vview r).verts ↔ (abs r).V x = true) ∧
    (vview r).verts.Pairwise (· < ·) ∧ ∀ u v, v ∈ (vview r).out u ↔ (abs r).Arc u v

namespace ReprModel
variable {σ ο ω : Type} (M : ReprModel σ ο ω)

/-- The model state after the history `ops`. -/
def after (r : σ) (ops : List ο) : σ := (run M.step r ops).1
/-- The SPEC digraph after the same history: the plain arc set obtained by applying the same
calls to the abstract digraph of `r`. -/
def specAfter (r : σ) (ops : List ο) : SpecState ω := (run M.sstep (M.abs r) ops).1

/-- C01 for `M`: the final model state is well-formed, denotes the final spec state, and the
calls returned what the spec says. -/
theorem run_refines (r : σ) (hr : M.WF r) (ops : List ο) :
    M.WF (M.after r ops) ∧ M.abs (M.after r ops) = M.specAfter r ops ∧
    (run M.step r ops).2 = (run M.sstep (M.abs r) ops).2 :=
  run_refines_gen M.step M.sstep M.WF M.abs M.step_WF M.step_refines ops r hr

/-- **BFS / DFS after any history.**  Source-based traversals on the view of the final model
state satisfy C04, C05 (BFS half), C06 w.r.t. the arc set of the final SPEC state. -/
theorem traversals_after_any_history (r : σ) (hr : M.WF r) (ops : List ο)
    (hok : M.viewOK (M.after r ops)) (S : List Nat)
    (hS : ∀ s ∈ S, s < M.order (M.after r ops)) (hnd : S.Nodup) :
    TraversalsHold (M.specAfter r ops).Arc (M.order (M.after r ops)) S (M.view (M.after r ops)) := by
  obtain ⟨hw, ha, _⟩ := M.run_refines r hr ops
  obtain ⟨hn, hwf, harc, _, _⟩ := M.view_spec _ hw hok
  rw [ha] at harc
  rw [← hn] at hS ⊢
  exact traversalsHold_of harc hwf hS hnd

/-- **`bfs_after_any_history`**: BFS from distinct in-range sources on the view of the final
model state yields exactly the vertices reachable in the final SPEC digraph, each once, nearest
first, `BfsDist` at their hop distances, `distances()` the full vector. -/
theorem bfs_after_any_history (r : σ) (hr : M.WF r) (ops : List ο)
    (hok : M.viewOK (M.after r ops)) (S : List Nat)
    (hS : ∀ s ∈ S, s < M.order (M.after r ops)) (hnd : S.Nodup) :
    BfsHolds (M.specAfter r ops).Arc (M.order (M.after r ops)) S (M.view (M.after r ops)) :=
  (M.traversals_after_any_history r hr ops hok S hS hnd).bfs

/-- **`johnson_after_any_history`** (C10). -/
theorem johnson_after_any_history (r : σ) (hr : M.WF r) (ops : List ο)
    (hok : M.viewOK (M.after r ops)) :
    JohnsonHolds (M.specAfter r ops).Arc (M.view (M.after r ops)) := by
  obtain ⟨hw, ha, _⟩ := M.run_refines r hr ops
  obtain ⟨_, hwf, harc, hl, hrn⟩ := M.view_spec _ hw hok
  rw [ha] at harc
  exact johnsonHolds_of harc hwf hl hrn

/-- **`tarjan_after_any_history`** (C09): `Tarjan` on the vertex-id view of the final model state
returns the partition of the final SPEC vertex set into the strongly connected components of the
final SPEC arc set — no contiguity needed. -/
theorem tarjan_after_any_history (r : σ) (hr : M.WF r) (ops : List ο) :
    (∀ x, x ∈ (M.vview (M.after r ops)).verts ↔ (M.specAfter r ops).V x = true) ∧
    (M.vview (M.after r ops)).verts.Pairwise (· < ·) ∧
    TarjanHolds (M.vview (M.after r ops)).verts (M.specAfter r ops).Arc (M.vview (M.after r ops)) := by
  obtain ⟨hw, ha, _⟩ := M.run_refines r hr ops
  obtain ⟨hcl, hv, hasc, harc⟩ := M.vview_spec _ hw
  rw [ha] at harc hv
  exact ⟨hv, hasc, tarjanHolds_of harc hcl⟩

/-- **Every call** of `components()` on one `Tarjan` object built on the final model state
(`tarjan_every_call` after any history). -/
theorem tarjan_every_call_after_any_history (r : σ) (hr : M.WF r) (ops : List ο) :
    TarjanEveryCallHolds (M.vview (M.after r ops)).verts (M.specAfter r ops).Arc (M.vview (M.after r ops)) := by
  obtain ⟨hw, ha, _⟩ := M.run_refines r hr ops
  obtain ⟨hcl, _, _, harc⟩ := M.vview_spec _ hw
  rw [ha] at harc
  exact tarjanEveryCallHolds_of harc hcl

/-- **Every one of `k` calls** of `circuits()` on one `Johnson75` object built on the final model
state (`johnson_repeat_statement` after any history). -/
theorem johnson_repeat_after_any_history (r : σ) (hr : M.WF r) (ops : List ο)
    (hok : M.viewOK (M.after r ops)) :
    JohnsonRepeatHolds (M.specAfter r ops).Arc (M.view (M.after r ops)) := by
  obtain ⟨hw, ha, _⟩ := M.run_refines r hr ops
  obtain ⟨_, hwf, harc, hl, hrn⟩ := M.view_spec _ hw hok
  rw [ha] at harc
  exact johnsonRepeatHolds_of harc hwf hl hrn

end ReprModel

/-! ## The five instances -/

private theorem noLoops_of {g : Graph} {n : Nat} {a : List (Nat × Nat)} {o : Nat → Option (List Nat)}
    (h : ViewSpec g n a o) : Johnson.NoLoops g := fun u hu => h.irrefl u hu

private theorem closed_of {g : Tarjan.VGraph} {vs : List Nat} {a : List (Nat × Nat)} (h : VViewSpec g vs a) :
    g.Closed := h.closed

/-- `AdjacencyList`. -/
def alModel : ReprModel AdjList (Op Unit) Unit where
  WF := AdjList.WF
  abs := AdjList.abs
  step := AdjList.step
  sstep := specStep .fixed
  order := AdjList.order
  view := AdjList.view
  vview := AdjList.vview
  viewOK := fun _ => True
  step_WF := AdjList.step_WF
  step_refines := AdjList.step_refines
  view_spec := fun d h _ =>
    have vs := d.view_spec h
    ⟨vs.order, vs.wf, fun u v => (vs.arc_iff u v).trans (d.arc_iff_abs u v), noLoops_of vs, vs.nodup⟩
  vview_spec := fun d h =>
    have vs := d.vview_spec h
    ⟨closed_of vs, fun x => (AdjList.vertices_spec d).2 x, vs.verts_asc,
     fun u v => (vs.arc_iff u v).trans (d.arc_iff_abs u v)⟩

/-- `AdjacencyMatrix` (calls include `toggle`). -/
def mxModel : ReprModel AdjMatrix MxOp Unit where
  WF := AdjMatrix.WF
  abs := AdjMatrix.abs
  step := AdjMatrix.step
  sstep := specStepMx
  order := AdjMatrix.order
  view := AdjMatrix.view
  vview := AdjMatrix.vview
  viewOK := fun _ => True
  step_WF := AdjMatrix.step_WF
  step_refines := AdjMatrix.step_refines
  view_spec := fun d h _ =>
    have vs := d.view_spec h
    ⟨vs.order, vs.wf, fun u v => (vs.arc_iff u v).trans (d.arc_iff_abs h u v), noLoops_of vs, vs.nodup⟩
  vview_spec := fun d h =>
    have vs := d.vview_spec h
    ⟨closed_of vs, fun x => (AdjMatrix.vertices_spec d).2 x, vs.verts_asc,
     fun u v => (vs.arc_iff u v).trans (d.arc_iff_abs h u v)⟩

/-- `EdgeList`. -/
def elModel : ReprModel EdgeList (Op Unit) Unit where
  WF := EdgeList.WF
  abs := EdgeList.abs
  step := EdgeList.step
  sstep := specStep .fixed
  order := EdgeList.order
  view := EdgeList.view
  vview := EdgeList.vview
  viewOK := fun _ => True
  step_WF := EdgeList.step_WF
  step_refines := EdgeList.step_refines
  view_spec := fun d h _ =>
    have vs := d.view_spec h
    ⟨vs.order, vs.wf, fun u v => (vs.arc_iff u v).trans (d.arc_iff_abs u v), noLoops_of vs, vs.nodup⟩
  vview_spec := fun d h =>
    have vs := d.vview_spec h
    ⟨closed_of vs, fun x => (EdgeList.vertices_spec d).2 x, vs.verts_asc,
     fun u v => (vs.arc_iff u v).trans (d.arc_iff_abs u v)⟩

/-- `AdjacencyListWeighted` seen by the UNWEIGHTED traversals (`out_neighbors` = the keys). -/
def wlModel : ReprModel AdjListW (Op Int) Int where
  WF := AdjListW.WF
  abs := AdjListW.abs
  step := AdjListW.step
  sstep := specStep .fixed
  order := AdjListW.order
  view := AdjListW.view
  vview := AdjListW.vview
  viewOK := fun _ => True
  step_WF := AdjListW.step_WF
  step_refines := AdjListW.step_refines
  view_spec := fun d h _ =>
    have vs := d.view_spec h
    ⟨vs.order, vs.wf, fun u v => (vs.arc_iff u v).trans (d.arc_iff_abs h u v), noLoops_of vs, vs.nodup⟩
  vview_spec := fun d h =>
    have vs := d.vview_spec h
    ⟨closed_of vs, fun x => (AdjListW.vertices_spec d).2 x, vs.verts_asc,
     fun u v => (vs.arc_iff u v).trans (d.arc_iff_abs h u v)⟩

/-- `AdjacencyMap` (growing vertex set).  The positional view needs the key set `0..order`;
the vertex-id view (Tarjan) does not. -/
def amModel : ReprModel AdjMap (Op Unit) Unit where
  WF := AdjMap.WF
  abs := AdjMap.abs
  step := AdjMap.step
  sstep := specStep .growing
  order := AdjMap.order
  view := AdjMap.view
  vview := AdjMap.vview
  viewOK := Gen.AM.Contiguous
  step_WF := AdjMap.step_WF
  step_refines := AdjMap.step_refines
  view_spec := fun d h hc =>
    have vs := d.view_spec h hc
    ⟨vs.order, vs.wf, fun u v => (vs.arc_iff u v).trans (d.arc_iff_abs h u v), noLoops_of vs, vs.nodup⟩
  vview_spec := fun d h =>
    have vs := d.vview_spec h
    ⟨closed_of vs, fun x => (AdjMap.vertices_spec d h).2.2 x, vs.verts_asc,
     fun u v => (vs.arc_iff u v).trans (d.arc_iff_abs h u v)⟩

/-! ## Orders after a history -/

theorem AdjList.order_after (d : AdjList) (h : d.WF) (ops : List (Op Unit)) :
    (alModel.after d ops).order = d.order := by
  have ha := (alModel.run_refines d h ops).2.1
  have hV := congrArg SpecState.V ha
  have : (alModel.specAfter d ops).V = d.abs.V := specRun_fixed_V ops d.abs
  rw [this] at hV
  exact lt_of_decide_lt_eq hV

theorem AdjMatrix.order_after (d : AdjMatrix) (h : d.WF) (ops : List MxOp) :
    (mxModel.after d ops).order = d.order := by
  have ha := (mxModel.run_refines d h ops).2.1
  have hV := congrArg SpecState.V ha
  have : (mxModel.specAfter d ops).V = d.abs.V := specRunMx_V ops d.abs
  rw [this] at hV
  exact lt_of_decide_lt_eq hV

theorem EdgeList.order_after (d : EdgeList) (h : d.WF) (ops : List (Op Unit)) :
    (elModel.after d ops).order = d.order := by
  have ha := (elModel.run_refines d h ops).2.1
  have hV := congrArg SpecState.V ha
  have : (elModel.specAfter d ops).V = d.abs.V := specRun_fixed_V ops d.abs
  rw [this] at hV
  exact lt_of_decide_lt_eq hV

theorem AdjListW.order_after (d : AdjListW) (h : d.WF) (ops : List (Op Int)) :
    (wlModel.after d ops).order = d.order := by
  have ha := (wlModel.run_refines d h ops).2.1
  have hV := congrArg SpecState.V ha
  have : (wlModel.specAfter d ops).V = d.abs.V := specRun_fixed_V ops d.abs
  rw [this] at hV
  exact lt_of_decide_lt_eq hV

/-- A well-formed map whose abstract vertex set is `0..k` has the key list `0..k` and order `k`. -/
theorem AdjMap.contiguous_of_V (d : AdjMap) (h : d.WF) (k : Nat) (hV : ∀ x, d.abs.V x = true ↔ x < k) :
    Gen.AM.Contiguous d ∧ d.order = k := by
  have vs := AdjMap.vertices_spec d h
  have e : d.vertices = List.range k := by
    apply Query.sorted_ext vs.1 List.pairwise_lt_range
    intro x
    rw [vs.2.2 x, hV x]; simp
  have ho : d.order = k := by rw [AdjMap.order_eq, e]; simp
  exact ⟨by unfold Gen.AM.Contiguous; rw [e, ho], ho⟩

/-- After any history whose final SPEC vertex set is `0..k`, the map is contiguous of order `k`. -/
theorem AdjMap.contiguous_after (d : AdjMap) (h : d.WF) (ops : List (Op Unit)) (k : Nat)
    (hV : ∀ x, (amModel.specAfter d ops).V x = true ↔ x < k) :
    Gen.AM.Contiguous (amModel.after d ops) ∧ (amModel.after d ops).order = k := by
  obtain ⟨hw, ha, _⟩ := amModel.run_refines d h ops
  refine AdjMap.contiguous_of_V _ hw k ?_
  intro x
  have : (amModel.after d ops).abs = amModel.specAfter d ops := ha
  rw [this]; exact hV x

/-- In particular: a contiguous start and calls that mention only ids `< order`. -/
theorem AdjMap.contiguous_after_inrange (d : AdjMap) (h : d.WF) (hc : Gen.AM.Contiguous d)
    (ops : List (Op Unit)) (hops : ∀ op ∈ ops, ∀ x ∈ opIds op, x < d.order) :
    Gen.AM.Contiguous (amModel.after d ops) ∧ (amModel.after d ops).order = d.order := by
  have hV0 : ∀ x, d.abs.V x = true ↔ x < d.order := by
    intro x
    rw [← (AdjMap.vertices_spec d h).2.2 x, hc]; simp
  apply AdjMap.contiguous_after d h ops d.order
  intro x
  have : (amModel.specAfter d ops).V = d.abs.V :=
    specRun_growing_V ops d.abs (fun op hop y hy => (hV0 y).2 (hops op hop y hy))
  rw [this]; exact hV0 x

/-! ## The weighted list after any history (C03, C05 Dijkstra half, C07, C08) -/

/-- **`dijkstra_after_any_history`** and its companions: the weighted algorithms on the weighted
view of the final model state satisfy their properties w.r.t. the weighted arc set of the final
SPEC state (re-adding an arc replaced its weight, removed arcs are gone, rejected calls changed
nothing). -/
theorem AdjListW.weighted_after_any_history (d : AdjListW) (h : d.WF) (ops : List (Op Int)) :
    WeightedHold (wlModel.specAfter d ops).WArc d.order (wlModel.after d ops).wview := by
  obtain ⟨hw, ha, _⟩ := wlModel.run_refines d h ops
  have vs := AdjListW.wview_spec _ hw
  have hW : ∀ u v w, (wlModel.after d ops).wview.A u v w ↔ (wlModel.specAfter d ops).WArc u v w := by
    intro u v w
    have : (wlModel.after d ops).abs = wlModel.specAfter d ops := ha
    rw [← this]
    exact (vs.arc_iff u v w).trans (AdjListW.warc_iff_abs _ hw u v w)
  have hn : (wlModel.after d ops).wview.n = d.order := vs.order.trans (AdjListW.order_after d h ops)
  rw [← hn]
  exact weightedHold_of hW vs.wf vs.functional

end GraafVerif.Compose
