import GraafVerif.Proof.Query
import GraafVerif.Model.Pred
import GraafVerif.Spec.Pred
/-!
# C12 — generic lemmas: counting arcs of semicomplete digraphs / tournaments, the blanket impls,
pair scans
-/
namespace GraafVerif.Pred
open GraafVerif.Query

/-! ## counting: a semicomplete digraph has at least `n(n-1)/2` arcs, a tournament exactly that many -/

/-- `Σ_{u ∈ vs} |{v ∈ vs | A u v}|` -/
def total (vs : List Nat) (A : Nat → Nat → Bool) : Nat := (vs.map (fun u => (vs.filter (A u)).length)).sum

theorem size_eq_total (G : Digraph) : Spec.size G = total G.verts G.adj := by
  simp [Spec.size, Spec.arcs, Spec.outNeighbors, total, List.length_flatMap]

theorem sum_map_ind_add (l : List Nat) (p : Nat → Bool) (f : Nat → Nat) :
    (l.map (fun u => (if p u then 1 else 0) + f u)).sum = (l.filter p).length + (l.map f).sum := by
  induction l with
  | nil => rfl
  | cons a l ih =>
    simp only [List.map_cons, List.sum_cons, ih, List.filter_cons]
    cases p a <;> simp <;> omega

theorem total_cons (a : Nat) (rest : List Nat) (A : Nat → Nat → Bool) (haa : A a a = false) :
    total (a :: rest) A = (rest.filter (A a)).length + (rest.filter (fun u => A u a)).length + total rest A := by
  unfold total
  simp only [List.map_cons, List.sum_cons, List.filter_cons, haa]
  have : (rest.map (fun u => (if A u a = true then a :: rest.filter (A u) else rest.filter (A u)).length))
      = rest.map (fun u => (if A u a then 1 else 0) + (rest.filter (A u)).length) := by
    apply List.map_congr_left
    intro u _
    cases A u a <;> simp <;> omega
  rw [this, sum_map_ind_add]
  simp; omega

theorem filter_cover_ge (l : List Nat) (p q : Nat → Bool) (h : ∀ x ∈ l, p x = true ∨ q x = true) :
    l.length ≤ (l.filter p).length + (l.filter q).length := by
  induction l with
  | nil => simp
  | cons a l ih =>
    have ha := h a (by simp)
    have := ih (fun x hx => h x (by simp [hx]))
    simp only [List.filter_cons, List.length_cons]
    rcases ha with ha | ha <;> cases hp : p a <;> cases hq : q a <;> simp_all <;> omega

theorem filter_cover_eq (l : List Nat) (p q : Nat → Bool) (h : ∀ x ∈ l, (p x = true ↔ q x = false)) :
    (l.filter p).length + (l.filter q).length = l.length := by
  induction l with
  | nil => simp
  | cons a l ih =>
    have ha := h a (by simp)
    have := ih (fun x hx => h x (by simp [hx]))
    simp only [List.filter_cons, List.length_cons]
    cases hp : p a <;> cases hq : q a <;> simp_all <;> omega

theorem tri_succ (k : Nat) : (k + 1) * (k + 1 - 1) / 2 = k + k * (k - 1) / 2 := by
  cases k with
  | zero => rfl
  | succ k =>
    have : (k + 1 + 1) * (k + 1 + 1 - 1) = 2 * (k + 1) + (k + 1) * (k + 1 - 1) := by
      simp only [Nat.add_sub_cancel, Nat.add_mul, Nat.mul_add, Nat.mul_one, Nat.one_mul]
      omega
    rw [this, Nat.mul_add_div (by decide)]

theorem total_ge_of_semicomplete : ∀ (vs : List Nat) (A : Nat → Nat → Bool), vs.Nodup → (∀ u ∈ vs, A u u = false) →
    (∀ u ∈ vs, ∀ v ∈ vs, u ≠ v → A u v = true ∨ A v u = true) → vs.length * (vs.length - 1) / 2 ≤ total vs A
  | [], _, _, _, _ => by simp
  | a :: rest, A, hn, hirr, h => by
    rw [List.nodup_cons] at hn
    have ih := total_ge_of_semicomplete rest A hn.2 (fun u hu => hirr u (by simp [hu]))
      (fun u hu v hv huv => h u (by simp [hu]) v (by simp [hv]) huv)
    rw [total_cons a rest A (hirr a (by simp)), List.length_cons, tri_succ]
    have := filter_cover_ge rest (A a) (fun u => A u a) (fun x hx =>
      h a (by simp) x (by simp [hx]) (fun e => hn.1 (e ▸ hx)))
    omega

theorem total_eq_of_tournament : ∀ (vs : List Nat) (A : Nat → Nat → Bool), vs.Nodup → (∀ u ∈ vs, A u u = false) →
    (∀ u ∈ vs, ∀ v ∈ vs, u ≠ v → (A u v = true ↔ A v u = false)) → total vs A = vs.length * (vs.length - 1) / 2
  | [], _, _, _, _ => by simp [total]
  | a :: rest, A, hn, hirr, h => by
    rw [List.nodup_cons] at hn
    have ih := total_eq_of_tournament rest A hn.2 (fun u hu => hirr u (by simp [hu]))
      (fun u hu v hv huv => h u (by simp [hu]) v (by simp [hv]) huv)
    rw [total_cons a rest A (hirr a (by simp)), List.length_cons, tri_succ]
    have := filter_cover_eq rest (A a) (fun u => A u a) (fun x hx =>
      h a (by simp) x (by simp [hx]) (fun e => hn.1 (e ▸ hx)))
    omega

theorem size_ge_of_semicomplete {G : Digraph} (hG : G.Valid) (h : Def.IsSemicomplete G) :
    G.verts.length * (G.verts.length - 1) / 2 ≤ Spec.size G := by
  rw [size_eq_total]
  exact total_ge_of_semicomplete _ _ (nodup_of_sorted hG.sorted) (fun u _ => hG.irrefl u) h

theorem size_eq_of_tournament {G : Digraph} (hG : G.Valid) (h : Def.IsTournament G) :
    Spec.size G = G.verts.length * (G.verts.length - 1) / 2 := by
  rw [size_eq_total]
  exact total_eq_of_tournament _ _ (nodup_of_sorted hG.sorted) (fun u _ => hG.irrefl u) h

/-! ## the blanket impls, generically over `Core` -/

theorem allO_eq_some {α : Type} (f : α → Option Bool) (g : α → Bool) :
    ∀ l : List α, (∀ a ∈ l, f a = some (g a)) → allO f l = some (l.all g)
  | [], _ => rfl
  | a :: as, h => by
    have ha := h a (by simp)
    have ih := allO_eq_some f g as (fun x hx => h x (by simp [hx]))
    simp only [allO, ha, List.all_cons]
    cases g a
    · rfl
    · simpa using ih

theorem isBalanced_correct {q : Core} {G : Digraph} (h : CoreCorrect q G) :
    ∃ b, Blanket.isBalanced q = some b ∧ (b = true ↔ Def.IsBalanced G) := by
  refine ⟨G.verts.all (fun u => Spec.indegree G u == Spec.outdegree G u), ?_, ?_⟩
  · unfold Blanket.isBalanced
    rw [h.vertices]
    exact allO_eq_some _ _ _ (fun u hu => by simp [h.indegree u hu, h.outdegree u hu])
  · simp [Def.IsBalanced, List.all_eq_true]

theorem isSymmetric_correct {q : Core} {G : Digraph} (h : CoreCorrect q G) :
    Blanket.isSymmetric q = true ↔ Def.IsSymmetric G := by
  simp only [Blanket.isSymmetric, List.all_eq_true, Def.IsSymmetric, h.hasArc, Spec.hasArc]
  constructor
  · intro ha u v huv
    exact ha (u, v) ((h.arcs_mem u v).2 huv)
  · intro hs a ha
    exact hs a.1 a.2 ((h.arcs_mem a.1 a.2).1 ha)

theorem isOriented_correct {q : Core} {G : Digraph} (h : CoreCorrect q G) :
    Blanket.isOriented q = true ↔ Def.IsOriented G := by
  simp only [Blanket.isOriented, List.all_eq_true, Def.IsOriented, h.hasArc, Spec.hasArc, Bool.not_eq_true']
  constructor
  · intro ha u v huv
    exact ha (u, v) ((h.arcs_mem u v).2 huv)
  · intro hs a ha
    exact hs a.1 a.2 ((h.arcs_mem a.1 a.2).1 ha)

theorem isRegular_correct {q : Core} {G : Digraph} (h : CoreCorrect q G) (hne : G.verts ≠ []) :
    ∃ b, Blanket.isRegular q = some b ∧ (b = true ↔ Def.IsRegular G) := by
  have hs := (derived_correct h).semidegreeSequence
  unfold Blanket.isRegular
  rw [hs]
  unfold Spec.semidegreeSequence
  cases hv : G.verts with
  | nil => exact absurd hv hne
  | cons a rest =>
    simp only [List.map_cons]
    refine ⟨_, rfl, ?_⟩
    simp only [Bool.and_eq_true, beq_iff_eq, List.all_eq_true, List.mem_map, Def.IsRegular, hv, List.mem_cons]
    constructor
    · rintro ⟨hk, hall⟩
      refine ⟨Spec.indegree G a, ?_⟩
      intro u hu
      rcases hu with rfl | hu
      · exact ⟨rfl, hk.symm⟩
      · have := hall (Spec.indegree G u, Spec.outdegree G u) ⟨u, hu, rfl⟩
        exact ⟨this.1, this.2.trans hk.symm⟩
    · rintro ⟨k, hk⟩
      have ha := hk a (Or.inl rfl)
      refine ⟨by rw [ha.1, ha.2], ?_⟩
      rintro p ⟨u, hu, rfl⟩
      have := hk u (Or.inr hu)
      exact ⟨by rw [this.1, ha.1], by rw [this.2, ha.2]⟩

theorem isSubdigraph_correct {h d : Core} {H D : Digraph} (hh : CoreCorrect h H) (hd : CoreCorrect d D) (hH : H.Valid) :
    Blanket.isSubdigraph h d = true ↔ Def.IsSubdigraph H D := by
  simp only [Blanket.isSubdigraph, Bool.and_eq_true, List.all_eq_true, hd.hasArc, Spec.hasArc, hh.vertices, hd.vertices,
    List.contains_iff_mem, Def.IsSubdigraph]
  constructor
  · rintro ⟨ha, hv⟩
    exact ⟨hv, fun u v huv => (ha (u, v) ((hh.arcs_mem u v).2 huv)).1.1⟩
  · rintro ⟨hv, ha⟩
    refine ⟨fun a ham => ?_, hv⟩
    have hadj := (hh.arcs_mem a.1 a.2).1 ham
    exact ⟨⟨ha _ _ hadj, (hH.closed _ _ hadj).1⟩, (hH.closed _ _ hadj).2⟩

theorem isSuperdigraph_correct {h d : Core} {H D : Digraph} (hh : CoreCorrect h H) (hd : CoreCorrect d D) (hD : D.Valid) :
    Blanket.isSuperdigraph h d = true ↔ Def.IsSuperdigraph H D :=
  isSubdigraph_correct hd hh hD

theorem isSpanningSubdigraph_correct {h d : Core} {H D : Digraph} (hh : CoreCorrect h H) (hd : CoreCorrect d D) :
    Blanket.isSpanningSubdigraph h d = true ↔ Def.IsSpanningSubdigraph H D := by
  simp only [Blanket.isSpanningSubdigraph, Bool.and_eq_true, beq_iff_eq, List.all_eq_true, hd.hasArc, Spec.hasArc,
    hh.vertices, hd.vertices, Def.IsSpanningSubdigraph]
  constructor
  · rintro ⟨hv, ha⟩
    exact ⟨hv, fun u v huv => ha (u, v) ((hh.arcs_mem u v).2 huv)⟩
  · rintro ⟨hv, ha⟩
    exact ⟨hv, fun a ham => ha _ _ ((hh.arcs_mem a.1 a.2).1 ham)⟩

/-! ## pair scans `(0..n).all(|u| (u+1..n).all(|v| f u v))` -/
theorem mem_above {u n v : Nat} : v ∈ above u n ↔ u < v ∧ v < n := by
  simp only [above, List.mem_range'_1]
  omega

theorem pairScan_iff (n : Nat) (f : Nat → Nat → Bool) :
    (List.range n).all (fun u => (above u n).all (f u)) = true ↔ ∀ u v, u < v → v < n → f u v = true := by
  simp only [List.all_eq_true, List.mem_range, mem_above]
  constructor
  · intro h u v huv hv; exact h u (by omega) v ⟨huv, hv⟩
  · intro h u _ v hv; exact h u v hv.1 hv.2

/-- For a symmetric test the scan over `u < v` decides the property of all ordered pairs `u ≠ v`. -/
theorem pairScan_symm (n : Nat) (f : Nat → Nat → Bool) (hs : ∀ u v, f u v = f v u) :
    (List.range n).all (fun u => (above u n).all (f u)) = true ↔ ∀ u, u < n → ∀ v, v < n → u ≠ v → f u v = true := by
  rw [pairScan_iff]
  constructor
  · intro h u hu v hv huv
    rcases Nat.lt_or_gt_of_ne huv with hlt | hlt
    · exact h u v hlt hv
    · rw [hs]; exact h v u hlt hu
  · intro h u v huv hv; exact h u (by omega) v hv (by omega)

/-! ## `is_complete` as a row-length test: all outdegrees are `n - 1` -/
theorem filter_mono_le (l : List Nat) (p q : Nat → Bool) (hpq : ∀ x ∈ l, p x = true → q x = true) :
    (l.filter p).length ≤ (l.filter q).length := by
  induction l with
  | nil => simp
  | cons a l ih =>
    have := ih (fun x hx => hpq x (by simp [hx]))
    have ha := hpq a (by simp)
    simp only [List.filter_cons]
    cases hp : p a <;> cases hq : q a <;> simp_all <;> omega

theorem filter_mono_eq_iff (l : List Nat) (p q : Nat → Bool) (hpq : ∀ x ∈ l, p x = true → q x = true) :
    (l.filter p).length = (l.filter q).length ↔ ∀ x ∈ l, q x = true → p x = true := by
  induction l with
  | nil => simp
  | cons a l ih =>
    have hle := filter_mono_le l p q (fun x hx => hpq x (by simp [hx]))
    have ih := ih (fun x hx => hpq x (by simp [hx]))
    have ha := hpq a (by simp)
    simp only [List.filter_cons, List.mem_cons, forall_eq_or_imp]
    cases hp : p a <;> cases hq : q a <;> simp_all <;> omega

theorem filter_ne_length {l : List Nat} (hn : l.Nodup) {u : Nat} (hu : u ∈ l) :
    (l.filter (fun v => v != u)).length = l.length - 1 := by
  induction l with
  | nil => simp at hu
  | cons a l ih =>
    rw [List.nodup_cons] at hn
    simp only [List.filter_cons, List.length_cons]
    by_cases hau : a = u
    · subst hau
      have : l.filter (fun v => v != a) = l := by
        rw [List.filter_eq_self]
        intro x hx
        have : x ≠ a := fun e => hn.1 (e ▸ hx)
        simp [this]
      simp [this]
    · have hul : u ∈ l := by
        rcases List.mem_cons.1 hu with h | h
        · exact absurd h.symm hau
        · exact h
      have := ih hn.2 hul
      have hpos : 0 < l.length := List.length_pos_of_mem hul
      simp [hau, this]; omega

/-- `u` is joined to every other vertex iff its outdegree is `|V| - 1`. -/
theorem outdegree_eq_pred_iff {G : Digraph} (hG : G.Valid) {u : Nat} (hu : u ∈ G.verts) :
    Spec.outdegree G u = G.verts.length - 1 ↔ ∀ v ∈ G.verts, u ≠ v → G.adj u v = true := by
  rw [← filter_ne_length (nodup_of_sorted hG.sorted) hu, Spec.outdegree, Spec.outNeighbors]
  rw [filter_mono_eq_iff _ _ _ (fun x _ hx => by
    have : x ≠ u := fun e => by rw [e, hG.irrefl u] at hx; exact absurd hx (by simp)
    simp [this])]
  constructor
  · intro h v hv huv; exact h v hv (by simp; exact fun e => huv e.symm)
  · intro h v hv hvu; exact h v hv (by simp at hvu; exact fun e => hvu e.symm)

theorem isComplete_iff_outdegree {G : Digraph} (hG : G.Valid) :
    Def.IsComplete G ↔ ∀ u ∈ G.verts, Spec.outdegree G u = G.verts.length - 1 := by
  unfold Def.IsComplete
  constructor
  · intro h u hu; exact (outdegree_eq_pred_iff hG hu).2 (h u hu)
  · intro h u hu; exact (outdegree_eq_pred_iff hG hu).1 (h u hu)

/-! ## the `size` pre-check + pair scan of the contiguous representations (matrix, edge list, weighted list) -/
theorem semiScan_correct {G : Digraph} (hG : G.Valid) (n : Nat) (hv : G.verts = List.range n)
    (size : Nat) (hs : size = Spec.size G) :
    (decide (size ≥ n * (n - 1) / 2) &&
      (List.range n).all (fun u => (above u n).all (fun v => G.adj u v || G.adj v u))) = true
    ↔ Def.IsSemicomplete G := by
  have hscan : (List.range n).all (fun u => (above u n).all (fun v => G.adj u v || G.adj v u)) = true
      ↔ Def.IsSemicomplete G := by
    rw [pairScan_symm n (fun u v => G.adj u v || G.adj v u) (fun u v => Bool.or_comm _ _)]
    simp only [Def.IsSemicomplete, hv, List.mem_range, Bool.or_eq_true]
  rw [Bool.and_eq_true, hscan, decide_eq_true_eq]
  constructor
  · exact fun h => h.2
  · intro h
    refine ⟨?_, h⟩
    have := size_ge_of_semicomplete hG h
    rw [hv, List.length_range, ← hs] at this
    exact this

theorem tourScan_correct {G : Digraph} (hG : G.Valid) (n : Nat) (hv : G.verts = List.range n)
    (size : Nat) (hs : size = Spec.size G) :
    (if size != n * (n - 1) / 2 then false
     else (List.range n).all (fun u => (above u n).all (fun v => G.adj u v != G.adj v u))) = true
    ↔ Def.IsTournament G := by
  have hscan : (List.range n).all (fun u => (above u n).all (fun v => G.adj u v != G.adj v u)) = true
      ↔ Def.IsTournament G := by
    rw [pairScan_symm n (fun u v => G.adj u v != G.adj v u)
      (fun u v => by cases G.adj u v <;> cases G.adj v u <;> rfl)]
    simp only [Def.IsTournament, hv, List.mem_range]
    constructor
    · intro hh u hu v hv' huv
      have := hh u hu v hv' huv
      cases h1 : G.adj u v <;> cases h2 : G.adj v u <;> simp_all
    · intro hh u hu v hv' huv
      have := hh u hu v hv' huv
      cases h1 : G.adj u v <;> cases h2 : G.adj v u <;> simp_all
  by_cases hsz : size = n * (n - 1) / 2
  · have : (size != n * (n - 1) / 2) = false := by simp [hsz]
    rw [this]; simpa using hscan
  · have : (size != n * (n - 1) / 2) = true := by simp [hsz]
    rw [this]
    simp only [if_true, Bool.false_eq_true, false_iff]
    intro hdef
    have := size_eq_of_tournament hG hdef
    rw [hv, List.length_range, ← hs] at this
    exact hsz this

end GraafVerif.Pred
