import GraafVerif.Proof.ChkGenBfs
/-!
# C13 on the regenerated DFS family (`Model/AlgoGen.lean`, generated from `src/algo/dfs*.rs`)

`Dfs*::new` has no check (and no unchecked access); `next` asserts the popped vertex and every
successor against `visited.len()` before indexing: safe in EVERY state, for every digraph.
-/
namespace GraafVerif.C13Gen
open GraafVerif GraafVerif.AlgoGen

namespace Dfs

/-- One neighbour of the push loop: reads `visited[v]` after the assert; `visited` is not written. -/
theorem next_for0_safe {R : Option Nat × AlgoGen.Dfs → Prop}  (vis : List Bool) (self : AlgoGen.Dfs) (v : Nat)
    (h : self.visited = vis) :
    Safe (AlgoGen.Dfs.next_for0 vis.length self v) (fun s => s.visited = vis) (fun s => s.visited = vis) R := by
  unfold AlgoGen.Dfs.next_for0
  refine safe_bind (safe_assert _) (fun _ ha => ?_)
  have hv : v < vis.length := by simpa using ha
  refine safe_bind (safe_rd _ _ _ (by rw [h]; exact hv)) (fun t3 _ => ?_)
  split
  · exact safe_pure h
  · exact safe_pure h

/-- `Dfs::next` in EVERY state (the popped vertex is asserted, then `visited` is indexed): no `ub`;
`visited` keeps its length and a yielded item's vertex is below it. -/
theorem next_safe_any (g : Graph) (s : AlgoGen.Dfs) :
    RSafe (AlgoGen.Dfs.next g s) (fun r => r.2.visited.length = s.visited.length ∧
      ∀ x, r.1 = some x → x < s.visited.length) := by
  unfold AlgoGen.Dfs.next
  refine safe_fnBody ?_
  cases hp : vecPop s.stack with
  | none => exact safe_ret ⟨rfl, by intro x hx; cases hx⟩
  | some t0 =>
    simp only []
    refine safe_bind (safe_assert _) (fun _ ha => ?_)
    have hu : t0.1 < s.visited.length := by simpa using ha
    refine safe_bind (safe_rd _ _ _ hu) (fun t1 _ => ?_)
    split
    · exact safe_ret ⟨rfl, by intro x hx; cases hx⟩
    · refine safe_bind (safe_wr _ _ _ _ hu) (fun t2 ht2 => ?_)
      refine safe_bind (safe_forLoop _ _ _ (fun (s' : AlgoGen.Dfs) => s'.visited = t2) _ rfl
        (fun s' v _ hs' => by
          have := next_for0_safe (R := fun r => r.2.visited.length = s.visited.length ∧
            ∀ x, r.1 = some x → x < s.visited.length)  t2 s' v hs'
          rw [ht2] at this ⊢
          simpa using this)) (fun s' hs' => ?_)
      refine safe_pure ⟨by rw [hs', ht2]; simp, ?_⟩
      intro x hx; cases hx; exact hu

theorem new_len (g : Graph) (S : List Nat) : RSafe (AlgoGen.Dfs.new g S) (fun s => s.visited.length = g.n) := by
  unfold AlgoGen.Dfs.new
  exact safe_fnBody (safe_pure (by simp))

end Dfs

namespace DfsDist

/-- One neighbour of the push loop: reads `visited[v]` after the assert; `visited` is not written. -/
theorem next_for0_safe {R : Option (Nat × Nat) × AlgoGen.DfsDist → Prop} (w : Nat) (vis : List Bool) (self : AlgoGen.DfsDist) (v : Nat)
    (h : self.visited = vis) :
    Safe (AlgoGen.DfsDist.next_for0 vis.length w self v) (fun s => s.visited = vis) (fun s => s.visited = vis) R := by
  unfold AlgoGen.DfsDist.next_for0
  refine safe_bind (safe_assert _) (fun _ ha => ?_)
  have hv : v < vis.length := by simpa using ha
  refine safe_bind (safe_rd _ _ _ (by rw [h]; exact hv)) (fun t3 _ => ?_)
  split
  · exact safe_pure h
  · exact safe_pure h

/-- `DfsDist::next` in EVERY state (the popped vertex is asserted, then `visited` is indexed): no `ub`;
`visited` keeps its length and a yielded item's vertex is below it. -/
theorem next_safe_any (g : Graph) (s : AlgoGen.DfsDist) :
    RSafe (AlgoGen.DfsDist.next g s) (fun r => r.2.visited.length = s.visited.length ∧
      ∀ x, r.1 = some x → x.1 < s.visited.length) := by
  unfold AlgoGen.DfsDist.next
  refine safe_fnBody ?_
  cases hp : vecPop s.stack with
  | none => exact safe_ret ⟨rfl, by intro x hx; cases hx⟩
  | some t0 =>
    simp only []
    refine safe_bind (safe_assert _) (fun _ ha => ?_)
    have hu : t0.1.1 < s.visited.length := by simpa using ha
    refine safe_bind (safe_rd _ _ _ hu) (fun t1 _ => ?_)
    split
    · exact safe_ret ⟨rfl, by intro x hx; cases hx⟩
    · refine safe_bind (safe_wr _ _ _ _ hu) (fun t2 ht2 => ?_)
      refine safe_bind (safe_forLoop _ _ _ (fun (s' : AlgoGen.DfsDist) => s'.visited = t2) _ rfl
        (fun s' v _ hs' => by
          have := next_for0_safe (R := fun r => r.2.visited.length = s.visited.length ∧
            ∀ x, r.1 = some x → x.1 < s.visited.length) (t0.1.2 + 1) t2 s' v hs'
          rw [ht2] at this ⊢
          simpa using this)) (fun s' hs' => ?_)
      refine safe_pure ⟨by rw [hs', ht2]; simp, ?_⟩
      intro x hx; cases hx; exact hu

theorem new_len (g : Graph) (S : List Nat) : RSafe (AlgoGen.DfsDist.new g S) (fun s => s.visited.length = g.n) := by
  unfold AlgoGen.DfsDist.new
  exact safe_fnBody (safe_pure (by simp))

end DfsDist

namespace DfsPred

/-- One neighbour of the push loop: reads `visited[v]` after the assert; `visited` is not written. -/
theorem next_for0_safe {R : Option (Option Nat × Nat) × AlgoGen.DfsPred → Prop} (p : Nat) (vis : List Bool) (self : AlgoGen.DfsPred) (v : Nat)
    (h : self.visited = vis) :
    Safe (AlgoGen.DfsPred.next_for0 p vis.length self v) (fun s => s.visited = vis) (fun s => s.visited = vis) R := by
  unfold AlgoGen.DfsPred.next_for0
  refine safe_bind (safe_assert _) (fun _ ha => ?_)
  have hv : v < vis.length := by simpa using ha
  refine safe_bind (safe_rd _ _ _ (by rw [h]; exact hv)) (fun t3 _ => ?_)
  split
  · exact safe_pure h
  · exact safe_pure h

/-- `DfsPred::next` in EVERY state (the popped vertex is asserted, then `visited` is indexed): no `ub`;
`visited` keeps its length and a yielded item's vertex is below it. -/
theorem next_safe_any (g : Graph) (s : AlgoGen.DfsPred) :
    RSafe (AlgoGen.DfsPred.next g s) (fun r => r.2.visited.length = s.visited.length ∧
      ∀ x, r.1 = some x → x.2 < s.visited.length) := by
  unfold AlgoGen.DfsPred.next
  refine safe_fnBody ?_
  cases hp : vecPop s.stack with
  | none => exact safe_ret ⟨rfl, by intro x hx; cases hx⟩
  | some t0 =>
    simp only []
    refine safe_bind (safe_assert _) (fun _ ha => ?_)
    have hu : t0.1.2 < s.visited.length := by simpa using ha
    refine safe_bind (safe_rd _ _ _ hu) (fun t1 _ => ?_)
    split
    · exact safe_ret ⟨rfl, by intro x hx; cases hx⟩
    · refine safe_bind (safe_wr _ _ _ _ hu) (fun t2 ht2 => ?_)
      refine safe_bind (safe_forLoop _ _ _ (fun (s' : AlgoGen.DfsPred) => s'.visited = t2) _ rfl
        (fun s' v _ hs' => by
          have := next_for0_safe (R := fun r => r.2.visited.length = s.visited.length ∧
            ∀ x, r.1 = some x → x.2 < s.visited.length) t0.1.2 t2 s' v hs'
          rw [ht2] at this ⊢
          simpa using this)) (fun s' hs' => ?_)
      refine safe_pure ⟨by rw [hs', ht2]; simp, ?_⟩
      intro x hx; cases hx; exact hu

theorem new_len (g : Graph) (S : List Nat) : RSafe (AlgoGen.DfsPred.new g S) (fun s => s.visited.length = g.n) := by
  unfold AlgoGen.DfsPred.new
  exact safe_fnBody (safe_pure (by simp))

end DfsPred

namespace DfsPred

/-- `DfsPred::predecessors` on every state whose `visited` has `order` entries (what `new` builds and
`next` keeps), every fuel. -/
theorem predecessors_safe (g : Graph) (fuel : Nat) (s : AlgoGen.DfsPred) (h : s.visited.length = g.n) :
    RSafe (AlgoGen.DfsPred.predecessors g fuel s) (fun r => r.1.pred.length = g.n ∧ r.2.visited.length = g.n) := by
  unfold AlgoGen.DfsPred.predecessors
  refine safe_fnBody ?_
  refine safe_bind (safe_call (PredecessorTree.new_safe g.n)) (fun t0 ht0 => ?_)
  refine safe_bind (safe_iterLoop (AlgoGen.DfsPred.next g) AlgoGen.DfsPred.predecessors_for0
    (fun (t : AlgoGen.DfsPred) => t.visited.length = g.n) (fun x => x.2 < g.n)
    (fun (p : AlgoGen.PredecessorTree) => p.pred.length = g.n) _ ?_ ?_ fuel s _ h ht0) (fun t1 ht1 => safe_pure ht1)
  · intro t ht
    refine (next_safe_any g t).mono ?_
    intro r ⟨h1, h2⟩
    exact ⟨by rw [h1]; exact ht, fun x hx => by rw [← ht]; exact h2 x hx⟩
  · intro p x hp hx
    unfold AlgoGen.DfsPred.predecessors_for0
    exact safe_bind (safe_wr_len _ p.pred x.2 x.1 g.n hp hx) (fun t0 ht0 => safe_pure ht0)

end DfsPred

end GraafVerif.C13Gen
