import GraafVerif.Proof.ChkTraversal
import GraafVerif.Proof.ChkPredTree
/-!
# The derived entry points (`distances`, `predecessors`, `shortest_path`, `cycles`) — C13, P1

They write `*ptr.add(u)` into a vector of `digraph.order()` elements for every `u` the iterator
yields: in range because the iterator only yields checked vertices (`QInv`/`HInv`/the DFS assert).
-/
namespace GraafVerif.Chk

/-- What the loops below need from an iterator: an invariant `I` kept by `next`, under which
`next` has no UB and every yielded item satisfies `Q`. -/
def IterSpec {σ ι : Type} (next : σ → Chk (Option ι × σ)) (I : σ → Prop) (Q : ι → Prop) : Prop :=
  ∀ st, I st → NoUB (next st) ∧ ∀ o st', next st = .ok (o, st') → I st' ∧ ∀ it, o = some it → Q it

theorem forEach_spec {σ ι α : Type} (next : σ → Chk (Option ι × σ)) (body : α → ι → Chk α)
    (I : σ → Prop) (Q : ι → Prop) (J : α → Prop) (hnext : IterSpec next I Q)
    (hbody : ∀ acc it, J acc → Q it → NoUB (body acc it) ∧ ∀ acc', body acc it = .ok acc' → J acc') :
    ∀ (fuel : Nat) (st : σ) (acc : α), I st → J acc →
      NoUB (forEach next body fuel st acc) ∧ ∀ r, forEach next body fuel st acc = .ok r → J r.1 ∧ I r.2 := by
  intro fuel
  induction fuel with
  | zero =>
    intro st acc hi hj
    unfold forEach
    refine ⟨noUB_pure _, ?_⟩
    intro r h; cases h; exact ⟨hj, hi⟩
  | succ fuel ih =>
    intro st acc hi hj
    unfold forEach
    obtain ⟨hn1, hn2⟩ := hnext st hi
    constructor
    · apply noUB_bind hn1
      intro r hr
      obtain ⟨o, st'⟩ := r
      obtain ⟨hi', hq⟩ := hn2 o st' hr
      cases o with
      | none => exact noUB_pure _
      | some it =>
        simp only []
        obtain ⟨hb1, hb2⟩ := hbody acc it hj (hq it rfl)
        apply noUB_bind hb1
        intro acc' hacc
        exact (ih st' acc' hi' (hb2 acc' hacc)).1
    · intro r h
      obtain ⟨r1, hr, h⟩ := bind_ok h
      obtain ⟨o, st'⟩ := r1
      obtain ⟨hi', hq⟩ := hn2 o st' hr
      cases o with
      | none => simp only [] at h; cases h; exact ⟨hj, hi'⟩
      | some it =>
        simp only [] at h
        obtain ⟨acc', hacc, h⟩ := bind_ok h
        obtain ⟨_, hb2⟩ := hbody acc it hj (hq it rfl)
        exact (ih st' acc' hi' (hb2 acc' hacc)).2 r h

/-- writing `*ptr.add(i) = x` for an `i` below the vector's length keeps the length -/
theorem wr_body_spec {α : Type} (site : String) (n : Nat) (d : List α) (i : Nat) (x : α)
    (hd : d.length = n) (hi : i < n) :
    NoUB (wr site d i x) ∧ ∀ d', wr site d i x = .ok d' → d'.length = n :=
  ⟨noUB_wr (by rw [hd]; exact hi), fun d' h => by rw [wr_length h]; exact hd⟩

/-! ### the iterators as `IterSpec`s -/

theorem bfsNextG_iterSpec {ι : Type} (site : String) (vtx : ι → Nat) (mk : ι → Nat → ι)
    (hmk : ∀ it v, vtx (mk it v) = v) (g : CGraph) (n : Nat) :
    IterSpec (bfsNextG site vtx mk g) (QInv vtx n) (fun it => vtx it < n) := by
  intro st hi
  obtain ⟨h1, h2⟩ := bfsNextG_spec site vtx mk hmk g st
  exact ⟨h1, fun o st' h => h2 n hi o st' h⟩

theorem dfsNextG_iterSpec {ι : Type} (site : String) (vtx : ι → Nat) (mk : ι → Nat → ι) (g : CGraph) (n : Nat) :
    IterSpec (dfsNextG site vtx mk g) (fun st => st.visited.length = n) (fun it => vtx it < n) := by
  intro st hi
  obtain ⟨h1, h2⟩ := dfsNextG_spec site vtx mk g st
  refine ⟨h1, ?_⟩
  intro o st' h
  obtain ⟨hl, hq⟩ := h2 o st' h
  exact ⟨by show st'.visited.length = n; rw [hl]; exact hi, fun it e => by rw [← hi]; exact hq it e⟩

theorem dijNextG_iterSpec {ι : Type} (site : String) (better : ι → ι → Bool) (key vtx : ι → Nat)
    (mk : ι → Nat → Nat → ι) (hmk : ∀ it v w, vtx (mk it v w) = v) (g : WCGraph) (n : Nat) :
    IterSpec (dijNextG site better key vtx mk g) (HInv vtx n) (fun it => vtx it < n) :=
  fun st hi => dijNextG_spec site better key vtx mk hmk g n st hi

theorem dijkstraPredStep_iterSpec (g : WCGraph) (n : Nat) :
    IterSpec (dijkstraPredStep g) (HInv (·.2.2) n) (fun it => it.2 < n) := by
  intro st hi
  unfold dijkstraPredStep dijkstraPredNext
  obtain ⟨h1, h2⟩ := dijNextG_iterSpec "dijkstra_pred.rs:next:dist_ptr.add(·)" betterDPV (·.1) (·.2.2)
    (fun it v w => (w, some it.2.2, v)) (fun _ _ _ => rfl) g n st hi
  constructor
  · exact noUB_bind h1 (fun _ _ => noUB_pure _)
  · intro o st' h
    obtain ⟨r, hr, h⟩ := bind_ok h
    obtain ⟨o1, st1⟩ := r
    cases h
    obtain ⟨hinv, hq⟩ := h2 o1 st1 hr
    refine ⟨hinv, ?_⟩
    intro it hit
    cases o1 with
    | none => cases hit
    | some x => cases hit; exact hq x rfl

/-! ### `distances` -/

theorem bfsDistDistances_noUB (g : CGraph) (sources : List Nat) (fuel : Nat) :
    NoUB (bfsDistNew g.order sources >>= bfsDistDistances g fuel) := by
  unfold bfsDistNew
  obtain ⟨h1, h2⟩ := bfsNewG_spec "bfs_dist.rs:new:*visited_ptr.add(u)" (·.1) (fun u => (u, 0)) (fun _ => rfl) g.order sources
  apply noUB_bind h1
  intro st hst
  unfold bfsDistDistances bfsDistNext
  have := forEach_spec _ (fun (d : List Nat) (it : Nat × Nat) => wr "bfs_dist.rs:distances:*ptr.add(u)" d it.1 it.2)
    _ _ (fun d => d.length = g.order)
    (bfsNextG_iterSpec "bfs_dist.rs:next:visited_ptr.add(v)" (·.1) (fun it v => (v, it.2 + 1)) (fun _ _ => rfl) g g.order)
    (fun acc it hj hq => wr_body_spec _ g.order acc it.1 it.2 hj hq)
    fuel st (List.replicate g.order INF) (h2 st hst) (by simp)
  exact noUB_bind this.1 (fun _ _ => noUB_pure _)

theorem dijkstraDistDistances_noUB (g : WCGraph) (sources : List Nat) (fuel : Nat) :
    NoUB (dijkstraDistNew g.order sources >>= dijkstraDistDistances g fuel) := by
  unfold dijkstraDistNew
  obtain ⟨h1, h2⟩ := dijNewG_spec "dijkstra_dist.rs:new:*dist_ptr.add(u)" (·.2) (fun u => (0, u)) (fun _ => rfl) g.order sources
  apply noUB_bind h1
  intro st hst
  unfold dijkstraDistDistances dijkstraDistNext
  have := forEach_spec _ (fun (d : List Nat) (it : Nat × Nat) => wr "dijkstra_dist.rs:distances:*ptr.add(u.0)" d it.2 it.1)
    _ _ (fun d => d.length = g.order)
    (dijNextG_iterSpec "dijkstra_dist.rs:next:*dist_ptr.add(·)" betterWU (·.1) (·.2) (fun _ v w => (w, v)) (fun _ _ _ => rfl) g g.order)
    (fun acc it hj hq => wr_body_spec _ g.order acc it.2 it.1 hj hq)
    fuel st (List.replicate g.order INF) (h2 st hst) (by simp)
  exact noUB_bind this.1 (fun _ _ => noUB_pure _)

/-! ### `predecessors` -/

theorem predTreeNew_spec (order : Nat) :
    NoUB (predTreeNew order) ∧ ∀ p, predTreeNew order = .ok p → p.length = order := by
  unfold predTreeNew
  constructor
  · exact noUB_bind (noUB_assert _) (fun _ _ => noUB_pure _)
  · intro p h
    obtain ⟨_, _, h⟩ := bind_ok h
    cases h; simp

theorem predecessorsG_noUB {σ : Type} (site : String) (next : σ → Chk (Option (Option Nat × Nat) × σ))
    (I : σ → Prop) (order : Nat) (hspec : IterSpec next I (fun it => it.2 < order)) (fuel : Nat) (st : σ) (hi : I st) :
    NoUB (predecessorsG site next order fuel st) := by
  unfold predecessorsG
  obtain ⟨h1, h2⟩ := predTreeNew_spec order
  apply noUB_bind h1
  intro pred hp
  have := forEach_spec next (fun (p : List (Option Nat)) (it : Option Nat × Nat) => wr site p it.2 it.1)
    I _ (fun p => p.length = order) hspec
    (fun acc it hj hq => wr_body_spec _ order acc it.2 it.1 hj hq) fuel st pred hi (h2 pred hp)
  exact noUB_bind this.1 (fun _ _ => noUB_pure _)

theorem bfsPredPredecessors_noUB (g : CGraph) (sources : List Nat) (fuel : Nat) :
    NoUB (bfsPredNew g.order sources >>= bfsPredPredecessors g fuel) := by
  unfold bfsPredNew
  obtain ⟨h1, h2⟩ := bfsNewG_spec (ι := Option Nat × Nat) "bfs_pred.rs:new:*visited_ptr.add(u)" (·.2) (fun u => (none, u)) (fun _ => rfl) g.order sources
  apply noUB_bind h1
  intro st hst
  unfold bfsPredPredecessors bfsPredNext
  exact predecessorsG_noUB _ _ _ g.order
    (bfsNextG_iterSpec "bfs_pred.rs:next:visited_ptr.add(u)" (·.2) (fun it v => (some it.2, v)) (fun _ _ => rfl) g g.order)
    fuel st (h2 st hst)

theorem dfsPredPredecessors_noUB (g : CGraph) (sources : List Nat) (fuel : Nat) :
    NoUB (dfsPredPredecessors g fuel (dfsPredNew g.order sources)) := by
  unfold dfsPredPredecessors dfsPredNext dfsPredNew
  exact predecessorsG_noUB _ _ _ g.order
    (dfsNextG_iterSpec "dfs_pred.rs:next:visited_ptr.add(·)" (·.2) (fun it v => (some it.2, v)) g g.order)
    fuel _ (by simp [dfsNewG])

theorem dijkstraPredPredecessors_noUB (g : WCGraph) (sources : List Nat) (fuel : Nat) :
    NoUB (dijkstraPredNew g.order sources >>= dijkstraPredPredecessors g fuel) := by
  unfold dijkstraPredNew
  obtain ⟨h1, h2⟩ := dijNewG_spec (ι := Nat × Option Nat × Nat) "dijkstra_pred.rs:new:*dist_ptr.add(u)" (·.2.2) (fun u => (0, none, u)) (fun _ => rfl) g.order sources
  apply noUB_bind h1
  intro st hst
  unfold dijkstraPredPredecessors
  exact predecessorsG_noUB _ _ _ g.order (dijkstraPredStep_iterSpec g g.order) fuel st (h2 st hst)

/-! ### `shortest_path` -/

theorem spLoop_noUB {σ : Type} (site : String) (next : σ → Chk (Option (Option Nat × Nat) × σ)) (isT : Nat → Bool)
    (I : σ → Prop) (order : Nat) (hspec : IterSpec next I (fun it => it.2 < order)) :
    ∀ (fuel : Nat) (st : σ) (pred : List (Option Nat)), I st → pred.length = order →
      NoUB (spLoop site next isT fuel st pred) := by
  intro fuel
  induction fuel with
  | zero => intro st pred _ _; unfold spLoop; exact noUB_pure _
  | succ fuel ih =>
    intro st pred hi hp
    unfold spLoop
    obtain ⟨hn1, hn2⟩ := hspec st hi
    apply noUB_bind hn1
    intro r hr
    obtain ⟨o, st'⟩ := r
    obtain ⟨hi', hq⟩ := hn2 o st' hr
    cases o with
    | none => exact noUB_pure _
    | some it =>
      simp only []
      obtain ⟨hw1, hw2⟩ := wr_body_spec site order pred it.2 it.1 hp (hq it rfl)
      apply noUB_bind hw1
      intro pred' hpred'
      split
      · exact noUB_bind (noUB_liftRes _) (fun _ _ => noUB_pure _)
      · exact ih st' pred' hi' (hw2 pred' hpred')

theorem shortestPathG_noUB {σ : Type} (site : String) (next : σ → Chk (Option (Option Nat × Nat) × σ)) (isT : Nat → Bool)
    (I : σ → Prop) (order : Nat) (hspec : IterSpec next I (fun it => it.2 < order)) (fuel : Nat) (st : σ) (hi : I st) :
    NoUB (shortestPathG site next order isT fuel st) := by
  unfold shortestPathG
  obtain ⟨h1, h2⟩ := predTreeNew_spec order
  apply noUB_bind h1
  intro pred hp
  exact spLoop_noUB site next isT I order hspec fuel st pred hi (h2 pred hp)

theorem bfsPredShortestPath_noUB (g : CGraph) (sources : List Nat) (isT : Nat → Bool) (fuel : Nat) :
    NoUB (bfsPredNew g.order sources >>= bfsPredShortestPath g isT fuel) := by
  unfold bfsPredNew
  obtain ⟨h1, h2⟩ := bfsNewG_spec (ι := Option Nat × Nat) "bfs_pred.rs:new:*visited_ptr.add(u)" (·.2) (fun u => (none, u)) (fun _ => rfl) g.order sources
  apply noUB_bind h1
  intro st hst
  unfold bfsPredShortestPath bfsPredNext
  exact shortestPathG_noUB _ _ isT _ g.order
    (bfsNextG_iterSpec "bfs_pred.rs:next:visited_ptr.add(u)" (·.2) (fun it v => (some it.2, v)) (fun _ _ => rfl) g g.order)
    fuel st (h2 st hst)

theorem dijkstraPredShortestPath_noUB (g : WCGraph) (sources : List Nat) (isT : Nat → Bool) (fuel : Nat) :
    NoUB (dijkstraPredNew g.order sources >>= dijkstraPredShortestPath g isT fuel) := by
  unfold dijkstraPredNew
  obtain ⟨h1, h2⟩ := dijNewG_spec (ι := Nat × Option Nat × Nat) "dijkstra_pred.rs:new:*dist_ptr.add(u)" (·.2.2) (fun u => (0, none, u)) (fun _ => rfl) g.order sources
  apply noUB_bind h1
  intro st hst
  unfold dijkstraPredShortestPath
  exact shortestPathG_noUB _ _ isT _ g.order (dijkstraPredStep_iterSpec g g.order) fuel st (h2 st hst)

/-! ### `cycles` -/

theorem cyclesLoop_noUB (g : CGraph) :
    ∀ (fuel : Nat) (st : QSt (Option Nat × Nat)) (pred : List (Option Nat)) (acc : List (List Nat)),
      QInv (·.2) g.order st → pred.length = g.order → NoUB (cyclesLoop g fuel st pred acc) := by
  intro fuel
  induction fuel with
  | zero => intro st pred acc _ _; unfold cyclesLoop; exact noUB_pure _
  | succ fuel ih =>
    intro st pred acc hi hp
    unfold cyclesLoop
    have hspec := bfsNextG_iterSpec "bfs_pred.rs:next:visited_ptr.add(u)" (·.2) (fun it v => (some it.2, v))
      (fun _ _ => rfl) g g.order
    obtain ⟨hn1, hn2⟩ := hspec st hi
    apply noUB_bind (by unfold bfsPredNext; exact hn1)
    intro r hr
    obtain ⟨o, st'⟩ := r
    obtain ⟨hi', hq⟩ := hn2 o st' (by unfold bfsPredNext at hr; exact hr)
    cases o with
    | none => exact noUB_pure _
    | some it =>
      simp only []
      obtain ⟨hw1, hw2⟩ := wr_body_spec "bfs_pred.rs:cycles:*pred_ptr.add(v)" g.order pred it.2 it.1 hp (hq it rfl)
      apply noUB_bind hw1
      intro pred' hpred'
      cases hout : g.out it.2 with
      | none => exact noUB_throw_panic
      | some xs =>
        simp only []
        apply noUB_bind
        · exact (foldlM_inv (fun _ => True) _
            (fun s x _ => ⟨noUB_bind (noUB_liftRes _) (fun _ _ => noUB_pure _), fun _ _ => trivial⟩) xs acc trivial).1
        · intro acc' _
          exact ih st' pred' acc' hi' (hw2 pred' hpred')

theorem bfsPredCycles_noUB (g : CGraph) (sources : List Nat) (fuel : Nat) :
    NoUB (bfsPredNew g.order sources >>= bfsPredCycles g fuel) := by
  unfold bfsPredNew
  obtain ⟨h1, h2⟩ := bfsNewG_spec (ι := Option Nat × Nat) "bfs_pred.rs:new:*visited_ptr.add(u)" (·.2) (fun u => (none, u)) (fun _ => rfl) g.order sources
  apply noUB_bind h1
  intro st hst
  unfold bfsPredCycles
  obtain ⟨hp1, hp2⟩ := predTreeNew_spec g.order
  apply noUB_bind hp1
  intro pred hp
  exact cyclesLoop_noUB g fuel st pred [] (h2 st hst) (hp2 pred hp)

end GraafVerif.Chk
