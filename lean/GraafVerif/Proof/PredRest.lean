import GraafVerif.Proof.Pred
import GraafVerif.Proof.QueryAM
import GraafVerif.Proof.QueryEL
import GraafVerif.Proof.QueryWL
/-!
# C12 — `AdjacencyMap`, `EdgeList`, `AdjacencyListWeighted`: the per-representation predicates (P1)
-/
namespace GraafVerif.Pred
open GraafVerif.Query GraafVerif.Repr

/-! ## AdjacencyMap -/
namespace AM
open GraafVerif.Query.AM (abs abs_valid hasArc_row outNeighbors_row size_spec mem_verts)

theorem verts_length (d : AdjMap) : (abs d).verts.length = d.order := by simp [abs, AdjMap.vertices, AdjMap.order]

theorem isSimple_true {d : AdjMap} (h : d.WF) : isSimple d = true := by
  unfold isSimple
  rw [List.all_eq_true]
  intro r hr
  simp only [Bool.not_eq_true', ← Bool.not_eq_true]
  intro hc
  exact ((h.2 r.1 r.2 hr).2 r.1 (List.contains_iff_mem.1 hc)).1 rfl

theorem isComplete_correct {d : AdjMap} (h : d.WF) : isComplete d = true ↔ Def.IsComplete (abs d) := by
  rw [isComplete_iff_outdegree (abs_valid h), verts_length]
  unfold isComplete
  simp only [List.all_eq_true, beq_iff_eq, mem_verts, List.mem_map]
  constructor
  · rintro hh u ⟨r, hr, rfl⟩
    rw [Spec.outdegree, outNeighbors_row h (show (r.1, r.2) ∈ d.rows from hr)]
    exact hh r hr
  · intro hh r hr
    have := hh r.1 ⟨r, hr, rfl⟩
    rwa [Spec.outdegree, outNeighbors_row h (show (r.1, r.2) ∈ d.rows from hr)] at this

/-- the double loop over the rows decides a property of all ordered pairs of distinct keys -/
theorem rowsScan_iff (d : AdjMap) (f : Nat × List Nat → Nat × List Nat → Bool) (g : Nat → Nat → Prop)
    (hfg : ∀ a ∈ d.rows, ∀ b ∈ d.rows, a.1 ≠ b.1 → (f a b = true ↔ g a.1 b.1)) :
    d.rows.all (fun a => d.rows.all (fun b => !(a.1 != b.1 && !f a b))) = true
      ↔ ∀ u ∈ (abs d).verts, ∀ v ∈ (abs d).verts, u ≠ v → g u v := by
  simp only [List.all_eq_true, mem_verts, List.mem_map]
  constructor
  · rintro hh u ⟨a, ha, rfl⟩ v ⟨b, hb, rfl⟩ huv
    have := hh a ha b hb
    have hne : (a.1 != b.1) = true := by simp [huv]
    rw [hne] at this
    simp only [Bool.true_and, Bool.not_not] at this
    exact (hfg a ha b hb huv).1 this
  · intro hh a ha b hb
    by_cases hne : a.1 = b.1
    · simp [hne]
    · have := (hfg a ha b hb hne).2 (hh a.1 ⟨a, ha, rfl⟩ b.1 ⟨b, hb, rfl⟩ hne)
      simp [this]

theorem isSemicomplete_correct {d : AdjMap} (h : d.WF) : isSemicomplete d = true ↔ Def.IsSemicomplete (abs d) := by
  unfold isSemicomplete
  have hscan : d.rows.all (fun a => d.rows.all (fun b =>
      !(a.1 != b.1 && !a.2.contains b.1 && !b.2.contains a.1))) = true ↔ Def.IsSemicomplete (abs d) := by
    have := rowsScan_iff d (fun a b => a.2.contains b.1 || b.2.contains a.1)
      (fun u v => (abs d).adj u v = true ∨ (abs d).adj v u = true)
      (fun a ha b hb _ => by
        simp only [abs, Bool.or_eq_true, hasArc_row h (show (a.1, a.2) ∈ d.rows from ha),
          hasArc_row h (show (b.1, b.2) ∈ d.rows from hb)])
    refine Iff.trans ?_ this
    have e : ∀ a b : Nat × List Nat, (!(a.1 != b.1 && !a.2.contains b.1 && !b.2.contains a.1))
        = (!(a.1 != b.1 && !(a.2.contains b.1 || b.2.contains a.1))) := by
      intro a b
      cases (a.1 != b.1) <;> cases a.2.contains b.1 <;> cases b.2.contains a.1 <;> rfl
    simp only [e]
  by_cases hs : d.size < d.order * (d.order - 1) / 2
  · simp only [hs, if_true, Bool.false_eq_true, false_iff]
    intro hdef
    have := size_ge_of_semicomplete (abs_valid h) hdef
    rw [verts_length, ← size_spec h] at this
    omega
  · simp only [hs, if_false]
    exact hscan

theorem isTournament_correct {d : AdjMap} (h : d.WF) : isTournament d = true ↔ Def.IsTournament (abs d) := by
  unfold isTournament
  have hscan : d.rows.all (fun a => d.rows.all (fun b =>
      !(a.1 != b.1 && (a.2.contains b.1 == b.2.contains a.1)))) = true ↔ Def.IsTournament (abs d) := by
    have := rowsScan_iff d (fun a b => !(a.2.contains b.1 == b.2.contains a.1))
      (fun u v => (abs d).adj u v = true ↔ (abs d).adj v u = false)
      (fun a ha b hb _ => by
        simp only [abs, hasArc_row h (show (a.1, a.2) ∈ d.rows from ha),
          hasArc_row h (show (b.1, b.2) ∈ d.rows from hb)]
        cases a.2.contains b.1 <;> cases b.2.contains a.1 <;> simp)
    refine Iff.trans ?_ this
    have e : ∀ a b : Nat × List Nat, (!(a.1 != b.1 && (a.2.contains b.1 == b.2.contains a.1)))
        = (!(a.1 != b.1 && !!(a.2.contains b.1 == b.2.contains a.1))) := by
      intro a b
      cases (a.1 != b.1) <;> cases a.2.contains b.1 <;> cases b.2.contains a.1 <;> rfl
    simp only [e]
  by_cases hs : d.size = d.order * (d.order - 1) / 2
  · have : (d.size != d.order * (d.order - 1) / 2) = false := by simp [hs]
    rw [this]; simpa using hscan
  · have : (d.size != d.order * (d.order - 1) / 2) = true := by simp [hs]
    rw [this]
    simp only [if_true, Bool.false_eq_true, false_iff]
    intro hdef
    have := size_eq_of_tournament (abs_valid h) hdef
    rw [verts_length, ← size_spec h] at this
    exact hs this
end AM

/-! ## EdgeList -/
namespace EL
open GraafVerif.Query.EL (abs abs_valid size_spec)
theorem isSemicomplete_correct {d : EdgeList} (h : d.WF) : isSemicomplete d = true ↔ Def.IsSemicomplete (abs d) :=
  semiScan_correct (abs_valid h) d.order rfl d.size (size_spec h)
theorem isTournament_correct {d : EdgeList} (h : d.WF) : isTournament d = true ↔ Def.IsTournament (abs d) :=
  tourScan_correct (abs_valid h) d.order rfl d.size (size_spec h)
theorem isSimple_true {d : EdgeList} (h : d.WF) : isSimple d = true := by
  unfold isSimple
  rw [List.all_eq_true]
  intro u _
  have := (abs_valid h).irrefl u
  simp only [abs] at this
  simp [this]
end EL

/-! ## AdjacencyListWeighted -/
namespace WL
open GraafVerif.Query.WL (abs abs_valid size_spec hasArc_eq zipIdx_rows row_mem)
theorem isSemicomplete_correct {d : AdjListW} (h : d.WF) : isSemicomplete d = true ↔ Def.IsSemicomplete (abs d) :=
  semiScan_correct (abs_valid h) d.order rfl d.size (size_spec h)
theorem isTournament_correct {d : AdjListW} (h : d.WF) : isTournament d = true ↔ Def.IsTournament (abs d) :=
  tourScan_correct (abs_valid h) d.order rfl d.size (size_spec h)
theorem isSimple_true {d : AdjListW} (h : d.WF) : isSimple d = true := by
  unfold isSimple
  rw [zipIdx_rows, List.all_map, List.all_eq_true]
  intro u _
  simp only [Function.comp, Bool.not_eq_true', ← Bool.not_eq_true]
  intro hc
  obtain ⟨w, hw⟩ := Option.isSome_iff_exists.1 hc
  exact (row_mem h (mget_mem hw)).2.2 rfl

theorem sum_map_const (l : List Nat) (f : Nat → Nat) (c : Nat) (h : ∀ x ∈ l, f x = c) : (l.map f).sum = l.length * c := by
  induction l with
  | nil => simp
  | cons a l ih =>
    rw [List.map_cons, List.sum_cons, h a (by simp), ih (fun x hx => h x (by simp [hx])), List.length_cons, Nat.succ_mul]
    omega

/-- `is_complete`: `size == n(n-1)` and every unordered pair is an edge. -/
theorem isComplete_correct {d : AdjListW} (h : d.WF) : isComplete d = true ↔ Def.IsComplete (abs d) := by
  unfold isComplete
  have hscan : (List.range d.order).all (fun u => (above u d.order).all (fun v => Query.WL.hasEdge d u v)) = true
      ↔ Def.IsComplete (abs d) := by
    rw [pairScan_symm d.order (fun u v => Query.WL.hasEdge d u v) (fun u v => by simp [Query.WL.hasEdge, Bool.and_comm])]
    simp only [Def.IsComplete, abs, AdjListW.vertices, List.mem_range, Query.WL.hasEdge, Bool.and_eq_true]
    constructor
    · intro hh u hu v hv huv; exact (hh u hu v hv huv).1
    · intro hh u hu v hv huv; exact ⟨hh u hu v hv huv, hh v hv u hu (Ne.symm huv)⟩
  rw [Bool.and_eq_true, hscan, beq_iff_eq]
  constructor
  · exact fun hh => hh.2
  · intro hdef
    refine ⟨?_, hdef⟩
    have hout := (isComplete_iff_outdegree (abs_valid h)).1 hdef
    rw [size_spec h, size_eq_total, total]
    have hlen : (abs d).verts.length = d.order := by simp [abs, AdjListW.vertices]
    rw [← hlen]
    exact sum_map_const _ _ _ (fun u hu => hout u hu)
end WL

end GraafVerif.Pred
