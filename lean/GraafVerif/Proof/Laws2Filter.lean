import GraafVerif.Proof.LawsInst
/-!
# Laws2 — `filter_vertices` (C11's fourth operation; `AdjacencyMap` only, arbitrary key sets)

Set level (`specFilter` of `Spec/Ops.lean`) and the lifts through `filterAM_spec` + `canonAM`.
The result of `filter_vertices` may have NO vertex (order 0); every law below holds there too, except the
one with `union` (see `filter_union` and the witness in `Thm/Laws2.lean`).
-/
namespace GraafVerif.Laws2
open GraafVerif.Repr GraafVerif.Ops GraafVerif.Query GraafVerif.Pred GraafVerif.Laws

/-! ## set level -/

theorem specFilter_filter (p q : Nat → Bool) (g : DG) :
    specFilter p (specFilter q g) = specFilter (fun v => p v && q v) g := by
  rw [DG.ext_iff']
  refine ⟨fun v => ?_, fun u v => ?_⟩
  · simp only [specFilter, Bool.and_eq_true]
    exact ⟨fun ⟨⟨a, b⟩, c⟩ => ⟨a, c, b⟩, fun ⟨a, c, b⟩ => ⟨⟨a, b⟩, c⟩⟩
  · simp only [specFilter, Bool.and_eq_true]
    exact ⟨fun ⟨⟨a, b, c⟩, d, e⟩ => ⟨a, ⟨d, b⟩, e, c⟩, fun ⟨a, ⟨d, b⟩, e, c⟩ => ⟨⟨a, b, c⟩, d, e⟩⟩

theorem specFilter_of_all {p : Nat → Bool} {g : DG} (hv : g.Valid) (h : ∀ v, g.V v → p v = true) : specFilter p g = g := by
  rw [DG.ext_iff']
  exact ⟨fun v => ⟨fun x => x.1, fun x => ⟨x, h v x⟩⟩,
    fun u v => ⟨fun x => x.1, fun x => ⟨x, h u (hv u v x).1, h v (hv u v x).2.1⟩⟩⟩

theorem specFilter_true (g : DG) : specFilter (fun _ => true) g = g := by
  rw [DG.ext_iff']
  exact ⟨fun v => ⟨fun x => x.1, fun x => ⟨x, rfl⟩⟩, fun u v => ⟨fun x => x.1, fun x => ⟨x, rfl, rfl⟩⟩⟩

theorem specFilter_eq_iff {p : Nat → Bool} {g : DG} (hv : g.Valid) : specFilter p g = g ↔ ∀ v, g.V v → p v = true := by
  constructor
  · intro h v x
    have := (DG.ext_iff'.mp h).1 v
    exact (this.mpr x).2
  · exact specFilter_of_all hv

theorem specFilter_converse (p : Nat → Bool) (g : DG) :
    specConverse (specFilter p g) = specFilter p (specConverse g) := by
  rw [DG.ext_iff']
  exact ⟨fun _ => Iff.rfl, fun u v => ⟨fun ⟨a, b, c⟩ => ⟨a, c, b⟩, fun ⟨a, b, c⟩ => ⟨a, c, b⟩⟩⟩

theorem specFilter_complement (p : Nat → Bool) (g : DG) :
    specComplement (specFilter p g) = specFilter p (specComplement g) := by
  rw [DG.ext_iff']
  refine ⟨fun _ => Iff.rfl, fun u v => ?_⟩
  simp only [specFilter, specComplement]
  exact ⟨fun ⟨⟨a, b⟩, ⟨c, d⟩, e, f⟩ => ⟨⟨a, c, e, fun x => f ⟨x, b, d⟩⟩, b, d⟩,
    fun ⟨⟨a, c, e, f⟩, b, d⟩ => ⟨⟨a, b⟩, ⟨c, d⟩, e, fun x => f x.1⟩⟩

theorem specFilter_union (p : Nat → Bool) (g h : DG) :
    specFilter p (specUnion g h) = specUnion (specFilter p g) (specFilter p h) := by
  rw [DG.ext_iff']
  refine ⟨fun v => ?_, fun u v => ?_⟩
  · simp only [specFilter, specUnion]
    exact ⟨fun ⟨a, b⟩ => a.elim (fun x => Or.inl ⟨x, b⟩) (fun x => Or.inr ⟨x, b⟩),
      fun a => a.elim (fun x => ⟨Or.inl x.1, x.2⟩) (fun x => ⟨Or.inr x.1, x.2⟩)⟩
  · simp only [specFilter, specUnion]
    exact ⟨fun ⟨a, b⟩ => a.elim (fun x => Or.inl ⟨x, b⟩) (fun x => Or.inr ⟨x, b⟩),
      fun a => a.elim (fun x => ⟨Or.inl x.1, x.2⟩) (fun x => ⟨Or.inr x.1, x.2⟩)⟩

theorem specFilter_sub (p : Nat → Bool) (g : DG) : DGP.Sub (specFilter p g) g := ⟨fun _ x => x.1, fun _ _ x => x.1⟩

/-- the hereditary predicates survive an induced subdigraph -/
theorem specFilter_hereditary (p : Nat → Bool) (g : DG) :
    (DGP.Complete g → DGP.Complete (specFilter p g)) ∧ (DGP.Semicomplete g → DGP.Semicomplete (specFilter p g)) ∧
    (DGP.Tournament g → DGP.Tournament (specFilter p g)) ∧ (DGP.Symmetric g → DGP.Symmetric (specFilter p g)) ∧
    (DGP.Oriented g → DGP.Oriented (specFilter p g)) := by
  refine ⟨fun h u v a b c => ⟨h u v a.1 b.1 c, a.2, b.2⟩,
    fun h u v a b c => (h u v a.1 b.1 c).elim (fun x => Or.inl ⟨x, a.2, b.2⟩) (fun x => Or.inr ⟨x, b.2, a.2⟩),
    fun h u v a b c => ⟨fun x y => (h u v a.1 b.1 c).mp x.1 y.1,
      fun x => ⟨(h u v a.1 b.1 c).mpr (fun y => x ⟨y, b.2, a.2⟩), a.2, b.2⟩⟩,
    fun h u v x => ⟨h u v x.1, x.2.2, x.2.1⟩, fun h u v x y => h u v x.1 y.1⟩

/-! ## `AdjacencyMap::filter_vertices` -/

theorem am_valid {g : AdjMap} (h : g.WF) : (absAM g).Valid := absAM_valid h

theorem filter_wf (g : AdjMap) (p : Nat → Bool) (h : g.WF) : (filterAM g p).WF := (filterAM_spec g p h).1
theorem filter_abs (g : AdjMap) (p : Nat → Bool) (h : g.WF) : absAM (filterAM g p) = specFilter p (absAM g) :=
  (filterAM_spec g p h).2

/-- `filter p (filter q g) = filter (p ∧ q) g` -/
theorem filter_filter (g : AdjMap) (p q : Nat → Bool) (h : g.WF) :
    filterAM (filterAM g q) p = filterAM g (fun v => p v && q v) :=
  canonAM (filter_wf _ p (filter_wf g q h)) (filter_wf g _ h)
    (by rw [filter_abs _ p (filter_wf g q h), filter_abs g q h, filter_abs g _ h, specFilter_filter])

theorem filter_comm (g : AdjMap) (p q : Nat → Bool) (h : g.WF) :
    filterAM (filterAM g q) p = filterAM (filterAM g p) q := by
  rw [filter_filter g p q h, filter_filter g q p h]
  congr 1; funext v; exact Bool.and_comm _ _

theorem filter_idem (g : AdjMap) (p : Nat → Bool) (h : g.WF) : filterAM (filterAM g p) p = filterAM g p := by
  rw [filter_filter g p p h]; congr 1; funext v; exact Bool.and_self _

/-- `filter p g == g` exactly when every vertex is kept; in particular `filter (fun _ => true) g = g` -/
theorem filter_eq_iff (g : AdjMap) (p : Nat → Bool) (h : g.WF) : filterAM g p = g ↔ ∀ v ∈ g.vertices, p v = true := by
  constructor
  · intro e
    exact (specFilter_eq_iff (am_valid h)).mp (by rw [← filter_abs g p h, e])
  · intro hp
    exact canonAM (filter_wf g p h) h (by rw [filter_abs g p h]; exact specFilter_of_all (am_valid h) hp)

theorem filter_true (g : AdjMap) (h : g.WF) : filterAM g (fun _ => true) = g :=
  (filter_eq_iff g _ h).mpr (fun _ _ => rfl)

/-- `vertices()` / `arcs()` of the result -/
theorem filter_vertices_arcs (g : AdjMap) (p : Nat → Bool) (h : g.WF) :
    (∀ v, v ∈ (filterAM g p).vertices ↔ v ∈ g.vertices ∧ p v = true) ∧
    (∀ u v, (u, v) ∈ (filterAM g p).arcs ↔ (u, v) ∈ g.arcs ∧ p u = true ∧ p v = true) ∧
    (∀ u v, (filterAM g p).hasArc u v = (g.hasArc u v && p u && p v)) := by
  have ha := filter_abs g p h
  have hA : ∀ u v, (filterAM g p).hasArc u v = true ↔ g.hasArc u v = true ∧ p u = true ∧ p v = true := fun u v => by
    have := (DG.ext_iff'.mp ha).2 u v; exact this
  refine ⟨fun v => ?_, fun u v => ?_, fun u v => ?_⟩
  · have := (DG.ext_iff'.mp ha).1 v; exact this
  · have e1 : (u, v) ∈ (filterAM g p).arcs ↔ (filterAM g p).hasArc u v = true :=
      (Query.AM.core_correct (filter_wf g p h)).arcs_mem u v
    have e2 : (u, v) ∈ g.arcs ↔ g.hasArc u v = true := (Query.AM.core_correct h).arcs_mem u v
    rw [e1, e2]; exact hA u v
  · have := hA u v
    cases h1 : (filterAM g p).hasArc u v <;> cases h2 : g.hasArc u v <;> cases h3 : p u <;> cases h4 : p v <;> simp_all

/-- `filter_vertices` commutes with `converse` -/
theorem filter_converse (g : AdjMap) (p : Nat → Bool) (h : g.WF) :
    converseAM (filterAM g p) = filterAM (converseAM g) p := by
  have h1 := converseAM_spec (filterAM g p) (filter_wf g p h)
  have h2 := converseAM_spec g h
  exact canonAM h1.1 (filter_wf _ p h2.1)
    (by rw [h1.2, filter_abs g p h, filter_abs _ p h2.1, h2.2, specFilter_converse])

/-- … and with `complement` (the complement inside the kept vertex set) -/
theorem filter_complement (g : AdjMap) (p : Nat → Bool) (h : g.WF) :
    complementAM (filterAM g p) = filterAM (complementAM g) p := by
  have h1 := complementAM_spec (filterAM g p) (filter_wf g p h)
  have h2 := complementAM_spec g h
  exact canonAM h1.1 (filter_wf _ p h2.1)
    (by rw [h1.2, filter_abs g p h, filter_abs _ p h2.1, h2.2, specFilter_complement])

/-- … and distributes over `union`, PROVIDED one of the two filtered operands keeps a vertex (otherwise
`union` of two vertex-less maps returns `trivial()`, see the witness in `Thm/Laws2.lean`) -/
theorem filter_union (g k : AdjMap) (p : Nat → Bool) (ap : Nat) (hap : 0 < ap) (hg : g.WF) (hk : k.WF)
    (hne : 0 < (filterAM g p).order + (filterAM k p).order) :
    ∃ r, unionAM g k ap = some r ∧ unionAM (filterAM g p) (filterAM k p) ap = some (filterAM r p) := by
  have hpos : 0 < g.order + k.order := by
    have order_pos : ∀ d : AdjMap, d.WF → 0 < (filterAM d p).order → 0 < d.order := by
      intro d hd hx
      cases hr : (filterAM d p).rows with
      | nil => simp [AdjMap.order, hr] at hx
      | cons e es =>
        have : e.1 ∈ (filterAM d p).vertices := by simp [AdjMap.vertices, hr]
        have := ((filter_vertices_arcs d p hd).1 e.1).mp this
        cases hd' : d.rows with
        | nil => simp [AdjMap.vertices, hd'] at this
        | cons x xs => simp [AdjMap.order, hd']
    rcases Nat.eq_zero_or_pos (filterAM g p).order with h0 | h0
    · have := order_pos k hk (by omega); omega
    · have := order_pos g hg h0; omega
  obtain ⟨r, e1, hr, ar⟩ := unionAM_spec g k ap hap hg hk hpos
  obtain ⟨r', e2, hr', ar'⟩ := unionAM_spec _ _ ap hap (filter_wf g p hg) (filter_wf k p hk) hne
  refine ⟨r, e1, ?_⟩
  rw [e2, canonAM hr' (filter_wf r p hr)
    (by rw [ar', filter_abs g p hg, filter_abs k p hk, filter_abs r p hr, ar, specFilter_union])]

/-- the result is a subdigraph of the operand; a SPANNING one exactly when nothing was removed -/
theorem filter_sub (g : AdjMap) (p : Nat → Bool) (h : g.WF) :
    Blanket.isSubdigraph (Query.AM.core (filterAM g p)) (Query.AM.core g) = true ∧
    Blanket.isSuperdigraph (Query.AM.core g) (Query.AM.core (filterAM g p)) = true ∧
    (Blanket.isSpanningSubdigraph (Query.AM.core (filterAM g p)) (Query.AM.core g) = true ↔ filterAM g p = g) := by
  have hf := filter_wf g p h
  have hs : Blanket.isSubdigraph (Query.AM.core (filterAM g p)) (Query.AM.core g) = true :=
    (isSubdigraph_correct (Query.AM.core_correct hf) (Query.AM.core_correct h) (Query.AM.abs_valid hf)).mpr
      ((def_iff_sub _ _).mpr (by
        show DGP.Sub (absAM (filterAM g p)) (absAM g)
        rw [filter_abs g p h]; exact specFilter_sub p (absAM g)))
  refine ⟨hs, hs, ?_⟩
  rw [isSpanningSubdigraph_correct (Query.AM.core_correct hf) (Query.AM.core_correct h)]
  constructor
  · rintro ⟨hv, _⟩
    rw [filter_eq_iff g p h]
    intro v hv'
    have : v ∈ (filterAM g p).vertices := by
      show v ∈ (Query.AM.abs (filterAM g p)).verts; rw [hv]; exact hv'
    exact (((filter_vertices_arcs g p h).1 v).mp this).2
  · intro e; rw [e]; exact ⟨rfl, fun _ _ x => x⟩

/-- `is_complete`, `is_semicomplete`, `is_tournament`, `is_symmetric`, `is_oriented` are inherited by the
induced subdigraph -/
theorem filter_hereditary (g : AdjMap) (p : Nat → Bool) (h : g.WF) :
    (Pred.AM.isComplete g = true → Pred.AM.isComplete (filterAM g p) = true) ∧
    (Pred.AM.isSemicomplete g = true → Pred.AM.isSemicomplete (filterAM g p) = true) ∧
    (Pred.AM.isTournament g = true → Pred.AM.isTournament (filterAM g p) = true) ∧
    (Blanket.isSymmetric (Query.AM.core g) = true → Blanket.isSymmetric (Query.AM.core (filterAM g p)) = true) ∧
    (Blanket.isOriented (Query.AM.core g) = true → Blanket.isOriented (Query.AM.core (filterAM g p)) = true) := by
  have hf := filter_wf g p h
  have hh := specFilter_hereditary p (absAM g)
  rw [← filter_abs g p h] at hh
  refine ⟨?_, ?_, ?_, ?_, ?_⟩
  · rw [Pred.AM.isComplete_correct h, Pred.AM.isComplete_correct hf, def_iff_complete, def_iff_complete]; exact hh.1
  · rw [Pred.AM.isSemicomplete_correct h, Pred.AM.isSemicomplete_correct hf, def_iff_semicomplete, def_iff_semicomplete]
    exact hh.2.1
  · rw [Pred.AM.isTournament_correct h, Pred.AM.isTournament_correct hf, def_iff_tournament, def_iff_tournament]
    exact hh.2.2.1
  · rw [isSymmetric_correct (Query.AM.core_correct h), isSymmetric_correct (Query.AM.core_correct hf),
      def_iff_symmetric, def_iff_symmetric]; exact hh.2.2.2.1
  · rw [isOriented_correct (Query.AM.core_correct h), isOriented_correct (Query.AM.core_correct hf),
      def_iff_oriented, def_iff_oriented]; exact hh.2.2.2.2

end GraafVerif.Laws2
