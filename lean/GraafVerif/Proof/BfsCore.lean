import GraafVerif.Model.Bfs
/-!
# Invariants of the labelled BFS iterator (C04 core, basis of C05)

Structure (re-homed from `design-prototypes/Bfs.lean`, made generic in the label):
1. `scan`/`next`/`run`/`new` never panic on a well-formed digraph with in-range sources and equal
   their assert-free versions `nextP`/`runP`/`newP`;
2. `foldl_discover` — effect of one neighbour scan on `(queue, visited)`;
3. `Inv` (label independent): visited = emitted ∪ queued, no duplicates, members reachable,
   out-neighbours of emitted vertices visited, sources visited;
4. `InvD` for any level function `lev` of the labelling (`lev init = 0`, `lev (child u l) = lev l + 1`):
   levels are exact hop distances, sorted, queue spans ≤ 2 levels, levels < number of items;
5. `seen` (derived), `step_invD`, `run_inv` with the pigeonhole fuel bound, `init_invD`.
-/
namespace GraafVerif.Bfs
open GraafVerif

variable {L : Type}

/-! ### assert-free versions and their agreement with the model -/

def nextP (g : Graph) (lab : Lab L) (st : St L) : Option ((Nat × L) × St L) :=
  match st.queue with
  | [] => none
  | (u, l) :: q => some ((u, l), (g.out u).foldl (discover (lab.child u l)) ⟨q, st.visited⟩)

/-- Run the iterator to exhaustion (at most `fuel` items); also return the final state. -/
def runP (g : Graph) (lab : Lab L) : Nat → St L → List (Nat × L) × St L
  | 0, st => ([], st)
  | f+1, st => match nextP g lab st with
    | none => ([], st)
    | some (x, st') => let r := runP g lab f st'; (x :: r.1, r.2)

def newP (g : Graph) (lab : Lab L) (S : List Nat) : St L :=
  S.foldl (fun st u => ⟨st.queue ++ [(u, lab.init)], st.visited.set u true⟩) ⟨[], List.replicate g.n false⟩

theorem discover_len (lab : L) (st : St L) (v : Nat) :
    (discover lab st v).visited.length = st.visited.length := by
  unfold discover; split <;> simp

theorem foldl_discover_len (lab : L) (vs : List Nat) (st : St L) :
    (vs.foldl (discover lab) st).visited.length = st.visited.length := by
  induction vs generalizing st with
  | nil => rfl
  | cons v vs ih => simp only [List.foldl_cons]; rw [ih, discover_len]

theorem scan_eq (lab : L) (vs : List Nat) (st : St L) (h : ∀ v ∈ vs, v < st.visited.length) :
    scan lab vs st = .ok (vs.foldl (discover lab) st) := by
  induction vs generalizing st with
  | nil => rfl
  | cons v vs ih =>
    have hv : v < st.visited.length := h v (by simp)
    simp only [scan, hv, if_true, List.foldl_cons]
    exact ih _ (fun x hx => by rw [discover_len]; exact h x (by simp [hx]))

theorem next_eq (g : Graph) (hg : g.WF) (lab : Lab L) (st : St L) (hlen : st.visited.length = g.n) :
    next g lab st = match nextP g lab st with
      | none => .done
      | some (x, st') => .yield x st' := by
  unfold next nextP
  cases st.queue with
  | nil => rfl
  | cons p q =>
    obtain ⟨u, l⟩ := p
    simp only
    rw [scan_eq _ _ _ (fun v hv => by simpa [hlen] using (hg u v hv).2)]

theorem nextP_len (g : Graph) (lab : Lab L) (st st' : St L) (x) (h : nextP g lab st = some (x, st')) :
    st'.visited.length = st.visited.length := by
  unfold nextP at h
  cases hq : st.queue with
  | nil => simp [hq] at h
  | cons p q =>
    obtain ⟨u, l⟩ := p
    simp [hq] at h
    rw [← h.2, foldl_discover_len]

theorem run_eq (g : Graph) (hg : g.WF) (lab : Lab L) :
    ∀ (fuel : Nat) (st : St L), st.visited.length = g.n → run g lab fuel st = .ok (runP g lab fuel st).1 := by
  intro fuel
  induction fuel with
  | zero => intro st _; rfl
  | succ f ih =>
    intro st hlen
    simp only [run, runP, next_eq g hg lab st hlen]
    cases hn : nextP g lab st with
    | none => rfl
    | some p =>
      obtain ⟨x, st'⟩ := p
      simp only
      rw [ih st' (by rw [nextP_len g lab st st' x hn, hlen])]

theorem newFrom_eq (lab0 : L) (S : List Nat) (st : St L) (h : ∀ s ∈ S, s < st.visited.length) :
    newFrom lab0 S st =
      .ok (S.foldl (fun st u => (⟨st.queue ++ [(u, lab0)], st.visited.set u true⟩ : St L)) st) := by
  induction S generalizing st with
  | nil => rfl
  | cons s S ih =>
    have hs : s < st.visited.length := h s (by simp)
    simp only [newFrom, hs, if_true, List.foldl_cons]
    exact ih _ (fun x hx => by simpa using h x (by simp [hx]))

theorem new_eq (g : Graph) (lab : Lab L) (S : List Nat) (hS : ∀ s ∈ S, s < g.n) :
    new g lab S = .ok (newP g lab S) := by
  unfold new newP
  exact newFrom_eq _ _ _ (by simpa using hS)

/-! ### visited / queue bookkeeping -/

theorem isVis_set (vis : List Bool) (v x : Nat) (hv : v < vis.length) :
    isVis (vis.set v true) x = (isVis vis x || decide (x = v)) := by
  unfold isVis
  by_cases h : x = v
  · subst h; simp [hv]
  · have : v ≠ x := fun e => h e.symm
    simp [List.getElem?_set_ne this, h]

theorem isVis_lt (vis : List Bool) (x : Nat) (h : isVis vis x = true) : x < vis.length := by
  unfold isVis at h
  rcases hlt : vis[x]? with _ | b
  · simp [hlt] at h
  · exact (List.getElem?_eq_some_iff.mp hlt).1

/-- Effect of scanning a list of neighbours. -/
theorem foldl_discover (lab : L) (vs : List Nat) (st : St L) (hlen : ∀ v ∈ vs, v < st.visited.length) :
    let st' := vs.foldl (discover lab) st
    st'.visited.length = st.visited.length ∧
    (∀ x, isVis st'.visited x = (isVis st.visited x || decide (x ∈ vs))) ∧
    (∃ new, st'.queue = st.queue ++ new ∧ (∀ p ∈ new, p.1 ∈ vs ∧ isVis st.visited p.1 = false ∧ p.2 = lab)
        ∧ (new.map (·.1)).Nodup ∧ ∀ v ∈ vs, isVis st.visited v = false → v ∈ new.map (·.1)) := by
  induction vs generalizing st with
  | nil => simp
  | cons v vs ih =>
    have hv : v < st.visited.length := hlen v (by simp)
    simp only [List.foldl_cons]
    by_cases hvis : isVis st.visited v = true
    · have hd : discover lab st v = st := by simp [discover, hvis]
      rw [hd]
      obtain ⟨h1, h2, new, h3, h4, h5, h6⟩ := ih st (fun x hx => hlen x (by simp [hx]))
      refine ⟨h1, ?_, new, h3, ?_, h5, ?_⟩
      · intro x; rw [h2 x]; by_cases hx : x = v <;> simp [hx, hvis]
      · intro p hp; obtain ⟨a, b, c⟩ := h4 p hp; exact ⟨by simp [a], b, c⟩
      · intro x hx hnv
        rcases List.mem_cons.mp hx with rfl | hx
        · simp [hvis] at hnv
        · exact h6 x hx hnv
    · have hvis' : isVis st.visited v = false := by simpa using hvis
      have hd : discover lab st v = ⟨st.queue ++ [(v, lab)], st.visited.set v true⟩ := by
        simp [discover, hvis']
      rw [hd]
      obtain ⟨h1, h2, new, h3, h4, h5, h6⟩ :=
        ih ⟨st.queue ++ [(v, lab)], st.visited.set v true⟩
          (fun x hx => by simpa using hlen x (by simp [hx]))
      refine ⟨by simpa using h1, ?_, (v, lab) :: new, by simp [h3], ?_, ?_, ?_⟩
      · intro x; rw [h2 x]; simp only [isVis_set _ _ _ hv]
        by_cases hx : x = v <;> simp [hx]
      · intro p hp
        rcases List.mem_cons.mp hp with rfl | hp
        · exact ⟨by simp, hvis', rfl⟩
        · obtain ⟨a, b, c⟩ := h4 p hp
          simp only [isVis_set _ _ _ hv] at b
          exact ⟨by simp [a], by simpa using (Bool.or_eq_false_iff.mp b).1, c⟩
      · simp only [List.map_cons, List.nodup_cons]
        refine ⟨?_, h5⟩
        intro hmem
        obtain ⟨p, hp, hpe⟩ := List.mem_map.mp hmem
        obtain ⟨_, b, _⟩ := h4 p hp
        simp only [isVis_set _ _ _ hv] at b
        simp [hpe] at b
      · intro x hx hnv
        rcases List.mem_cons.mp hx with rfl | hx
        · simp
        · by_cases hxv : x = v
          · subst hxv; simp
          · have : isVis (st.visited.set v true) x = false := by
              rw [isVis_set _ _ _ hv]; simp [hnv, hxv]
            simpa using Or.inr (h6 x hx this)

/-! ### run invariant: the reachable-set half of C04 (label independent) -/

structure Inv (g : Graph) (S : List Nat) (E : List (Nat × L)) (st : St L) : Prop where
  len : st.visited.length = g.n
  vis : ∀ x, isVis st.visited x = true ↔ x ∈ (E ++ st.queue).map (·.1)
  nodup : ((E ++ st.queue).map (·.1)).Nodup
  reach : ∀ x ∈ (E ++ st.queue).map (·.1), ReachFrom g S x
  closed : ∀ p ∈ E, ∀ v ∈ g.out p.1, isVis st.visited v = true
  src : ∀ s ∈ S, isVis st.visited s = true

/-- What one `next` does, in the form every invariant proof uses. -/
theorem nextP_spec (g : Graph) (hg : g.WF) (lab : Lab L) (st st' : St L) (x : Nat × L)
    (hlen : st.visited.length = g.n) (hn : nextP g lab st = some (x, st')) :
    ∃ q new, st.queue = x :: q ∧ st'.queue = q ++ new ∧ st'.visited.length = st.visited.length ∧
      (∀ y, isVis st'.visited y = (isVis st.visited y || decide (y ∈ g.out x.1))) ∧
      (∀ p ∈ new, p.1 ∈ g.out x.1 ∧ isVis st.visited p.1 = false ∧ p.2 = lab.child x.1 x.2) ∧
      (new.map (·.1)).Nodup ∧ (∀ v ∈ g.out x.1, isVis st.visited v = false → v ∈ new.map (·.1)) := by
  unfold nextP at hn
  cases hq : st.queue with
  | nil => simp [hq] at hn
  | cons p q =>
    obtain ⟨u, l⟩ := p
    simp [hq] at hn
    obtain ⟨hx, hst⟩ := hn
    subst hx
    have hlen' : ∀ v ∈ g.out u, v < (St.mk q st.visited).visited.length := by
      intro v hv; simp [hlen]; exact (hg u v hv).2
    obtain ⟨h1, h2, new, h3, h4, h5, h6⟩ := foldl_discover (lab.child u l) (g.out u) ⟨q, st.visited⟩ hlen'
    rw [hst] at h1 h2 h3
    exact ⟨q, new, rfl, h3, h1, h2, h4, h5, h6⟩

theorem step_inv (g : Graph) (hg : g.WF) (lab : Lab L) (S : List Nat) (E : List (Nat × L)) (st st' : St L)
    (x : Nat × L) (h : Inv g S E st) (hn : nextP g lab st = some (x, st')) : Inv g S (E ++ [x]) st' := by
  obtain ⟨q, new, hq, h3, h1, h2, h4, h5, h6⟩ := nextP_spec g hg lab st st' x h.len hn
  have hmemEq : ∀ y, y ∈ ((E ++ [x]) ++ st'.queue).map (·.1) ↔
      (y ∈ (E ++ st.queue).map (·.1) ∨ y ∈ new.map (·.1)) := by
    intro y; simp [h3, hq]; grind
  refine ⟨by rw [h1]; exact h.len, ?_, ?_, ?_, ?_, ?_⟩
  · intro y
    rw [h2 y, hmemEq y]
    simp only [Bool.or_eq_true, decide_eq_true_eq]
    constructor
    · rintro (hy | hy)
      · exact Or.inl ((h.vis y).mp hy)
      · by_cases hv : isVis st.visited y = true
        · exact Or.inl ((h.vis y).mp hv)
        · exact Or.inr (h6 y hy (by simpa using hv))
    · rintro (hy | hy)
      · exact Or.inl ((h.vis y).mpr hy)
      · obtain ⟨p, hp, rfl⟩ := List.mem_map.mp hy
        exact Or.inr (h4 p hp).1
  · -- nodup
    have hnd := h.nodup
    rw [hq] at hnd
    have : ((E ++ [x]) ++ st'.queue).map (·.1) = ((E ++ x :: q).map (·.1)) ++ new.map (·.1) := by
      simp [h3]
    rw [this]
    refine List.nodup_append.mpr ⟨hnd, h5, ?_⟩
    intro a ha b hb hab
    subst hab
    obtain ⟨p, hp, rfl⟩ := List.mem_map.mp hb
    have := (h4 p hp).2.1
    have hv := (h.vis p.1).mpr (by rw [hq]; exact ha)
    simp [hv] at this
  · intro y hy
    rcases (hmemEq y).mp hy with hy | hy
    · exact h.reach y hy
    · obtain ⟨p, hp, rfl⟩ := List.mem_map.mp hy
      have hu : ReachFrom g S x.1 := h.reach x.1 (by simp [hq])
      obtain ⟨s, hs, hr⟩ := hu
      exact ⟨s, hs, Reach.step hr (h4 p hp).1⟩
  · intro p hp v hv
    rw [h2 v]
    rcases List.mem_append.mp hp with hp | hp
    · simp [h.closed p hp v hv]
    · simp at hp; subst hp; simp [hv]
  · intro s hs; rw [h2 s]; simp [h.src s hs]

theorem closed_reach (g : Graph) (S : List Nat) (E : List (Nat × L)) (st : St L)
    (h : Inv g S E st) (hq : st.queue = []) : ∀ v, ReachFrom g S v → v ∈ E.map (·.1) := by
  rintro v ⟨s, hs, hr⟩
  induction hr with
  | refl => have := (h.vis s).mp (h.src s hs); simpa [hq] using this
  | step _ ha ih =>
    obtain ⟨p, hp, rfl⟩ := List.mem_map.mp ih
    have := (h.vis _).mp (h.closed p hp _ ha)
    simpa [hq] using this

theorem inv_card (g : Graph) (S : List Nat) (E : List (Nat × L)) (st : St L) (h : Inv g S E st) :
    E.length + st.queue.length ≤ g.n := by
  have hsub : (E ++ st.queue).map (·.1) ⊆ List.range g.n := by
    intro x hx
    have hv := (h.vis x).mpr hx
    refine List.mem_range.mpr ?_
    have := isVis_lt _ _ hv
    rw [h.len] at this; exact this
  have := h.nodup.length_le_of_subset hsub
  simpa using this

/-! ### hop distances -/

/-- The labelling carries a level: sources at 0, children one deeper. -/
structure IsLevel (lab : Lab L) (lev : L → Nat) : Prop where
  init : lev lab.init = 0
  child : ∀ u l, lev (lab.child u l) = lev l + 1

theorem isLevel_dist : IsLevel labDist id := ⟨rfl, fun _ _ => rfl⟩
theorem isLevel_full : IsLevel labFull (·.1) := ⟨rfl, fun _ _ => rfl⟩

structure InvD (g : Graph) (S : List Nat) (lev : L → Nat) (E : List (Nat × L)) (st : St L) : Prop
    extends Inv g S E st where
  lvl : ∀ p ∈ E ++ st.queue, IsHopDist g S p.1 (lev p.2)
  sorted : ((E ++ st.queue).map (fun p => lev p.2)).Pairwise (· ≤ ·)
  span : ∀ hd, st.queue.head? = some hd → ∀ p ∈ st.queue, lev p.2 ≤ lev hd.2 + 1
  bound : ∀ p ∈ E ++ st.queue, lev p.2 < (E ++ st.queue).length

/-- Everything at hop distance ≤ every queued level is already visited. Derived, not maintained. -/
theorem seen (g : Graph) (S : List Nat) (lev : L → Nat) (E : List (Nat × L)) (st : St L)
    (h : InvD g S lev E st) :
    ∀ j s v, s ∈ S → ReachIn g j s v → (∀ p ∈ st.queue, j ≤ lev p.2) → isVis st.visited v = true := by
  intro j s v hs hr
  induction hr with
  | zero u => intro _; exact h.src _ hs
  | @succ k u x v hrx ha ih =>
    intro hle
    have hx := ih hs (fun p hp => by have := hle p hp; omega)
    have hxm := (h.vis x).mp hx
    obtain ⟨p, hp, hpx⟩ := List.mem_map.mp hxm
    rcases List.mem_append.mp hp with hpE | hpQ
    · have := h.closed p hpE v (by rw [hpx]; exact ha); exact this
    · exfalso
      have hl := h.lvl p (List.mem_append.mpr (Or.inr hpQ))
      have h1 := hle p hpQ
      rw [hpx] at hl
      exact hl.2 k (by omega) ⟨u, hs, hrx⟩

theorem step_invD (g : Graph) (hg : g.WF) (lab : Lab L) (lev : L → Nat) (hlev : IsLevel lab lev)
    (S : List Nat) (E : List (Nat × L)) (st st' : St L) (x : Nat × L)
    (h : InvD g S lev E st) (hn : nextP g lab st = some (x, st')) : InvD g S lev (E ++ [x]) st' := by
  have hbase := step_inv g hg lab S E st st' x h.toInv hn
  obtain ⟨q, new, hq, h3, h1, h2, h4, h5, h6⟩ := nextP_spec g hg lab st st' x h.len hn
  obtain ⟨u, l⟩ := x
  simp only at h2 h4 h6
  have hnewlev : ∀ p ∈ new, lev p.2 = lev l + 1 := by
    intro p hp; rw [(h4 p hp).2.2, hlev.child]
  have hul : IsHopDist g S u (lev l) := h.lvl (u, l) (by simp [hq])
  have hsorted := h.sorted
  rw [hq] at hsorted
  have hspan := h.span (u, l) (by simp [hq])
  rw [hq] at hspan
  have hsplit : ((E.map (fun p => lev p.2)) ++ (lev l :: q.map (fun p => lev p.2))).Pairwise (· ≤ ·) := by
    simpa using hsorted
  -- levels: everything before `new` is ≤ w+1, everything in q is ≥ w
  have hEle : ∀ p ∈ E, lev p.2 ≤ lev l := by
    intro p hp
    have := List.pairwise_append.mp hsplit
    exact this.2.2 (lev p.2) (List.mem_map.mpr ⟨p, hp, rfl⟩) (lev l) (by simp)
  have hqge : ∀ p ∈ q, lev l ≤ lev p.2 := by
    intro p hp
    have := List.pairwise_append.mp hsplit
    have := (List.pairwise_cons.mp this.2.1).1
    exact this (lev p.2) (List.mem_map.mpr ⟨p, hp, rfl⟩)
  have hqle : ∀ p ∈ q, lev p.2 ≤ lev l + 1 := fun p hp => hspan p (by simp [hp])
  refine { toInv := hbase, lvl := ?_, sorted := ?_, span := ?_, bound := ?_ }
  · intro p hp
    rw [h3] at hp
    have : p ∈ E ++ (u, l) :: q ∨ p ∈ new := by
      simp at hp ⊢; grind
    rcases this with hp | hp
    · exact h.lvl p (by rw [hq]; exact hp)
    · obtain ⟨hmem, hnv, _⟩ := h4 p hp
      rw [hnewlev p hp]
      obtain ⟨⟨s, hs, hr⟩, hmin⟩ := hul
      refine ⟨⟨s, hs, ReachIn.succ hr hmem⟩, ?_⟩
      rintro j hj ⟨s', hs', hr'⟩
      have := seen g S lev E st h j s' p.1 hs' hr' (by
        intro p' hp'; rw [hq] at hp'
        rcases List.mem_cons.mp hp' with rfl | hp'
        · simp; omega
        · have := hqge p' hp'; omega)
      simp [this] at hnv
  · rw [h3]
    have : ((E ++ [(u, l)]) ++ (q ++ new)).map (fun p => lev p.2)
        = ((E ++ (u, l) :: q).map (fun p => lev p.2)) ++ new.map (fun p => lev p.2) := by simp
    rw [this]
    refine List.pairwise_append.mpr ⟨hsorted, ?_, ?_⟩
    · have : ∀ a ∈ new.map (fun p => lev p.2), a = lev l + 1 := by
        intro a ha; obtain ⟨p, hp, rfl⟩ := List.mem_map.mp ha; exact hnewlev p hp
      exact List.pairwise_of_forall_mem_list (fun a ha b hb => by rw [this a ha, this b hb]; exact Nat.le_refl _)
    · intro a ha b hb
      obtain ⟨p', hp', rfl⟩ := List.mem_map.mp hb
      rw [hnewlev p' hp']
      obtain ⟨p, hp, rfl⟩ := List.mem_map.mp ha
      rcases List.mem_append.mp hp with hp | hp
      · have := hEle p hp; omega
      · rcases List.mem_cons.mp hp with rfl | hp
        · simp
        · exact hqle p hp
  · intro hd hhd p hp
    rw [h3] at hhd hp
    have hhdge : lev l ≤ lev hd.2 := by
      cases q with
      | nil =>
        simp at hhd
        cases new with
        | nil => simp at hhd
        | cons n ns => simp at hhd; subst hhd; have := hnewlev n (by simp); omega
      | cons q0 qs => simp at hhd; subst hhd; exact hqge q0 (by simp)
    rcases List.mem_append.mp hp with hp | hp
    · have := hqle p hp; omega
    · have := hnewlev p hp; omega
  · intro p hp
    rw [h3] at hp ⊢
    have hlen : ((E ++ [(u, l)]) ++ (q ++ new)).length = (E ++ st.queue).length + new.length := by
      simp [hq]; omega
    rw [hlen]
    have : p ∈ E ++ (u, l) :: q ∨ p ∈ new := by
      simp at hp ⊢; grind
    rcases this with hp | hp
    · have := h.bound p (by rw [hq]; exact hp); omega
    · have h0 := h.bound (u, l) (by simp [hq])
      have := hnewlev p hp
      have hpos : 0 < new.length := List.length_pos_of_mem hp
      simp only at h0
      omega

/-! ### whole runs -/

theorem run_inv (g : Graph) (hg : g.WF) (lab : Lab L) (lev : L → Nat) (hlev : IsLevel lab lev) (S : List Nat) :
    ∀ (fuel : Nat) (E : List (Nat × L)) (st : St L), InvD g S lev E st → g.n < fuel + E.length →
      InvD g S lev (E ++ (runP g lab fuel st).1) (runP g lab fuel st).2 ∧ (runP g lab fuel st).2.queue = [] := by
  intro fuel
  induction fuel with
  | zero =>
    intro E st h hlt
    have := inv_card g S E st h.toInv
    omega
  | succ f ih =>
    intro E st h hlt
    simp only [runP]
    cases hn : nextP g lab st with
    | none =>
      have hq : st.queue = [] := by
        unfold nextP at hn; cases hq : st.queue with
        | nil => rfl
        | cons p q => obtain ⟨u, w⟩ := p; simp [hq] at hn
      simpa using ⟨h, hq⟩
    | some p =>
      obtain ⟨x, st'⟩ := p
      have h' := step_invD g hg lab lev hlev S E st st' x h hn
      have := ih (E ++ [x]) st' h' (by simp; omega)
      simpa [List.append_assoc] using this

/-- Fuel adequacy, second half: once the queue has run empty more fuel changes nothing. -/
theorem runP_stable (g : Graph) (lab : Lab L) :
    ∀ (fuel fuel' : Nat) (st : St L), fuel ≤ fuel' → (runP g lab fuel st).2.queue = [] →
      runP g lab fuel' st = runP g lab fuel st := by
  intro fuel
  induction fuel with
  | zero =>
    intro fuel' st _ hq
    simp only [runP] at hq
    cases fuel' with
    | zero => rfl
    | succ f' => simp [runP, nextP, hq]
  | succ f ih =>
    intro fuel' st hle hq
    cases fuel' with
    | zero => omega
    | succ f' =>
      simp only [runP] at hq ⊢
      cases hn : nextP g lab st with
      | none => rfl
      | some p =>
        obtain ⟨x, st'⟩ := p
        simp only [hn] at hq
        simp only
        rw [ih f' st' (by omega) hq]

theorem isVis_replicate (n x : Nat) : isVis (List.replicate n false) x = false := by
  unfold isVis; by_cases h : x < n <;> simp [h]

theorem newP_spec (g : Graph) (lab : Lab L) (S : List Nat) (hS : ∀ s ∈ S, s < g.n) :
    (newP g lab S).queue = S.map (fun s => (s, lab.init)) ∧ (newP g lab S).visited.length = g.n ∧
    ∀ x, isVis (newP g lab S).visited x = decide (x ∈ S) := by
  unfold newP
  suffices H : ∀ (S : List Nat) (st : St L), (∀ s ∈ S, s < st.visited.length) →
      let r := S.foldl (fun st u => (⟨st.queue ++ [(u, lab.init)], st.visited.set u true⟩ : St L)) st
      r.queue = st.queue ++ S.map (fun s => (s, lab.init)) ∧ r.visited.length = st.visited.length ∧
      ∀ x, isVis r.visited x = (isVis st.visited x || decide (x ∈ S)) by
    have := H S ⟨[], List.replicate g.n false⟩ (by simpa using hS)
    simpa [isVis_replicate] using this
  intro S
  induction S with
  | nil => intro st _; simp
  | cons s S ih =>
    intro st hs
    have hs0 : s < st.visited.length := hs s (by simp)
    have := ih ⟨st.queue ++ [(s, lab.init)], st.visited.set s true⟩ (by intro x hx; simpa using hs x (by simp [hx]))
    simp only [List.foldl_cons]
    obtain ⟨a, b, c⟩ := this
    refine ⟨by simp [a], by simpa using b, ?_⟩
    intro x; rw [c x, isVis_set _ _ _ hs0]
    by_cases hx : x = s <;> simp [hx]

theorem init_invD (g : Graph) (lab : Lab L) (lev : L → Nat) (hlev : IsLevel lab lev)
    (S : List Nat) (hS : ∀ s ∈ S, s < g.n) (hnd : S.Nodup) :
    InvD g S lev [] (newP g lab S) := by
  obtain ⟨hq, hl, hv⟩ := newP_spec g lab S hS
  have hmap : (S.map (fun s => (s, lab.init))).map (·.1) = S := by simp [Function.comp_def]
  refine { len := hl, vis := ?_, nodup := ?_, reach := ?_, closed := ?_, src := ?_, lvl := ?_,
           sorted := ?_, span := ?_, bound := ?_ }
  · intro x; rw [hv x, hq]; simp [hmap]
  · rw [hq]; simpa [hmap] using hnd
  · intro x hx; rw [hq] at hx; simp [hmap] at hx; exact ⟨x, hx, Reach.refl x⟩
  · intro p hp; simp at hp
  · intro s hs; rw [hv s]; simpa using hs
  · intro p hp; rw [hq] at hp; simp at hp; obtain ⟨s, hs, rfl⟩ := hp
    simp only [hlev.init]
    exact ⟨⟨s, hs, ReachIn.zero s⟩, fun j hj => by omega⟩
  · rw [hq]; simp [List.pairwise_map, hlev.init]; exact List.pairwise_of_forall (fun _ _ => trivial)
  · intro hd _ p hp; rw [hq] at hp; simp at hp; obtain ⟨s, _, rfl⟩ := hp; simp [hlev.init]
  · intro p hp; rw [hq] at hp ⊢; simp at hp; obtain ⟨s, hs, rfl⟩ := hp
    simp only [hlev.init, List.nil_append, List.length_map]
    exact List.length_pos_of_mem hs

/-- The final invariant of a whole run from `new` (any fuel `> order`). -/
theorem run_final (g : Graph) (hg : g.WF) (lab : Lab L) (lev : L → Nat) (hlev : IsLevel lab lev)
    (S : List Nat) (hS : ∀ s ∈ S, s < g.n) (hnd : S.Nodup) (fuel : Nat) (hf : g.n < fuel) :
    InvD g S lev (runP g lab fuel (newP g lab S)).1 (runP g lab fuel (newP g lab S)).2 ∧
    (runP g lab fuel (newP g lab S)).2.queue = [] := by
  have h0 := init_invD g lab lev hlev S hS hnd
  have := run_inv g hg lab lev hlev S fuel [] (newP g lab S) h0 (by simpa using hf)
  simpa using this

/-- `iter` never panics for in-range sources and is the assert-free run. -/
theorem iter_eq (g : Graph) (hg : g.WF) (lab : Lab L) (S : List Nat) (hS : ∀ s ∈ S, s < g.n) :
    iter g lab S = .ok (runP g lab (fuelFor g S) (newP g lab S)).1 := by
  unfold iter
  rw [new_eq g lab S hS]
  simp only
  exact run_eq g hg lab _ _ (newP_spec g lab S hS).2.1

end GraafVerif.Bfs
