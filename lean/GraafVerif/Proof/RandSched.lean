import GraafVerif.Proof.RandErMap
/-! Schedule independence of the threaded `AdjacencyMap::random_tournament`: every interleaving of the
workers' locked inserts ends with the same rows (locked set insertion commutes). -/
namespace GraafVerif.Rand
open GraafVerif.Repr

theorem foldl_rowInsert_head (l : List (Nat × Nat)) (rows : List (List Nat)) (a : Nat × Nat) :
    l.foldl rowInsert (rowInsert rows a) = rowInsert (l.foldl rowInsert rows) a := by
  induction l generalizing rows with
  | nil => rfl
  | cons b bs ih => simp only [List.foldl_cons]; rw [rowInsert_comm rows a b, ih]

/-- an insert may be moved to the front of any sequence of inserts -/
theorem foldl_rowInsert_move (pre post : List (Nat × Nat)) (rows : List (List Nat)) (a : Nat × Nat) :
    (pre ++ a :: post).foldl rowInsert rows = (pre ++ post).foldl rowInsert (rowInsert rows a) := by
  simp only [List.foldl_append, List.foldl_cons]
  rw [foldl_rowInsert_head pre rows a]

theorem flatten_set_step (progs : List (List (Nat × Nat))) (k : Nat) (a : Nat × Nat) (rest : List (Nat × Nat))
    (h : progs[k]? = some (a :: rest)) :
    ∃ pre post, progs.flatten = pre ++ a :: post ∧ (progs.set k rest).flatten = pre ++ post := by
  induction progs generalizing k with
  | nil => simp at h
  | cons p ps ih =>
    cases k with
    | zero =>
      simp only [List.getElem?_cons_zero, Option.some.injEq] at h
      subst h
      exact ⟨[], rest ++ ps.flatten, by simp, by simp⟩
    | succ k =>
      simp only [List.getElem?_cons_succ] at h
      obtain ⟨pre, post, h1, h2⟩ := ih k h
      exact ⟨p ++ pre, post, by simp [h1], by simp [h2]⟩

/-- what is still to be done, applied in join order to the current rows, never changes -/
theorem step_invariant (st st' : TState) (k : Nat) (h : st.step k = some st') :
    st'.progs.flatten.foldl rowInsert st'.rows = st.progs.flatten.foldl rowInsert st.rows := by
  unfold TState.step at h
  split at h
  · rename_i a rest hk
    simp only [Option.some.injEq] at h
    subst h
    obtain ⟨pre, post, h1, h2⟩ := flatten_set_step st.progs k a rest hk
    simp only [h1, h2]
    exact (foldl_rowInsert_move pre post st.rows a).symm
  · simp at h

theorem run_invariant (sched : List Nat) (st st' : TState) (h : st.run sched = some st') :
    st'.progs.flatten.foldl rowInsert st'.rows = st.progs.flatten.foldl rowInsert st.rows := by
  induction sched generalizing st with
  | nil => simp only [TState.run, Option.some.injEq] at h; subst h; rfl
  | cons k ks ih =>
    unfold TState.run at h
    split at h
    · rename_i st1 hs
      rw [ih st1 h, step_invariant st st1 k hs]
    · simp at h

theorem terminal_flatten (st : TState) (h : st.terminal) : st.progs.flatten = [] := by
  unfold TState.terminal at h
  apply List.flatten_eq_nil_iff.2
  exact h

/-- P1: whatever the interleaving, once all workers are done the rows are those of the join-order run -/
theorem schedule_independent (streams : Nat → Stream) (n t : Nat) (sched : List Nat) (st : TState)
    (hrun : (tournamentInit streams n t).run sched = some st) (hterm : st.terminal) :
    st.rows = (tournamentProgs streams n t).flatten.foldl rowInsert (List.replicate n []) := by
  have := run_invariant sched _ st hrun
  rw [terminal_flatten st hterm] at this
  exact this

/-- non-vacuity / progress: from every state some schedule completes all workers -/
theorem exists_complete_schedule (st : TState) : ∃ sched st', st.run sched = some st' ∧ st'.terminal := by
  generalize hm : st.progs.flatten.length = m
  induction m generalizing st with
  | zero =>
    refine ⟨[], st, rfl, ?_⟩
    have : st.progs.flatten = [] := List.eq_nil_of_length_eq_zero hm
    exact List.flatten_eq_nil_iff.1 this
  | succ m ih =>
    have hne : st.progs.flatten ≠ [] := by intro h; rw [h] at hm; simp at hm
    have : ∃ p ∈ st.progs, p ≠ [] := by
      apply Classical.byContradiction
      intro hcon
      apply hne
      apply List.flatten_eq_nil_iff.2
      intro p hp
      apply Classical.byContradiction
      intro hp'
      exact hcon ⟨p, hp, hp'⟩
    obtain ⟨p, hp, hpne⟩ := this
    obtain ⟨k, hk, hkp⟩ := List.getElem_of_mem hp
    obtain ⟨a, rest, rfl⟩ := List.exists_cons_of_ne_nil hpne
    have hk' : st.progs[k]? = some (a :: rest) := by rw [List.getElem?_eq_getElem hk, hkp]
    obtain ⟨pre, post, h1, h2⟩ := flatten_set_step st.progs k a rest hk'
    have hstep : st.step k = some ⟨rowInsert st.rows a, st.progs.set k rest⟩ := by
      simp [TState.step, hk']
    obtain ⟨sched, st', hr, ht⟩ := ih ⟨rowInsert st.rows a, st.progs.set k rest⟩ (by
      simp only [h2]; rw [h1] at hm; simp at hm ⊢; omega)
    exact ⟨k :: sched, st', by simp [TState.run, hstep, hr], ht⟩

end GraafVerif.Rand
