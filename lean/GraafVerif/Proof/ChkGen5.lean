import GraafVerif.Proof.ChkGenRepr
import GraafVerif.Thm.AlgoGen5
/-!
# C13 on the regenerated definitions of set 5 (`Model/AlgoGen5.lean`)

The remaining unsafe-bearing functions: `AdjacencyMatrix::{toggle, add_arc}` and its `ArcsIterator`,
`AdjacencyList::{add_arc, out_neighbors, has_walk, is_tournament}` and its two iterators,
`AdjacencyMap::{out_neighbors, has_walk}`, `DistanceMatrix::{new, IndexMut}`.

The three iterator `next` functions are proved DIRECTLY (calculus of `Proof/ChkGenRt.lean`), for EVERY
iterator state — so also for every re-poll after `None`, which the equality theorems of
`Proof/AlgoGen5Iter.lean` (stated under the fuel invariant of a fresh iteration) do not cover.  The
other functions are transported through the `_eq` theorems of `Proof/AlgoGen5{Repr,Walk}.lean`.
-/
namespace GraafVerif.C13Gen
open GraafVerif GraafVerif.AlgoGen GraafVerif.AlgoGenThm GraafVerif.Repr

theorem noUB_optU {α : Type} (o : Option α) : NoUB (optU o) := by
  cases o with
  | none => exact noUB_panic
  | some a => exact noUB_ok _

theorem safe_divP {β ρ : Type} {B : β → Prop} {R : ρ → Prop} (a b : Nat) : Safe (divP a b : Blk β ρ Nat) (fun _ => True) B R := by
  unfold divP; split <;> trivial
theorem safe_modP {β ρ : Type} {B : β → Prop} {R : ρ → Prop} (a b : Nat) : Safe (modP a b : Blk β ρ Nat) (fun _ => True) B R := by
  unfold modP; split <;> trivial
theorem safe_subP {β ρ : Type} {B : β → Prop} {R : ρ → Prop} (a b : Nat) : Safe (subP a b : Blk β ρ Nat) (fun _ => True) B R := by
  unfold subP; split <;> trivial

/-! ## The three iterators: `next` in EVERY state -/

namespace MxArcsIterator

/-- one round of the `while`: `blocks.get_unchecked(block_index)` is guarded by the loop condition -/
theorem next_while0_safe (s : AlgoGen.MxArcsIterator) :
    Safe (AlgoGen.MxArcsIterator.next_while0 s) (fun _ => True) (fun _ => True) (fun _ => True) := by
  unfold AlgoGen.MxArcsIterator.next_while0
  split
  · rename_i hc
    refine safe_bind (Q' := fun _ => True) ?_ (fun s1 _ => ?_)
    · split
      · rename_i hz
        have hlt : s.block_index < s.matrix.blocks.length := by
          simp only [hz, bne_self_eq_false, Bool.or_false, decide_eq_true_eq] at hc
          exact hc
        exact safe_bind (safe_rd _ _ _ hlt) (fun _ _ => safe_pure trivial)
      · exact safe_pure trivial
    · split
      · dsimp only
        split
        · exact safe_bind (safe_divP _ _) (fun _ _ => safe_bind (safe_modP _ _) (fun _ _ => safe_ret trivial))
        · exact safe_pure trivial
      · exact safe_pure trivial
  · exact safe_brk trivial

/-- `ArcsIterator::next` of `AdjacencyMatrix` for every matrix value and EVERY iterator state. -/
theorem next_safe_any (s : AlgoGen.MxArcsIterator) : RSafe (AlgoGen.MxArcsIterator.next s) (fun _ => True) := by
  unfold AlgoGen.MxArcsIterator.next
  refine safe_fnBody ?_
  exact safe_bind (safe_whileLoop _ (fun _ => True) (fun _ => True) (fun s' _ => next_while0_safe s') _ s trivial)
    (fun _ _ => safe_pure trivial)

end MxArcsIterator

namespace AlArcsIterator

theorem next_loop0_safe (s : AlgoGen.AlArcsIterator) :
    Safe (AlgoGen.AlArcsIterator.next_loop0 s) (fun _ => True) (fun _ => True) (fun _ => True) := by
  unfold AlgoGen.AlArcsIterator.next_loop0
  refine safe_bind (Q' := fun _ => True) ?_ (fun s1 _ => ?_)
  · cases s.inner with
    | none => exact safe_pure trivial
    | some inner =>
      dsimp only
      refine safe_bind (Q' := fun _ => True) ?_ (fun _ _ => safe_pure trivial)
      cases popFront inner with
      | none => exact safe_pure trivial
      | some t2 => exact safe_bind (safe_subP _ _) (fun _ _ => safe_ret trivial)
  · split
    · exact safe_ret trivial
    · rename_i hge
      exact safe_bind (safe_rd _ _ _ (by omega)) (fun _ _ => safe_pure trivial)

/-- `ArcsIterator::next` of `AdjacencyList` in EVERY iterator state (`get_unchecked(self.u)` follows
`if self.u >= len { return None }`). -/
theorem next_safe_any (s : AlgoGen.AlArcsIterator) : RSafe (AlgoGen.AlArcsIterator.next s) (fun _ => True) := by
  unfold AlgoGen.AlArcsIterator.next
  refine safe_fnBody ?_
  exact safe_bind (safe_loopLoop _ (fun _ => True) (fun _ => True) (fun _ => True) (fun s' _ => next_loop0_safe s') _ s trivial)
    (fun _ _ => safe_pure trivial)

end AlArcsIterator

namespace InNeighborsIterator

/-- the iterator's `len` is the length of the slice its pointer was taken from -/
def Inv (s : AlgoGen.InNeighborsIterator) : Prop := s.len ≤ s.ptr.length

theorem next_while0_safe (s : AlgoGen.InNeighborsIterator) (h : Inv s) :
    Safe (AlgoGen.InNeighborsIterator.next_while0 s) Inv Inv (fun (r : Option Nat × AlgoGen.InNeighborsIterator) => Inv r.2) := by
  unfold AlgoGen.InNeighborsIterator.next_while0
  split
  · rename_i hi
    refine safe_bind (safe_rd _ _ _ (by unfold Inv at h; omega)) (fun t0 _ => ?_)
    dsimp only
    split
    · exact safe_ret h
    · exact safe_pure h
  · exact safe_brk h

theorem next_safe (s : AlgoGen.InNeighborsIterator) (h : Inv s) :
    RSafe (AlgoGen.InNeighborsIterator.next s) (fun (r : Option Nat × AlgoGen.InNeighborsIterator) => Inv r.2) := by
  unfold AlgoGen.InNeighborsIterator.next
  refine safe_fnBody ?_
  exact safe_bind (safe_whileLoop _ Inv (fun (r : Option Nat × AlgoGen.InNeighborsIterator) => Inv r.2) (fun s' hs' => next_while0_safe s' hs') _ s h)
    (fun s' hs' => safe_pure hs')

theorem new_safe (d : AdjList) (v : Nat) : RSafe (AlgoGen.AdjacencyList.inNeighborsIter d v) Inv := by
  unfold AlgoGen.AdjacencyList.inNeighborsIter
  exact safe_fnBody (safe_pure (Nat.le_refl _))

end InNeighborsIterator

/-! ## Transported through the equalities of set 5 -/

/-- `empty` (hence every value built through the public API: all other operations keep `blocks.len()`)
establishes the block-count hypothesis of `toggle` / `add_arc`. -/
theorem mxEmpty_blocks (n : Nat) (d : AdjMatrix) (h : AdjMatrix.empty n = some d) :
    d.order * d.order ≤ 64 * d.blocks.length := by
  unfold AdjMatrix.empty at h
  split at h
  · cases h
  · split at h
    · cases h
    · cases h
      simp only [List.length_replicate]
      omega

theorem mxWF_blocks (d : AdjMatrix) (h : d.WF) : d.order * d.order ≤ 64 * d.blocks.length := by
  rw [h.2.1]; omega

theorem mxToggle_noUB (d : AdjMatrix) (u v : Nat) (hlen : d.order * d.order ≤ 64 * d.blocks.length) :
    NoUB (AlgoGen.AdjacencyMatrix.toggle d u v) := by
  rw [AdjacencyMatrix.toggle_eq d u v hlen]; exact noUB_optU _

theorem mxAddArc_noUB (d : AdjMatrix) (u v : Nat) (hlen : d.order * d.order ≤ 64 * d.blocks.length) :
    NoUB (AlgoGen.AdjacencyMatrix.addArc d u v) := by
  rw [AdjacencyMatrix.addArc_eq d u v hlen]; exact noUB_optU _

theorem alAddArc_noUB (d : AdjList) (u v : Nat) : NoUB (AlgoGen.AdjacencyList.addArc d u v) := by
  rw [AdjacencyList.addArc_eq]; exact noUB_optU _

theorem alOutNeighbors_noUB (d : AdjList) (u : Nat) : NoUB (AlgoGen.AdjacencyList.outNeighbors d u) := by
  rw [AdjacencyList.outNeighbors_eq]; exact noUB_optR _

theorem alHasWalk_noUB (d : AdjList) (w : List Nat) : NoUB (AlgoGen.AdjacencyList.hasWalk d w) := by
  rw [AdjacencyList.hasWalk_eq]; exact noUB_ok _

theorem amHasWalk_noUB (d : AdjMap) (w : List Nat) : NoUB (AlgoGen.AdjacencyMap.hasWalk d w) := by
  rw [AdjacencyMap.hasWalk_eq]; exact noUB_ok _

theorem alIsTournament_noUB (d : AdjList) (hn : 0 < d.order) : NoUB (AlgoGen.AdjacencyList.isTournament d) := by
  rw [AdjacencyList.isTournament_eq d hn]; exact noUB_ok _

theorem amOutNeighbors_noUB (d : AdjMap) (u : Nat) : NoUB (AlgoGen.AdjacencyMap.outNeighbors d u) := by
  rw [AdjacencyMap.outNeighbors_eq]; exact noUB_optR _

theorem noUB_ofRes (r : DistMatrix.Res DistMatrix.DM) : NoUB (DistanceMatrix.ofRes r) := by
  cases r with
  | panic => exact noUB_panic
  | ok m => exact noUB_ok _

/-- `DistanceMatrix::new` for EVERY order: no write leaves the capacity, `set_len` is within it, every slot
is written before the vector is used (raw-buffer reading of the translator; `set_len` BEFORE the writes is
accepted as long as nothing uses the vector in between — see docs/C13.md). -/
theorem dmNew_noUB (order : Nat) (inf : Int) : NoUB (AlgoGen.DistanceMatrix.new order inf) := by
  rw [DistanceMatrix.new_eq]; exact noUB_ofRes _

theorem dmIndexMut_noUB (m : AlgoGen.DistanceMatrix) (i : Nat) : NoUB (AlgoGen.DistanceMatrix.indexMut m i) := by
  rw [DistanceMatrix.indexMut_eq]; split
  · exact noUB_ok _
  · exact noUB_panic

end GraafVerif.C13Gen
