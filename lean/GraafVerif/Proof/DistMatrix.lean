import GraafVerif.Spec.DistMatrix
/-! Helper lemmas for C18 (`DistanceMatrix`): `chunks` yields the rows, `foldl max` is the
maximum, the running-minimum loop of `center` yields the ascending argmin list. -/
namespace GraafVerif.DistMatrix

/-! ## `new`, indexing -/

theorem new_ok {order : Nat} (inf : Int) (h1 : 1 ≤ order) (h2 : order * order ≤ usizeMax) :
    new order inf = .ok ⟨List.replicate (order * order) inf, inf, order⟩ := by
  unfold new
  have : order ≠ 0 := by omega
  have h3 : ¬ order * order > usizeMax := by omega
  simp [this, h3]

theorem idx_lt {n u v : Nat} (hu : u < n) (hv : v < n) : u * n + v < n * n := by
  have : u * n + n ≤ n * n := by
    have := Nat.mul_le_mul_right n (show u + 1 ≤ n by omega)
    rw [Nat.add_mul, Nat.one_mul] at this
    exact this
  omega

/-- `(u, v) ↦ u * n + v` is injective on the square. -/
theorem idx_inj {n u v u' v' : Nat} (hv : v < n) (hv' : v' < n)
    (h : u * n + v = u' * n + v') : u = u' ∧ v = v' := by
  have h1 : (u * n + v) / n = u := by
    rw [Nat.add_comm, Nat.add_mul_div_right _ _ (by omega), Nat.div_eq_of_lt hv]; omega
  have h2 : (u' * n + v') / n = u' := by
    rw [Nat.add_comm, Nat.add_mul_div_right _ _ (by omega), Nat.div_eq_of_lt hv']; omega
  have hu : u = u' := by rw [← h1, ← h2, h]
  subst hu
  exact ⟨rfl, by omega⟩

theorem get_ok {m : DM} (hw : WF m) {u v : Nat} (hu : u < m.order) (hv : v < m.order) :
    get m u v = .ok (cell m u v) := by
  have hlt : u * m.order + v < m.dist.length := by rw [hw.len]; exact idx_lt hu hv
  unfold get cell
  simp [List.getElem?_eq_getElem hlt]

theorem cell_mem {m : DM} (hw : WF m) {u v : Nat} (hu : u < m.order) (hv : v < m.order) :
    cell m u v ∈ m.dist := by
  have hlt : u * m.order + v < m.dist.length := by rw [hw.len]; exact idx_lt hu hv
  unfold cell
  simp [List.getElem?_eq_getElem hlt]

theorem row_getElem? (m : DM) {u v : Nat} (hv : v < m.order) :
    (row m u)[v]? = m.dist[u * m.order + v]? := by
  unfold row
  rw [List.getElem?_take, List.getElem?_drop]
  simp [hv]

theorem row_length {m : DM} (hw : WF m) {u : Nat} (hu : u < m.order) : (row m u).length = m.order := by
  unfold row
  rw [List.length_take, List.length_drop, hw.len]
  have : u * m.order + m.order ≤ m.order * m.order := by
    have := Nat.mul_le_mul_right m.order (show u + 1 ≤ m.order by omega)
    rw [Nat.add_mul, Nat.one_mul] at this
    exact this
  omega

/-! ## `chunks` -/

theorem chunksFuel_spec {α : Type} (k : Nat) (hk : 0 < k) :
    ∀ (n f : Nat) (l : List α), l.length = n * k → n ≤ f →
      chunksFuel k f l = (List.range n).map (fun i => (l.drop (i * k)).take k) := by
  intro n
  induction n with
  | zero =>
    intro f l hl _
    have : l = [] := List.length_eq_zero_iff.mp (by simpa using hl)
    subst this
    cases f <;> simp [chunksFuel]
  | succ n ih =>
    intro f l hl hf
    cases f with
    | zero => omega
    | succ f =>
      cases l with
      | nil =>
        simp at hl
        have : 0 < (n + 1) * k := Nat.mul_pos (by omega) hk
        omega
      | cons x xs =>
        have hdl : ((x :: xs).drop k).length = n * k := by
          rw [List.length_drop, hl, Nat.add_mul]; omega
        rw [chunksFuel, ih f _ hdl (by omega), List.range_succ_eq_map, List.map_cons, List.map_map]
        congr 1
        · simp
        · apply List.map_congr_left
          intro i _
          simp only [Function.comp, List.drop_drop, Nat.succ_eq_add_one, Nat.add_mul, Nat.one_mul]
          rw [Nat.add_comm k]

theorem chunks_rows {m : DM} (hw : WF m) :
    chunks m.order m.dist = (List.range m.order).map (row m) := by
  unfold chunks
  rw [chunksFuel_spec m.order hw.order_pos m.order m.dist.length m.dist hw.len]
  · rfl
  · rw [hw.len]; exact Nat.le_mul_of_pos_right _ hw.order_pos

/-! ## maxima -/

theorem foldl_max_spec : ∀ (xs : List Int) (a : Int),
    (xs.foldl max a = a ∨ xs.foldl max a ∈ xs) ∧ a ≤ xs.foldl max a ∧ ∀ x ∈ xs, x ≤ xs.foldl max a := by
  intro xs
  induction xs with
  | nil => intro a; simp
  | cons y ys ih =>
    intro a
    obtain ⟨h1, h2, h3⟩ := ih (max a y)
    simp only [List.foldl_cons]
    refine ⟨?_, by omega, ?_⟩
    · rcases h1 with h | h
      · rw [h]
        by_cases hay : y ≤ a
        · left; omega
        · right; simp; left; omega
      · right; simp [h]
    · intro x hx
      rcases List.mem_cons.mp hx with rfl | hx
      · omega
      · exact h3 x hx

/-- `maxOr` of a non-empty list is its maximum. -/
theorem maxOr_spec (d : Int) {l : List Int} (hl : l ≠ []) :
    maxOr d l ∈ l ∧ ∀ x ∈ l, x ≤ maxOr d l := by
  cases l with
  | nil => exact absurd rfl hl
  | cons x xs =>
    obtain ⟨h1, h2, h3⟩ := foldl_max_spec xs x
    simp only [maxOr]
    refine ⟨?_, ?_⟩
    · rcases h1 with h | h
      · rw [h]; simp
      · simp [h]
    · intro y hy
      rcases List.mem_cons.mp hy with rfl | hy
      · exact h2
      · exact h3 y hy

/-! ## eccentricities -/

theorem ecc_eq {m : DM} (hw : WF m) :
    ecc m = (List.range m.order).map (fun u => maxOr m.infinity (row m u)) := by
  unfold ecc
  rw [chunks_rows hw, List.map_map]
  rfl

theorem ecc_length {m : DM} (hw : WF m) : (ecc m).length = m.order := by
  rw [ecc_eq hw]; simp

theorem ecc_getElem? {m : DM} (hw : WF m) {u : Nat} (hu : u < m.order) :
    (ecc m)[u]? = some (maxOr m.infinity (row m u)) := by
  rw [ecc_eq hw, List.getElem?_map, List.getElem?_range hu]
  rfl

theorem row_ne_nil {m : DM} (hw : WF m) {u : Nat} (hu : u < m.order) : row m u ≠ [] := by
  intro h
  have := row_length hw hu
  rw [h] at this
  have := hw.order_pos
  simp at *
  omega

theorem mem_row {m : DM} (hw : WF m) {u : Nat} (hu : u < m.order) (x : Int) :
    x ∈ row m u ↔ ∃ v, v < m.order ∧ cell m u v = x := by
  constructor
  · intro hx
    obtain ⟨v, hv, hxv⟩ := List.getElem_of_mem hx
    have hvo : v < m.order := by rw [row_length hw hu] at hv; exact hv
    refine ⟨v, hvo, ?_⟩
    have h1 : (row m u)[v]? = some x := by rw [List.getElem?_eq_getElem hv, hxv]
    rw [row_getElem? m hvo] at h1
    simp [cell, h1]
  · rintro ⟨v, hv, rfl⟩
    have hlt : u * m.order + v < m.dist.length := by rw [hw.len]; exact idx_lt hu hv
    have h1 : (row m u)[v]? = some (cell m u v) := by
      rw [row_getElem? m hv]
      simp [cell, List.getElem?_eq_getElem hlt]
    exact List.mem_of_getElem? h1

/-- Eccentricity of `u` = maximum of the cells of row `u`. -/
theorem ecc_isMax {m : DM} (hw : WF m) {u : Nat} (hu : u < m.order) :
    ∃ e, (ecc m)[u]? = some e ∧ (∃ v, v < m.order ∧ cell m u v = e) ∧
      ∀ v, v < m.order → cell m u v ≤ e := by
  obtain ⟨h1, h2⟩ := maxOr_spec m.infinity (row_ne_nil hw hu)
  refine ⟨_, ecc_getElem? hw hu, (mem_row hw hu _).mp h1, ?_⟩
  intro v hv
  exact h2 _ ((mem_row hw hu _).mpr ⟨v, hv, rfl⟩)

theorem ecc_ne_nil {m : DM} (hw : WF m) : ecc m ≠ [] := by
  intro h
  have := ecc_length hw
  rw [h] at this
  have := hw.order_pos
  simp at *
  omega

theorem ecc_le_inf {m : DM} (hw : WF m) : ∀ e ∈ ecc m, e ≤ m.infinity := by
  intro e he
  obtain ⟨u, hu, heu⟩ := List.getElem_of_mem he
  rw [ecc_length hw] at hu
  obtain ⟨e', he', ⟨v, hv, hc⟩, _⟩ := ecc_isMax hw hu
  have : e = e' := by
    have h1 : (ecc m)[u]? = some e := by
      rw [List.getElem?_eq_getElem (by rw [ecc_length hw]; exact hu), heu]
    rw [h1] at he'
    exact Option.some.inj he'
  subst this
  rw [← hc]
  exact hw.le_inf _ (cell_mem hw hu hv)

/-! ## index lists (`periphery`, and the result of `center`) -/

theorem mem_idxEq (d : Int) : ∀ (es : List Int) (i x : Nat),
    x ∈ idxEq d es i ↔ ∃ j, x = i + j ∧ es[j]? = some d := by
  intro es
  induction es with
  | nil => intro i x; simp [idxEq]
  | cons e es ih =>
    intro i x
    unfold idxEq
    by_cases hed : e = d
    · subst hed
      simp only [beq_self_eq_true, if_true, List.mem_cons, ih]
      constructor
      · rintro (rfl | ⟨j, rfl, hj⟩)
        · exact ⟨0, rfl, by simp⟩
        · exact ⟨j + 1, by omega, by simpa using hj⟩
      · rintro ⟨j, rfl, hj⟩
        cases j with
        | zero => left; rfl
        | succ j => right; exact ⟨j, by omega, by simpa using hj⟩
    · have : (e == d) = false := by simpa using hed
      simp only [this, Bool.false_eq_true, if_false, ih]
      constructor
      · rintro ⟨j, rfl, hj⟩
        exact ⟨j + 1, by omega, by simpa using hj⟩
      · rintro ⟨j, rfl, hj⟩
        cases j with
        | zero => simp at hj; exact absurd hj hed
        | succ j => exact ⟨j, by omega, by simpa using hj⟩

theorem idxEq_sorted (d : Int) : ∀ (es : List Int) (i : Nat), (idxEq d es i).Pairwise (· < ·) := by
  intro es
  induction es with
  | nil => intro i; simp [idxEq]
  | cons e es ih =>
    intro i
    unfold idxEq
    split
    · rw [List.pairwise_cons]
      refine ⟨?_, ih (i+1)⟩
      intro x hx
      obtain ⟨j, rfl, _⟩ := (mem_idxEq d es (i+1) x).mp hx
      omega
    · exact ih (i+1)

/-! ## the running minimum of `center` -/

theorem foldl_min_spec : ∀ (xs : List Int) (a : Int),
    (xs.foldl min a = a ∨ xs.foldl min a ∈ xs) ∧ xs.foldl min a ≤ a ∧ ∀ x ∈ xs, xs.foldl min a ≤ x := by
  intro xs
  induction xs with
  | nil => intro a; simp
  | cons y ys ih =>
    intro a
    obtain ⟨h1, h2, h3⟩ := ih (min a y)
    simp only [List.foldl_cons]
    refine ⟨?_, by omega, ?_⟩
    · rcases h1 with h | h
      · rw [h]
        by_cases hay : a ≤ y
        · left; omega
        · right; simp; left; omega
      · right; simp [h]
    · intro x hx
      rcases List.mem_cons.mp hx with rfl | hx
      · omega
      · exact h3 x hx

/-- What the `center` loop computes, for ANY starting state: with `μ` the minimum of the
current `min` and the remaining eccentricities, the collected list is kept iff `μ` is not
smaller than the current `min`, and then the indices of the remaining entries equal to `μ`
are appended. -/
theorem centerLoop_eq' : ∀ (es : List Int) (i : Nat) (c : List Nat) (mn μ : Int),
    μ = es.foldl min mn →
    centerLoop es i c mn = (if μ < mn then [] else c) ++ idxEq μ es i := by
  intro es
  induction es with
  | nil => intro i c mn μ hμ; simp at hμ; subst hμ; simp [centerLoop, idxEq]
  | cons e es ih =>
    intro i c mn μ hμ
    simp only [List.foldl_cons] at hμ
    obtain ⟨_, hle, _⟩ := foldl_min_spec es (min mn e)
    rw [← hμ] at hle
    unfold centerLoop idxEq
    cases hc : compare e mn with
    | lt =>
      have hlt : e < mn := Int.compare_eq_lt.mp hc
      have hmin : min mn e = e := by omega
      rw [hmin] at hμ hle
      simp only [ih (i+1) [i] e μ hμ]
      have h1 : μ < mn := by omega
      simp only [h1, if_true, List.nil_append]
      by_cases h2 : μ < e
      · have : (e == μ) = false := by simp; omega
        simp [h2, this]
      · have : μ = e := by omega
        simp [this]
    | eq =>
      have heq : e = mn := Int.compare_eq_eq.mp hc
      subst heq
      have hmin : min e e = e := by omega
      rw [hmin] at hμ hle
      simp only [ih (i+1) (c ++ [i]) e μ hμ]
      by_cases h2 : μ < e
      · have : (e == μ) = false := by simp; omega
        simp [h2, this]
      · have : μ = e := by omega
        simp [this]
    | gt =>
      have hgt : mn < e := Int.compare_eq_gt.mp hc
      have hmin : min mn e = mn := by omega
      rw [hmin] at hμ hle
      simp only [ih (i+1) c mn μ hμ]
      have : (e == μ) = false := by simp; omega
      simp [this]

theorem centerLoop_eq (es : List Int) (i : Nat) (c : List Nat) (mn : Int) :
    centerLoop es i c mn =
      (if es.foldl min mn < mn then [] else c) ++ idxEq (es.foldl min mn) es i :=
  centerLoop_eq' es i c mn _ rfl

/-- Under the property's hypothesis the result of `center` is the list of indices whose
eccentricity equals the minimum eccentricity. -/
theorem center_eq {m : DM} (hw : WF m) :
    ∃ μ, μ ∈ ecc m ∧ (∀ e ∈ ecc m, μ ≤ e) ∧ center m = idxEq μ (ecc m) 0 := by
  obtain ⟨h1, h2, h3⟩ := foldl_min_spec (ecc m) m.infinity
  refine ⟨(ecc m).foldl min m.infinity, ?_, h3, ?_⟩
  · rcases h1 with h | h
    · -- the fold stayed at infinity: every eccentricity is infinity
      cases hE : ecc m with
      | nil => exact absurd hE (ecc_ne_nil hw)
      | cons e es =>
        have he : e ∈ ecc m := by rw [hE]; simp
        have hle := ecc_le_inf hw e he
        have hge := h3 e he
        rw [h] at hge
        have : e = m.infinity := by omega
        rw [← hE, h, ← this, hE]; simp
    · exact h
  · unfold center
    rw [centerLoop_eq]
    split <;> simp

end GraafVerif.DistMatrix
