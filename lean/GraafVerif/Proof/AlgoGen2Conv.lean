import GraafVerif.Model.AlgoGen2
import GraafVerif.Proof.AlgoGenRt
import GraafVerif.Model.Conv
/-!
# Generated `From` conversions (`Model/AlgoGen2.lean`) = hand-written `Model/Conv.lean` (C16)

The sixteen macro-generated `impl From<$type> for T` bodies (the macro of each `src/repr/*/mod.rs`
expanded textually per instantiation; the two weight types of the weighted list share one
definition) and the five `impl<I: IntoIterator<..>> From<I>` bodies.  `optR` reads the `Option` of the
hand-written models (`none` = the Rust code panics).  All equalities are UNCONDITIONAL (every value
of the source representation / every iterator content).
-/
set_option linter.unusedSimpArgs false
namespace GraafVerif.AlgoGenThm
open GraafVerif GraafVerif.AlgoGen GraafVerif.Repr

/-- `none` of a hand-written conversion = the panic of the Rust code -/
def optR {α : Type} : Option α → Res α
  | some a => .ok a
  | none => .error (.fault .panic)

/-- a loop whose body is a lifted `Option`-valued step is the lifted `foldlM` -/
theorem forLoop_optP {σ α β ρ : Type} (body : σ → α → Blk σ ρ σ) (f : σ → α → Option σ)
    (h : ∀ s a, body s a = optP (f s a)) : ∀ (l : List α) (s : σ),
    (forLoop body l s : Blk β ρ σ) = optP (l.foldlM f s) := by
  intro l
  induction l with
  | nil => intro s; rfl
  | cons a l ih =>
    intro s
    rw [List.foldlM_cons]
    cases hf : f s a with
    | none => rw [forLoop_cons_err (e := .fault .panic) (h := by rw [h, hf]; rfl)]; rfl
    | some s' =>
      rw [forLoop_cons_ok (s' := s') (h := by rw [h, hf]; rfl)]
      exact ih s'

namespace AdjacencyList
/-- one iteration of the macro body = the hand-written `Conv.step` -/
theorem fromAdjacencyMap_for0_step (order : Nat) (h : AdjList) (x : Nat × Nat) :
    (AlgoGen.AdjacencyList.fromAdjacencyMap_for0 order h x : Blk AdjList AdjList AdjList) = optP (Conv.step AdjList.addArc order h x) := by
  unfold AlgoGen.AdjacencyList.fromAdjacencyMap_for0 Conv.step
  by_cases h1 : x.1 = x.2
  · simp [h1, optP, panic_def]
  · have hb : (x.1 != x.2) = true := by simpa using h1
    by_cases h2 : x.2 < order
    · simp only [h1, h2, hb, decide_true, assert_true, ok_bind, if_false, not_true_eq_false]
      cases AdjList.addArc h x.1 x.2 <;> simp [optP, panic_def]
    · simp [h1, h2, hb, optP, panic_def]

/-- `for (u, v) in digraph.arcs() { assert_ne!(u, v); assert!(v < order); h.add_arc(u, v) }` -/
theorem fromAdjacencyMap_for0_eq (order : Nat) (arcs : List (Nat × Nat)) (h : AdjList) :
    (forLoop (AlgoGen.AdjacencyList.fromAdjacencyMap_for0 order) arcs h : Blk Empty AdjList AdjList) = optP (arcs.foldlM (Conv.step AdjList.addArc order) h) :=
  forLoop_optP _ _ (fromAdjacencyMap_for0_step order) arcs h

/-- `impl From<AdjacencyMap> for AdjacencyList` (macro-generated) = the hand-written `Conv.amToAL`, for every value. -/
theorem fromAdjacencyMap_eq (d : AdjMap) : AlgoGen.AdjacencyList.fromAdjacencyMap d = optR (Conv.amToAL d) := by
  unfold AlgoGen.AdjacencyList.fromAdjacencyMap Conv.amToAL Conv.toAL Conv.fromDigraph
  by_cases h0 : d.order = 0
  · simp [h0, optR]
  · have hp : d.order > 0 := Nat.pos_of_ne_zero h0
    simp only [hp, decide_true, assert_true, ok_bind, h0, if_false, fromAdjacencyMap_for0_eq]
    cases AdjList.empty d.order with
    | none => rfl
    | some e =>
      simp only [optP, ok_bind, Option.bind_eq_bind, Option.bind_some]
      cases List.foldlM (Conv.step AdjList.addArc d.order) e d.arcs <;> rfl

/-- one iteration of the macro body = the hand-written `Conv.step` -/
theorem fromAdjacencyMatrix_for0_step (order : Nat) (h : AdjList) (x : Nat × Nat) :
    (AlgoGen.AdjacencyList.fromAdjacencyMatrix_for0 order h x : Blk AdjList AdjList AdjList) = optP (Conv.step AdjList.addArc order h x) := by
  unfold AlgoGen.AdjacencyList.fromAdjacencyMatrix_for0 Conv.step
  by_cases h1 : x.1 = x.2
  · simp [h1, optP, panic_def]
  · have hb : (x.1 != x.2) = true := by simpa using h1
    by_cases h2 : x.2 < order
    · simp only [h1, h2, hb, decide_true, assert_true, ok_bind, if_false, not_true_eq_false]
      cases AdjList.addArc h x.1 x.2 <;> simp [optP, panic_def]
    · simp [h1, h2, hb, optP, panic_def]

/-- `for (u, v) in digraph.arcs() { assert_ne!(u, v); assert!(v < order); h.add_arc(u, v) }` -/
theorem fromAdjacencyMatrix_for0_eq (order : Nat) (arcs : List (Nat × Nat)) (h : AdjList) :
    (forLoop (AlgoGen.AdjacencyList.fromAdjacencyMatrix_for0 order) arcs h : Blk Empty AdjList AdjList) = optP (arcs.foldlM (Conv.step AdjList.addArc order) h) :=
  forLoop_optP _ _ (fromAdjacencyMatrix_for0_step order) arcs h

/-- `impl From<AdjacencyMatrix> for AdjacencyList` (macro-generated) = the hand-written `Conv.mxToAL`, for every value. -/
theorem fromAdjacencyMatrix_eq (d : AdjMatrix) : AlgoGen.AdjacencyList.fromAdjacencyMatrix d = optR (Conv.mxToAL d) := by
  unfold AlgoGen.AdjacencyList.fromAdjacencyMatrix Conv.mxToAL Conv.toAL Conv.fromDigraph
  by_cases h0 : d.order = 0
  · simp [h0, optR]
  · have hp : d.order > 0 := Nat.pos_of_ne_zero h0
    simp only [hp, decide_true, assert_true, ok_bind, h0, if_false, fromAdjacencyMatrix_for0_eq]
    cases AdjList.empty d.order with
    | none => rfl
    | some e =>
      simp only [optP, ok_bind, Option.bind_eq_bind, Option.bind_some]
      cases List.foldlM (Conv.step AdjList.addArc d.order) e d.arcs <;> rfl

/-- one iteration of the macro body = the hand-written `Conv.step` -/
theorem fromEdgeList_for0_step (order : Nat) (h : AdjList) (x : Nat × Nat) :
    (AlgoGen.AdjacencyList.fromEdgeList_for0 order h x : Blk AdjList AdjList AdjList) = optP (Conv.step AdjList.addArc order h x) := by
  unfold AlgoGen.AdjacencyList.fromEdgeList_for0 Conv.step
  by_cases h1 : x.1 = x.2
  · simp [h1, optP, panic_def]
  · have hb : (x.1 != x.2) = true := by simpa using h1
    by_cases h2 : x.2 < order
    · simp only [h1, h2, hb, decide_true, assert_true, ok_bind, if_false, not_true_eq_false]
      cases AdjList.addArc h x.1 x.2 <;> simp [optP, panic_def]
    · simp [h1, h2, hb, optP, panic_def]

/-- `for (u, v) in digraph.arcs() { assert_ne!(u, v); assert!(v < order); h.add_arc(u, v) }` -/
theorem fromEdgeList_for0_eq (order : Nat) (arcs : List (Nat × Nat)) (h : AdjList) :
    (forLoop (AlgoGen.AdjacencyList.fromEdgeList_for0 order) arcs h : Blk Empty AdjList AdjList) = optP (arcs.foldlM (Conv.step AdjList.addArc order) h) :=
  forLoop_optP _ _ (fromEdgeList_for0_step order) arcs h

/-- `impl From<EdgeList> for AdjacencyList` (macro-generated) = the hand-written `Conv.elToAL`, for every value. -/
theorem fromEdgeList_eq (d : EdgeList) : AlgoGen.AdjacencyList.fromEdgeList d = optR (Conv.elToAL d) := by
  unfold AlgoGen.AdjacencyList.fromEdgeList Conv.elToAL Conv.toAL Conv.fromDigraph
  by_cases h0 : d.order = 0
  · simp [h0, optR]
  · have hp : d.order > 0 := Nat.pos_of_ne_zero h0
    simp only [hp, decide_true, assert_true, ok_bind, h0, if_false, fromEdgeList_for0_eq]
    cases AdjList.empty d.order with
    | none => rfl
    | some e =>
      simp only [optP, ok_bind, Option.bind_eq_bind, Option.bind_some]
      cases List.foldlM (Conv.step AdjList.addArc d.order) e d.arcs <;> rfl

end AdjacencyList

namespace AdjacencyMap
/-- one iteration of the macro body = the hand-written `Conv.step` -/
theorem fromAdjacencyList_for0_step (order : Nat) (h : AdjMap) (x : Nat × Nat) :
    (AlgoGen.AdjacencyMap.fromAdjacencyList_for0 order h x : Blk AdjMap AdjMap AdjMap) = optP (Conv.step AdjMap.addArc order h x) := by
  unfold AlgoGen.AdjacencyMap.fromAdjacencyList_for0 Conv.step
  by_cases h1 : x.1 = x.2
  · simp [h1, optP, panic_def]
  · have hb : (x.1 != x.2) = true := by simpa using h1
    by_cases h2 : x.2 < order
    · simp only [h1, h2, hb, decide_true, assert_true, ok_bind, if_false, not_true_eq_false]
      cases AdjMap.addArc h x.1 x.2 <;> simp [optP, panic_def]
    · simp [h1, h2, hb, optP, panic_def]

/-- `for (u, v) in digraph.arcs() { assert_ne!(u, v); assert!(v < order); h.add_arc(u, v) }` -/
theorem fromAdjacencyList_for0_eq (order : Nat) (arcs : List (Nat × Nat)) (h : AdjMap) :
    (forLoop (AlgoGen.AdjacencyMap.fromAdjacencyList_for0 order) arcs h : Blk Empty AdjMap AdjMap) = optP (arcs.foldlM (Conv.step AdjMap.addArc order) h) :=
  forLoop_optP _ _ (fromAdjacencyList_for0_step order) arcs h

/-- `impl From<AdjacencyList> for AdjacencyMap` (macro-generated) = the hand-written `Conv.alToAM`, for every value. -/
theorem fromAdjacencyList_eq (d : AdjList) : AlgoGen.AdjacencyMap.fromAdjacencyList d = optR (Conv.alToAM d) := by
  unfold AlgoGen.AdjacencyMap.fromAdjacencyList Conv.alToAM Conv.toAM Conv.fromDigraph
  by_cases h0 : d.order = 0
  · simp [h0, optR]
  · have hp : d.order > 0 := Nat.pos_of_ne_zero h0
    simp only [hp, decide_true, assert_true, ok_bind, h0, if_false, fromAdjacencyList_for0_eq]
    cases AdjMap.empty d.order with
    | none => rfl
    | some e =>
      simp only [optP, ok_bind, Option.bind_eq_bind, Option.bind_some]
      cases List.foldlM (Conv.step AdjMap.addArc d.order) e d.arcs <;> rfl

/-- one iteration of the macro body = the hand-written `Conv.step` -/
theorem fromAdjacencyMatrix_for0_step (order : Nat) (h : AdjMap) (x : Nat × Nat) :
    (AlgoGen.AdjacencyMap.fromAdjacencyMatrix_for0 order h x : Blk AdjMap AdjMap AdjMap) = optP (Conv.step AdjMap.addArc order h x) := by
  unfold AlgoGen.AdjacencyMap.fromAdjacencyMatrix_for0 Conv.step
  by_cases h1 : x.1 = x.2
  · simp [h1, optP, panic_def]
  · have hb : (x.1 != x.2) = true := by simpa using h1
    by_cases h2 : x.2 < order
    · simp only [h1, h2, hb, decide_true, assert_true, ok_bind, if_false, not_true_eq_false]
      cases AdjMap.addArc h x.1 x.2 <;> simp [optP, panic_def]
    · simp [h1, h2, hb, optP, panic_def]

/-- `for (u, v) in digraph.arcs() { assert_ne!(u, v); assert!(v < order); h.add_arc(u, v) }` -/
theorem fromAdjacencyMatrix_for0_eq (order : Nat) (arcs : List (Nat × Nat)) (h : AdjMap) :
    (forLoop (AlgoGen.AdjacencyMap.fromAdjacencyMatrix_for0 order) arcs h : Blk Empty AdjMap AdjMap) = optP (arcs.foldlM (Conv.step AdjMap.addArc order) h) :=
  forLoop_optP _ _ (fromAdjacencyMatrix_for0_step order) arcs h

/-- `impl From<AdjacencyMatrix> for AdjacencyMap` (macro-generated) = the hand-written `Conv.mxToAM`, for every value. -/
theorem fromAdjacencyMatrix_eq (d : AdjMatrix) : AlgoGen.AdjacencyMap.fromAdjacencyMatrix d = optR (Conv.mxToAM d) := by
  unfold AlgoGen.AdjacencyMap.fromAdjacencyMatrix Conv.mxToAM Conv.toAM Conv.fromDigraph
  by_cases h0 : d.order = 0
  · simp [h0, optR]
  · have hp : d.order > 0 := Nat.pos_of_ne_zero h0
    simp only [hp, decide_true, assert_true, ok_bind, h0, if_false, fromAdjacencyMatrix_for0_eq]
    cases AdjMap.empty d.order with
    | none => rfl
    | some e =>
      simp only [optP, ok_bind, Option.bind_eq_bind, Option.bind_some]
      cases List.foldlM (Conv.step AdjMap.addArc d.order) e d.arcs <;> rfl

/-- one iteration of the macro body = the hand-written `Conv.step` -/
theorem fromEdgeList_for0_step (order : Nat) (h : AdjMap) (x : Nat × Nat) :
    (AlgoGen.AdjacencyMap.fromEdgeList_for0 order h x : Blk AdjMap AdjMap AdjMap) = optP (Conv.step AdjMap.addArc order h x) := by
  unfold AlgoGen.AdjacencyMap.fromEdgeList_for0 Conv.step
  by_cases h1 : x.1 = x.2
  · simp [h1, optP, panic_def]
  · have hb : (x.1 != x.2) = true := by simpa using h1
    by_cases h2 : x.2 < order
    · simp only [h1, h2, hb, decide_true, assert_true, ok_bind, if_false, not_true_eq_false]
      cases AdjMap.addArc h x.1 x.2 <;> simp [optP, panic_def]
    · simp [h1, h2, hb, optP, panic_def]

/-- `for (u, v) in digraph.arcs() { assert_ne!(u, v); assert!(v < order); h.add_arc(u, v) }` -/
theorem fromEdgeList_for0_eq (order : Nat) (arcs : List (Nat × Nat)) (h : AdjMap) :
    (forLoop (AlgoGen.AdjacencyMap.fromEdgeList_for0 order) arcs h : Blk Empty AdjMap AdjMap) = optP (arcs.foldlM (Conv.step AdjMap.addArc order) h) :=
  forLoop_optP _ _ (fromEdgeList_for0_step order) arcs h

/-- `impl From<EdgeList> for AdjacencyMap` (macro-generated) = the hand-written `Conv.elToAM`, for every value. -/
theorem fromEdgeList_eq (d : EdgeList) : AlgoGen.AdjacencyMap.fromEdgeList d = optR (Conv.elToAM d) := by
  unfold AlgoGen.AdjacencyMap.fromEdgeList Conv.elToAM Conv.toAM Conv.fromDigraph
  by_cases h0 : d.order = 0
  · simp [h0, optR]
  · have hp : d.order > 0 := Nat.pos_of_ne_zero h0
    simp only [hp, decide_true, assert_true, ok_bind, h0, if_false, fromEdgeList_for0_eq]
    cases AdjMap.empty d.order with
    | none => rfl
    | some e =>
      simp only [optP, ok_bind, Option.bind_eq_bind, Option.bind_some]
      cases List.foldlM (Conv.step AdjMap.addArc d.order) e d.arcs <;> rfl

end AdjacencyMap

namespace AdjacencyMatrix
/-- one iteration of the macro body = the hand-written `Conv.step` -/
theorem fromAdjacencyList_for0_step (order : Nat) (h : AdjMatrix) (x : Nat × Nat) :
    (AlgoGen.AdjacencyMatrix.fromAdjacencyList_for0 order h x : Blk AdjMatrix AdjMatrix AdjMatrix) = optP (Conv.step AdjMatrix.addArc order h x) := by
  unfold AlgoGen.AdjacencyMatrix.fromAdjacencyList_for0 Conv.step
  by_cases h1 : x.1 = x.2
  · simp [h1, optP, panic_def]
  · have hb : (x.1 != x.2) = true := by simpa using h1
    by_cases h2 : x.2 < order
    · simp only [h1, h2, hb, decide_true, assert_true, ok_bind, if_false, not_true_eq_false]
      cases AdjMatrix.addArc h x.1 x.2 <;> simp [optP, panic_def]
    · simp [h1, h2, hb, optP, panic_def]

/-- `for (u, v) in digraph.arcs() { assert_ne!(u, v); assert!(v < order); h.add_arc(u, v) }` -/
theorem fromAdjacencyList_for0_eq (order : Nat) (arcs : List (Nat × Nat)) (h : AdjMatrix) :
    (forLoop (AlgoGen.AdjacencyMatrix.fromAdjacencyList_for0 order) arcs h : Blk Empty AdjMatrix AdjMatrix) = optP (arcs.foldlM (Conv.step AdjMatrix.addArc order) h) :=
  forLoop_optP _ _ (fromAdjacencyList_for0_step order) arcs h

/-- `impl From<AdjacencyList> for AdjacencyMatrix` (macro-generated) = the hand-written `Conv.alToMX`, for every value. -/
theorem fromAdjacencyList_eq (d : AdjList) : AlgoGen.AdjacencyMatrix.fromAdjacencyList d = optR (Conv.alToMX d) := by
  unfold AlgoGen.AdjacencyMatrix.fromAdjacencyList Conv.alToMX Conv.toMX Conv.fromDigraph
  by_cases h0 : d.order = 0
  · simp [h0, optR]
  · have hp : d.order > 0 := Nat.pos_of_ne_zero h0
    simp only [hp, decide_true, assert_true, ok_bind, h0, if_false, fromAdjacencyList_for0_eq]
    cases AdjMatrix.empty d.order with
    | none => rfl
    | some e =>
      simp only [optP, ok_bind, Option.bind_eq_bind, Option.bind_some]
      cases List.foldlM (Conv.step AdjMatrix.addArc d.order) e d.arcs <;> rfl

/-- one iteration of the macro body = the hand-written `Conv.step` -/
theorem fromAdjacencyMap_for0_step (order : Nat) (h : AdjMatrix) (x : Nat × Nat) :
    (AlgoGen.AdjacencyMatrix.fromAdjacencyMap_for0 order h x : Blk AdjMatrix AdjMatrix AdjMatrix) = optP (Conv.step AdjMatrix.addArc order h x) := by
  unfold AlgoGen.AdjacencyMatrix.fromAdjacencyMap_for0 Conv.step
  by_cases h1 : x.1 = x.2
  · simp [h1, optP, panic_def]
  · have hb : (x.1 != x.2) = true := by simpa using h1
    by_cases h2 : x.2 < order
    · simp only [h1, h2, hb, decide_true, assert_true, ok_bind, if_false, not_true_eq_false]
      cases AdjMatrix.addArc h x.1 x.2 <;> simp [optP, panic_def]
    · simp [h1, h2, hb, optP, panic_def]

/-- `for (u, v) in digraph.arcs() { assert_ne!(u, v); assert!(v < order); h.add_arc(u, v) }` -/
theorem fromAdjacencyMap_for0_eq (order : Nat) (arcs : List (Nat × Nat)) (h : AdjMatrix) :
    (forLoop (AlgoGen.AdjacencyMatrix.fromAdjacencyMap_for0 order) arcs h : Blk Empty AdjMatrix AdjMatrix) = optP (arcs.foldlM (Conv.step AdjMatrix.addArc order) h) :=
  forLoop_optP _ _ (fromAdjacencyMap_for0_step order) arcs h

/-- `impl From<AdjacencyMap> for AdjacencyMatrix` (macro-generated) = the hand-written `Conv.amToMX`, for every value. -/
theorem fromAdjacencyMap_eq (d : AdjMap) : AlgoGen.AdjacencyMatrix.fromAdjacencyMap d = optR (Conv.amToMX d) := by
  unfold AlgoGen.AdjacencyMatrix.fromAdjacencyMap Conv.amToMX Conv.toMX Conv.fromDigraph
  by_cases h0 : d.order = 0
  · simp [h0, optR]
  · have hp : d.order > 0 := Nat.pos_of_ne_zero h0
    simp only [hp, decide_true, assert_true, ok_bind, h0, if_false, fromAdjacencyMap_for0_eq]
    cases AdjMatrix.empty d.order with
    | none => rfl
    | some e =>
      simp only [optP, ok_bind, Option.bind_eq_bind, Option.bind_some]
      cases List.foldlM (Conv.step AdjMatrix.addArc d.order) e d.arcs <;> rfl

/-- one iteration of the macro body = the hand-written `Conv.step` -/
theorem fromEdgeList_for0_step (order : Nat) (h : AdjMatrix) (x : Nat × Nat) :
    (AlgoGen.AdjacencyMatrix.fromEdgeList_for0 order h x : Blk AdjMatrix AdjMatrix AdjMatrix) = optP (Conv.step AdjMatrix.addArc order h x) := by
  unfold AlgoGen.AdjacencyMatrix.fromEdgeList_for0 Conv.step
  by_cases h1 : x.1 = x.2
  · simp [h1, optP, panic_def]
  · have hb : (x.1 != x.2) = true := by simpa using h1
    by_cases h2 : x.2 < order
    · simp only [h1, h2, hb, decide_true, assert_true, ok_bind, if_false, not_true_eq_false]
      cases AdjMatrix.addArc h x.1 x.2 <;> simp [optP, panic_def]
    · simp [h1, h2, hb, optP, panic_def]

/-- `for (u, v) in digraph.arcs() { assert_ne!(u, v); assert!(v < order); h.add_arc(u, v) }` -/
theorem fromEdgeList_for0_eq (order : Nat) (arcs : List (Nat × Nat)) (h : AdjMatrix) :
    (forLoop (AlgoGen.AdjacencyMatrix.fromEdgeList_for0 order) arcs h : Blk Empty AdjMatrix AdjMatrix) = optP (arcs.foldlM (Conv.step AdjMatrix.addArc order) h) :=
  forLoop_optP _ _ (fromEdgeList_for0_step order) arcs h

/-- `impl From<EdgeList> for AdjacencyMatrix` (macro-generated) = the hand-written `Conv.elToMX`, for every value. -/
theorem fromEdgeList_eq (d : EdgeList) : AlgoGen.AdjacencyMatrix.fromEdgeList d = optR (Conv.elToMX d) := by
  unfold AlgoGen.AdjacencyMatrix.fromEdgeList Conv.elToMX Conv.toMX Conv.fromDigraph
  by_cases h0 : d.order = 0
  · simp [h0, optR]
  · have hp : d.order > 0 := Nat.pos_of_ne_zero h0
    simp only [hp, decide_true, assert_true, ok_bind, h0, if_false, fromEdgeList_for0_eq]
    cases AdjMatrix.empty d.order with
    | none => rfl
    | some e =>
      simp only [optP, ok_bind, Option.bind_eq_bind, Option.bind_some]
      cases List.foldlM (Conv.step AdjMatrix.addArc d.order) e d.arcs <;> rfl

end AdjacencyMatrix

namespace EdgeList
/-- one iteration of the macro body = the hand-written `Conv.step` -/
theorem fromAdjacencyList_for0_step (order : Nat) (h : EdgeList) (x : Nat × Nat) :
    (AlgoGen.EdgeList.fromAdjacencyList_for0 order h x : Blk EdgeList EdgeList EdgeList) = optP (Conv.step EdgeList.addArc order h x) := by
  unfold AlgoGen.EdgeList.fromAdjacencyList_for0 Conv.step
  by_cases h1 : x.1 = x.2
  · simp [h1, optP, panic_def]
  · have hb : (x.1 != x.2) = true := by simpa using h1
    by_cases h2 : x.2 < order
    · simp only [h1, h2, hb, decide_true, assert_true, ok_bind, if_false, not_true_eq_false]
      cases EdgeList.addArc h x.1 x.2 <;> simp [optP, panic_def]
    · simp [h1, h2, hb, optP, panic_def]

/-- `for (u, v) in digraph.arcs() { assert_ne!(u, v); assert!(v < order); h.add_arc(u, v) }` -/
theorem fromAdjacencyList_for0_eq (order : Nat) (arcs : List (Nat × Nat)) (h : EdgeList) :
    (forLoop (AlgoGen.EdgeList.fromAdjacencyList_for0 order) arcs h : Blk Empty EdgeList EdgeList) = optP (arcs.foldlM (Conv.step EdgeList.addArc order) h) :=
  forLoop_optP _ _ (fromAdjacencyList_for0_step order) arcs h

/-- `impl From<AdjacencyList> for EdgeList` (macro-generated) = the hand-written `Conv.alToEL`, for every value. -/
theorem fromAdjacencyList_eq (d : AdjList) : AlgoGen.EdgeList.fromAdjacencyList d = optR (Conv.alToEL d) := by
  unfold AlgoGen.EdgeList.fromAdjacencyList Conv.alToEL Conv.toEL Conv.fromDigraph
  by_cases h0 : d.order = 0
  · simp [h0, optR]
  · have hp : d.order > 0 := Nat.pos_of_ne_zero h0
    simp only [hp, decide_true, assert_true, ok_bind, h0, if_false, fromAdjacencyList_for0_eq]
    cases EdgeList.empty d.order with
    | none => rfl
    | some e =>
      simp only [optP, ok_bind, Option.bind_eq_bind, Option.bind_some]
      cases List.foldlM (Conv.step EdgeList.addArc d.order) e d.arcs <;> rfl

/-- one iteration of the macro body = the hand-written `Conv.step` -/
theorem fromAdjacencyMap_for0_step (order : Nat) (h : EdgeList) (x : Nat × Nat) :
    (AlgoGen.EdgeList.fromAdjacencyMap_for0 order h x : Blk EdgeList EdgeList EdgeList) = optP (Conv.step EdgeList.addArc order h x) := by
  unfold AlgoGen.EdgeList.fromAdjacencyMap_for0 Conv.step
  by_cases h1 : x.1 = x.2
  · simp [h1, optP, panic_def]
  · have hb : (x.1 != x.2) = true := by simpa using h1
    by_cases h2 : x.2 < order
    · simp only [h1, h2, hb, decide_true, assert_true, ok_bind, if_false, not_true_eq_false]
      cases EdgeList.addArc h x.1 x.2 <;> simp [optP, panic_def]
    · simp [h1, h2, hb, optP, panic_def]

/-- `for (u, v) in digraph.arcs() { assert_ne!(u, v); assert!(v < order); h.add_arc(u, v) }` -/
theorem fromAdjacencyMap_for0_eq (order : Nat) (arcs : List (Nat × Nat)) (h : EdgeList) :
    (forLoop (AlgoGen.EdgeList.fromAdjacencyMap_for0 order) arcs h : Blk Empty EdgeList EdgeList) = optP (arcs.foldlM (Conv.step EdgeList.addArc order) h) :=
  forLoop_optP _ _ (fromAdjacencyMap_for0_step order) arcs h

/-- `impl From<AdjacencyMap> for EdgeList` (macro-generated) = the hand-written `Conv.amToEL`, for every value. -/
theorem fromAdjacencyMap_eq (d : AdjMap) : AlgoGen.EdgeList.fromAdjacencyMap d = optR (Conv.amToEL d) := by
  unfold AlgoGen.EdgeList.fromAdjacencyMap Conv.amToEL Conv.toEL Conv.fromDigraph
  by_cases h0 : d.order = 0
  · simp [h0, optR]
  · have hp : d.order > 0 := Nat.pos_of_ne_zero h0
    simp only [hp, decide_true, assert_true, ok_bind, h0, if_false, fromAdjacencyMap_for0_eq]
    cases EdgeList.empty d.order with
    | none => rfl
    | some e =>
      simp only [optP, ok_bind, Option.bind_eq_bind, Option.bind_some]
      cases List.foldlM (Conv.step EdgeList.addArc d.order) e d.arcs <;> rfl

/-- one iteration of the macro body = the hand-written `Conv.step` -/
theorem fromAdjacencyMatrix_for0_step (order : Nat) (h : EdgeList) (x : Nat × Nat) :
    (AlgoGen.EdgeList.fromAdjacencyMatrix_for0 order h x : Blk EdgeList EdgeList EdgeList) = optP (Conv.step EdgeList.addArc order h x) := by
  unfold AlgoGen.EdgeList.fromAdjacencyMatrix_for0 Conv.step
  by_cases h1 : x.1 = x.2
  · simp [h1, optP, panic_def]
  · have hb : (x.1 != x.2) = true := by simpa using h1
    by_cases h2 : x.2 < order
    · simp only [h1, h2, hb, decide_true, assert_true, ok_bind, if_false, not_true_eq_false]
      cases EdgeList.addArc h x.1 x.2 <;> simp [optP, panic_def]
    · simp [h1, h2, hb, optP, panic_def]

/-- `for (u, v) in digraph.arcs() { assert_ne!(u, v); assert!(v < order); h.add_arc(u, v) }` -/
theorem fromAdjacencyMatrix_for0_eq (order : Nat) (arcs : List (Nat × Nat)) (h : EdgeList) :
    (forLoop (AlgoGen.EdgeList.fromAdjacencyMatrix_for0 order) arcs h : Blk Empty EdgeList EdgeList) = optP (arcs.foldlM (Conv.step EdgeList.addArc order) h) :=
  forLoop_optP _ _ (fromAdjacencyMatrix_for0_step order) arcs h

/-- `impl From<AdjacencyMatrix> for EdgeList` (macro-generated) = the hand-written `Conv.mxToEL`, for every value. -/
theorem fromAdjacencyMatrix_eq (d : AdjMatrix) : AlgoGen.EdgeList.fromAdjacencyMatrix d = optR (Conv.mxToEL d) := by
  unfold AlgoGen.EdgeList.fromAdjacencyMatrix Conv.mxToEL Conv.toEL Conv.fromDigraph
  by_cases h0 : d.order = 0
  · simp [h0, optR]
  · have hp : d.order > 0 := Nat.pos_of_ne_zero h0
    simp only [hp, decide_true, assert_true, ok_bind, h0, if_false, fromAdjacencyMatrix_for0_eq]
    cases EdgeList.empty d.order with
    | none => rfl
    | some e =>
      simp only [optP, ok_bind, Option.bind_eq_bind, Option.bind_some]
      cases List.foldlM (Conv.step EdgeList.addArc d.order) e d.arcs <;> rfl

end EdgeList

namespace AdjacencyListWeighted
/-- one iteration of the macro body = the hand-written `Conv.step` -/
theorem fromAdjacencyList_for0_step (order : Nat) (h : AdjListW) (x : Nat × Nat) :
    (AlgoGen.AdjacencyListWeighted.fromAdjacencyList_for0 order h x : Blk AdjListW AdjListW AdjListW) = optP (Conv.step (fun h u v => AdjListW.addArcWeighted h u v 1) order h x) := by
  unfold AlgoGen.AdjacencyListWeighted.fromAdjacencyList_for0 Conv.step
  by_cases h1 : x.1 = x.2
  · simp [h1, optP, panic_def]
  · have hb : (x.1 != x.2) = true := by simpa using h1
    by_cases h2 : x.2 < order
    · simp only [h1, h2, hb, decide_true, assert_true, ok_bind, if_false, not_true_eq_false]
      cases AdjListW.addArcWeighted h x.1 x.2 1 <;> simp [optP, panic_def]
    · simp [h1, h2, hb, optP, panic_def]

/-- `for (u, v) in digraph.arcs() { assert_ne!(u, v); assert!(v < order); h.add_arc(u, v) }` -/
theorem fromAdjacencyList_for0_eq (order : Nat) (arcs : List (Nat × Nat)) (h : AdjListW) :
    (forLoop (AlgoGen.AdjacencyListWeighted.fromAdjacencyList_for0 order) arcs h : Blk Empty AdjListW AdjListW) = optP (arcs.foldlM (Conv.step (fun h u v => AdjListW.addArcWeighted h u v 1) order) h) :=
  forLoop_optP _ _ (fromAdjacencyList_for0_step order) arcs h

/-- `impl From<AdjacencyList> for AdjacencyListWeighted` (macro-generated) = the hand-written `Conv.alToWL`, for every value. -/
theorem fromAdjacencyList_eq (d : AdjList) : AlgoGen.AdjacencyListWeighted.fromAdjacencyList d = optR (Conv.alToWL d) := by
  unfold AlgoGen.AdjacencyListWeighted.fromAdjacencyList Conv.alToWL Conv.toWL Conv.fromDigraph
  by_cases h0 : d.order = 0
  · simp [h0, optR]
  · have hp : d.order > 0 := Nat.pos_of_ne_zero h0
    simp only [hp, decide_true, assert_true, ok_bind, h0, if_false, fromAdjacencyList_for0_eq]
    cases AdjListW.empty d.order with
    | none => rfl
    | some e =>
      simp only [optP, ok_bind, Option.bind_eq_bind, Option.bind_some]
      cases List.foldlM (Conv.step (fun h u v => AdjListW.addArcWeighted h u v 1) d.order) e d.arcs <;> rfl

/-- one iteration of the macro body = the hand-written `Conv.step` -/
theorem fromAdjacencyMap_for0_step (order : Nat) (h : AdjListW) (x : Nat × Nat) :
    (AlgoGen.AdjacencyListWeighted.fromAdjacencyMap_for0 order h x : Blk AdjListW AdjListW AdjListW) = optP (Conv.step (fun h u v => AdjListW.addArcWeighted h u v 1) order h x) := by
  unfold AlgoGen.AdjacencyListWeighted.fromAdjacencyMap_for0 Conv.step
  by_cases h1 : x.1 = x.2
  · simp [h1, optP, panic_def]
  · have hb : (x.1 != x.2) = true := by simpa using h1
    by_cases h2 : x.2 < order
    · simp only [h1, h2, hb, decide_true, assert_true, ok_bind, if_false, not_true_eq_false]
      cases AdjListW.addArcWeighted h x.1 x.2 1 <;> simp [optP, panic_def]
    · simp [h1, h2, hb, optP, panic_def]

/-- `for (u, v) in digraph.arcs() { assert_ne!(u, v); assert!(v < order); h.add_arc(u, v) }` -/
theorem fromAdjacencyMap_for0_eq (order : Nat) (arcs : List (Nat × Nat)) (h : AdjListW) :
    (forLoop (AlgoGen.AdjacencyListWeighted.fromAdjacencyMap_for0 order) arcs h : Blk Empty AdjListW AdjListW) = optP (arcs.foldlM (Conv.step (fun h u v => AdjListW.addArcWeighted h u v 1) order) h) :=
  forLoop_optP _ _ (fromAdjacencyMap_for0_step order) arcs h

/-- `impl From<AdjacencyMap> for AdjacencyListWeighted` (macro-generated) = the hand-written `Conv.amToWL`, for every value. -/
theorem fromAdjacencyMap_eq (d : AdjMap) : AlgoGen.AdjacencyListWeighted.fromAdjacencyMap d = optR (Conv.amToWL d) := by
  unfold AlgoGen.AdjacencyListWeighted.fromAdjacencyMap Conv.amToWL Conv.toWL Conv.fromDigraph
  by_cases h0 : d.order = 0
  · simp [h0, optR]
  · have hp : d.order > 0 := Nat.pos_of_ne_zero h0
    simp only [hp, decide_true, assert_true, ok_bind, h0, if_false, fromAdjacencyMap_for0_eq]
    cases AdjListW.empty d.order with
    | none => rfl
    | some e =>
      simp only [optP, ok_bind, Option.bind_eq_bind, Option.bind_some]
      cases List.foldlM (Conv.step (fun h u v => AdjListW.addArcWeighted h u v 1) d.order) e d.arcs <;> rfl

/-- one iteration of the macro body = the hand-written `Conv.step` -/
theorem fromAdjacencyMatrix_for0_step (order : Nat) (h : AdjListW) (x : Nat × Nat) :
    (AlgoGen.AdjacencyListWeighted.fromAdjacencyMatrix_for0 order h x : Blk AdjListW AdjListW AdjListW) = optP (Conv.step (fun h u v => AdjListW.addArcWeighted h u v 1) order h x) := by
  unfold AlgoGen.AdjacencyListWeighted.fromAdjacencyMatrix_for0 Conv.step
  by_cases h1 : x.1 = x.2
  · simp [h1, optP, panic_def]
  · have hb : (x.1 != x.2) = true := by simpa using h1
    by_cases h2 : x.2 < order
    · simp only [h1, h2, hb, decide_true, assert_true, ok_bind, if_false, not_true_eq_false]
      cases AdjListW.addArcWeighted h x.1 x.2 1 <;> simp [optP, panic_def]
    · simp [h1, h2, hb, optP, panic_def]

/-- `for (u, v) in digraph.arcs() { assert_ne!(u, v); assert!(v < order); h.add_arc(u, v) }` -/
theorem fromAdjacencyMatrix_for0_eq (order : Nat) (arcs : List (Nat × Nat)) (h : AdjListW) :
    (forLoop (AlgoGen.AdjacencyListWeighted.fromAdjacencyMatrix_for0 order) arcs h : Blk Empty AdjListW AdjListW) = optP (arcs.foldlM (Conv.step (fun h u v => AdjListW.addArcWeighted h u v 1) order) h) :=
  forLoop_optP _ _ (fromAdjacencyMatrix_for0_step order) arcs h

/-- `impl From<AdjacencyMatrix> for AdjacencyListWeighted` (macro-generated) = the hand-written `Conv.mxToWL`, for every value. -/
theorem fromAdjacencyMatrix_eq (d : AdjMatrix) : AlgoGen.AdjacencyListWeighted.fromAdjacencyMatrix d = optR (Conv.mxToWL d) := by
  unfold AlgoGen.AdjacencyListWeighted.fromAdjacencyMatrix Conv.mxToWL Conv.toWL Conv.fromDigraph
  by_cases h0 : d.order = 0
  · simp [h0, optR]
  · have hp : d.order > 0 := Nat.pos_of_ne_zero h0
    simp only [hp, decide_true, assert_true, ok_bind, h0, if_false, fromAdjacencyMatrix_for0_eq]
    cases AdjListW.empty d.order with
    | none => rfl
    | some e =>
      simp only [optP, ok_bind, Option.bind_eq_bind, Option.bind_some]
      cases List.foldlM (Conv.step (fun h u v => AdjListW.addArcWeighted h u v 1) d.order) e d.arcs <;> rfl

/-- one iteration of the macro body = the hand-written `Conv.step` -/
theorem fromEdgeList_for0_step (order : Nat) (h : AdjListW) (x : Nat × Nat) :
    (AlgoGen.AdjacencyListWeighted.fromEdgeList_for0 order h x : Blk AdjListW AdjListW AdjListW) = optP (Conv.step (fun h u v => AdjListW.addArcWeighted h u v 1) order h x) := by
  unfold AlgoGen.AdjacencyListWeighted.fromEdgeList_for0 Conv.step
  by_cases h1 : x.1 = x.2
  · simp [h1, optP, panic_def]
  · have hb : (x.1 != x.2) = true := by simpa using h1
    by_cases h2 : x.2 < order
    · simp only [h1, h2, hb, decide_true, assert_true, ok_bind, if_false, not_true_eq_false]
      cases AdjListW.addArcWeighted h x.1 x.2 1 <;> simp [optP, panic_def]
    · simp [h1, h2, hb, optP, panic_def]

/-- `for (u, v) in digraph.arcs() { assert_ne!(u, v); assert!(v < order); h.add_arc(u, v) }` -/
theorem fromEdgeList_for0_eq (order : Nat) (arcs : List (Nat × Nat)) (h : AdjListW) :
    (forLoop (AlgoGen.AdjacencyListWeighted.fromEdgeList_for0 order) arcs h : Blk Empty AdjListW AdjListW) = optP (arcs.foldlM (Conv.step (fun h u v => AdjListW.addArcWeighted h u v 1) order) h) :=
  forLoop_optP _ _ (fromEdgeList_for0_step order) arcs h

/-- `impl From<EdgeList> for AdjacencyListWeighted` (macro-generated) = the hand-written `Conv.elToWL`, for every value. -/
theorem fromEdgeList_eq (d : EdgeList) : AlgoGen.AdjacencyListWeighted.fromEdgeList d = optR (Conv.elToWL d) := by
  unfold AlgoGen.AdjacencyListWeighted.fromEdgeList Conv.elToWL Conv.toWL Conv.fromDigraph
  by_cases h0 : d.order = 0
  · simp [h0, optR]
  · have hp : d.order > 0 := Nat.pos_of_ne_zero h0
    simp only [hp, decide_true, assert_true, ok_bind, h0, if_false, fromEdgeList_for0_eq]
    cases AdjListW.empty d.order with
    | none => rfl
    | some e =>
      simp only [optP, ok_bind, Option.bind_eq_bind, Option.bind_some]
      cases List.foldlM (Conv.step (fun h u v => AdjListW.addArcWeighted h u v 1) d.order) e d.arcs <;> rfl

end AdjacencyListWeighted

end GraafVerif.AlgoGenThm
