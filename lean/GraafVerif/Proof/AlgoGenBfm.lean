import GraafVerif.Model.AlgoGen
import GraafVerif.Proof.AlgoGenRt
import GraafVerif.Proof.AlgoGenDijkstra
import GraafVerif.Model.Bfm
import GraafVerif.Proof.Bfm
/-!
# Generated `BellmanFordMoore::{new, distances}` (`Model/AlgoGen.lean`) = hand-written `Model/Bfm.lean`

The hand-written model keeps `dist : Vec<isize>` as `List (Option Int)` (`none` = `isize::MAX`); the
generated definitions keep the numbers with the sentinel `inf` (`encD inf`, shared with the Dijkstra
family).  `new` is equal unconditionally.  `distances` (the four times unrolled `while` inside
`for _ in 1..order`, then the negative-circuit scan) is equal to the hand-written `distancesFrom`
on every state with `dist.len() = order` whose finite entries differ from the sentinel, for a
digraph whose arcs are in range, PROVIDED no relaxation sum `dist[u] + w` computed along the
hand-written execution reaches the sentinel (`RoundsOk` / `ScanOk`: the "path sums fit" of the
property, which the hand-written model builds in by using `Option`).
-/
set_option linter.unusedSimpArgs false
namespace GraafVerif.AlgoGenThm
open GraafVerif GraafVerif.AlgoGen
open GraafVerif.Bfm (Arc Dist relax relaxAt roundLoop round rounds stillRelaxable finalScan gtInf)

namespace BellmanFordMoore

/-- `BellmanFordMoore::new`: `assert!(s < order)`, `vec![isize::MAX; order]`, `dist[s] = 0`. -/
theorem new_eq (g : WGraph) (inf : Int) (s : Nat) :
    AlgoGen.BellmanFordMoore.new g inf s =
      if s < g.n then .ok ⟨encD inf (GraafVerif.Bfm.init g.n s)⟩ else .error (.fault .panic) := by
  unfold AlgoGen.BellmanFordMoore.new GraafVerif.Bfm.init
  by_cases hs : s < g.n
  · have h1 : s < (encD inf (List.replicate g.n none)).length := by simpa using hs
    simp only [hs, decide_true, assert_true, ok_bind, ← encD_replicate, wr_lt _ _ _ _ h1, encD_set, pure_eq_ok,
      fnBody_ok, if_true]
  · simp [hs]

/-- One relaxation block of the source (it occurs four times in the `while` body) with its
continuation `k`. -/
def blockK {β ρ γ : Type} (inf : Int) (arcs : List (Nat × Nat × Int)) (i : Nat) (self : AlgoGen.BellmanFordMoore)
    (updated : Bool) (k : AlgoGen.BellmanFordMoore → Bool → Blk β ρ γ) : Blk β ρ γ := do
  let t0 ← rd "bellman_ford_moore.rs:distances:arcs_ptr.add(i)" arcs i
  let t1 ← rd "bellman_ford_moore.rs:distances:dist_ptr.add(u)" self.dist t0.1
  let t2 ← (if t1 ≠ inf then do
      let t3 ← rd "bellman_ford_moore.rs:distances:dist_ptr.add(v)" self.dist t0.2.1
      let t4 ← (if t3 > t1 + t0.2.2 then do
          let t5 ← wr "bellman_ford_moore.rs:distances:dist_ptr.add(v)" self.dist t0.2.1 (t1 + t0.2.2)
          pure (({ self with dist := t5 } : AlgoGen.BellmanFordMoore), true)
        else pure (self, updated))
      pure (t4.1, t4.2)
    else pure (self, updated))
  k t2.1 t2.2

/-- `if i < arcs_len { block }` -/
def ifBlock {β ρ : Type} (inf : Int) (arcs : List (Nat × Nat × Int)) (n i : Nat) (self : AlgoGen.BellmanFordMoore)
    (updated : Bool) : Blk β ρ (AlgoGen.BellmanFordMoore × Bool) :=
  if i < n then blockK inf arcs i self updated (fun s u => pure (s, u)) else pure (self, updated)

/-- The body of the `while`, factored into its four blocks (definitional). -/
theorem distances_while0_unfold (inf : Int) (arcs : List (Nat × Nat × Int)) (n : Nat)
    (self : AlgoGen.BellmanFordMoore) (updated : Bool) (i : Nat) :
    AlgoGen.BellmanFordMoore.distances_while0 inf arcs n (self, updated, i) =
      if i < n then
        blockK inf arcs i self updated (fun self updated => do
          let t6 ← ifBlock inf arcs n (i + 1) self updated
          let t13 ← ifBlock inf arcs n (i + 1 + 1) t6.1 t6.2
          let t20 ← ifBlock inf arcs n (i + 1 + 1 + 1) t13.1 t13.2
          pure (t20.1, t20.2, i + 1 + 1 + 1 + 1))
      else brk (self, updated, i) := rfl

/-- What the equalities need of a distance vector: length = order, no finite entry is the sentinel. -/
structure DInv (inf : Int) (n : Nat) (d : Dist) : Prop where
  len : d.length = n
  fin : ∀ x ∈ d, x ≠ some inf

/-- The sum computed by a relaxation of arc `a` in state `st` stays below the sentinel. -/
def RelaxOk (inf : Int) (st : Dist × Bool) (a : Arc) : Prop :=
  ∀ du, st.1[a.1]?.getD none = some du → du + a.2.2 < inf

/-- `ok` holds at every step of a left fold. -/
def FoldOk {σ α : Type} (ok : σ → α → Prop) (f : σ → α → σ) : List α → σ → Prop
  | [], _ => True
  | a :: l, s => ok s a ∧ FoldOk ok f l (f s a)

theorem relax_dinv (inf : Int) (n : Nat) (st : Dist × Bool) (a : Arc) (h : DInv inf n st.1) (hok : RelaxOk inf st a) :
    DInv inf n (relax st a).1 := by
  unfold relax
  cases hdu : st.1[a.1]?.getD none with
  | none => exact h
  | some du =>
    simp only
    split
    · refine ⟨by simp [h.len], ?_⟩
      intro x hx
      rcases List.mem_or_eq_of_mem_set hx with h1 | h1
      · exact h.fin x h1
      · have := hok du hdu
        rw [h1]; intro he; cases he; omega
    · exact h

/-- reading through the encoding (shared form) -/
theorem rd_enc {β ρ : Type} (site : String) (inf : Int) (d : Dist) (v : Nat) (hv : v < d.length) :
    (rd site (encD inf d) v : Blk β ρ Int) = .ok ((d[v]?.getD none).getD inf) := by
  obtain ⟨o, ho⟩ : ∃ o, d[v]? = some o := ⟨_, List.getElem?_eq_getElem hv⟩
  rw [rd_some _ _ _ ((d[v]?.getD none).getD inf)]
  rw [encD_getElem?, ho]
  simp

theorem getD_ne_inf (inf : Int) (n : Nat) (d : Dist) (h : DInv inf n d) (v : Nat) :
    ((d[v]?.getD none).getD inf ≠ inf) ↔ ∃ x, d[v]?.getD none = some x := by
  cases hd : d[v]? with
  | none => simp
  | some o =>
    cases o with
    | none => simp
    | some x =>
      have : (some x : Option Int) ∈ d := List.mem_of_getElem? hd
      have := h.fin _ this
      simp only [Option.getD_some, ne_eq, Option.some.injEq, exists_eq', iff_true]
      intro he; apply this; rw [he]

/-- One block = the hand-written `relax` of `arcs[i]`. -/
theorem blockK_eval {β ρ γ : Type} (inf : Int) (n : Nat) (arcs : List Arc) (i : Nat) (hi : i < arcs.length)
    (d : Dist) (upd : Bool) (k : AlgoGen.BellmanFordMoore → Bool → Blk β ρ γ)
    (hd : DInv inf n d) (hu : arcs[i].1 < n) (hv : arcs[i].2.1 < n) (hok : RelaxOk inf (d, upd) arcs[i]) :
    blockK inf arcs i ⟨encD inf d⟩ upd k = k ⟨encD inf (relax (d, upd) arcs[i]).1⟩ (relax (d, upd) arcs[i]).2 := by
  unfold blockK relax
  rw [rd_lt _ _ _ hi]
  simp only [ok_bind, rd_enc _ inf d _ (by rw [hd.len]; exact hu)]
  cases hdu : d[arcs[i].1]?.getD none with
  | none => simp
  | some du =>
    have hsum := hok du hdu
    have hne : du ≠ inf := by
      have := (getD_ne_inf inf n d hd arcs[i].1).2 ⟨du, hdu⟩
      rw [hdu] at this; exact this
    simp only [Option.getD_some, ne_eq, hne, not_false_eq_true, if_true,
      rd_enc _ inf d _ (show arcs[i].2.1 < d.length by rw [hd.len]; exact hv), ok_bind]
    cases hdv : d[arcs[i].2.1]?.getD none with
    | none =>
      simp [gtInf, hsum, wr_lt _ _ _ _ (show arcs[i].2.1 < (encD inf d).length by simp [hd.len, hv]), encD_set]
    | some dv =>
      by_cases hgt : dv > du + arcs[i].2.2
      · simp [gtInf, hgt, wr_lt _ _ _ _ (show arcs[i].2.1 < (encD inf d).length by simp [hd.len, hv]), encD_set]
      · simp [gtInf, hgt]

def ArcsWF (n : Nat) (arcs : List Arc) : Prop := ∀ a ∈ arcs, a.1 < n ∧ a.2.1 < n

/-- `if j < arcs_len { block }` = the hand-written `relaxAt`, and what it preserves. -/
theorem ifBlock_eval {β ρ : Type} (inf : Int) (n : Nat) (arcs : List Arc) (hwf : ArcsWF n arcs) (j : Nat)
    (st : Dist × Bool) (hd : DInv inf n st.1) (hok : FoldOk (RelaxOk inf) relax (arcs.drop j) st) :
    (ifBlock inf arcs arcs.length j ⟨encD inf st.1⟩ st.2 : Blk β ρ _) =
        .ok (⟨encD inf (relaxAt arcs j st).1⟩, (relaxAt arcs j st).2) ∧
      DInv inf n (relaxAt arcs j st).1 ∧
      FoldOk (RelaxOk inf) relax (arcs.drop (j + 1)) (relaxAt arcs j st) := by
  obtain ⟨d, upd⟩ := st
  unfold ifBlock relaxAt
  by_cases hj : j < arcs.length
  · rw [List.drop_eq_getElem_cons hj] at hok
    obtain ⟨hok1, hok2⟩ := hok
    have hm := hwf arcs[j] (List.getElem_mem hj)
    simp only [hj, if_true, dif_pos]
    exact ⟨blockK_eval inf n arcs j hj d upd _ hd hm.1 hm.2 hok1, relax_dinv inf n (d, upd) _ hd hok1, hok2⟩
  · simp only [hj, if_false, dif_neg, not_false_eq_true]
    refine ⟨rfl, hd, ?_⟩
    rw [List.drop_eq_nil_of_le (by omega)]
    trivial

/-- One round of the `while`: four `relaxAt`, `i += 4`. -/
theorem distances_while0_step (inf : Int) (n : Nat) (arcs : List Arc) (hwf : ArcsWF n arcs) (i : Nat)
    (d : Dist) (upd : Bool) (hd : DInv inf n d) (hok : FoldOk (RelaxOk inf) relax (arcs.drop i) (d, upd)) :
    let st4 := relaxAt arcs (i + 1 + 1 + 1) (relaxAt arcs (i + 1 + 1) (relaxAt arcs (i + 1) (relaxAt arcs i (d, upd))))
    (AlgoGen.BellmanFordMoore.distances_while0 inf arcs arcs.length (⟨encD inf d⟩, upd, i) :
        Blk _ (Option (List Int) × AlgoGen.BellmanFordMoore) _) =
      (if i < arcs.length then .ok (⟨encD inf st4.1⟩, st4.2, i + 1 + 1 + 1 + 1) else brk (⟨encD inf d⟩, upd, i)) ∧
    DInv inf n st4.1 ∧ FoldOk (RelaxOk inf) relax (arcs.drop (i + 1 + 1 + 1 + 1)) st4 := by
  intro st4
  rw [distances_while0_unfold]
  obtain ⟨e1, d1, o1⟩ := ifBlock_eval (β := Nat) (ρ := Nat) inf n arcs hwf i (d, upd) hd hok
  obtain ⟨e2, d2, o2⟩ := ifBlock_eval (β := AlgoGen.BellmanFordMoore × Bool × Nat)
    (ρ := Option (List Int) × AlgoGen.BellmanFordMoore) inf n arcs hwf (i + 1) (relaxAt arcs i (d, upd)) d1 o1
  obtain ⟨e3, d3, o3⟩ := ifBlock_eval (β := AlgoGen.BellmanFordMoore × Bool × Nat)
    (ρ := Option (List Int) × AlgoGen.BellmanFordMoore) inf n arcs hwf (i + 1 + 1) _ d2 o2
  obtain ⟨e4, d4, o4⟩ := ifBlock_eval (β := AlgoGen.BellmanFordMoore × Bool × Nat)
    (ρ := Option (List Int) × AlgoGen.BellmanFordMoore) inf n arcs hwf (i + 1 + 1 + 1) _ d3 o3
  refine ⟨?_, d4, o4⟩
  by_cases hi : i < arcs.length
  · rw [List.drop_eq_getElem_cons hi] at hok
    have hm := hwf arcs[i] (List.getElem_mem hi)
    simp only [hi, if_true]
    rw [blockK_eval inf n arcs i hi d upd _ hd hm.1 hm.2 hok.1]
    have hr : relax (d, upd) arcs[i] = relaxAt arcs i (d, upd) := by simp [relaxAt, hi]
    rw [hr, e2]
    simp only [ok_bind, e3, e4, pure_eq_ok]
    rfl
  · simp only [hi, if_false]

/-- The four times unrolled `while i < arcs_len` = the hand-written `roundLoop`, for every fuel. -/
theorem distances_while0_eq (inf : Int) (n : Nat) (arcs : List Arc) (hwf : ArcsWF n arcs) :
    ∀ (fuel i : Nat) (d : Dist) (upd : Bool), DInv inf n d → FoldOk (RelaxOk inf) relax (arcs.drop i) (d, upd) →
      (∃ i', (whileLoop (AlgoGen.BellmanFordMoore.distances_while0 inf arcs arcs.length) fuel (⟨encD inf d⟩, upd, i) :
          Blk (AlgoGen.BellmanFordMoore) (Option (List Int) × AlgoGen.BellmanFordMoore) _) =
        .ok (⟨encD inf (roundLoop arcs fuel i (d, upd)).1⟩, (roundLoop arcs fuel i (d, upd)).2, i')) ∧
      DInv inf n (roundLoop arcs fuel i (d, upd)).1 := by
  intro fuel
  induction fuel with
  | zero => intro i d upd hd _; exact ⟨⟨i, rfl⟩, hd⟩
  | succ fuel ih =>
    intro i d upd hd hok
    obtain ⟨hs, d4, o4⟩ := distances_while0_step inf n arcs hwf i d upd hd hok
    rw [whileLoop_succ, hs]
    unfold roundLoop
    by_cases hi : i < arcs.length
    · simp only [hi, if_true]
      exact ih _ _ _ d4 o4
    · simp only [hi, if_false]
      exact ⟨⟨i, rfl⟩, hd⟩

/-- No relaxation sum reaches the sentinel during `k` rounds of the hand-written execution. -/
def RoundsOk (inf : Int) (arcs : List Arc) : Nat → Dist → Prop
  | 0, _ => True
  | k + 1, d => FoldOk (RelaxOk inf) relax arcs (d, false) ∧ ((round arcs d).2 = true → RoundsOk inf arcs k (round arcs d).1)

/-- `for _ in 1..order { updated = false; i = 0; while ..; if !updated { break } }` = the
hand-written `rounds` (one iteration per list element). -/
theorem distances_for0_eq (inf : Int) (n : Nat) (arcs : List Arc) (hwf : ArcsWF n arcs) :
    ∀ (xs : List Nat) (d : Dist), DInv inf n d → RoundsOk inf arcs xs.length d →
      (forLoop (AlgoGen.BellmanFordMoore.distances_for0 inf arcs arcs.length) xs ⟨encD inf d⟩ :
          Blk Empty (Option (List Int) × AlgoGen.BellmanFordMoore) _) = .ok ⟨encD inf (rounds arcs xs.length d)⟩ ∧
      DInv inf n (rounds arcs xs.length d) := by
  intro xs
  induction xs with
  | nil => intro d hd _; exact ⟨rfl, hd⟩
  | cons x xs ih =>
    intro d hd hok
    obtain ⟨hok1, hok2⟩ := hok
    obtain ⟨⟨i', hw⟩, hd'⟩ := distances_while0_eq inf n arcs hwf arcs.length 0 d false hd (by simpa using hok1)
    have hbody : AlgoGen.BellmanFordMoore.distances_for0 inf arcs arcs.length ⟨encD inf d⟩ x =
        if (round arcs d).2 = true then .ok ⟨encD inf (round arcs d).1⟩ else brk ⟨encD inf (round arcs d).1⟩ := by
      unfold AlgoGen.BellmanFordMoore.distances_for0
      simp only [hw, ok_bind, round]
      by_cases hb : (roundLoop arcs arcs.length 0 (d, false)).2 = true
      · simp [hb]
      · simp [hb]
    simp only [List.length_cons, rounds]
    by_cases hu : (round arcs d).2 = true
    · rw [forLoop_cons_ok (h := by rw [hbody, if_pos hu])]
      simp only [hu, if_true]
      exact ih _ hd' (hok2 hu)
    · rw [forLoop_cons_brk (h := by rw [hbody, if_neg hu]; rfl)]
      simp only [hu, if_false, Bool.false_eq_true]
      exact ⟨trivial, hd'⟩

/-- No sum of the final scan reaches the sentinel. -/
def ScanOk (inf : Int) (d : Dist) (arcs : List Arc) : Prop := ∀ a ∈ arcs, RelaxOk inf (d, false) a

/-- One step of `for i in 0..arcs_len { if dist[u] != MAX && dist[v] > dist[u] + w { return None } }`. -/
theorem distances_for1_step (inf : Int) (n : Nat) (arcs : List Arc) (d : Dist) (i : Nat) (hi : i < arcs.length)
    (hd : DInv inf n d) (hu : arcs[i].1 < n) (hv : arcs[i].2.1 < n) (hok : RelaxOk inf (d, false) arcs[i]) :
    (AlgoGen.BellmanFordMoore.distances_for1 inf ⟨encD inf d⟩ arcs () i :
        Blk Unit (Option (List Int) × AlgoGen.BellmanFordMoore) Unit) =
      if stillRelaxable d arcs[i] = true then ret (none, ⟨encD inf d⟩) else .ok () := by
  unfold AlgoGen.BellmanFordMoore.distances_for1 stillRelaxable
  rw [rd_lt _ _ _ hi]
  simp only [ok_bind, rd_enc _ inf d _ (by rw [hd.len]; exact hu)]
  cases hdu : d[arcs[i].1]?.getD none with
  | none => simp
  | some du =>
    have hsum := hok du hdu
    have hne : du ≠ inf := by
      have := (getD_ne_inf inf n d hd arcs[i].1).2 ⟨du, hdu⟩
      rw [hdu] at this; exact this
    simp only [Option.getD_some, ne_eq, hne, not_false_eq_true, if_true,
      rd_enc _ inf d _ (show arcs[i].2.1 < d.length by rw [hd.len]; exact hv), ok_bind]
    cases hdv : d[arcs[i].2.1]?.getD none with
    | none => simp [gtInf, hsum]
    | some dv =>
      by_cases hgt : dv > du + arcs[i].2.2
      · simp [gtInf, hgt]
      · simp [gtInf, hgt]

/-- The negative-circuit scan = the hand-written `finalScan`. -/
theorem distances_for1_eq (inf : Int) (n : Nat) (arcs : List Arc) (hwf : ArcsWF n arcs) (d : Dist)
    (hd : DInv inf n d) (hok : ScanOk inf d arcs) : ∀ (m i : Nat), m = arcs.length - i →
    (forLoop (AlgoGen.BellmanFordMoore.distances_for1 inf ⟨encD inf d⟩ arcs) (List.range' i m) () :
        Blk Empty (Option (List Int) × AlgoGen.BellmanFordMoore) Unit) =
      if finalScan d (arcs.drop i) = true then .error (.ret (none, ⟨encD inf d⟩)) else .ok () := by
  intro m
  induction m with
  | zero =>
    intro i hm
    rw [List.drop_eq_nil_of_le (by omega)]
    rfl
  | succ m ih =>
    intro i hm
    have hi : i < arcs.length := by omega
    have hmem := List.getElem_mem hi
    rw [List.range'_succ, List.drop_eq_getElem_cons hi]
    have hstep := distances_for1_step inf n arcs d i hi hd (hwf _ hmem).1 (hwf _ hmem).2 (hok _ hmem)
    unfold finalScan
    by_cases hr : stillRelaxable d arcs[i] = true
    · rw [forLoop_cons_ret (h := by rw [hstep, if_pos hr]; rfl)]
      simp [hr]
    · rw [forLoop_cons_ok (h := by rw [hstep, if_neg hr])]
      simp only [hr, if_false, Bool.false_eq_true]
      exact ih (i + 1) (by omega)

/-- `BellmanFordMoore::distances` (one call on an object whose vector is `d`) = the hand-written
`distancesFrom`: the returned `Option<&[isize]>` and the vector the object is left with. -/
theorem distances_eq (g : WGraph) (inf : Int) (d : Dist) (hwf : ArcsWF g.n (GraafVerif.Bfm.arcsOf g))
    (hd : DInv inf g.n d) (hr : RoundsOk inf (GraafVerif.Bfm.arcsOf g) (g.n - 1) d)
    (hs : ScanOk inf (rounds (GraafVerif.Bfm.arcsOf g) (g.n - 1) d) (GraafVerif.Bfm.arcsOf g)) :
    AlgoGen.BellmanFordMoore.distances g inf ⟨encD inf d⟩ =
      .ok ((GraafVerif.Bfm.distancesFrom g.n (GraafVerif.Bfm.arcsOf g) d).1.map (encD inf),
           ⟨encD inf (GraafVerif.Bfm.distancesFrom g.n (GraafVerif.Bfm.arcsOf g) d).2⟩) := by
  unfold AlgoGen.BellmanFordMoore.distances GraafVerif.Bfm.distancesFrom
  have harcs : arcsWeighted g = GraafVerif.Bfm.arcsOf g := rfl
  have hlen : (AlgoGen.range 1 g.n).length = g.n - 1 := by simp [AlgoGen.range]
  obtain ⟨h0, hd'⟩ := distances_for0_eq inf g.n _ hwf (AlgoGen.range 1 g.n) d hd (by rw [hlen]; exact hr)
  rw [hlen] at h0 hd'
  have h1 := distances_for1_eq inf g.n _ hwf _ hd' hs (GraafVerif.Bfm.arcsOf g).length 0 (by omega)
  simp only [List.drop_zero] at h1
  simp only [harcs, h0, ok_bind, List.range_eq_range', h1]
  by_cases hf : finalScan (rounds (GraafVerif.Bfm.arcsOf g) (g.n - 1) d) (GraafVerif.Bfm.arcsOf g) = true
  · simp [hf]
  · simp [hf]

theorem arcsWF_of_wf (g : WGraph) (hwf : g.WF) : ArcsWF g.n (GraafVerif.Bfm.arcsOf g) := by
  intro a ha
  unfold GraafVerif.Bfm.arcsOf at ha
  simp only [List.mem_flatMap, List.mem_range, List.mem_map] at ha
  obtain ⟨u, hu, vw, hvw, rfl⟩ := ha
  exact ⟨hu, (hwf u vw.1 vw.2 hvw).2⟩

theorem init_dinv (inf : Int) (n s : Nat) (hinf : inf ≠ 0) : DInv inf n (GraafVerif.Bfm.init n s) := by
  unfold GraafVerif.Bfm.init
  refine ⟨by simp, ?_⟩
  intro x hx
  rcases List.mem_or_eq_of_mem_set hx with h | h
  · rw [List.eq_of_mem_replicate h]; simp
  · rw [h]; intro he; cases he; exact hinf rfl

/-- `BellmanFordMoore::new(&digraph, s).distances()` = the hand-written `Bfm.distances` (`none`
entries read as the sentinel), for every well-formed digraph and every `s`, provided no
relaxation sum of the hand-written execution reaches the sentinel. -/
theorem new_distances_eq (g : WGraph) (inf : Int) (s : Nat) (hwf : g.WF) (hinf : inf ≠ 0)
    (hr : RoundsOk inf (GraafVerif.Bfm.arcsOf g) (g.n - 1) (GraafVerif.Bfm.init g.n s))
    (hs : ScanOk inf (rounds (GraafVerif.Bfm.arcsOf g) (g.n - 1) (GraafVerif.Bfm.init g.n s)) (GraafVerif.Bfm.arcsOf g)) :
    (AlgoGen.BellmanFordMoore.new g inf s >>= fun b => Except.map Prod.fst (AlgoGen.BellmanFordMoore.distances g inf b)) =
      match GraafVerif.Bfm.distances g s with
      | .panic => .error (.fault .panic)
      | .ret r => .ok (r.map (encD inf)) := by
  rw [new_eq]
  unfold GraafVerif.Bfm.distances GraafVerif.Bfm.distancesArcs
  by_cases hsn : s < g.n
  · simp only [hsn, if_true]
    show Except.map Prod.fst (AlgoGen.BellmanFordMoore.distances g inf ⟨encD inf _⟩) = _
    rw [distances_eq g inf _ (arcsWF_of_wf g hwf) (init_dinv inf g.n s hinf) hr hs]
    unfold GraafVerif.Bfm.distancesFrom
    by_cases hf : finalScan (rounds (GraafVerif.Bfm.arcsOf g) (g.n - 1) (GraafVerif.Bfm.init g.n s)) (GraafVerif.Bfm.arcsOf g) = true
    · simp [hf, Except.map]
    · simp [hf, Except.map]
  · simp only [hsn, if_false]; rfl

/-! ### A checkable sufficient condition for `RoundsOk` / `ScanOk`: bounded weights and a sentinel
above `((order - 1) * #arcs + 1) * (largest absolute weight)` -/

/-- every finite entry lies in `[-B, B]` -/
def Bnd (B : Int) (d : Dist) : Prop := ∀ x ∈ d, ∀ v, x = some v → -B ≤ v ∧ v ≤ B

theorem bnd_mono {B B' : Int} {d : Dist} (h : Bnd B d) (hB : B ≤ B') : Bnd B' d := by
  intro x hx v hv
  obtain ⟨h1, h2⟩ := h x hx v hv
  exact ⟨by omega, by omega⟩

theorem bnd_get {B : Int} {d : Dist} (h : Bnd B d) {i : Nat} {v : Int} (hv : d[i]?.getD none = some v) :
    -B ≤ v ∧ v ≤ B := by
  cases hd : d[i]? with
  | none => rw [hd] at hv; cases hv
  | some o =>
    rw [hd] at hv
    simp only [Option.getD_some] at hv
    exact h o (List.mem_of_getElem? hd) v hv

theorem relax_bnd (B W : Int) (st : Dist × Bool) (a : Arc) (hw : -W ≤ a.2.2 ∧ a.2.2 ≤ W)
    (h : Bnd B st.1) : Bnd (B + W) (relax st a).1 := by
  unfold relax
  cases hdu : st.1[a.1]?.getD none with
  | none => exact bnd_mono h (by omega)
  | some du =>
    simp only
    split
    · intro x hx v hv
      rcases List.mem_or_eq_of_mem_set hx with h1 | h1
      · have := h x h1 v hv; omega
      · rw [h1] at hv; cases hv
        have := bnd_get h hdu
        omega
    · exact bnd_mono h (by omega)

theorem relaxOk_of_bnd (inf B W : Int) (st : Dist × Bool) (a : Arc) (hw : a.2.2 ≤ W) (h : Bnd B st.1)
    (hinf : B + W < inf) : RelaxOk inf st a := by
  intro du hdu
  have := bnd_get h hdu
  omega

theorem foldOk_of_bnd (inf W : Int) (hW0 : 0 ≤ W) : ∀ (arcs : List Arc) (st : Dist × Bool) (B : Int),
    (∀ a ∈ arcs, -W ≤ a.2.2 ∧ a.2.2 ≤ W) → Bnd B st.1 → B + arcs.length * W < inf →
    FoldOk (RelaxOk inf) relax arcs st ∧ Bnd (B + arcs.length * W) (arcs.foldl relax st).1 := by
  intro arcs
  induction arcs with
  | nil => intro st B _ h _; exact ⟨trivial, by simpa using h⟩
  | cons a arcs ih =>
    intro st B hw h hinf
    have hwa := hw a List.mem_cons_self
    have hlen : ((a :: arcs).length : Int) * W = W + arcs.length * W := by
      simp only [List.length_cons]; push_cast; rw [Int.add_mul, Int.one_mul, Int.add_comm]
    have hpos : 0 ≤ (arcs.length : Int) * W := Int.mul_nonneg (by omega) hW0
    rw [hlen] at hinf ⊢
    obtain ⟨h1, h2⟩ := ih (relax st a) (B + W) (fun b hb => hw b (List.mem_cons_of_mem _ hb))
      (relax_bnd B W st a hwa h) (by omega)
    refine ⟨⟨relaxOk_of_bnd inf B W st a hwa.2 h (by omega), h1⟩, ?_⟩
    rw [List.foldl_cons]
    have : B + (W + arcs.length * W) = B + W + arcs.length * W := by omega
    rw [this]; exact h2

theorem roundsOk_of_bnd (inf W : Int) (hW0 : 0 ≤ W) (arcs : List Arc) (hw : ∀ a ∈ arcs, -W ≤ a.2.2 ∧ a.2.2 ≤ W) :
    ∀ (k : Nat) (d : Dist) (B : Int), Bnd B d → B + k * (arcs.length * W) < inf →
      RoundsOk inf arcs k d ∧ Bnd (B + k * (arcs.length * W)) (rounds arcs k d) := by
  intro k
  induction k with
  | zero => intro d B h _; exact ⟨trivial, by simpa [rounds] using h⟩
  | succ k ih =>
    intro d B h hinf
    have hpos : 0 ≤ (arcs.length : Int) * W := Int.mul_nonneg (by omega) hW0
    have hk : ((k + 1 : Nat) : Int) * (arcs.length * W) = arcs.length * W + k * (arcs.length * W) := by
      push_cast; rw [Int.add_mul, Int.one_mul, Int.add_comm]
    have hkpos : 0 ≤ (k : Int) * (arcs.length * W) := Int.mul_nonneg (by omega) hpos
    rw [hk] at hinf ⊢
    obtain ⟨f1, f2⟩ := foldOk_of_bnd inf W hW0 arcs (d, false) B hw h (by omega)
    rw [← GraafVerif.Bfm.round_eq_foldl] at f2
    obtain ⟨r1, r2⟩ := ih (round arcs d).1 (B + arcs.length * W) f2 (by omega)
    refine ⟨⟨f1, fun _ => r1⟩, ?_⟩
    simp only [rounds]
    have e : B + (arcs.length * W + k * (arcs.length * W)) = B + arcs.length * W + k * (arcs.length * W) := by omega
    by_cases hu : (round arcs d).2 = true
    · simp only [hu, if_true]; rw [e]; exact r2
    · simp only [hu, if_false, Bool.false_eq_true]
      exact bnd_mono f2 (by omega)

theorem init_bnd (n s : Nat) : Bnd 0 (GraafVerif.Bfm.init n s) := by
  intro x hx v hv
  unfold GraafVerif.Bfm.init at hx
  rcases List.mem_or_eq_of_mem_set hx with h | h
  · rw [List.eq_of_mem_replicate h] at hv; cases hv
  · rw [h] at hv; cases hv; omega

/-- `BellmanFordMoore::new(&digraph, s).distances()` = the hand-written `Bfm.distances`, for every
well-formed digraph whose weights lie in `[-W, W]`, every `s`, and every sentinel above
`((order - 1) * #arcs + 1) * W`. -/
theorem new_distances_eq_of_bound (g : WGraph) (inf W : Int) (s : Nat) (hwf : g.WF) (hW0 : 0 ≤ W)
    (hw : ∀ u, ∀ vw ∈ g.out u, -W ≤ vw.2 ∧ vw.2 ≤ W)
    (hinf : ((g.n - 1 : Nat) : Int) * ((GraafVerif.Bfm.arcsOf g).length * W) + W < inf) (hinf0 : 0 < inf) :
    (AlgoGen.BellmanFordMoore.new g inf s >>= fun b => Except.map Prod.fst (AlgoGen.BellmanFordMoore.distances g inf b)) =
      match GraafVerif.Bfm.distances g s with
      | .panic => .error (.fault .panic)
      | .ret r => .ok (r.map (encD inf)) := by
  have hwa : ∀ a ∈ GraafVerif.Bfm.arcsOf g, -W ≤ a.2.2 ∧ a.2.2 ≤ W := by
    intro a ha
    unfold GraafVerif.Bfm.arcsOf at ha
    simp only [List.mem_flatMap, List.mem_range, List.mem_map] at ha
    obtain ⟨u, _, vw, hvw, rfl⟩ := ha
    exact hw u vw hvw
  obtain ⟨hr, hb⟩ := roundsOk_of_bnd inf W hW0 _ hwa (g.n - 1) (GraafVerif.Bfm.init g.n s) 0 (init_bnd g.n s) (by omega)
  refine new_distances_eq g inf s hwf (by omega) hr ?_
  intro a ha
  exact relaxOk_of_bnd inf _ W (_, false) a (hwa a ha).2 hb (by omega)

end BellmanFordMoore

end GraafVerif.AlgoGenThm
