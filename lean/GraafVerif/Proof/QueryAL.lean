import GraafVerif.Proof.Query
import GraafVerif.Spec.QueryAbs
/-!
# C02 — `AdjacencyList`: every core query equals its definition on `abs d` (P0)
-/
namespace GraafVerif.Query
open GraafVerif.Repr

/-- A strictly ascending list below `n` is what filtering `0..n` by membership gives. -/
theorem filter_range_contains {l : List Nat} {n : Nat} (hs : l.Pairwise (· < ·)) (hb : ∀ v ∈ l, v < n) :
    (List.range n).filter (fun v => l.contains v) = l := by
  apply sorted_ext (List.pairwise_lt_range.filter _) hs
  intro x
  simp only [List.mem_filter, List.mem_range, List.contains_iff_mem]
  exact ⟨fun h => h.2, fun h => ⟨hb x h, h⟩⟩

namespace AL

def row (d : AdjList) (u : Nat) : List Nat := d.rows[u]?.getD []

theorem rows_eq_map (d : AdjList) : d.rows = (List.range d.order).map (row d) := by
  apply List.ext_getElem
  · simp [AdjList.order]
  · intro i h1 h2
    simp [row, h1]

theorem zipIdx_rows (d : AdjList) : d.rows.zipIdx = (List.range d.order).map (fun u => (row d u, u)) := by
  apply List.ext_getElem
  · simp [AdjList.order]
  · intro i h1 h2
    have : i < d.rows.length := by simpa using h1
    simp [row, this]

theorem hasArc_eq (d : AdjList) (u v : Nat) : d.hasArc u v = (row d u).contains v := by
  unfold AdjList.hasArc row
  cases d.rows[u]? <;> simp

theorem row_oob (d : AdjList) {u : Nat} (h : ¬ u < d.order) : row d u = [] := by
  unfold row
  have : d.rows[u]? = none := by simp [AdjList.order] at h ⊢; omega
  simp [this]

theorem row_get (d : AdjList) {u : Nat} (h : u < d.order) : d.rows[u]? = some (row d u) := by
  unfold row
  have : u < d.rows.length := h
  simp [this]

theorem row_sorted {d : AdjList} (h : d.WF) (u : Nat) : (row d u).Pairwise (· < ·) := by
  by_cases hu : u < d.order
  · exact (h.2 u _ (row_get d hu)).1
  · rw [row_oob d hu]; exact List.Pairwise.nil

theorem row_mem {d : AdjList} (h : d.WF) {u v : Nat} (hv : v ∈ row d u) : u < d.order ∧ v < d.order ∧ v ≠ u := by
  by_cases hu : u < d.order
  · exact ⟨hu, (h.2 u _ (row_get d hu)).2 v hv⟩
  · rw [row_oob d hu] at hv; simp at hv

theorem abs_valid {d : AdjList} (h : d.WF) : (abs d).Valid where
  sorted := by simp [abs, AdjList.vertices]; exact List.pairwise_lt_range
  closed := by
    intro u v huv
    simp only [abs, hasArc_eq, List.contains_iff_mem] at huv
    have := row_mem h huv
    simp [abs, AdjList.vertices, this.1, this.2.1]
  irrefl := by
    intro u
    simp only [abs, hasArc_eq]
    cases hc : (row d u).contains u
    · rfl
    · have := row_mem h (List.contains_iff_mem.1 hc); simp at this
  wt_iff := by
    intro u v
    simp only [abs, unitWt]
    cases d.hasArc u v <;> simp

theorem outNeighbors_spec {d : AdjList} (h : d.WF) (u : Nat) : Spec.outNeighbors (abs d) u = row d u := by
  simp only [Spec.outNeighbors, abs, AdjList.vertices, hasArc_eq]
  exact filter_range_contains (row_sorted h u) (fun v hv => (row_mem h hv).2.1)

theorem size_spec {d : AdjList} (h : d.WF) : d.size = Spec.size (abs d) := by
  simp only [Spec.size, Spec.arcs, List.length_flatMap, List.length_map, outNeighbors_spec h]
  simp only [AdjList.size, abs, AdjList.vertices]
  conv => lhs; rw [rows_eq_map d]
  simp [Function.comp_def]

theorem arcs_mem (d : AdjList) (u v : Nat) : (u, v) ∈ d.arcs ↔ d.hasArc u v = true := by
  simp only [AdjList.arcs, zipIdx_rows, List.flatMap_map, List.mem_flatMap, List.mem_range, List.mem_map,
    Prod.mk.injEq, hasArc_eq, List.contains_iff_mem]
  constructor
  · rintro ⟨a, _, b, hb, rfl, rfl⟩; exact hb
  · intro hv
    refine ⟨u, ?_, v, hv, rfl, rfl⟩
    by_cases hu : u < d.order
    · exact hu
    · rw [row_oob d hu] at hv; simp at hv

theorem indegree_spec (d : AdjList) (v : Nat) :
    (d.rows.filter (fun row => row.contains v)).length = Spec.indegree (abs d) v := by
  conv => lhs; rw [rows_eq_map d]
  simp only [List.filter_map, List.length_map, Spec.indegree, Spec.inNeighbors, abs, AdjList.vertices, hasArc_eq]
  rfl

theorem inNeighbors_spec (d : AdjList) (v : Nat) : inNeighbors d v = Spec.inNeighbors (abs d) v := by
  simp only [inNeighbors, zipIdx_rows, List.filter_map, List.map_map, Spec.inNeighbors, abs, AdjList.vertices, hasArc_eq]
  simp [Function.comp_def]

theorem isSource_spec (d : AdjList) (v : Nat) : isSource d v = Spec.isSource (abs d) v := by
  simp only [Spec.isSource, ← indegree_spec, filter_length_eq_zero, isSource]

theorem core_correct {d : AdjList} (h : d.WF) : CoreCorrect (core d) (abs d) where
  order := by simp [core, Spec.order, abs, AdjList.vertices]
  vertices := rfl
  arcs_mem := arcs_mem d
  size := size_spec h
  hasArc := fun _ _ => rfl
  hasEdge := fun _ _ => rfl
  hasWalk := fun w => hasWalkPtr_eq (abs d) d.hasArc (fun _ _ => rfl) w
  outNeighbors := by
    intro u hu
    have hu : u < d.order := by simpa [abs, AdjList.vertices] using hu
    simp [core, AdjList.outNeighbors, row_get d hu, outNeighbors_spec h]
  inNeighbors := inNeighbors_spec d
  indegree := by
    intro v hv
    have hv : v < d.order := by simpa [abs, AdjList.vertices] using hv
    simp only [core, indegree, hv, if_true, indegree_spec]
  isSource := isSource_spec d
  outdegree := by
    intro u hu
    have hu : u < d.order := by simpa [abs, AdjList.vertices] using hu
    simp [core, outdegree, row_get d hu, Spec.outdegree, outNeighbors_spec h]
  isSink := by
    intro u hu
    have hu : u < d.order := by simpa [abs, AdjList.vertices] using hu
    simp only [core, isSink, row_get d hu, Spec.isSink, Spec.outdegree, outNeighbors_spec h, Option.map_some]
    cases row d u <;> rfl

/-- Documented panics: the queries that are not total panic exactly outside `V`. -/
theorem panics_outside {d : AdjList} {u : Nat} (hu : ¬ u < d.order) :
    (core d).outNeighbors u = none ∧ (core d).indegree u = none ∧ (core d).outdegree u = none ∧ (core d).isSink u = none := by
  have : d.rows[u]? = none := by simp [AdjList.order] at hu ⊢; omega
  simp [core, AdjList.outNeighbors, indegree, outdegree, isSink, hu, this]

/-! ### `remove_arc` is total: an absent arc (in particular any id outside `V`) answers `false`
and leaves the digraph unchanged -/
theorem serase_of_not_mem {v : Nat} : ∀ {l : List Nat}, v ∉ l → serase v l = l
  | [], _ => rfl
  | y :: ys, h => by
    have hy : v ≠ y := fun e => h (by simp [e])
    have ih : serase v ys = ys := serase_of_not_mem (fun hm => h (by simp [hm]))
    simp only [serase, hy, if_false, ih]
    split <;> rfl

theorem removeArc_absent (d : AdjList) {u v : Nat} (h : d.hasArc u v = false) : d.removeArc u v = (d, false) := by
  unfold AdjList.removeArc
  unfold AdjList.hasArc at h
  cases hr : d.rows[u]? with
  | none => rfl
  | some row =>
    rw [hr] at h
    have hv : v ∉ row := fun hm => by simp at h; exact h hm
    obtain ⟨hu, rfl⟩ := List.getElem?_eq_some_iff.1 hr
    simp only [serase_of_not_mem hv, List.set_getElem_self, h]

end AL
end GraafVerif.Query
