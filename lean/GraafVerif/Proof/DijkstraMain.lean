import GraafVerif.Proof.DijkstraRun
import GraafVerif.Spec.Dijkstra
/-!
# Consequences of the run invariant for the emitted entry sequence, `distances()` etc.
-/
namespace GraafVerif.Dijkstra
open GraafVerif

variable {g : WGraph} {S : List Nat} {tag : Nat → Option Nat}

/-- Everything the run lemma gives for the complete run from the initial state. -/
theorem entries_spec (h : Hyp g S) (htag : TagOK tag) :
    OutOK g S (entries g tag S) ∧
    (∃ st', Inv g S tag (entries g tag S) [] st' ∧ st'.heap = []) ∧
    ∀ f, fuel g S ≤ f → run g tag f (init g.n S) = entries g tag S := by
  obtain ⟨inv0, ok0⟩ := init_inv (g := g) (S := S) (tag := tag) h.srcRange h.srcNodup
  have hm := init_measure (g := g) (S := S) h.srcRange
  obtain ⟨hex, hok, hfu⟩ := run_inv h.wf h.nonneg htag (fuel g S) [] (init g.n S) inv0 ok0 hm
  refine ⟨by simpa [entries] using hok, by simpa [entries] using hex, ?_⟩
  intro f hf
  exact hfu f (by omega)

theorem tagOK_none : TagOK (fun _ => none) := by intro u p h; simp at h
theorem tagOK_some : TagOK some := by intro u p h; injection h with h; exact h.symm

/-- Emitted keys are weights of walks from a source. -/
theorem entries_walk (h : Hyp g S) (htag : TagOK tag) : ∀ e ∈ entries g tag S, SrcWalk g S e.v e.d := by
  obtain ⟨_, ⟨st', inv, _⟩, _⟩ := entries_spec h htag
  intro e he
  exact inv.sound _ _ (inv.final e he)

theorem isMinDist_of (hw : SrcWalk g S v d) (hmin : ∀ wt, SrcWalk g S v wt → d ≤ wt) : IsMinDist g S v d :=
  ⟨hw, fun s hs k wt hk => hmin wt ⟨s, hs, k, hk⟩⟩

/-- Emitted keys are the minimum walk weights. -/
theorem entries_min (h : Hyp g S) (htag : TagOK tag) : ∀ e ∈ entries g tag S, IsMinDist g S e.v e.d := by
  obtain ⟨ok, _, _⟩ := entries_spec h htag
  intro e he
  exact isMinDist_of (entries_walk h htag e he) (ok.minimal e he)

/-- The emitted vertices are exactly the vertices reachable from a source. -/
theorem entries_mem_iff (h : Hyp g S) (htag : TagOK tag) (v : Nat) :
    v ∈ (entries g tag S).map (·.v) ↔ WReachFrom g S v := by
  obtain ⟨_, ⟨st', inv, hh⟩, _⟩ := entries_spec h htag
  constructor
  · intro hv
    obtain ⟨e, he, rfl⟩ := List.mem_map.mp hv
    obtain ⟨s, hs, k, hk⟩ := entries_walk h htag e he
    exact ⟨s, hs, k, e.d, hk⟩
  · rintro ⟨s, hs, k, wt, hk⟩
    rcases frontier h.nonneg inv hk hs with ⟨e, he, _⟩ | ⟨e, he, hev, _⟩
    · rw [hh] at he; simp at he
    · exact List.mem_map.mpr ⟨e, he, hev⟩

theorem isMinDist_unique {v : Nat} {d d' : Int} (h1 : IsMinDist g S v d) (h2 : IsMinDist g S v d') : d = d' := by
  obtain ⟨⟨s, hs, k, hk⟩, hmin⟩ := h1
  obtain ⟨⟨s', hs', k', hk'⟩, hmin'⟩ := h2
  have := hmin s' hs' k' d' hk'
  have := hmin' s hs k d hk
  omega

/-! ### folding items into a vector (`distances`, `predecessors`) -/

theorem foldl_set_length {β ε : Type} (k : β → Nat) (val : β → ε) (l : List β) (init : List ε) :
    (l.foldl (fun acc it => acc.set (k it) (val it)) init).length = init.length := by
  induction l generalizing init with
  | nil => rfl
  | cons a l ih => simp [ih]

theorem foldl_set_not_mem {β ε : Type} (k : β → Nat) (val : β → ε) (l : List β) (init : List ε) (v : Nat)
    (hv : v ∉ l.map k) : (l.foldl (fun acc it => acc.set (k it) (val it)) init)[v]? = init[v]? := by
  induction l generalizing init with
  | nil => rfl
  | cons a l ih =>
    simp only [List.map_cons, List.mem_cons, not_or] at hv
    simp only [List.foldl_cons]
    rw [ih _ hv.2, List.getElem?_set_ne (fun h => hv.1 h.symm)]

theorem foldl_set_mem {β ε : Type} (k : β → Nat) (val : β → ε) (l : List β) (init : List ε) (it : β)
    (hnd : (l.map k).Nodup) (hit : it ∈ l) (hlt : k it < init.length) :
    (l.foldl (fun acc it => acc.set (k it) (val it)) init)[k it]? = some (val it) := by
  induction l generalizing init with
  | nil => simp at hit
  | cons a l ih =>
    simp only [List.map_cons, List.nodup_cons] at hnd
    simp only [List.foldl_cons]
    rcases List.mem_cons.mp hit with rfl | hit
    · rw [foldl_set_not_mem k val l _ _ hnd.1]
      simp [hlt]
    · exact ih _ hnd.2 hit (by simpa using hlt)

/-! ### the `Dijkstra`/`DijkstraDist` readings -/

theorem dijkstraDist_map_fst (g : WGraph) (S : List Nat) :
    (dijkstraDist g S).map (·.1) = (entries g (fun _ => none) S).map (·.v) := by
  simp [dijkstraDist, Function.comp_def]

theorem mem_dijkstraDist {p : Nat × Int} (hp : p ∈ dijkstraDist g S) :
    ∃ e ∈ entries g (fun _ => none) S, e.v = p.1 ∧ e.d = p.2 := by
  obtain ⟨e, he, rfl⟩ := List.mem_map.mp hp
  exact ⟨e, he, rfl, rfl⟩

theorem distances_length (g : WGraph) (S : List Nat) : (distances g S).length = g.n := by
  unfold distances distancesOf
  rw [foldl_set_length (fun it : Nat × Int => it.1) (fun it => some it.2)]
  simp

theorem distances_of_item (h : Hyp g S) {p : Nat × Int} (hp : p ∈ dijkstraDist g S) :
    (distances g S)[p.1]? = some (some p.2) := by
  obtain ⟨ok, _, _⟩ := entries_spec h tagOK_none
  have hnd : ((dijkstraDist g S).map (·.1)).Nodup := by rw [dijkstraDist_map_fst]; exact ok.nodup
  obtain ⟨e, he, hev, _⟩ := mem_dijkstraDist hp
  have hr := (entries_mem_iff h tagOK_none e.v).mp (List.mem_map.mpr ⟨e, he, rfl⟩)
  have hlt : p.1 < g.n := by
    obtain ⟨_, ⟨st', inv, _⟩, _⟩ := entries_spec h (tag := fun _ => none) tagOK_none
    have := dOf_some_lt (inv.final e he)
    rw [inv.len, hev] at this; exact this
  unfold distances distancesOf
  exact foldl_set_mem (fun it : Nat × Int => it.1) (fun it => some it.2) _ _ p hnd hp (by simpa using hlt)

theorem distances_of_not_item {v : Nat} (hv : v < g.n) (hno : v ∉ (dijkstraDist g S).map (·.1)) :
    (distances g S)[v]? = some none := by
  unfold distances distancesOf
  rw [foldl_set_not_mem (fun it : Nat × Int => it.1) (fun it => some it.2) _ _ v hno]
  simp [hv]


/-! ### the statements of C03 (referenced from `Thm/C03.lean`) -/

theorem dijkstraDist_sound (g : WGraph) (S : List Nat) (h : Hyp g S) :
    (∀ p ∈ dijkstraDist g S, ∃ s ∈ S, ∃ k, WWalk g s p.1 k p.2) ∧
    ((dijkstraDist g S).map (·.1)).Nodup ∧
    (∀ f, fuel g S ≤ f → run g (fun _ => none) f (init g.n S) = entries g (fun _ => none) S) := by
  obtain ⟨ok, _, hfu⟩ := entries_spec h tagOK_none
  refine ⟨?_, by rw [dijkstraDist_map_fst]; exact ok.nodup, hfu⟩
  intro p hp
  obtain ⟨e, he, hv, hd⟩ := mem_dijkstraDist hp
  rw [← hv, ← hd]
  exact entries_walk h tagOK_none e he

theorem dijkstraDist_exact (g : WGraph) (S : List Nat) (h : Hyp g S) :
    (∀ v, v ∈ (dijkstraDist g S).map (·.1) ↔ WReachFrom g S v) ∧
    (∀ p ∈ dijkstraDist g S, IsMinDist g S p.1 p.2) ∧
    ((dijkstraDist g S).map (·.2)).Pairwise (· ≤ ·) := by
  obtain ⟨ok, _, _⟩ := entries_spec h tagOK_none
  refine ⟨?_, ?_, ?_⟩
  · intro v; rw [dijkstraDist_map_fst]; exact entries_mem_iff h tagOK_none v
  · intro p hp
    obtain ⟨e, he, hv, hd⟩ := mem_dijkstraDist hp
    rw [← hv, ← hd]
    exact entries_min h tagOK_none e he
  · unfold dijkstraDist
    rw [List.map_map, List.pairwise_map]
    exact ok.sorted

theorem dijkstra_iter_spec (g : WGraph) (S : List Nat) (h : Hyp g S) :
    (dijkstra g S).Nodup ∧ (∀ v, v ∈ dijkstra g S ↔ WReachFrom g S v) ∧
    (dijkstra g S).Pairwise (fun a b => ∀ da db, IsMinDist g S a da → IsMinDist g S b db → da ≤ db) := by
  obtain ⟨ok, _, _⟩ := entries_spec h tagOK_none
  refine ⟨ok.nodup, fun v => entries_mem_iff h tagOK_none v, ?_⟩
  unfold dijkstra
  rw [List.pairwise_map]
  have hmin := entries_min h tagOK_none
  have : ∀ a ∈ entries g (fun _ => none) S, ∀ b ∈ entries g (fun _ => none) S, a.d ≤ b.d →
      ∀ da db, IsMinDist g S a.v da → IsMinDist g S b.v db → da ≤ db := by
    intro a ha b hb hab da db h1 h2
    rw [isMinDist_unique h1 (hmin a ha), isMinDist_unique h2 (hmin b hb)]; exact hab
  exact List.Pairwise.imp_of_mem (fun ha hb hab => this _ ha _ hb hab) ok.sorted

theorem distances_vec_spec (g : WGraph) (S : List Nat) (h : Hyp g S) :
    (distances g S).length = g.n ∧
    (∀ v, v < g.n → ∀ d, (distances g S)[v]? = some (some d) ↔ IsMinDist g S v d) ∧
    (∀ v, v < g.n → ((distances g S)[v]? = some none ↔ ¬ WReachFrom g S v)) := by
  obtain ⟨hmem, hmin, _⟩ := dijkstraDist_exact g S h
  have key : ∀ v, v < g.n →
      (¬ WReachFrom g S v ∧ (distances g S)[v]? = some none) ∨
      (∃ d, WReachFrom g S v ∧ IsMinDist g S v d ∧ (distances g S)[v]? = some (some d)) := by
    intro v hv
    by_cases hm : v ∈ (dijkstraDist g S).map (·.1)
    · obtain ⟨p, hp, rfl⟩ := List.mem_map.mp hm
      exact Or.inr ⟨p.2, (hmem _).mp hm, hmin p hp, distances_of_item h hp⟩
    · exact Or.inl ⟨fun hr => hm ((hmem v).mpr hr), distances_of_not_item hv hm⟩
  refine ⟨distances_length g S, ?_, ?_⟩
  · intro v hv d
    rcases key v hv with ⟨hnr, hd⟩ | ⟨d', hr, hmd, hd⟩
    · rw [hd]
      constructor
      · intro h; simp at h
      · intro hmd
        obtain ⟨⟨s, hs, k, hk⟩, _⟩ := hmd
        exact absurd ⟨s, hs, k, d, hk⟩ hnr
    · rw [hd]
      constructor
      · intro h; simp at h; rw [← h]; exact hmd
      · intro h'; rw [isMinDist_unique h' hmd]
  · intro v hv
    rcases key v hv with ⟨hnr, hd⟩ | ⟨d', hr, _, hd⟩
    · simp [hd, hnr]
    · rw [hd]; simp [hr]

end GraafVerif.Dijkstra
