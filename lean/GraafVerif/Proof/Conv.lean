import GraafVerif.Model.Conv
import GraafVerif.Proof.GenAddArc
import GraafVerif.Proof.GenAddArcMX
import GraafVerif.Proof.GenAddArcMap
/-!
# C16: the macro-generated `From` impls preserve the digraph (fold induction over `add_arc`)

`fromDigraph_spec` is generic in the target (an `ArcRepr` + its `empty`) and in the source
(what it shows through `order()` and `arcs()`); the twenty `From` impls are its instances.
-/
namespace GraafVerif.Conv
open GraafVerif.Repr GraafVerif.Gen

theorem step_valid {T : Type} (addArc : T → Nat → Nat → Option T) (n : Nat) (h : T) (a : Nat × Nat)
    (ha : a.1 ≠ a.2 ∧ a.1 < n ∧ a.2 < n) : step addArc n h a = addArc h a.1 a.2 := by
  have h2 : ¬ ¬ a.2 < n := by omega
  simp [step, ha.1, ha.2.2]

theorem foldlM_congr_mem {T : Type} (f g : T → Nat × Nat → Option T) (arcs : List (Nat × Nat))
    (hfg : ∀ a ∈ arcs, ∀ h, f h a = g h a) (d : T) : arcs.foldlM f d = arcs.foldlM g d := by
  induction arcs generalizing d with
  | nil => rfl
  | cons x xs ih =>
    rw [List.foldlM_cons, List.foldlM_cons, hfg x (List.mem_cons_self ..)]
    cases g d x with
    | none => rfl
    | some d1 => exact ih (fun a ha => hfg a (List.mem_cons_of_mem _ ha)) d1

/-- **The conversion theorem.**  Target `R` with a correct `empty`; the source shows order
`n ≥ 1` and a list of arcs that join distinct vertices of `0..n`.  Then the `From` body returns a
well-formed digraph of order `n` whose arcs are exactly the source's. -/
theorem fromDigraph_spec {T : Type} (R : ArcRepr T) (empty : Nat → Option T) {n : Nat}
    {arcs : List (Nat × Nat)}
    (hempty : ∃ e, empty n = some e ∧ R.WF e ∧ R.order e = n ∧ ∀ u v, ¬ R.has e u v)
    (hn : 1 ≤ n) (hv : ArcsValid n arcs) :
    ∃ d, fromDigraph empty R.addArc n arcs = some d ∧ R.WF d ∧ R.order d = n ∧
      ∀ u v, R.has d u v ↔ (u, v) ∈ arcs := by
  obtain ⟨e, he, hwf, ho, hno⟩ := hempty
  have hv' : ArcsValid (R.order e) arcs := by rw [ho]; exact hv
  obtain ⟨d, hd, hwf', ho', hhas⟩ := foldlM_addArc R arcs e hwf hv'
  refine ⟨d, ?_, hwf', by rw [ho', ho], ?_⟩
  · have h0 : n ≠ 0 := by omega
    unfold fromDigraph
    simp only [h0, if_false, he]
    show arcs.foldlM (step R.addArc n) e = some d
    rw [foldlM_congr_mem (step R.addArc n) (fun g a => R.addArc g a.1 a.2) arcs
      (fun a ha h => step_valid R.addArc n h a (hv a ha))]
    exact hd
  · intro u v
    rw [hhas]
    constructor
    · rintro (h | h)
      · exact absurd h (hno u v)
      · exact h
    · exact Or.inr

/-- A source panics the conversion when it shows a self-loop or a head `≥ order` (the two
asserts of the macro body), whatever the target. -/
theorem fromDigraph_panics {T : Type} (empty : Nat → Option T) (addArc : T → Nat → Nat → Option T)
    (n : Nat) (arcs : List (Nat × Nat)) (h : ∃ a ∈ arcs, a.1 = a.2 ∨ ¬ a.2 < n) :
    fromDigraph empty addArc n arcs = none := by
  unfold fromDigraph
  split
  · rfl
  · cases empty n with
    | none => rfl
    | some e =>
      show arcs.foldlM (step addArc n) e = none
      obtain ⟨a, ha, hbad⟩ := h
      induction arcs generalizing e with
      | nil => cases ha
      | cons x xs ih =>
        rw [List.foldlM_cons]
        rcases List.mem_cons.mp ha with rfl | ha'
        · have : step addArc n e a = none := by
            unfold step
            rcases hbad with h1 | h1
            · simp [h1]
            · by_cases h0 : a.1 = a.2 <;> simp [h0, h1]
          rw [this]; rfl
        · cases step addArc n e x with
          | none => rfl
          | some e' => exact ih e' ha'

theorem fromDigraph_zero {T : Type} (empty : Nat → Option T) (addArc : T → Nat → Nat → Option T)
    (arcs : List (Nat × Nat)) : fromDigraph empty addArc 0 arcs = none := by
  simp [fromDigraph]

/-! ## Sources -/

/-- What a source digraph shows to a conversion: `order() ≥ 1` and valid `arcs()`. -/
structure Src where
  order : Nat
  arcs : List (Nat × Nat)
  pos : 1 ≤ order
  valid : ArcsValid order arcs

def srcAL (d : AdjList) (h : d.WF) : Src := ⟨d.order, d.arcs, h.1, AL.arcs_valid h⟩
def srcAM (d : AdjMap) (h : d.WF) (hc : AM.Contiguous d) (hp : 1 ≤ d.order) : Src :=
  ⟨d.order, d.arcs, hp, AM.arcs_valid h hc⟩
def srcMX (d : AdjMatrix) (h : d.WF) : Src := ⟨d.order, d.arcs, h.1, MX.arcs_valid h⟩
def srcEL (d : EdgeList) (h : d.WF) : Src := ⟨d.order, d.arcs, h.1, EL.arcs_valid h⟩

/-! ## Targets -/

theorem toAL_spec (s : Src) : ∃ d, toAL s.order s.arcs = some d ∧ d.WF ∧ d.order = s.order ∧
    ∀ u v, (u, v) ∈ d.arcs ↔ (u, v) ∈ s.arcs :=
  fromDigraph_spec AL.repr AdjList.empty (AL.empty_repr s.pos) s.pos s.valid

theorem toAM_spec (s : Src) : ∃ d, toAM s.order s.arcs = some d ∧ (d.WF ∧ AM.Contiguous d) ∧
    d.order = s.order ∧ ∀ u v, (u, v) ∈ d.arcs ↔ (u, v) ∈ s.arcs :=
  fromDigraph_spec AM.repr AdjMap.empty (AM.empty_repr s.pos) s.pos s.valid

theorem toMX_spec (s : Src) (hfit : s.order * s.order < 2 ^ 64) :
    ∃ d, toMX s.order s.arcs = some d ∧ d.WF ∧ d.order = s.order ∧
    ∀ u v, (u, v) ∈ d.arcs ↔ (u, v) ∈ s.arcs :=
  fromDigraph_spec MX.repr AdjMatrix.empty (MX.empty_spec s.pos hfit) s.pos s.valid

theorem toEL_spec (s : Src) : ∃ d, toEL s.order s.arcs = some d ∧ d.WF ∧ d.order = s.order ∧
    ∀ u v, (u, v) ∈ d.arcs ↔ (u, v) ∈ s.arcs :=
  fromDigraph_spec EL.repr EdgeList.empty (EL.empty_repr s.pos) s.pos s.valid

theorem toWL_spec (s : Src) : ∃ d, toWL s.order s.arcs = some d ∧ (d.WF ∧ WL.AllOne d) ∧
    d.order = s.order ∧ ∀ u v, (u, v) ∈ d.arcs ↔ (u, v) ∈ s.arcs :=
  fromDigraph_spec WL.repr AdjListW.empty (WL.empty_repr s.pos) s.pos s.valid

end GraafVerif.Conv
