import GraafVerif.Proof.RandOrient
/-! The pair list `pairs n`, and: the workers' pair lists concatenate to it for every thread count. -/
namespace GraafVerif.Rand

theorem mem_pairs (n u v : Nat) : (u, v) ∈ pairs n ↔ u < v ∧ v < n := by
  simp only [pairs, List.mem_flatMap, List.mem_range, List.mem_map, List.mem_range'_1, Prod.mk.injEq]
  constructor
  · rintro ⟨a, ha, b, hb, rfl, rfl⟩; omega
  · rintro ⟨h1, h2⟩; exact ⟨u, by omega, v, by omega, rfl, rfl⟩

theorem pairs_lt (n : Nat) : ∀ p ∈ pairs n, p.1 < p.2 := by
  intro p hp
  have := (mem_pairs n p.1 p.2).1 hp
  exact this.1

theorem rowPairs_nodup (n u : Nat) : ((List.range' (u+1) (n - (u+1))).map fun v => (u, v)).Nodup := by
  unfold List.Nodup
  rw [List.pairwise_map]
  refine List.Pairwise.imp ?_ (List.nodup_range' (s := u+1) (n := n - (u+1)) (step := 1))
  intro a b hab h; exact hab (Prod.mk.inj h).2

theorem pairs_nodup (n : Nat) : (pairs n).Nodup := by
  unfold pairs List.Nodup
  rw [List.pairwise_flatMap]
  refine ⟨fun u _ => rowPairs_nodup n u, ?_⟩
  refine List.Pairwise.imp ?_ (List.nodup_range (n := n))
  intro a b hab x hx1 y hx2 hxy
  simp only [List.mem_map] at hx1 hx2
  obtain ⟨_, _, rfl⟩ := hx1
  obtain ⟨_, _, rfl⟩ := hx2
  exact hab (Prod.mk.inj hxy).1

/-- flattening the workers' pair lists gives `pairs n`: each pair is decided by exactly one worker -/
theorem workerPairs_tile (n t : Nat) (hn : 0 < n) (ht : 0 < t) :
    (workers n t).flatMap (fun rk => workerPairs n rk.1) = pairs n := by
  have htile := Par.chunks_tile n (min n t) (by omega) hn
  unfold workers
  have : ((Par.ranges n (min n t)).zipIdx).flatMap (fun rk => workerPairs n rk.1)
      = (Par.ranges n (min n t)).flatMap (workerPairs n) := by
    rw [List.flatMap_def, List.flatMap_def]
    congr 1
    conv => rhs; rw [← List.zipIdx_map_fst 0 (Par.ranges n (min n t))]
    rw [List.map_map]; rfl
  rw [this]
  unfold workerPairs pairs
  rw [← htile]
  unfold Par.expand
  rw [List.flatMap_assoc]

end GraafVerif.Rand
