import GraafVerif.Proof.ComposeDriver
/-!
# Compose — sparse `[am verts arcs]` descriptions: the `VGraph` of the C09 handler is the
vertex-id view of the map the harness builds

`H09.vgraphOf d` = vertex list `vertsOf d` (the described vertices plus all arc endpoints, sorted
by an `insertAsc` fold) and rows `rowsOfArcs (max id + 1) arcs`.  `buildAM d` = the map over
`d.verts` with empty rows, then `add_arc` for every described arc (which may introduce new endpoints).
For every description with ascending `verts` and loop-free arcs the two coincide:
`(buildAM d).vview = H09.vgraphOf d`.
-/
namespace GraafVerif.Compose
open GraafVerif GraafVerif.Repr GraafVerif.ReprSpec GraafVerif.Driver

/-! ## `add_arc` folds are histories -/

def addOpsU (arcs : List (Nat × Nat)) : List (Op Unit) := arcs.map (fun a => Op.add a.1 a.2 ())

theorem foldlM_addArc_am (arcs : List (Nat × Nat)) (hnl : ∀ a ∈ arcs, a.1 ≠ a.2) :
    ∀ e : AdjMap, arcs.foldlM (fun g a => g.addArc a.1 a.2) e = some (run AdjMap.step e (addOpsU arcs)).1 := by
  induction arcs with
  | nil => intro e; rfl
  | cons a as ih =>
    intro e
    have hne := hnl a List.mem_cons_self
    have hadd : e.addArc a.1 a.2 = some ⟨mupsert a.2 [] id (mupsert a.1 [] (sinsert a.2) e.rows)⟩ := by
      simp [AdjMap.addArc, hne]
    rw [List.foldlM_cons, hadd]
    simp only [addOpsU, List.map_cons, run, AdjMap.step, hadd, outOfOpt]
    exact ih (fun x hx => hnl x (List.mem_cons_of_mem _ hx)) _

/-- The spec digraph after adding loop-free arcs to a growing digraph: the vertex set gains the
endpoints, the arc set gains the arcs. -/
theorem specRun_growing_adds (arcs : List (Nat × Nat)) (hnl : ∀ a ∈ arcs, a.1 ≠ a.2) :
    ∀ s : SpecState Unit,
      (∀ x, (run (specStep .growing) s (addOpsU arcs)).1.V x = true ↔
        (s.V x = true ∨ x ∈ arcs.map (·.1) ∨ x ∈ arcs.map (·.2))) ∧
      (∀ u v, (run (specStep .growing) s (addOpsU arcs)).1.A u v = true ↔ (s.A u v = true ∨ (u, v) ∈ arcs)) := by
  induction arcs with
  | nil => intro s; simp [addOpsU, run]
  | cons a as ih =>
    intro s
    have hne := hnl a List.mem_cons_self
    have hrej : rejected .growing s a.1 a.2 = false := by simp [rejected, hne]
    have hstep := specStep_add_ok (k := .growing) (s := s) () hrej
    obtain ⟨ihV, ihA⟩ := ih (fun x hx => hnl x (List.mem_cons_of_mem _ hx))
      ⟨grow .growing s.V a.1 a.2, setW s.W a.1 a.2 (some ())⟩
    simp only [addOpsU, List.map_cons, run, hstep] at ihV ihA ⊢
    refine ⟨fun x => ?_, fun u v => ?_⟩
    · rw [ihV x]
      simp only [grow, addV, Bool.or_eq_true, decide_eq_true_eq, List.mem_cons]
      constructor
      · rintro ((h | h | h) | h | h)
        · exact Or.inr (Or.inr (Or.inl h))
        · exact Or.inr (Or.inl (Or.inl h))
        · exact Or.inl h
        · exact Or.inr (Or.inl (Or.inr h))
        · exact Or.inr (Or.inr (Or.inr h))
      · rintro (h | (h | h) | (h | h))
        · exact Or.inl (Or.inr (Or.inr h))
        · exact Or.inl (Or.inr (Or.inl h))
        · exact Or.inr (Or.inl h)
        · exact Or.inl (Or.inl h)
        · exact Or.inr (Or.inr h)
    · rw [ihA u v, A_setW]
      simp only [List.mem_cons]
      by_cases hc : u = a.1 ∧ v = a.2
      · obtain ⟨rfl, rfl⟩ := hc
        simp
      · simp only [hc, if_false]
        have hne' : (u, v) ≠ a := by
          intro e; apply hc; rw [← e]; exact ⟨rfl, rfl⟩
        constructor
        · rintro (h | h)
          · exact Or.inl h
          · exact Or.inr (Or.inr h)
        · rintro (h | h | h)
          · exact Or.inl h
          · exact absurd h hne'
          · exact Or.inr h

/-! ## The start map over the described vertices -/

theorem mget_verts_rows (vs : List Nat) (x : Nat) (h : vs.Pairwise (· < ·)) :
    (mget x (vs.map (fun v => (v, ([] : List Nat))))).isSome = true ↔ x ∈ vs := by
  have hs : SortedK (vs.map (fun v => (v, ([] : List Nat)))) := by
    unfold SortedK; rw [List.pairwise_map]; exact h
  rw [Option.isSome_iff_exists]
  constructor
  · rintro ⟨r, hr⟩
    have := (mget_eq_some_iff hs).1 hr
    obtain ⟨v, hv, e⟩ := List.mem_map.1 this
    cases e; exact hv
  · intro hx
    exact ⟨[], (mget_eq_some_iff hs).2 (List.mem_map.2 ⟨x, hx, rfl⟩)⟩

theorem startMap_WF (vs : List Nat) (h : vs.Pairwise (· < ·)) : (⟨vs.map (fun v => (v, []))⟩ : AdjMap).WF := by
  refine ⟨by unfold SortedK; rw [List.pairwise_map]; exact h, ?_⟩
  intro u row hm
  obtain ⟨v, _, e⟩ := List.mem_map.1 hm
  cases e
  exact ⟨List.Pairwise.nil, fun _ hv => by cases hv⟩

/-! ## `vertsOf` -/

theorem foldl_insertAsc (l : List Nat) : ∀ acc : List Nat, acc.Pairwise (· < ·) →
    (l.foldl (fun acc x => Tarjan.insertAsc x acc) acc).Pairwise (· < ·) ∧
    ∀ x, x ∈ l.foldl (fun acc x => Tarjan.insertAsc x acc) acc ↔ x ∈ acc ∨ x ∈ l := by
  induction l with
  | nil => intro acc h; exact ⟨h, by simp⟩
  | cons a as ih =>
    intro acc h
    obtain ⟨h1, h2⟩ := ih (Tarjan.insertAsc a acc) (Tarjan.sorted_insertAsc a acc h)
    refine ⟨h1, fun x => ?_⟩
    simp only [List.foldl_cons]
    rw [h2 x, Tarjan.mem_insertAsc]
    simp only [List.mem_cons]
    constructor
    · rintro ((h | h) | h)
      · exact Or.inr (Or.inl h)
      · exact Or.inl h
      · exact Or.inr (Or.inr h)
    · rintro (h | h | h)
      · exact Or.inl (Or.inr h)
      · exact Or.inl (Or.inl h)
      · exact Or.inr h

theorem le_foldl_max (l : List Nat) : ∀ (m x : Nat), (x ≤ m ∨ x ∈ l) → x ≤ l.foldl max m := by
  induction l with
  | nil => intro m x h; rcases h with h | h; exact h; cases h
  | cons a as ih =>
    intro m x h
    simp only [List.foldl_cons]
    apply ih
    rcases h with h | h
    · exact Or.inl (by omega)
    · rcases List.mem_cons.1 h with rfl | h
      · exact Or.inl (by omega)
      · exact Or.inr h

/-- **Sparse `[am verts arcs]`.**  Ascending described vertices, loop-free arcs: the map built
like the harness builds the real one exists, is well-formed, has exactly the described arcs, its
vertex list is the handler's `vertsOf d`, and its vertex-id view IS `H09.vgraphOf d`. -/
theorem driver_vgraph_is_vview_am (d : GDesc) (hrepr : (d.repr == "am") = true)
    (hverts : d.verts.Pairwise (· < ·)) (hnl : ∀ a ∈ d.arcs, a.1 ≠ a.2) :
    ∃ r, buildAM d = some r ∧ r.WF ∧ r.vertices = H09.vertsOf d ∧
      (∀ u v, (u, v) ∈ r.arcs ↔ (u, v) ∈ d.arcs) ∧ r.vview = H09.vgraphOf d := by
  let e : AdjMap := ⟨d.verts.map (fun v => (v, []))⟩
  have hwe : e.WF := startMap_WF d.verts hverts
  have hbuild : buildAM d = some (run AdjMap.step e (addOpsU d.arcs)).1 := foldlM_addArc_am d.arcs hnl e
  obtain ⟨hw, habs, _⟩ := AdjMap.run_refines (addOpsU d.arcs) e hwe
  obtain ⟨hV, hA⟩ := specRun_growing_adds d.arcs hnl e.abs
  generalize hr : (run AdjMap.step e (addOpsU d.arcs)).1 = r at hbuild hw habs
  -- vertices
  have heV : ∀ x, e.abs.V x = true ↔ x ∈ d.verts := fun x => mget_verts_rows d.verts x hverts
  have heA : ∀ u v, e.abs.A u v = true ↔ False := by
    intro u v
    simp only [AdjMap.abs, SpecState.A, unitOf_isSome, AdjMap.hasArc, iff_false]
    cases hm : mget u e.rows with
    | none => simp
    | some row =>
      have hs : SortedK e.rows := hwe.1
      obtain ⟨x, _, ex⟩ := List.mem_map.1 ((mget_eq_some_iff hs).1 hm)
      cases ex; simp
  have hvs := AdjMap.vertices_spec r hw
  have hvo : H09.vertsOf d = (d.verts ++ d.arcs.map (·.1) ++ d.arcs.map (·.2)).foldl
      (fun acc x => Tarjan.insertAsc x acc) [] := by simp [H09.vertsOf, hrepr]
  obtain ⟨hsorted, hmem⟩ := foldl_insertAsc (d.verts ++ d.arcs.map (·.1) ++ d.arcs.map (·.2)) [] List.Pairwise.nil
  have hverts_eq : r.vertices = H09.vertsOf d := by
    rw [hvo]
    apply Query.sorted_ext hvs.1 hsorted
    intro x
    rw [hvs.2.2 x, habs, hV x, heV x, hmem x]
    simp only [List.mem_append, List.not_mem_nil, false_or, or_assoc]
  have harcs : ∀ u v, (u, v) ∈ r.arcs ↔ (u, v) ∈ d.arcs := by
    intro u v
    rw [AdjMap.mem_arcs r hw u v, habs, hA u v, heA u v]; simp
  refine ⟨r, hbuild, hw, hverts_eq, harcs, ?_⟩
  -- the rows
  have vs := r.vview_spec hw
  let bound := (H09.vertsOf d).foldl max 0 + 1
  have hb : ∀ a ∈ d.arcs, a.1 < bound ∧ a.2 < bound ∧ a.1 ≠ a.2 := by
    intro a ha
    have h1 : a.1 ∈ H09.vertsOf d := by
      rw [hvo, hmem]; right; simp only [List.mem_append, List.mem_map]; exact Or.inl (Or.inr ⟨a, ha, rfl⟩)
    have h2 : a.2 ∈ H09.vertsOf d := by
      rw [hvo, hmem]; right; simp only [List.mem_append, List.mem_map]; exact Or.inr ⟨a, ha, rfl⟩
    have := le_foldl_max (H09.vertsOf d) 0 a.1 (Or.inr h1)
    have := le_foldl_max (H09.vertsOf d) 0 a.2 (Or.inr h2)
    exact ⟨by show a.1 < _ + 1; omega, by show a.2 < _ + 1; omega, hnl a ha⟩
  obtain ⟨_, hrows⟩ := Johnson.rowsOfArcs_ok bound d.arcs hb
  obtain ⟨_, hmemrows⟩ := rowsOfArcs_spec bound d.arcs
  rw [AdjMap.vview_eq]
  show Tarjan.VGraph.mk r.vertices r.view.out = Tarjan.VGraph.mk (H09.vertsOf d) (fun u => (rowsOfArcs bound d.arcs).getD u [])
  rw [hverts_eq]
  congr 1
  funext u
  apply Query.sorted_ext
  · have := vs.asc u; rw [AdjMap.vview_eq] at this; exact this
  · have := (hrows u).1
    rw [Array.getD_eq_getD_getElem?]; exact this
  · intro v
    have h1 := vs.arc_iff u v
    rw [AdjMap.vview_eq] at h1
    rw [h1, harcs u v, hmemrows u v]
    constructor
    · intro h; exact ⟨h, (hb _ h).1⟩
    · intro h; exact h.1

end GraafVerif.Compose
