import GraafVerif.Proof.AlgoGen2Conv
/-!
# Generated `impl<I: IntoIterator<..>> From<I>` bodies = hand-written `AL.fromRows`, `AM.fromRows`,
`WL.fromRows`, `MX.fromArcs`, `EL.fromArcs` (`Model/Conv.lean`), for every iterator content
(the iterator is the list it yields; rows are the ascending lists of the sets / maps).
-/
set_option linter.unusedSimpArgs false
namespace GraafVerif.AlgoGenThm
open GraafVerif GraafVerif.AlgoGen GraafVerif.Repr

/-- a validation loop (asserts only) is `List.all` -/
theorem forLoop_all {α β ρ : Type} (body : Unit → α → Blk Unit ρ Unit) (p : α → Bool)
    (h : ∀ a, body () a = if p a = true then .ok () else .error (.err (.fault .panic))) : ∀ (l : List α),
    (forLoop body l () : Blk β ρ Unit) = if l.all p = true then .ok () else .error (.err (.fault .panic)) := by
  intro l
  induction l with
  | nil => rfl
  | cons a l ih =>
    by_cases hp : p a = true
    · rw [forLoop_cons_ok (s' := ()) (h := by rw [h, if_pos hp]), ih]
      simp [hp]
    · rw [forLoop_cons_err (e := .fault .panic) (h := by rw [h, if_neg hp])]
      simp [hp]

/-- the two asserts of a validation loop as one Boolean -/
theorem asserts2 {β ρ : Type} (b1 b2 : Bool) :
    ((do assert b1; assert b2; pure ()) : Blk β ρ Unit) = if (b1 && b2) = true then .ok () else .error (.err (.fault .panic)) := by
  cases b1 <;> cases b2 <;> rfl

namespace AdjacencyList

theorem fromRows_for0_eq (order : Nat) (arcs : List (Nat × Nat)) :
    (forLoop (AlgoGen.AdjacencyList.fromRows_for0 order) arcs () : Blk Empty AdjList Unit) =
      if Conv.arcsValid order arcs = true then .ok () else .error (.err (.fault .panic)) := by
  unfold Conv.arcsValid
  exact forLoop_all (AlgoGen.AdjacencyList.fromRows_for0 order) (fun a => a.1 != a.2 && decide (a.2 < order)) (fun a => by
    unfold AlgoGen.AdjacencyList.fromRows_for0; exact asserts2 _ _) arcs

/-- `impl<I: IntoIterator<Item = BTreeSet<usize>>> From<I> for AdjacencyList` = `Conv.AL.fromRows`. -/
theorem fromRows_eq (rows : List (List Nat)) : AlgoGen.AdjacencyList.fromRows rows = optR (Conv.AL.fromRows rows) := by
  unfold AlgoGen.AdjacencyList.fromRows Conv.AL.fromRows
  simp only [fromRows_for0_eq]
  by_cases h0 : (⟨rows⟩ : AdjList).order = 0
  · simp [h0, optR]
  · have hp : (⟨rows⟩ : AdjList).order > 0 := Nat.pos_of_ne_zero h0
    simp only [hp, decide_true, assert_true, ok_bind, h0, if_false]
    by_cases hv : Conv.arcsValid (⟨rows⟩ : AdjList).order (⟨rows⟩ : AdjList).arcs = true
    · simp [hv, optR]
    · simp [hv, optR]

end AdjacencyList

namespace AdjacencyListWeighted

theorem fromRows_for0_eq (order : Nat) (arcs : List (Nat × Nat)) :
    (forLoop (AlgoGen.AdjacencyListWeighted.fromRows_for0 order) arcs () : Blk Empty AdjListW Unit) =
      if Conv.arcsValid order arcs = true then .ok () else .error (.err (.fault .panic)) := by
  unfold Conv.arcsValid
  exact forLoop_all (AlgoGen.AdjacencyListWeighted.fromRows_for0 order) (fun a => a.1 != a.2 && decide (a.2 < order)) (fun a => by
    unfold AlgoGen.AdjacencyListWeighted.fromRows_for0; exact asserts2 _ _) arcs

/-- `impl<W, I: IntoIterator<Item = BTreeMap<usize, W>>> From<I> for AdjacencyListWeighted<W>` = `Conv.WL.fromRows`. -/
theorem fromRows_eq (rows : List (List (Nat × Int))) :
    AlgoGen.AdjacencyListWeighted.fromRows rows = optR (Conv.WL.fromRows rows) := by
  unfold AlgoGen.AdjacencyListWeighted.fromRows Conv.WL.fromRows
  simp only [fromRows_for0_eq]
  by_cases h0 : (⟨rows⟩ : AdjListW).order = 0
  · simp [h0, optR]
  · have hp : (⟨rows⟩ : AdjListW).order > 0 := Nat.pos_of_ne_zero h0
    simp only [hp, decide_true, assert_true, ok_bind, h0, if_false]
    by_cases hv : Conv.arcsValid (⟨rows⟩ : AdjListW).order (⟨rows⟩ : AdjListW).arcs = true
    · simp [hv, optR]
    · simp [hv, optR]

end AdjacencyListWeighted

namespace AdjacencyMap

theorem fromRows_for0_eq (d : AdjMap) (arcs : List (Nat × Nat)) :
    (forLoop (AlgoGen.AdjacencyMap.fromRows_for0 d) arcs () : Blk Empty AdjMap Unit) =
      if arcs.all (fun a => a.1 != a.2 && (mget a.2 d.rows).isSome) = true then .ok ()
      else .error (.err (.fault .panic)) :=
  forLoop_all (AlgoGen.AdjacencyMap.fromRows_for0 d) (fun a => a.1 != a.2 && (mget a.2 d.rows).isSome) (fun a => by
    unfold AlgoGen.AdjacencyMap.fromRows_for0; exact asserts2 _ _) arcs

/-- `impl<I: IntoIterator<Item = BTreeSet<usize>>> From<I> for AdjacencyMap` = `Conv.AM.fromRows`. -/
theorem fromRows_eq (rows : List (List Nat)) : AlgoGen.AdjacencyMap.fromRows rows = optR (Conv.AM.fromRows rows) := by
  unfold AlgoGen.AdjacencyMap.fromRows Conv.AM.fromRows
  simp only [fromRows_for0_eq]
  by_cases h0 : (⟨rows.zipIdx.map (fun p => (p.2, p.1))⟩ : AdjMap).order = 0
  · simp [h0, optR]
  · have hp : (⟨rows.zipIdx.map (fun p => (p.2, p.1))⟩ : AdjMap).order > 0 := Nat.pos_of_ne_zero h0
    simp only [hp, decide_true, assert_true, ok_bind, h0, if_false]
    split <;> simp_all [optR]

end AdjacencyMap

/-- the collecting loop of `From<arcs>`: self-loop assert, running maximum of the ids -/
theorem collect_maxId {σ β ρ : Type} (body : Nat × σ → Nat × Nat → Blk (Nat × σ) ρ (Nat × σ)) (push : σ → Nat × Nat → σ)
    (h : ∀ o acc a, body (o, acc) a = if a.1 == a.2 then .error (.err (.fault .panic))
      else .ok (max (max o a.1) a.2, push acc a)) : ∀ (l : List (Nat × Nat)) (o : Nat) (acc : σ),
    (forLoop body l (o, acc) : Blk β ρ (Nat × σ)) =
      if l.any (fun a => a.1 == a.2) = true then .error (.err (.fault .panic))
      else .ok (l.foldl (fun o a => max (max o a.1) a.2) o, l.foldl push acc) := by
  intro l
  induction l with
  | nil => intro o acc; rfl
  | cons a l ih =>
    intro o acc
    by_cases ha : (a.1 == a.2) = true
    · rw [forLoop_cons_err (e := .fault .panic) (h := by rw [h, if_pos ha])]
      simp [ha]
    · rw [forLoop_cons_ok (h := by rw [h, if_neg ha]), ih]
      have ha' : (a.1 == a.2) = false := by simpa using ha
      simp only [List.any_cons, ha', Bool.false_or, List.foldl_cons]

namespace EdgeList

theorem fromArcs_for0_step (o : Nat) (acc : List (Nat × Nat)) (a : Nat × Nat) :
    (AlgoGen.EdgeList.fromArcs_for0 (o, acc) a : Blk _ Repr.EdgeList _) =
      if a.1 == a.2 then .error (.err (.fault .panic)) else .ok (max (max o a.1) a.2, pinsert a acc) := by
  unfold AlgoGen.EdgeList.fromArcs_for0
  by_cases ha : a.1 = a.2
  · simp [ha]
  · have hb : (a.1 != a.2) = true := by simpa using ha
    simp [ha, hb]

/-- the collecting loop of `From<arcs>` for `EdgeList` -/
theorem fromArcs_for0_eq (l : List (Nat × Nat)) (o : Nat) (acc : List (Nat × Nat)) :
    (forLoop AlgoGen.EdgeList.fromArcs_for0 l (o, acc) : Blk Empty Repr.EdgeList _) =
      if l.any (fun a => a.1 == a.2) = true then .error (.err (.fault .panic))
      else .ok (l.foldl (fun o a => max (max o a.1) a.2) o, l.foldl (fun s a => pinsert a s) acc) :=
  collect_maxId _ (fun s a => pinsert a s) fromArcs_for0_step l o acc

/-- `impl<I: IntoIterator<Item = (usize, usize)>> From<I> for EdgeList` = `Conv.EL.fromArcs`. -/
theorem fromArcs_eq (arcs : List (Nat × Nat)) : AlgoGen.EdgeList.fromArcs arcs = optR (Conv.EL.fromArcs arcs) := by
  unfold AlgoGen.EdgeList.fromArcs Conv.EL.fromArcs
  simp only [fromArcs_for0_eq]
  by_cases h : arcs.any (fun a => a.1 == a.2) = true
  · simp [h, optR]
  · simp [h, optR, Conv.maxId]

end EdgeList

namespace AdjacencyMatrix

theorem fromArcs_for0_step (o : Nat) (acc : List (Nat × Nat)) (a : Nat × Nat) :
    (AlgoGen.AdjacencyMatrix.fromArcs_for0 (o, acc) a : Blk _ Repr.AdjMatrix _) =
      if a.1 == a.2 then .error (.err (.fault .panic)) else .ok (max (max o a.1) a.2, acc ++ [a]) := by
  unfold AlgoGen.AdjacencyMatrix.fromArcs_for0
  by_cases ha : a.1 = a.2
  · simp [ha]
  · have hb : (a.1 != a.2) = true := by simpa using ha
    simp [ha, hb]

/-- the collecting loop of `From<arcs>` for `AdjacencyMatrix` -/
theorem fromArcs_for0_eq (l : List (Nat × Nat)) (o : Nat) (acc : List (Nat × Nat)) :
    (forLoop AlgoGen.AdjacencyMatrix.fromArcs_for0 l (o, acc) : Blk Empty Repr.AdjMatrix _) =
      if l.any (fun a => a.1 == a.2) = true then .error (.err (.fault .panic))
      else .ok (l.foldl (fun o a => max (max o a.1) a.2) o, l.foldl (fun s a => s ++ [a]) acc) :=
  collect_maxId _ (fun s a => s ++ [a]) fromArcs_for0_step l o acc

theorem foldl_snoc (l : List (Nat × Nat)) : ∀ acc, l.foldl (fun s a => s ++ [a]) acc = acc ++ l := by
  induction l with
  | nil => intro acc; simp
  | cons a l ih => intro acc; simp [ih]

/-- the `for (u, v) in arcs { digraph.add_arc(u, v) }` loop -/
theorem fromArcs_for1_eq (l : List (Nat × Nat)) (g : AdjMatrix) :
    (forLoop AlgoGen.AdjacencyMatrix.fromArcs_for1 l g : Blk Empty AdjMatrix _) =
      optP (l.foldlM (fun g a => g.addArc a.1 a.2) g) :=
  forLoop_optP _ _ (fun g a => by
    unfold AlgoGen.AdjacencyMatrix.fromArcs_for1
    dsimp only
    cases g.addArc a.1 a.2 <;> rfl) l g

/-- `impl<I: IntoIterator<Item = (usize, usize)>> From<I> for AdjacencyMatrix` = `Conv.MX.fromArcs`. -/
theorem fromArcs_eq (arcs : List (Nat × Nat)) : AlgoGen.AdjacencyMatrix.fromArcs arcs = optR (Conv.MX.fromArcs arcs) := by
  unfold AlgoGen.AdjacencyMatrix.fromArcs Conv.MX.fromArcs
  simp only [fromArcs_for0_eq, fromArcs_for1_eq, foldl_snoc, List.nil_append]
  by_cases h : arcs.any (fun a => a.1 == a.2) = true
  · simp [h, optR]
  · simp only [h, Bool.false_eq_true, if_false, ok_bind]
    by_cases he : arcs.isEmpty = true
    · simp [he, optR]
    · simp only [he, Bool.not_false, assert_true, ok_bind, Bool.false_eq_true, if_false, Conv.maxId]
      cases AdjMatrix.empty (List.foldl (fun o a => max (max o a.1) a.2) 0 arcs + 1) with
      | none => rfl
      | some e =>
        simp only [optP, ok_bind, Option.bind_eq_bind, Option.bind_some]
        cases List.foldlM (fun g a => g.addArc a.1 a.2) e arcs <;> rfl

end AdjacencyMatrix

end GraafVerif.AlgoGenThm
