import GraafVerif.Model.ChkRepr
import GraafVerif.Proof.ChkPar
/-!
# `AdjacencyList`: the unchecked accesses indexed by a loop variable are in range for arbitrary
rows; those indexed by a successor are in range under `RowsWF` — C13, P1 (part A)
-/
namespace GraafVerif.Chk

theorem mapM_inv {α β : Type} (f : α → Chk β) (P : β → Prop) :
    ∀ (l : List α), (∀ a ∈ l, NoUB (f a) ∧ ∀ b, f a = .ok b → P b) →
      NoUB (l.mapM f) ∧ ∀ bs, l.mapM f = .ok bs → (∀ b ∈ bs, P b) ∧ bs.length = l.length := by
  intro l
  induction l with
  | nil =>
    intro _
    refine ⟨noUB_pure _, ?_⟩
    intro bs h
    cases h
    exact ⟨(by intro b hb; cases hb), rfl⟩
  | cons a l ih =>
    intro h
    rw [List.mapM_cons]
    obtain ⟨h1, h2⟩ := h a List.mem_cons_self
    have ih' := ih (fun x hx => h x (List.mem_cons_of_mem _ hx))
    constructor
    · apply noUB_bind h1
      intro b _
      exact noUB_bind ih'.1 (fun _ _ => noUB_pure _)
    · intro bs hbs
      obtain ⟨b, hb, hbs⟩ := bind_ok hbs
      obtain ⟨bs', hbs', hbs⟩ := bind_ok hbs
      cases hbs
      obtain ⟨hp, hl⟩ := ih'.2 bs' hbs'
      refine ⟨?_, by simp [hl]⟩
      intro x hx
      rcases List.mem_cons.mp hx with hx | hx
      · rw [hx]; exact h2 b hb
      · exact hp x hx

theorem mem_forRange {a b u : Nat} (h : u ∈ forRange a b) : a ≤ u ∧ u < b := by
  unfold forRange at h
  rw [List.mem_range'_1] at h
  omega

theorem bump_spec (site : String) (n : Nat) (cnt : List Nat) (v : Nat) (hc : cnt.length = n) (hv : v < n) :
    NoUB (bump site cnt v) ∧ ∀ c', bump site cnt v = .ok c' → c'.length = n := by
  unfold bump
  have hv' : v < cnt.length := by rw [hc]; exact hv
  constructor
  · exact noUB_bind (noUB_rd hv') (fun _ _ => noUB_wr hv')
  · intro c' h
    obtain ⟨_, _, h⟩ := bind_ok h
    rw [wr_length h]; exact hc

/-- `add_arc` for ALL arguments. -/
theorem alAddArc_noUB (rows : Rows) (u v : Nat) : NoUB (alAddArc rows u v) := by
  unfold alAddArc
  apply noUB_bind (noUB_assert _); intro _ _
  apply noUB_bind (noUB_assert _); intro _ hu
  apply noUB_bind (noUB_assert _); intro _ _
  have hu : u < rows.length := by simpa using assert_ok hu
  exact noUB_bind (noUB_rd hu) (fun _ _ => noUB_wr hu)

theorem alOutNeighbors_noUB (rows : Rows) (u : Nat) : NoUB (alOutNeighbors rows u) := by
  unfold alOutNeighbors
  apply noUB_bind (noUB_assert _); intro _ hu
  exact noUB_rd (by simpa using assert_ok hu)

/-- `ArcsIterator::next` in EVERY iterator state. -/
theorem alArcsNext_noUB (rows : Rows) : ∀ (fuel : Nat) (it : AlArcsIt), NoUB (alArcsNext rows fuel it) := by
  intro fuel
  induction fuel with
  | zero => intro it; unfold alArcsNext; exact noUB_pure _
  | succ fuel ih =>
    intro it
    unfold alArcsNext
    split
    · exact noUB_pure _
    · split
      · exact noUB_pure _
      · rename_i hge
        exact noUB_bind (noUB_rd (by omega)) (fun _ _ => ih _)

theorem alInNeighborsNext_noUB (rows : Rows) (v : Nat) : ∀ (fuel i : Nat), NoUB (alInNeighborsNext rows v fuel i) := by
  intro fuel
  induction fuel with
  | zero => intro i; unfold alInNeighborsNext; exact noUB_pure _
  | succ fuel ih =>
    intro i
    unfold alInNeighborsNext
    split
    · rename_i hlt
      apply noUB_bind (noUB_rd hlt)
      intro _ _
      split
      · exact noUB_pure _
      · exact ih _
    · exact noUB_pure _

/-- `converse` under the representation invariant (`conv_ptr.add(v)` for a SUCCESSOR `v`). -/
theorem alConverse_noUB (rows : Rows) (hwf : RowsWF rows) : NoUB (alConverse rows) := by
  unfold alConverse
  apply noUB_bind (noUB_assert _); intro _ _
  refine (foldlM_inv_mem (fun (c : Rows) => c.length = rows.length) _ _ ?_ _ (by simp)).1
  intro conv p hp hc
  have hrow : p.2 ∈ rows := (List.of_mem_zip hp).2
  refine foldlM_inv_mem (fun (c : Rows) => c.length = rows.length) _ _ ?_ conv hc
  intro c v hv hcl
  have hvlt : v < c.length := by rw [hcl]; exact hwf p.2 hrow v hv
  constructor
  · exact noUB_bind (noUB_rd hvlt) (fun _ _ => noUB_wr hvlt)
  · intro c' h
    obtain ⟨_, _, h⟩ := bind_ok h
    rw [wr_length h]; exact hcl

theorem alIndegreeSequence_noUB (rows : Rows) (hwf : RowsWF rows) : NoUB (alIndegreeSequence rows) := by
  unfold alIndegreeSequence
  refine (foldlM_inv_mem (fun (c : List Nat) => c.length = rows.length) _ _ ?_ _ (by simp)).1
  intro cnt row hrow hc
  refine foldlM_inv_mem (fun (c : List Nat) => c.length = rows.length) _ _ ?_ cnt hc
  intro c v hv hcl
  exact bump_spec _ rows.length c v hcl (hwf row hrow v hv)

theorem chunksOf_mem {α : Type} (k : Nat) : ∀ (fuel : Nat) (l : List α) (ch : List α) (x : α),
    ch ∈ chunksOf k fuel l → x ∈ ch → x ∈ l := by
  intro fuel
  induction fuel with
  | zero => intro l ch x h; cases h
  | succ fuel ih =>
    intro l ch x h hx
    unfold chunksOf at h
    split at h
    · cases h
    · rcases List.mem_cons.mp h with h | h
      · rw [h] at hx; exact List.mem_of_mem_take hx
      · exact List.mem_of_mem_drop (ih _ ch x h hx)

/-- `degree_sequence` under the representation invariant, for EVERY thread count. -/
theorem alDegreeSequence_noUB (rows : Rows) (hwf : RowsWF rows) (t : Nat) : NoUB (alDegreeSequence rows t) := by
  unfold alDegreeSequence
  apply noUB_bind (noUB_assert _); intro _ _
  -- workers
  have hworkers := mapM_inv
    (fun (p : List (List Nat) × List Nat) =>
      p.1.foldlM (fun (loc : List Nat) row =>
        row.foldlM (bump "adjacency_list/mod.rs:degree_sequence:local_indegrees.get_unchecked_mut(v)") loc) p.2)
    (fun (loc : List Nat) => loc.length = rows.length)
    (List.zip (chunksOf (divCeil rows.length t) rows.length rows) (List.replicate t (List.replicate rows.length 0)))
    (by
      intro p hp
      obtain ⟨hch, hloc⟩ := List.of_mem_zip hp
      have hl : p.2.length = rows.length := by
        have := List.eq_of_mem_replicate hloc
        rw [this]; simp
      refine foldlM_inv_mem (fun (c : List Nat) => c.length = rows.length) _ _ ?_ p.2 hl
      intro loc row hrow hc
      have hrow' : row ∈ rows := chunksOf_mem _ _ _ _ _ hch hrow
      refine foldlM_inv_mem (fun (c : List Nat) => c.length = rows.length) _ _ ?_ loc hc
      intro c v hv hcl
      exact bump_spec _ rows.length c v hcl (hwf row hrow' v hv))
  apply noUB_bind hworkers.1
  intro locals hlocals
  obtain ⟨hlen, _⟩ := hworkers.2 locals hlocals
  -- summing up
  have hsum := foldlM_inv_mem (fun (ind : List Nat) => ind.length = rows.length)
    (fun (ind : List Nat) (loc : List Nat) =>
      (List.zip (List.range loc.length) loc).foldlM (fun (ind : List Nat) (q : Nat × Nat) => do
        let x ← rd "adjacency_list/mod.rs:degree_sequence:indegrees.get_unchecked_mut(vertex)" ind q.1
        wr "adjacency_list/mod.rs:degree_sequence:indegrees.get_unchecked_mut(vertex)" ind q.1 (x + q.2)) ind)
    locals
    (by
      intro ind loc hloc hind
      have hll := hlen loc hloc
      refine foldlM_inv_mem (fun (c : List Nat) => c.length = rows.length) _ _ ?_ ind hind
      intro c q hq hcl
      have hq1 : q.1 < c.length := by
        have := (List.of_mem_zip hq).1
        rw [List.mem_range] at this
        rw [hcl, ← hll]; exact this
      constructor
      · exact noUB_bind (noUB_rd hq1) (fun _ _ => noUB_wr hq1)
      · intro c' h
        obtain ⟨_, _, h⟩ := bind_ok h
        rw [wr_length h]; exact hcl)
    (List.replicate rows.length 0) (by simp)
  apply noUB_bind hsum.1
  intro indeg hindeg
  have hil := hsum.2 indeg hindeg
  refine (mapM_inv _ (fun _ => True) (List.range rows.length) ?_).1
  intro u hu
  rw [List.mem_range] at hu
  refine ⟨?_, fun _ _ => trivial⟩
  apply noUB_bind (noUB_rd (by rw [hil]; exact hu)); intro _ _
  exact noUB_bind (noUB_rd hu) (fun _ _ => noUB_pure _)

theorem noUB_chkOff {site : String} {k len : Nat} (h : k ≤ len) : NoUB (chkOff site k len) := by
  unfold chkOff; rw [if_pos h]; exact noUB_ok _

/-- `has_walk` for EVERY walk. -/
theorem hasWalkPtr_noUB (site : String) (hasArc : Nat → Nat → Bool) (walk : List Nat) :
    NoUB (hasWalkPtr site hasArc walk) := by
  unfold hasWalkPtr
  split
  · exact noUB_pure _
  · apply noUB_bind (noUB_chkOff (by omega)); intro _ _
    generalize walk.length = fuel0
    suffices h : ∀ (fuel i : Nat), NoUB (hasWalkPtr.go site hasArc walk fuel i) from h _ _
    intro fuel
    induction fuel with
    | zero => intro i; unfold hasWalkPtr.go; exact noUB_pure _
    | succ fuel ih =>
      intro i
      unfold hasWalkPtr.go
      split
      · rename_i hlt
        apply noUB_bind (noUB_rd (by omega)); intro _ _
        apply noUB_bind (noUB_rd (by omega)); intro _ _
        split
        · exact noUB_pure _
        · exact noUB_bind (noUB_chkOff (by omega)) (fun _ _ => ih _)
      · exact noUB_pure _

/-- `is_tournament` for arbitrary rows. -/
theorem alIsTournament_noUB (rows : Rows) : NoUB (alIsTournament rows) := by
  unfold alIsTournament
  refine (foldlM_inv_mem (fun _ => True) _ _ ?_ true trivial).1
  intro ok u hu _
  have hu' := (mem_forRange hu).2
  refine ⟨?_, fun _ _ => trivial⟩
  refine (foldlM_inv_mem (fun _ => True) _ _ ?_ ok trivial).1
  intro ok' v hv _
  have hv' := (mem_forRange hv).2
  refine ⟨?_, fun _ _ => trivial⟩
  apply noUB_bind (noUB_rd hu'); intro _ _
  exact noUB_bind (noUB_rd hv') (fun _ _ => noUB_pure _)

/-- `is_semicomplete` for arbitrary rows and EVERY thread count. -/
theorem alIsSemicomplete_noUB (rows : Rows) (t : Nat) : NoUB (alIsSemicomplete rows t) := by
  unfold alIsSemicomplete
  apply noUB_bind (noUB_assert _); intro _ _
  refine noUB_bind (mapM_inv _ (fun _ => True) _ ?_).1 (fun _ _ => noUB_pure _)
  intro r hr
  have hb := stepRangesGo_bounds rows.length (divCeil rows.length t) _ _ r hr
  refine ⟨?_, fun _ _ => trivial⟩
  refine (foldlM_inv_mem (fun _ => True) _ _ ?_ true trivial).1
  intro ok u hu _
  have hu' : u < rows.length := Nat.lt_of_lt_of_le (mem_forRange hu).2 hb.2
  refine ⟨?_, fun _ _ => trivial⟩
  refine (foldlM_inv_mem (fun _ => True) _ _ ?_ ok trivial).1
  intro ok' v hv _
  have hv' := (mem_forRange hv).2
  refine ⟨?_, fun _ _ => trivial⟩
  apply noUB_bind (noUB_rd hu'); intro _ _
  exact noUB_bind (noUB_rd hv') (fun _ _ => noUB_pure _)

end GraafVerif.Chk
