import GraafVerif.Proof.OpsSorted
import GraafVerif.Spec.Ops
/-!
# `EdgeList::{complement, converse, union}` compute their set definitions
-/
namespace GraafVerif.Ops
open GraafVerif.Repr

theorem wfEL_sorted {d : EdgeList} (h : d.WF) : PSorted d.arcs := h.2.1

theorem absEL_V {d : EdgeList} {v : Nat} : (absEL d).V v ↔ v < d.order := by
  simp [absEL, EdgeList.vertices]

theorem absEL_A {d : EdgeList} {u v : Nat} : (absEL d).A u v ↔ (u, v) ∈ d.arcs := by
  simp [absEL, EdgeList.hasArc]

theorem absEL_valid {d : EdgeList} (h : d.WF) : (absEL d).Valid := by
  intro u v ha
  rw [absEL_A] at ha
  have := h.2.2 (u, v) ha
  exact ⟨absEL_V.mpr this.1, absEL_V.mpr this.2.1, this.2.2⟩

theorem mem_allPairs {n u v : Nat} : (u, v) ∈ allPairs n ↔ u < n ∧ v < n ∧ u ≠ v := by
  unfold allPairs
  simp only [List.mem_flatMap, List.mem_range, List.mem_map, List.mem_append, List.mem_range',
    Prod.mk.injEq]
  constructor
  · rintro ⟨u', hu', v', hv', rfl, rfl⟩
    rcases hv' with hv' | ⟨i, hi, rfl⟩
    · omega
    · omega
  · rintro ⟨hu, hv, hne⟩
    refine ⟨u, hu, v, ?_, rfl, rfl⟩
    by_cases hlt : v < u
    · exact Or.inl hlt
    · exact Or.inr ⟨v - (u + 1), by omega, by omega⟩

/-! ## complement -/

theorem mem_complementEL {d : EdgeList} {u v : Nat} :
    (u, v) ∈ (complementEL d).arcs ↔ u < d.order ∧ v < d.order ∧ u ≠ v ∧ (u, v) ∉ d.arcs := by
  simp only [complementEL, mem_toPSet, List.mem_filter, mem_allPairs]
  simp [and_assoc]

theorem complementEL_wf {d : EdgeList} (h : d.WF) : (complementEL d).WF := by
  refine ⟨h.1, sorted_toPSet _, ?_⟩
  rintro ⟨u, v⟩ ha
  have := mem_complementEL.mp ha
  exact ⟨this.1, this.2.1, this.2.2.1⟩

theorem complementEL_abs (d : EdgeList) : absEL (complementEL d) = specComplement (absEL d) := by
  rw [DG.ext_iff']
  constructor
  · intro v; simp [absEL_V, specComplement, complementEL]
  · intro u v
    rw [absEL_A, mem_complementEL]
    simp [specComplement, absEL_V, absEL_A]

theorem complementEL_spec (d : EdgeList) (h : d.WF) :
    (complementEL d).WF ∧ absEL (complementEL d) = specComplement (absEL d) :=
  ⟨complementEL_wf h, complementEL_abs d⟩

/-! ## converse -/

theorem mem_converseEL {d : EdgeList} {u v : Nat} : (u, v) ∈ (converseEL d).arcs ↔ (v, u) ∈ d.arcs := by
  simp only [converseEL, mem_toPSet, List.mem_map, Prod.mk.injEq]
  constructor
  · rintro ⟨⟨a, b⟩, hm, rfl, rfl⟩; exact hm
  · intro hm; exact ⟨(v, u), hm, rfl, rfl⟩

theorem converseEL_wf {d : EdgeList} (h : d.WF) : (converseEL d).WF := by
  refine ⟨h.1, sorted_toPSet _, ?_⟩
  rintro ⟨u, v⟩ ha
  have := h.2.2 (v, u) (mem_converseEL.mp ha)
  exact ⟨this.2.1, this.1, fun e => this.2.2 e.symm⟩

theorem converseEL_abs (d : EdgeList) : absEL (converseEL d) = specConverse (absEL d) := by
  rw [DG.ext_iff']
  constructor
  · intro v; simp [absEL_V, specConverse, converseEL]
  · intro u v
    rw [absEL_A, mem_converseEL]
    simp [specConverse, absEL_A]

theorem converseEL_spec (d : EdgeList) (h : d.WF) :
    (converseEL d).WF ∧ absEL (converseEL d) = specConverse (absEL d) :=
  ⟨converseEL_wf h, converseEL_abs d⟩

/-! ## union -/

/-- Adding in-range non-loop arcs never panics and is a fold of set insertions. -/
theorem foldlM_addArcEL (as : List (Nat × Nat)) (g : EdgeList)
    (h : ∀ a ∈ as, a.1 < g.order ∧ a.2 < g.order ∧ a.1 ≠ a.2) :
    as.foldlM (fun g x => g.addArc x.1 x.2) g =
      some ⟨as.foldl (fun s x => pinsert x s) g.arcs, g.order⟩ := by
  induction as generalizing g with
  | nil => simp
  | cons a as ih =>
    have ha := h a (by simp)
    simp only [List.foldlM_cons, List.foldl_cons]
    have : g.addArc a.1 a.2 = some ⟨pinsert a g.arcs, g.order⟩ := by
      unfold EdgeList.addArc
      rw [if_neg ha.2.2, if_neg (by omega), if_neg (by omega)]
    rw [this]
    simp only [Option.bind_eq_bind, Option.bind_some]
    rw [ih ⟨pinsert a g.arcs, g.order⟩ (fun x hx => h x (by simp [hx]))]

theorem unionEL_spec (a b : EdgeList) (ha : a.WF) (hb : b.WF) :
    ∃ r, unionEL a b = some r ∧ r.WF ∧ absEL r = specUnion (absEL a) (absEL b) := by
  have key : ∀ (big small : EdgeList), big.WF → small.WF → small.order ≤ big.order →
      ∃ r, small.arcs.foldlM (fun g x => g.addArc x.1 x.2) big = some r ∧ r.WF ∧
        absEL r = specUnion (absEL big) (absEL small) := by
    intro big small hbig hsmall hle
    have hval : ∀ x ∈ small.arcs, x.1 < big.order ∧ x.2 < big.order ∧ x.1 ≠ x.2 := by
      intro x hx
      have := hsmall.2.2 x hx
      exact ⟨by omega, by omega, this.2.2⟩
    refine ⟨_, foldlM_addArcEL small.arcs big hval, ⟨hbig.1, sorted_foldl_pinsert _ _ hbig.2.1, ?_⟩, ?_⟩
    · intro x hx
      rcases (mem_foldl_pinsert _ _).mp hx with hx | hx
      · exact hbig.2.2 x hx
      · exact hval x hx
    · rw [DG.ext_iff']
      constructor
      · intro v; simp only [absEL_V, specUnion]; omega
      · intro u v
        rw [absEL_A]
        simp only [specUnion, absEL_A]
        exact mem_foldl_pinsert _ _
  unfold unionEL
  by_cases hgt : a.order > b.order
  · simp only [hgt, if_true]
    exact key a b ha hb (by omega)
  · simp only [hgt, if_false]
    obtain ⟨r, h1, h2, h3⟩ := key b a hb ha (by omega)
    exact ⟨r, h1, h2, by rw [h3, specUnion_comm]⟩

end GraafVerif.Ops
