import GraafVerif.Proof.AlgoGen3Gen2
import GraafVerif.Proof.OpsSorted
import GraafVerif.Proof.AlgoGen3Ops
/-! `AlgoGen` set 3, generators, part 3: the generators whose Rust text is an iterator pipeline with a
closure that draws from the PRNG (`random_recursive_tree` / `erdos_renyi` of `AdjacencyList` and `EdgeList`);
the translator emits the loop `collect` runs (docs/AlgoGen.md, "Set 3").  Here the PRNG is the first
component of the loop state. -/
set_option linter.unusedSimpArgs false
namespace GraafVerif.AlgoGenThm
open GraafVerif GraafVerif.AlgoGen GraafVerif.Repr
open Xoshiro256StarStar (ofX)

/-- `optS` with the PRNG first -/
def optSL {σ β ρ : Type} (x' : Rand.Xo) : Option σ → Blk β ρ (AlgoGen.Xoshiro256StarStar × σ)
  | some s => .ok (ofX x', s)
  | none => .error (.err (.fault .panic))

/-- `forLoop_draws` for a state with the PRNG first -/
theorem forLoop_drawsL {σ α β ρ : Type} (P : σ → Prop) (l : List α)
    (body : AlgoGen.Xoshiro256StarStar × σ → α → Blk (AlgoGen.Xoshiro256StarStar × σ) ρ (AlgoGen.Xoshiro256StarStar × σ))
    (f : σ → α → UInt64 → Option σ)
    (hbody : ∀ s a x, a ∈ l → P s → body (ofX x, s) a = optSL x.next.2 (f s a x.next.1))
    (hP : ∀ s a w s', a ∈ l → P s → f s a w = some s' → P s') :
    ∀ (l' : List α) (s : σ) (x : Rand.Xo), (∀ a ∈ l', a ∈ l) → P s →
      (forLoop body l' (ofX x, s) : Blk β ρ _) =
        optSL (x.iter l'.length) (l'.zipIdx.foldlM (fun s ai => f s ai.1 (draws x ai.2)) s) := by
  intro l'
  induction l' with
  | nil => intro s x _ _; rfl
  | cons a l' ih =>
    intro s x hsub hs
    have ha := hsub a List.mem_cons_self
    have hb := hbody s a x ha hs
    rw [List.zipIdx_cons, List.foldlM_cons]
    have h0 : draws x 0 = x.next.1 := rfl
    simp only [h0]
    cases hf : f s a x.next.1 with
    | none =>
      rw [forLoop_cons_err (e := .fault .panic) (h := by rw [hb, hf]; rfl)]
      rfl
    | some s' =>
      rw [forLoop_cons_ok (s' := (ofX x.next.2, s')) (h := by rw [hb, hf]; rfl)]
      rw [ih s' x.next.2 (fun b hb' => hsub b (List.mem_cons_of_mem _ hb')) (hP s a _ s' ha hs hf)]
      simp only [Option.bind_eq_bind, Option.bind_some, List.length_cons, Rand.Xo.iter]
      have e1 : x.next.2.iter l'.length = (x.iter l'.length).next.2 := iter_next x _
      rw [e1]
      congr 1
      rw [show (l'.zipIdx (0 + 1)) = l'.zipIdx.map (fun p => (p.1, p.2 + 1)) from by
        rw [List.zipIdx_succ]]
      rw [List.foldlM_map]
      congr 1
      funext s2 p
      rw [draws_succ]

theorem iter_add (x : Rand.Xo) (m : Nat) : ∀ k, (x.iter m).iter k = x.iter (m + k)
  | 0 => rfl
  | k + 1 => by
    show ((x.iter m).iter k).next.2 = (x.iter (m + k)).next.2
    rw [iter_add x m k]

theorem draws_iter (x : Rand.Xo) (m i : Nat) : draws (x.iter m) i = draws x (m + i) := by
  unfold draws
  rw [iter_add]

/-- a loop whose every iteration draws exactly `m` times: iteration `i` sees the draws from `i * m` on -/
theorem forLoop_blocks {σ α β ρ : Type} (m : Nat) (l : List α)
    (body : AlgoGen.Xoshiro256StarStar × σ → α → Blk (AlgoGen.Xoshiro256StarStar × σ) ρ (AlgoGen.Xoshiro256StarStar × σ))
    (f : σ → α → Rand.Stream → σ)
    (hbody : ∀ s a x, a ∈ l → body (ofX x, s) a = .ok (ofX (x.iter m), f s a (draws x))) :
    ∀ (l' : List α) (s : σ) (x : Rand.Xo), (∀ a ∈ l', a ∈ l) →
      (forLoop body l' (ofX x, s) : Blk β ρ _) =
        .ok (ofX (x.iter (l'.length * m)), l'.zipIdx.foldl (fun s ai => f s ai.1 (fun j => draws x (ai.2 * m + j))) s) := by
  intro l'
  induction l' with
  | nil => intro s x _; simp [Rand.Xo.iter]
  | cons a l' ih =>
    intro s x hsub
    rw [forLoop_cons_ok (h := hbody s a x (hsub a List.mem_cons_self))]
    rw [ih _ _ (fun b hb => hsub b (List.mem_cons_of_mem _ hb))]
    rw [iter_add, List.zipIdx_cons, List.foldl_cons]
    have e0 : (fun j => draws x (0 * m + j)) = draws x := by funext j; simp
    rw [e0]
    have e1 : m + l'.length * m = (a :: l').length * m := by simp [Nat.succ_mul, Nat.add_comm]
    rw [e1]
    congr 2
    rw [show (l'.zipIdx (0 + 1)) = l'.zipIdx.map (fun p => (p.1, p.2 + 1)) from by rw [List.zipIdx_succ]]
    rw [List.foldl_map]
    congr 1
    funext s2 ai
    congr 1
    funext j
    rw [draws_iter, Nat.succ_mul]
    congr 1
    omega

theorem foldl_congr_all {σ α : Type} (f g : σ → α → σ) (l : List α) (s : σ) (h : ∀ s a, f s a = g s a) :
    l.foldl f s = l.foldl g s := by
  have : f = g := by funext s a; exact h s a
  rw [this]

theorem foldlM_some {σ α : Type} (g : σ → α → σ) : ∀ (l : List α) (s : σ),
    l.foldlM (fun s a => some (g s a)) s = some (l.foldl g s) := by
  intro l
  induction l with
  | nil => intro s; rfl
  | cons a l ih => intro s; rw [List.foldlM_cons]; exact ih _

theorem sel_shift (C : Nat → Bool) (b : Nat) : ∀ (c : List Nat) (k : Nat),
    (((c.zipIdx k).filter fun vi => C (b + vi.2)).map (·.1)) = (((c.zipIdx (b + k)).filter fun vi => C vi.2).map (·.1)) := by
  intro c
  induction c with
  | nil => intro k; rfl
  | cons v c ih =>
    intro k
    have := ih (k + 1)
    simp only [List.zipIdx_cons, List.filter_cons]
    cases hc : C (b + k)
    · simp only [Bool.false_eq_true, if_false]
      exact this
    · simp only [if_true, List.map_cons]
      rw [this]
      rfl

/-- `erRow` on a shifted stream -/
theorem erRow_shift (S : Rand.Stream) (p : Rand.F64) (b : Nat) (c : List Nat) (k : Nat) :
    Rand.erRow (fun j => S (b + j)) p k c = Rand.erRow S p (b + k) c :=
  sel_shift (fun i => Rand.f64lt (S i) p) b c k

/-- a loop over candidates, one draw each, that updates the state with `g` for the selected ones -/
theorem forLoop_select {σ β ρ : Type} (p : Rand.F64) (g : σ → Nat → σ)
    (body : AlgoGen.Xoshiro256StarStar × σ → Nat → Blk (AlgoGen.Xoshiro256StarStar × σ) ρ (AlgoGen.Xoshiro256StarStar × σ))
    (hbody : ∀ s v x, body (ofX x, s) v = .ok (ofX x.next.2, if Rand.f64lt x.next.1 p then g s v else s))
    (c : List Nat) (s : σ) (x : Rand.Xo) :
    (forLoop body c (ofX x, s) : Blk β ρ _) = .ok (ofX (x.iter c.length), (Rand.erRow (draws x) p 0 c).foldl g s) := by
  rw [forLoop_drawsL (β := β) (fun _ => True) c body (fun s v w => some (if Rand.f64lt w p then g s v else s))
    (fun s v x _ _ => hbody s v x) (fun _ _ _ _ _ _ _ => trivial) c s x (fun _ h => h) trivial]
  have h1 : (fun (s : σ) (ai : Nat × Nat) => some (if Rand.f64lt (draws x ai.2) p then g s ai.1 else s)) =
      (fun s ai => if (fun i => Rand.f64lt (draws x i) p) ai.2 then (fun s a => some (g s a)) s ai.1 else some s) := by
    funext s ai
    by_cases hc : Rand.f64lt (draws x ai.2) p = true <;> simp [hc]
  have h2 := AdjacencyMatrix.foldlM_cond_filter (fun i => Rand.f64lt (draws x i) p) (fun (s : σ) (a : Nat) => some (g s a))
    c.zipIdx s
  rw [h1, h2, foldlM_some]
  rfl

theorem erRow_sublist (S : Rand.Stream) (p : Rand.F64) (b : Nat) (c : List Nat) : (Rand.erRow S p b c).Sublist c := by
  unfold Rand.erRow
  have h1 : ((c.zipIdx b).filter fun vi => Rand.f64lt (S vi.2) p).Sublist (c.zipIdx b) := List.filter_sublist
  have h2 := h1.map (·.1)
  have h3 : (c.zipIdx b).map (·.1) = c := by
    induction c generalizing b with
    | nil => rfl
    | cons v c ih => simp [List.zipIdx_cons, ih]
  rw [h3] at h2
  exact h2

theorem othersChain_sorted (n u : Nat) : SortedS (Rand.othersChain n u) := by
  unfold SortedS Rand.othersChain
  rw [List.pairwise_append]
  refine ⟨List.pairwise_lt_range, List.pairwise_lt_range', ?_⟩
  intro a ha b hb
  have := List.mem_range.1 ha
  have := (List.mem_range'_1.1 hb).1
  omega

theorem toSet_erRow (S : Rand.Stream) (p : Rand.F64) (b n u : Nat) :
    (Rand.erRow S p b (Rand.othersChain n u)).foldl (fun s v => sinsert v s) [] = Rand.erRow S p b (Rand.othersChain n u) := by
  have hs : SortedS (Rand.erRow S p b (Rand.othersChain n u)) :=
    List.Pairwise.sublist (erRow_sublist S p b _) (othersChain_sorted n u)
  exact Ops.toSet_of_sorted hs

theorem othersChain_length (n u : Nat) (hu : u < n) : (Rand.othersChain n u).length = n - 1 := by
  unfold Rand.othersChain
  simp
  omega

theorem zipIdx_range (n : Nat) : (List.range n).zipIdx = (List.range n).map (fun u => (u, u)) := by
  rw [List.range_eq_range', zipIdx_range']
  simp

/-! ## `random_recursive_tree` of `AdjacencyList` and `EdgeList` -/

namespace AdjacencyList

/-- vertex `u`: a draw `w`, then the row `{w % u}` is pushed (`% 0` panics) -/
def rstep (acc : List (List Nat)) (u : Nat) (w : UInt64) : Option (List (List Nat)) :=
  if u = 0 then none else some (acc ++ [[w.toNat % u]])

/-- the item of `once(BTreeSet::new())` is pushed -/
theorem randomRecursiveTree_for0_eq (acc : List (List Nat)) (row : List Nat) :
    (AlgoGen.AdjacencyList.randomRecursiveTree_for0 acc row : Blk (List (List Nat)) AdjList _) = .ok (acc ++ [row]) := rfl

theorem randomRecursiveTree_for1_eq (acc : List (List Nat)) (x : Rand.Xo) (u : Nat) :
    (AlgoGen.AdjacencyList.randomRecursiveTree_for1 (ofX x, acc) u : Blk _ AdjList _) =
      optSL x.next.2 (rstep acc u x.next.1) := by
  unfold AlgoGen.AdjacencyList.randomRecursiveTree_for1 rstep modP
  simp only [Xoshiro256StarStar.next_eq, call_ok, ok_bind, unwrapO]
  by_cases hu : u = 0
  · simp only [hu, if_true]; rfl
  · simp only [hu, if_false, ok_bind]; rfl

theorem rstep_fold (S : Rand.Stream) : ∀ (M : List (Nat × Nat)), (∀ ai ∈ M, ai.1 ≠ 0) → ∀ acc,
    M.foldlM (fun s ai => rstep s ai.1 (S ai.2)) acc = some (acc ++ M.map fun ai => [(S ai.2).toNat % ai.1]) := by
  intro M
  induction M with
  | nil => intro _ acc; simp
  | cons a M ih =>
    intro h acc
    have ha : a.1 ≠ 0 := h a List.mem_cons_self
    have hstep : rstep acc a.1 (S a.2) = some (acc ++ [[(S a.2).toNat % a.1]]) := by simp [rstep, ha]
    rw [List.foldlM_cons, hstep]
    simp only [Option.bind_eq_bind, Option.bind_some]
    rw [ih (fun b hb => h b (List.mem_cons_of_mem _ hb))]
    simp

/-- `AdjacencyList::random_recursive_tree(order, seed)` = the hand-written `rrtAL` on the stream of
`Xoshiro256StarStar::new(seed)`, for every order and seed. -/
theorem randomRecursiveTree_eq (n : Nat) (seed : UInt64) :
    AlgoGen.AdjacencyList.randomRecursiveTree n seed = optR (Rand.rrtAL (Rand.xoStream seed) n) := by
  unfold AlgoGen.AdjacencyList.randomRecursiveTree Rand.rrtAL
  by_cases h0 : n = 0
  · subst h0; rfl
  · have hpos : n > 0 := Nat.pos_of_ne_zero h0
    by_cases h1 : n = 1
    · subst h1; rfl
    · simp only [hpos, h0, h1, decide_true, assert_true, ok_bind, if_false, Xoshiro256StarStar.new_eq, call_ok]
      have hfirst : (forLoop AlgoGen.AdjacencyList.randomRecursiveTree_for0 [([] : List Nat)] ([] : List (List Nat)) :
          Blk Empty AdjList _) = .ok [[]] := rfl
      rw [hfirst]
      simp only [ok_bind]
      rw [forLoop_drawsL (β := Empty) (fun _ => True) (AlgoGen.range 1 n) _ rstep
        (fun acc u x _ _ => randomRecursiveTree_for1_eq acc x u) (fun _ _ _ _ _ _ _ => trivial)
        (AlgoGen.range 1 n) [[]] _ (fun _ h => h) trivial, draws_new]
      have hM : ∀ ai ∈ (AlgoGen.range 1 n).zipIdx, ai.1 ≠ 0 := by
        intro ai hai
        have := List.mem_zipIdx hai
        unfold AlgoGen.range at this
        have := this.2.2
        rw [List.getElem_range'] at this
        omega
      rw [rstep_fold _ _ hM]
      simp only [optSL, ok_bind, pure_eq_ok, fnBody_ok, optR]
      congr 2
      unfold Rand.rrtParents AlgoGen.range
      rw [zipIdx_range', List.map_map, List.map_map]
      rfl

end AdjacencyList

namespace EdgeList

/-- vertex `u`: a draw `w`, then the arc `(u, w % u)` is inserted (`% 0` panics) -/
def rstep (acc : List (Nat × Nat)) (u : Nat) (w : UInt64) : Option (List (Nat × Nat)) :=
  if u = 0 then none else some (pinsert (u, w.toNat % u) acc)

theorem randomRecursiveTree_for0_eq (acc : List (Nat × Nat)) (x : Rand.Xo) (u : Nat) :
    (AlgoGen.EdgeList.randomRecursiveTree_for0 (ofX x, acc) u : Blk _ Repr.EdgeList _) =
      optSL x.next.2 (rstep acc u x.next.1) := by
  unfold AlgoGen.EdgeList.randomRecursiveTree_for0 rstep modP
  simp only [Xoshiro256StarStar.next_eq, call_ok, ok_bind, unwrapO]
  by_cases hu : u = 0
  · simp only [hu, if_true]; rfl
  · simp only [hu, if_false, ok_bind]; rfl

theorem rstep_fold (S : Rand.Stream) : ∀ (M : List (Nat × Nat)), (∀ ai ∈ M, ai.1 ≠ 0) → ∀ acc,
    M.foldlM (fun s ai => rstep s ai.1 (S ai.2)) acc =
      some (M.foldl (fun s ai => pinsert (ai.1, (S ai.2).toNat % ai.1) s) acc) := by
  intro M
  induction M with
  | nil => intro _ acc; rfl
  | cons a M ih =>
    intro h acc
    have ha : a.1 ≠ 0 := h a List.mem_cons_self
    have hstep : rstep acc a.1 (S a.2) = some (pinsert (a.1, (S a.2).toNat % a.1) acc) := by simp [rstep, ha]
    rw [List.foldlM_cons, hstep]
    simp only [Option.bind_eq_bind, Option.bind_some]
    rw [ih (fun b hb => h b (List.mem_cons_of_mem _ hb))]
    rfl

/-- `EdgeList::random_recursive_tree(order, seed)` = the hand-written `rrtEL` on the stream of
`Xoshiro256StarStar::new(seed)`, for every order and seed. -/
theorem randomRecursiveTree_eq (n : Nat) (seed : UInt64) :
    AlgoGen.EdgeList.randomRecursiveTree n seed = optR (Rand.rrtEL (Rand.xoStream seed) n) := by
  unfold AlgoGen.EdgeList.randomRecursiveTree Rand.rrtEL
  by_cases h0 : n = 0
  · subst h0; rfl
  · have hpos : n > 0 := Nat.pos_of_ne_zero h0
    by_cases h1 : n = 1
    · subst h1; rfl
    · simp only [hpos, h0, h1, decide_true, assert_true, ok_bind, if_false, Xoshiro256StarStar.new_eq, call_ok]
      rw [forLoop_drawsL (β := Empty) (fun _ => True) (AlgoGen.range 1 n) _ rstep
        (fun acc u x _ _ => randomRecursiveTree_for0_eq acc x u) (fun _ _ _ _ _ _ _ => trivial)
        (AlgoGen.range 1 n) [] _ (fun _ h => h) trivial, draws_new]
      have hM : ∀ ai ∈ (AlgoGen.range 1 n).zipIdx, ai.1 ≠ 0 := by
        intro ai hai
        have := List.mem_zipIdx hai
        unfold AlgoGen.range at this
        have := this.2.2
        rw [List.getElem_range'] at this
        omega
      rw [rstep_fold _ _ hM]
      simp only [optSL, ok_bind, pure_eq_ok, fnBody_ok, optR]
      congr 2
      unfold Rand.rrtParents AlgoGen.range Rand.collectSet
      rw [zipIdx_range', List.foldl_map, List.foldl_map]
      rfl

end EdgeList

namespace AdjacencyMap

/-- vertex `u`: a draw `w`, then the entry `u ↦ {w % u}` is inserted (`% 0` panics) -/
def rstep (acc : List (Nat × List Nat)) (u : Nat) (w : UInt64) : Option (List (Nat × List Nat)) :=
  if u = 0 then none else some (Ops.minsert u [w.toNat % u] acc)

/-- the item of `once((0, BTreeSet::new()))` is inserted -/
theorem randomRecursiveTree_for0_eq (acc : List (Nat × List Nat)) (it : Nat × List Nat) :
    (AlgoGen.AdjacencyMap.randomRecursiveTree_for0 acc it : Blk (List (Nat × List Nat)) AdjMap _) =
      .ok (Ops.minsert it.1 it.2 acc) := rfl

/-- `rng.next()` never returns `None`: the `unwrap_unchecked` is not UB -/
theorem randomRecursiveTree_for1_eq (acc : List (Nat × List Nat)) (x : Rand.Xo) (u : Nat) :
    (AlgoGen.AdjacencyMap.randomRecursiveTree_for1 (ofX x, acc) u : Blk _ AdjMap _) =
      optSL x.next.2 (rstep acc u x.next.1) := by
  unfold AlgoGen.AdjacencyMap.randomRecursiveTree_for1 rstep modP
  simp only [Xoshiro256StarStar.next_eq, call_ok, ok_bind, unwrapU]
  by_cases hu : u = 0
  · simp only [hu, if_true]; rfl
  · simp only [hu, if_false, ok_bind]; rfl

theorem rstep_fold (S : Rand.Stream) : ∀ (M : List (Nat × Nat)), (∀ ai ∈ M, ai.1 ≠ 0) → ∀ acc,
    M.foldlM (fun s ai => rstep s ai.1 (S ai.2)) acc =
      some (M.foldl (fun s ai => Ops.minsert ai.1 [(S ai.2).toNat % ai.1] s) acc) := by
  intro M
  induction M with
  | nil => intro _ acc; rfl
  | cons a M ih =>
    intro h acc
    have ha : a.1 ≠ 0 := h a List.mem_cons_self
    have hstep : rstep acc a.1 (S a.2) = some (Ops.minsert a.1 [(S a.2).toNat % a.1] acc) := by simp [rstep, ha]
    rw [List.foldlM_cons, hstep]
    simp only [Option.bind_eq_bind, Option.bind_some]
    rw [ih (fun b hb => h b (List.mem_cons_of_mem _ hb))]
    rfl

/-- `AdjacencyMap::random_recursive_tree(order, seed)` = the hand-written `rrtAM` on the stream of
`Xoshiro256StarStar::new(seed)`, for every order and seed. -/
theorem randomRecursiveTree_eq (n : Nat) (seed : UInt64) :
    AlgoGen.AdjacencyMap.randomRecursiveTree n seed = optR (Rand.rrtAM (Rand.xoStream seed) n) := by
  unfold AlgoGen.AdjacencyMap.randomRecursiveTree Rand.rrtAM
  by_cases h0 : n = 0
  · subst h0; rfl
  · have hpos : n > 0 := Nat.pos_of_ne_zero h0
    by_cases h1 : n = 1
    · subst h1; rfl
    · simp only [hpos, h0, h1, decide_true, assert_true, ok_bind, if_false, Xoshiro256StarStar.new_eq, call_ok]
      have hfirst : (forLoop AlgoGen.AdjacencyMap.randomRecursiveTree_for0 [(0, ([] : List Nat))] ([] : List (Nat × List Nat)) :
          Blk Empty AdjMap _) = .ok (Ops.minsert 0 [] []) := rfl
      rw [hfirst]
      simp only [ok_bind]
      rw [forLoop_drawsL (β := Empty) (fun _ => True) (AlgoGen.range 1 n) _ rstep
        (fun acc u x _ _ => randomRecursiveTree_for1_eq acc x u) (fun _ _ _ _ _ _ _ => trivial)
        (AlgoGen.range 1 n) _ _ (fun _ h => h) trivial, draws_new]
      have hM : ∀ ai ∈ (AlgoGen.range 1 n).zipIdx, ai.1 ≠ 0 := by
        intro ai hai
        have := List.mem_zipIdx hai
        unfold AlgoGen.range at this
        have := this.2.2
        rw [List.getElem_range'] at this
        omega
      rw [rstep_fold _ _ hM]
      simp only [optSL, ok_bind, pure_eq_ok, fnBody_ok, optR]
      congr 2
      unfold Rand.rrtParents AlgoGen.range Rand.collectMap
      rw [List.foldl_cons, zipIdx_range', List.foldl_map, List.map_map, List.foldl_map]
      rfl

end AdjacencyMap

/-! ## `erdos_renyi` of `AdjacencyList` and `EdgeList` -/

namespace AdjacencyList

theorem erdosRenyi_for1_eq (p : Rand.F64) (acc : List Nat) (x : Rand.Xo) (v : Nat) :
    (AlgoGen.AdjacencyList.erdosRenyi_for1 p (ofX x, acc) v : Blk _ AdjList _) =
      .ok (ofX x.next.2, if Rand.f64lt x.next.1 p then sinsert v acc else acc) := by
  unfold AlgoGen.AdjacencyList.erdosRenyi_for1
  simp only [Xoshiro256StarStar.nextF64_eq, call_ok, ok_bind, AdjacencyMatrix.f64ltM_mant]
  by_cases hb : Rand.f64lt (Rand.Xo.next x).1 p = true
  · simp only [hb, if_true]; rfl
  · simp only [hb, if_false, Bool.false_eq_true]; rfl

/-- row `u`: `n - 1` draws, the selected candidates collected into a set (they are ascending) -/
theorem erdosRenyi_for0_eq (n : Nat) (p : Rand.F64) (acc : List (List Nat)) (x : Rand.Xo) (u : Nat) (hu : u < n) :
    (AlgoGen.AdjacencyList.erdosRenyi_for0 n p (ofX x, acc) u : Blk _ AdjList _) =
      .ok (ofX (x.iter (n - 1)), acc ++ [Rand.erRow (draws x) p 0 (Rand.othersChain n u)]) := by
  unfold AlgoGen.AdjacencyList.erdosRenyi_for0
  dsimp only
  have hc : (List.range u ++ AlgoGen.range (u + 1) n) = Rand.othersChain n u := rfl
  rw [hc, forLoop_select (β := AlgoGen.Xoshiro256StarStar × List (List Nat)) p (fun s v => sinsert v s) _
    (fun s v x => erdosRenyi_for1_eq p s x v)]
  rw [othersChain_length n u hu, toSet_erRow]
  rfl

/-- `AdjacencyList::erdos_renyi(order, p, seed)` = the hand-written `erAL` on the stream of
`Xoshiro256StarStar::new(seed)`, for every order, every `f64` value `p` and every seed. -/
theorem erdosRenyi_eq (n : Nat) (p : Rand.F64) (seed : UInt64) :
    AlgoGen.AdjacencyList.erdosRenyi n p seed = optR (Rand.erAL (Rand.xoStream seed) n p) := by
  unfold AlgoGen.AdjacencyList.erdosRenyi Rand.erAL
  by_cases h0 : n = 0
  · subst h0; rfl
  · have hpos : n > 0 := Nat.pos_of_ne_zero h0
    by_cases hp : p.inUnit = true
    · by_cases h1 : n = 1
      · subst h1; simp [hp, optR]; rfl
      · simp only [hpos, h0, h1, hp, decide_true, assert_true, ok_bind, if_false, Bool.not_true, Bool.false_eq_true,
          Xoshiro256StarStar.new_eq, call_ok]
        rw [forLoop_blocks (β := Empty) (n - 1) (List.range n) _
          (fun (acc : List (List Nat)) u S => acc ++ [Rand.erRow S p 0 (Rand.othersChain n u)])
          (fun acc u x hu => erdosRenyi_for0_eq n p acc x u (List.mem_range.1 hu))
          (List.range n) [] _ (fun _ h => h), draws_new]
        simp only [ok_bind, pure_eq_ok, fnBody_ok, optR]
        congr 2
        unfold Rand.erRows
        rw [zipIdx_range, List.foldl_map]
        have hgen : ∀ (l : List Nat) (acc : List (List Nat)),
            l.foldl (fun s u => s ++ [Rand.erRow (fun j => Rand.xoStream seed (u * (n - 1) + j)) p 0 (Rand.othersChain n u)]) acc =
              acc ++ l.map (fun u => Rand.erRow (Rand.xoStream seed) p (u * (n - 1)) (Rand.othersChain n u)) := by
          intro l
          induction l with
          | nil => intro acc; simp
          | cons u l ih =>
            intro acc
            rw [List.foldl_cons, ih, erRow_shift]
            simp
        exact hgen _ _
    · have hp' : p.inUnit = false := by simpa using hp
      simp only [hpos, hp', decide_true, assert_true, assert_false, ok_bind, h0, if_false, Bool.not_false, if_true]
      rfl

end AdjacencyList

namespace EdgeList

theorem erdosRenyi_for2_eq (p : Rand.F64) (u : Nat) (acc : List (Nat × Nat)) (x : Rand.Xo) (v : Nat) :
    (AlgoGen.EdgeList.erdosRenyi_for2 p u (ofX x, acc) v : Blk _ Repr.EdgeList _) =
      .ok (ofX x.next.2, if Rand.f64lt x.next.1 p then acc ++ [(u, v)] else acc) := by
  unfold AlgoGen.EdgeList.erdosRenyi_for2
  simp only [Xoshiro256StarStar.nextF64_eq, call_ok, ok_bind, AdjacencyMatrix.f64ltM_mant]
  by_cases hb : Rand.f64lt (Rand.Xo.next x).1 p = true
  · simp only [hb, if_true]; rfl
  · simp only [hb, if_false, Bool.false_eq_true]; rfl

/-- an item of the row's `Vec` is inserted into the arc set -/
theorem erdosRenyi_for1_eq (acc : List (Nat × Nat)) (a : Nat × Nat) :
    (AlgoGen.EdgeList.erdosRenyi_for1 acc a : Blk (List (Nat × Nat)) Repr.EdgeList _) = .ok (pinsert a acc) := rfl

theorem foldl_snoc_pairs (u : Nat) : ∀ (l : List Nat) (acc : List (Nat × Nat)),
    l.foldl (fun s v => s ++ [(u, v)]) acc = acc ++ l.map fun v => (u, v) := by
  intro l
  induction l with
  | nil => intro acc; simp
  | cons v l ih => intro acc; rw [List.foldl_cons, ih]; simp

/-- row `u`: `n - 1` draws, the selected arcs collected into a `Vec`, then inserted one by one -/
theorem erdosRenyi_for0_eq (n : Nat) (p : Rand.F64) (acc : List (Nat × Nat)) (x : Rand.Xo) (u : Nat) (hu : u < n) :
    (AlgoGen.EdgeList.erdosRenyi_for0 n p (ofX x, acc) u : Blk _ Repr.EdgeList _) =
      .ok (ofX (x.iter (n - 1)),
        ((Rand.erRow (draws x) p 0 (Rand.othersChain n u)).map fun v => (u, v)).foldl (fun s a => pinsert a s) acc) := by
  unfold AlgoGen.EdgeList.erdosRenyi_for0
  dsimp only
  have hc : (List.range u ++ AlgoGen.range (u + 1) n) = Rand.othersChain n u := rfl
  rw [hc, forLoop_select (β := AlgoGen.Xoshiro256StarStar × List (Nat × Nat)) p (fun s v => s ++ [(u, v)]) _
    (fun s v x => erdosRenyi_for2_eq p u s x v)]
  rw [othersChain_length n u hu, foldl_snoc_pairs]
  simp only [ok_bind, List.nil_append]
  rw [forLoop_pure (β := AlgoGen.Xoshiro256StarStar × List (Nat × Nat)) AlgoGen.EdgeList.erdosRenyi_for1 (fun s a => pinsert a s) erdosRenyi_for1_eq]
  rfl

/-- `EdgeList::erdos_renyi(order, p, seed)` = the hand-written `erEL` on the stream of
`Xoshiro256StarStar::new(seed)`, for every order, every `f64` value `p` and every seed. -/
theorem erdosRenyi_eq (n : Nat) (p : Rand.F64) (seed : UInt64) :
    AlgoGen.EdgeList.erdosRenyi n p seed = optR (Rand.erEL (Rand.xoStream seed) n p) := by
  unfold AlgoGen.EdgeList.erdosRenyi Rand.erEL
  by_cases h0 : n = 0
  · subst h0; rfl
  · have hpos : n > 0 := Nat.pos_of_ne_zero h0
    by_cases hp : p.inUnit = true
    · simp only [hpos, h0, hp, decide_true, assert_true, ok_bind, if_false, Bool.not_true, Bool.false_eq_true,
        Xoshiro256StarStar.new_eq, call_ok]
      rw [forLoop_blocks (β := Empty) (n - 1) (List.range n) _
        (fun (acc : List (Nat × Nat)) u S =>
          ((Rand.erRow S p 0 (Rand.othersChain n u)).map fun v => (u, v)).foldl (fun s a => pinsert a s) acc)
        (fun acc u x hu => erdosRenyi_for0_eq n p acc x u (List.mem_range.1 hu))
        (List.range n) [] _ (fun _ h => h), draws_new]
      simp only [ok_bind, pure_eq_ok, fnBody_ok, optR]
      congr 2
      unfold Rand.collectSet Rand.erArcs
      rw [zipIdx_range, List.foldl_map, foldl_flatMap]
      apply foldl_congr_all
      intro acc u
      dsimp only
      rw [erRow_shift, Nat.add_zero]
    · have hp' : p.inUnit = false := by simpa using hp
      simp only [hpos, hp', decide_true, assert_true, assert_false, ok_bind, h0, if_false, Bool.not_false, if_true]
      rfl

end EdgeList

end GraafVerif.AlgoGenThm
