import GraafVerif.Proof.OpsAM
import GraafVerif.Proof.OpsMerge
/-!
# `AdjacencyMap::union`: the result does not depend on the thread count (`mapUnion_spec`)

Semantics of an entry list (sorted or not, duplicate keys allowed): `KM l k` = "`k` is a key",
`RM l k v` = "`v` is in some set stored under `k`".  The per-thread merges, the concatenation,
the sort and the duplicate-key fold all preserve `KM`/`RM`; the fold output is strictly
key-sorted with sorted sets, hence equal to the single merge `mergeEntries lhs rhs`, wherever
the partition boundaries fall (only `boundaries[0] = (0,0)` and `boundaries[t] = (n1,n2)` are used).
-/
namespace GraafVerif.Ops
open GraafVerif.Repr

def KM (l : List Entry) (k : Nat) : Prop := ∃ s, (k, s) ∈ l
def RM (l : List Entry) (k v : Nat) : Prop := ∃ s, (k, s) ∈ l ∧ v ∈ s
def RowsSorted (l : List Entry) : Prop := ∀ e ∈ l, SortedS e.2

@[simp] theorem KM_nil (k : Nat) : KM [] k ↔ False := by simp [KM]
@[simp] theorem RM_nil (k v : Nat) : RM [] k v ↔ False := by simp [RM]

theorem KM_cons {e : Entry} {l : List Entry} {k : Nat} : KM (e :: l) k ↔ e.1 = k ∨ KM l k := by
  obtain ⟨k0, s0⟩ := e
  simp only [KM, List.mem_cons, Prod.mk.injEq]
  constructor
  · rintro ⟨s, (⟨rfl, rfl⟩ | h)⟩
    · exact Or.inl rfl
    · exact Or.inr ⟨s, h⟩
  · rintro (rfl | ⟨s, h⟩)
    · exact ⟨s0, Or.inl ⟨rfl, rfl⟩⟩
    · exact ⟨s, Or.inr h⟩

theorem RM_cons {e : Entry} {l : List Entry} {k v : Nat} :
    RM (e :: l) k v ↔ (e.1 = k ∧ v ∈ e.2) ∨ RM l k v := by
  obtain ⟨k0, s0⟩ := e
  simp only [RM, List.mem_cons, Prod.mk.injEq]
  constructor
  · rintro ⟨s, (⟨rfl, rfl⟩ | h), hv⟩
    · exact Or.inl ⟨rfl, hv⟩
    · exact Or.inr ⟨s, h, hv⟩
  · rintro (⟨rfl, hv⟩ | ⟨s, h, hv⟩)
    · exact ⟨s0, Or.inl ⟨rfl, rfl⟩, hv⟩
    · exact ⟨s, Or.inr h, hv⟩

theorem KM_append {l r : List Entry} {k : Nat} : KM (l ++ r) k ↔ KM l k ∨ KM r k := by
  simp only [KM, List.mem_append]
  constructor
  · rintro ⟨s, h | h⟩
    · exact Or.inl ⟨s, h⟩
    · exact Or.inr ⟨s, h⟩
  · rintro (⟨s, h⟩ | ⟨s, h⟩)
    · exact ⟨s, Or.inl h⟩
    · exact ⟨s, Or.inr h⟩

theorem KM_of_mem_iff {l r : List Entry} (h : ∀ e, e ∈ l ↔ e ∈ r) (k : Nat) : KM l k ↔ KM r k := by
  simp only [KM, h]

theorem RM_of_mem_iff {l r : List Entry} (h : ∀ e, e ∈ l ↔ e ∈ r) (k v : Nat) : RM l k v ↔ RM r k v := by
  simp only [RM, h]

theorem RowsSorted_cons {e : Entry} {l : List Entry} : RowsSorted (e :: l) ↔ SortedS e.2 ∧ RowsSorted l := by
  simp [RowsSorted]

/-- A key-sorted list stores one set per key. -/
theorem sortedK_unique {l : List Entry} (h : SortedK l) {k : Nat} {s s' : List Nat}
    (h1 : (k, s) ∈ l) (h2 : (k, s') ∈ l) : s = s' := by
  have a := (mget_eq_some_iff h).mpr h1
  have b := (mget_eq_some_iff h).mpr h2
  rw [a] at b
  exact Option.some.inj b

/-- Two strictly key-sorted entry lists with sorted sets and the same semantics are equal. -/
theorem entries_ext {a b : List Entry} (ha : SortedK a) (hb : SortedK b) (ra : RowsSorted a)
    (rb : RowsSorted b) (hk : ∀ k, KM a k ↔ KM b k) (hr : ∀ k v, RM a k v ↔ RM b k v) : a = b := by
  have key : ∀ {a b : List Entry}, SortedK a → SortedK b → RowsSorted a → RowsSorted b →
      (∀ k, KM a k ↔ KM b k) → (∀ k v, RM a k v ↔ RM b k v) → ∀ e, e ∈ a → e ∈ b := by
    intro a b ha hb ra rb hk hr e he
    obtain ⟨k, s⟩ := e
    obtain ⟨s', hs'⟩ := (hk k).mp ⟨s, he⟩
    have : s = s' := by
      apply SortedS.ext (ra _ he) (rb _ hs')
      intro v
      constructor
      · intro hv
        obtain ⟨s'', h1, h2⟩ := (hr k v).mp ⟨s, he, hv⟩
        rw [sortedK_unique hb hs' h1]; exact h2
      · intro hv
        obtain ⟨s'', h1, h2⟩ := (hr k v).mpr ⟨s', hs', hv⟩
        rw [sortedK_unique ha he h1]; exact h2
    rw [this]; exact hs'
  apply SortedK.ext ha hb
  intro e
  exact ⟨key ha hb ra rb hk hr e, key hb ha rb ra (fun k => (hk k).symm) (fun k v => (hr k v).symm) e⟩

/-! ## The per-thread merge -/

theorem mergeEntriesFuel_sem : ∀ (fuel : Nat) (l r : List Entry), l.length + r.length ≤ fuel →
    (∀ k, KM (mergeEntriesFuel fuel l r) k ↔ KM l k ∨ KM r k) ∧
    (∀ k v, RM (mergeEntriesFuel fuel l r) k v ↔ RM l k v ∨ RM r k v) := by
  intro fuel
  induction fuel with
  | zero =>
    intro l r h
    have hl : l = [] := List.eq_nil_of_length_eq_zero (by omega)
    have hr : r = [] := List.eq_nil_of_length_eq_zero (by omega)
    subst hl; subst hr; simp [mergeEntriesFuel]
  | succ f ih =>
    intro l r h
    match l, r with
    | [], r => simp [mergeEntriesFuel]
    | a :: l, [] => simp [mergeEntriesFuel]
    | a :: l, b :: r =>
      simp only [List.length_cons] at h
      unfold mergeEntriesFuel
      split
      · obtain ⟨h1, h2⟩ := ih l (b :: r) (by simp; omega)
        constructor
        · intro k; rw [KM_cons, h1, KM_cons (e := a)]; simp only [or_assoc]
        · intro k v; rw [RM_cons, h2, RM_cons (e := a)]; simp only [or_assoc]
      · split
        · obtain ⟨h1, h2⟩ := ih (a :: l) r (by simp; omega)
          constructor
          · intro k; rw [KM_cons, h1, KM_cons (e := b) (l := r)]; simp only [or_left_comm]
          · intro k v; rw [RM_cons, h2, RM_cons (e := b) (l := r)]; simp only [or_left_comm]
        · have hab : a.1 = b.1 := by omega
          obtain ⟨h1, h2⟩ := ih l r (by omega)
          constructor
          · intro k
            rw [KM_cons, h1, KM_cons (e := a), KM_cons (e := b)]
            simp only [hab]
            constructor
            · rintro (h | h | h)
              · exact Or.inl (Or.inl h)
              · exact Or.inl (Or.inr h)
              · exact Or.inr (Or.inr h)
            · rintro ((h | h) | (h | h))
              · exact Or.inl h
              · exact Or.inr (Or.inl h)
              · exact Or.inl h
              · exact Or.inr (Or.inr h)
          · intro k v
            rw [RM_cons, h2, RM_cons (e := a), RM_cons (e := b)]
            simp only [hab, mem_unionSets]
            constructor
            · rintro (⟨h, hv | hv⟩ | h | h)
              · exact Or.inl (Or.inl ⟨h, hv⟩)
              · exact Or.inr (Or.inl ⟨h, hv⟩)
              · exact Or.inl (Or.inr h)
              · exact Or.inr (Or.inr h)
            · rintro ((⟨h, hv⟩ | h) | (⟨h, hv⟩ | h))
              · exact Or.inl ⟨h, Or.inl hv⟩
              · exact Or.inr (Or.inl h)
              · exact Or.inl ⟨h, Or.inr hv⟩
              · exact Or.inr (Or.inr h)

theorem KM_lt_of_sorted {a : Entry} {l : List Entry} (h : SortedK (a :: l)) {k : Nat} (hk : KM l k) :
    a.1 < k := by
  unfold SortedK at h
  rw [List.pairwise_cons] at h
  obtain ⟨s, hs⟩ := hk
  exact h.1 _ hs

theorem sortedK_cons_of {a : Entry} {l : List Entry} (hl : SortedK l) (h : ∀ k, KM l k → a.1 < k) :
    SortedK (a :: l) := by
  unfold SortedK
  rw [List.pairwise_cons]
  exact ⟨fun e he => h e.1 ⟨e.2, he⟩, hl⟩

theorem mergeEntriesFuel_sorted : ∀ (fuel : Nat) (l r : List Entry), l.length + r.length ≤ fuel →
    SortedK l → SortedK r → RowsSorted l → RowsSorted r →
    SortedK (mergeEntriesFuel fuel l r) ∧ RowsSorted (mergeEntriesFuel fuel l r) := by
  intro fuel
  induction fuel with
  | zero => intro l r _ _ _ _ _; simp [mergeEntriesFuel, SortedK, RowsSorted]
  | succ f ih =>
    intro l r h hl hr rl rr
    match l, r with
    | [], r => simpa [mergeEntriesFuel] using ⟨hr, rr⟩
    | a :: l, [] => simpa [mergeEntriesFuel] using ⟨hl, rl⟩
    | a :: l, b :: r =>
      simp only [List.length_cons] at h
      have hl2 : SortedK l := by unfold SortedK at hl ⊢; exact (List.pairwise_cons.mp hl).2
      have hr2 : SortedK r := by unfold SortedK at hr ⊢; exact (List.pairwise_cons.mp hr).2
      have rl2 := (RowsSorted_cons.mp rl)
      have rr2 := (RowsSorted_cons.mp rr)
      unfold mergeEntriesFuel
      split
      · rename_i hab
        obtain ⟨h1, h2⟩ := ih l (b :: r) (by simp; omega) hl2 hr rl2.2 rr
        refine ⟨sortedK_cons_of h1 ?_, RowsSorted_cons.mpr ⟨rl2.1, h2⟩⟩
        intro k hk
        rcases ((mergeEntriesFuel_sem f l (b :: r) (by simp; omega)).1 k).mp hk with hk | hk
        · exact KM_lt_of_sorted hl hk
        · rcases KM_cons.mp hk with e | hk
          · omega
          · have := KM_lt_of_sorted hr hk; omega
      · split
        · rename_i h1' hba
          obtain ⟨h1, h2⟩ := ih (a :: l) r (by simp; omega) hl hr2 rl rr2.2
          refine ⟨sortedK_cons_of h1 ?_, RowsSorted_cons.mpr ⟨rr2.1, h2⟩⟩
          intro k hk
          rcases ((mergeEntriesFuel_sem f (a :: l) r (by simp; omega)).1 k).mp hk with hk | hk
          · rcases KM_cons.mp hk with e | hk
            · omega
            · have := KM_lt_of_sorted hl hk; omega
          · exact KM_lt_of_sorted hr hk
        · have hab : a.1 = b.1 := by omega
          obtain ⟨h1, h2⟩ := ih l r (by omega) hl2 hr2 rl2.2 rr2.2
          refine ⟨sortedK_cons_of h1 ?_, RowsSorted_cons.mpr ⟨sorted_unionSets _ _, h2⟩⟩
          intro k hk
          rcases ((mergeEntriesFuel_sem f l r (by omega)).1 k).mp hk with hk | hk
          · exact KM_lt_of_sorted hl hk
          · have := KM_lt_of_sorted hr hk
            simp only []; omega

/-- Fuel adequacy of the per-thread merge loop. -/
theorem mergeEntriesFuel_adequate : ∀ (fuel : Nat) (l r : List Entry), l.length + r.length ≤ fuel →
    mergeEntriesFuel fuel l r = mergeEntries l r := by
  have key : ∀ (f1 f2 : Nat) (l r : List Entry), l.length + r.length ≤ f1 → l.length + r.length ≤ f2 →
      mergeEntriesFuel f1 l r = mergeEntriesFuel f2 l r := by
    intro f1
    induction f1 with
    | zero =>
      intro f2 l r h1 _
      have hl : l = [] := List.eq_nil_of_length_eq_zero (by omega)
      have hr : r = [] := List.eq_nil_of_length_eq_zero (by omega)
      subst hl; subst hr
      cases f2 <;> simp [mergeEntriesFuel]
    | succ f1 ih =>
      intro f2 l r h1 h2
      match l, r with
      | [], r =>
        cases f2 with
        | zero =>
          have hr : r = [] := by simpa using h2
          subst hr; simp [mergeEntriesFuel]
        | succ f2 => simp [mergeEntriesFuel]
      | a :: l, [] =>
        cases f2 with
        | zero => simp at h2
        | succ f2 => simp [mergeEntriesFuel]
      | a :: l, b :: r =>
        simp only [List.length_cons] at h1 h2
        cases f2 with
        | zero => omega
        | succ f2 =>
          unfold mergeEntriesFuel
          split
          · rw [ih f2 l (b :: r) (by simp; omega) (by simp; omega)]
          · split
            · rw [ih f2 (a :: l) r (by simp; omega) (by simp; omega)]
            · rw [ih f2 l r (by omega) (by omega)]
  intro fuel l r h
  exact key fuel _ l r h (Nat.le_refl _)

theorem mergeEntries_KM {l r : List Entry} (k : Nat) : KM (mergeEntries l r) k ↔ KM l k ∨ KM r k :=
  (mergeEntriesFuel_sem _ l r (Nat.le_refl _)).1 k

theorem mergeEntries_RM {l r : List Entry} (k v : Nat) :
    RM (mergeEntries l r) k v ↔ RM l k v ∨ RM r k v :=
  (mergeEntriesFuel_sem _ l r (Nat.le_refl _)).2 k v

theorem mergeEntries_sorted {l r : List Entry} (hl : SortedK l) (hr : SortedK r) (rl : RowsSorted l)
    (rr : RowsSorted r) : SortedK (mergeEntries l r) ∧ RowsSorted (mergeEntries l r) :=
  mergeEntriesFuel_sorted _ l r (Nat.le_refl _) hl hr rl rr

/-! ## The duplicate-key fold -/

theorem foldDupGo_sem : ∀ (es : List Entry) (cur : Entry),
    (∀ k, KM (foldDupGo cur es) k ↔ cur.1 = k ∨ KM es k) ∧
    (∀ k v, RM (foldDupGo cur es) k v ↔ (cur.1 = k ∧ v ∈ cur.2) ∨ RM es k v) := by
  intro es
  induction es with
  | nil => intro cur; simp [foldDupGo, KM_cons, RM_cons]
  | cons e es ih =>
    intro cur
    unfold foldDupGo
    split
    · rename_i he
      obtain ⟨h1, h2⟩ := ih (cur.1, unionSets cur.2 e.2)
      constructor
      · intro k
        rw [h1, KM_cons]
        simp only [he]
        constructor
        · rintro (h | h)
          · exact Or.inl h
          · exact Or.inr (Or.inr h)
        · rintro (h | h | h)
          · exact Or.inl h
          · exact Or.inl h
          · exact Or.inr h
      · intro k v
        rw [h2, RM_cons]
        simp only [he, mem_unionSets]
        constructor
        · rintro (⟨h, hv | hv⟩ | h)
          · exact Or.inl ⟨h, hv⟩
          · exact Or.inr (Or.inl ⟨h, hv⟩)
          · exact Or.inr (Or.inr h)
        · rintro (⟨h, hv⟩ | ⟨h, hv⟩ | h)
          · exact Or.inl ⟨h, Or.inl hv⟩
          · exact Or.inl ⟨h, Or.inr hv⟩
          · exact Or.inr h
    · obtain ⟨h1, h2⟩ := ih e
      constructor
      · intro k; rw [KM_cons, h1, KM_cons]
      · intro k v; rw [RM_cons, h2, RM_cons]

theorem foldDupGo_sorted : ∀ (es : List Entry) (cur : Entry),
    es.Pairwise (fun a b => a.1 ≤ b.1) → (∀ e ∈ es, cur.1 ≤ e.1) → SortedS cur.2 → RowsSorted es →
    SortedK (foldDupGo cur es) ∧ RowsSorted (foldDupGo cur es) ∧ ∀ k, KM (foldDupGo cur es) k → cur.1 ≤ k := by
  intro es
  induction es with
  | nil =>
    intro cur _ _ hc _
    refine ⟨by simp [foldDupGo, SortedK], by simpa [foldDupGo, RowsSorted] using hc, ?_⟩
    intro k hk
    simp only [foldDupGo, KM_cons, KM_nil, or_false] at hk
    omega
  | cons e es ih =>
    intro cur hp hle hc hrs
    rw [List.pairwise_cons] at hp
    have hrs2 := RowsSorted_cons.mp hrs
    unfold foldDupGo
    split
    · rename_i he
      exact ih (cur.1, unionSets cur.2 e.2) hp.2 (fun x hx => hle x (by simp [hx]))
        (sorted_unionSets _ _) hrs2.2
    · rename_i he
      obtain ⟨h1, h2, h3⟩ := ih e hp.2 (fun x hx => hp.1 x hx) hrs2.1 hrs2.2
      have hce : cur.1 < e.1 := by
        have := hle e (by simp)
        omega
      refine ⟨sortedK_cons_of h1 (fun k hk => by have := h3 k hk; omega),
        RowsSorted_cons.mpr ⟨hc, h2⟩, ?_⟩
      intro k hk
      rcases KM_cons.mp hk with e' | hk
      · omega
      · have := h3 k hk; omega

theorem foldDup_sem (l : List Entry) :
    (∀ k, KM (foldDup l) k ↔ KM l k) ∧ (∀ k v, RM (foldDup l) k v ↔ RM l k v) := by
  cases l with
  | nil => simp [foldDup]
  | cons c es =>
    obtain ⟨h1, h2⟩ := foldDupGo_sem es c
    exact ⟨fun k => by rw [foldDup, h1, KM_cons], fun k v => by rw [foldDup, h2, RM_cons]⟩

theorem foldDup_sorted {l : List Entry} (hp : l.Pairwise (fun a b => a.1 ≤ b.1)) (hr : RowsSorted l) :
    SortedK (foldDup l) ∧ RowsSorted (foldDup l) := by
  cases l with
  | nil => simp [foldDup, SortedK, RowsSorted]
  | cons c es =>
    rw [List.pairwise_cons] at hp
    have hr2 := RowsSorted_cons.mp hr
    obtain ⟨h1, h2, _⟩ := foldDupGo_sorted es c hp.2 hp.1 hr2.1 hr2.2
    exact ⟨h1, h2⟩

/-! ## The sort -/

theorem sortByKey_mem (l : List Entry) (e : Entry) : e ∈ sortByKey l ↔ e ∈ l := by
  unfold sortByKey
  exact List.mem_mergeSort

theorem sortByKey_pairwise (l : List Entry) : (sortByKey l).Pairwise (fun a b => a.1 ≤ b.1) := by
  unfold sortByKey
  have := List.pairwise_mergeSort (le := fun (a b : Entry) => decide (a.1 ≤ b.1))
    (fun a b c h1 h2 => by simp at h1 h2 ⊢; omega) (fun a b => by simp; omega) l
  simpa using this

/-! ## The partition boundaries cover both inputs -/

theorem findPartition_zero (lhs rhs : List Entry) : findPartition 0 lhs rhs = (0, 0) := by
  unfold findPartition
  have : (if 0 < lhs.length then 0 else lhs.length) = 0 := by split <;> omega
  simp [this, findPartitionLoop]

theorem findPartition_end (lhs rhs : List Entry) :
    findPartition (lhs.length + rhs.length) lhs rhs = (lhs.length, rhs.length) := by
  unfold findPartition
  have h1 : lhs.length + rhs.length - rhs.length = lhs.length := by omega
  have h2 : (if lhs.length + rhs.length < lhs.length then lhs.length + rhs.length else lhs.length)
      = lhs.length := by split <;> omega
  simp only [h1, h2, Nat.sub_self, findPartitionLoop]
  congr 1
  omega

theorem cover_of_endpoints (i : Nat → Nat) (p : Nat) : ∀ t, i 0 ≤ p → p < i t →
    ∃ k, k < t ∧ i k ≤ p ∧ p < i (k + 1) := by
  intro t
  induction t with
  | zero => intro h1 h2; omega
  | succ t ih =>
    intro h1 h2
    by_cases h : p < i t
    · obtain ⟨k, hk, h3⟩ := ih h1 h
      exact ⟨k, by omega, h3⟩
    · exact ⟨t, by omega, by omega, h2⟩

theorem mem_slice {α : Type} {l : List α} {a b p : Nat} (hp : p < l.length) (h1 : a ≤ p) (h2 : p < b) :
    l[p] ∈ (l.drop a).take (b - a) := by
  rw [List.mem_iff_getElem]
  refine ⟨p - a, by simp; omega, ?_⟩
  simp only [List.getElem_take, List.getElem_drop]
  congr 1
  omega

theorem mem_of_mem_slice {α : Type} {l : List α} {a n : Nat} {e : α} (h : e ∈ (l.drop a).take n) : e ∈ l :=
  List.mem_of_mem_drop (List.mem_of_mem_take h)

theorem boundaries_get (lhs rhs : List Entry) (t k : Nat) (hk : k ≤ t) :
    (boundaries lhs rhs t)[k]?.getD (0, 0) =
      findPartition (k * (lhs.length + rhs.length) / t) lhs rhs := by
  unfold boundaries
  rw [List.getElem?_map, List.getElem?_range (by omega)]
  rfl

theorem mergedAM_sem (lhs rhs : List Entry) (t : Nat) (ht : 0 < t) :
    (∀ k, KM (mergedAM lhs rhs t) k ↔ KM lhs k ∨ KM rhs k) ∧
    (∀ k v, RM (mergedAM lhs rhs t) k v ↔ RM lhs k v ∨ RM rhs k v) := by
  let n := lhs.length + rhs.length
  let bi : Nat → Nat := fun k => (findPartition (k * n / t) lhs rhs).1
  let bj : Nat → Nat := fun k => (findPartition (k * n / t) lhs rhs).2
  have hworker : ∀ k, k < t → workerAM lhs rhs (boundaries lhs rhs t) k =
      mergeEntries ((lhs.drop (bi k)).take (bi (k + 1) - bi k)) ((rhs.drop (bj k)).take (bj (k + 1) - bj k)) := by
    intro k hk
    unfold workerAM
    rw [boundaries_get lhs rhs t k (by omega), boundaries_get lhs rhs t (k + 1) (by omega)]
  have hi0 : bi 0 = 0 := by simp [bi, findPartition_zero]
  have hj0 : bj 0 = 0 := by simp [bj, findPartition_zero]
  have hnt : t * n / t = n := Nat.mul_div_cancel_left n ht
  have hit : bi t = lhs.length := by simp only [bi, hnt]; rw [findPartition_end]
  have hjt : bj t = rhs.length := by simp only [bj, hnt]; rw [findPartition_end]
  -- every element of either input lies in the slice of some worker
  have hcovL : ∀ e, e ∈ lhs ↔ ∃ k, k < t ∧ e ∈ (lhs.drop (bi k)).take (bi (k + 1) - bi k) := by
    intro e
    constructor
    · intro he
      obtain ⟨p, hp, rfl⟩ := List.mem_iff_getElem.mp he
      obtain ⟨k, hk, h1, h2⟩ := cover_of_endpoints bi p t (by omega) (by omega)
      exact ⟨k, hk, mem_slice hp h1 h2⟩
    · rintro ⟨k, _, he⟩; exact mem_of_mem_slice he
  have hcovR : ∀ e, e ∈ rhs ↔ ∃ k, k < t ∧ e ∈ (rhs.drop (bj k)).take (bj (k + 1) - bj k) := by
    intro e
    constructor
    · intro he
      obtain ⟨p, hp, rfl⟩ := List.mem_iff_getElem.mp he
      obtain ⟨k, hk, h1, h2⟩ := cover_of_endpoints bj p t (by omega) (by omega)
      exact ⟨k, hk, mem_slice hp h1 h2⟩
    · rintro ⟨k, _, he⟩; exact mem_of_mem_slice he
  have hmem : ∀ e, e ∈ mergedAM lhs rhs t ↔ ∃ k, k < t ∧
      e ∈ mergeEntries ((lhs.drop (bi k)).take (bi (k + 1) - bi k)) ((rhs.drop (bj k)).take (bj (k + 1) - bj k)) := by
    intro e
    unfold mergedAM
    rw [List.mem_flatMap]
    constructor
    · rintro ⟨k, hk, he⟩
      rw [List.mem_range] at hk
      exact ⟨k, hk, by rw [← hworker k hk]; exact he⟩
    · rintro ⟨k, hk, he⟩
      exact ⟨k, List.mem_range.mpr hk, by rw [hworker k hk]; exact he⟩
  constructor
  · intro k
    constructor
    · rintro ⟨s, hs⟩
      obtain ⟨w, hw, he⟩ := (hmem _).mp hs
      rcases (mergeEntries_KM k).mp ⟨s, he⟩ with ⟨s', h⟩ | ⟨s', h⟩
      · exact Or.inl ⟨s', mem_of_mem_slice h⟩
      · exact Or.inr ⟨s', mem_of_mem_slice h⟩
    · rintro (⟨s, hs⟩ | ⟨s, hs⟩)
      · obtain ⟨w, hw, he⟩ := (hcovL _).mp hs
        obtain ⟨s', h⟩ := (mergeEntries_KM (r := (rhs.drop (bj w)).take (bj (w + 1) - bj w)) k).mpr (Or.inl ⟨s, he⟩)
        exact ⟨s', (hmem _).mpr ⟨w, hw, h⟩⟩
      · obtain ⟨w, hw, he⟩ := (hcovR _).mp hs
        obtain ⟨s', h⟩ := (mergeEntries_KM (l := (lhs.drop (bi w)).take (bi (w + 1) - bi w)) k).mpr (Or.inr ⟨s, he⟩)
        exact ⟨s', (hmem _).mpr ⟨w, hw, h⟩⟩
  · intro k v
    constructor
    · rintro ⟨s, hs, hv⟩
      obtain ⟨w, hw, he⟩ := (hmem _).mp hs
      rcases (mergeEntries_RM k v).mp ⟨s, he, hv⟩ with ⟨s', h, hv'⟩ | ⟨s', h, hv'⟩
      · exact Or.inl ⟨s', mem_of_mem_slice h, hv'⟩
      · exact Or.inr ⟨s', mem_of_mem_slice h, hv'⟩
    · rintro (⟨s, hs, hv⟩ | ⟨s, hs, hv⟩)
      · obtain ⟨w, hw, he⟩ := (hcovL _).mp hs
        obtain ⟨s', h, hv'⟩ := (mergeEntries_RM (r := (rhs.drop (bj w)).take (bj (w + 1) - bj w)) k v).mpr
          (Or.inl ⟨s, he, hv⟩)
        exact ⟨s', (hmem _).mpr ⟨w, hw, h⟩, hv'⟩
      · obtain ⟨w, hw, he⟩ := (hcovR _).mp hs
        obtain ⟨s', h, hv'⟩ := (mergeEntries_RM (l := (lhs.drop (bi w)).take (bi (w + 1) - bi w)) k v).mpr
          (Or.inr ⟨s, he, hv⟩)
        exact ⟨s', (hmem _).mpr ⟨w, hw, h⟩, hv'⟩

/-- Every entry of `merged_entries` is an input entry or the union of two input entries. -/
theorem mergeEntriesFuel_rows : ∀ (fuel : Nat) (l r : List Entry), RowsSorted l → RowsSorted r →
    RowsSorted (mergeEntriesFuel fuel l r) := by
  intro fuel
  induction fuel with
  | zero => intro l r _ _; simp [mergeEntriesFuel, RowsSorted]
  | succ f ih =>
    intro l r rl rr
    match l, r with
    | [], r => simpa [mergeEntriesFuel] using rr
    | a :: l, [] => simpa [mergeEntriesFuel] using rl
    | a :: l, b :: r =>
      have rl2 := RowsSorted_cons.mp rl
      have rr2 := RowsSorted_cons.mp rr
      unfold mergeEntriesFuel
      split
      · exact RowsSorted_cons.mpr ⟨rl2.1, ih l (b :: r) rl2.2 rr⟩
      · split
        · exact RowsSorted_cons.mpr ⟨rr2.1, ih (a :: l) r rl rr2.2⟩
        · exact RowsSorted_cons.mpr ⟨sorted_unionSets _ _, ih l r rl2.2 rr2.2⟩

theorem mergedAM_rows {lhs rhs : List Entry} (t : Nat) (rl : RowsSorted lhs) (rr : RowsSorted rhs) :
    RowsSorted (mergedAM lhs rhs t) := by
  intro e he
  unfold mergedAM at he
  obtain ⟨k, _, he⟩ := List.mem_flatMap.mp he
  unfold workerAM mergeEntries at he
  refine mergeEntriesFuel_rows _ _ _ ?_ ?_ e he
  · intro x hx; exact rl x (mem_of_mem_slice hx)
  · intro x hx; exact rr x (mem_of_mem_slice hx)

/-! ## `mapUnion_spec` -/

theorem wfAM_rowsSorted {d : AdjMap} (h : d.WF) : RowsSorted d.rows :=
  fun e he => (h.2 e.1 e.2 he).1

/-- The tail of `AdjacencyMap::union` (sort, duplicate-key fold, collect) turns what the workers
hand back into the single merge of the two inputs — for ANY sorting function that permutes its
input into key order.  `sort_unstable_by_key` leaves the relative order of equal keys unspecified;
nothing here depends on it. -/
theorem unionAM_tail_any_sort (sort : List Entry → List Entry)
    (hmem : ∀ l e, e ∈ sort l ↔ e ∈ l) (hsorted : ∀ l, (sort l).Pairwise (fun a b => a.1 ≤ b.1))
    (a b : AdjMap) (t : Nat) (ht : 0 < t) (ha : a.WF) (hb : b.WF) :
    toMap (foldDup (sort (mergedAM a.rows b.rows t))) = mergeEntries a.rows b.rows := by
  obtain ⟨hk, hr⟩ := mergedAM_sem a.rows b.rows t ht
  have hrs := mergedAM_rows t (wfAM_rowsSorted ha) (wfAM_rowsSorted hb)
  have hsortmem := hmem (mergedAM a.rows b.rows t)
  have hrs2 : RowsSorted (sort (mergedAM a.rows b.rows t)) :=
    fun e he => hrs e ((hsortmem e).mp he)
  obtain ⟨hfs, hfr⟩ := foldDup_sorted (hsorted _) hrs2
  obtain ⟨hfk, hfrm⟩ := foldDup_sem (sort (mergedAM a.rows b.rows t))
  rw [toMap_of_sorted hfs]
  obtain ⟨hms, hmr⟩ := mergeEntries_sorted ha.1 hb.1 (wfAM_rowsSorted ha) (wfAM_rowsSorted hb)
  apply entries_ext hfs hms hfr hmr
  · intro k
    rw [hfk, KM_of_mem_iff hsortmem, hk, mergeEntries_KM]
  · intro k v
    rw [hfrm, RM_of_mem_iff hsortmem, hr, mergeEntries_RM]

/-- `AdjacencyMap::union` returns the single merge of the two entry lists for every thread count:
the final sort + duplicate-key fold makes the result independent of where the partition
boundaries fall (equal keys straddling a boundary included). -/
theorem unionAM_par_eq_seq (a b : AdjMap) (ap : Nat) (hap : 0 < ap) (ha : a.WF) (hb : b.WF)
    (hn : 0 < a.rows.length + b.rows.length) : unionAM a b ap = some (unionSeqAM a b) := by
  have ht : 0 < min (a.rows.length + b.rows.length) ap := by omega
  unfold unionAM unionSeqAM
  simp only []
  rw [if_neg (by omega), if_neg (by omega)]
  congr 2
  exact unionAM_tail_any_sort sortByKey sortByKey_mem sortByKey_pairwise a b _ ht ha hb

/-! ## The single merge is the set-theoretic union -/

theorem KM_iff_keys {m : List Entry} {k : Nat} : KM m k ↔ k ∈ keysAM m := by
  simp only [KM, keysAM, List.mem_map]
  constructor
  · rintro ⟨s, h⟩; exact ⟨(k, s), h, rfl⟩
  · rintro ⟨⟨k', s⟩, h, rfl⟩; exact ⟨s, h⟩

theorem RM_iff_row {m : List Entry} (h : SortedK m) {k v : Nat} : RM m k v ↔ v ∈ rowAM m k :=
  (mem_rowAM h).symm

theorem unionSeqAM_spec (a b : AdjMap) (ha : a.WF) (hb : b.WF) :
    (unionSeqAM a b).WF ∧ absAM (unionSeqAM a b) = specUnion (absAM a) (absAM b) := by
  obtain ⟨hms, hmr⟩ := mergeEntries_sorted ha.1 hb.1 (wfAM_rowsSorted ha) (wfAM_rowsSorted hb)
  have hkeys : ∀ k, k ∈ keysAM (mergeEntries a.rows b.rows) ↔ k ∈ keysAM a.rows ∨ k ∈ keysAM b.rows := by
    intro k
    rw [← KM_iff_keys, ← KM_iff_keys, ← KM_iff_keys]
    exact mergeEntries_KM k
  have hrow : ∀ k v, v ∈ rowAM (mergeEntries a.rows b.rows) k ↔ v ∈ rowAM a.rows k ∨ v ∈ rowAM b.rows k := by
    intro k v
    rw [← RM_iff_row hms, ← RM_iff_row ha.1, ← RM_iff_row hb.1]
    exact mergeEntries_RM k v
  constructor
  · show AdjMap.WF ⟨mergeEntries a.rows b.rows⟩
    apply wfAM_of hms
    · intro k
      unfold rowAM
      cases hg : mget k (mergeEntries a.rows b.rows) with
      | none => simp [SortedS]
      | some row => exact hmr _ ((mget_eq_some_iff hms).mp hg)
    · intro k v hv
      rw [hkeys]
      rcases (hrow k v).mp hv with hv | hv
      · have := (wfAM_row ha k).2 v hv; exact ⟨this.1, Or.inl this.2⟩
      · have := (wfAM_row hb k).2 v hv; exact ⟨this.1, Or.inr this.2⟩
  · show absAM ⟨mergeEntries a.rows b.rows⟩ = _
    rw [DG.ext_iff']
    constructor
    · intro v; rw [absAM_V, hkeys]; simp [specUnion, absAM_V]
    · intro u v; rw [absAM_A, hrow]; simp [specUnion, absAM_A]

/-- `AdjacencyMap::union`, every thread count, arbitrary key sets. -/
theorem unionAM_spec (a b : AdjMap) (ap : Nat) (hap : 0 < ap) (ha : a.WF) (hb : b.WF)
    (hn : 0 < a.order + b.order) :
    ∃ r, unionAM a b ap = some r ∧ r.WF ∧ absAM r = specUnion (absAM a) (absAM b) :=
  ⟨_, unionAM_par_eq_seq a b ap hap ha hb hn, (unionSeqAM_spec a b ha hb).1, (unionSeqAM_spec a b ha hb).2⟩

end GraafVerif.Ops
