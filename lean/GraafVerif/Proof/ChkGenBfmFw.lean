import GraafVerif.Proof.ChkGenBfs
/-!
# C13 on the regenerated `BellmanFordMoore` and `FloydWarshall::distances`
(`Model/AlgoGen.lean`, generated from `src/algo/{bellman_ford_moore,floyd_warshall}.rs`)

Direct proofs: under the representation invariant of the weighted list (`g.WF`: both endpoints of
every arc are below the order) and for a distance vector / matrix of the length `new` /
`DistanceMatrix::new` gives it, no `arcs_ptr.add(i)` / `dist_ptr.add(·)` is out of range — for every
sentinel and all weights (no "path sums fit" hypothesis is needed for memory safety).
-/
namespace GraafVerif.C13Gen
open GraafVerif GraafVerif.AlgoGen

theorem mem_arcsWeighted {g : WGraph} (hwf : g.WF) {a : Nat × Nat × Int} (h : a ∈ arcsWeighted g) : a.1 < g.n ∧ a.2.1 < g.n := by
  unfold arcsWeighted at h
  rw [List.mem_flatMap] at h
  obtain ⟨u, _, hu⟩ := h
  rw [List.mem_map] at hu
  obtain ⟨vw, hvw, e⟩ := hu
  subst e
  exact hwf u vw.1 vw.2 hvw

namespace BellmanFordMoore

/-- `BellmanFordMoore::new` for every source. -/
theorem new_safe (g : WGraph) (inf : Int) (s : Nat) : RSafe (AlgoGen.BellmanFordMoore.new g inf s) (fun b => b.dist.length = g.n) := by
  unfold AlgoGen.BellmanFordMoore.new
  refine safe_fnBody ?_
  refine safe_bind (safe_assert _) (fun _ ha => ?_)
  have hs : s < g.n := by simpa using ha
  exact safe_bind (safe_wr_len _ _ _ _ g.n (by simp) hs) (fun t0 ht0 => safe_pure ht0)

/-- the relaxation of one arc, after the arc has been read: `dist_ptr.add(u)`, `dist_ptr.add(v)` -/
macro "bfm_relax" hs:ident hw:ident n:term "=>" t:ident ht:ident : tactic => `(tactic| (
  refine safe_bind (safe_rd _ _ _ (by rw [$hs:ident]; exact ($hw).1)) (fun du _ => ?_)
  try dsimp only
  refine safe_bind (Q' := fun (p : AlgoGen.BellmanFordMoore × Bool) => p.1.dist.length = $n) ?_ (fun $t $ht => ?_)
  · split
    · refine safe_bind (safe_rd _ _ _ (by rw [$hs:ident]; exact ($hw).2)) (fun dv _ => ?_)
      refine safe_bind (Q' := fun (p : AlgoGen.BellmanFordMoore × Bool) => p.1.dist.length = $n) ?_ (fun t ht => safe_pure ht)
      split
      · exact safe_bind (safe_wr_len _ _ _ _ $n $hs ($hw).2) (fun t5 ht5 => safe_pure ht5)
      · exact safe_pure $hs
    · exact safe_pure $hs))

theorem distances_while0_safe {R : Option (List Int) × AlgoGen.BellmanFordMoore → Prop} (inf : Int) (arcs : List (Nat × Nat × Int))
    (n : Nat) (hwf : ∀ a ∈ arcs, a.1 < n ∧ a.2.1 < n) (st : AlgoGen.BellmanFordMoore × Bool × Nat) (h : st.1.dist.length = n) :
    Safe (AlgoGen.BellmanFordMoore.distances_while0 inf arcs arcs.length st) (fun s => s.1.dist.length = n)
      (fun s => s.1.dist.length = n) R := by
  unfold AlgoGen.BellmanFordMoore.distances_while0
  try dsimp only
  split
  · rename_i hi
    refine safe_bind (safe_rd _ _ _ hi) (fun a ha => ?_)
    have hw := hwf a ha.1
    bfm_relax h hw n => t2 h2
    try dsimp only
    -- second arc of the round
    refine safe_bind (Q' := fun (p : AlgoGen.BellmanFordMoore × Bool) => p.1.dist.length = n) ?_ (fun t6 h6 => ?_)
    · split
      · rename_i hi2
        refine safe_bind (safe_rd _ _ _ hi2) (fun a2 ha2 => ?_)
        have hw2 := hwf a2 ha2.1
        bfm_relax h2 hw2 n => t9 h9
        exact safe_pure h9
      · exact safe_pure h2
    try dsimp only
    -- third
    refine safe_bind (Q' := fun (p : AlgoGen.BellmanFordMoore × Bool) => p.1.dist.length = n) ?_ (fun t13 h13 => ?_)
    · split
      · rename_i hi3
        refine safe_bind (safe_rd _ _ _ hi3) (fun a3 ha3 => ?_)
        have hw3 := hwf a3 ha3.1
        bfm_relax h6 hw3 n => t16 h16
        exact safe_pure h16
      · exact safe_pure h6
    try dsimp only
    -- fourth
    refine safe_bind (Q' := fun (p : AlgoGen.BellmanFordMoore × Bool) => p.1.dist.length = n) ?_ (fun t20 h20 => ?_)
    · split
      · rename_i hi4
        refine safe_bind (safe_rd _ _ _ hi4) (fun a4 ha4 => ?_)
        have hw4 := hwf a4 ha4.1
        bfm_relax h13 hw4 n => t23 h23
        exact safe_pure h23
      · exact safe_pure h13
    exact safe_pure h20
  · exact safe_brk h

theorem distances_for0_safe {R : Option (List Int) × AlgoGen.BellmanFordMoore → Prop} (inf : Int) (arcs : List (Nat × Nat × Int))
    (n : Nat) (hwf : ∀ a ∈ arcs, a.1 < n ∧ a.2.1 < n) (self : AlgoGen.BellmanFordMoore) (x : Nat) (h : self.dist.length = n) :
    Safe (AlgoGen.BellmanFordMoore.distances_for0 inf arcs arcs.length self x) (fun s => s.dist.length = n)
      (fun s => s.dist.length = n) R := by
  unfold AlgoGen.BellmanFordMoore.distances_for0
  refine safe_bind (safe_whileLoop _ (fun st => st.1.dist.length = n) R
    (fun st hst => distances_while0_safe inf arcs n hwf st hst) _ _ h) (fun t27 h27 => ?_)
  dsimp only
  split
  · exact safe_brk h27
  · exact safe_pure h27

theorem distances_for1_safe (inf : Int) (arcs : List (Nat × Nat × Int)) (n : Nat) (hwf : ∀ a ∈ arcs, a.1 < n ∧ a.2.1 < n)
    (self : AlgoGen.BellmanFordMoore) (h : self.dist.length = n) (u : Unit) (i : Nat) (hi : i < arcs.length) :
    Safe (AlgoGen.BellmanFordMoore.distances_for1 inf self arcs u i) (fun _ => True) (fun _ => True) (fun _ => True) := by
  unfold AlgoGen.BellmanFordMoore.distances_for1
  refine safe_bind (safe_rd _ _ _ hi) (fun a ha => ?_)
  have hw := hwf a ha.1
  refine safe_bind (safe_rd _ _ _ (by rw [h]; exact hw.1)) (fun du _ => ?_)
  dsimp only
  refine safe_bind (Q' := fun _ => True) ?_ (fun t31 _ => ?_)
  · split
    · exact safe_bind (safe_rd _ _ _ (by rw [h]; exact hw.2)) (fun _ _ => safe_pure trivial)
    · exact safe_pure trivial
  · split
    · exact safe_ret trivial
    · exact safe_pure trivial

/-- `BellmanFordMoore::distances` for every well-formed weighted digraph and every object whose vector has
`order` entries (what `new` builds; `distances` keeps it, so also for every repeated call). -/
theorem distances_safe (g : WGraph) (hwf : g.WF) (inf : Int) (self : AlgoGen.BellmanFordMoore) (h : self.dist.length = g.n) :
    RSafe (AlgoGen.BellmanFordMoore.distances g inf self) (fun _ => True) := by
  unfold AlgoGen.BellmanFordMoore.distances
  have hw : ∀ a ∈ arcsWeighted g, a.1 < g.n ∧ a.2.1 < g.n := fun a ha => mem_arcsWeighted hwf ha
  refine safe_fnBody ?_
  refine safe_bind (safe_forLoop _ _ _ (fun (s : AlgoGen.BellmanFordMoore) => s.dist.length = g.n) (fun _ => True) h
    (fun s x _ hs => distances_for0_safe inf _ g.n hw s x hs)) (fun s1 hs1 => ?_)
  refine safe_bind (safe_forLoop _ _ _ (fun _ => True) (fun _ => True) trivial
    (fun u i hi _ => distances_for1_safe inf _ g.n hw s1 hs1 u i (by simpa using hi))) (fun _ _ => ?_)
  exact safe_pure trivial

end BellmanFordMoore

namespace FloydWarshall

theorem cell_lt {n u v : Nat} (hu : u < n) (hv : v < n) : u * n + v < n * n := by
  have h1 : (u + 1) * n ≤ n * n := Nat.mul_le_mul_right n hu
  rw [Nat.succ_mul] at h1
  omega

/-- `FloydWarshall::distances` for every well-formed weighted digraph on an object whose matrix has
`order²` entries (what `FloydWarshall::new` → `DistanceMatrix::new` builds), every sentinel. -/
theorem distances_safe (g : WGraph) (hwf : g.WF) (inf : Int) (self : AlgoGen.FloydWarshall)
    (h : self.dist.dist.length = g.n * g.n) :
    RSafe (AlgoGen.FloydWarshall.distances g inf self) (fun r => r.2.dist.dist.length = g.n * g.n) := by
  unfold AlgoGen.FloydWarshall.distances
  let I : AlgoGen.FloydWarshall → Prop := fun s => s.dist.dist.length = g.n * g.n
  refine safe_fnBody ?_
  refine safe_bind (safe_forLoop _ _ _ I _ h (fun s x hx hs => ?_)) (fun s1 hs1 => ?_)
  · unfold AlgoGen.FloydWarshall.distances_for0
    obtain ⟨hu, hv⟩ := mem_arcsWeighted hwf hx
    exact safe_bind (safe_wr_len _ _ _ _ _ hs (cell_lt hu hv)) (fun t0 ht0 => safe_pure ht0)
  refine safe_bind (safe_forLoop _ _ _ I _ hs1 (fun s i hi hs => ?_)) (fun s2 hs2 => ?_)
  · unfold AlgoGen.FloydWarshall.distances_for1
    have hi' : i < g.n := by simpa using hi
    exact safe_bind (safe_wr_len _ _ _ _ _ hs (cell_lt hi' hi')) (fun t0 ht0 => safe_pure ht0)
  refine safe_bind (safe_forLoop _ _ _ I _ hs2 (fun s i hi hs => ?_)) (fun s3 hs3 => safe_pure hs3)
  unfold AlgoGen.FloydWarshall.distances_for2
  have hi' : i < g.n := by simpa using hi
  refine safe_forLoop _ _ _ I _ hs (fun s j hj hs => ?_)
  unfold AlgoGen.FloydWarshall.distances_for3
  have hj' : j < g.n := by simpa using hj
  refine safe_bind (safe_rd _ _ _ (by rw [hs]; exact cell_lt hj' hi')) (fun a _ => ?_)
  dsimp only
  split
  · exact safe_pure hs
  · refine safe_forLoop _ _ _ I _ hs (fun s k hk hs => ?_)
    unfold AlgoGen.FloydWarshall.distances_for4
    have hk' : k < g.n := by simpa using hk
    refine safe_bind (safe_rd _ _ _ (by rw [hs]; exact cell_lt hi' hk')) (fun b _ => ?_)
    dsimp only
    split
    · exact safe_pure hs
    · refine safe_bind (safe_rd _ _ _ (by rw [hs]; exact cell_lt hj' hk')) (fun c _ => ?_)
      split
      · exact safe_bind (safe_wr_len _ _ _ _ _ hs (cell_lt hj' hk')) (fun t5 ht5 => safe_pure ht5)
      · exact safe_pure hs

end FloydWarshall

end GraafVerif.C13Gen
