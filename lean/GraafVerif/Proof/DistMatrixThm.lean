import GraafVerif.Proof.DistMatrix
/-! The C18 statements, proved in the unfolded form `Thm/C18.lean` refers to. -/
namespace GraafVerif.DistMatrix

theorem ecc_spec' {m : DM} (hw : WF m) :
    (ecc m).length = m.order ∧
    ∀ u, u < m.order → ∃ e, (ecc m)[u]? = some e ∧
      (∃ v, v < m.order ∧ get m u v = .ok e) ∧
      (∀ v, v < m.order → ∃ x, get m u v = .ok x ∧ x ≤ e) := by
  refine ⟨ecc_length hw, ?_⟩
  intro u hu
  obtain ⟨e, he, ⟨v, hv, hc⟩, hmax⟩ := ecc_isMax hw hu
  refine ⟨e, he, ⟨v, hv, by rw [get_ok hw hu hv, hc]⟩, ?_⟩
  intro v' hv'
  exact ⟨_, get_ok hw hu hv', hmax v' hv'⟩

theorem diameter_spec' {m : DM} (hw : WF m) :
    (∃ u, u < m.order ∧ (ecc m)[u]? = some (diameter m)) ∧ ∀ e ∈ ecc m, e ≤ diameter m := by
  obtain ⟨h1, h2⟩ := maxOr_spec m.infinity (ecc_ne_nil hw)
  refine ⟨?_, h2⟩
  obtain ⟨u, hu, heu⟩ := List.getElem_of_mem h1
  refine ⟨u, by rw [ecc_length hw] at hu; exact hu, ?_⟩
  rw [List.getElem?_eq_getElem hu, heu]
  rfl

theorem getElem?_some_lt {α : Type} {l : List α} {i : Nat} {a : α} (h : l[i]? = some a) : i < l.length :=
  (List.getElem?_eq_some_iff.mp h).1

theorem center_spec' {m : DM} (hw : WF m) :
    (center m).Pairwise (· < ·) ∧
    ∀ u, u ∈ center m ↔ ∃ e, (ecc m)[u]? = some e ∧ ∀ e' ∈ ecc m, e ≤ e' := by
  obtain ⟨μ, hμmem, hμmin, hc⟩ := center_eq hw
  rw [hc]
  refine ⟨idxEq_sorted μ _ 0, ?_⟩
  intro u
  rw [mem_idxEq]
  constructor
  · rintro ⟨j, rfl, hj⟩
    exact ⟨μ, by simpa using hj, hμmin⟩
  · rintro ⟨e, he, hmin⟩
    have h1 : e ≤ μ := hmin μ hμmem
    have h2 : μ ≤ e := hμmin e (List.mem_of_getElem? he)
    have : e = μ := by omega
    subst this
    exact ⟨u, by omega, he⟩

theorem periphery_spec' {m : DM} (_hw : WF m) :
    (periphery m).Pairwise (· < ·) ∧ ∀ u, u ∈ periphery m ↔ (ecc m)[u]? = some (diameter m) := by
  unfold periphery
  refine ⟨idxEq_sorted _ _ 0, ?_⟩
  intro u
  rw [mem_idxEq]
  constructor
  · rintro ⟨j, rfl, hj⟩; simpa using hj
  · intro h; exact ⟨u, by omega, h⟩

theorem connected_iff (m : DM) : isConnected m = true ↔ ∀ e ∈ ecc m, e ≠ m.infinity := by
  unfold isConnected
  simp [List.all_eq_true]

theorem connected_spec' {m : DM} (hw : WF m) :
    (isConnected m = true ↔ ∀ e ∈ ecc m, e ≠ m.infinity) ∧
    (isConnected m = true ↔ ∀ u v, u < m.order → v < m.order → get m u v ≠ .ok m.infinity) := by
  refine ⟨connected_iff m, ?_⟩
  rw [connected_iff]
  constructor
  · intro h u v hu hv hget
    obtain ⟨e, he, _, hmax⟩ := ecc_isMax hw hu
    rw [get_ok hw hu hv] at hget
    have hcell : cell m u v = m.infinity := by injection hget
    have h1 := hmax v hv
    have h2 := ecc_le_inf hw e (List.mem_of_getElem? he)
    have : e = m.infinity := by omega
    exact h e (List.mem_of_getElem? he) this
  · intro h e he heq
    obtain ⟨u, hu, heu⟩ := List.getElem_of_mem he
    have hu' : u < m.order := by rw [ecc_length hw] at hu; exact hu
    obtain ⟨e', he', ⟨v, hv, hc⟩, _⟩ := ecc_isMax hw hu'
    have : e' = e := by
      rw [List.getElem?_eq_getElem hu, heu] at he'
      exact (Option.some.inj he').symm
    subst this
    apply h u v hu' hv
    rw [get_ok hw hu' hv, hc, heq]

theorem index_spec' {m : DM} (hw : WF m) :
    ∀ u v, u < m.order → v < m.order →
      (∃ x r, get m u v = .ok x ∧ (chunks m.order m.dist)[u]? = some r ∧ r[v]? = some x) ∧
      ∀ w, ∃ m', set m u v w = .ok m' ∧ m'.order = m.order ∧ m'.infinity = m.infinity ∧
        m'.dist.length = m.dist.length ∧ get m' u v = .ok w ∧
        ∀ u' v', u' < m.order → v' < m.order → (u', v') ≠ (u, v) → get m' u' v' = get m u' v' := by
  intro u v hu hv
  have hlt : u * m.order + v < m.dist.length := by rw [hw.len]; exact idx_lt hu hv
  constructor
  · refine ⟨cell m u v, row m u, get_ok hw hu hv, ?_, ?_⟩
    · rw [chunks_rows hw, List.getElem?_map, List.getElem?_range hu]; rfl
    · rw [row_getElem? m hv]
      simp [cell, List.getElem?_eq_getElem hlt]
  · intro w
    refine ⟨{ m with dist := m.dist.set (u * m.order + v) w }, ?_, rfl, rfl, by simp, ?_, ?_⟩
    · simp [set, hlt]
    · simp [get, hlt]
    · intro u' v' _ hv' hne
      have : u * m.order + v ≠ u' * m.order + v' := by
        intro h
        obtain ⟨h1, h2⟩ := idx_inj hv hv' h
        exact hne (by rw [h1, h2])
      simp [get, List.getElem?_set_ne this]

theorem new_spec' :
    (∀ inf, new 0 inf = .panic) ∧
    ∀ order inf, 1 ≤ order → order * order ≤ usizeMax →
      ∃ m, new order inf = .ok m ∧ m.order = order ∧ m.infinity = inf ∧ WF m ∧
        ∀ u v, u < order → v < order → get m u v = .ok inf := by
  refine ⟨fun inf => by simp [new], ?_⟩
  intro order inf h1 h2
  have hw : WF ⟨List.replicate (order * order) inf, inf, order⟩ :=
    ⟨h1, by simp, by intro x hx; rw [(List.mem_replicate.mp hx).2]; exact Int.le_refl _⟩
  refine ⟨_, new_ok inf h1 h2, rfl, rfl, hw, ?_⟩
  intro u v hu hv
  rw [get_ok hw hu hv]
  have := cell_mem hw hu hv
  rw [(List.mem_replicate.mp this).2]

/-! ## the all-infinite case, uniqueness of ascending lists -/

theorem idxEq_all (d : Int) : ∀ (es : List Int) (i : Nat), (∀ e ∈ es, e = d) →
    idxEq d es i = List.range' i es.length := by
  intro es
  induction es with
  | nil => intro i _; simp [idxEq]
  | cons e es ih =>
    intro i h
    have he : e = d := h e (by simp)
    unfold idxEq
    simp only [he, beq_self_eq_true, if_true, List.length_cons, List.range'_succ]
    rw [ih (i+1) (fun e' he' => h e' (by simp [he']))]

theorem center_all_inf {m : DM} (hw : WF m) (h : ∀ e ∈ ecc m, e = m.infinity) :
    center m = List.range m.order := by
  obtain ⟨μ, hμmem, _, hc⟩ := center_eq hw
  have hμ : μ = m.infinity := h μ hμmem
  rw [hc, idxEq_all μ (ecc m) 0 (by intro e he; rw [hμ]; exact h e he), ecc_length hw,
    List.range_eq_range']

theorem sorted_ext' : ∀ (l₁ l₂ : List Nat), l₁.Pairwise (· < ·) → l₂.Pairwise (· < ·) →
    (∀ x, x ∈ l₁ ↔ x ∈ l₂) → l₁ = l₂ := by
  intro l₁
  induction l₁ with
  | nil =>
    intro l₂ _ _ h
    cases l₂ with
    | nil => rfl
    | cons b bs => exact absurd ((h b).mpr (by simp)) (by simp)
  | cons a as ih =>
    intro l₂ h₁ h₂ h
    cases l₂ with
    | nil => exact absurd ((h a).mp (by simp)) (by simp)
    | cons b bs =>
      rw [List.pairwise_cons] at h₁ h₂
      have hab : a = b := by
        have ha : a ∈ b :: bs := (h a).mp (by simp)
        have hb : b ∈ a :: as := (h b).mpr (by simp)
        rcases List.mem_cons.mp ha with h1 | h1
        · exact h1
        · rcases List.mem_cons.mp hb with h2 | h2
          · exact h2.symm
          · have := h₂.1 a h1
            have := h₁.1 b h2
            omega
      subst hab
      congr 1
      apply ih bs h₁.2 h₂.2
      intro x
      constructor
      · intro hx
        have : x ∈ a :: bs := (h x).mp (by simp [hx])
        rcases List.mem_cons.mp this with h1 | h1
        · have := h₁.1 x hx; omega
        · exact h1
      · intro hx
        have : x ∈ a :: as := (h x).mpr (by simp [hx])
        rcases List.mem_cons.mp this with h1 | h1
        · have := h₂.1 x hx; omega
        · exact h1

end GraafVerif.DistMatrix
