import GraafVerif.Model.AlgoGenRt
/-!
# C13 on the source-regenerated definitions: a small safety calculus for `Blk` / `Res`

`Model/AlgoGen*.lean` are GENERATED from `/repo/src` by `tools/translate_algo.py`; every
`*ptr.add(i)` / `get_unchecked(i)` / `ptr::read` / `ptr::write` of the source is there a CHECKED
`rd` / `wr` with the distinct outcome `Fault.ub site` (the convention of `Model/Chk.lean`).

`Safe x Q B R`: the block `x` does not end in `ub`, and its three regular exits satisfy `Q`
(normal), `B` (`break`), `R` (`return`).  `RSafe r Q` is the same for a whole call.  The rules
below (bind, the four loop forms with an invariant, `rd`/`wr` under a bound, `call`, `fnBody`)
are what the direct proofs of `Proof/ChkGen*.lean` are made of.
-/
namespace GraafVerif.C13Gen
open GraafVerif.AlgoGen
open GraafVerif.Chk (Fault)

variable {α β γ ρ σ ι τ : Type}

/-- The call does not end in `ub` (at any site). -/
def NoUB (r : Res α) : Prop := ∀ site, r ≠ .error (.fault (.ub site))

/-- The call does not end in `ub`, and a returned value satisfies `Q`. -/
def RSafe (r : Res α) (Q : α → Prop) : Prop :=
  match r with
  | .ok a => Q a
  | .error (.fault (.ub _)) => False
  | .error _ => True

/-- The block does not end in `ub`; normal exit `Q`, `break` exit `B`, `return` exit `R`. -/
def Safe (x : Blk β ρ α) (Q : α → Prop) (B : β → Prop) (R : ρ → Prop) : Prop :=
  match x with
  | .ok a => Q a
  | .error (.brk b) => B b
  | .error (.ret r) => R r
  | .error (.err (.fault (.ub _))) => False
  | .error (.err _) => True

theorem RSafe.noUB {r : Res α} {Q : α → Prop} (h : RSafe r Q) : NoUB r := by
  intro site e; rw [e] at h; exact h

theorem RSafe.mono {r : Res α} {Q Q' : α → Prop} (h : RSafe r Q) (hq : ∀ a, Q a → Q' a) : RSafe r Q' := by
  cases r with
  | ok a => exact hq a h
  | error e =>
    cases e with
    | div => trivial
    | fault f => cases f with
      | panic => trivial
      | ub s => exact h

theorem RSafe.ok {r : Res α} {Q : α → Prop} {a : α} (h : RSafe r Q) (e : r = .ok a) : Q a := by
  rw [e] at h; exact h

theorem noUB_map {r : Res α} (f : α → γ) (h : NoUB r) : NoUB (Except.map f r) := by
  intro site e
  cases r with
  | ok a => cases e
  | error x => exact h site (by simpa [Except.map] using e)

theorem RSafe.map {r : Res α} {Q : γ → Prop} (f : α → γ) (h : RSafe r (fun a => Q (f a))) : RSafe (Except.map f r) Q := by
  cases r with
  | ok a => exact h
  | error e =>
    cases e with
    | div => trivial
    | fault f => cases f with
      | panic => trivial
      | ub s => exact h

theorem RSafe.bind {r : Res α} {f : α → Res γ} {Q' : α → Prop} {Q : γ → Prop} (h : RSafe r Q')
    (hf : ∀ a, Q' a → RSafe (f a) Q) : RSafe (r >>= f) Q := by
  cases r with
  | ok a => exact hf a h
  | error e =>
    cases e with
    | div => trivial
    | fault f => cases f with
      | panic => trivial
      | ub s => exact h

theorem Safe.mono {x : Blk β ρ α} {Q Q' : α → Prop} {B B' : β → Prop} {R R' : ρ → Prop} (h : Safe x Q B R)
    (hq : ∀ a, Q a → Q' a) (hb : ∀ b, B b → B' b) (hr : ∀ r, R r → R' r) : Safe x Q' B' R' := by
  cases x with
  | ok a => exact hq a h
  | error e =>
    cases e with
    | brk b => exact hb b h
    | ret r => exact hr r h
    | err e => cases e with
      | div => trivial
      | fault f => cases f with
        | panic => trivial
        | ub s => exact h

theorem safe_pure {Q : α → Prop} {B : β → Prop} {R : ρ → Prop} {a : α} (h : Q a) : Safe (pure a : Blk β ρ α) Q B R := h

theorem safe_bind {x : Blk β ρ α} {f : α → Blk β ρ γ} {Q' : α → Prop} {Q : γ → Prop} {B : β → Prop} {R : ρ → Prop}
    (hx : Safe x Q' B R) (hf : ∀ a, Q' a → Safe (f a) Q B R) : Safe (x >>= f) Q B R := by
  cases x with
  | ok a => exact hf a hx
  | error e =>
    cases e with
    | brk b => exact hx
    | ret r => exact hx
    | err e => cases e with
      | div => trivial
      | fault f => cases f with
        | panic => trivial
        | ub s => exact hx

theorem safe_brk {Q : α → Prop} {B : β → Prop} {R : ρ → Prop} {b : β} (h : B b) : Safe (brk b : Blk β ρ α) Q B R := h
theorem safe_ret {Q : α → Prop} {B : β → Prop} {R : ρ → Prop} {r : ρ} (h : R r) : Safe (ret r : Blk β ρ α) Q B R := h
theorem safe_panic {Q : α → Prop} {B : β → Prop} {R : ρ → Prop} : Safe (panic : Blk β ρ α) Q B R := trivial

theorem safe_assert {B : β → Prop} {R : ρ → Prop} (b : Bool) :
    Safe (assert b : Blk β ρ Unit) (fun _ => b = true) B R := by
  unfold assert Chk.assert liftChk
  cases b <;> simp [Safe]

theorem safe_rd {B : β → Prop} {R : ρ → Prop} (site : String) (l : List α) (i : Nat) (h : i < l.length) :
    Safe (rd site l i : Blk β ρ α) (fun a => a ∈ l ∧ l[i]? = some a) B R := by
  unfold rd Chk.rd liftChk
  rw [List.getElem?_eq_getElem h]
  exact ⟨List.getElem_mem h, rfl⟩

theorem safe_wr {B : β → Prop} {R : ρ → Prop} (site : String) (l : List α) (i : Nat) (v : α) (h : i < l.length) :
    Safe (wr site l i v : Blk β ρ (List α)) (fun l' => l' = l.set i v) B R := by
  unfold wr Chk.wr liftChk
  rw [if_pos h]
  rfl

theorem safe_idx {B : β → Prop} {R : ρ → Prop} (l : List α) (i : Nat) :
    Safe (idx l i : Blk β ρ α) (fun a => a ∈ l ∧ l[i]? = some a) B R := by
  unfold idx Chk.rdChecked liftChk
  cases h : l[i]? with
  | none => trivial
  | some a => exact ⟨List.mem_of_getElem? h, rfl⟩

theorem safe_call {B : β → Prop} {R : ρ → Prop} {r : Res α} {Q : α → Prop} (h : RSafe r Q) :
    Safe (call r : Blk β ρ α) Q B R := by
  cases r with
  | ok a => exact h
  | error e =>
    cases e with
    | div => trivial
    | fault f => cases f with
      | panic => trivial
      | ub s => exact h

theorem safe_fnBody {x : Blk Empty ρ ρ} {Q : ρ → Prop} (h : Safe x Q (fun _ => True) Q) : RSafe (fnBody x) Q := by
  cases x with
  | ok a => exact h
  | error e =>
    cases e with
    | brk b => exact b.elim
    | ret r => exact h
    | err e => cases e with
      | div => trivial
      | fault f => cases f with
        | panic => trivial
        | ub s => exact h

theorem safe_foldlM (body : σ → α → Blk σ ρ σ) (I : σ → Prop) (R : ρ → Prop) :
    ∀ (l : List α) (s : σ), I s → (∀ s a, a ∈ l → I s → Safe (body s a) I I R) → Safe (l.foldlM body s) I I R := by
  intro l
  induction l with
  | nil => intro s hs _; exact hs
  | cons a l ih =>
    intro s hs hstep
    rw [List.foldlM_cons]
    exact safe_bind (hstep s a List.mem_cons_self hs) (fun s' hs' => ih s' hs' (fun s a ha => hstep s a (List.mem_cons_of_mem _ ha)))

/-- `for x in l { body }` with invariant `I` (also on the `break` exit). -/
theorem safe_forLoop {B : β → Prop} (body : σ → α → Blk σ ρ σ) (l : List α) (s : σ) (I : σ → Prop) (R : ρ → Prop)
    (h0 : I s) (hstep : ∀ s a, a ∈ l → I s → Safe (body s a) I I R) : Safe (forLoop body l s : Blk β ρ σ) I B R := by
  have h := safe_foldlM body I R l s h0 hstep
  unfold forLoop catchBrk
  cases hx : l.foldlM body s with
  | ok a => rw [hx] at h; exact h
  | error e =>
    rw [hx] at h
    cases e with
    | brk b => exact h
    | ret r => exact h
    | err e => cases e with
      | div => trivial
      | fault f => cases f with
        | panic => trivial
        | ub s => exact h

/-- `while c { body }` with invariant `I`. -/
theorem safe_whileLoop {B : β → Prop} (step : σ → Blk σ ρ σ) (I : σ → Prop) (R : ρ → Prop)
    (hstep : ∀ s, I s → Safe (step s) I I R) : ∀ (fuel : Nat) (s : σ), I s → Safe (whileLoop step fuel s : Blk β ρ σ) I B R := by
  intro fuel
  induction fuel with
  | zero => intro s hs; exact hs
  | succ fuel ih =>
    intro s hs
    have h := hstep s hs
    unfold whileLoop
    cases hx : step s with
    | ok a => rw [hx] at h; exact ih a h
    | error e =>
      rw [hx] at h
      cases e with
      | brk b => exact h
      | ret r => exact h
      | err e => cases e with
        | div => trivial
        | fault f => cases f with
          | panic => trivial
          | ub s => exact h

/-- `loop { body }`: invariant `I`, the `break` value satisfies `P`. -/
theorem safe_loopLoop {B : β → Prop} (step : σ → Blk (γ × σ) ρ σ) (I : σ → Prop) (P : γ × σ → Prop) (R : ρ → Prop)
    (hstep : ∀ s, I s → Safe (step s) I P R) : ∀ (fuel : Nat) (s : σ), I s → Safe (loopLoop step fuel s : Blk β ρ (γ × σ)) P B R := by
  intro fuel
  induction fuel with
  | zero => intro s _; trivial
  | succ fuel ih =>
    intro s hs
    have h := hstep s hs
    unfold loopLoop
    cases hx : step s with
    | ok a => rw [hx] at h; exact ih a h
    | error e =>
      rw [hx] at h
      cases e with
      | brk b => exact h
      | ret r => exact h
      | err e => cases e with
        | div => trivial
        | fault f => cases f with
          | panic => trivial
          | ub s => exact h

/-- `for x in self { body }`: `J` is kept by the struct's `next`, every yielded item satisfies `P`,
the body keeps `I` for such items. -/
theorem safe_iterLoop {B : β → Prop} (next : τ → Res (Option ι × τ)) (body : σ → ι → Blk σ ρ σ)
    (J : τ → Prop) (P : ι → Prop) (I : σ → Prop) (R : ρ → Prop)
    (hnext : ∀ t, J t → RSafe (next t) (fun r => J r.2 ∧ ∀ x, r.1 = some x → P x))
    (hbody : ∀ s x, I s → P x → Safe (body s x) I I R) :
    ∀ (fuel : Nat) (t : τ) (s : σ), J t → I s →
      Safe (iterLoop next body fuel t s : Blk β ρ (σ × τ)) (fun r => I r.1 ∧ J r.2) B R := by
  intro fuel
  induction fuel with
  | zero => intro t s ht hs; exact ⟨hs, ht⟩
  | succ fuel ih =>
    intro t s ht hs
    have hn := hnext t ht
    unfold iterLoop
    cases hx : next t with
    | error e =>
      rw [hx] at hn
      cases e with
      | div => trivial
      | fault f => cases f with
        | panic => trivial
        | ub s => exact hn
    | ok r =>
      rw [hx] at hn
      obtain ⟨o, t'⟩ := r
      cases o with
      | none => exact ⟨hs, hn.1⟩
      | some x =>
        have hb := hbody s x hs (hn.2 x rfl)
        show Safe (match body s x with
          | .ok s' => iterLoop next body fuel t' s'
          | .error (.brk s') => .ok (s', t')
          | .error (.ret r) => .error (.ret r)
          | .error (.err e) => .error (.err e)) _ B R
        cases hy : body s x with
        | ok s' => rw [hy] at hb; exact ih t' s' hn.1 hb
        | error e =>
          rw [hy] at hb
          cases e with
          | brk b => exact ⟨hb, hn.1⟩
          | ret r => exact hb
          | err e => cases e with
            | div => trivial
            | fault f => cases f with
              | panic => trivial
              | ub s => exact hb

/-- As `safe_iterLoop` for `iterLoopS` (the body also gets the iterator state). -/
theorem safe_iterLoopS {B : β → Prop} (next : τ → Res (Option ι × τ)) (body : τ → σ → ι → Blk σ ρ σ)
    (J : τ → Prop) (P : ι → Prop) (I : σ → Prop) (R : ρ → Prop)
    (hnext : ∀ t, J t → RSafe (next t) (fun r => J r.2 ∧ ∀ x, r.1 = some x → P x))
    (hbody : ∀ t s x, J t → I s → P x → Safe (body t s x) I I R) :
    ∀ (fuel : Nat) (t : τ) (s : σ), J t → I s →
      Safe (iterLoopS next body fuel t s : Blk β ρ (σ × τ)) (fun r => I r.1 ∧ J r.2) B R := by
  intro fuel
  induction fuel with
  | zero => intro t s ht hs; exact ⟨hs, ht⟩
  | succ fuel ih =>
    intro t s ht hs
    have hn := hnext t ht
    unfold iterLoopS
    cases hx : next t with
    | error e =>
      rw [hx] at hn
      cases e with
      | div => trivial
      | fault f => cases f with
        | panic => trivial
        | ub s => exact hn
    | ok r =>
      rw [hx] at hn
      obtain ⟨o, t'⟩ := r
      cases o with
      | none => exact ⟨hs, hn.1⟩
      | some x =>
        have hb := hbody t' s x hn.1 hs (hn.2 x rfl)
        show Safe (match body t' s x with
          | .ok s' => iterLoopS next body fuel t' s'
          | .error (.brk s') => .ok (s', t')
          | .error (.ret r) => .error (.ret r)
          | .error (.err e) => .error (.err e)) _ B R
        cases hy : body t' s x with
        | ok s' => rw [hy] at hb; exact ih t' s' hn.1 hb
        | error e =>
          rw [hy] at hb
          cases e with
          | brk b => exact ⟨hb, hn.1⟩
          | ret r => exact hb
          | err e => cases e with
            | div => trivial
            | fault f => cases f with
              | panic => trivial
              | ub s => exact hb

end GraafVerif.C13Gen
