import GraafVerif.Proof.AlgoGen4Semi
import GraafVerif.Proof.OpsMerge
/-!
# Generated `merge_two_sorted` and `AdjacencyList::union` = the hand-written `Ops.mergeTwoSorted`, `Ops.unionAL a b ap`
-/
set_option linter.unusedSimpArgs false
namespace GraafVerif.AlgoGenThm
open GraafVerif GraafVerif.AlgoGen GraafVerif.Repr

namespace AdjacencyList

/-! ## `merge_two_sorted` -/

theorem mergeTwoSorted_while0_eq (l r : List Nat) (out : List Nat) (i j : Nat) (hi : i < l.length) (hj : j < r.length) :
    (AlgoGen.AdjacencyList.mergeTwoSorted_while0 l r l.length r.length (out, i, j) : Blk _ (List Nat) _) =
      .ok (if l[i] < r[j] then (out ++ [l[i]], i + 1, j)
           else if l[i] > r[j] then (out ++ [r[j]], i, j + 1) else (out ++ [l[i]], i + 1, j + 1)) := by
  unfold AlgoGen.AdjacencyList.mergeTwoSorted_while0
  simp only [hi, hj, decide_true, Bool.and_self, if_true, rd_lt _ _ _ hi, rd_lt _ _ _ hj, ok_bind]
  by_cases h1 : l[i] < r[j]
  · simp only [h1, if_true]; rfl
  · simp only [h1, if_false, ok_bind]
    by_cases h2 : l[i] > r[j]
    · simp only [h2, if_true]; rfl
    · simp only [h2, if_false]; rfl

theorem mergeTwoSorted_while0_exit (l r : List Nat) (out : List Nat) (i j : Nat) (h : ¬ (i < l.length ∧ j < r.length)) :
    (AlgoGen.AdjacencyList.mergeTwoSorted_while0 l r l.length r.length (out, i, j) : Blk _ (List Nat) _) = brk (out, i, j) := by
  unfold AlgoGen.AdjacencyList.mergeTwoSorted_while0
  have : ((decide (i < l.length)) && (decide (j < r.length))) = false := by
    by_cases h1 : i < l.length <;> by_cases h2 : j < r.length <;> simp [h1, h2] at h ⊢
  simp only [this, Bool.false_eq_true, if_false]

/-- a loop that copies the rest of a slice -/
theorem copy_rest (step : List Nat × Nat → Blk (List Nat × Nat) (List Nat) (List Nat × Nat)) (l : List Nat)
    (hstep : ∀ out i, (hi : i < l.length) → step (out, i) = .ok (out ++ [l[i]], i + 1))
    (hexit : ∀ out i, ¬ i < l.length → step (out, i) = brk (out, i)) :
    ∀ (m : Nat) (out : List Nat) (i F : Nat), l.length - i ≤ m → l.length - i ≤ F → ∃ i',
      (whileLoop step F (out, i) : Blk Empty (List Nat) _) = .ok (out ++ l.drop i, i') := by
  intro m
  induction m with
  | zero =>
    intro out i F hm _
    have hi : ¬ i < l.length := by omega
    have hd : l.drop i = [] := List.drop_eq_nil_of_le (by omega)
    refine ⟨i, ?_⟩
    rw [hd]
    cases F with
    | zero => simp [whileLoop]
    | succ F => simp [whileLoop, hexit out i hi, brk]
  | succ m ih =>
    intro out i F hm hF
    by_cases hi : i < l.length
    · obtain ⟨F', rfl⟩ : ∃ F', F = F' + 1 := ⟨F - 1, by omega⟩
      have hd : l.drop i = l[i] :: l.drop (i + 1) := List.drop_eq_getElem_cons hi
      obtain ⟨i', h⟩ := ih (out ++ [l[i]]) (i + 1) F' (by omega) (by omega)
      refine ⟨i', ?_⟩
      rw [hd]
      simp only [whileLoop, hstep out i hi, h, List.append_assoc, List.singleton_append]
    · have hd : l.drop i = [] := List.drop_eq_nil_of_le (by omega)
      refine ⟨i, ?_⟩
      rw [hd]
      cases F with
      | zero => simp [whileLoop]
      | succ F => simp [whileLoop, hexit out i hi, brk]

theorem mergeTwoSorted_while1_eq (l : List Nat) (out : List Nat) (i : Nat) (hi : i < l.length) :
    (AlgoGen.AdjacencyList.mergeTwoSorted_while1 l (out, i) : Blk _ (List Nat) _) = .ok (out ++ [l[i]], i + 1) := by
  unfold AlgoGen.AdjacencyList.mergeTwoSorted_while1
  simp only [hi, if_true, rd_lt _ _ _ hi, ok_bind, pure_eq_ok]

theorem mergeTwoSorted_while2_eq (r : List Nat) (out : List Nat) (j : Nat) (hj : j < r.length) :
    (AlgoGen.AdjacencyList.mergeTwoSorted_while2 r (out, j) : Blk _ (List Nat) _) = .ok (out ++ [r[j]], j + 1) := by
  unfold AlgoGen.AdjacencyList.mergeTwoSorted_while2
  simp only [hj, if_true, rd_lt _ _ _ hj, ok_bind, pure_eq_ok]

theorem while1_copy (l : List Nat) : ∀ (m : Nat) (out : List Nat) (i F : Nat), l.length - i ≤ m → l.length - i ≤ F → ∃ i',
    (whileLoop (AlgoGen.AdjacencyList.mergeTwoSorted_while1 l) F (out, i) : Blk Empty (List Nat) _) = .ok (out ++ l.drop i, i') :=
  copy_rest (AlgoGen.AdjacencyList.mergeTwoSorted_while1 l) l
  (fun out i hi => by
    unfold AlgoGen.AdjacencyList.mergeTwoSorted_while1
    simp only [hi, if_true, rd_lt _ _ _ hi, ok_bind, pure_eq_ok])
  (fun out i hi => by
    unfold AlgoGen.AdjacencyList.mergeTwoSorted_while1
    simp only [hi, if_false])

theorem while2_copy (r : List Nat) : ∀ (m : Nat) (out : List Nat) (j F : Nat), r.length - j ≤ m → r.length - j ≤ F → ∃ j',
    (whileLoop (AlgoGen.AdjacencyList.mergeTwoSorted_while2 r) F (out, j) : Blk Empty (List Nat) _) = .ok (out ++ r.drop j, j') :=
  copy_rest (AlgoGen.AdjacencyList.mergeTwoSorted_while2 r) r
  (fun out j hj => by
    unfold AlgoGen.AdjacencyList.mergeTwoSorted_while2
    simp only [hj, if_true, rd_lt _ _ _ hj, ok_bind, pure_eq_ok])
  (fun out j hj => by
    unfold AlgoGen.AdjacencyList.mergeTwoSorted_while2
    simp only [hj, if_false])

/-- the rest of the function after the first loop: both tails are appended (one of them is empty) -/
def mergeTail (l r : List Nat) (t : List Nat × Nat × Nat) : Blk Empty (List Nat) (List Nat) := do
  let t6 ← whileLoop (AlgoGen.AdjacencyList.mergeTwoSorted_while1 l) l.length (t.1, t.2.1)
  let t8 ← whileLoop (AlgoGen.AdjacencyList.mergeTwoSorted_while2 r) r.length (t6.1, t.2.2)
  pure t8.1

theorem mergeTail_eq (l r : List Nat) (out : List Nat) (i j : Nat) :
    mergeTail l r (out, i, j) = .ok (out ++ l.drop i ++ r.drop j) := by
  unfold mergeTail
  obtain ⟨i', h1⟩ := while1_copy l l.length out i l.length (by omega) (by omega)
  simp only [h1, ok_bind]
  obtain ⟨j', h2⟩ := while2_copy r r.length (out ++ l.drop i) j r.length (by omega) (by omega)
  simp only [h2, ok_bind, pure_eq_ok]

theorem merge_loops (l r : List Nat) : ∀ (m : Nat) (out : List Nat) (i j F : Nat),
    (l.length - i) + (r.length - j) ≤ m → (l.length - i) + (r.length - j) ≤ F →
    ((whileLoop (AlgoGen.AdjacencyList.mergeTwoSorted_while0 l r l.length r.length) F (out, i, j) : Blk Empty (List Nat) _) >>=
      mergeTail l r) = .ok (out ++ Ops.mergeTwoSorted (l.drop i) (r.drop j)) := by
  intro m
  induction m with
  | zero =>
    intro out i j F hm _
    have hij : ¬ (i < l.length ∧ j < r.length) := by omega
    have hd : l.drop i = [] := List.drop_eq_nil_of_le (by omega)
    have hr : r.drop j = [] := List.drop_eq_nil_of_le (by omega)
    have hmt : Ops.mergeTwoSorted ([] : List Nat) [] = [] := rfl
    cases F with
    | zero => simp only [whileLoop, ok_bind, mergeTail_eq, hd, hr, hmt, List.append_nil]
    | succ F => simp only [whileLoop, mergeTwoSorted_while0_exit l r out i j hij, brk, ok_bind, mergeTail_eq, hd, hr, hmt,
        List.append_nil]
  | succ m ih =>
    intro out i j F hm hF
    by_cases hij : i < l.length ∧ j < r.length
    · obtain ⟨hi, hj⟩ := hij
      obtain ⟨F', rfl⟩ : ∃ F', F = F' + 1 := ⟨F - 1, by omega⟩
      have hd : l.drop i = l[i] :: l.drop (i + 1) := List.drop_eq_getElem_cons hi
      have hv : r.drop j = r[j] :: r.drop (j + 1) := List.drop_eq_getElem_cons hj
      have hunf : Ops.mergeTwoSorted (l[i] :: l.drop (i + 1)) (r[j] :: r.drop (j + 1)) =
          if l[i] < r[j] then l[i] :: Ops.mergeTwoSorted (l.drop (i + 1)) (r[j] :: r.drop (j + 1))
          else if r[j] < l[i] then r[j] :: Ops.mergeTwoSorted (l[i] :: l.drop (i + 1)) (r.drop (j + 1))
          else l[i] :: Ops.mergeTwoSorted (l.drop (i + 1)) (r.drop (j + 1)) := by
        have e : (l[i] :: l.drop (i + 1)).length + (r[j] :: r.drop (j + 1)).length =
            ((l.drop (i + 1)).length + (r.drop (j + 1)).length + 1) + 1 := by simp; omega
        unfold Ops.mergeTwoSorted
        rw [e, Ops.mergeFuel]
        rw [Ops.mergeFuel_adequate _ (l.drop (i + 1)) (r[j] :: r.drop (j + 1)) (by simp; omega),
          Ops.mergeFuel_adequate _ (l[i] :: l.drop (i + 1)) (r.drop (j + 1)) (by simp; omega),
          Ops.mergeFuel_adequate _ (l.drop (i + 1)) (r.drop (j + 1)) (by omega)]
        rfl
      rw [hd, hv, hunf]
      simp only [whileLoop, mergeTwoSorted_while0_eq l r out i j hi hj]
      by_cases h1 : l[i] < r[j]
      · have := ih (out ++ [l[i]]) (i + 1) j F' (by omega) (by omega)
        rw [hv] at this
        simp only [h1, if_true, this, List.append_assoc, List.singleton_append]
      · by_cases h2 : l[i] > r[j]
        · have := ih (out ++ [r[j]]) i (j + 1) F' (by omega) (by omega)
          rw [hd] at this
          have h2' : r[j] < l[i] := h2
          simp only [h1, h2, h2', if_true, if_false, this, List.append_assoc, List.singleton_append]
        · have := ih (out ++ [l[i]]) (i + 1) (j + 1) F' (by omega) (by omega)
          have h2' : ¬ r[j] < l[i] := h2
          simp only [h1, h2, h2', if_false, this, List.append_assoc, List.singleton_append]
    · have htail : Ops.mergeTwoSorted (l.drop i) (r.drop j) = l.drop i ++ r.drop j := by
        by_cases hi : i < l.length
        · have hr : r.drop j = [] := List.drop_eq_nil_of_le (by omega)
          rw [hr, List.append_nil]
          unfold Ops.mergeTwoSorted
          cases hl : l.drop i with
          | nil => rfl
          | cons a t => simp [Ops.mergeFuel]
        · have hd : l.drop i = [] := List.drop_eq_nil_of_le (by omega)
          rw [hd, List.nil_append]
          unfold Ops.mergeTwoSorted
          cases hr : r.drop j with
          | nil => rfl
          | cons a t => simp [Ops.mergeFuel]
      rw [htail, ← List.append_assoc]
      cases F with
      | zero => simp only [whileLoop, ok_bind, mergeTail_eq]
      | succ F => simp only [whileLoop, mergeTwoSorted_while0_exit l r out i j hij, brk, ok_bind, mergeTail_eq]

/-- the generated `merge_two_sorted` = the hand-written `Ops.mergeTwoSorted`, for all slices (no unchecked read is
out of bounds) -/
theorem mergeTwoSorted_eq (l r : List Nat) : AlgoGen.AdjacencyList.mergeTwoSorted l r = .ok (Ops.mergeTwoSorted l r) := by
  have h := merge_loops l r (l.length + r.length) [] 0 0 (l.length + r.length) (by omega) (by omega)
  simp only [List.drop_zero, List.nil_append] at h
  unfold AlgoGen.AdjacencyList.mergeTwoSorted
  dsimp only
  cases hw : (whileLoop (AlgoGen.AdjacencyList.mergeTwoSorted_while0 l r l.length r.length) (l.length + r.length) ([], 0, 0) :
      Blk Empty (List Nat) _) with
  | error e => rw [hw] at h; cases e <;> cases h
  | ok t =>
    rw [hw] at h
    simp only [ok_bind] at h ⊢
    unfold mergeTail at h
    cases h1 : (whileLoop (AlgoGen.AdjacencyList.mergeTwoSorted_while1 l) l.length (t.1, t.2.1) : Blk Empty (List Nat) _) with
    | error e => rw [h1] at h; cases e <;> cases h
    | ok t6 =>
      rw [h1] at h
      simp only [ok_bind] at h ⊢
      cases h2 : (whileLoop (AlgoGen.AdjacencyList.mergeTwoSorted_while2 r) r.length (t6.1, t.2.2) : Blk Empty (List Nat) _) with
      | error e => rw [h2] at h; cases e <;> cases h
      | ok t8 =>
        rw [h2] at h
        simp only [ok_bind, pure_eq_ok] at h ⊢
        rw [fnBody_ok]
        injection h with h
        rw [h]

/-! ## `AdjacencyList::union` -/

theorem stepRanges_closed (n chunk : Nat) (hc : 0 < chunk) : ∀ (fuel id : Nat), (n + chunk - 1) / chunk ≤ id + fuel →
    Ops.stepRanges.go n chunk fuel (id * chunk) =
      (List.range' id ((n + chunk - 1) / chunk - id)).map fun i => (i * chunk, min (i * chunk + chunk) n) := by
  intro fuel
  induction fuel with
  | zero =>
    intro id h
    have : (n + chunk - 1) / chunk - id = 0 := by omega
    simp [Ops.stepRanges.go, this]
  | succ fuel ih =>
    intro id h
    unfold Ops.stepRanges.go
    by_cases hlt : id * chunk < n
    · have hK : ¬ (n + chunk - 1) / chunk ≤ id := fun h' => by
        have := (ceil_le_iff n chunk id hc).1 h'
        omega
      simp only [hlt, if_true]
      have hnext : id * chunk + chunk = (id + 1) * chunk := by rw [Nat.succ_mul]
      rw [hnext, ih (id + 1) (by omega)]
      have : (n + chunk - 1) / chunk - id = ((n + chunk - 1) / chunk - (id + 1)) + 1 := by omega
      rw [this, List.range'_succ, List.map_cons, hnext]
    · have := (ceil_le_iff n chunk id hc).2 (Nat.le_of_not_lt hlt)
      have h0 : (n + chunk - 1) / chunk - id = 0 := by omega
      simp [hlt, h0]

theorem union_for1_eq (a b : AdjList) (arcs : List (List Nat)) (u : Nat) (hu : u < arcs.length) :
    (AlgoGen.AdjacencyList.union_for1 a b arcs u : Blk (List (List Nat)) AdjList _) = .ok (arcs.set u (Ops.unionRowAL a b u)) := by
  unfold AlgoGen.AdjacencyList.union_for1 Ops.unionRowAL
  by_cases h1 : u < a.order <;> by_cases h2 : u < b.order
  all_goals
    simp only [h1, h2, if_true, if_false, ok_bind, pure_eq_ok, mergeTwoSorted_eq, call_ok, wr_lt _ _ _ _ hu]
  · have h1' : u < a.rows.length := h1
    have h2' : u < b.rows.length := h2
    simp only [rd_lt _ _ _ h1', rd_lt _ _ _ h2', ok_bind, mergeTwoSorted_eq, call_ok, wr_lt _ _ _ _ hu, pure_eq_ok,
      List.getElem?_eq_getElem h1', List.getElem?_eq_getElem h2', Option.getD_some]
  · have h1' : u < a.rows.length := h1
    simp only [rd_lt _ _ _ h1', ok_bind, mergeTwoSorted_eq, call_ok, wr_lt _ _ _ _ hu, pure_eq_ok,
      List.getElem?_eq_getElem h1', Option.getD_some]
  · have h2' : u < b.rows.length := h2
    simp only [rd_lt _ _ _ h2', ok_bind, mergeTwoSorted_eq, call_ok, wr_lt _ _ _ _ hu, pure_eq_ok,
      List.getElem?_eq_getElem h2', Option.getD_some]

theorem union_for0_eq (a b : AdjList) (order chunk : Nat) (arcs : List (List Nat)) (start : Nat) (hlen : arcs.length = order) :
    (AlgoGen.AdjacencyList.union_for0 a b order chunk arcs start : Blk (List (List Nat)) AdjList _) =
        .ok ((List.range' start (min (start + chunk) order - start)).foldl (fun arcs u => arcs.set u (Ops.unionRowAL a b u)) arcs) ∧
      ((List.range' start (min (start + chunk) order - start)).foldl (fun arcs u => arcs.set u (Ops.unionRowAL a b u)) arcs).length = order := by
  unfold AlgoGen.AdjacencyList.union_for0 AlgoGen.range
  dsimp only
  have hloop := forLoop_pure_inv (β := List (List Nat)) (ρ := AdjList) (fun x : List (List Nat) => x.length = order)
    (AlgoGen.AdjacencyList.union_for1 a b) (fun arcs u => arcs.set u (Ops.unionRowAL a b u))
    (List.range' start (min (start + chunk) order - start))
    (fun s u hu hs => ⟨union_for1_eq a b s u (by
      have h1 := (List.mem_range'_1.1 hu).1
      have h2 := (List.mem_range'_1.1 hu).2
      have : min (start + chunk) order ≤ order := Nat.min_le_right _ _
      omega), by rw [List.length_set]; exact hs⟩)
    _ arcs (fun _ h => h) hlen
  rw [hloop.1]
  exact ⟨rfl, hloop.2⟩

/-- `AdjacencyList::union` with `available_parallelism() = ap` = the hand-written `Ops.unionAL a b ap`, for every pair
of values and every `ap` (0 included: both panic; order 0: `step_by(0)` panics in both); no pointer access is out of bounds. -/
theorem union_eq (ap : Nat) (a b : AdjList) : AlgoGen.AdjacencyList.union ap a b = optR (Ops.unionAL a b ap) := by
  unfold AlgoGen.AdjacencyList.union Ops.unionAL
  dsimp only
  by_cases hap : ap = 0
  · subst hap
    simp only [divCeilP_zero, if_true]
    rfl
  · have hap' : 0 < ap := Nat.pos_of_ne_zero hap
    simp only [hap, if_false, divCeilP_pos _ _ hap', ok_bind]
    by_cases hc0 : (max a.order b.order + ap - 1) / ap = 0
    · simp only [hc0, if_true, stepByP]
      rfl
    · have hc : 0 < (max a.order b.order + ap - 1) / ap := Nat.pos_of_ne_zero hc0
      simp only [hc0, if_false, stepByP_range _ _ hc, ok_bind]
      have hloop := forLoop_pure_inv (β := Empty) (ρ := AdjList) (fun x : List (List Nat) => x.length = max a.order b.order)
        (AlgoGen.AdjacencyList.union_for0 a b (max a.order b.order) ((max a.order b.order + ap - 1) / ap))
        (fun arcs start => (List.range' start (min (start + (max a.order b.order + ap - 1) / ap) (max a.order b.order) - start)).foldl
          (fun arcs u => arcs.set u (Ops.unionRowAL a b u)) arcs)
        ((List.range ((max a.order b.order + (max a.order b.order + ap - 1) / ap - 1) / ((max a.order b.order + ap - 1) / ap))).map
          (· * ((max a.order b.order + ap - 1) / ap)))
        (fun s start _ hs => union_for0_eq a b _ _ s start hs)
        _ (List.replicate (max a.order b.order) []) (fun _ h => h) List.length_replicate
      rw [hloop.1]
      simp only [ok_bind, pure_eq_ok, fnBody_ok, optR]
      congr 2
      unfold Ops.stepRanges
      have hK : (max a.order b.order + (max a.order b.order + ap - 1) / ap - 1) / ((max a.order b.order + ap - 1) / ap) ≤
          0 + max a.order b.order := by
        rw [Nat.zero_add]
        apply (ceil_le_iff _ _ _ hc).2
        exact Nat.le_mul_of_pos_right _ hc
      have hcl := stepRanges_closed (max a.order b.order) _ hc (max a.order b.order) 0 hK
      rw [Nat.zero_mul, Nat.sub_zero] at hcl
      rw [hcl, List.foldl_map, ← List.range_eq_range', List.foldl_map]

end AdjacencyList
end GraafVerif.AlgoGenThm
