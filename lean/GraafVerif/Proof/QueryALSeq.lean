import GraafVerif.Proof.QueryAL
import GraafVerif.Proof.Par
/-!
# C02 — `AdjacencyList`: `indegree_sequence` (histogram fold) and the threaded `degree_sequence`
for every thread count (`degreeSequence_par`, via `Par.chunks_tile`)
-/
namespace GraafVerif.Query
open GraafVerif.Repr

namespace AL

/-! ## histograms -/
theorem bump_length (h : List Nat) (v : Nat) : (bump h v).length = h.length := by simp [bump]

theorem bump_get (h : List Nat) (v k : Nat) (hk : k < h.length) :
    (bump h v)[k]?.getD 0 = h[k]?.getD 0 + (if v = k then 1 else 0) := by
  unfold bump
  rw [List.getElem?_set]
  by_cases hvk : v = k
  · subst hvk; simp [hk]
  · simp [hvk]

theorem foldl_bump_length (row h : List Nat) : (row.foldl bump h).length = h.length := by
  induction row generalizing h with
  | nil => rfl
  | cons a row ih => simp [List.foldl_cons, ih, bump_length]

theorem foldl_bump_get (row h : List Nat) (k : Nat) (hk : k < h.length) :
    (row.foldl bump h)[k]?.getD 0 = h[k]?.getD 0 + row.count k := by
  induction row generalizing h with
  | nil => simp
  | cons a row ih =>
    rw [List.foldl_cons, ih _ (by rw [bump_length]; exact hk), bump_get h a k hk, List.count_cons]
    by_cases hak : a = k
    · subst hak; simp; omega
    · have : (a == k) = false := by simp [hak]
      simp [hak, this]

theorem histogram_length (rows : List (List Nat)) (init : List Nat) : (histogram rows init).length = init.length := by
  unfold histogram
  induction rows generalizing init with
  | nil => rfl
  | cons r rows ih => simp [List.foldl_cons, ih, foldl_bump_length]

theorem histogram_get (rows : List (List Nat)) (init : List Nat) (k : Nat) (hk : k < init.length) :
    (histogram rows init)[k]?.getD 0 = init[k]?.getD 0 + (rows.map (fun r => r.count k)).sum := by
  unfold histogram
  induction rows generalizing init with
  | nil => simp
  | cons r rows ih =>
    rw [List.foldl_cons, ih _ (by rw [foldl_bump_length]; exact hk), foldl_bump_get r init k hk]
    simp; omega

theorem sum_count_eq_filter (rows : List (List Nat)) (k : Nat) (hn : ∀ r ∈ rows, r.Nodup) :
    (rows.map (fun r => r.count k)).sum = (rows.filter (fun r => r.contains k)).length := by
  induction rows with
  | nil => rfl
  | cons r rows ih =>
    have hr := hn r (by simp)
    rw [List.map_cons, List.sum_cons, ih (fun r' h' => hn r' (by simp [h'])), List.filter_cons, hr.count]
    by_cases hk : k ∈ r
    · simp [hk]; omega
    · simp [hk]

theorem rows_nodup {d : AdjList} (h : d.WF) : ∀ r ∈ d.rows, r.Nodup := by
  intro r hr
  obtain ⟨i, hi, rfl⟩ := List.getElem_of_mem hr
  have := (h.2 i d.rows[i] (by simp [hi])).1
  exact nodup_of_sorted this

theorem replicate_get (n k : Nat) : (List.replicate n 0)[k]?.getD 0 = 0 := by
  by_cases hk : k < n
  · simp [hk]
  · simp [hk]

/-- `AdjacencyList::indegree_sequence` (histogram fold) is the indegree of every vertex, in vertex order. -/
theorem indegreeSequence_spec {d : AdjList} (h : d.WF) : indegreeSequence d = Spec.indegreeSequence (abs d) := by
  unfold indegreeSequence Spec.indegreeSequence
  apply List.ext_getElem
  · simp [histogram_length, abs, AdjList.vertices]
  · intro k h1 h2
    have hk : k < d.order := by simpa [histogram_length] using h1
    have := histogram_get d.rows (List.replicate d.order 0) k (by simpa using hk)
    rw [replicate_get, Nat.zero_add, sum_count_eq_filter _ _ (rows_nodup h), indegree_spec] at this
    have h3 : (histogram d.rows (List.replicate d.order 0))[k]?.getD 0 = (histogram d.rows (List.replicate d.order 0))[k] := by
      simp [h1]
    rw [← h3, this]
    simp [abs, AdjList.vertices]

/-! ## slices and the thread chunks -/
theorem slice_eq (l : List (List Nat)) (s k : Nat) :
    (l.drop s).take k = (List.range' s k).filterMap (fun i => l[i]?) := by
  induction k with
  | zero => simp
  | succ k ih =>
    rw [List.take_add_one, ih, List.range'_concat, List.filterMap_append, List.getElem?_drop]
    congr 1
    simp only [List.filterMap_cons, List.filterMap_nil, Nat.one_mul]
    cases l[s + k]? <;> rfl

theorem flatMap_slices (l : List (List Nat)) (rs : List (Nat × Nat)) (n : Nat) (hn : n = l.length)
    (ht : Par.expand rs = List.range n) :
    rs.flatMap (fun r => (l.drop r.1).take (r.2 - r.1)) = l := by
  have : rs.flatMap (fun r => (l.drop r.1).take (r.2 - r.1)) = (Par.expand rs).filterMap (fun i => l[i]?) := by
    unfold Par.expand
    rw [List.filterMap_flatMap]
    congr 1
    funext r
    exact slice_eq l r.1 (r.2 - r.1)
  rw [this, ht, hn]
  have := slice_eq l 0 l.length
  simp [List.range_eq_range'] at this ⊢
  exact this.symm

/-! ## summing the per-thread histograms -/
theorem addVec_length (a b : List Nat) : (addVec a b).length = min a.length b.length := by simp [addVec]

theorem addVec_get (a b : List Nat) (k : Nat) (ha : k < a.length) (hb : k < b.length) :
    (addVec a b)[k]?.getD 0 = a[k]?.getD 0 + b[k]?.getD 0 := by
  simp [addVec, List.getElem?_zipWith, ha, hb]

theorem foldl_addVec (ls : List (List Nat)) (acc : List Nat) (n k : Nat) (hk : k < n)
    (hacc : acc.length = n) (hls : ∀ l ∈ ls, l.length = n) :
    (ls.foldl addVec acc).length = n ∧
    (ls.foldl addVec acc)[k]?.getD 0 = acc[k]?.getD 0 + (ls.map (fun l => l[k]?.getD 0)).sum := by
  induction ls generalizing acc with
  | nil => simp [hacc]
  | cons l ls ih =>
    have hl := hls l (by simp)
    have hlen : (addVec acc l).length = n := by rw [addVec_length, hacc, hl]; simp
    obtain ⟨h1, h2⟩ := ih (addVec acc l) hlen (fun l' h' => hls l' (by simp [h']))
    rw [List.foldl_cons]
    refine ⟨h1, ?_⟩
    rw [h2, addVec_get acc l k (by omega) (by omega)]
    simp; omega

theorem sum_map_flatMap {α β : Type} (rs : List α) (f : α → List β) (g : β → Nat) :
    (rs.map (fun r => ((f r).map g).sum)).sum = ((rs.flatMap f).map g).sum := by
  induction rs with
  | nil => rfl
  | cons r rs ih => simp [List.flatMap_cons, List.sum_append, ih]

theorem sum_replicate_zero (m : Nat) (f : List Nat → Nat) (z : List Nat) (hz : f z = 0) :
    ((List.replicate m z).map f).sum = 0 := by
  induction m with
  | zero => rfl
  | succ m ih => simp [List.replicate_succ, hz]

/-- The per-thread indegree histograms, summed, do not depend on the number of threads. -/
theorem par_indegrees {d : AdjList} (h : d.WF) (t : Nat) (ht : 0 < t) (k : Nat) (hk : k < d.order) :
    let zeros := List.replicate d.order 0
    let chunks := Par.ranges d.order t
    let locals := chunks.map (fun r => histogram ((d.rows.drop r.1).take (r.2 - r.1)) zeros)
        ++ List.replicate (t - chunks.length) zeros
    (locals.foldl addVec zeros)[k]?.getD 0 = Spec.indegree (abs d) k := by
  intro zeros chunks locals
  have hz : zeros.length = d.order := by simp [zeros]
  have hl : ∀ l ∈ locals, l.length = d.order := by
    intro l hl
    rcases List.mem_append.1 hl with hl | hl
    · obtain ⟨r, _, rfl⟩ := List.mem_map.1 hl
      rw [histogram_length, hz]
    · rw [(List.mem_replicate.1 hl).2, hz]
  rw [(foldl_addVec locals zeros d.order k hk hz hl).2]
  have h0 : zeros[k]?.getD 0 = 0 := replicate_get _ _
  rw [h0, Nat.zero_add, List.map_append, List.sum_append, List.map_map,
    sum_replicate_zero _ (fun l => l[k]?.getD 0) zeros h0, Nat.add_zero]
  have hc : (chunks.map ((fun l => l[k]?.getD 0) ∘ fun r => histogram ((d.rows.drop r.1).take (r.2 - r.1)) zeros))
      = chunks.map (fun r => (((d.rows.drop r.1).take (r.2 - r.1)).map (fun row => row.count k)).sum) := by
    apply List.map_congr_left
    intro r _
    simp only [Function.comp]
    rw [histogram_get _ zeros k (by rw [hz]; exact hk), h0, Nat.zero_add]
  rw [hc, sum_map_flatMap,
    flatMap_slices d.rows chunks d.order rfl (Par.chunks_tile d.order t ht h.1),
    sum_count_eq_filter _ _ (rows_nodup h), indegree_spec]

/-- `AdjacencyList::degree_sequence` returns the degree of every vertex in vertex order, for every
number of worker threads. -/
theorem degreeSequence_par {d : AdjList} (h : d.WF) (t : Nat) (ht : 0 < t) :
    degreeSequence d t = Spec.degreeSequence (abs d) := by
  unfold degreeSequence Spec.degreeSequence
  show _ = (List.range d.order).map _
  apply List.map_congr_left
  intro u hu
  have hu := List.mem_range.1 hu
  have := par_indegrees h t ht u hu
  simp only at this
  rw [this, Spec.degree, Spec.outdegree, outNeighbors_spec h]
  rfl

theorem seq_correct {d : AdjList} (h : d.WF) : SeqCorrect (core d) (abs d) where
  indegreeSequence := by simp [core, indegreeSequence_spec h]
  degreeSequence := fun t ht => by simp [core, degreeSequence_par h t ht]

end AL
end GraafVerif.Query
