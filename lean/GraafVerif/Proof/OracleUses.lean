import GraafVerif.Proof.OracleWDist
import GraafVerif.Proof.BfsDesc
import GraafVerif.Proof.FwDesc
/-!
# Corollaries in the exact shapes the drivers use the oracles

* H04/H05 (`mkCtx`): `reachSetB g S` for order `≤ 40`, else `(hopDistB g S).map Option.isSome`;
* H03: `(wdistB g S).1` on non-negative weights (flag never looked at);
* H07: `wdistB g [s]` (flag and entries), tags from `(wdistB g (List.range n)).2`;
* H08: rows `(wdistB g [s]).1`, skip when `(List.range g.n).any (fun s => (wdistB g [s]).2)`;
* the digraphs the drivers build (`GDesc.graph`, `GDesc.wgraph`) satisfy `WF`.
-/
namespace GraafVerif.OracleProof

/-- H04 for order `> 40`: reachability read off the hop-distance oracle. -/
theorem hop_isSome_spec {g : Graph} (hwf : g.WF) {S : List Nat} (hS : ∀ s ∈ S, s < g.n) (v : Nat) :
    ((hopDistB g S).map Option.isSome)[v]?.getD false = true ↔ ReachFrom g S v := by
  have hnone := hopDistB_none hwf hS v
  rw [List.getElem?_map]
  cases hx : (hopDistB g S)[v]? with
  | none =>
    rw [hx] at hnone
    simp only [Option.map_none, Option.getD_none, Bool.false_eq_true, false_iff]
    exact hnone.mp rfl
  | some o =>
    rw [hx] at hnone
    cases o with
    | none =>
      simp only [Option.map_some, Option.getD_some, Option.isSome_none, Bool.false_eq_true, false_iff]
      exact hnone.mp rfl
    | some d =>
      simp only [Option.map_some, Option.getD_some, Option.isSome_some, true_iff]
      apply Classical.byContradiction
      intro hnr
      have := hnone.mpr hnr
      simp at this

/-- The two reachability oracles of H04 agree entry by entry. -/
theorem reach_eq_hop_isSome {g : Graph} (hwf : g.WF) {S : List Nat} (hS : ∀ s ∈ S, s < g.n) :
    reachSetB g S = (hopDistB g S).map Option.isSome := by
  apply List.ext_getElem?
  intro v
  have hl1 := reachSetB_length hwf S
  have hl2 : ((hopDistB g S).map Option.isSome).length = g.n := by
    rw [List.length_map]; exact hopDistB_length hwf hS
  rcases Nat.lt_or_ge v g.n with hv | hv
  · have hv1 : v < (reachSetB g S).length := by rw [hl1]; exact hv
    have hv2 : v < ((hopDistB g S).map Option.isSome).length := by rw [hl2]; exact hv
    have h1 := reachSetB_spec hwf hS v
    have h2 := hop_isSome_spec hwf hS v
    rw [List.getElem?_eq_getElem hv1] at h1 ⊢
    rw [List.getElem?_eq_getElem hv2] at h2 ⊢
    simp only [Option.getD_some] at h1 h2
    congr 1
    exact Bool.eq_iff_iff.mpr (h1.trans h2.symm)
  · rw [List.getElem?_eq_none (by rw [hl1]; exact hv), List.getElem?_eq_none (by rw [hl2]; exact hv)]

/-- Non-negative weights: no negative circuit at all. -/
theorem nonneg_noNeg {g : WGraph} (hnn : g.NonNeg) (S : List Nat) : ¬ NegReachableFrom g S := by
  rintro ⟨x, _, k, wt, _, hw, hlt⟩
  have := Bfm.nonneg_walk hnn hw
  omega

/-- H03: on non-negative weights the flag is `false`. -/
theorem wdistB_nonneg_flag {g : WGraph} (hwf : g.WF) (hnn : g.NonNeg) {S : List Nat}
    (hS : ∀ s ∈ S, s < g.n) : (wdistB g S).2 = false := by
  cases hf : (wdistB g S).2 with
  | false => rfl
  | true => exact absurd ((wdistB_flag hwf hS).mp hf) (nonneg_noNeg hnn S)

/-- A vertex on a closed walk with at least one arc is in range. -/
theorem negCycle_lt {g : WGraph} (hwf : g.WF) {x : Nat} (h : NegCycleAt g x) : x < g.n := by
  obtain ⟨k, wt, hk, hw, _⟩ := h
  cases hw with
  | nil => omega
  | snoc _ ha => exact (hwf _ _ _ ha).2

/-- H08's skip test / H07's `anyNeg` tag: some single-source flag is raised iff the digraph has a
negative circuit. -/
theorem anyFlag_iff {g : WGraph} (hwf : g.WF) :
    (List.range g.n).any (fun s => (wdistB g [s]).2) = true ↔ ∃ x, NegCycleAt g x := by
  rw [List.any_eq_true]
  constructor
  · rintro ⟨s, hs, hf⟩
    have hS : ∀ t ∈ [s], t < g.n := fun t ht => by
      rw [List.mem_singleton.mp ht]; exact List.mem_range.mp hs
    obtain ⟨x, _, hneg⟩ := (wdistB_flag hwf hS).mp hf
    exact ⟨x, hneg⟩
  · rintro ⟨x, hneg⟩
    have hx := negCycle_lt hwf hneg
    have hS : ∀ t ∈ [x], t < g.n := fun t ht => by rw [List.mem_singleton.mp ht]; exact hx
    exact ⟨x, List.mem_range.mpr hx,
      (wdistB_flag hwf hS).mpr ⟨x, ⟨x, List.mem_singleton_self x, 0, 0, WWalk.nil x⟩, hneg⟩⟩

/-- H07's `anyNeg` tag: all vertices as sources. -/
theorem allSrcFlag_iff {g : WGraph} (hwf : g.WF) :
    (wdistB g (List.range g.n)).2 = true ↔ ∃ x, NegCycleAt g x := by
  rw [wdistB_flag hwf (fun s hs => List.mem_range.mp hs)]
  constructor
  · rintro ⟨x, _, hneg⟩; exact ⟨x, hneg⟩
  · rintro ⟨x, hneg⟩
    exact ⟨x, ⟨x, List.mem_range.mpr (negCycle_lt hwf hneg), 0, 0, WWalk.nil x⟩, hneg⟩

/-- H07 in the vocabulary of C07 (`Spec/Bfm.lean`). -/
theorem wdistB_single {g : WGraph} (hwf : g.WF) {s : Nat} (hs : s < g.n) :
    ((wdistB g [s]).2 = true ↔ Bfm.NegReachable g s) ∧
    ((wdistB g [s]).2 = false → Bfm.Exact g s (wdistB g [s]).1) := by
  have hS : ∀ t ∈ [s], t < g.n := fun t ht => by rw [List.mem_singleton.mp ht]; exact hs
  refine ⟨wdistB_flag hwf hS, fun hf => ?_⟩
  obtain ⟨hlen, hfin, hinf⟩ := wdistB_spec hwf hS hf
  refine ⟨hlen, fun v x hx => (hfin v x).mp (by rw [hx]; rfl), fun v hv => (hinf v).mp (by rw [hv]; rfl)⟩

/-- The unweighted digraph every driver builds from a description with in-range arcs. -/
theorem driverGraph_hyps (n : Nat) (arcs : List (Nat × Nat)) (h : ∀ a ∈ arcs, a.1 < n ∧ a.2 < n) :
    (Graph.ofRows (rowsOfArcs n arcs)).n = n ∧ (Graph.ofRows (rowsOfArcs n arcs)).WF :=
  ⟨(ofArcRows_spec n arcs h).1, (ofArcRows_spec n arcs h).2.2⟩

/-- The weighted digraph every driver builds from a description with in-range arc heads. -/
theorem driverWGraph_hyps (n : Nat) (arcs : List (Nat × Nat × Int)) (h : ∀ a ∈ arcs, a.2.1 < n) :
    (WGraph.ofRows (wrowsOfArcs n arcs)).n = n ∧ (WGraph.ofRows (wrowsOfArcs n arcs)).WF :=
  ⟨(Fw.ofRows_hyps n arcs h).1, (Fw.ofRows_hyps n arcs h).2.1⟩

end GraafVerif.OracleProof
