import GraafVerif.Proof.OracleFastForest
/-!
# `forestJudgeRec`: one step of the judge is one step of `Spec/Dfs.lean`

`FjInv` ties the judge's state (Boolean array, counters of unyielded out-neighbours, path with
depths) to the `Search` state of the specification (yielded list, path).  Under `IsForest`:

* `fjStep_sound`: an accepted step is a step `expect` allows, with the same (parent, depth), and
  the invariant is kept for `advance`;
* `fjStep_complete`: a step `expect` allows (of an in-range reachable vertex) is accepted.
-/
namespace GraafVerif.OracleFastProof
open GraafVerif GraafVerif.OracleFast GraafVerif.Dfs GraafVerif.OracleProof

/-! ## Lists -/

theorem contains_false_iff {l : List Nat} {x : Nat} : l.contains x = false ↔ x ∉ l := by
  simp

theorem fresh_false_iff (g : Graph) (ys : List Nat) (u : Nat) :
    hasFresh g ys u = false ↔ ((g.out u).filter (fun w => !ys.contains w)).length = 0 := by
  unfold hasFresh
  rw [List.length_eq_zero_iff, List.filter_eq_nil_iff, List.any_eq_false]

theorem fresh_mono {g : Graph} {ys : List Nat} {u : Nat} (x : Nat) (h : hasFresh g ys u = false) :
    hasFresh g (ys ++ [x]) u = false := by
  unfold hasFresh at h ⊢
  rw [List.any_eq_false] at h ⊢
  intro w hw
  have := h w hw
  simp only [Bool.not_eq_true, Bool.not_eq_false', List.contains_eq_mem, decide_eq_true_eq] at this ⊢
  exact List.mem_append_left _ this

theorem filter_ne_length (x : Nat) : ∀ (m : List Nat), m.Nodup →
    (m.filter (fun w => w != x)).length + (if x ∈ m then 1 else 0) = m.length := by
  intro m
  induction m with
  | nil => intro _; rfl
  | cons a r ih =>
    intro hnd
    rw [List.nodup_cons] at hnd
    have ihr := ih hnd.2
    by_cases hax : a = x
    · subst hax
      rw [if_neg hnd.1] at ihr
      have : (List.filter (fun w => w != a) (a :: r)) = List.filter (fun w => w != a) r := by
        rw [List.filter_cons]; simp
      rw [this, if_pos List.mem_cons_self, List.length_cons]
      omega
    · have hxa : ¬ x = a := fun h => hax h.symm
      have : (List.filter (fun w => w != x) (a :: r)) = a :: List.filter (fun w => w != x) r := by
        rw [List.filter_cons]; simp [hax]
      have hm : (x ∈ a :: r) ↔ x ∈ r := by simp [hxa]
      rw [this, List.length_cons, List.length_cons]
      by_cases hxr : x ∈ r
      · rw [if_pos (hm.mpr hxr)]; rw [if_pos hxr] at ihr; omega
      · rw [if_neg (fun h => hxr (hm.mp h))]; rw [if_neg hxr] at ihr; omega

/-- Yielding `x` removes `x` (once) from the unyielded out-neighbours. -/
theorem count_snoc (ys : List Nat) (x : Nat) (hx : x ∉ ys) (l : List Nat) (hnd : l.Nodup) :
    (l.filter (fun w => !(ys ++ [x]).contains w)).length + (if x ∈ l then 1 else 0) =
    (l.filter (fun w => !ys.contains w)).length := by
  have e : (fun w => !(ys ++ [x]).contains w) = (fun w => (w != x) && !ys.contains w) := by
    funext w
    by_cases hw : w = x
    · subst hw; simp
    · by_cases hy : w ∈ ys
      · simp [hw, hy]
      · simp [hw, hy]
  rw [e, ← List.filter_filter]
  have hm : (x ∈ l.filter (fun w => !ys.contains w)) ↔ x ∈ l := by
    rw [List.mem_filter]; simp [hx]
  have := filter_ne_length x (l.filter (fun w => !ys.contains w)) (hnd.sublist List.filter_sublist)
  by_cases hxl : x ∈ l
  · rw [if_pos (hm.mpr hxl)] at this; rw [if_pos hxl]; exact this
  · rw [if_neg (fun h => hxl (hm.mp h))] at this; rw [if_neg hxl]; exact this

theorem dropWhile_map_fst (p : Nat → Bool) (q : Nat × Nat → Bool) : ∀ (l : List (Nat × Nat)),
    (∀ d ∈ l, q d = p d.1) → (l.dropWhile q).map Prod.fst = (l.map Prod.fst).dropWhile p := by
  intro l
  induction l with
  | nil => intro _; rfl
  | cons a r ih =>
    intro h
    have ha := h a List.mem_cons_self
    rw [List.map_cons, List.dropWhile_cons, List.dropWhile_cons, ha]
    by_cases hp : p a.1 = true
    · rw [if_pos hp, if_pos hp]
      exact ih (fun d hd => h d (List.mem_cons_of_mem _ hd))
    · rw [if_neg hp, if_neg hp]; rfl

theorem dropped_sat {α : Type} (p : α → Bool) : ∀ (l : List α) (y : α), y ∈ l → y ∉ l.dropWhile p → p y = true := by
  intro l
  induction l with
  | nil => intro y hy; cases hy
  | cons a r ih =>
    intro y hy hn
    rw [List.dropWhile_cons] at hn
    by_cases hp : p a = true
    · rw [if_pos hp] at hn
      rcases List.mem_cons.mp hy with rfl | hy
      · exact hp
      · exact ih y hy hn
    · rw [if_neg hp] at hn
      exact absurd hy hn

theorem mem_of_mem_dropWhile {α : Type} (p : α → Bool) {l : List α} {y : α} (h : y ∈ l.dropWhile p) : y ∈ l :=
  (List.dropWhile_sublist p).subset h

/-- Depths along the path: the entry above `rest` has depth `rest.length`. -/
def PathDepth : List (Nat × Nat) → Prop
  | [] => True
  | (_, k) :: rest => k = rest.length ∧ PathDepth rest

theorem pathDepth_dropWhile (q : Nat × Nat → Bool) : ∀ (l : List (Nat × Nat)), PathDepth l → PathDepth (l.dropWhile q) := by
  intro l
  induction l with
  | nil => intro h; exact h
  | cons a r ih =>
    intro h
    rw [List.dropWhile_cons]
    split
    · exact ih h.2
    · exact h

/-! ## The invariant -/

structure FjInv (g : Graph) (par : Array (Option Nat)) (st : FjState) (s : Search) : Prop where
  seenSize : st.seen.size = g.n
  seen : ∀ v, st.seen.getD v false = true ↔ v ∈ s.yielded
  remSize : st.remaining.size = g.n
  rem : ∀ u, u < g.n → st.remaining.getD u 0 = ((g.out u).filter (fun w => !s.yielded.contains w)).length
  path : st.path.map Prod.fst = s.path
  depth : PathDepth st.path
  pathY : ∀ d ∈ s.path, d ∈ s.yielded
  offPath : ∀ y ∈ s.yielded, y ∉ s.path → hasFresh g s.yielded y = false
  parentY : ∀ y ∈ s.yielded, ∀ p, par.getD y none = some p → p ∈ s.yielded

theorem FjInv.lt {g : Graph} {par : Array (Option Nat)} {st : FjState} {s : Search} (h : FjInv g par st s)
    {v : Nat} (hv : v ∈ s.yielded) : v < g.n := by
  have := (h.seen v).mpr hv
  rw [← h.seenSize]
  exact getD_lt this (by simp)

/-- The judge's cut-back path is the specification's `active` path. -/
theorem FjInv.active {g : Graph} {par : Array (Option Nat)} {st : FjState} {s : Search} (h : FjInv g par st s) :
    (st.path.dropWhile (fun d => st.remaining.getD d.1 0 == 0)).map Prod.fst = active g s := by
  unfold Dfs.active
  rw [← h.path]
  apply dropWhile_map_fst (fun d => !hasFresh g s.yielded d)
  intro d hd
  have hdy : d.1 ∈ s.yielded := h.pathY d.1 (by rw [← h.path]; exact List.mem_map_of_mem hd)
  rw [h.rem d.1 (h.lt hdy)]
  cases hf : hasFresh g s.yielded d.1 with
  | false => rw [(fresh_false_iff g s.yielded d.1).mp hf]; rfl
  | true =>
    have : ((g.out d.1).filter (fun w => !s.yielded.contains w)).length ≠ 0 := by
      intro h0
      rw [(fresh_false_iff g s.yielded d.1).mpr h0] at hf; cases hf
    show (_ == 0) = false
    exact beq_eq_false_iff_ne.mpr this

theorem initInv (g : Graph) (par : Array (Option Nat)) : FjInv g par (fjInit g) ⟨[], []⟩ where
  seenSize := by simp [fjInit]
  seen := fun v => by
    show (Array.replicate g.n false).getD v false = true ↔ _
    rw [getD_replicate]; simp
  remSize := by simp [fjInit]
  rem := fun u hu => by
    have : (g.out u).filter (fun w => !([] : List Nat).contains w) = g.out u :=
      List.filter_eq_self.mpr (by simp)
    show _ = ((g.out u).filter (fun w => !([] : List Nat).contains w)).length
    rw [this]
    simp [fjInit, Array.getD_eq_getD_getElem?, hu]
  path := rfl
  depth := trivial
  pathY := fun d hd => by cases hd
  offPath := fun y hy => by cases hy
  parentY := fun y hy => by cases hy

/-- The invariant after a step: `seen' = seen[x := true]`, `rem'` has one less at the vertex whose
row contains `x` (none for a root), path `= (x, k) :: cut-back path`. -/
theorem FjInv.advance {g : Graph} {S : List Nat} {par : Array (Option Nat)} (hF : IsForest g S par)
    {st : FjState} {s : Search} (h : FjInv g par st s) {x : Nat} (hx : x < g.n) (hxy : x ∉ s.yielded)
    {rem' : Array Nat} {path' : List (Nat × Nat)} {k : Nat}
    (hsz : rem'.size = g.n)
    (hrem : ∀ u, u < g.n → rem'.getD u 0 + (if x ∈ g.out u then 1 else 0) = st.remaining.getD u 0)
    (hpath : path' = st.path.dropWhile (fun d => st.remaining.getD d.1 0 == 0))
    (hk : k = path'.length)
    (hpar : ∀ p, par.getD x none = some p → p ∈ s.yielded) :
    FjInv g par ⟨st.seen.setIfInBounds x true, rem', (x, k) :: path'⟩ (Dfs.advance g s x) where
  seenSize := by simpa using h.seenSize
  seen := fun v => by
    show (st.seen.setIfInBounds x true).getD v false = true ↔ v ∈ s.yielded ++ [x]
    rw [getD_set, List.mem_append, List.mem_singleton]
    by_cases hv : x = v
    · subst hv; simp [h.seenSize, hx]
    · rw [if_neg (fun hh => hv hh.1)]
      constructor
      · intro h1; exact Or.inl ((h.seen v).mp h1)
      · rintro (h1 | h1)
        · exact (h.seen v).mpr h1
        · exact absurd h1.symm hv
  remSize := hsz
  rem := fun u hu => by
    show rem'.getD u 0 = ((g.out u).filter (fun w => !(s.yielded ++ [x]).contains w)).length
    have h1 := count_snoc s.yielded x hxy (g.out u) (hF.nodup u hu)
    have h2 := hrem u hu
    rw [h.rem u hu] at h2
    omega
  path := by
    show ((x, k) :: path').map Prod.fst = x :: Dfs.active g s
    rw [List.map_cons, hpath, h.active]
  depth := ⟨hk, by rw [hpath]; exact pathDepth_dropWhile _ _ h.depth⟩
  pathY := fun d hd => by
    show d ∈ s.yielded ++ [x]
    rcases List.mem_cons.mp hd with rfl | hd
    · simp
    · exact List.mem_append_left _ (h.pathY d (mem_of_mem_dropWhile _ hd))
  offPath := fun y hy hn => by
    show hasFresh g (s.yielded ++ [x]) y = false
    have hy' : y ∈ s.yielded ++ [x] := hy
    have hn' : y ∉ x :: Dfs.active g s := hn
    rw [List.mem_cons, not_or] at hn'
    rcases List.mem_append.mp hy' with hy1 | hy1
    · apply fresh_mono
      by_cases hp : y ∈ s.path
      · have := dropped_sat (fun d => !hasFresh g s.yielded d) s.path y hp hn'.2
        simpa using this
      · exact h.offPath y hy1 hp
    · exact absurd (List.mem_singleton.mp hy1) hn'.1
  parentY := fun y hy p hp => by
    show p ∈ s.yielded ++ [x]
    have hy' : y ∈ s.yielded ++ [x] := hy
    rcases List.mem_append.mp hy' with hy1 | hy1
    · exact List.mem_append_left _ (h.parentY y hy1 p hp)
    · rw [List.mem_singleton.mp hy1] at hp
      exact List.mem_append_left _ (hpar p hp)

/-! ## One step -/

theorem getD_modify (a : Array Nat) (p u : Nat) (f : Nat → Nat) (hu : u < a.size) :
    (a.modify p f).getD u 0 = if p = u then f (a.getD u 0) else a.getD u 0 := by
  simp only [Array.getD_eq_getD_getElem?, Array.getElem?_modify, Array.getElem?_eq_getElem hu]
  split <;> simp

/-- An accepted step is a step the specification allows, with the same annotation. -/
theorem fjStep_sound {g : Graph} {S : List Nat} {par : Array (Option Nat)} {reach : Array Bool}
    (hF : IsForest g S par) {st : FjState} {s : Search} (h : FjInv g par st s) {x : Nat} {st' : FjState}
    {wp : Option Nat} {wd : Nat} (hstep : fjStep g S par reach st x = .ok (st', wp, wd)) :
    x < g.n ∧ reach.getD x false = true ∧ expect g S s x = some (wp, wd) ∧
    FjInv g par st' (advance g s x) ∧ wp = par.getD x none := by
  unfold fjStep at hstep
  split at hstep
  · cases hstep
  rename_i hx
  split at hstep
  · cases hstep
  rename_i hr
  split at hstep
  · cases hstep
  rename_i hs
  have hx' : x < g.n := by omega
  have hr' : reach.getD x false = true := by simpa using hr
  have xny : x ∉ s.yielded := fun hm => hs ((h.seen x).mpr hm)
  have hc : s.yielded.contains x = false := contains_false_iff.mpr xny
  have hpd := pathDepth_dropWhile (fun d => st.remaining.getD d.1 0 == 0) _ h.depth
  have hact := h.active
  split at hstep
  · -- new root
    rename_i heq
    split at hstep
    · cases hstep
    rename_i hS
    have hS' : S.contains x = true := by simpa using hS
    have hxS : x ∈ S := by simpa using hS'
    simp only [Except.ok.injEq, Prod.mk.injEq] at hstep
    obtain ⟨rfl, rfl, rfl⟩ := hstep
    rw [heq] at hact
    have hact' : active g s = [] := hact.symm
    have hroot := hF.srcRoot x hxS
    have hall : s.yielded.all (fun y => !hasFresh g s.yielded y) = true := by
      rw [List.all_eq_true]
      intro y hy
      by_cases hp : y ∈ s.path
      · have := dropped_sat (fun d => !hasFresh g s.yielded d) s.path y hp (by
          show y ∉ active g s
          rw [hact']; exact List.not_mem_nil)
        exact this
      · rw [h.offPath y hy hp]; rfl
    refine ⟨hx', hr', ?_, ?_, hroot.symm⟩
    · unfold expect
      rw [hc, hact']
      simp only [Bool.false_eq_true, if_false, hS', hall, Bool.and_self, if_true]
    · refine h.advance hF hx' xny (rem' := st.remaining) (path' := []) (k := 0) h.remSize ?_ heq.symm rfl ?_
      · intro u hu
        have : x ∉ g.out u := by
          intro hm
          rw [(hF.arcs u x hu).mp hm] at hroot; cases hroot
        rw [if_neg this]; rfl
      · intro p hp; rw [hroot] at hp; cases hp
  · -- child of the deepest open vertex
    rename_i p dp rest heq
    split at hstep
    · cases hstep
    rename_i hpx
    have hpx' : par.getD x none = some p := by simpa using hpx
    simp only [Except.ok.injEq, Prod.mk.injEq] at hstep
    obtain ⟨rfl, rfl, rfl⟩ := hstep
    rw [heq] at hact hpd
    have hact' : active g s = p :: rest.map Prod.fst := hact.symm
    have hpPath : p ∈ s.path := by
      rw [← h.path]
      have : (p, dp) ∈ st.path := mem_of_mem_dropWhile _ (by rw [heq]; exact List.mem_cons_self)
      exact List.mem_map_of_mem (f := Prod.fst) this
    have hpY := h.pathY p hpPath
    have hp := h.lt hpY
    have hxp : x ∈ g.out p := (hF.arcs p x hp).mpr hpx'
    have hdp : dp = rest.length := hpd.1
    refine ⟨hx', hr', ?_, ?_, hpx'.symm⟩
    · unfold expect
      rw [hc, hact']
      have : (g.out p).contains x = true := by simpa using hxp
      simp only [Bool.false_eq_true, if_false, this, if_true, List.length_map, hdp]
    · refine h.advance hF hx' xny (rem' := st.remaining.modify p (· - 1)) (path' := (p, dp) :: rest) (k := dp + 1)
        (by simpa using h.remSize) ?_ heq.symm (by simp [hdp]) ?_
      · intro u hu
        rw [getD_modify _ _ _ _ (by rw [h.remSize]; exact hu)]
        by_cases hpu : p = u
        · subst hpu
          rw [if_pos rfl, if_pos hxp, h.rem p hp]
          have : x ∈ (g.out p).filter (fun w => !s.yielded.contains w) := by
            rw [List.mem_filter]; exact ⟨hxp, by rw [hc]; rfl⟩
          have := List.length_pos_of_mem this
          omega
        · rw [if_neg hpu]
          have : x ∉ g.out u := by
            intro hm
            have := (hF.arcs u x hu).mp hm
            rw [hpx'] at this
            exact hpu (Option.some.inj this)
          rw [if_neg this]; rfl
      · intro p' hp'
        rw [hpx'] at hp'
        cases hp'
        exact hpY

/-- A step the specification allows (of an in-range, reachable vertex) is accepted, with the same
annotation. -/
theorem fjStep_complete {g : Graph} {S : List Nat} {par : Array (Option Nat)} {reach : Array Bool}
    (hF : IsForest g S par) {st : FjState} {s : Search} (h : FjInv g par st s) {x : Nat} (hx : x < g.n)
    (hr : reach.getD x false = true) {a : Option Nat × Nat} (hexp : expect g S s x = some a) :
    ∃ st', fjStep g S par reach st x = .ok (st', a.1, a.2) := by
  unfold expect at hexp
  split at hexp
  · cases hexp
  rename_i hc
  have xny : x ∉ s.yielded := by simpa using hc
  have hs : ¬ st.seen.getD x false = true := fun hh => xny ((h.seen x).mp hh)
  have hpd := pathDepth_dropWhile (fun d => st.remaining.getD d.1 0 == 0) _ h.depth
  have hact := h.active
  unfold fjStep
  rw [if_neg (by omega), if_neg (by simp [hr]), if_neg hs]
  cases hdw : st.path.dropWhile (fun d => st.remaining.getD d.1 0 == 0) with
  | nil =>
    rw [hdw] at hact
    have hact' : active g s = [] := hact.symm
    rw [hact'] at hexp
    simp only [] at hexp
    split at hexp
    · rename_i hcond
      cases hexp
      have hS : S.contains x = true := by
        rw [Bool.and_eq_true] at hcond; exact hcond.1
      simp only []
      rw [if_neg (by rw [hS]; simp)]
      exact ⟨_, rfl⟩
    · cases hexp
  | cons pd rest =>
    obtain ⟨p, dp⟩ := pd
    rw [hdw] at hact hpd
    have hact' : active g s = p :: rest.map Prod.fst := hact.symm
    rw [hact'] at hexp
    simp only [] at hexp
    split at hexp
    · rename_i hcond
      cases hexp
      have hpPath : p ∈ s.path := by
        rw [← h.path]
        have : (p, dp) ∈ st.path := mem_of_mem_dropWhile _ (by rw [hdw]; exact List.mem_cons_self)
        exact List.mem_map_of_mem (f := Prod.fst) this
      have hp := h.lt (h.pathY p hpPath)
      have hxp : x ∈ g.out p := by simpa using hcond
      have hpx := (hF.arcs p x hp).mp hxp
      have hdp : dp = rest.length := hpd.1
      simp only []
      rw [if_neg (by simp [hpx])]
      simp only [List.length_map, hdp]
      exact ⟨_, rfl⟩
    · cases hexp

end GraafVerif.OracleFastProof
