import GraafVerif.Proof.Query
import GraafVerif.Spec.QueryAbs
/-!
# C02 — `AdjacencyMap` (arbitrary vertex ids): every core query equals its definition (P1)
-/
namespace GraafVerif.Query
open GraafVerif.Repr

/-! ## `BTreeMap` lookups on key-sorted association lists -/
theorem mget_mem {X : Type} {k : Nat} {x : X} : ∀ {l : List (Nat × X)}, mget k l = some x → (k, x) ∈ l
  | [], h => by simp [mget] at h
  | (k', x') :: rest, h => by
    unfold mget at h
    by_cases h1 : k = k'
    · subst h1; simp at h; subst h; simp
    · simp only [h1, if_false] at h
      by_cases h2 : k < k'
      · simp [h2] at h
      · simp only [h2, if_false] at h
        exact List.mem_cons_of_mem _ (mget_mem h)

theorem mget_of_mem {X : Type} {k : Nat} {x : X} : ∀ {l : List (Nat × X)}, SortedK l → (k, x) ∈ l → mget k l = some x
  | [], _, h => by simp at h
  | (k', x') :: rest, hs, h => by
    unfold SortedK at hs
    rw [List.pairwise_cons] at hs
    unfold mget
    rcases List.mem_cons.1 h with h | h
    · cases h; simp
    · have hlt : k' < k := hs.1 (k, x) h
      have h1 : ¬ k = k' := by omega
      have h2 : ¬ k < k' := by omega
      simp only [h1, h2, if_false]
      exact mget_of_mem hs.2 h

theorem mget_isSome_iff {X : Type} {k : Nat} {l : List (Nat × X)} (hs : SortedK l) :
    (mget k l).isSome = true ↔ k ∈ l.map (·.1) := by
  constructor
  · intro h
    obtain ⟨x, hx⟩ := Option.isSome_iff_exists.1 h
    exact List.mem_map.2 ⟨(k, x), mget_mem hx, rfl⟩
  · intro h
    obtain ⟨⟨k', x⟩, hm, rfl⟩ := List.mem_map.1 h
    rw [mget_of_mem hs hm]; rfl

theorem sortedK_keys {X : Type} {l : List (Nat × X)} (hs : SortedK l) : (l.map (·.1)).Pairwise (· < ·) := by
  unfold SortedK at hs
  rw [List.pairwise_map]
  exact hs

namespace AM

theorem mem_verts (d : AdjMap) (u : Nat) : u ∈ (abs d).verts ↔ u ∈ d.rows.map (·.1) := by simp [abs, AdjMap.vertices]

/-- on a row of the map, `has_arc` is membership in that row -/
theorem hasArc_row {d : AdjMap} (h : d.WF) {u : Nat} {row : List Nat} (hm : (u, row) ∈ d.rows) (v : Nat) :
    d.hasArc u v = row.contains v := by
  unfold AdjMap.hasArc
  rw [mget_of_mem h.1 hm]

theorem hasArc_true {d : AdjMap} {u v : Nat} (hv : d.hasArc u v = true) : ∃ row, (u, row) ∈ d.rows ∧ v ∈ row := by
  unfold AdjMap.hasArc at hv
  cases hg : mget u d.rows with
  | none => simp [hg] at hv
  | some row =>
    rw [hg] at hv
    exact ⟨row, mget_mem hg, List.contains_iff_mem.1 hv⟩

theorem abs_valid {d : AdjMap} (h : d.WF) : (abs d).Valid where
  sorted := sortedK_keys h.1
  closed := by
    intro u v huv
    obtain ⟨row, hm, hv⟩ := hasArc_true huv
    refine ⟨List.mem_map.2 ⟨(u, row), hm, rfl⟩, ?_⟩
    exact (mget_isSome_iff h.1).1 ((h.2 u row hm).2 v hv).2
  irrefl := by
    intro u
    cases hc : (abs d).adj u u
    · rfl
    · obtain ⟨row, hm, hv⟩ := hasArc_true hc
      exact absurd rfl ((h.2 u row hm).2 u hv).1
  wt_iff := by
    intro u v
    simp only [abs, unitWt]
    cases d.hasArc u v <;> simp

theorem outNeighbors_row {d : AdjMap} (h : d.WF) {u : Nat} {row : List Nat} (hm : (u, row) ∈ d.rows) :
    Spec.outNeighbors (abs d) u = row := by
  apply sorted_ext ((abs_valid h).sorted.filter _) (h.2 u row hm).1
  intro x
  simp only [Spec.outNeighbors, List.mem_filter, abs, hasArc_row h hm, List.contains_iff_mem]
  show x ∈ d.vertices ∧ x ∈ row ↔ x ∈ row
  constructor
  · exact fun hx => hx.2
  · intro hx
    exact ⟨(mget_isSome_iff h.1).1 ((h.2 u row hm).2 x hx).2, hx⟩

theorem indegree_spec {d : AdjMap} (h : d.WF) (v : Nat) :
    (d.rows.filter (fun r => r.2.contains v)).length = Spec.indegree (abs d) v := by
  simp only [Spec.indegree, Spec.inNeighbors, abs, AdjMap.vertices, List.filter_map, List.length_map]
  congr 1
  apply List.filter_congr
  intro r hr
  simp [hasArc_row h (show (r.1, r.2) ∈ d.rows from hr)]

theorem inNeighbors_spec {d : AdjMap} (h : d.WF) (v : Nat) : inNeighbors d v = Spec.inNeighbors (abs d) v := by
  simp only [inNeighbors, Spec.inNeighbors, abs, AdjMap.vertices, List.filter_map]
  have : d.rows.filter ((fun u => d.hasArc u v) ∘ fun x => x.1) = d.rows.filter (fun r => r.2.contains v) := by
    apply List.filter_congr
    intro r hr
    simp [hasArc_row h (show (r.1, r.2) ∈ d.rows from hr)]
  rw [this]
  induction d.rows with
  | nil => rfl
  | cons r rs ih =>
    simp only [List.filterMap_cons, List.filter_cons]
    cases hc : r.2.contains v
    · simpa using ih
    · simpa using ih

theorem size_spec {d : AdjMap} (h : d.WF) : d.size = Spec.size (abs d) := by
  simp only [Spec.size, Spec.arcs, List.length_flatMap, List.length_map, AdjMap.size]
  simp only [abs, AdjMap.vertices, List.map_map]
  congr 1
  apply List.map_congr_left
  intro r hr
  have := outNeighbors_row h (show (r.1, r.2) ∈ d.rows from hr)
  simp only [abs, AdjMap.vertices] at this
  simp [Function.comp, this]

theorem arcs_mem {d : AdjMap} (h : d.WF) (u v : Nat) : (u, v) ∈ d.arcs ↔ d.hasArc u v = true := by
  simp only [AdjMap.arcs, List.mem_flatMap, List.mem_map, Prod.mk.injEq]
  constructor
  · rintro ⟨r, hr, b, hb, rfl, rfl⟩
    rw [hasArc_row h (show (r.1, r.2) ∈ d.rows from hr)]
    exact List.contains_iff_mem.2 hb
  · intro hv
    obtain ⟨row, hm, hvr⟩ := hasArc_true hv
    exact ⟨(u, row), hm, v, hvr, rfl, rfl⟩

theorem key_row {d : AdjMap} {u : Nat} (hu : u ∈ d.rows.map (·.1)) : ∃ row, (u, row) ∈ d.rows := by
  obtain ⟨⟨k, row⟩, hm, rfl⟩ := List.mem_map.1 hu
  exact ⟨row, hm⟩

theorem core_correct {d : AdjMap} (h : d.WF) : CoreCorrect (core d) (abs d) where
  order := by simp [core, Spec.order, abs, AdjMap.vertices, AdjMap.order]
  vertices := rfl
  arcs_mem := arcs_mem h
  size := size_spec h
  hasArc := fun _ _ => rfl
  hasEdge := fun _ _ => rfl
  hasWalk := fun w => hasWalkPtr_eq (abs d) d.hasArc (fun _ _ => rfl) w
  outNeighbors := by
    intro u hu
    obtain ⟨row, hm⟩ := key_row ((mem_verts d u).1 hu)
    simp [core, outNeighbors, mget_of_mem h.1 hm, outNeighbors_row h hm]
  inNeighbors := inNeighbors_spec h
  indegree := by
    intro v hv
    have : (mget v d.rows).isSome = true := (mget_isSome_iff h.1).2 ((mem_verts d v).1 hv)
    simp only [core, indegree, this, if_true, indegree_spec h]
  isSource := by
    intro v
    simp only [core, isSource, Spec.isSource, ← indegree_spec h, filter_length_eq_zero]
  outdegree := by
    intro u hu
    obtain ⟨row, hm⟩ := key_row ((mem_verts d u).1 hu)
    simp [core, outdegree, mget_of_mem h.1 hm, Spec.outdegree, outNeighbors_row h hm]
  isSink := by
    intro u hu
    obtain ⟨row, hm⟩ := key_row ((mem_verts d u).1 hu)
    simp only [core, isSink, mget_of_mem h.1 hm, Spec.isSink, Spec.outdegree, outNeighbors_row h hm, Option.map_some]
    cases row <;> rfl

theorem seq_correct {d : AdjMap} (h : d.WF) : SeqCorrect (core d) (abs d) where
  indegreeSequence := indegreeSequenceDefault_correct (abs d) _ (core_correct h).indegree
  degreeSequence := fun _ _ => degreeSequenceDefault_correct (abs d) _ _ (core_correct h).indegree (core_correct h).outdegree

theorem panics_outside {d : AdjMap} {u : Nat} (hu : u ∉ (abs d).verts) :
    (core d).outNeighbors u = none ∧ (core d).indegree u = none ∧ (core d).outdegree u = none ∧ (core d).isSink u = none := by
  have : mget u d.rows = none := by
    cases hg : mget u d.rows with
    | none => rfl
    | some row => exact absurd ((mem_verts d u).2 (List.mem_map.2 ⟨(u, row), mget_mem hg, rfl⟩)) hu
  simp [core, outNeighbors, indegree, outdegree, isSink, this]

/-! ### `remove_arc` of an absent arc changes nothing -/
theorem mupsert_fix {X : Type} {k : Nat} {x dflt : X} {f : X → X} (hf : f x = x) :
    ∀ {l : List (Nat × X)}, mget k l = some x → mupsert k dflt f l = l
  | [], h => by simp [mget] at h
  | (k', x') :: rest, h => by
    unfold mget at h
    unfold mupsert
    by_cases h1 : k = k'
    · subst h1
      simp at h; subst h
      simp [hf]
    · simp only [h1, if_false] at h
      by_cases h2 : k < k'
      · simp [h2] at h
      · simp only [h2, if_false] at h
        simp only [h1, h2, if_false]
        rw [mupsert_fix hf h]

theorem serase_of_not_mem' {v : Nat} : ∀ {l : List Nat}, v ∉ l → serase v l = l
  | [], _ => rfl
  | y :: ys, h => by
    have hy : v ≠ y := fun e => h (by simp [e])
    have ih : serase v ys = ys := serase_of_not_mem' (fun hm => h (by simp [hm]))
    simp only [serase, hy, if_false, ih]
    split <;> rfl

theorem removeArc_absent (d : AdjMap) {u v : Nat} (h : d.hasArc u v = false) : d.removeArc u v = (d, false) := by
  unfold AdjMap.removeArc
  unfold AdjMap.hasArc at h
  cases hr : mget u d.rows with
  | none => rfl
  | some row =>
    rw [hr] at h
    have hv : v ∉ row := fun hm => by simp at h; exact h hm
    simp only [h]
    rw [mupsert_fix (serase_of_not_mem' hv) hr]

end AM
end GraafVerif.Query
