import GraafVerif.Spec.Ops
import GraafVerif.Spec.Pred
import GraafVerif.Spec.Gen
/-!
# Laws — the set-level side

Everything here is about the abstract digraph `DG = (V, A)` of `Spec/Ops.lean` (predicates, no
containers): the definitions of C12's predicates read over a `DG` (`DGP.*`, with the bridge
`def_iff_*` from `Pred.Def.*` over `Query.Digraph`), the digraph `genDG n P` a generator of C14
realises, and the algebra between `specComplement / specConverse / specUnion` (C11), those
predicates and the defining arc sets of the generators.  `Proof/LawsRep.lean` lifts these facts
to equalities of model values through the canonicity lemmas.
-/
namespace GraafVerif.Laws
open GraafVerif.Ops GraafVerif.Query GraafVerif.Pred GraafVerif.GenSpec

/-- The `DG` a `Query.Digraph` denotes. -/
def toDG (G : Digraph) : DG := ⟨fun v => v ∈ G.verts, fun u v => G.adj u v = true⟩

/-- The digraph with vertex set `0..n` and arc predicate `P` (what `Realises d n P` says of `d`). -/
def genDG (n : Nat) (P : Nat → Nat → Prop) : DG := ⟨fun v => v < n, P⟩

/-- no arcs at all -/
def Arcless (g : DG) : Prop := ∀ u v, ¬ g.A u v

/-! ## C12's definitions over `DG` -/
namespace DGP
variable (g : DG)
def Complete : Prop := ∀ u v, g.V u → g.V v → u ≠ v → g.A u v
def Semicomplete : Prop := ∀ u v, g.V u → g.V v → u ≠ v → g.A u v ∨ g.A v u
def Tournament : Prop := ∀ u v, g.V u → g.V v → u ≠ v → (g.A u v ↔ ¬ g.A v u)
def Symmetric : Prop := ∀ u v, g.A u v → g.A v u
def Oriented : Prop := ∀ u v, g.A u v → ¬ g.A v u
end DGP
def DGP.Sub (h d : DG) : Prop := (∀ v, h.V v → d.V v) ∧ ∀ u v, h.A u v → d.A u v

theorem def_iff_complete (G : Digraph) : Def.IsComplete G ↔ DGP.Complete (toDG G) :=
  ⟨fun h u v hu hv hne => h u hu v hv hne, fun h u hu v hv hne => h u v hu hv hne⟩
theorem def_iff_semicomplete (G : Digraph) : Def.IsSemicomplete G ↔ DGP.Semicomplete (toDG G) :=
  ⟨fun h u v hu hv hne => h u hu v hv hne, fun h u hu v hv hne => h u v hu hv hne⟩
theorem def_iff_tournament (G : Digraph) : Def.IsTournament G ↔ DGP.Tournament (toDG G) := by
  constructor
  · intro h u v hu hv hne
    have := h u hu v hv hne
    simp only [toDG]
    rw [this]; simp
  · intro h u hu v hv hne
    have := h u v hu hv hne
    simp only [toDG] at this
    rw [this]; simp
theorem def_iff_symmetric (G : Digraph) : Def.IsSymmetric G ↔ DGP.Symmetric (toDG G) := Iff.rfl
theorem def_iff_oriented (G : Digraph) : Def.IsOriented G ↔ DGP.Oriented (toDG G) := by
  constructor
  · intro h u v huv
    have := h u v huv
    simp only [toDG]; rw [this]; simp
  · intro h u v huv
    have := h u v huv
    simp only [toDG] at this
    simpa using this
theorem def_iff_sub (H D : Digraph) : Def.IsSubdigraph H D ↔ DGP.Sub (toDG H) (toDG D) := Iff.rfl

theorem toDG_valid {G : Digraph} (h : G.Valid) : (toDG G).Valid := by
  intro u v huv
  refine ⟨(h.closed u v huv).1, (h.closed u v huv).2, ?_⟩
  intro e; subst e
  have := h.irrefl u
  simp only [toDG] at huv
  rw [this] at huv; cases huv

/-! ## union -/

theorem specUnion_arcless_right {g e : DG} (hV : ∀ v, e.V v → g.V v) (hA : Arcless e) :
    specUnion g e = g := by
  rw [DG.ext_iff']
  exact ⟨fun v => ⟨fun h => h.elim id (hV v), Or.inl⟩, fun u v => ⟨fun h => h.elim id (fun x => (hA u v x).elim), Or.inl⟩⟩

theorem specUnion_arcless_left {g e : DG} (hV : ∀ v, e.V v → g.V v) (hA : Arcless e) :
    specUnion e g = g := by rw [specUnion_comm, specUnion_arcless_right hV hA]

theorem specConverse_union (g h : DG) :
    specConverse (specUnion g h) = specUnion (specConverse g) (specConverse h) := rfl

theorem specConverse_complement (g : DG) :
    specConverse (specComplement g) = specComplement (specConverse g) := by
  rw [DG.ext_iff']
  refine ⟨fun _ => Iff.rfl, fun u v => ?_⟩
  simp only [specConverse, specComplement]
  exact ⟨fun ⟨a, b, c, d⟩ => ⟨b, a, fun e => c e.symm, d⟩, fun ⟨a, b, c, d⟩ => ⟨b, a, fun e => c e.symm, d⟩⟩

/-- the complete digraph on the vertex set `V` -/
def completeOn (V : Nat → Prop) : DG := ⟨V, fun u v => V u ∧ V v ∧ u ≠ v⟩
/-- the arcless digraph on the vertex set `V` -/
def emptyOn (V : Nat → Prop) : DG := ⟨V, fun _ _ => False⟩

theorem specUnion_complement {g : DG} (h : g.Valid) : specUnion g (specComplement g) = completeOn g.V := by
  rw [DG.ext_iff']
  refine ⟨fun v => or_self_iff, fun u v => ?_⟩
  simp only [specUnion, specComplement, completeOn]
  constructor
  · rintro (ha | ⟨a, b, c, _⟩)
    · exact h u v ha
    · exact ⟨a, b, c⟩
  · rintro ⟨a, b, c⟩
    exact Classical.byCases (fun ha : g.A u v => Or.inl ha) (fun hn => Or.inr ⟨a, b, c, hn⟩)

theorem specComplement_completeOn (V : Nat → Prop) : specComplement (completeOn V) = emptyOn V := by
  rw [DG.ext_iff']
  refine ⟨fun _ => Iff.rfl, fun u v => ?_⟩
  simp only [specComplement, completeOn, emptyOn]
  exact ⟨fun ⟨a, b, c, d⟩ => d ⟨a, b, c⟩, False.elim⟩

theorem specComplement_emptyOn (V : Nat → Prop) : specComplement (emptyOn V) = completeOn V := by
  rw [DG.ext_iff']
  refine ⟨fun _ => Iff.rfl, fun u v => ?_⟩
  simp only [specComplement, completeOn, emptyOn]
  exact ⟨fun ⟨a, b, c, _⟩ => ⟨a, b, c⟩, fun ⟨a, b, c⟩ => ⟨a, b, c, id⟩⟩

theorem completeOn_lt (n : Nat) : completeOn (fun v => v < n) = genDG n (CompleteDef n) := rfl
theorem emptyOn_lt (n : Nat) : emptyOn (fun v => v < n) = genDG n (EmptyDef n) := rfl

theorem genDG_congr_V {g : DG} {n : Nat} (hV : ∀ v, g.V v ↔ v < n) (P : Nat → Nat → Prop) (hA : ∀ u v, g.A u v ↔ P u v) :
    g = genDG n P := by
  rw [DG.ext_iff']; exact ⟨hV, hA⟩

theorem completeOn_congr {V W : Nat → Prop} (h : ∀ v, V v ↔ W v) : completeOn V = completeOn W := by
  have : V = W := funext fun v => propext (h v)
  rw [this]
theorem emptyOn_congr {V W : Nat → Prop} (h : ∀ v, V v ↔ W v) : emptyOn V = emptyOn W := by
  have : V = W := funext fun v => propext (h v)
  rw [this]

/-! ## predicates against operations -/

theorem symmetric_iff_converse {g : DG} : DGP.Symmetric g ↔ specConverse g = g := by
  rw [DG.ext_iff']
  constructor
  · intro h; exact ⟨fun _ => Iff.rfl, fun u v => ⟨h v u, h u v⟩⟩
  · intro h u v huv; exact ((h.2 u v).mpr huv)

theorem complete_iff_complement_arcless {g : DG} : DGP.Complete g ↔ Arcless (specComplement g) := by
  constructor
  · intro h u v ⟨a, b, c, d⟩; exact d (h u v a b c)
  · intro h u v a b c
    exact Classical.byContradiction fun hn => h u v ⟨a, b, c, hn⟩

theorem complete_iff_complement_empty {g : DG} : DGP.Complete g ↔ specComplement g = emptyOn g.V := by
  rw [complete_iff_complement_arcless, DG.ext_iff']
  constructor
  · intro h; exact ⟨fun _ => Iff.rfl, fun u v => ⟨fun x => h u v x, False.elim⟩⟩
  · intro h u v x; exact (h.2 u v).mp x

theorem complete_iff_eq_completeOn {g : DG} (hv : g.Valid) : DGP.Complete g ↔ g = completeOn g.V := by
  rw [DG.ext_iff']
  constructor
  · intro h; exact ⟨fun _ => Iff.rfl, fun u v => ⟨fun x => hv u v x, fun ⟨a, b, c⟩ => h u v a b c⟩⟩
  · intro h u v a b c; exact (h.2 u v).mpr ⟨a, b, c⟩

theorem tournament_iff {g : DG} (hv : g.Valid) : DGP.Tournament g ↔ DGP.Semicomplete g ∧ DGP.Oriented g := by
  constructor
  · intro h
    refine ⟨fun u v a b c => ?_, fun u v x => ?_⟩
    · exact Classical.byCases (fun hx : g.A v u => Or.inr hx) (fun hn => Or.inl ((h u v a b c).mpr hn))
    · exact (h u v (hv u v x).1 (hv u v x).2.1 (hv u v x).2.2).mp x
  · rintro ⟨hs, ho⟩ u v a b c
    exact ⟨ho u v, fun hn => (hs u v a b c).elim id (fun x => (hn x).elim)⟩

theorem tournament_iff_complement_eq_converse {g : DG} (hv : g.Valid) :
    DGP.Tournament g ↔ specComplement g = specConverse g := by
  rw [DG.ext_iff']
  constructor
  · intro h
    refine ⟨fun _ => Iff.rfl, fun u v => ⟨fun ⟨a, b, c, d⟩ => ?_, fun x => ?_⟩⟩
    · exact Classical.byContradiction fun hn => d ((h u v a b c).mpr hn)
    · have := hv v u x
      exact ⟨this.2.1, this.1, fun e => this.2.2 e.symm, fun y => (h u v this.2.1 this.1 (fun e => this.2.2 e.symm)).mp y x⟩
  · intro h u v a b c
    constructor
    · intro x y
      exact ((h.2 v u).mpr x).2.2.2 y
    · intro hn
      exact Classical.byContradiction fun hx => hn ((h.2 u v).mp ⟨a, b, c, hx⟩)

theorem semicomplete_iff_complement_oriented {g : DG} :
    DGP.Semicomplete g ↔ DGP.Oriented (specComplement g) := by
  constructor
  · intro h u v ⟨a, b, c, d⟩ ⟨_, _, _, d'⟩
    exact (h u v a b c).elim d d'
  · intro h u v a b c
    exact Classical.byCases (fun x : g.A u v => Or.inl x) (fun hn =>
      Or.inr (Classical.byContradiction fun hm => h u v ⟨a, b, c, hn⟩ ⟨b, a, fun e => c e.symm, hm⟩))

theorem oriented_iff_complement_semicomplete {g : DG} (hv : g.Valid) :
    DGP.Oriented g ↔ DGP.Semicomplete (specComplement g) := by
  constructor
  · intro h u v a b c
    exact Classical.byCases (fun x : g.A u v => Or.inr ⟨b, a, fun e => c e.symm, h u v x⟩)
      (fun hn => Or.inl ⟨a, b, c, hn⟩)
  · intro h u v x y
    have := hv u v x
    rcases h u v this.1 this.2.1 this.2.2 with ⟨_, _, _, d⟩ | ⟨_, _, _, d⟩
    · exact d x
    · exact d y

theorem symmetric_iff_complement_symmetric {g : DG} (hv : g.Valid) :
    DGP.Symmetric g ↔ DGP.Symmetric (specComplement g) := by
  constructor
  · intro h u v ⟨a, b, c, d⟩
    exact ⟨b, a, fun e => c e.symm, fun x => d (h v u x)⟩
  · intro h u v x
    have := hv u v x
    exact Classical.byContradiction fun hn =>
      (h v u ⟨this.2.1, this.1, fun e => this.2.2 e.symm, hn⟩).2.2.2 x

theorem tournament_iff_complement_tournament {g : DG} :
    DGP.Tournament g ↔ DGP.Tournament (specComplement g) := by
  simp only [DGP.Tournament, specComplement]
  constructor
  · intro h u v a b c
    have := h u v a b c
    constructor
    · rintro ⟨_, _, _, d⟩ ⟨_, _, _, d'⟩
      exact d (this.mpr d')
    · intro hn
      refine ⟨a, b, c, fun x => hn ⟨b, a, fun e => c e.symm, this.mp x⟩⟩
  · intro h u v a b c
    have := h u v a b c
    constructor
    · intro x y
      have h1 : ¬ (g.V u ∧ g.V v ∧ u ≠ v ∧ ¬ g.A u v) := fun z => z.2.2.2 x
      exact h1 (this.mpr (fun z => z.2.2.2 y))
    · intro hn
      exact Classical.byContradiction fun hx =>
        (this.mp ⟨a, b, c, hx⟩) ⟨b, a, fun e => c e.symm, hn⟩

/-- every predicate of C12 that only looks at the arc relation up to reversal is invariant under `converse` -/
theorem converse_preserves (g : DG) :
    (DGP.Complete (specConverse g) ↔ DGP.Complete g) ∧
    (DGP.Semicomplete (specConverse g) ↔ DGP.Semicomplete g) ∧
    (DGP.Tournament (specConverse g) ↔ DGP.Tournament g) ∧
    (DGP.Symmetric (specConverse g) ↔ DGP.Symmetric g) ∧
    (DGP.Oriented (specConverse g) ↔ DGP.Oriented g) := by
  refine ⟨⟨fun h u v a b c => h v u b a (fun e => c e.symm), fun h u v a b c => h v u b a (fun e => c e.symm)⟩,
    ⟨fun h u v a b c => (h u v a b c).symm, fun h u v a b c => (h u v a b c).symm⟩,
    ⟨fun h u v a b c => h v u b a (fun e => c e.symm), fun h u v a b c => h v u b a (fun e => c e.symm)⟩,
    ⟨fun h u v x => h v u x, fun h u v x => h v u x⟩,
    ⟨fun h u v x => h v u x, fun h u v x => h v u x⟩⟩

/-! ## sub- and superdigraphs -/

theorem sub_union_left (g h : DG) : DGP.Sub g (specUnion g h) := ⟨fun _ => Or.inl, fun _ _ => Or.inl⟩
theorem sub_union_right (g h : DG) : DGP.Sub h (specUnion g h) := ⟨fun _ => Or.inr, fun _ _ => Or.inr⟩
theorem sub_refl (g : DG) : DGP.Sub g g := ⟨fun _ => id, fun _ _ => id⟩
theorem sub_trans {a b c : DG} (h1 : DGP.Sub a b) (h2 : DGP.Sub b c) : DGP.Sub a c :=
  ⟨fun v x => h2.1 v (h1.1 v x), fun u v x => h2.2 u v (h1.2 u v x)⟩
theorem sub_antisymm_iff {g h : DG} : DGP.Sub g h ∧ DGP.Sub h g ↔ g = h := by
  rw [DG.ext_iff']
  exact ⟨fun ⟨a, b⟩ => ⟨fun v => ⟨a.1 v, b.1 v⟩, fun u v => ⟨a.2 u v, b.2 u v⟩⟩,
    fun ⟨a, b⟩ => ⟨⟨fun v => (a v).mp, fun u v => (b u v).mp⟩, ⟨fun v => (a v).mpr, fun u v => (b u v).mpr⟩⟩⟩
/-- absorption: `g ⊆ h ↔ g ∪ h = h` -/
theorem sub_iff_union_eq {g h : DG} : DGP.Sub g h ↔ specUnion g h = h := by
  rw [DG.ext_iff']
  constructor
  · intro ⟨a, b⟩
    exact ⟨fun v => ⟨fun x => x.elim (a v) id, Or.inr⟩, fun u v => ⟨fun x => x.elim (b u v) id, Or.inr⟩⟩
  · intro ⟨a, b⟩
    exact ⟨fun v x => (a v).mp (Or.inl x), fun u v x => (b u v).mp (Or.inl x)⟩
theorem sub_completeOn {g : DG} (hv : g.Valid) : DGP.Sub g (completeOn g.V) := ⟨fun _ => id, fun u v x => hv u v x⟩
theorem emptyOn_sub (g : DG) : DGP.Sub (emptyOn g.V) g := ⟨fun _ => id, fun _ _ => False.elim⟩
theorem sub_complement_iff {g h : DG} (hV : ∀ v, g.V v ↔ h.V v) (hg : g.Valid) :
    DGP.Sub g (specComplement h) ↔ ∀ u v, g.A u v → ¬ h.A u v := by
  constructor
  · intro ⟨_, b⟩ u v x; exact (b u v x).2.2.2
  · intro h'
    refine ⟨fun v x => (hV v).mp x, fun u v x => ?_⟩
    have := hg u v x
    exact ⟨(hV u).mp this.1, (hV v).mp this.2.1, this.2.2, h' u v x⟩

/-! ## the defining arc sets of the generators -/

theorem circuit_union_converse (n : Nat) :
    specUnion (genDG n (CircuitDef n)) (specConverse (genDG n (CircuitDef n))) = genDG n (CycleDef n) := by
  rw [DG.ext_iff']; exact ⟨fun _ => or_self_iff, fun _ _ => Iff.rfl⟩

theorem gen_valid {n : Nat} {P : Nat → Nat → Prop} (h : ∀ u v, P u v → u < n ∧ v < n ∧ u ≠ v) : (genDG n P).Valid := h

theorem complete_symmetric (n : Nat) : DGP.Symmetric (genDG n (CompleteDef n)) :=
  fun _ _ ⟨a, b, c⟩ => ⟨b, a, fun e => c e.symm⟩
theorem empty_symmetric (n : Nat) : DGP.Symmetric (genDG n (EmptyDef n)) := fun _ _ x => x.elim
theorem cycle_symmetric (n : Nat) : DGP.Symmetric (genDG n (CycleDef n)) := fun _ _ x => x.symm
theorem star_symmetric (n : Nat) : DGP.Symmetric (genDG n (StarDef n)) := fun _ _ x => x.symm
theorem biclique_symmetric (m n : Nat) : DGP.Symmetric (genDG (m + n) (BicliqueDef m n)) := fun _ _ x => x.symm
theorem wheel_symmetric (n : Nat) : DGP.Symmetric (genDG n (WheelDef n)) :=
  fun _ _ x => x.elim (fun y => Or.inl y.symm) (fun y => Or.inr y.symm)

theorem complete_complete (n : Nat) : DGP.Complete (genDG n (CompleteDef n)) := fun _ _ a b c => ⟨a, b, c⟩
theorem complete_semicomplete (n : Nat) : DGP.Semicomplete (genDG n (CompleteDef n)) :=
  fun _ _ a b c => Or.inl ⟨a, b, c⟩

theorem path_oriented (n : Nat) : DGP.Oriented (genDG n (PathDef n)) := by
  intro u v ⟨_, b⟩ ⟨_, d⟩; omega
theorem empty_oriented (n : Nat) : DGP.Oriented (genDG n (EmptyDef n)) := fun _ _ x => x.elim

theorem circuit_oriented {n : Nat} (hn : n ≠ 2) : DGP.Oriented (genDG n (CircuitDef n)) := by
  intro u v ⟨a, b, c⟩ ⟨_, b', c'⟩
  by_cases h1 : u + 1 < n
  · rw [Nat.mod_eq_of_lt h1] at c
    by_cases h2 : v + 1 < n
    · rw [Nat.mod_eq_of_lt h2] at c'; omega
    · have : v + 1 = n := by omega
      rw [this, Nat.mod_self] at c'; omega
  · have : u + 1 = n := by omega
    rw [this, Nat.mod_self] at c
    subst c
    have h2 : 0 + 1 < n := by omega
    rw [Nat.mod_eq_of_lt h2] at c'; omega

theorem circuit2_not_oriented : ¬ DGP.Oriented (genDG 2 (CircuitDef 2)) := by
  intro h; exact h 0 1 (show CircuitDef 2 0 1 by decide) (show CircuitDef 2 1 0 by decide)

theorem cycle_not_oriented {n : Nat} (hn : 2 ≤ n) : ¬ DGP.Oriented (genDG n (CycleDef n)) := by
  intro h
  have h01 : CircuitDef n 0 1 := ⟨hn, by omega, by rw [Nat.mod_eq_of_lt (by omega)]⟩
  exact h 0 1 (Or.inl h01) (Or.inr h01)

theorem path_sub_circuit (n : Nat) : DGP.Sub (genDG n (PathDef n)) (genDG n (CircuitDef n)) := by
  refine ⟨fun _ => id, ?_⟩
  intro u v ⟨a, b⟩
  exact ⟨by omega, by omega, by rw [Nat.mod_eq_of_lt a]; exact b⟩
theorem circuit_sub_cycle (n : Nat) : DGP.Sub (genDG n (CircuitDef n)) (genDG n (CycleDef n)) :=
  ⟨fun _ => id, fun _ _ => Or.inl⟩
theorem star_sub_wheel (n : Nat) : DGP.Sub (genDG n (StarDef n)) (genDG n (WheelDef n)) :=
  ⟨fun _ => id, fun _ _ => Or.inl⟩

theorem circuitDef_bounds {n u v : Nat} (h : CircuitDef n u v) : u < n ∧ v < n ∧ u ≠ v := by
  obtain ⟨a, b, c⟩ := h
  refine ⟨b, by rw [c]; exact Nat.mod_lt _ (by omega), ?_⟩
  by_cases h1 : u + 1 < n
  · rw [Nat.mod_eq_of_lt h1] at c; omega
  · have : u + 1 = n := by omega
    rw [this, Nat.mod_self] at c; omega

end GraafVerif.Laws
