import GraafVerif.Proof.AlgoGen4Union
import GraafVerif.Proof.RandErMap
import GraafVerif.Proof.AlgoGen4AL
/-!
# Generated threaded generators of `AdjacencyMap` = the hand-written `Rand.tournamentAM`, `Rand.erAM` with the
streams of the workers' PRNGs (`Xoshiro256StarStar::new(seed.wrapping_add(thread_id))`)
-/
set_option linter.unusedSimpArgs false
namespace GraafVerif.AlgoGenThm
open GraafVerif GraafVerif.AlgoGen GraafVerif.Repr
open Xoshiro256StarStar (ofX)

theorem foldl_flatten {σ α : Type} (f : σ → α → σ) : ∀ (ls : List (List α)) (s : σ),
    ls.flatten.foldl f s = ls.foldl (fun s l => l.foldl f s) s := by
  intro ls
  induction ls with
  | nil => intro s; rfl
  | cons l ls ih => intro s; rw [List.flatten_cons, List.foldl_append, List.foldl_cons]; exact ih _

namespace AdjacencyMap

/-! ## `AdjacencyMap::random_tournament` -/

theorem randomTournament_for2_eq (u : Nat) (rows : List (List Nat)) (x : Rand.Xo) (v : Nat)
    (hu : u < rows.length) (hv : v < rows.length) :
    (AlgoGen.AdjacencyMap.randomTournament_for2 u (rows, ofX x) v : Blk _ AdjMap _) =
      optS x.next.2 (AdjacencyList.tstep rows (u, v) x.next.1) := by
  unfold AlgoGen.AdjacencyMap.randomTournament_for2 AdjacencyList.tstep Rand.rowInsert
  simp only [Xoshiro256StarStar.nextBool_eq, call_ok, ok_bind]
  by_cases hb : Rand.nextBool (Rand.Xo.next x).1 = true
  · simp only [hb, if_true, rd_lt _ _ _ hu, wr_lt _ _ _ _ hu, ok_bind, pure_eq_ok,
      List.getElem?_eq_getElem hu, Option.getD_some]
    rfl
  · simp only [hb, if_false, Bool.false_eq_true, rd_lt _ _ _ hv, wr_lt _ _ _ _ hv, ok_bind, pure_eq_ok,
      List.getElem?_eq_getElem hv, Option.getD_some]
    rfl

theorem randomTournament_for2_exits (u : Nat) (s : List (List Nat) × AlgoGen.Xoshiro256StarStar) (v : Nat) :
    (∃ s', AlgoGen.AdjacencyMap.randomTournament_for2 u s v = (.ok s' : Blk _ AdjMap _)) ∨
      (∃ e, AlgoGen.AdjacencyMap.randomTournament_for2 u s v = (.error (.err e) : Blk _ AdjMap _)) := by
  unfold AlgoGen.AdjacencyMap.randomTournament_for2
  cases hc : AlgoGen.Xoshiro256StarStar.nextBool s.2 with
  | error e => exact Or.inr ⟨e, by simp [hc]⟩
  | ok r =>
    by_cases hb : r.1 = true
    · by_cases hu : u < s.1.length
      · exact Or.inl ⟨(s.1.set u (Repr.sinsert v s.1[u]), r.2), by
          simp [hc, hb, rd_lt _ _ _ hu, wr_lt _ _ _ _ hu]⟩
      · exact Or.inr ⟨.fault (.ub "repr/adjacency_map/mod.rs:random_tournament:shared_arcs.get_unchecked(u)"), by
          simp [hc, hb, rd_ge _ _ _ (Nat.le_of_not_lt hu)]⟩
    · by_cases hv : v < s.1.length
      · exact Or.inl ⟨(s.1.set v (Repr.sinsert u s.1[v]), r.2), by
          simp [hc, hb, rd_lt _ _ _ hv, wr_lt _ _ _ _ hv]⟩
      · exact Or.inr ⟨.fault (.ub "repr/adjacency_map/mod.rs:random_tournament:shared_arcs.get_unchecked(v)"), by
          simp [hc, hb, rd_ge _ _ _ (Nat.le_of_not_lt hv)]⟩

/-- row `u` of a worker: the inner loop over `(u + 1)..order` -/
theorem randomTournament_for1_eq (n : Nat) (s : List (List Nat) × AlgoGen.Xoshiro256StarStar) (u : Nat) :
    (AlgoGen.AdjacencyMap.randomTournament_for1 n s u : Blk _ AdjMap _) =
      forLoop (AlgoGen.AdjacencyMap.randomTournament_for2 u) (AlgoGen.range (u + 1) n) s := by
  unfold AlgoGen.AdjacencyMap.randomTournament_for1
  exact bind_pair_eta _

/-- `handle.join()`: nothing to do -/
theorem randomTournament_for3_eq (h : Unit) : (AlgoGen.AdjacencyMap.randomTournament_for3 () h : Blk Unit AdjMap Unit) = .ok () := rfl

theorem mem_workerPairs {n : Nat} {r p : Nat × Nat} (hr : r.2 ≤ n) (h : p ∈ Rand.workerPairs n r) : p.1 < n ∧ p.2 < n := by
  unfold Rand.workerPairs at h
  simp only [List.mem_flatMap, List.mem_map, List.mem_range'_1] at h
  obtain ⟨u, hu, v, hv, rfl⟩ := h
  exact ⟨by omega, by omega⟩

/-- one worker run to completion on the shared rows: the locked inserts of its program, in program order -/
theorem worker_eq (n : Nat) (r : Nat × Nat) (hr : r.2 ≤ n) (rows : List (List Nat)) (x : Rand.Xo) (hlen : rows.length = n) :
    (forLoop (AlgoGen.AdjacencyMap.randomTournament_for1 n) (AlgoGen.range r.1 r.2) (rows, ofX x) : Blk (List (List Nat) × List Unit) AdjMap _) =
      .ok ((Rand.workerActs (draws x) n r).foldl Rand.rowInsert rows, ofX (x.iter (Rand.workerPairs n r).length)) ∧
    ((Rand.workerActs (draws x) n r).foldl Rand.rowInsert rows).length = n := by
  have hflat := forLoop_flat (β := List (List Nat) × List Unit) (AlgoGen.AdjacencyMap.randomTournament_for1 n)
    (fun u => AlgoGen.AdjacencyMap.randomTournament_for2 u) (fun u => AlgoGen.range (u + 1) n)
    (fun s u => randomTournament_for1_eq n s u)
    randomTournament_for2_exits (AlgoGen.range r.1 r.2) (rows, ofX x)
  rw [hflat]
  have hpairs : ((AlgoGen.range r.1 r.2).flatMap fun u => (AlgoGen.range (u + 1) n).map fun v => (u, v)) = Rand.workerPairs n r := rfl
  rw [hpairs]
  rw [forLoop_draws (β := List (List Nat) × List Unit) (fun r : List (List Nat) => r.length = n) (Rand.workerPairs n r) _ AdjacencyList.tstep
    (fun rws p x hp hrw => randomTournament_for2_eq p.1 rws x p.2
      (by rw [hrw]; exact (mem_workerPairs hr hp).1) (by rw [hrw]; exact (mem_workerPairs hr hp).2))
    (fun rws p w r' _ hrw h => by
      unfold AdjacencyList.tstep at h
      injection h with h
      subst h
      by_cases hb : Rand.nextBool w = true <;> simp [hb, AdjacencyList.rowInsert_length, hrw])
    (Rand.workerPairs n r) rows x (fun _ h => h) hlen]
  have hfold : ∀ (l : List ((Nat × Nat) × Nat)) (rw0 : List (List Nat)),
      l.foldlM (fun s ai => AdjacencyList.tstep s ai.1 (draws x ai.2)) rw0 =
        some ((l.map (Rand.orient (draws x))).foldl Rand.rowInsert rw0) := by
    intro l
    induction l with
    | nil => intro rw0; rfl
    | cons a l ih =>
      intro rw0
      have hstep : AdjacencyList.tstep rw0 a.1 (draws x a.2) = some (Rand.rowInsert rw0 (Rand.orient (draws x) a)) := by
        unfold AdjacencyList.tstep Rand.orient
        by_cases hb : Rand.nextBool (draws x a.2) = true <;> simp [hb]
      rw [List.foldlM_cons, hstep]
      simp only [Option.bind_eq_bind, Option.bind_some, List.map_cons, List.foldl_cons]
      exact ih _
  rw [hfold]
  refine ⟨rfl, ?_⟩
  have hlenf : ∀ (l : List (Nat × Nat)) (rw0 : List (List Nat)), (l.foldl Rand.rowInsert rw0).length = rw0.length := by
    intro l
    induction l with
    | nil => intro rw0; rfl
    | cons a l ih => intro rw0; rw [List.foldl_cons, ih, AdjacencyList.rowInsert_length]
  rw [hlenf]
  exact hlen

/-- one spawned worker (a dummy panic for a range that leaves `0..order`: never produced by the chunking) -/
def tournamentW (n : Nat) (seed : UInt64) (st : List (List Nat) × List Unit) (r : Nat × Nat) (id : Nat) :
    Blk (List (List Nat) × List Unit) AdjMap (List (List Nat) × List Unit) :=
  if r.2 ≤ n ∧ st.1.length = n then
    .ok ((Rand.workerActs (Rand.xoStreams seed id) n r).foldl Rand.rowInsert st.1, st.2 ++ [()])
  else panic

theorem randomTournament_for0_eq (n : Nat) (seed : UInt64) (chunk : Nat) (st : List (List Nat) × List Unit) (id : Nat)
    (hlen : st.1.length = n) :
    (AlgoGen.AdjacencyMap.randomTournament_for0 n seed chunk st id : Blk (List (List Nat) × List Unit) AdjMap _) =
      if id * chunk ≥ min n (id * chunk + chunk) then brk st
      else tournamentW n seed st (id * chunk, min n (id * chunk + chunk)) id := by
  unfold AlgoGen.AdjacencyMap.randomTournament_for0 tournamentW
  dsimp only
  by_cases hge : id * chunk ≥ min n (id * chunk + chunk)
  · simp only [hge, if_true]
  · have hr : min n (id * chunk + chunk) ≤ n := Nat.min_le_left _ _
    simp only [hge, if_false, hr, hlen, and_self, if_true, Xoshiro256StarStar.new_eq, call_ok, ok_bind]
    rw [(worker_eq n (id * chunk, min n (id * chunk + chunk)) hr st.1 _ hlen).1]
    simp only [ok_bind, pure_eq_ok, draws_new]
    rfl

theorem map_const_nil (n : Nat) : List.map (fun _ => ([] : List Nat)) (List.range n) = List.replicate n [] := by
  induction n with
  | zero => rfl
  | succ n ih => rw [List.range_succ, List.map_append, ih, List.replicate_succ']; rfl

theorem randomTournament_for4_eq (rows : List (List Nat)) (acc : List (Nat × List Nat)) (u : Nat) (hu : u < rows.length) :
    (AlgoGen.AdjacencyMap.randomTournament_for4 rows acc u : Blk (List (Nat × List Nat)) AdjMap _) =
      .ok (Ops.minsert u (rows[u]?.getD []) acc) := by
  unfold AlgoGen.AdjacencyMap.randomTournament_for4
  simp only [rd_lt _ _ _ hu, ok_bind, pure_eq_ok, List.getElem?_eq_getElem hu, Option.getD_some]

/-- `AdjacencyMap::random_tournament(order, seed)` with `available_parallelism() = ap ≥ 1` = the hand-written
`Rand.tournamentAM` on the streams of the workers' PRNGs `Xoshiro256StarStar::new(seed + thread_id)`, for every order
and seed (under the reading of DESIGN.md §4.2: every worker runs to completion at its spawn point — the hand-written
`tournament_schedule_independent` shows that every interleaving of the locked inserts ends in the same rows). -/
theorem randomTournament_eq (ap n : Nat) (seed : UInt64) (hap : 0 < ap) :
    AlgoGen.AdjacencyMap.randomTournament ap n seed = optR (Rand.tournamentAM (Rand.xoStreams seed) n ap) := by
  unfold AlgoGen.AdjacencyMap.randomTournament Rand.tournamentAM
  by_cases h0 : n = 0
  · subst h0; rfl
  · have hpos : n > 0 := Nat.pos_of_ne_zero h0
    by_cases h1 : n = 1
    · subst h1; rfl
    · have ht : 0 < min n ap := by omega
      simp only [hpos, h0, h1, decide_true, assert_true, ok_bind, if_false, divCeilP_pos _ _ ht, map_const_nil]
      -- the spawn loop, with the invariant that the shared rows keep their length
      have hinv : ∀ (fuel id : Nat) (st : List (List Nat) × List Unit), st.1.length = n →
          (forLoop (AlgoGen.AdjacencyMap.randomTournament_for0 n seed ((n + min n ap - 1) / min n ap)) (List.range' id fuel) st :
            Blk Empty AdjMap _) =
          forLoop (fun s (rk : (Nat × Nat) × Nat) => tournamentW n seed s rk.1 rk.2)
            ((Par.ranges.go n ((n + min n ap - 1) / min n ap) fuel id).zipIdx id) st := by
        intro fuel
        induction fuel with
        | zero => intro id st _; rfl
        | succ fuel ih =>
          intro id st hst
          rw [List.range'_succ]
          unfold Par.ranges.go
          by_cases hge : id * ((n + min n ap - 1) / min n ap) ≥ min n (id * ((n + min n ap - 1) / min n ap) + (n + min n ap - 1) / min n ap)
          · simp only [hge, if_true, List.zipIdx_nil]
            rw [forLoop_cons_brk (s' := st) (h := by rw [randomTournament_for0_eq n seed _ st id hst, if_pos hge]; rfl)]
            rfl
          · simp only [hge, if_false, List.zipIdx_cons]
            have hr : min n (id * ((n + min n ap - 1) / min n ap) + (n + min n ap - 1) / min n ap) ≤ n := Nat.min_le_left _ _
            have hW : tournamentW n seed st (id * ((n + min n ap - 1) / min n ap),
                min n (id * ((n + min n ap - 1) / min n ap) + (n + min n ap - 1) / min n ap)) id =
                .ok ((Rand.workerActs (Rand.xoStreams seed id) n (id * ((n + min n ap - 1) / min n ap),
                  min n (id * ((n + min n ap - 1) / min n ap) + (n + min n ap - 1) / min n ap))).foldl Rand.rowInsert st.1, st.2 ++ [()]) := by
              simp only [tournamentW, hr, hst, and_self, if_true]
            rw [forLoop_cons_ok (h := by rw [randomTournament_for0_eq n seed _ st id hst, if_neg hge]; exact hW),
              forLoop_cons_ok (body := fun s (rk : (Nat × Nat) × Nat) => tournamentW n seed s rk.1 rk.2) (h := hW)]
            apply ih
            have hlenf : ∀ (l : List (Nat × Nat)) (rw0 : List (List Nat)), (l.foldl Rand.rowInsert rw0).length = rw0.length := by
              intro l
              induction l with
              | nil => intro rw0; rfl
              | cons a l ih => intro rw0; rw [List.foldl_cons, ih, AdjacencyList.rowInsert_length]
            simp only [hlenf]
            exact hst
      rw [List.range_eq_range', hinv (min n ap) 0 (List.replicate n [], []) List.length_replicate]
      have hgo : (Par.ranges.go n ((n + min n ap - 1) / min n ap) (min n ap) 0) = Par.ranges n (min n ap) := rfl
      rw [hgo]
      -- all workers: the fold of the programs
      have hall : ∀ (l : List ((Nat × Nat) × Nat)) (st : List (List Nat) × List Unit), st.1.length = n →
          (∀ rk ∈ l, rk.1.2 ≤ n) →
          ∃ hs, (forLoop (fun s (rk : (Nat × Nat) × Nat) => tournamentW n seed s rk.1 rk.2) l st : Blk Empty AdjMap _) =
            .ok (l.foldl (fun rows rk => (Rand.workerActs (Rand.xoStreams seed rk.2) n rk.1).foldl Rand.rowInsert rows) st.1, hs) := by
        intro l
        induction l with
        | nil => intro st _ _; exact ⟨st.2, rfl⟩
        | cons rk l ih =>
          intro st hst hl
          have hW : tournamentW n seed st rk.1 rk.2 =
              .ok ((Rand.workerActs (Rand.xoStreams seed rk.2) n rk.1).foldl Rand.rowInsert st.1, st.2 ++ [()]) := by
            simp only [tournamentW, hl rk List.mem_cons_self, hst, and_self, if_true]
          have hlenf : ∀ (l : List (Nat × Nat)) (rw0 : List (List Nat)), (l.foldl Rand.rowInsert rw0).length = rw0.length := by
            intro l
            induction l with
            | nil => intro rw0; rfl
            | cons a l ih => intro rw0; rw [List.foldl_cons, ih, AdjacencyList.rowInsert_length]
          obtain ⟨hs, h⟩ := ih ((Rand.workerActs (Rand.xoStreams seed rk.2) n rk.1).foldl Rand.rowInsert st.1, st.2 ++ [()])
            (by simp only [hlenf]; exact hst) (fun x hx => hl x (List.mem_cons_of_mem _ hx))
          exact ⟨hs, by rw [forLoop_cons_ok (h := hW), h]; rfl⟩
      obtain ⟨hs, hrun⟩ := hall ((Par.ranges n (min n ap)).zipIdx 0) (List.replicate n [], []) List.length_replicate
        (fun rk hrk => by
          have hm := (List.mem_zipIdx hrk).2.2
          have hmem : rk.1 ∈ Par.ranges n (min n ap) := by rw [hm]; exact List.getElem_mem _
          exact (go_mem_lt n _ _ 0 rk.1 (hgo ▸ hmem)).2)
      rw [hrun]
      simp only [ok_bind]
      have hjoin : (forLoop AlgoGen.AdjacencyMap.randomTournament_for3 hs () : Blk Empty AdjMap Unit) = .ok () :=
        forLoop_pure (β := Empty) _ (fun _ _ => ()) (fun _ _ => rfl) hs ()
      rw [hjoin]
      simp only [ok_bind]
      have hrowslen : (List.foldl (fun rows (rk : (Nat × Nat) × Nat) =>
          (Rand.workerActs (Rand.xoStreams seed rk.2) n rk.1).foldl Rand.rowInsert rows) (List.replicate n [])
          ((Par.ranges n (min n ap)).zipIdx 0)).length = n := by
        have hlenf : ∀ (l : List (Nat × Nat)) (rw0 : List (List Nat)), (l.foldl Rand.rowInsert rw0).length = rw0.length := by
          intro l
          induction l with
          | nil => intro rw0; rfl
          | cons a l ih => intro rw0; rw [List.foldl_cons, ih, AdjacencyList.rowInsert_length]
        have : ∀ (l : List ((Nat × Nat) × Nat)) (rw0 : List (List Nat)),
            (l.foldl (fun rows rk => (Rand.workerActs (Rand.xoStreams seed rk.2) n rk.1).foldl Rand.rowInsert rows) rw0).length = rw0.length := by
          intro l
          induction l with
          | nil => intro rw0; rfl
          | cons a l ih => intro rw0; rw [List.foldl_cons, ih, hlenf]
        rw [this, List.length_replicate]
      have hcol := forLoop_pure_inv (β := Empty) (ρ := AdjMap) (fun _ : List (Nat × List Nat) => True)
        (AlgoGen.AdjacencyMap.randomTournament_for4 _) (fun acc u => Ops.minsert u (_[u]?.getD []) acc) (List.range n)
        (fun acc u hu _ => ⟨randomTournament_for4_eq _ acc u (by rw [hrowslen]; exact List.mem_range.1 hu), trivial⟩)
        (List.range n) [] (fun _ h => h) trivial
      rw [hcol.1]
      simp only [ok_bind, pure_eq_ok, fnBody_ok, optR]
      congr 2
      unfold Rand.collectMap Rand.tournamentProgs Rand.workers
      rw [List.foldl_map, foldl_flatten, List.foldl_map]
      rfl

/-! ## `AdjacencyMap::erdos_renyi` -/

/-- a loop does nothing on the items a test rejects: it is the loop over the accepted items -/
theorem forLoop_filter {σ α β ρ : Type} (body : σ → α → Blk σ ρ σ) (q : α → Bool)
    (h : ∀ s a, q a = false → body s a = .ok s) : ∀ (l : List α) (s : σ),
    (forLoop body l s : Blk β ρ σ) = forLoop body (l.filter q) s := by
  intro l
  induction l with
  | nil => intro s; rfl
  | cons a l ih =>
    intro s
    rw [List.filter_cons]
    cases hq : q a with
    | false =>
      rw [forLoop_cons_ok (h := h s a hq)]
      simp only [Bool.false_eq_true, if_false]
      exact ih s
    | true =>
      simp only [if_true]
      rw [forLoop_cons, forLoop_cons]
      cases body s a with
      | ok s' => exact ih s'
      | error e => cases e <;> rfl

/-- `forLoop_select` for a body that is known on the candidates only -/
theorem forLoop_select' {σ β ρ : Type} (p : Rand.F64) (g : σ → Nat → σ) (c : List Nat)
    (body : AlgoGen.Xoshiro256StarStar × σ → Nat → Blk (AlgoGen.Xoshiro256StarStar × σ) ρ (AlgoGen.Xoshiro256StarStar × σ))
    (hbody : ∀ s v x, v ∈ c → body (ofX x, s) v = .ok (ofX x.next.2, if Rand.f64lt x.next.1 p then g s v else s))
    (s : σ) (x : Rand.Xo) :
    (forLoop body c (ofX x, s) : Blk β ρ _) = .ok (ofX (x.iter c.length), (Rand.erRow (draws x) p 0 c).foldl g s) := by
  rw [forLoop_drawsL (β := β) (fun _ => True) c body (fun s v w => some (if Rand.f64lt w p then g s v else s))
    (fun s v x hv _ => hbody s v x hv) (fun _ _ _ _ _ _ _ => trivial) c s x (fun _ h => h) trivial]
  have h1 : (fun (s : σ) (ai : Nat × Nat) => some (if Rand.f64lt (draws x ai.2) p then g s ai.1 else s)) =
      (fun s ai => if (fun i => Rand.f64lt (draws x i) p) ai.2 then (fun s a => some (g s a)) s ai.1 else some s) := by
    funext s ai
    by_cases hc : Rand.f64lt (draws x ai.2) p = true <;> simp [hc]
  have h2 := AdjacencyMatrix.foldlM_cond_filter (fun i => Rand.f64lt (draws x i) p) (fun (s : σ) (a : Nat) => some (g s a))
    c.zipIdx s
  rw [h1, h2, foldlM_some]
  rfl

theorem erdosRenyi_for2_eq (p : Rand.F64) (u : Nat) (out : List Nat) (x : Rand.Xo) (v : Nat) (hv : v ≠ u) :
    (AlgoGen.AdjacencyMap.erdosRenyi_for2 p u (ofX x, out) v : Blk _ AdjMap _) =
      .ok (ofX x.next.2, if Rand.f64lt x.next.1 p then sinsert v out else out) := by
  unfold AlgoGen.AdjacencyMap.erdosRenyi_for2
  simp only [hv, ne_eq, not_false_eq_true, if_true, Xoshiro256StarStar.nextF64_eq, call_ok, ok_bind, pure_eq_ok,
    AdjacencyMatrix.f64ltM_mant]
  by_cases hb : Rand.f64lt (Rand.Xo.next x).1 p = true
  · simp only [hb, if_true]; rfl
  · simp only [hb, if_false, Bool.false_eq_true]; rfl

theorem erdosRenyi_for2_skip (p : Rand.F64) (u : Nat) (st : AlgoGen.Xoshiro256StarStar × List Nat) :
    (AlgoGen.AdjacencyMap.erdosRenyi_for2 p u st u : Blk _ AdjMap _) = .ok st := by
  unfold AlgoGen.AdjacencyMap.erdosRenyi_for2
  simp only [ne_eq, not_true_eq_false, if_false, pure_eq_ok, ok_bind, Bool.false_eq_true]

theorem toSet_erRow_filter (S : Rand.Stream) (p : Rand.F64) (b n u : Nat) (hu : u < n) :
    (Rand.erRow S p b (Rand.othersFilter n u)).foldl (fun s v => sinsert v s) [] = Rand.erRow S p b (Rand.othersFilter n u) := by
  rw [← Rand.othersChain_eq_filter n u hu]
  exact toSet_erRow S p b n u

/-- row `u` of a worker: `n - 1` draws (none for `v = u`), the selected candidates -/
theorem erdosRenyi_for1_eq (n : Nat) (p : Rand.F64) (loc : List (Nat × List Nat)) (x : Rand.Xo) (u : Nat) (hu : u < n) :
    (AlgoGen.AdjacencyMap.erdosRenyi_for1 n p (ofX x, loc) u : Blk _ AdjMap _) =
      .ok (ofX (x.iter (n - 1)), loc ++ [(u, Rand.erRow (draws x) p 0 (Rand.othersFilter n u))]) := by
  unfold AlgoGen.AdjacencyMap.erdosRenyi_for1
  dsimp only
  rw [forLoop_filter (β := AlgoGen.Xoshiro256StarStar × List (Nat × List Nat)) (AlgoGen.AdjacencyMap.erdosRenyi_for2 p u) (fun v => u != v)
    (fun st v hq => by
      have : v = u := by
        have : ¬ (u ≠ v) := by simpa using hq
        exact (Classical.not_not.1 this).symm
      subst this
      exact erdosRenyi_for2_skip p v st)]
  have hc : (List.range n).filter (fun v => u != v) = Rand.othersFilter n u := rfl
  rw [hc, forLoop_select' (β := AlgoGen.Xoshiro256StarStar × List (Nat × List Nat)) p (fun s v => sinsert v s) (Rand.othersFilter n u) _
    (fun s v x hv => erdosRenyi_for2_eq p u s x v (by
      have := (Rand.mem_othersFilter n u v).1 hv
      exact this.2))]
  rw [AdjacencyMatrix.othersFilter_length n u hu, toSet_erRow_filter _ _ _ _ _ hu]
  rfl

/-- a worker on the rows `r.1 .. r.2` with the PRNG state `x`: the hand-written `erWorker` on the draws of `x` -/
theorem erWorker_eq (n : Nat) (p : Rand.F64) (r : Nat × Nat) (hr : r.2 ≤ n) (x : Rand.Xo) :
    ∃ x', (forLoop (AlgoGen.AdjacencyMap.erdosRenyi_for1 n p) (AlgoGen.range r.1 r.2) (ofX x, []) :
        Blk (List (List (Nat × List Nat))) AdjMap _) = .ok (ofX x', Rand.erWorker (draws x) p n r) := by
  refine ⟨x.iter ((AlgoGen.range r.1 r.2).length * (n - 1)), ?_⟩
  rw [forLoop_blocks (β := List (List (Nat × List Nat))) (n - 1) (AlgoGen.range r.1 r.2) _
    (fun (loc : List (Nat × List Nat)) u S => loc ++ [(u, Rand.erRow S p 0 (Rand.othersFilter n u))])
    (fun loc u x hu => erdosRenyi_for1_eq n p loc x u (by
      have := (List.mem_range'_1.1 hu).2
      have h1 := (List.mem_range'_1.1 hu).1
      unfold AlgoGen.range at *
      omega))
    (AlgoGen.range r.1 r.2) [] x (fun _ h => h)]
  congr 2
  unfold Rand.erWorker AlgoGen.range
  rw [zipIdx_range', List.foldl_map]
  have hgen : ∀ (l : List Nat) (acc : List (Nat × List Nat)),
      l.foldl (fun s u => s ++ [(u, Rand.erRow (fun j => draws x ((u - r.1 + 0) * (n - 1) + j)) p 0 (Rand.othersFilter n u))]) acc =
        acc ++ l.map (fun u => (u, Rand.erRow (draws x) p ((u - r.1) * (n - 1)) (Rand.othersFilter n u))) := by
    intro l
    induction l with
    | nil => intro acc; simp
    | cons u l ih =>
      intro acc
      rw [List.foldl_cons, ih, erRow_shift]
      simp
  exact hgen _ _

/-- one spawned worker -/
def erW (n : Nat) (p : Rand.F64) (seed : UInt64) (hs : List (List (Nat × List Nat))) (r : Nat × Nat) (id : Nat) :
    Blk (List (List (Nat × List Nat))) AdjMap (List (List (Nat × List Nat))) :=
  if r.2 ≤ n then .ok (hs ++ [Rand.erWorker (Rand.xoStreams seed id) p n r]) else panic

theorem erdosRenyi_for0_eq (n : Nat) (p : Rand.F64) (seed : UInt64) (chunk : Nat) (hs : List (List (Nat × List Nat))) (id : Nat) :
    (AlgoGen.AdjacencyMap.erdosRenyi_for0 n p seed chunk hs id : Blk (List (List (Nat × List Nat))) AdjMap _) =
      if id * chunk ≥ min n (id * chunk + chunk) then brk hs
      else erW n p seed hs (id * chunk, min n (id * chunk + chunk)) id := by
  unfold AlgoGen.AdjacencyMap.erdosRenyi_for0 erW
  dsimp only
  by_cases hge : id * chunk ≥ min n (id * chunk + chunk)
  · simp only [hge, if_true]
  · have hr : min n (id * chunk + chunk) ≤ n := Nat.min_le_left _ _
    simp only [hge, if_false, hr, if_true, Xoshiro256StarStar.new_eq, call_ok, ok_bind]
    rw [subP_le _ _ (by omega)]
    simp only [ok_bind]
    obtain ⟨x', h⟩ := erWorker_eq n p (id * chunk, min n (id * chunk + chunk)) hr (Rand.Xo.new (seed + UInt64.ofNat id))
    rw [h]
    simp only [ok_bind, pure_eq_ok, draws_new]
    rfl

theorem erdosRenyi_for3_eq (res : List (Nat × List Nat)) (h : List (Nat × List Nat)) :
    (AlgoGen.AdjacencyMap.erdosRenyi_for3 res h : Blk (List (Nat × List Nat)) AdjMap _) = .ok (res ++ h) := rfl

/-- the threaded part (`p ≤ 0.5`), for every fuel `≥ 1` -/
theorem erdosRenyi_core (ap n : Nat) (p : Rand.F64) (seed : UInt64) (hap : 0 < ap) (fuel : Nat)
    (hn : 1 < n) (hp : p.inUnit = true) (hh : p.gtHalf = false) :
    AlgoGen.AdjacencyMap.erdosRenyi ap (fuel + 1) n p seed = .ok (Rand.erMapCore (Rand.xoStreams seed) n ap p) := by
  unfold AlgoGen.AdjacencyMap.erdosRenyi
  have hpos : n > 0 := by omega
  have h1 : n ≠ 1 := by omega
  have ht : 0 < min n ap := by omega
  simp only [hpos, hp, hh, h1, decide_true, assert_true, ok_bind, if_false, Bool.false_eq_true, divCeilP_pos _ _ ht]
  have hloop := forLoop_ranges (β := Empty) (ρ := AdjMap) n ((n + min n ap - 1) / min n ap)
    (AlgoGen.AdjacencyMap.erdosRenyi_for0 n p seed ((n + min n ap - 1) / min n ap))
    (fun s r k => erW n p seed s r k)
    (fun s id => erdosRenyi_for0_eq n p seed _ s id)
    (fun s r k => by
      unfold erW
      by_cases h : r.2 ≤ n
      · exact Or.inl ⟨s ++ [Rand.erWorker (Rand.xoStreams seed k) p n r], by simp only [h, if_true]⟩
      · exact Or.inr ⟨.fault .panic, by simp only [h, if_false]; rfl⟩)
    (min n ap) 0 []
  have hr : List.range (min n ap) = List.range' 0 (min n ap) := List.range_eq_range'
  rw [hr, hloop]
  have hgo : (Par.ranges.go n ((n + min n ap - 1) / min n ap) (min n ap) 0) = Par.ranges n (min n ap) := rfl
  rw [hgo]
  have hW := forLoop_pure_inv (β := Empty) (ρ := AdjMap) (fun _ : List (List (Nat × List Nat)) => True)
    (fun s (rk : (Nat × Nat) × Nat) => erW n p seed s rk.1 rk.2)
    (fun s rk => s ++ [Rand.erWorker (Rand.xoStreams seed rk.2) p n rk.1])
    ((Par.ranges n (min n ap)).zipIdx 0)
    (fun s rk hrk _ => ⟨by
      have hm := (List.mem_zipIdx hrk).2.2
      have hmem : rk.1 ∈ Par.ranges n (min n ap) := by rw [hm]; exact List.getElem_mem _
      have := (go_mem_lt n _ _ 0 rk.1 (hgo ▸ hmem)).2
      simp only [erW, this, if_true], trivial⟩)
    _ [] (fun _ h => h) trivial
  rw [hW.1]
  simp only [ok_bind]
  rw [forLoop_pure (β := Empty) _ _ erdosRenyi_for3_eq]
  simp only [ok_bind, pure_eq_ok, fnBody_ok, foldl_append_flatten, List.nil_append]
  have hres : (List.foldl (fun s (rk : (Nat × Nat) × Nat) => s ++ [Rand.erWorker (Rand.xoStreams seed rk.2) p n rk.1]) []
      ((Par.ranges n (min n ap)).zipIdx 0)).flatten = Rand.erResults (Rand.xoStreams seed) n ap p := by
    rw [foldl_snoc_map (fun (rk : (Nat × Nat) × Nat) => Rand.erWorker (Rand.xoStreams seed rk.2) p n rk.1), List.nil_append]
    unfold Rand.erResults Rand.workers
    rw [List.flatMap_def]
  rw [hres]
  have hkeys := Rand.erResults_keys (Rand.xoStreams seed) n ap p hpos hap
  have hsorted : (Rand.erResults (Rand.xoStreams seed) n ap p).Pairwise (fun a b => a.1 ≤ b.1) := by
    have : ((Rand.erResults (Rand.xoStreams seed) n ap p).map (·.1)).Pairwise (· ≤ ·) := by
      rw [hkeys]; exact (List.pairwise_lt_range (n := n)).imp (fun h => Nat.le_of_lt h)
    exact List.pairwise_map.1 this
  rw [AdjacencyList.mergeSort_sorted _ hsorted]
  rfl

/-- `Ops.complementAM` (the generated `AdjacencyMap::complement` of set 3) and the `complementAM` of `Model/Rand.lean`
agree on a key-sorted map -/
theorem complementAM_agree (d : AdjMap) (hs : SortedK d.rows) : Ops.complementAM d = Rand.complementAM d := by
  unfold Ops.complementAM Rand.complementAM Rand.sdiff
  have hk : SortedS (d.rows.map (·.1)) := by
    unfold SortedS
    rw [List.pairwise_map]
    exact hs
  have hv : Ops.toSet (d.rows.map (·.1)) = d.rows.map (·.1) := Ops.toSet_of_sorted hk
  dsimp only
  rw [hv]
  have hrows : (d.rows.map fun e => (e.1, serase e.1 (Ops.toSet ((d.rows.map (·.1)).filter fun v => !e.2.contains v)))) =
      (d.rows.map fun ur => (ur.1, serase ur.1 ((d.rows.map (·.1)).filter fun x => !ur.2.contains x))) := by
    apply List.map_congr_left
    intro e _
    have : SortedS ((d.rows.map (·.1)).filter fun v => !e.2.contains v) := List.Pairwise.sublist List.filter_sublist hk
    rw [Ops.toSet_of_sorted this]
  rw [hrows, Ops.toMap_of_sorted]
  unfold SortedK
  rw [List.pairwise_map]
  exact hs

theorem erMapCore_sortedK (streams : Nat → Rand.Stream) (n t : Nat) (p : Rand.F64) (hn : 0 < n) (ht : 0 < t) :
    SortedK (Rand.erMapCore streams n t p).rows := by
  have hkeys := Rand.erResults_keys streams n t p hn ht
  have hsorted : SortedK (Rand.erResults streams n t p) := by
    unfold SortedK
    have : ((Rand.erResults streams n t p).map (·.1)).Pairwise (· < ·) := by rw [hkeys]; exact List.pairwise_lt_range
    exact List.pairwise_map.1 this
  have : (Rand.erMapCore streams n t p).rows = Rand.erResults streams n t p := by
    show Rand.collectMap (Rand.erResults streams n t p) = _
    exact Ops.toMap_of_sorted hsorted
  rw [this]
  exact hsorted

/-- `AdjacencyMap::erdos_renyi(order, p, seed)` with `available_parallelism() = ap ≥ 1` and any fuel `≥ 2` for the
recursion `erdos_renyi(order, 1.0 - p, seed).complement()` = the hand-written `Rand.erAM` on the streams of the workers'
PRNGs, for every order, every `f64` value `p` and every seed. -/
theorem erdosRenyi_eq (ap fuel n : Nat) (p : Rand.F64) (seed : UInt64) (hap : 0 < ap) :
    AlgoGen.AdjacencyMap.erdosRenyi ap (fuel + 2) n p seed = optR (Rand.erAM (Rand.xoStreams seed) n ap p) := by
  unfold Rand.erAM
  by_cases h0 : n = 0
  · subst h0
    unfold AlgoGen.AdjacencyMap.erdosRenyi Rand.erAMF
    rfl
  · have hpos : n > 0 := Nat.pos_of_ne_zero h0
    by_cases hp : p.inUnit = true
    · by_cases h1 : n = 1
      · subst h1
        unfold AlgoGen.AdjacencyMap.erdosRenyi Rand.erAMF
        simp [hp, optR]
        rfl
      · have hn : 1 < n := by omega
        cases hh : p.gtHalf with
        | false =>
          rw [erdosRenyi_core ap n p seed hap (fuel + 1) hn hp hh]
          simp [Rand.erAMF, h0, h1, hp, hh, optR]
        | true =>
          obtain ⟨hq1, hq2, _⟩ := Rand.oneMinus_facts p hp hh
          have hrec := erdosRenyi_core ap n p.oneMinus seed hap fuel hn hq1 hq2
          unfold AlgoGen.AdjacencyMap.erdosRenyi
          simp only [hpos, hp, hh, h1, decide_true, assert_true, ok_bind, if_false, if_true, hrec, call_ok,
            AdjacencyMap.complement_eq, ret_bind]
          rw [complementAM_agree _ (erMapCore_sortedK _ n ap _ hpos hap)]
          simp [Rand.erAMF, h0, h1, hp, hh, hq1, hq2, optR]
    · have hp' : p.inUnit = false := by simpa using hp
      unfold AlgoGen.AdjacencyMap.erdosRenyi Rand.erAMF
      simp [hpos, hp', h0, optR]

end AdjacencyMap
end GraafVerif.AlgoGenThm
