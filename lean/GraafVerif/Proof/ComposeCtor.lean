import GraafVerif.Proof.ComposeOps
import GraafVerif.Thm.C15
import GraafVerif.Thm.C16
/-!
# Compose — constructors (`From<rows>`, `From<arcs>`, C16) and random generators (C15) under the
traversals

* `From<rows>`: the view of the constructed `AdjacencyList` / `AdjacencyMap` /
  `AdjacencyListWeighted` has LITERALLY the given rows (`rowsRel rows u v := v ∈ rows[u]`).
* `From<arcs>` (`AdjacencyMatrix`, `EdgeList`): order `max id + 1`, arc relation = the given list.
* Random generators: C15 proves validity on the observable `View` (`order`, `vertices`, `has_arc`)
  and does NOT prove the representation invariant `WF`.  The traversal theorems need less than
  `WF`: only that the view is a well-formed `Graph` with the arc relation `has_arc` — which follows
  from `IsSimpleOn` alone (`…of_simpleOn`), because each representation's `out_neighbors` row
  lists `v` exactly when `has_arc(u, v)` (no invariant needed).  (Johnson / view uniqueness, which
  need ascending rows, are therefore not stated for the random generators.)
-/
namespace GraafVerif.Compose
open GraafVerif GraafVerif.Repr GraafVerif.Query GraafVerif.Conv

/-- the arc relation of a row table -/
def rowsRel (rows : List (List Nat)) : Rel := fun u v => v ∈ rows[u]?.getD []
/-- the weighted arc relation of a weighted row table -/
def wrowsRel (rows : List (List (Nat × Int))) : WRel := fun u v w => (v, w) ∈ rows[u]?.getD []
/-- the arc relation of an arc list -/
def listRel (arcs : List (Nat × Nat)) : Rel := fun u v => (u, v) ∈ arcs

/-! ## `From<rows>` -/

theorem AL.fromRows_viewIs (rows : List (List Nat)) (hv : RowsValid rows) (hs : ∀ r ∈ rows, SortedS r) :
    Conv.AL.fromRows rows = some ⟨rows⟩ ∧ AdjList.WF ⟨rows⟩ ∧
    (∀ u, (⟨rows⟩ : AdjList).view.out u = rows[u]?.getD []) ∧
    ViewIs (⟨rows⟩ : AdjList).view (⟨rows⟩ : AdjList).vview rows.length (rowsRel rows) := by
  obtain ⟨e, hw⟩ := (C16.from_rows_al rows).1 hv
  have hwf : AdjList.WF ⟨rows⟩ := hw hs
  refine ⟨e, hwf, fun _ => rfl, ?_⟩
  have vs := (⟨rows⟩ : AdjList).view_spec hwf
  exact (AdjList.viewIs _ hwf).congr (fun u v => (vs.arc_iff u v).symm)

theorem mget_enumRows (rows : List (List Nat)) (u : Nat) : mget u (enumRows rows) = rows[u]? := by
  cases h : rows[u]? with
  | some row => exact (mget_eq_some_iff (sortedK_enumRows rows)).2 (mem_enumRows.2 h)
  | none =>
    cases h' : mget u (enumRows rows) with
    | none => rfl
    | some row =>
      have := mem_enumRows.1 ((mget_eq_some_iff (sortedK_enumRows rows)).1 h')
      rw [h] at this; cases this

theorem AM.fromRows_viewIs (rows : List (List Nat)) (hv : RowsValid rows) (hs : ∀ r ∈ rows, SortedS r) :
    Conv.AM.fromRows rows = some ⟨enumRows rows⟩ ∧ AdjMap.WF ⟨enumRows rows⟩ ∧
    Gen.AM.Contiguous ⟨enumRows rows⟩ ∧
    (∀ u, (⟨enumRows rows⟩ : AdjMap).view.out u = rows[u]?.getD []) ∧
    ViewIs (⟨enumRows rows⟩ : AdjMap).view (⟨enumRows rows⟩ : AdjMap).vview rows.length (rowsRel rows) := by
  obtain ⟨e, hw⟩ := (C16.from_rows_am rows).1 hv
  obtain ⟨hwf, hc, _⟩ := hw hs
  have hout : ∀ u, (⟨enumRows rows⟩ : AdjMap).view.out u = rows[u]?.getD [] := by
    intro u; rw [AdjMap.view_out]; simp only [mget_enumRows]
  refine ⟨e, hwf, hc, hout, ?_⟩
  have vs := (⟨enumRows rows⟩ : AdjMap).view_spec hwf hc
  have ho : (⟨enumRows rows⟩ : AdjMap).order = rows.length := by
    simp only [AdjMap.order, enumRows, List.length_map, List.length_zipIdx]
  have := (AdjMap.viewIs _ hwf hc).congr (Q := rowsRel rows) (fun u v => by
    refine (vs.arc_iff u v).symm.trans ?_
    show v ∈ (⟨enumRows rows⟩ : AdjMap).view.out u ↔ _
    rw [hout u]; rfl)
  rw [ho] at this; exact this

theorem WL.fromRows_weighted (rows : List (List (Nat × Int))) (hv : RowsValidW rows)
    (hs : ∀ r ∈ rows, SortedK r) :
    Conv.WL.fromRows rows = some ⟨rows⟩ ∧ AdjListW.WF ⟨rows⟩ ∧
    (∀ u, (⟨rows⟩ : AdjListW).wview.out u = rows[u]?.getD []) ∧
    WeightedHold (wrowsRel rows) rows.length (⟨rows⟩ : AdjListW).wview ∧
    ViewIs (⟨rows⟩ : AdjListW).view (⟨rows⟩ : AdjListW).vview rows.length (⟨rows⟩ : AdjListW).Arc := by
  obtain ⟨e, hw⟩ := (C16.from_rows_wl rows).1 hv
  have hwf : AdjListW.WF ⟨rows⟩ := hw hs
  have vs := (⟨rows⟩ : AdjListW).wview_spec hwf
  refine ⟨e, hwf, fun _ => rfl, ?_, AdjListW.viewIs _ hwf⟩
  exact weightedHold_of (g := (⟨rows⟩ : AdjListW).wview) (W := wrowsRel rows) (fun _ _ _ => Iff.rfl) vs.wf vs.functional

/-! ## `From<arcs>` -/

theorem MX.fromArcs_viewIs (arcs : List (Nat × Nat)) (hne : arcs ≠ []) (hnl : ∀ a ∈ arcs, a.1 ≠ a.2)
    (hf : C16.Fits (maxId arcs + 1)) :
    ∃ d, Conv.MX.fromArcs arcs = some d ∧ d.WF ∧ d.order = maxId arcs + 1 ∧
      ViewIs d.view d.vview (maxId arcs + 1) (listRel arcs) := by
  obtain ⟨d, e, hok, ho, ha⟩ := (C16.from_arcs arcs).1 hne hnl hf
  refine ⟨d, e, hok.1, ho, ?_⟩
  have := (AdjMatrix.viewIs d hok.1).congr (Q := listRel arcs) (fun u v => ha u v)
  rw [ho] at this; exact this

theorem EL.fromArcs_viewIs (arcs : List (Nat × Nat)) (hnl : ∀ a ∈ arcs, a.1 ≠ a.2) :
    ∃ d, Conv.EL.fromArcs arcs = some d ∧ d.WF ∧ d.order = maxId arcs + 1 ∧
      ViewIs d.view d.vview (maxId arcs + 1) (listRel arcs) := by
  obtain ⟨d, e, hok, ho, ha⟩ := (C16.from_arcs arcs).2.1 hnl
  refine ⟨d, e, hok, ho, ?_⟩
  have := (EdgeList.viewIs d hok).congr (Q := listRel arcs) (fun u v => ha u v)
  rw [ho] at this; exact this

/-! ## Random generators: from the observable validity alone -/

/-- The view is a well-formed `Graph` of order `n` with arc relation `P`, and the vertex-id view
has the vertex list `0..n` — all that BFS / DFS / Tarjan need (rows need not be sorted). -/
structure ViewHas (g : Graph) (vg : Tarjan.VGraph) (n : Nat) (P : Rel) : Prop where
  order : g.n = n
  wf : g.WF
  arc_iff : ∀ u v, g.A u v ↔ P u v
  vverts : vg.verts = List.range n
  vout : vg.out = g.out

theorem ViewIs.toHas {g : Graph} {vg : Tarjan.VGraph} {n : Nat} {P : Rel} (h : ViewIs g vg n P) :
    ViewHas g vg n P := ⟨h.order, h.wf, h.arc_iff, h.vverts, h.vout⟩

theorem ViewHas.traversals {g : Graph} {vg : Tarjan.VGraph} {n : Nat} {P : Rel} (h : ViewHas g vg n P)
    (S : List Nat) (hS : ∀ s ∈ S, s < n) (hnd : S.Nodup) : TraversalsHold P n S g := by
  have hn := h.order
  rw [← hn] at hS ⊢
  exact traversalsHold_of h.arc_iff h.wf hS hnd

theorem ViewHas.tarjan {g : Graph} {vg : Tarjan.VGraph} {n : Nat} {P : Rel} (h : ViewHas g vg n P) :
    TarjanHolds (List.range n) P vg := by
  have hcl : vg.Closed := by
    intro u _ v hv
    rw [h.vverts]
    rw [h.vout] at hv
    have := (h.wf u v hv).2
    rw [h.order] at this
    simpa using this
  have := tarjanHolds_of (g := vg) (A := P) (fun u v => by rw [h.vout]; exact h.arc_iff u v) hcl
  rw [h.vverts] at this
  exact this

/-- `has_arc` as a relation -/
def hasRel (has : Nat → Nat → Bool) : Rel := fun u v => has u v = true

theorem AL.viewHas_of_simpleOn (g : AdjList) (n : Nat) (h : Rand.IsSimpleOn n (Rand.viewAL g)) :
    ViewHas g.view g.vview n (hasRel g.hasArc) := by
  obtain ⟨ho, hv, hs⟩ := h
  have hA : ∀ u v, g.view.A u v ↔ g.hasArc u v = true := by
    intro u v
    show v ∈ g.rows[u]?.getD [] ↔ _
    rw [AdjList.hasArc_eq]; simp
  refine ⟨ho, ?_, hA, hv, rfl⟩
  intro u v huv
  have := hs u v ((hA u v).1 huv)
  show u < g.order ∧ v < g.order
  rw [show g.order = n from ho]; exact ⟨this.1, this.2.1⟩

theorem AM.viewHas_of_simpleOn (g : AdjMap) (n : Nat) (h : Rand.IsSimpleOn n (Rand.viewAM g)) :
    ViewHas g.view g.vview n (hasRel g.hasArc) := by
  obtain ⟨ho, hv, hs⟩ := h
  have hA : ∀ u v, g.view.A u v ↔ g.hasArc u v = true := by
    intro u v
    show v ∈ (mget u g.rows).getD [] ↔ _
    rw [AdjMap.hasArc_eq]; simp [AdjMap.row]
  refine ⟨ho, ?_, hA, hv, rfl⟩
  intro u v huv
  have := hs u v ((hA u v).1 huv)
  show u < g.order ∧ v < g.order
  rw [show g.order = n from ho]; exact ⟨this.1, this.2.1⟩

theorem MX.viewHas_of_simpleOn (g : AdjMatrix) (n : Nat) (h : Rand.IsSimpleOn n (Rand.viewMX g)) :
    ViewHas g.view g.vview n (hasRel g.hasArc) := by
  obtain ⟨ho, hv, hs⟩ := h
  have ho' : g.order = n := ho
  have hA : ∀ u v, g.view.A u v ↔ g.hasArc u v = true := by
    intro u v
    show v ∈ g.view.out u ↔ _
    rw [AdjMatrix.view_out]
    constructor
    · intro hm
      split at hm
      · exact (List.mem_filter.1 hm).2
      · cases hm
    · intro hh
      have := hs u v hh
      rw [if_pos (by rw [ho']; exact this.1)]
      exact List.mem_filter.2 ⟨by rw [ho']; simpa using this.2.1, hh⟩
  refine ⟨ho, ?_, hA, hv, rfl⟩
  intro u v huv
  have := hs u v ((hA u v).1 huv)
  show u < g.order ∧ v < g.order
  rw [ho']; exact ⟨this.1, this.2.1⟩

theorem EL.viewHas_of_simpleOn (g : EdgeList) (n : Nat) (h : Rand.IsSimpleOn n (Rand.viewEL g)) :
    ViewHas g.view g.vview n (hasRel g.hasArc) := by
  obtain ⟨ho, hv, hs⟩ := h
  have ho' : g.order = n := ho
  have hA : ∀ u v, g.view.A u v ↔ g.hasArc u v = true := by
    intro u v
    show v ∈ g.view.out u ↔ _
    rw [EdgeList.view_out, EdgeList.hasArc_iff]
    constructor
    · intro hm
      split at hm
      · obtain ⟨a, ha, he⟩ := List.mem_filterMap.1 hm
        split at he
        · rename_i h1
          have h1' : a.1 = u := by simpa using h1
          cases he
          rw [← h1']; exact ha
        · cases he
      · cases hm
    · intro hh
      have := hs u v ((EdgeList.hasArc_iff g u v).2 hh)
      rw [if_pos (by rw [ho']; exact this.1)]
      exact List.mem_filterMap.2 ⟨(u, v), hh, by simp⟩
  refine ⟨ho, ?_, hA, hv, rfl⟩
  intro u v huv
  have := hs u v ((hA u v).1 huv)
  show u < g.order ∧ v < g.order
  rw [ho']; exact ⟨this.1, this.2.1⟩

/-- What the composition says of a randomly generated digraph `g` with observable validity
`Valid n (view g)`: BFS / DFS (C04, C05, C06) and Tarjan (C09) are correct w.r.t. `has_arc`. -/
def RandomOK (g : Graph) (vg : Tarjan.VGraph) (n : Nat) (has : Nat → Nat → Bool) : Prop :=
  (∀ S : List Nat, (∀ s ∈ S, s < n) → S.Nodup → TraversalsHold (hasRel has) n S g) ∧
  TarjanHolds (List.range n) (hasRel has) vg

theorem ViewHas.randomOK {g : Graph} {vg : Tarjan.VGraph} {n : Nat} {has : Nat → Nat → Bool}
    (h : ViewHas g vg n (hasRel has)) : RandomOK g vg n has :=
  ⟨fun S hS hnd => h.traversals S hS hnd, h.tarjan⟩

end GraafVerif.Compose
