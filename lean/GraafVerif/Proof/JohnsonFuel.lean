import GraafVerif.Proof.JohnsonCircuit
import GraafVerif.Proof.JohnsonTarjan3
/-!
# Fuel adequacy of `circuit`, `connect` and `tarjanFuel`

The recursion depth of `circuit` is bounded by the number of component vertices not on the stack
(the stack is duplicate-free inside the component), that of `connect` by the number of unindexed
vertices.  Any two fuels above the bound give the same result, so the fuel values used by the
model (`order + 1`) are a termination argument, not an assumption.
-/
set_option linter.unusedVariables false
namespace GraafVerif.Johnson
open GraafVerif

theorem circuit_fuel_irrel (comp : AM) (s uf : Nat) (hrow : ∀ u, (comp.out u).Nodup)
    (hclosed : ∀ u ∈ comp.verts, ∀ w ∈ comp.out u, w ∈ comp.verts) :
    ∀ (f1 f2 : Nat) (st : JState) (v : Nat), Inv comp st → v ∉ st.blocked → v ∈ comp.verts →
      IsWalk comp.gr (st.stack ++ [v]) → comp.verts.length ≤ f1 + st.stack.length →
      comp.verts.length ≤ f2 + st.stack.length →
      circuit comp s uf f1 st v = circuit comp s uf f2 st v := by
  have absurd_fuel : ∀ (st : JState) (v : Nat), Inv comp st → v ∉ st.blocked → v ∈ comp.verts →
      comp.verts.length ≤ 0 + st.stack.length → False := by
    intro st w hinv hw hwc hfuel
    have hnd : (st.stack ++ [w]).Nodup := by
      rw [List.nodup_append]
      exact ⟨hinv.nd, by simp, fun a ha b hb => by
        simp at hb; subst hb; intro e; subst e; exact hw (hinv.i3 a ha)⟩
    have := List.Nodup.length_le_of_subset hnd (l₂ := comp.verts) (by
      intro x hx
      rcases List.mem_append.1 hx with hx | hx
      · exact hinv.sub x hx
      · simp at hx; subst hx; exact hwc)
    simp at this
    omega
  intro f1
  induction f1 with
  | zero => intro f2 st v hinv hv hvc _ h1 _; exact (absurd_fuel st v hinv hv hvc h1).elim
  | succ f1 ih =>
    intro f2 st v hinv hv hvc hwalk h1 h2
    cases f2 with
    | zero => exact (absurd_fuel st v hinv hv hvc h2).elim
    | succ f2 =>
      rw [circuit_succ, circuit_succ]
      congr 1
      have hinv1 := hinv.push hv hvc
      -- both loops agree step by step
      have key : ∀ (ws : List Nat) (acc : Bool × JState), ws.Nodup → (∀ w ∈ ws, w ∈ comp.out v) →
          Inv comp acc.2 → acc.2.stack = st.stack ++ [v] →
          ws.foldl (circuitStep (circuit comp s uf f1) s) acc =
            ws.foldl (circuitStep (circuit comp s uf f2) s) acc := by
        intro ws
        induction ws with
        | nil => intro acc _ _ _ _; rfl
        | cons w ws ihw =>
          intro acc hnd hout hi hst
          simp only [List.foldl_cons]
          have hnd' := List.nodup_cons.1 hnd
          have hwv : w ∈ comp.out v := hout w (by simp)
          have hvc' : v ∈ comp.verts := hvc
          have hstep : circuitStep (circuit comp s uf f1) s acc w =
              circuitStep (circuit comp s uf f2) s acc w := by
            unfold circuitStep
            by_cases hws : w = s
            · simp [hws]
            · by_cases hbl : acc.2.isBlocked w = true
              · simp [hws, hbl]
              · have hwnb : w ∉ acc.2.blocked := by simpa [JState.isBlocked] using hbl
                have hwalk' : IsWalk comp.gr (acc.2.stack ++ [w]) := by
                  rw [hst]
                  have := isWalk_snoc comp.gr st.stack v w hwalk hwv
                  simpa using this
                have := ih f2 acc.2 w hi hwnb (hclosed v hvc' w hwv) hwalk'
                  (by rw [hst]; simp; omega) (by rw [hst]; simp; omega)
                simp [hws, hbl, this]
          rw [← hstep]
          have h1' : FoldPost comp s st.stack v [w] acc (circuitStep (circuit comp s uf f1) s acc w) :=
            circuit_fold comp s f1 (circuit comp s uf f1) (circuit_post comp s uf hrow hclosed f1)
              hclosed st.stack v (by omega) [w] acc (by simp)
              (fun x hx => by simp at hx; subst hx; exact hwv) hi hst hwalk
          exact ihw _ hnd'.2 (fun x hx => hout x (by simp [hx])) h1'.inv h1'.stack
      exact key (comp.out v) _ (hrow v) (fun _ h => h) hinv1 rfl

theorem connect_fuel_irrel (a : AM) (hcl : ∀ u ∈ a.verts, ∀ v ∈ a.out u, v ∈ a.verts) :
    ∀ (f1 f2 : Nat) (st : TState) (u : Nat), GI a st → st.index.lookup u = none → u ∈ a.verts →
      unidx a st < f1 → unidx a st < f2 → connect a f1 st u = connect a f2 st u := by
  intro f1
  induction f1 with
  | zero => intro f2 st u _ _ _ h _; omega
  | succ f1 ih =>
    intro f2 st u hgi hstu hu h1 h2
    cases f2 with
    | zero => omega
    | succ f2 =>
      rw [connect_succ, connect_succ]
      congr 1
      have hlt := unidx_push_lt a st u hu hstu
      have key : ∀ (vs : List Nat) (cur : TState), (∀ y ∈ vs, y ∈ a.out u) → LI a st u cur →
          unidx a cur < f1 → unidx a cur < f2 →
          vs.foldl (connectStep (connect a f1) u) cur = vs.foldl (connectStep (connect a f2) u) cur := by
        intro vs
        induction vs with
        | nil => intro cur _ _ _ _; rfl
        | cons y vs ihv =>
          intro cur hvs hli g1 g2
          simp only [List.foldl_cons]
          have hy : y ∈ a.out u := hvs y (by simp)
          have hstep : connectStep (connect a f1) u cur y = connectStep (connect a f2) u cur y := by
            unfold connectStep
            cases hlk : cur.index.lookup y with
            | some w => rfl
            | none =>
              simp only []
              rw [ih f2 cur y hli.gi hlk (hcl u hu y hy) g1 g2]
          rw [← hstep]
          obtain ⟨l1, _, _, l4⟩ := connectStep_LI a hcl f1 (connect a f1) (connect_post a hcl f1) st u cur y
            hu hy hstu hli g1
          exact ihv _ (fun z hz => hvs z (by simp [hz])) l1 (by omega) (by omega)
      exact key (a.out u) (st.push u) (fun _ h => h) (LI.init a st u hgi hstu) (by omega) (by omega)

/-- `Tarjan::components` of the model does not depend on the fuel once it exceeds the order. -/
theorem tarjanFuel_irrel (a : AM) (hcl : ∀ u ∈ a.verts, ∀ v ∈ a.out u, v ∈ a.verts) (f : Nat)
    (hf : a.order < f) : tarjanFuel a f = tarjanFuel a (a.order + 1) := by
  unfold tarjanFuel
  have key : ∀ (vs : List Nat) (st : TState), (∀ v ∈ vs, v ∈ a.verts) → GI a st →
      vs.foldl (fun st u => if (st.index.lookup u).isSome then st else connect a f st u) st =
      vs.foldl (fun st u => if (st.index.lookup u).isSome then st else connect a (a.order + 1) st u) st := by
    intro vs
    induction vs with
    | nil => intro st _ _; rfl
    | cons v vs ihv =>
      intro st hvs hgi
      simp only [List.foldl_cons]
      have hle := unidx_le_order a st
      by_cases hix : (st.index.lookup v).isSome = true
      · simp only [hix, if_true]
        exact ihv st (fun x hx => hvs x (by simp [hx])) hgi
      · simp only [hix, Bool.false_eq_true, if_false]
        have hnone : st.index.lookup v = none := by
          cases hl : st.index.lookup v with
          | none => rfl
          | some k => rw [hl] at hix; simp at hix
        rw [connect_fuel_irrel a hcl f (a.order + 1) st v hgi hnone (hvs v (by simp)) (by omega) (by omega)]
        exact ihv _ (fun x hx => hvs x (by simp [hx]))
          (connect_post a hcl (a.order + 1) st v hgi hnone (hvs v (by simp)) (by omega)).gi
  exact key a.verts TState.init (fun _ h => h) (GI.init a)

end GraafVerif.Johnson
