import GraafVerif.Proof.Fw
/-!
# A second call of `distances()` on the same object returns the same matrix (C08)

The object keeps its matrix: the second call overwrites the arc cells with the arc weights and
the diagonal with `0` and runs the triple loop again, starting from a mixture of final distances
and arc weights.  That start matrix still consists of walk weights (`InvK g g.n`) and is still
`≤` every arc weight and `0` on the diagonal (`LeK g 0`), which is all the loop needs
(`restart_loop`), so the result is again the matrix of minima, hence equal to the first result.
-/
namespace GraafVerif.Fw
open GraafVerif

theorem LeK.step {g : WGraph} (hnc : g.NoNegCycle) {K Ks : Nat} {m : Mat} (hK : K < g.n) (hKs : K < Ks)
    (hI : InvK g Ks m) (hL : LeK g K m) :
    InvK g Ks (iterI g.n m K) ∧ LeK g (K+1) (iterI g.n m K) := by
  obtain ⟨s1, s2, s3⟩ := iterI_spec hK hKs hI
  refine ⟨s1, ?_⟩
  intro u v hu hv wt hw
  rcases hw.split hnc with h0 | ⟨w1, w2, h1, h2, hle⟩
  · exact leO.trans (s2 u v hu hv) (hL u v hu hv wt h0)
  · obtain ⟨a0, ha0, hlea⟩ := hL u K hu hK w1 h1 w1 rfl
    obtain ⟨b0, hb0, hleb⟩ := hL K v hK hv w2 h2 w2 rfl
    exact leO.trans (s3 u hu v hv a0 b0 ha0 hb0) (leO_some (by omega))

/-- The loop started from ANY matrix of walk weights that is `≤` the arc weights / `0` diagonal. -/
theorem restart_loop {g : WGraph} (hnc : g.NoNegCycle) {m : Mat} (hI : InvK g g.n m) (hL : LeK g 0 m) :
    ∀ K, K ≤ g.n → InvK g g.n (loopTo g.n m K) ∧ LeK g K (loopTo g.n m K) := by
  intro K
  induction K with
  | zero => intro _; simpa [Fw.loopTo] using And.intro hI hL
  | succ K ih =>
    intro hK
    rw [loopTo_succ]
    obtain ⟨h1, h2⟩ := ih (by omega)
    exact LeK.step hnc (by omega) (by omega) h1 h2

theorem restart_invK {g : WGraph} (hwf : g.WF) {m : Mat} (hI : InvK g g.n m) :
    InvK g g.n (zeroDiag g.n (setArcs g.n m (arcsWeighted g))) := by
  have hlen : (setArcs g.n m (arcsWeighted g)).length = g.n * g.n := by rw [length_setArcs]; exact hI.1
  refine ⟨by rw [zeroDiag, length_zeroDiagTo, hlen], ?_⟩
  intro u v hu hv x hx
  rw [get_zeroDiag hlen hu hv] at hx
  by_cases huv : u = v
  · subst huv
    simp at hx; subst hx; exact .nil _
  · rw [if_neg huv] at hx
    rcases setArcs_some (arcsWeighted_lt hwf) hv _ hx with h | h
    · exact hI.2 u v hu hv x h
    · exact .one (mem_arcsWeighted.mp h).2

theorem restart_leK {g : WGraph} (hwf : g.WF) (hfun : g.Functional) (hnc : g.NoNegCycle) {m : Mat}
    (hlen0 : m.length = g.n * g.n) : LeK g 0 (zeroDiag g.n (setArcs g.n m (arcsWeighted g))) := by
  intro u v hu hv wt hw
  have hlen : (setArcs g.n m (arcsWeighted g)).length = g.n * g.n := by rw [length_setArcs]; exact hlen0
  rw [get_zeroDiag hlen hu hv]
  cases hw with
  | nil => simp; exact leO.refl _
  | one a =>
    by_cases huv : u = v
    · subst huv
      rw [if_pos rfl]
      exact leO_some ((WalkIn.one (K := 0) a).closed_nonneg hnc)
    · rw [if_neg huv, setArcs_mem hu hv (arcsWeighted_lt hwf) ?_ _ hlen0 (.inr (mem_arcsWeighted.mpr ⟨hu, a⟩))]
      · exact leO.refl _
      · rintro ⟨u', v', w'⟩ hb h1 h2
        simp only at h1 h2; subst h1; subst h2
        exact hfun _ _ _ _ (mem_arcsWeighted.mp hb).2 a
  | snoc _ hx _ => omega

/-- Any call of `distances()` on an object whose matrix consists of walk weights yields the
matrix of minima. -/
theorem call_inv {g : WGraph} (hwf : g.WF) (hfun : g.Functional) (hnc : g.NoNegCycle) {m : Mat}
    (hI : InvK g g.n m) : Inv g g.n (call g m) :=
  restart_loop hnc (restart_invK hwf hI) (restart_leK hwf hfun hnc hI.1) g.n (Nat.le_refl _)

/-- Two matrices of minima agree cell by cell. -/
theorem Inv.get_eq {g : WGraph} {K : Nat} {m m' : Mat} (h : Inv g K m) (h' : Inv g K m')
    {u v : Nat} (hu : u < g.n) (hv : v < g.n) : get g.n m u v = get g.n m' u v := by
  cases hx : get g.n m u v with
  | some d => exact (((h'.isMinIn hu hv).1 d).mpr (((h.isMinIn hu hv).1 d).mp hx)).symm
  | none => exact ((h'.isMinIn hu hv).2.mpr ((h.isMinIn hu hv).2.mp hx)).symm

/-- Flat matrices of the right size are determined by their in-range cells. -/
theorem mat_ext {n : Nat} {m m' : Mat} (hl : m.length = n * n) (hl' : m'.length = n * n)
    (h : ∀ u v, u < n → v < n → get n m u v = get n m' u v) : m = m' := by
  apply List.ext_getElem (by rw [hl, hl'])
  intro i h1 h2
  have hn : 0 < n := by
    rcases Nat.eq_zero_or_pos n with h0 | h0
    · subst h0; simp at hl; subst hl; simp at h1
    · exact h0
  have hi : i < n * n := by rw [← hl]; exact h1
  have hu : i / n < n := Nat.div_lt_of_lt_mul hi
  have hv : i % n < n := Nat.mod_lt _ hn
  have hidx : i / n * n + i % n = i := by rw [Nat.mul_comm]; exact Nat.div_add_mod i n
  have := h (i / n) (i % n) hu hv
  simp only [get, hidx] at this
  rw [List.getElem?_eq_getElem h1, List.getElem?_eq_getElem h2] at this
  simpa using this

theorem distances_inv {g : WGraph} (hwf : g.WF) (hfun : g.Functional) (hnc : g.NoNegCycle) :
    Inv g g.n (distances g) :=
  Inv.loopTo hnc (init_inv hwf hfun hnc) g.n (Nat.le_refl _)

theorem distances2_eq {g : WGraph} (hwf : g.WF) (hfun : g.Functional) (hnc : g.NoNegCycle) :
    distances2 g = distances g := by
  have h1 := distances_inv hwf hfun hnc
  have h2 : Inv g g.n (distances2 g) := call_inv hwf hfun hnc h1.1
  exact mat_ext h2.1.1 h1.1.1 (fun u v hu hv => h2.get_eq h1 hu hv)

end GraafVerif.Fw
