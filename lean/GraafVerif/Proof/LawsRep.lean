import GraafVerif.Proof.LawsSpec
import GraafVerif.Thm.C11
import GraafVerif.Thm.C12
import GraafVerif.Thm.C14
/-!
# Laws — one bundle per representation, and the generic lifts

`Rep R` packages, for one representation `R`, exactly the black boxes the laws rest on:

* C02: the query record `core d` is correct for the abstract digraph `dig d` (`CoreCorrect`), `dig d` valid;
* C20/C11 canonicity: two well-formed values with the same abstract digraph are EQUAL;
* C11: `compl / conv / un` return a well-formed value whose abstract digraph is the set definition;
* C12: `UnaryStatement` (each predicate decides its definition);
* C14: `FamilySpec` (each generator realises its defining arc set), plus the reading of `Realises`
  on the abstract digraph (`real_ok`).

Every law below is proved ONCE, over an arbitrary `Rep`, from these fields and the set-level facts of
`Proof/LawsSpec.lean`; `Proof/LawsInst.lean` builds the four bundles from the theorems of C02, C11,
C12, C14.
-/
namespace GraafVerif.Laws
open GraafVerif.Ops GraafVerif.Query GraafVerif.Pred GraafVerif.GenSpec GraafVerif.Gen

structure Rep (R : Type) where
  /-- the representation invariant under which the black boxes hold (for the matrix: incl. `order² < 2^64`) -/
  WF : R → Prop
  core : R → Core
  dig : R → Digraph
  core_ok : ∀ d, WF d → CoreCorrect (core d) (dig d)
  dig_valid : ∀ d, WF d → (dig d).Valid
  nonempty : ∀ d, WF d → (dig d).verts ≠ []
  canon : ∀ a b, WF a → WF b → toDG (dig a) = toDG (dig b) → a = b
  compl : R → Option R
  conv : R → Option R
  un : R → R → Option R
  compl_ok : ∀ d, WF d → C11.Ok WF (fun d => toDG (dig d)) (compl d) (specComplement (toDG (dig d)))
  conv_ok : ∀ d, WF d → C11.Ok WF (fun d => toDG (dig d)) (conv d) (specConverse (toDG (dig d)))
  un_ok : ∀ a b, WF a → WF b →
    C11.Ok WF (fun d => toDG (dig d)) (un a b) (specUnion (toDG (dig a)) (toDG (dig b)))
  isComplete : R → Option Bool
  isSemicomplete : R → Option Bool
  isTournament : R → Option Bool
  isSimple : R → Option Bool
  unary : ∀ d, WF d →
    C12.UnaryStatement (core d) (dig d) (isComplete d) (isSemicomplete d) (isTournament d) (isSimple d)
  fits : Nat → Prop
  fam : Family R
  Real : R → Nat → (Nat → Nat → Prop) → Prop
  famSpec : FamilySpec Real fits fam
  real_ok : ∀ d n P, 1 ≤ n → fits n → Real d n P →
    WF d ∧ (dig d).verts = List.range n ∧ ∀ u v, (dig d).adj u v = true ↔ P u v
  fits_of : ∀ d n, WF d → (∀ v, v ∈ (dig d).verts ↔ v < n) → fits n

namespace Rep
variable {R : Type} (M : Rep R)

/-- the abstract digraph `(V, A)` of a value -/
def abs (d : R) : DG := toDG (M.dig d)
def order (d : R) : Nat := (M.core d).order
def vertices (d : R) : List Nat := (M.core d).vertices
def arcs (d : R) : List (Nat × Nat) := (M.core d).arcs
def size (d : R) : Nat := (M.core d).size
def isRegular (d : R) : Option Bool := Blanket.isRegular (M.core d)
def isBalanced (d : R) : Option Bool := Blanket.isBalanced (M.core d)
def isSymmetric (d : R) : Bool := Blanket.isSymmetric (M.core d)
def isOriented (d : R) : Bool := Blanket.isOriented (M.core d)
def isSubdigraph (h d : R) : Bool := Blanket.isSubdigraph (M.core h) (M.core d)
def isSuperdigraph (h d : R) : Bool := Blanket.isSuperdigraph (M.core h) (M.core d)
def isSpanningSubdigraph (h d : R) : Bool := Blanket.isSpanningSubdigraph (M.core h) (M.core d)

variable {M}

/-! ## plumbing -/

theorem abs_valid {d : R} (h : M.WF d) : (M.abs d).Valid := toDG_valid (M.dig_valid d h)

theorem eq_of_abs {a b : R} (ha : M.WF a) (hb : M.WF b) (h : M.abs a = M.abs b) : a = b := M.canon a b ha hb h

theorem vertices_eq {d : R} (h : M.WF d) : M.vertices d = (M.dig d).verts := (M.core_ok d h).vertices

theorem mem_vertices {d : R} (h : M.WF d) {v : Nat} : v ∈ M.vertices d ↔ (M.abs d).V v := by
  rw [vertices_eq h]; exact Iff.rfl

theorem mem_arcs {d : R} (h : M.WF d) {u v : Nat} : (u, v) ∈ M.arcs d ↔ (M.abs d).A u v :=
  (M.core_ok d h).arcs_mem u v

theorem arcs_nil_iff {d : R} (h : M.WF d) : M.arcs d = [] ↔ Arcless (M.abs d) := by
  constructor
  · intro e u v x
    have := (mem_arcs h).mpr x
    rw [e] at this; cases this
  · intro ha
    cases hc : M.arcs d with
    | nil => rfl
    | cons p ps =>
      exfalso
      have : (p.1, p.2) ∈ M.arcs d := by rw [hc]; simp
      exact ha p.1 p.2 ((mem_arcs h).mp this)

theorem optb_iff {x : Option Bool} {P : Prop} (h : ∃ b, x = some b ∧ (b = true ↔ P)) : x = some true ↔ P := by
  obtain ⟨b, e, hb⟩ := h
  subst e
  constructor
  · intro e; cases e; exact hb.mp rfl
  · intro p; rw [hb.mpr p]

theorem optb_eq {x y : Option Bool} {P Q : Prop} (hx : ∃ b, x = some b ∧ (b = true ↔ P))
    (hy : ∃ b, y = some b ∧ (b = true ↔ Q)) (h : P ↔ Q) : x = y := by
  obtain ⟨b, e, hb⟩ := hx
  obtain ⟨c, e', hc⟩ := hy
  subst e; subst e'
  congr 1
  cases b <;> cases c <;> simp_all

theorem bool_eq {x y : Bool} {P Q : Prop} (hx : x = true ↔ P) (hy : y = true ↔ Q) (h : P ↔ Q) : x = y := by
  cases x <;> cases y <;> simp_all

theorem complete_iff {d : R} (h : M.WF d) : M.isComplete d = some true ↔ DGP.Complete (M.abs d) :=
  (optb_iff (M.unary d h).complete).trans (def_iff_complete _)
theorem semicomplete_iff {d : R} (h : M.WF d) : M.isSemicomplete d = some true ↔ DGP.Semicomplete (M.abs d) :=
  (optb_iff (M.unary d h).semicomplete).trans (def_iff_semicomplete _)
theorem tournament_iff' {d : R} (h : M.WF d) : M.isTournament d = some true ↔ DGP.Tournament (M.abs d) :=
  (optb_iff (M.unary d h).tournament).trans (def_iff_tournament _)
theorem symmetric_iff {d : R} (h : M.WF d) : M.isSymmetric d = true ↔ DGP.Symmetric (M.abs d) :=
  (M.unary d h).symmetric.trans (def_iff_symmetric _)
theorem oriented_iff {d : R} (h : M.WF d) : M.isOriented d = true ↔ DGP.Oriented (M.abs d) :=
  (M.unary d h).oriented.trans (def_iff_oriented _)
theorem regular_iff {d : R} (h : M.WF d) : M.isRegular d = some true ↔ Def.IsRegular (M.dig d) :=
  optb_iff (M.unary d h).regular

theorem exB_complete {d : R} (h : M.WF d) : ∃ b, M.isComplete d = some b ∧ (b = true ↔ DGP.Complete (M.abs d)) := by
  obtain ⟨b, e, hb⟩ := (M.unary d h).complete
  exact ⟨b, e, hb.trans (def_iff_complete _)⟩
theorem exB_semicomplete {d : R} (h : M.WF d) :
    ∃ b, M.isSemicomplete d = some b ∧ (b = true ↔ DGP.Semicomplete (M.abs d)) := by
  obtain ⟨b, e, hb⟩ := (M.unary d h).semicomplete
  exact ⟨b, e, hb.trans (def_iff_semicomplete _)⟩
theorem exB_tournament {d : R} (h : M.WF d) :
    ∃ b, M.isTournament d = some b ∧ (b = true ↔ DGP.Tournament (M.abs d)) := by
  obtain ⟨b, e, hb⟩ := (M.unary d h).tournament
  exact ⟨b, e, hb.trans (def_iff_tournament _)⟩

theorem sub_iff {h d : R} (hh : M.WF h) (hd : M.WF d) : M.isSubdigraph h d = true ↔ DGP.Sub (M.abs h) (M.abs d) :=
  (isSubdigraph_correct (M.core_ok h hh) (M.core_ok d hd) (M.dig_valid h hh)).trans (def_iff_sub _ _)
theorem super_iff {h d : R} (hh : M.WF h) (hd : M.WF d) : M.isSuperdigraph h d = true ↔ DGP.Sub (M.abs d) (M.abs h) :=
  sub_iff hd hh
theorem spanning_iff {h d : R} (hh : M.WF h) (hd : M.WF d) :
    M.isSpanningSubdigraph h d = true ↔ (∀ v, (M.abs h).V v ↔ (M.abs d).V v) ∧ ∀ u v, (M.abs h).A u v → (M.abs d).A u v := by
  refine (isSpanningSubdigraph_correct (M.core_ok h hh) (M.core_ok d hd)).trans ?_
  unfold Def.IsSpanningSubdigraph
  constructor
  · rintro ⟨e, ha⟩
    exact ⟨fun v => by show v ∈ (M.dig h).verts ↔ v ∈ (M.dig d).verts; rw [e], ha⟩
  · rintro ⟨e, ha⟩
    exact ⟨SortedS.ext (M.dig_valid h hh).sorted (M.dig_valid d hd).sorted e, ha⟩

/-- the three operations, with the result named -/
theorem compl_spec {d : R} (h : M.WF d) : ∃ r, M.compl d = some r ∧ M.WF r ∧ M.abs r = specComplement (M.abs d) :=
  M.compl_ok d h
theorem conv_spec {d : R} (h : M.WF d) : ∃ r, M.conv d = some r ∧ M.WF r ∧ M.abs r = specConverse (M.abs d) :=
  M.conv_ok d h
theorem un_spec {a b : R} (ha : M.WF a) (hb : M.WF b) :
    ∃ r, M.un a b = some r ∧ M.WF r ∧ M.abs r = specUnion (M.abs a) (M.abs b) := M.un_ok a b ha hb

/-- a generator result, read on the abstract digraph -/
def GenOk (M : Rep R) (f : Option R) (n : Nat) (P : Nat → Nat → Prop) : Prop :=
  ∃ d, f = some d ∧ M.WF d ∧ M.abs d = genDG n P ∧ (M.dig d).verts = List.range n

theorem gen_spec {f : Option R} {n : Nat} {P : Nat → Nat → Prop} (hn : 1 ≤ n) (hf : M.fits n)
    (h : ∃ d, f = some d ∧ M.Real d n P) : GenOk M f n P := by
  obtain ⟨d, e, hr⟩ := h
  obtain ⟨hw, hv, ha⟩ := M.real_ok d n P hn hf hr
  refine ⟨d, e, hw, ?_, hv⟩
  apply genDG_congr_V
  · intro v; show v ∈ (M.dig d).verts ↔ v < n; rw [hv]; simp
  · exact ha

theorem g_empty {n : Nat} (hn : 1 ≤ n) (hf : M.fits n) : GenOk M (M.fam.empty n) n (EmptyDef n) :=
  gen_spec hn hf (M.famSpec.1 n hn hf)
theorem g_complete {n : Nat} (hn : 1 ≤ n) (hf : M.fits n) : GenOk M (M.fam.complete n) n (CompleteDef n) :=
  gen_spec hn hf (M.famSpec.2.1 n hn hf)
theorem g_circuit {n : Nat} (hn : 1 ≤ n) (hf : M.fits n) : GenOk M (M.fam.circuit n) n (CircuitDef n) :=
  gen_spec hn hf (M.famSpec.2.2.1 n hn hf)
theorem g_cycle {n : Nat} (hn : 1 ≤ n) (hf : M.fits n) : GenOk M (M.fam.cycle n) n (CycleDef n) :=
  gen_spec hn hf (M.famSpec.2.2.2.1 n hn hf)
theorem g_path {n : Nat} (hn : 1 ≤ n) (hf : M.fits n) : GenOk M (M.fam.path n) n (PathDef n) :=
  gen_spec hn hf (M.famSpec.2.2.2.2.1 n hn hf)
theorem g_star {n : Nat} (hn : 1 ≤ n) (hf : M.fits n) : GenOk M (M.fam.star n) n (StarDef n) :=
  gen_spec hn hf (M.famSpec.2.2.2.2.2.1 n hn hf)
theorem g_wheel {n : Nat} (hn : 4 ≤ n) (hf : M.fits n) : GenOk M (M.fam.wheel n) n (WheelDef n) :=
  gen_spec (show 1 ≤ n by omega) hf (M.famSpec.2.2.2.2.2.2.1 n hn hf)
theorem g_biclique {m n : Nat} (hm : 1 ≤ m) (hn : 1 ≤ n) (hf : M.fits (m + n)) :
    GenOk M (M.fam.biclique m n) (m + n) (BicliqueDef m n) :=
  gen_spec (show 1 ≤ m + n by omega) hf (M.famSpec.2.2.2.2.2.2.2.1 m n hm hn hf)

/-- vertex set `0..n` ⇒ `n ≥ 1` and `n` is admissible -/
theorem contig_facts {g : R} {n : Nat} (h : M.WF g) (hV : ∀ v, v ∈ M.vertices g ↔ v < n) :
    1 ≤ n ∧ M.fits n ∧ ∀ v, (M.abs g).V v ↔ v < n := by
  have hV' : ∀ v, v ∈ (M.dig g).verts ↔ v < n := fun v => by rw [← vertices_eq h]; exact hV v
  refine ⟨?_, M.fits_of g n h hV', hV'⟩
  have := M.nonempty g h
  cases hc : (M.dig g).verts with
  | nil => exact (this hc).elim
  | cons x xs =>
    have : x < n := (hV' x).mp (by rw [hc]; simp)
    omega

/-! ## 1. involutions, 2. union algebra (the C11 identities, re-derived through the bundle) -/

theorem complement_involutive {d : R} (h : M.WF d) : ∃ r, M.compl d = some r ∧ M.compl r = some d := by
  obtain ⟨r, e, hr, ar⟩ := compl_spec h
  obtain ⟨r', e', hr', ar'⟩ := compl_spec hr
  refine ⟨r, e, ?_⟩
  rw [e', eq_of_abs hr' h (by rw [ar', ar, specComplement_involutive (abs_valid h)])]

theorem converse_involutive {d : R} (h : M.WF d) : ∃ r, M.conv d = some r ∧ M.conv r = some d := by
  obtain ⟨r, e, hr, ar⟩ := conv_spec h
  obtain ⟨r', e', hr', ar'⟩ := conv_spec hr
  refine ⟨r, e, ?_⟩
  rw [e', eq_of_abs hr' h (by rw [ar', ar, specConverse_involutive])]

theorem union_comm {a b : R} (ha : M.WF a) (hb : M.WF b) : ∃ r, M.un a b = some r ∧ M.un b a = some r := by
  obtain ⟨r, e, hr, ar⟩ := un_spec ha hb
  obtain ⟨r', e', hr', ar'⟩ := un_spec hb ha
  exact ⟨r, e, by rw [e', eq_of_abs hr' hr (by rw [ar', ar, specUnion_comm])]⟩

theorem union_idem {a : R} (ha : M.WF a) : M.un a a = some a := by
  obtain ⟨r, e, hr, ar⟩ := un_spec ha ha
  rw [e, eq_of_abs hr ha (by rw [ar, specUnion_idem])]

theorem union_assoc {a b c : R} (ha : M.WF a) (hb : M.WF b) (hc : M.WF c) :
    ∃ ab bc r, M.un a b = some ab ∧ M.un b c = some bc ∧ M.un ab c = some r ∧ M.un a bc = some r := by
  obtain ⟨ab, e1, h1, a1⟩ := un_spec ha hb
  obtain ⟨bc, e2, h2, a2⟩ := un_spec hb hc
  obtain ⟨l, e3, h3, a3⟩ := un_spec h1 hc
  obtain ⟨r, e4, h4, a4⟩ := un_spec ha h2
  exact ⟨ab, bc, l, e1, e2, e3, by rw [e4, eq_of_abs h4 h3 (by rw [a4, a3, a1, a2, specUnion_assoc])]⟩

/-- an arcless digraph whose vertices all belong to `g` is neutral for `union`, on both sides -/
theorem union_arcless {g e : R} (hg : M.WF g) (he : M.WF e) (hA : M.arcs e = [])
    (hV : ∀ v, v ∈ M.vertices e → v ∈ M.vertices g) : M.un g e = some g ∧ M.un e g = some g := by
  have hA' := (arcs_nil_iff he).mp hA
  have hV' : ∀ v, (M.abs e).V v → (M.abs g).V v := fun v x => (mem_vertices hg).mp (hV v ((mem_vertices he).mpr x))
  obtain ⟨r, e1, h1, a1⟩ := un_spec hg he
  obtain ⟨r', e2, h2, a2⟩ := un_spec he hg
  exact ⟨by rw [e1, eq_of_abs h1 hg (by rw [a1, specUnion_arcless_right hV' hA'])],
    by rw [e2, eq_of_abs h2 hg (by rw [a2, specUnion_arcless_left hV' hA'])]⟩

/-- `union g (empty m) = g = union (empty m) g` whenever `0..m` are vertices of `g` -/
theorem union_empty {g : R} (hg : M.WF g) {m : Nat} (hm : 1 ≤ m) (hf : M.fits m)
    (hV : ∀ v, v < m → v ∈ M.vertices g) :
    ∃ e, M.fam.empty m = some e ∧ M.un g e = some g ∧ M.un e g = some g := by
  obtain ⟨e, ee, he, ae, _⟩ := g_empty (M := M) hm hf
  have hV' : ∀ v, (M.abs e).V v → (M.abs g).V v := by
    intro v x; rw [ae] at x; exact (mem_vertices hg).mp (hV v x)
  have hA' : Arcless (M.abs e) := by intro u v x; rw [ae] at x; exact x
  obtain ⟨r, e1, h1, a1⟩ := un_spec hg he
  obtain ⟨r', e2, h2, a2⟩ := un_spec he hg
  exact ⟨e, ee, by rw [e1, eq_of_abs h1 hg (by rw [a1, specUnion_arcless_right hV' hA'])],
    by rw [e2, eq_of_abs h2 hg (by rw [a2, specUnion_arcless_left hV' hA'])]⟩

/-- `converse` distributes over `union` -/
theorem converse_union {g h : R} (hg : M.WF g) (hh : M.WF h) :
    ∃ gh cg ch r, M.un g h = some gh ∧ M.conv g = some cg ∧ M.conv h = some ch ∧
      M.conv gh = some r ∧ M.un cg ch = some r := by
  obtain ⟨gh, e1, h1, a1⟩ := un_spec hg hh
  obtain ⟨cg, e2, h2, a2⟩ := conv_spec hg
  obtain ⟨ch, e3, h3, a3⟩ := conv_spec hh
  obtain ⟨r, e4, h4, a4⟩ := conv_spec h1
  obtain ⟨r', e5, h5, a5⟩ := un_spec h2 h3
  exact ⟨gh, cg, ch, r, e1, e2, e3, e4,
    by rw [e5, eq_of_abs h5 h4 (by rw [a5, a4, a1, a2, a3, specConverse_union])]⟩

/-- `converse` commutes with `complement` -/
theorem converse_complement {g : R} (hg : M.WF g) :
    ∃ c cv r, M.compl g = some c ∧ M.conv g = some cv ∧ M.conv c = some r ∧ M.compl cv = some r := by
  obtain ⟨c, e1, h1, a1⟩ := compl_spec hg
  obtain ⟨cv, e2, h2, a2⟩ := conv_spec hg
  obtain ⟨r, e3, h3, a3⟩ := conv_spec h1
  obtain ⟨r', e4, h4, a4⟩ := compl_spec h2
  exact ⟨c, cv, r, e1, e2, e3, by rw [e4, eq_of_abs h4 h3 (by rw [a4, a3, a1, a2, specConverse_complement])]⟩

/-- `union g (complement g) = complete n` (vertex set `0..n`) -/
theorem union_complement_complete {g : R} (hg : M.WF g) {n : Nat} (hV : ∀ v, v ∈ M.vertices g ↔ v < n) :
    ∃ c k, M.compl g = some c ∧ M.fam.complete n = some k ∧ M.un g c = some k ∧ M.un c g = some k := by
  obtain ⟨hn, hf, hV'⟩ := contig_facts hg hV
  obtain ⟨c, e1, h1, a1⟩ := compl_spec hg
  obtain ⟨k, e2, h2, a2, _⟩ := g_complete (M := M) hn hf
  obtain ⟨r, e3, h3, a3⟩ := un_spec hg h1
  obtain ⟨r', e4, h4, a4⟩ := un_spec h1 hg
  have key : specUnion (M.abs g) (specComplement (M.abs g)) = M.abs k := by
    rw [specUnion_complement (abs_valid hg), a2, ← completeOn_lt, completeOn_congr hV']
  exact ⟨c, k, e1, e2, by rw [e3, eq_of_abs h3 h2 (by rw [a3, a1, key])],
    by rw [e4, eq_of_abs h4 h2 (by rw [a4, a1, specUnion_comm, key])]⟩

/-- `complement (complete n) = empty n` and `complement (empty n) = complete n` -/
theorem complement_complete_empty {n : Nat} (hn : 1 ≤ n) (hf : M.fits n) :
    ∃ k e, M.fam.complete n = some k ∧ M.fam.empty n = some e ∧ M.compl k = some e ∧ M.compl e = some k := by
  obtain ⟨k, e1, h1, a1, _⟩ := g_complete (M := M) hn hf
  obtain ⟨e, e2, h2, a2, _⟩ := g_empty (M := M) hn hf
  obtain ⟨r, e3, h3, a3⟩ := compl_spec h1
  obtain ⟨r', e4, h4, a4⟩ := compl_spec h2
  refine ⟨k, e, e1, e2, ?_, ?_⟩
  · rw [e3, eq_of_abs h3 h2 (by rw [a3, a1, a2, ← completeOn_lt, specComplement_completeOn, emptyOn_lt])]
  · rw [e4, eq_of_abs h4 h1 (by rw [a4, a1, a2, ← emptyOn_lt, specComplement_emptyOn, completeOn_lt])]

/-! ## 3. predicates against operations -/

theorem symmetric_iff_converse {g : R} (hg : M.WF g) : M.isSymmetric g = true ↔ M.conv g = some g := by
  obtain ⟨r, e, hr, ar⟩ := conv_spec hg
  rw [symmetric_iff hg, Laws.symmetric_iff_converse, e]
  constructor
  · intro h; rw [eq_of_abs hr hg (by rw [ar, h])]
  · intro h; cases h; exact ar.symm

theorem complete_iff_complement_arcless {g : R} (hg : M.WF g) :
    M.isComplete g = some true ↔ ∃ c, M.compl g = some c ∧ M.arcs c = [] := by
  obtain ⟨c, e, hc, ac⟩ := compl_spec hg
  rw [complete_iff hg, Laws.complete_iff_complement_arcless, ← ac, ← arcs_nil_iff hc]
  constructor
  · intro h; exact ⟨c, e, h⟩
  · rintro ⟨c', e', h⟩; rw [e] at e'; cases e'; exact h

theorem complete_iff_complement_empty {g : R} (hg : M.WF g) {n : Nat} (hV : ∀ v, v ∈ M.vertices g ↔ v < n) :
    M.isComplete g = some true ↔ ∃ e, M.fam.empty n = some e ∧ M.compl g = some e := by
  obtain ⟨hn, hf, hV'⟩ := contig_facts hg hV
  obtain ⟨c, e1, h1, a1⟩ := compl_spec hg
  obtain ⟨e, e2, h2, a2, _⟩ := g_empty (M := M) hn hf
  rw [complete_iff hg, Laws.complete_iff_complement_empty, emptyOn_congr hV', emptyOn_lt, ← a1, ← a2]
  constructor
  · intro h; exact ⟨e, e2, by rw [e1, eq_of_abs h1 h2 h]⟩
  · rintro ⟨e', e3, e4⟩
    rw [e2] at e3; cases e3; rw [e1] at e4; cases e4; rfl

theorem complete_iff_eq_complete {g : R} (hg : M.WF g) {n : Nat} (hV : ∀ v, v ∈ M.vertices g ↔ v < n) :
    M.isComplete g = some true ↔ M.fam.complete n = some g := by
  obtain ⟨hn, hf, hV'⟩ := contig_facts hg hV
  obtain ⟨k, e2, h2, a2, _⟩ := g_complete (M := M) hn hf
  rw [complete_iff hg, Laws.complete_iff_eq_completeOn (abs_valid hg), completeOn_congr hV', completeOn_lt, ← a2, e2]
  constructor
  · intro h; rw [eq_of_abs hg h2 h]
  · intro h; cases h; rfl

theorem tournament_iff_semicomplete_oriented {g : R} (hg : M.WF g) :
    M.isTournament g = some true ↔ M.isSemicomplete g = some true ∧ M.isOriented g = true := by
  rw [tournament_iff' hg, semicomplete_iff hg, oriented_iff hg]
  exact Laws.tournament_iff (abs_valid hg)

theorem tournament_iff_complement_eq_converse {g : R} (hg : M.WF g) :
    M.isTournament g = some true ↔ M.compl g = M.conv g := by
  obtain ⟨c, e1, h1, a1⟩ := compl_spec hg
  obtain ⟨v, e2, h2, a2⟩ := conv_spec hg
  rw [tournament_iff' hg, Laws.tournament_iff_complement_eq_converse (abs_valid hg), ← a1, ← a2, e1, e2]
  constructor
  · intro h; rw [eq_of_abs h1 h2 h]
  · intro h; cases h; rfl

/-- `converse` preserves completeness, semicompleteness, being a tournament, symmetry, orientedness -/
theorem converse_preserves {g : R} (hg : M.WF g) :
    ∃ r, M.conv g = some r ∧ M.isComplete r = M.isComplete g ∧ M.isSemicomplete r = M.isSemicomplete g ∧
      M.isTournament r = M.isTournament g ∧ M.isSymmetric r = M.isSymmetric g ∧ M.isOriented r = M.isOriented g := by
  obtain ⟨r, e, hr, ar⟩ := conv_spec hg
  have := Laws.converse_preserves (M.abs g)
  rw [← ar] at this
  exact ⟨r, e, optb_eq (exB_complete hr) (exB_complete hg) this.1,
    optb_eq (exB_semicomplete hr) (exB_semicomplete hg) this.2.1,
    optb_eq (exB_tournament hr) (exB_tournament hg) this.2.2.1,
    bool_eq (symmetric_iff hr) (symmetric_iff hg) this.2.2.2.1,
    bool_eq (oriented_iff hr) (oriented_iff hg) this.2.2.2.2⟩

/-- the duals under `complement` -/
theorem complement_duals {g : R} (hg : M.WF g) :
    ∃ c, M.compl g = some c ∧
      (M.isSemicomplete g = some true ↔ M.isOriented c = true) ∧
      (M.isOriented g = true ↔ M.isSemicomplete c = some true) ∧
      M.isTournament c = M.isTournament g ∧ M.isSymmetric c = M.isSymmetric g := by
  obtain ⟨c, e, hc, ac⟩ := compl_spec hg
  refine ⟨c, e, ?_, ?_, ?_, ?_⟩
  · rw [semicomplete_iff hg, oriented_iff hc, ac]; exact semicomplete_iff_complement_oriented
  · rw [oriented_iff hg, semicomplete_iff hc, ac]; exact oriented_iff_complement_semicomplete (abs_valid hg)
  · exact optb_eq (exB_tournament hc) (exB_tournament hg) (by rw [ac]; exact tournament_iff_complement_tournament.symm)
  · exact bool_eq (symmetric_iff hc) (symmetric_iff hg)
      (by rw [ac]; exact (symmetric_iff_complement_symmetric (abs_valid hg)).symm)

theorem sub_union {g h : R} (hg : M.WF g) (hh : M.WF h) :
    ∃ r, M.un g h = some r ∧ M.isSubdigraph g r = true ∧ M.isSubdigraph h r = true ∧
      M.isSuperdigraph r g = true ∧ M.isSuperdigraph r h = true := by
  obtain ⟨r, e, hr, ar⟩ := un_spec hg hh
  have h1 : M.isSubdigraph g r = true := (sub_iff hg hr).mpr (by rw [ar]; exact sub_union_left _ _)
  have h2 : M.isSubdigraph h r = true := (sub_iff hh hr).mpr (by rw [ar]; exact sub_union_right _ _)
  exact ⟨r, e, h1, h2, h1, h2⟩

theorem sub_refl' {g : R} (hg : M.WF g) : M.isSubdigraph g g = true := (sub_iff hg hg).mpr (sub_refl _)

theorem sub_trans' {a b c : R} (ha : M.WF a) (hb : M.WF b) (hc : M.WF c) (h1 : M.isSubdigraph a b = true)
    (h2 : M.isSubdigraph b c = true) : M.isSubdigraph a c = true :=
  (sub_iff ha hc).mpr (sub_trans ((sub_iff ha hb).mp h1) ((sub_iff hb hc).mp h2))

theorem sub_antisymm {g h : R} (hg : M.WF g) (hh : M.WF h) :
    (M.isSubdigraph g h = true ∧ M.isSubdigraph h g = true) ↔ g = h := by
  rw [sub_iff hg hh, sub_iff hh hg, sub_antisymm_iff]
  exact ⟨eq_of_abs hg hh, fun e => by rw [e]⟩

/-- absorption: `g ⊆ h ↔ union g h = h` -/
theorem sub_iff_union {g h : R} (hg : M.WF g) (hh : M.WF h) : M.isSubdigraph g h = true ↔ M.un g h = some h := by
  obtain ⟨r, e, hr, ar⟩ := un_spec hg hh
  rw [sub_iff hg hh, sub_iff_union_eq, ← ar, e]
  constructor
  · intro h'; rw [eq_of_abs hr hh h']
  · intro h'; cases h'; rfl

/-- every digraph on `0..n` spans between `empty n` and `complete n`; it and its complement span their union -/
theorem spanning_bounds {g : R} (hg : M.WF g) {n : Nat} (hV : ∀ v, v ∈ M.vertices g ↔ v < n) :
    ∃ e k, M.fam.empty n = some e ∧ M.fam.complete n = some k ∧
      M.isSpanningSubdigraph e g = true ∧ M.isSpanningSubdigraph g k = true := by
  obtain ⟨hn, hf, hV'⟩ := contig_facts hg hV
  obtain ⟨e, e1, h1, a1, _⟩ := g_empty (M := M) hn hf
  obtain ⟨k, e2, h2, a2, _⟩ := g_complete (M := M) hn hf
  refine ⟨e, k, e1, e2, (spanning_iff h1 hg).mpr ?_, (spanning_iff hg h2).mpr ?_⟩
  · rw [a1]; exact ⟨fun v => (hV' v).symm, fun _ _ x => x.elim⟩
  · rw [a2]
    refine ⟨hV', fun u v x => ?_⟩
    have := abs_valid hg u v x
    exact ⟨(hV' u).mp this.1, (hV' v).mp this.2.1, this.2.2⟩

/-- `g` and `complement g` are spanning subdigraphs of their union, and share no arc -/
theorem spanning_complement {g : R} (hg : M.WF g) :
    ∃ c r, M.compl g = some c ∧ M.un g c = some r ∧ M.isSpanningSubdigraph g r = true ∧
      M.isSpanningSubdigraph c r = true ∧ ∀ a, a ∈ M.arcs g → a ∉ M.arcs c := by
  obtain ⟨c, e1, h1, a1⟩ := compl_spec hg
  obtain ⟨r, e2, h2, a2⟩ := un_spec hg h1
  refine ⟨c, r, e1, e2, (spanning_iff hg h2).mpr ?_, (spanning_iff h1 h2).mpr ?_, ?_⟩
  · rw [a2, a1]; exact ⟨fun v => ⟨Or.inl, fun x => x.elim id id⟩, fun _ _ => Or.inl⟩
  · rw [a2, a1]; exact ⟨fun v => ⟨Or.inl, fun x => x.elim id id⟩, fun _ _ => Or.inr⟩
  · rintro ⟨u, v⟩ x y
    have := (mem_arcs h1).mp y
    rw [a1] at this
    exact this.2.2.2 ((mem_arcs hg).mp x)

end Rep
end GraafVerif.Laws
