import GraafVerif.Model.PredFast
import GraafVerif.Proof.QueryAL
import GraafVerif.Proof.QueryFast
/-!
# The `Array` / bitset twins of the `AdjacencyList` predicate models equal the list models
(driver ↔ proved model; every digraph, thread count and description; no hypotheses)
-/
namespace GraafVerif.Pred.AL
open GraafVerif.Repr GraafVerif.Query

theorem bitRow_fold (row : List Nat) (b : Array Bool) (v : Nat) :
    (row.foldl (fun b x => b.setIfInBounds x true) b)[v]?.getD false
      = (b[v]?.getD false || (decide (v < b.size) && row.contains v)) := by
  induction row generalizing b with
  | nil => simp
  | cons x row ih =>
    rw [List.foldl_cons, ih, Array.getElem?_setIfInBounds, Array.size_setIfInBounds, List.contains_cons]
    by_cases hxv : x = v
    · subst hxv
      by_cases hlt : x < b.size
      · simp [hlt]
      · have : b[x]? = none := by simp; omega
        simp [hlt, this]
    · have : (v == x) = false := by simp; exact fun e => hxv e.symm
      simp [hxv, this]

theorem bitRow_get (n : Nat) (row : List Nat) (v : Nat) :
    (bitRow n row)[v]?.getD false = (decide (v < n) && row.contains v) := by
  unfold bitRow
  rw [bitRow_fold]
  by_cases hv : v < n <;> simp [hv]

theorem memA_eq (d : AdjList) (u v : Nat) : memA (bits d) d.order d u v = (row d u).contains v := by
  unfold memA
  by_cases hv : v < d.order
  · rw [if_pos hv]
    have hB : (bits d)[u]? = (d.rows[u]?).map (bitRow d.order) := by
      unfold bits
      rw [List.getElem?_toArray, List.getElem?_map]
    rw [hB]
    unfold row
    cases hr : d.rows[u]? with
    | none => simp
    | some r =>
      simp only [Option.map_some, Option.getD_some]
      rw [bitRow_get]
      simp [hv]
  · rw [if_neg hv]

theorem pairOkF_eq (d : AdjList) : pairOkF (bits d) d.order d = pairOk d := by
  funext u v
  simp [pairOkF, pairOk, memA_eq]

/-- The driver's threaded `is_semicomplete` twin is the list model, for every digraph and thread count. -/
theorem isSemicompleteFast_eq (d : AdjList) (t : Nat) : isSemicompleteFast d t = isSemicomplete d t := by
  unfold isSemicompleteFast isSemicomplete
  simp only [pairOkF_eq]
  rfl

theorem isTournamentFast_eq (d : AdjList) : isTournamentFast d = isTournament d := by
  unfold isTournamentFast isTournament
  simp only [memA_eq]

theorem coreFast_eq (d : AdjList) : coreFast d = Query.AL.core d := by
  unfold coreFast
  have h1 : (fun u v => memA (bits d) d.order d u v) = (Query.AL.core d).hasArc := by
    funext u v
    rw [memA_eq]
    exact (Query.AL.hasArc_eq d u v).symm
  have h2 : (fun v => if v < d.order then
        some (((List.range d.order).filter (fun u => memA (bits d) d.order d u v)).length) else none)
      = (Query.AL.core d).indegree := by
    funext v
    show _ = Query.AL.indegree d v
    unfold Query.AL.indegree
    by_cases hv : v < d.order
    · simp only [hv, if_true, memA_eq]
      congr 1
      conv => rhs; rw [Query.AL.rows_eq_map d]
      rw [List.filter_map, List.length_map]
      rfl
    · simp only [hv, if_false]
  have h3 : (fun u => (d.rows.toArray[u]?).map List.length) = (Query.AL.core d).outdegree := by
    funext u
    rw [List.getElem?_toArray]
    rfl
  have h4 : (fun t => some (Query.AL.degreeSequenceFast d t)) = (Query.AL.core d).degreeSequence := by
    funext t
    rw [Query.AL.degreeSequenceFast_eq]
    rfl
  simp only []
  rw [h2, h3, h1, h4, Query.AL.indegreeSequenceFast_eq]
  rfl

/-! ### `empty(n)` + `add_arc` over an `Array` of rows -/
theorem addArcA_eq (A : Array (List Nat)) (u v : Nat) :
    (addArcA A u v).map (fun A => (⟨A.toList⟩ : AdjList)) = AdjList.addArc ⟨A.toList⟩ u v := by
  unfold addArcA AdjList.addArc AdjList.order
  by_cases h1 : u = v
  · simp [h1]
  · by_cases h2 : u < A.size
    · by_cases h3 : v < A.size
      · simp [h1, h2, h3]
      · simp [h1, h2, h3]
    · simp [h1, h2]

theorem foldlM_addArcA (arcs : List (Nat × Nat)) (A : Array (List Nat)) :
    (arcs.foldlM (fun A a => addArcA A a.1 a.2) A).map (fun A => (⟨A.toList⟩ : AdjList))
      = arcs.foldlM (fun (g : AdjList) a => g.addArc a.1 a.2) ⟨A.toList⟩ := by
  induction arcs generalizing A with
  | nil => rfl
  | cons a arcs ih =>
    rw [List.foldlM_cons, List.foldlM_cons, ← addArcA_eq]
    cases h : addArcA A a.1 a.2 with
    | none => rfl
    | some A' => simpa using ih A'

/-- `buildRowsFast n arcs` is `empty(n)` followed by `add_arc` of every arc in order — the body of
`Driver.buildAL` (`Driver/ReprDesc.lean`). -/
theorem buildRowsFast_eq (n : Nat) (arcs : List (Nat × Nat)) :
    buildRowsFast n arcs = (AdjList.empty n).bind (fun e => arcs.foldlM (fun g a => g.addArc a.1 a.2) e) := by
  unfold buildRowsFast AdjList.empty
  by_cases hn : n = 0
  · simp [hn]
  · simp only [hn, if_false, Option.bind_some]
    rw [foldlM_addArcA, Array.toList_replicate]

end GraafVerif.Pred.AL
