import GraafVerif.Proof.OpsSorted
/-!
# `merge_two_sorted`: fuel adequacy, members = union, sortedness (`merge_two_sorted_spec`)
-/
namespace GraafVerif.Ops
open GraafVerif.Repr

theorem mem_mergeFuel {x : Nat} : ∀ (fuel : Nat) (l r : List Nat), l.length + r.length ≤ fuel →
    (x ∈ mergeFuel fuel l r ↔ x ∈ l ∨ x ∈ r) := by
  intro fuel
  induction fuel with
  | zero =>
    intro l r h
    have hl : l = [] := List.eq_nil_of_length_eq_zero (by omega)
    have hr : r = [] := List.eq_nil_of_length_eq_zero (by omega)
    subst hl; subst hr; simp [mergeFuel]
  | succ f ih =>
    intro l r h
    match l, r with
    | [], r => simp [mergeFuel]
    | a :: l, [] => simp [mergeFuel]
    | a :: l, b :: r =>
      simp only [List.length_cons] at h
      unfold mergeFuel
      split
      · rw [List.mem_cons, ih l (b :: r) (by simp; omega)]; simp only [List.mem_cons]; grind
      · split
        · rw [List.mem_cons, ih (a :: l) r (by simp; omega)]; simp only [List.mem_cons]; grind
        · have : a = b := by omega
          subst this
          rw [List.mem_cons, ih l r (by omega)]; simp only [List.mem_cons]; grind

theorem sorted_mergeFuel : ∀ (fuel : Nat) (l r : List Nat), l.length + r.length ≤ fuel →
    SortedS l → SortedS r → SortedS (mergeFuel fuel l r) := by
  intro fuel
  induction fuel with
  | zero => intro l r _ _ _; simp [mergeFuel, SortedS]
  | succ f ih =>
    intro l r h hl hr
    match l, r with
    | [], r => simpa [mergeFuel] using hr
    | a :: l, [] => simpa [mergeFuel] using hl
    | a :: l, b :: r =>
      simp only [List.length_cons] at h
      have hl' := hl
      have hr' := hr
      unfold SortedS at hl hr
      rw [List.pairwise_cons] at hl hr
      unfold mergeFuel
      split
      · rename_i hab
        unfold SortedS
        rw [List.pairwise_cons]
        refine ⟨?_, ih l (b :: r) (by simp; omega) hl.2 hr'⟩
        intro y hy
        rcases (mem_mergeFuel f l (b :: r) (by simp; omega)).mp hy with hy | hy
        · exact hl.1 y hy
        · rcases List.mem_cons.mp hy with rfl | hy
          · exact hab
          · have := hr.1 y hy; omega
      · split
        · rename_i h1 hba
          unfold SortedS
          rw [List.pairwise_cons]
          refine ⟨?_, ih (a :: l) r (by simp; omega) hl' hr.2⟩
          intro y hy
          rcases (mem_mergeFuel f (a :: l) r (by simp; omega)).mp hy with hy | hy
          · rcases List.mem_cons.mp hy with rfl | hy
            · exact hba
            · have := hl.1 y hy; omega
          · exact hr.1 y hy
        · have : a = b := by omega
          subst this
          unfold SortedS
          rw [List.pairwise_cons]
          refine ⟨?_, ih l r (by omega) hl.2 hr.2⟩
          intro y hy
          rcases (mem_mergeFuel f l r (by omega)).mp hy with hy | hy
          · exact hl.1 y hy
          · exact hr.1 y hy

/-- Fuel adequacy: any fuel ≥ `|l| + |r|` gives the same result. -/
theorem mergeFuel_adequate : ∀ (fuel : Nat) (l r : List Nat), l.length + r.length ≤ fuel →
    mergeFuel fuel l r = mergeTwoSorted l r := by
  have key : ∀ (f1 f2 : Nat) (l r : List Nat), l.length + r.length ≤ f1 → l.length + r.length ≤ f2 →
      mergeFuel f1 l r = mergeFuel f2 l r := by
    intro f1
    induction f1 with
    | zero =>
      intro f2 l r h1 _
      have hl : l = [] := List.eq_nil_of_length_eq_zero (by omega)
      have hr : r = [] := List.eq_nil_of_length_eq_zero (by omega)
      subst hl; subst hr
      cases f2 <;> simp [mergeFuel]
    | succ f1 ih =>
      intro f2 l r h1 h2
      match l, r with
      | [], r =>
        cases f2 with
        | zero =>
          have hr : r = [] := by simpa using h2
          subst hr; simp [mergeFuel]
        | succ f2 => simp [mergeFuel]
      | a :: l, [] =>
        cases f2 with
        | zero => simp at h2
        | succ f2 => simp [mergeFuel]
      | a :: l, b :: r =>
        simp only [List.length_cons] at h1 h2
        cases f2 with
        | zero => omega
        | succ f2 =>
          unfold mergeFuel
          split
          · rw [ih f2 l (b :: r) (by simp; omega) (by simp; omega)]
          · split
            · rw [ih f2 (a :: l) r (by simp; omega) (by simp; omega)]
            · rw [ih f2 l r (by omega) (by omega)]
  intro fuel l r h
  exact key fuel _ l r h (Nat.le_refl _)

/-- `merge_two_sorted_spec`: members = union … -/
theorem mem_mergeTwoSorted {x : Nat} {l r : List Nat} : x ∈ mergeTwoSorted l r ↔ x ∈ l ∨ x ∈ r :=
  mem_mergeFuel _ l r (Nat.le_refl _)

/-- … and the output is strictly ascending when both inputs are. -/
theorem sorted_mergeTwoSorted {l r : List Nat} (hl : SortedS l) (hr : SortedS r) :
    SortedS (mergeTwoSorted l r) :=
  sorted_mergeFuel _ l r (Nat.le_refl _) hl hr

theorem mem_unionSets {x : Nat} {a b : List Nat} : x ∈ unionSets a b ↔ x ∈ a ∨ x ∈ b := by
  simp [unionSets, mem_toSet, mem_mergeTwoSorted]

theorem sorted_unionSets (a b : List Nat) : SortedS (unionSets a b) := sorted_toSet _

theorem unionSets_eq_merge {a b : List Nat} (ha : SortedS a) (hb : SortedS b) :
    unionSets a b = mergeTwoSorted a b := toSet_of_sorted (sorted_mergeTwoSorted ha hb)

end GraafVerif.Ops
