import GraafVerif.Spec.Tarjan
/-!
# Basic lemmas about the Tarjan model: maps, `insertAsc`, `popTo`, fault propagation,
fuel monotonicity, the `unindexed` measure.
-/
namespace GraafVerif.Tarjan

/-! ## Maps -/

@[simp] theorem mget_nil (x : Nat) : mget [] x = none := rfl

theorem mget_mset (m : Map) (k v x : Nat) :
    mget (mset m k v) x = if x = k then some v else mget m x := by
  induction m with
  | nil => simp [mset, mget]
  | cons p m ih =>
    obtain ⟨k', w⟩ := p
    simp only [mset]
    by_cases hk : k = k'
    · subst hk
      simp only [if_true, mget]
      by_cases hx : x = k <;> simp [hx]
    · simp only [hk, if_false, mget, ih]
      by_cases hx : x = k'
      · subst hx
        have : ¬ x = k := fun h => hk h.symm
        simp [this]
      · simp [hx]

/-! ## `insertAsc` -/

theorem mem_insertAsc (x y : Nat) (l : List Nat) : y ∈ insertAsc x l ↔ y = x ∨ y ∈ l := by
  induction l with
  | nil => simp [insertAsc]
  | cons z l ih =>
    simp only [insertAsc]
    split
    · simp
    · split
      · rename_i h; subst h; simp
      · simp only [List.mem_cons, ih]
        grind

theorem insertAsc_ne_nil (x : Nat) (l : List Nat) : insertAsc x l ≠ [] := by
  intro h
  have : x ∈ insertAsc x l := (mem_insertAsc x x l).mpr (Or.inl rfl)
  rw [h] at this
  simp at this

theorem sorted_insertAsc (x : Nat) (l : List Nat) (h : l.Pairwise (· < ·)) :
    (insertAsc x l).Pairwise (· < ·) := by
  induction l with
  | nil => simp [insertAsc]
  | cons z l ih =>
    simp only [insertAsc]
    have hz := List.pairwise_cons.mp h
    split
    · rename_i hlt
      refine List.pairwise_cons.mpr ⟨?_, h⟩
      intro a ha
      rcases List.mem_cons.mp ha with rfl | ha
      · exact hlt
      · exact Nat.lt_trans hlt (hz.1 a ha)
    · split
      · exact h
      · rename_i h1 h2
        refine List.pairwise_cons.mpr ⟨?_, ih hz.2⟩
        intro a ha
        rcases (mem_insertAsc x a l).mp ha with rfl | ha
        · omega
        · exact hz.1 a ha

/-! ## `popTo` -/

/-- Popping down to `u` when the stack is `ext ++ u :: rest` and `u ∉ ext`. -/
theorem popTo_spec (u : Nat) (rest : List Nat) :
    ∀ (ext on c : List Nat), u ∉ ext →
      (popTo u (ext ++ u :: rest) on c).1 = rest ∧
      (∀ x, x ∈ (popTo u (ext ++ u :: rest) on c).2.1 ↔ (x ∈ on ∧ x ∉ ext ∧ x ≠ u)) ∧
      (∀ x, x ∈ (popTo u (ext ++ u :: rest) on c).2.2 ↔ (x ∈ c ∨ x ∈ ext ∨ x = u)) ∧
      (c.Pairwise (· < ·) → (popTo u (ext ++ u :: rest) on c).2.2.Pairwise (· < ·)) := by
  intro ext
  induction ext with
  | nil =>
    intro on c _
    simp only [List.nil_append, popTo, if_true]
    refine ⟨trivial, ?_, ?_, sorted_insertAsc u c⟩
    · intro x; simp [List.mem_filter]
    · intro x; simp only [mem_insertAsc]; simp; grind
  | cons e ext ih =>
    intro on c hu
    have hue : u ≠ e := fun h => hu (h ▸ List.mem_cons_self)
    have hu' : u ∉ ext := fun h => hu (List.mem_cons_of_mem _ h)
    simp only [List.cons_append, popTo, hue, if_false]
    obtain ⟨h1, h2, h3, h4⟩ := ih (on.filter (· != e)) (insertAsc e c) hu'
    refine ⟨h1, ?_, ?_, ?_⟩
    · intro x; rw [h2 x]; simp [List.mem_filter]; grind
    · intro x; rw [h3 x]; simp only [mem_insertAsc, List.mem_cons]; grind
    · intro hc; exact h4 (sorted_insertAsc e c hc)

/-! ## Faults abort everything -/

theorem visit_fault (rec : Nat → St → St) (u : Nat) (s : St) (v : Nat) (f : Fault)
    (h : s.fault = some f) : visit rec u s v = s := by
  simp [visit, h]

theorem foldl_visit_fault (rec : Nat → St → St) (u : Nat) (l : List Nat) (s : St) (f : Fault)
    (h : s.fault = some f) : l.foldl (visit rec u) s = s := by
  induction l with
  | nil => rfl
  | cons v l ih => simp only [List.foldl_cons, visit_fault rec u s v f h, ih]

theorem finish_fault (u : Nat) (s : St) : (finish u s).fault = s.fault := by
  unfold finish
  split
  · rfl
  · split <;> rfl

/-! ## Fuel monotonicity: once the recursion did not run out of fuel, more fuel changes nothing -/

theorem foldl_visit_congr (r1 r2 : Nat → St → St) (u : Nat)
    (hr : ∀ w t, (r1 w t).fault ≠ some .fuel → r2 w t = r1 w t) :
    ∀ (l : List Nat) (s : St), (l.foldl (visit r1 u) s).fault ≠ some .fuel →
      l.foldl (visit r2 u) s = l.foldl (visit r1 u) s := by
  intro l
  induction l with
  | nil => intro s _; rfl
  | cons v l ih =>
    intro s h
    simp only [List.foldl_cons] at h ⊢
    have hv : (visit r1 u s v).fault ≠ some .fuel := by
      intro hf
      rw [foldl_visit_fault r1 u l _ _ hf] at h
      exact h hf
    have heq : visit r2 u s v = visit r1 u s v := by
      by_cases hfl : s.fault.isSome = true
      · simp [visit, hfl]
      · cases hidx : mget s.index v with
        | some w => simp [visit, hidx]
        | none =>
          have hrec : (r1 v s).fault ≠ some .fuel := by
            intro hf
            apply hv
            simp [visit, hfl, hidx, hf]
          simp only [visit, hfl, hidx, hr v s hrec]
    rw [heq]
    exact ih _ h

theorem connect_succ (g : VGraph) (fuel u : Nat) (s : St) :
    connect g (fuel + 1) u s =
      if g.verts.contains u then finish u ((g.out u).foldl (visit (connect g fuel) u) (enter u s))
      else { enter u s with fault := some .panic } := rfl

theorem connect_fuel_succ (g : VGraph) :
    ∀ (fuel u : Nat) (s : St), (connect g fuel u s).fault ≠ some .fuel →
      connect g (fuel + 1) u s = connect g fuel u s := by
  intro fuel
  induction fuel with
  | zero => intro u s h; simp [connect] at h
  | succ fuel ih =>
    intro u s h
    rw [connect_succ] at h
    rw [connect_succ g (fuel+1), connect_succ g fuel]
    by_cases hu : g.verts.contains u = true
    · simp only [hu, if_true] at h ⊢
      rw [finish_fault] at h
      rw [foldl_visit_congr (connect g fuel) (connect g (fuel+1)) u (fun w t hw => ih w t hw) _ _ h]
    · have hu' : g.verts.contains u = false := by simpa using hu
      simp only [hu']
      rfl

/-- Fuel adequacy, generic form: if `connect` did not run out of fuel, any larger fuel gives the
same result. -/
theorem connect_fuel_mono (g : VGraph) (fuel k u : Nat) (s : St)
    (h : (connect g fuel u s).fault ≠ some .fuel) : connect g (fuel + k) u s = connect g fuel u s := by
  induction k with
  | zero => rfl
  | succ k ih =>
    rw [← Nat.add_assoc, connect_fuel_succ g (fuel + k) u s (by rw [ih]; exact h), ih]

/-! ## The measure -/

theorem filter_length_le {α} (p q : α → Bool) (l : List α) (h : ∀ x ∈ l, p x = true → q x = true) :
    (l.filter p).length ≤ (l.filter q).length := by
  induction l with
  | nil => simp
  | cons a l ih =>
    have ih' := ih (fun x hx => h x (List.mem_cons_of_mem _ hx))
    have ha := h a List.mem_cons_self
    simp only [List.filter_cons]
    by_cases hp : p a = true
    · simp [hp, ha hp]; exact ih'
    · by_cases hq : q a = true
      · simp [hp, hq]; omega
      · simp [hp, hq]; exact ih'

theorem filter_length_lt {α} (p q : α → Bool) (l : List α) (h : ∀ x ∈ l, p x = true → q x = true)
    (u : α) (hu : u ∈ l) (hq : q u = true) (hp : p u = false) :
    (l.filter p).length < (l.filter q).length := by
  induction l with
  | nil => simp at hu
  | cons a l ih =>
    have hle := filter_length_le p q l (fun x hx => h x (List.mem_cons_of_mem _ hx))
    simp only [List.filter_cons]
    rcases List.mem_cons.mp hu with rfl | hu
    · simp [hp, hq]; omega
    · have ih' := ih (fun x hx => h x (List.mem_cons_of_mem _ hx)) hu
      have ha := h a List.mem_cons_self
      by_cases hpa : p a = true
      · simp [hpa, ha hpa]; exact ih'
      · by_cases hqa : q a = true
        · simp [hpa, hqa]; omega
        · simp [hpa, hqa]; exact ih'

end GraafVerif.Tarjan
