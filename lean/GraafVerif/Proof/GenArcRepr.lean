import GraafVerif.Proof.GenSets
/-!
# `empty` + `add_arc` folds, generically (shared by C14's matrix generators and all of C16)

`ArcRepr T` packages what the proofs need to know about one representation: its order, its arc
relation (membership in `arcs`), its well-formedness invariant and the specification of
`add_arc` on valid arcs.  `foldlM_addArc` is the fold induction: adding a list of valid arcs to a
well-formed digraph succeeds, keeps the order and yields exactly the old arcs plus the list.
The five instances are in `Proof/GenAddArc*.lean` (AdjList, AdjMap, AdjMatrix, EdgeList,
AdjListW with weight 1).  These are the `add_arc` facts of C01 that C14/C16 need; they are
proved here locally (the C01 builder proves the full refinement separately).
-/
namespace GraafVerif.Gen

structure ArcRepr (T : Type) where
  order : T → Nat
  /-- `(u, v)` is yielded by `arcs()` -/
  has : T → Nat → Nat → Prop
  WF : T → Prop
  addArc : T → Nat → Nat → Option T
  addArc_spec : ∀ d u v, WF d → u ≠ v → u < order d → v < order d →
    ∃ d', addArc d u v = some d' ∧ WF d' ∧ order d' = order d ∧
      ∀ a b, has d' a b ↔ has d a b ∨ (a = u ∧ b = v)

/-- all arcs of the list are valid for order `n` -/
def ArcsValid (n : Nat) (arcs : List (Nat × Nat)) : Prop :=
  ∀ a ∈ arcs, a.1 ≠ a.2 ∧ a.1 < n ∧ a.2 < n

theorem foldlM_addArc {T : Type} (R : ArcRepr T) (arcs : List (Nat × Nat)) :
    ∀ d, R.WF d → ArcsValid (R.order d) arcs →
      ∃ d', arcs.foldlM (fun g a => R.addArc g a.1 a.2) d = some d' ∧ R.WF d' ∧
        R.order d' = R.order d ∧ ∀ a b, R.has d' a b ↔ R.has d a b ∨ (a, b) ∈ arcs := by
  induction arcs with
  | nil => intro d hwf _; exact ⟨d, rfl, hwf, rfl, by simp⟩
  | cons x xs ih =>
    intro d hwf hv
    have hx := hv x (List.mem_cons_self ..)
    obtain ⟨d1, h1, hwf1, ho1, hhas1⟩ := R.addArc_spec d x.1 x.2 hwf hx.1 hx.2.1 hx.2.2
    have hv1 : ArcsValid (R.order d1) xs := by
      intro a ha; rw [ho1]; exact hv a (List.mem_cons_of_mem _ ha)
    obtain ⟨d2, h2, hwf2, ho2, hhas2⟩ := ih d1 hwf1 hv1
    refine ⟨d2, ?_, hwf2, by rw [ho2, ho1], ?_⟩
    · rw [List.foldlM_cons, h1]; exact h2
    · intro a b
      rw [hhas2, hhas1, List.mem_cons]
      constructor
      · rintro ((h | ⟨rfl, rfl⟩) | h)
        · exact Or.inl h
        · exact Or.inr (Or.inl rfl)
        · exact Or.inr (Or.inr h)
      · rintro (h | h | h)
        · exact Or.inl (Or.inl h)
        · left; right; rw [← h]; exact ⟨rfl, rfl⟩
        · exact Or.inr h

/-- A fold with an extra per-step guard that is true on valid arcs (the two asserts of the
`From` macro bodies) is the plain fold. -/
theorem foldlM_guard {T : Type} (f : T → Nat × Nat → Option T) (g : Nat × Nat → Bool)
    (arcs : List (Nat × Nat)) (hg : ∀ a ∈ arcs, g a = true) (d : T) :
    arcs.foldlM (fun h a => if g a = true then f h a else none) d = arcs.foldlM f d := by
  induction arcs generalizing d with
  | nil => rfl
  | cons x xs ih =>
    rw [List.foldlM_cons, List.foldlM_cons, hg x (List.mem_cons_self ..)]
    simp only [if_true]
    cases f d x with
    | none => rfl
    | some d1 => exact ih (fun a ha => hg a (List.mem_cons_of_mem _ ha)) d1

end GraafVerif.Gen
