import GraafVerif.Spec.Graph
import GraafVerif.Spec.Bfm
import GraafVerif.Spec.Fw
/-!
# Spec-level lemmas for the cross-algorithm clauses of C07 / C08 (tag `Cross`)

Nothing here mentions a model.  Contents:

* uniqueness: `IsMinDist` and `IsHopDist` determine the distance;
* `IsDistVec g S d` — "`d` is THE distance vector from the sources `S`": one entry per vertex,
  a finite entry `x` at `v` iff `x` is the minimum walk weight, the sentinel `none` iff `v` is
  unreachable.  This is literally the conclusion of C03's `distances_spec`; `isDistVec_unique`
  shows that at most one list satisfies it, `isDistVec_iff_exact` that it coincides with C07's
  `Bfm.Exact` for a single source;
* `NonNeg → NoNegCycle`;
* the unweighted bridge: `unitWeights g` (every arc of the `Graph` gets weight 1), walks of
  `unitWeights g` with `k` arcs are walks of `g` with `k` arcs and have weight `k`, hence
  `IsHopDist g S v d ↔ IsMinDist (unitWeights g) S v d` and
  `ReachFrom g S v ↔ WReachFrom (unitWeights g) S v`.
-/
namespace GraafVerif.Cross
open GraafVerif

/-! ## 1. Uniqueness at spec level -/

/-- The minimum walk weight from `S` to `v` is unique. -/
theorem isMinDist_unique {g : WGraph} {S : List Nat} {v : Nat} {d d' : Int}
    (h : IsMinDist g S v d) (h' : IsMinDist g S v d') : d = d' := by
  obtain ⟨⟨s, hs, k, hk⟩, hmin⟩ := h
  obtain ⟨⟨s', hs', k', hk'⟩, hmin'⟩ := h'
  have := hmin s' hs' k' d' hk'
  have := hmin' s hs k d hk
  omega

/-- The hop distance from `S` to `v` is unique. -/
theorem isHopDist_unique {g : Graph} {S : List Nat} {v d d' : Nat}
    (h : IsHopDist g S v d) (h' : IsHopDist g S v d') : d = d' := by
  rcases Nat.lt_trichotomy d d' with hlt | heq | hgt
  · exact absurd h.1 (h'.2 d hlt)
  · exact heq
  · exact absurd h'.1 (h.2 d' hgt)

/-- A vertex that has a minimum walk weight is reachable. -/
theorem isMinDist_reach {g : WGraph} {S : List Nat} {v : Nat} {d : Int} (h : IsMinDist g S v d) :
    WReachFrom g S v := by
  obtain ⟨⟨s, hs, k, hk⟩, _⟩ := h
  exact ⟨s, hs, k, d, hk⟩

/-! ## 2. THE distance vector -/

/-- `d` is the distance vector from the sources `S` (`none` = the `MAX` sentinel). -/
def IsDistVec (g : WGraph) (S : List Nat) (d : List (Option Int)) : Prop :=
  d.length = g.n ∧
  (∀ v, v < g.n → ∀ x, d[v]? = some (some x) ↔ IsMinDist g S v x) ∧
  (∀ v, v < g.n → (d[v]? = some none ↔ ¬ WReachFrom g S v))

/-- An entry of a list below its length is `some _`. -/
theorem getElem?_cases {α : Type} (l : List α) (v : Nat) (hv : v < l.length) : ∃ o, l[v]? = some o :=
  ⟨l[v], List.getElem?_eq_getElem hv⟩

/-- One direction of the entrywise comparison of two distance vectors. -/
theorem isDistVec_entry {g : WGraph} {S : List Nat} {d d' : List (Option Int)}
    (h : IsDistVec g S d) (h' : IsDistVec g S d') (v : Nat) : d[v]? = d'[v]? := by
  rcases Nat.lt_or_ge v g.n with hv | hv
  · obtain ⟨o, ho⟩ := getElem?_cases d v (by rw [h.1]; exact hv)
    rw [ho]
    cases o with
    | some x => exact ((h'.2.1 v hv x).mpr ((h.2.1 v hv x).mp ho)).symm
    | none => exact ((h'.2.2 v hv).mpr ((h.2.2 v hv).mp ho)).symm
  · rw [List.getElem?_eq_none (by rw [h.1]; exact hv), List.getElem?_eq_none (by rw [h'.1]; exact hv)]

/-- At most one list is the distance vector: whatever two algorithms compute, if both outputs
satisfy `IsDistVec` they are the same list. -/
theorem isDistVec_unique {g : WGraph} {S : List Nat} {d d' : List (Option Int)}
    (h : IsDistVec g S d) (h' : IsDistVec g S d') : d = d' :=
  List.ext_getElem? (isDistVec_entry h h')

/-- C07's `Exact` (single source) from `IsDistVec`. -/
theorem exact_of_isDistVec {g : WGraph} {s : Nat} {d : List (Option Int)} (h : IsDistVec g [s] d) :
    Bfm.Exact g s d := by
  have hlt : ∀ v o, d[v]? = some o → v < g.n := by
    intro v o ho
    rcases Nat.lt_or_ge v g.n with hv | hv
    · exact hv
    · rw [List.getElem?_eq_none (by rw [h.1]; exact hv)] at ho; cases ho
  exact ⟨h.1, fun v x hx => (h.2.1 v (hlt v _ hx) x).mp hx, fun v hx => (h.2.2 v (hlt v _ hx)).mp hx⟩

/-- `IsDistVec` from C07's `Exact`. -/
theorem isDistVec_of_exact {g : WGraph} {s : Nat} {d : List (Option Int)} (h : Bfm.Exact g s d) :
    IsDistVec g [s] d := by
  obtain ⟨hlen, hfin, hinf⟩ := h
  refine ⟨hlen, ?_, ?_⟩
  · intro v hv x
    refine ⟨hfin v x, fun hmin => ?_⟩
    obtain ⟨o, ho⟩ := getElem?_cases d v (by rw [hlen]; exact hv)
    cases o with
    | some y => rw [ho, isMinDist_unique hmin (hfin v y ho)]
    | none => exact absurd (isMinDist_reach hmin) (hinf v ho)
  · intro v hv
    refine ⟨hinf v, fun hnr => ?_⟩
    obtain ⟨o, ho⟩ := getElem?_cases d v (by rw [hlen]; exact hv)
    cases o with
    | some y => exact absurd (isMinDist_reach (hfin v y ho)) hnr
    | none => exact ho

theorem isDistVec_iff_exact {g : WGraph} {s : Nat} {d : List (Option Int)} :
    IsDistVec g [s] d ↔ Bfm.Exact g s d :=
  ⟨exact_of_isDistVec, isDistVec_of_exact⟩

/-! ## 3. Non-negative weights exclude negative circuits -/

theorem nonneg_walk {g : WGraph} (hnn : g.NonNeg) {u v k : Nat} {wt : Int} (hw : WWalk g u v k wt) :
    0 ≤ wt := by
  induction hw with
  | nil => omega
  | snoc _ ha ih => have := hnn _ _ _ ha; omega

theorem nonneg_noNegCycle {g : WGraph} (hnn : g.NonNeg) : g.NoNegCycle := by
  rintro x ⟨k, wt, _, hw, hlt⟩
  have := nonneg_walk hnn hw
  omega

/-! ## 4. The unweighted bridge -/

/-- A `Graph` viewed as a `WGraph`: every arc has weight 1. -/
def unitWeights (g : Graph) : WGraph := ⟨g.n, fun u => (g.out u).map (fun v => (v, 1))⟩

theorem unitWeights_A {g : Graph} {u v : Nat} {w : Int} :
    (unitWeights g).A u v w ↔ g.A u v ∧ w = 1 := by
  simp only [WGraph.A, unitWeights, Graph.A, List.mem_map, Prod.mk.injEq]
  constructor
  · rintro ⟨a, ha, rfl, rfl⟩; exact ⟨ha, rfl⟩
  · rintro ⟨ha, rfl⟩; exact ⟨v, ha, rfl, rfl⟩

theorem unitWeights_n (g : Graph) : (unitWeights g).n = g.n := rfl

theorem unitWeights_wf {g : Graph} (hg : g.WF) : (unitWeights g).WF := by
  intro u v w h
  exact hg u v (unitWeights_A.mp h).1

theorem unitWeights_nonneg (g : Graph) : (unitWeights g).NonNeg := by
  intro u v w h
  have := (unitWeights_A.mp h).2
  omega

theorem unitWeights_functional (g : Graph) : (unitWeights g).Functional := by
  intro u v w₁ w₂ h₁ h₂
  rw [(unitWeights_A.mp h₁).2, (unitWeights_A.mp h₂).2]

/-- Forgetting the weights again gives the digraph back. -/
theorem unitWeights_toGraph (g : Graph) : (unitWeights g).toGraph = g := by
  cases g with
  | mk n out =>
    simp only [unitWeights, WGraph.toGraph, List.map_map]
    congr 1
    funext u
    simp [Function.comp_def]

/-- A walk of `unitWeights g` with `k` arcs is a walk of `g` with `k` arcs, and weighs `k`. -/
theorem wwalk_unit {g : Graph} {u v k : Nat} {wt : Int} (h : WWalk (unitWeights g) u v k wt) :
    ReachIn g k u v ∧ wt = (k : Int) := by
  induction h with
  | nil => exact ⟨ReachIn.zero _, rfl⟩
  | snoc _ ha ih =>
    obtain ⟨harc, rfl⟩ := unitWeights_A.mp ha
    refine ⟨ReachIn.succ ih.1 harc, ?_⟩
    have := ih.2
    omega

theorem reachIn_wwalk {g : Graph} {u v k : Nat} (h : ReachIn g k u v) :
    WWalk (unitWeights g) u v k (k : Int) := by
  induction h with
  | zero => exact WWalk.nil _
  | succ _ ha ih =>
    have := WWalk.snoc ih (unitWeights_A.mpr ⟨ha, rfl⟩)
    rw [Int.natCast_add]
    exact this

theorem wwalk_unit_iff {g : Graph} {u v k : Nat} {wt : Int} :
    WWalk (unitWeights g) u v k wt ↔ ReachIn g k u v ∧ wt = (k : Int) :=
  ⟨wwalk_unit, fun ⟨h, he⟩ => he ▸ reachIn_wwalk h⟩

/-- **The bridge**: hop distance = minimum walk weight under unit weights. -/
theorem isHopDist_iff_isMinDist {g : Graph} {S : List Nat} {v d : Nat} :
    IsHopDist g S v d ↔ IsMinDist (unitWeights g) S v (d : Int) := by
  constructor
  · rintro ⟨⟨s, hs, hr⟩, hmin⟩
    refine ⟨⟨s, hs, d, reachIn_wwalk hr⟩, ?_⟩
    intro s' hs' k wt hw
    obtain ⟨hr', rfl⟩ := wwalk_unit hw
    have : ¬ k < d := fun hlt => hmin k hlt ⟨s', hs', hr'⟩
    omega
  · rintro ⟨⟨s, hs, k, hw⟩, hmin⟩
    obtain ⟨hr, he⟩ := wwalk_unit hw
    have hkd : k = d := by omega
    subst hkd
    refine ⟨⟨s, hs, hr⟩, ?_⟩
    rintro k' hlt ⟨s', hs', hr'⟩
    have := hmin s' hs' k' _ (reachIn_wwalk hr')
    omega

/-- Every minimum walk weight of `unitWeights g` is (the cast of) a hop distance. -/
theorem isMinDist_unit_nat {g : Graph} {S : List Nat} {v : Nat} {x : Int}
    (h : IsMinDist (unitWeights g) S v x) : ∃ d : Nat, x = (d : Int) ∧ IsHopDist g S v d := by
  obtain ⟨⟨s, hs, k, hw⟩, _⟩ := id h
  obtain ⟨_, rfl⟩ := wwalk_unit hw
  exact ⟨k, rfl, isHopDist_iff_isMinDist.mpr h⟩

theorem reachIn_reach {g : Graph} {k s v : Nat} (h : ReachIn g k s v) : Reach g s v := by
  induction h with
  | zero u => exact Reach.refl u
  | succ _ ha ih => exact Reach.step ih ha

theorem reach_reachIn {g : Graph} {s v : Nat} (h : Reach g s v) : ∃ k, ReachIn g k s v := by
  induction h with
  | refl => exact ⟨0, ReachIn.zero _⟩
  | step _ ha ih => obtain ⟨k, hk⟩ := ih; exact ⟨k + 1, ReachIn.succ hk ha⟩

/-- Reachability in `g` = reachability by walks of `unitWeights g`. -/
theorem reachFrom_iff_wreachFrom {g : Graph} {S : List Nat} {v : Nat} :
    ReachFrom g S v ↔ WReachFrom (unitWeights g) S v := by
  constructor
  · rintro ⟨s, hs, hr⟩
    obtain ⟨k, hk⟩ := reach_reachIn hr
    exact ⟨s, hs, k, k, reachIn_wwalk hk⟩
  · rintro ⟨s, hs, k, wt, hw⟩
    exact ⟨s, hs, reachIn_reach (wwalk_unit hw).1⟩

/-- Least witness (core Lean has no `Nat.find`). -/
theorem exists_least (P : Nat → Prop) : ∀ k, P k → ∃ m, P m ∧ ∀ j, j < m → ¬ P j := by
  intro k
  induction k using Nat.strongRecOn with
  | _ k ih =>
    intro hk
    by_cases h : ∃ j, j < k ∧ P j
    · obtain ⟨j, hj, hpj⟩ := h
      exact ih j hj hpj
    · exact ⟨k, hk, fun j hj hpj => h ⟨j, hj, hpj⟩⟩

/-- A reachable vertex has a hop distance. -/
theorem reachFrom_hopDist {g : Graph} {S : List Nat} {v : Nat} (h : ReachFrom g S v) :
    ∃ d, IsHopDist g S v d := by
  obtain ⟨s, hs, hr⟩ := h
  obtain ⟨k, hk⟩ := reach_reachIn hr
  obtain ⟨m, hm, hleast⟩ := exists_least (fun k => ∃ s ∈ S, ReachIn g k s v) k ⟨s, hs, hk⟩
  exact ⟨m, hm, hleast⟩

end GraafVerif.Cross
