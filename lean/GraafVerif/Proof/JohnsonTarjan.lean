import GraafVerif.Model.JohnsonTarjan
/-!
# What Johnson75's soundness needs from `Tarjan::components`

For the subgraph induced by the vertices `≥ s` (whose first vertex is `s`):
* every emitted component is a strictly ascending list of vertices satisfying the filter (`tarjan_inv`);
* some emitted component contains `s` (`tarjan_covers_first`): `s` gets index 0, so its low-link
  is 0 as well at the end of `connect(s)` and a component is popped down to `s`.
Both hold for every fuel ≥ 1 (they do not depend on fuel adequacy).
-/
set_option linter.unusedVariables false
namespace GraafVerif.Johnson
open GraafVerif

def Asc (l : List Nat) : Prop := List.Pairwise (· < ·) l

theorem mem_insertAsc' (v : Nat) : ∀ (l : List Nat) (x : Nat), x ∈ insertAsc v l ↔ x = v ∨ x ∈ l
  | [], x => by simp [insertAsc]
  | y :: ys, x => by
    unfold insertAsc
    split
    · simp
    · split
      · rename_i h; subst h; simp
      · simp [mem_insertAsc' v ys x]
        constructor
        · rintro (h | h | h) <;> simp [h]
        · rintro (h | h | h) <;> simp [h]

theorem asc_insertAsc (v : Nat) : ∀ (l : List Nat), Asc l → Asc (insertAsc v l)
  | [], _ => by simp [insertAsc, Asc]
  | y :: ys, h => by
    have h' := List.pairwise_cons.1 h
    unfold insertAsc
    split
    · rename_i hlt
      refine List.pairwise_cons.2 ⟨?_, h⟩
      intro z hz
      rcases List.mem_cons.1 hz with rfl | hz
      · exact hlt
      · exact Nat.lt_trans hlt (h'.1 z hz)
    · split
      · exact h
      · rename_i h1 h2
        refine List.pairwise_cons.2 ⟨?_, asc_insertAsc v ys h'.2⟩
        intro z hz
        rcases (mem_insertAsc' v ys z).1 hz with rfl | hz
        · omega
        · exact h'.1 z hz

theorem asc_head_le {l : List Nat} (h : Asc l) {a : Nat} (ha : l.head? = some a) : ∀ x ∈ l, a ≤ x := by
  cases l with
  | nil => simp at ha
  | cons y ys =>
    simp at ha; subst ha
    intro x hx
    rcases List.mem_cons.1 hx with rfl | hx
    · exact Nat.le_refl _
    · exact Nat.le_of_lt ((List.pairwise_cons.1 h).1 x hx)

/-! ### `popUntil` -/

theorem popUntil_cons (u v : Nat) (rest on comp : List Nat) :
    popUntil u (v :: rest) on comp =
      if u = v then (insertAsc v comp, rest, on.filter (· != v))
      else popUntil u rest (on.filter (· != v)) (insertAsc v comp) := rfl

theorem popUntil_comp (u : Nat) (P : Nat → Prop) : ∀ (stack on comp : List Nat),
    (∀ x ∈ stack, P x) → (Asc comp ∧ ∀ x ∈ comp, P x) →
    Asc (popUntil u stack on comp).1 ∧ ∀ x ∈ (popUntil u stack on comp).1, P x
  | [], on, comp, _, hc => hc
  | v :: rest, on, comp, hs, hc => by
    have hc' : Asc (insertAsc v comp) ∧ ∀ x ∈ insertAsc v comp, P x :=
      ⟨asc_insertAsc v comp hc.1, fun x hx => by
        rcases (mem_insertAsc' v comp x).1 hx with rfl | hx
        · exact hs _ (by simp)
        · exact hc.2 x hx⟩
    unfold popUntil
    simp only []
    split
    · exact hc'
    · exact popUntil_comp u P rest _ _ (fun x hx => hs x (by simp [hx])) hc'

theorem popUntil_stack_sub (u : Nat) : ∀ (stack on comp : List Nat),
    ∀ x ∈ (popUntil u stack on comp).2.1, x ∈ stack
  | [], on, comp => by simp [popUntil]
  | v :: rest, on, comp => by
    unfold popUntil
    simp only []
    split
    · intro x hx; simp [hx]
    · intro x hx; exact List.mem_cons_of_mem _ (popUntil_stack_sub u rest _ _ x hx)

theorem popUntil_mem (u : Nat) : ∀ (stack on comp : List Nat), u ∈ stack ∨ u ∈ comp →
    u ∈ (popUntil u stack on comp).1
  | [], on, comp, h => by
    rcases h with h | h
    · simp at h
    · simpa [popUntil] using h
  | v :: rest, on, comp, h => by
    unfold popUntil
    simp only []
    split
    · rename_i huv; subst huv; exact (mem_insertAsc' u comp u).2 (Or.inl rfl)
    · rename_i huv
      apply popUntil_mem u rest
      rcases h with h | h
      · rcases List.mem_cons.1 h with h | h
        · exact absurd h huv
        · exact Or.inl h
      · exact Or.inr ((mem_insertAsc' v comp u).2 (Or.inr h))

theorem popUntil_form (u : Nat) (S : List Nat) : ∀ (X on comp : List Nat),
    (popUntil u (X ++ u :: S) on comp).2.1 = S ∨ ∃ T, (popUntil u (X ++ u :: S) on comp).2.1 = T ++ u :: S
  | [], on, comp => by left; simp [popUntil]
  | y :: X, on, comp => by
    have e : (y :: X) ++ u :: S = y :: (X ++ u :: S) := rfl
    rw [e, popUntil_cons]
    split
    · right; exact ⟨X, rfl⟩
    · exact popUntil_form u S X _ _

/-! ### generic facts about `connect` -/

/-- Vertices on the stack and in emitted components satisfy `P`; components are ascending. -/
structure TInv (P : Nat → Prop) (st : TState) : Prop where
  stk : ∀ x ∈ st.stack, P x
  cmp : ∀ c ∈ st.comps, Asc c ∧ c ≠ [] ∧ ∀ x ∈ c, P x

theorem connectFinish_inv (P : Nat → Prop) (u : Nat) (st : TState) (h : TInv P st) (hu : u ∈ st.stack) :
    TInv P (connectFinish u st) := by
  unfold connectFinish
  split
  · refine ⟨?_, ?_⟩
    · intro x hx
      exact h.stk x (popUntil_stack_sub u _ _ _ x hx)
    · intro c hc
      simp only [List.mem_append, List.mem_singleton] at hc
      rcases hc with hc | rfl
      · exact h.cmp c hc
      · have := popUntil_comp u P st.stack st.onStack [] h.stk ⟨by simp [Asc], by simp⟩
        refine ⟨this.1, ?_, this.2⟩
        intro he
        have := popUntil_mem u st.stack st.onStack [] (Or.inl hu)
        rw [he] at this
        simp at this
  · exact h

/-- The state after the first five statements of `connect(u)`. -/
def TState.push (st : TState) (u : Nat) : TState :=
  { st with index := (u, st.i) :: st.index, low := (u, st.i) :: st.low,
            onStack := u :: st.onStack, stack := u :: st.stack, i := st.i + 1 }

theorem connect_succ (a : AM) (fuel : Nat) (st : TState) (u : Nat) :
    connect a (fuel+1) st u =
      connectFinish u ((a.out u).foldl (connectStep (connect a fuel) u) (st.push u)) := rfl

/-- What one `connect(u)` call guarantees. -/
structure CSpec (P : Nat → Prop) (st : TState) (u : Nat) (st' : TState) : Prop where
  inv : TInv P st'
  form : st'.stack = st.stack ∨ ∃ T, st'.stack = T ++ u :: st.stack
  comps : ∃ new, st'.comps = st.comps ++ new

/-- Invariant of the neighbour loop of `connect(u)` entered with stack `S`, components `cs`. -/
structure CLoop (P : Nat → Prop) (S : List Nat) (cs : List (List Nat)) (u : Nat) (st1 : TState) : Prop where
  inv : TInv P st1
  form : ∃ X, st1.stack = X ++ u :: S
  comps : ∃ new, st1.comps = cs ++ new

theorem connectStep_loop (P : Nat → Prop) (rec : TState → Nat → TState)
    (hrec : ∀ st v, TInv P st → P v → CSpec P st v (rec st v))
    (S : List Nat) (cs : List (List Nat)) (u : Nat) (st1 : TState) (v : Nat) (hv : P v)
    (h : CLoop P S cs u st1) : CLoop P S cs u (connectStep rec u st1 v) := by
  unfold connectStep
  split
  · split
    · exact ⟨⟨h.inv.stk, h.inv.cmp⟩, h.form, h.comps⟩
    · exact h
  · have hr := hrec st1 v h.inv hv
    obtain ⟨X, hX⟩ := h.form
    obtain ⟨new, hnew⟩ := h.comps
    obtain ⟨new', hnew'⟩ := hr.comps
    refine ⟨⟨hr.inv.stk, hr.inv.cmp⟩, ?_, ⟨new ++ new', by simp [hnew', hnew]⟩⟩
    rcases hr.form with hf | ⟨T, hf⟩
    · exact ⟨X, by simp [hf, hX]⟩
    · exact ⟨T ++ v :: X, by simp [hf, hX]⟩

theorem fold_loop (P : Nat → Prop) (rec : TState → Nat → TState)
    (hrec : ∀ st v, TInv P st → P v → CSpec P st v (rec st v))
    (S : List Nat) (cs : List (List Nat)) (u : Nat) : ∀ (vs : List Nat) (st1 : TState),
    (∀ v ∈ vs, P v) → CLoop P S cs u st1 → CLoop P S cs u (vs.foldl (connectStep rec u) st1)
  | [], st1, _, h => h
  | v :: vs, st1, hvs, h => by
    simp only [List.foldl_cons]
    exact fold_loop P rec hrec S cs u vs _ (fun x hx => hvs x (by simp [hx]))
      (connectStep_loop P rec hrec S cs u st1 v (hvs v (by simp)) h)

theorem connectFinish_spec (P : Nat → Prop) (S : List Nat) (cs : List (List Nat)) (u : Nat) (st1 : TState)
    (h : CLoop P S cs u st1) :
    TInv P (connectFinish u st1) ∧
      ((connectFinish u st1).stack = S ∨ ∃ T, (connectFinish u st1).stack = T ++ u :: S) ∧
      ∃ new, (connectFinish u st1).comps = cs ++ new := by
  obtain ⟨X, hX⟩ := h.form
  obtain ⟨new, hnew⟩ := h.comps
  refine ⟨connectFinish_inv P u st1 h.inv (by rw [hX]; simp), ?_, ?_⟩
  · unfold connectFinish
    split
    · simp only []
      rw [hX]
      exact popUntil_form u S X _ _
    · exact Or.inr ⟨X, hX⟩
  · unfold connectFinish
    split
    · exact ⟨new ++ [(popUntil u st1.stack st1.onStack []).1], by simp [hnew]⟩
    · exact ⟨new, hnew⟩

theorem connect_spec (a : AM) (P : Nat → Prop) (hP : ∀ u, P u → ∀ v ∈ a.out u, P v) :
    ∀ (fuel : Nat) (st : TState) (u : Nat), TInv P st → P u → CSpec P st u (connect a fuel st u)
  | 0, st, u, h, _ => ⟨h, Or.inl rfl, [], by simp [connect]⟩
  | fuel+1, st, u, h, hu => by
    have h0 : CLoop P st.stack st.comps u (st.push u) :=
      ⟨⟨fun x hx => by
          rcases List.mem_cons.1 hx with rfl | hx
          · exact hu
          · exact h.stk x hx, h.cmp⟩, ⟨[], rfl⟩, ⟨[], by simp [TState.push]⟩⟩
    have hl := fold_loop P (connect a fuel) (connect_spec a P hP fuel) st.stack st.comps u (a.out u) _
      (hP u hu) h0
    have hf := connectFinish_spec P st.stack st.comps u _ hl
    rw [connect_succ]
    exact ⟨hf.1, hf.2.1, hf.2.2⟩

/-! ### the first vertex ends in a component -/

/-- `s` has index 0 and low-link 0. -/
def Z (s : Nat) (st : TState) : Prop := st.index.lookup s = some 0 ∧ st.low.lookup s = some 0

theorem lookup_cons_ne {k a b : Nat} {l : List (Nat × Nat)} (h : k ≠ a) :
    List.lookup k ((a, b) :: l) = List.lookup k l := by
  have : (k == a) = false := by simp [h]
  simp [List.lookup_cons, this]

theorem lookup_cons_self {k b : Nat} {l : List (Nat × Nat)} : List.lookup k ((k, b) :: l) = some b := by
  simp

theorem connectFinish_Z (s u : Nat) (st : TState) (h : Z s st) : Z s (connectFinish u st) := by
  unfold connectFinish
  split <;> exact h

theorem connect_Z (a : AM) (s : Nat) : ∀ (fuel : Nat) (st : TState) (u : Nat), u ≠ s → Z s st →
    Z s (connect a fuel st u)
  | 0, st, u, _, h => h
  | fuel+1, st, u, hu, h => by
    have hs : s ≠ u := fun e => hu e.symm
    have key : ∀ (vs : List Nat) (st1 : TState), Z s st1 →
        Z s (vs.foldl (connectStep (connect a fuel) u) st1) := by
      intro vs
      induction vs with
      | nil => intro st1 h1; exact h1
      | cons v vs ih =>
        intro st1 h1
        simp only [List.foldl_cons]
        apply ih
        unfold connectStep
        split
        · split
          · exact ⟨h1.1, by show List.lookup s ((u, _) :: st1.low) = _; rw [lookup_cons_ne hs]; exact h1.2⟩
          · exact h1
        · rename_i hnone
          have hvs : v ≠ s := by
            intro e; subst e; rw [h1.1] at hnone; simp at hnone
          have := connect_Z a s fuel st1 v hvs h1
          exact ⟨this.1, by show List.lookup s ((u, _) :: _) = _; rw [lookup_cons_ne hs]; exact this.2⟩
    rw [connect_succ]
    apply connectFinish_Z
    apply key
    exact ⟨by show List.lookup s ((u, _) :: st.index) = _; rw [lookup_cons_ne hs]; exact h.1,
           by show List.lookup s ((u, _) :: st.low) = _; rw [lookup_cons_ne hs]; exact h.2⟩

theorem connect_covers (a : AM) (P : Nat → Prop) (hP : ∀ u, P u → ∀ v ∈ a.out u, P v)
    (fuel : Nat) (st : TState) (s : Nat) (hi : st.i = 0) (h : TInv P st) (hs : P s) :
    ∃ c ∈ (connect a (fuel+1) st s).comps, s ∈ c := by
  have h0 : CLoop P st.stack st.comps s (st.push s) :=
    ⟨⟨fun x hx => by
        rcases List.mem_cons.1 hx with rfl | hx
        · exact hs
        · exact h.stk x hx, h.cmp⟩, ⟨[], rfl⟩, ⟨[], by simp [TState.push]⟩⟩
  have hz0 : Z s (st.push s) := by
    constructor
    · show List.lookup s ((s, st.i) :: st.index) = some 0; rw [lookup_cons_self, hi]
    · show List.lookup s ((s, st.i) :: st.low) = some 0; rw [lookup_cons_self, hi]
  have key : ∀ (vs : List Nat) (st1 : TState), (∀ v ∈ vs, P v) → CLoop P st.stack st.comps s st1 → Z s st1 →
      CLoop P st.stack st.comps s (vs.foldl (connectStep (connect a fuel) s) st1) ∧
        Z s (vs.foldl (connectStep (connect a fuel) s) st1) := by
    intro vs
    induction vs with
    | nil => intro st1 _ h1 h2; exact ⟨h1, h2⟩
    | cons v vs ih =>
      intro st1 hvs h1 h2
      simp only [List.foldl_cons]
      apply ih _ (fun x hx => hvs x (by simp [hx]))
        (connectStep_loop P _ (connect_spec a P hP fuel) _ _ s st1 v (hvs v (by simp)) h1)
      unfold connectStep
      split
      · split
        · refine ⟨h2.1, ?_⟩
          show List.lookup s ((s, _) :: st1.low) = some 0
          rw [lookup_cons_self]
          simp [TState.lowOf, h2.2]
        · exact h2
      · rename_i hnone
        have hvs' : v ≠ s := by
          intro e; subst e; rw [h2.1] at hnone; simp at hnone
        have hz := connect_Z a s fuel st1 v hvs' h2
        refine ⟨hz.1, ?_⟩
        show List.lookup s ((s, _) :: _) = some 0
        rw [lookup_cons_self]
        simp [TState.lowOf, hz.2]
  obtain ⟨hl, hz⟩ := key (a.out s) _ (hP s hs) h0 hz0
  obtain ⟨X, hX⟩ := hl.form
  rw [connect_succ]
  unfold connectFinish
  rw [if_pos (by rw [hz.1, hz.2])]
  refine ⟨(popUntil s ((a.out s).foldl (connectStep (connect a fuel) s) (st.push s)).stack
      ((a.out s).foldl (connectStep (connect a fuel) s) (st.push s)).onStack []).1, by simp, ?_⟩
  exact popUntil_mem s _ _ _ (Or.inl (by rw [hX]; simp))

theorem tarjan_facts (a : AM) (P : Nat → Prop) (hP : ∀ u, P u → ∀ v ∈ a.out u, P v)
    (hverts : ∀ u ∈ a.verts, P u) (s : Nat) (rest : List Nat) (hv : a.verts = s :: rest) :
    (∀ c ∈ tarjan a, Asc c ∧ c ≠ [] ∧ ∀ x ∈ c, P x) ∧ ∃ c ∈ tarjan a, s ∈ c := by
  have hfuel : a.order + 1 = (a.order) + 1 := rfl
  have key : ∀ (vs : List Nat) (st : TState), (∀ v ∈ vs, P v) → TInv P st → (∃ c ∈ st.comps, s ∈ c) →
      TInv P (vs.foldl (fun st u => if (st.index.lookup u).isSome then st else connect a (a.order + 1) st u) st) ∧
      ∃ c ∈ (vs.foldl (fun st u => if (st.index.lookup u).isSome then st else connect a (a.order + 1) st u) st).comps,
        s ∈ c := by
    intro vs
    induction vs with
    | nil => intro st _ h1 h2; exact ⟨h1, h2⟩
    | cons v vs ih =>
      intro st hvs h1 h2
      simp only [List.foldl_cons]
      apply ih _ (fun x hx => hvs x (by simp [hx]))
      · split
        · exact h1
        · exact (connect_spec a P hP _ st v h1 (hvs v (by simp))).inv
      · split
        · exact h2
        · obtain ⟨new, hnew⟩ := (connect_spec a P hP (a.order + 1) st v h1 (hvs v (by simp))).comps
          obtain ⟨c, hc, hsc⟩ := h2
          exact ⟨c, by rw [hnew]; simp [hc], hsc⟩
  have hinit : TInv P TState.init := ⟨by simp [TState.init], by simp [TState.init]⟩
  have hPs : P s := hverts s (by rw [hv]; simp)
  have h1 := connect_spec a P hP (a.order + 1) TState.init s hinit hPs
  have h2 := connect_covers a P hP a.order TState.init s rfl hinit hPs
  have := key rest (connect a (a.order + 1) TState.init s)
    (fun v hv' => hverts v (by rw [hv]; simp [hv'])) h1.inv h2
  unfold tarjan tarjanFuel
  rw [hv]
  simp only [List.foldl_cons]
  have e : (List.lookup s TState.init.index).isSome = false := by simp [TState.init]
  simp only [e, Bool.false_eq_true, if_false]
  exact ⟨this.1.cmp, this.2⟩

end GraafVerif.Johnson
