import GraafVerif.Proof.ReprRun
/-!
# `EdgeList` refines the abstract digraph (C01) and is determined by it (C20)
-/
namespace GraafVerif.Repr.EdgeList
open GraafVerif.ReprSpec GraafVerif.Repr

theorem hasArc_iff (d : EdgeList) (u v : Nat) : d.hasArc u v = true ↔ (u, v) ∈ d.arcs := by
  simp [hasArc]

theorem empty_WF {n : Nat} {d : EdgeList} (h : empty n = some d) : d.WF := by
  unfold empty at h
  split at h
  · cases h
  · rename_i hn; cases h; exact ⟨Nat.pos_of_ne_zero hn, List.Pairwise.nil, by simp⟩

theorem abs_empty {n : Nat} {d : EdgeList} (h : empty n = some d) : d.abs = emptySpec Unit n := by
  unfold empty at h
  split at h
  · cases h
  · cases h; apply SpecState.ext <;> intros <;> simp [abs, emptySpec, hasArc]

theorem addArc_eq_none_iff (d : EdgeList) (u v : Nat) :
    d.addArc u v = none ↔ rejected .fixed d.abs u v = true := by
  simp only [abs, rejected_fixed_range]
  unfold addArc
  by_cases h1 : u = v <;> by_cases h2 : u < d.order <;> by_cases h3 : v < d.order <;> simp [h1, h2, h3]

theorem addArc_some {d : EdgeList} {u v : Nat} (h : rejected .fixed d.abs u v = false) :
    d.addArc u v = some ⟨pinsert (u, v) d.arcs, d.order⟩ ∧ u ≠ v ∧ u < d.order ∧ v < d.order := by
  simp only [abs, rejected_fixed_range] at h
  unfold addArc
  by_cases h1 : u = v <;> by_cases h2 : u < d.order <;> by_cases h3 : v < d.order <;> simp_all

theorem step_WF (d : EdgeList) (op : Op Unit) (h : d.WF) : (d.step op).1.WF := by
  obtain ⟨h0, hs, hr⟩ := h
  cases op with
  | add u v w =>
    simp only [step]
    cases hrej : rejected .fixed d.abs u v
    · obtain ⟨e, huv, hu, hv⟩ := addArc_some hrej
      rw [e, outOfOpt_some]
      refine ⟨h0, sorted_pinsert hs, ?_⟩
      intro a ha
      rcases mem_pinsert.mp ha with rfl | ha
      · exact ⟨hu, hv, huv⟩
      · exact hr a ha
    · rw [(addArc_eq_none_iff d u v).mpr hrej, outOfOpt_none]; exact ⟨h0, hs, hr⟩
  | rem u v =>
    simp only [step, removeArc, outOfRem]
    refine ⟨h0, sorted_perase hs, ?_⟩
    intro a ha
    exact hr a ((mem_perase hs).mp ha).1

theorem step_refines (d : EdgeList) (op : Op Unit) (h : d.WF) :
    (d.step op).1.abs = (specStep .fixed d.abs op).1 ∧ (d.step op).2 = (specStep .fixed d.abs op).2 := by
  obtain ⟨h0, hs, hr⟩ := h
  cases op with
  | add u v w =>
    simp only [step]
    cases hrej : rejected .fixed d.abs u v
    · obtain ⟨e, huv, hu, hv⟩ := addArc_some hrej
      rw [e, outOfOpt_some, specStep_add_ok _ hrej]
      refine ⟨?_, rfl⟩
      apply SpecState.ext
      · intro x; rfl
      · intro a b
        simp only [abs, setW]
        by_cases hc : a = u ∧ b = v
        · obtain ⟨rfl, rfl⟩ := hc
          simp [hasArc, mem_pinsert]
        · simp only [hc, if_false]
          apply unitOf_congr
          simp only [hasArc_iff, mem_pinsert, Prod.mk.injEq]
          constructor
          · rintro (h | h)
            · exact absurd h hc
            · exact h
          · exact Or.inr
    · rw [(addArc_eq_none_iff d u v).mpr hrej, outOfOpt_none, specStep_add_rej _ hrej]
      exact ⟨rfl, rfl⟩
  | rem u v =>
    simp only [step, removeArc, outOfRem, specStep]
    refine ⟨?_, by simp [abs, SpecState.A, hasArc]⟩
    apply SpecState.ext
    · intro x; rfl
    · intro a b
      simp only [abs, setW]
      by_cases hc : a = u ∧ b = v
      · obtain ⟨rfl, rfl⟩ := hc
        simp only [and_self, if_true]
        have : ¬ (a, b) ∈ perase (a, b) d.arcs := fun hm => ((mem_perase hs).mp hm).2 rfl
        simp [hasArc, this]
      · simp only [hc, if_false]
        apply unitOf_congr
        simp only [hasArc_iff, mem_perase hs, ne_eq, Prod.mk.injEq]
        constructor
        · exact fun h => h.1
        · exact fun h => ⟨h, hc⟩

/-- A rejected call panics and leaves the digraph unchanged. -/
theorem step_rejects (d : EdgeList) (u v : Nat) (h : rejected .fixed d.abs u v = true) :
    d.step (.add u v ()) = (d, .panic) := by
  simp only [step, (addArc_eq_none_iff d u v).mpr h, outOfOpt_none]

theorem run_refines (ops : List (Op Unit)) (d : EdgeList) (h : d.WF) :
    (run step d ops).1.WF ∧ (run step d ops).1.abs = (run (specStep .fixed) d.abs ops).1 ∧
    (run step d ops).2 = (run (specStep .fixed) d.abs ops).2 :=
  run_refines_gen step (specStep .fixed) WF abs step_WF step_refines ops d h

/-- `arcs()` lists every arc exactly once, in ascending lexicographic order. -/
theorem arcs_sorted_nodup (d : EdgeList) (h : d.WF) :
    d.arcs.Pairwise (fun a b => pairLt a b = true) ∧ d.arcs.Nodup ∧
    ∀ u v, (u, v) ∈ d.arcs ↔ d.abs.A u v = true := by
  refine ⟨h.2.1, sortedP_nodup h.2.1, ?_⟩
  intro u v
  simp [abs, SpecState.A, hasArc]

theorem vertices_spec (d : EdgeList) :
    d.vertices = List.range d.order ∧ ∀ x, x ∈ d.vertices ↔ d.abs.V x = true := by
  refine ⟨rfl, ?_⟩
  intro x; simp [vertices, abs]

theorem size_eq (d : EdgeList) : d.size = d.arcs.length := rfl

theorem abs_valid (d : EdgeList) (h : d.WF) : d.abs.Valid := by
  intro u v huv
  have hm : (u, v) ∈ d.arcs := by simpa [abs, SpecState.A, hasArc] using huv
  have := h.2.2 _ hm
  simp only [abs, decide_eq_true_eq]
  exact ⟨this.2.2, this.1, this.2.1⟩

/-- C20: a well-formed `EdgeList` is determined by its abstract digraph. -/
theorem abs_injective (d₁ d₂ : EdgeList) (h₁ : d₁.WF) (h₂ : d₂.WF) : d₁.abs = d₂.abs ↔ d₁ = d₂ := by
  constructor
  · intro h
    have hV : d₁.order = d₂.order := lt_of_decide_lt_eq (congrArg SpecState.V h)
    have hA : d₁.arcs = d₂.arcs := by
      apply sortedP_ext h₁.2.1 h₂.2.1
      rintro ⟨u, v⟩
      have := congrFun (congrFun (congrArg SpecState.W h) u) v
      simp only [abs] at this
      have := unitOf_inj this
      rw [← hasArc_iff, ← hasArc_iff, this]
    cases d₁; cases d₂; simp_all
  · rintro rfl; rfl

end GraafVerif.Repr.EdgeList
