import GraafVerif.Spec.OracleFast
import GraafVerif.Proof.OracleWDist
/-!
# The fast weighted-distance oracles equal the proved naive oracle `wdistB`

Two fast oracles (`Spec/OracleFast.lean`):

* `wdistFast` / `wdistFastPair` / `wdistFastFlag` — the rounds of `wdistB` on an `Array`, with
  early exit (`H03.fastDist`);
* `wdistArcsFast` — Bellman-Ford over a flat arc list, tail label re-read per arc, early exit
  (`H08.bfA`).

Method.  (1) Under `Array.toList` the array steps ARE list steps (`sim`), so everything is
reduced to list-level rounds.  (2) An abstract *relaxation round* `RelaxRound g S R` is a function
`R : labels → labels × flag` with five properties (keeps "labels are walk weights", only lowers
labels, covers one more arc of every walk, flag down ⇒ nothing changed and all arcs tight, all arcs
tight ⇒ `(d, false)`).  `wRound g` (the round of `wdistB`) and the arc-list round are instances.
For ANY relaxation round: the labels after `n` rounds are tight iff no negative circuit is
reachable, tight labels are a fixpoint, and tight labels are unique (`tight_unique`).  (3) The
early-exit loops return an iterate that is a fixpoint, hence the `n`-th iterate.
-/
namespace GraafVerif.OracleFastProof
open GraafVerif GraafVerif.OracleFast GraafVerif.OracleProof

/-! ## Simulation of array folds by list folds -/

theorem foldl_sim {α α' β : Type} (P : α → α') (f : α → β → α) (f' : α' → β → α')
    (h : ∀ a b, P (f a b) = f' (P a) b) : ∀ (l : List β) (a : α), P (l.foldl f a) = l.foldl f' (P a) := by
  intro l
  induction l with
  | nil => intro a; rfl
  | cons b rest ih => intro a; rw [List.foldl_cons, List.foldl_cons, ih, h]

/-- An array state seen as a list state. -/
def toL {α : Type} (a : Array (Option α) × Bool) : List (Option α) × Bool := (a.1.toList, a.2)

theorem getD_toList {α : Type} (a : Array (Option α)) (v : Nat) : a.getD v none = a.toList[v]?.getD none := by
  simp [Array.getD_eq_getD_getElem?]

theorem getElem?_getD_toList {α : Type} (a : Array (Option α)) (v : Nat) :
    (a[v]?).getD none = a.toList[v]?.getD none := by
  simp

theorem wfIn_sim (du : Int) (a : Array (Option Int) × Bool) (vw : Nat × Int) :
    toL (wfIn du a vw) = wIn du (toL a) vw := by
  obtain ⟨ar, c⟩ := a
  simp only [wfIn, wIn, toL, getD_toList]
  cases ar.toList[vw.1]?.getD none with
  | none => simp
  | some dv =>
    by_cases h : du + vw.2 < dv
    · simp [h]
    · simp [h]

theorem wfOut_sim (g : WGraph) (a : Array (Option Int) × Bool) (u : Nat) :
    toL (wfOut g a u) = wOut g (toL a) u := by
  obtain ⟨ar, c⟩ := a
  simp only [wfOut, wOut, toL, getD_toList]
  cases ar.toList[u]?.getD none with
  | none => rfl
  | some du => exact foldl_sim toL (wfIn du) (wIn du) (wfIn_sim du) _ _

theorem wfRound_sim (g : WGraph) (d : Array (Option Int)) : toL (wfRound g d) = wRound g d.toList :=
  foldl_sim toL (wfOut g) (wOut g) (wfOut_sim g) _ _

theorem wfInit_toList (g : WGraph) (S : List Nat) : (wfInit g.n S).toList = wInit g S := by
  unfold wfInit wInit
  have := foldl_sim (fun a : Array (Option Int) => a.toList) (fun d s => d.setIfInBounds s (some 0))
    (fun d s => d.set s (some 0)) (fun a b => by simp) S (Array.replicate g.n none)
  simpa using this

/-! ## Abstract relaxation rounds -/

structure RelaxRound (g : WGraph) (S : List Nat) (R : List (Option Int) → List (Option Int) × Bool) : Prop where
  inv : ∀ d, WInv g S d → WInv g S (R d).1
  bnd : ∀ d y c, BndL d y c → BndL (R d).1 y c
  arc : ∀ d, d.length = g.n → ∀ u v w c, g.A u v w → BndL d u c → BndL (R d).1 v (c + w)
  noupd : ∀ d, (R d).2 = false → (R d).1 = d ∧ TightL g d
  tight : ∀ d, TightL g d → R d = (d, false)

/-- The round of `wdistB` is a relaxation round. -/
theorem wRound_relax {g : WGraph} (hwf : g.WF) (S : List Nat) : RelaxRound g S (wRound g) where
  inv := fun _ h => wInv_round h
  bnd := fun d _ _ h => wRound_bnd g d h
  arc := fun _ hlen _ _ _ _ ha hu => round_arc hwf hlen ha hu
  noupd := fun _ h => wRound_noupdate hwf h
  tight := fun _ h => wRound_tight h

/-- `m` rounds. -/
def iter (R : List (Option Int) → List (Option Int) × Bool) : Nat → List (Option Int) → List (Option Int)
  | 0, d => d
  | m+1, d => iter R m (R d).1

theorem iter_succ' (R : List (Option Int) → List (Option Int) × Bool) :
    ∀ m d, iter R (m+1) d = (R (iter R m d)).1 := by
  intro m
  induction m with
  | zero => intro d; rfl
  | succ m ih => intro d; rw [iter, ih]; rfl

theorem wRoundsN_eq_iter (g : WGraph) (S : List Nat) : ∀ m, wRoundsN g S m = iter (wRound g) m (wInit g S) := by
  intro m
  induction m with
  | zero => rfl
  | succ m ih =>
    rw [iter_succ', ← ih]
    unfold wRoundsN
    rw [List.range_succ, List.foldl_append]
    rfl

section generic
variable {g : WGraph} {S : List Nat} {R : List (Option Int) → List (Option Int) × Bool}

/-- Tight labels are a fixpoint. -/
theorem iter_fix (hR : RelaxRound g S R) {d : List (Option Int)} (ht : TightL g d) : ∀ m, iter R m d = d := by
  intro m
  induction m with
  | zero => rfl
  | succ m ih => rw [iter, hR.tight d ht]; exact ih

theorem iter_inv (hR : RelaxRound g S R) {d : List (Option Int)} (h : WInv g S d) : ∀ m, WInv g S (iter R m d) := by
  intro m
  induction m with
  | zero => exact h
  | succ m ih => rw [iter_succ']; exact hR.inv _ ih

theorem iter_cov (hR : RelaxRound g S R) {d : List (Option Int)} (h : WInv g S d) (h0 : Cov g S d 0) :
    ∀ m, Cov g S (iter R m d) m := by
  intro m
  induction m with
  | zero => exact h0
  | succ m ih =>
    rw [iter_succ']
    intro s hs v k wt hk hw
    rcases Bfm.wwalk_inv hw with ⟨rfl, rfl, rfl⟩ | ⟨u, k', wt', w, rfl, rfl, hw', ha⟩
    · exact hR.bnd _ _ _ (ih _ hs _ 0 0 (by omega) (WWalk.nil _))
    · exact hR.arc _ (iter_inv hR h m).len u v w wt' ha (ih s hs u k' wt' (by omega) hw')

/-- Without a reachable negative circuit the labels after `n` rounds are tight. -/
theorem iter_tight_of_noNeg (hR : RelaxRound g S R) (hwf : g.WF) (hS : ∀ s ∈ S, s < g.n)
    {d : List (Option Int)} (h : WInv g S d) (h0 : Cov g S d 0) (hnn : ¬ NegReachableFrom g S) :
    TightL g (iter R g.n d) := by
  intro u v w du ha hdu
  obtain ⟨s, hs, k, hk⟩ := (iter_inv hR h g.n).walk u du hdu
  have hnn' : Bfm.NoNegReach g s := by
    rintro x ⟨s', hs', k', wt', hw'⟩ hneg
    rw [List.mem_singleton.mp hs'] at hw'
    exact hnn ⟨x, ⟨s, hs, k', wt', hw'⟩, hneg⟩
  obtain ⟨k', wt', hk', hle, hw'⟩ := Bfm.short_walk hwf (hS s hs) hnn' (WWalk.snoc hk ha)
  exact (iter_cov hR h h0 g.n s hs v k' wt' (by omega) hw').mono hle

/-- The flag of the round after `n` rounds: `true` iff a negative circuit is reachable. -/
theorem iter_flag (hR : RelaxRound g S R) (hwf : g.WF) (hS : ∀ s ∈ S, s < g.n)
    {d : List (Option Int)} (h : WInv g S d) (h0 : Cov g S d 0) :
    (R (iter R g.n d)).2 = true ↔ NegReachableFrom g S := by
  constructor
  · intro hf
    apply Classical.byContradiction
    intro hnn
    rw [hR.tight _ (iter_tight_of_noNeg hR hwf hS h h0 hnn)] at hf
    cases hf
  · intro hneg
    cases hf : (R (iter R g.n d)).2 with
    | true => rfl
    | false => exact absurd hneg (exact_of_tight (iter_inv hR h g.n) (hR.noupd _ hf).2).2.2

end generic

/-- **Tight walk-weight labels are unique.** -/
theorem tight_unique {g : WGraph} {S : List Nat} {d d' : List (Option Int)}
    (h : WInv g S d) (ht : TightL g d) (h' : WInv g S d') (ht' : TightL g d') : d = d' := by
  obtain ⟨a1, a2, _⟩ := exact_of_tight h ht
  obtain ⟨b1, b2, _⟩ := exact_of_tight h' ht'
  apply List.ext_getElem?
  intro v
  have hlk : lk d v = lk d' v := by
    cases hx : lk d v with
    | none =>
      cases hy : lk d' v with
      | none => rfl
      | some y =>
        obtain ⟨⟨s, hs, k, hw⟩, _⟩ := b1 v y hy
        exact absurd ⟨s, hs, k, y, hw⟩ ((a2 v).mp hx)
    | some x =>
      cases hy : lk d' v with
      | none =>
        obtain ⟨⟨s, hs, k, hw⟩, _⟩ := a1 v x hx
        exact absurd ⟨s, hs, k, x, hw⟩ ((b2 v).mp hy)
      | some y => rw [Bfm.isMinDist_unique (a1 v x hx) (b1 v y hy)]
  unfold lk at hlk
  by_cases hv : v < g.n
  · have h1 : v < d.length := by rw [h.len]; exact hv
    have h2 : v < d'.length := by rw [h'.len]; exact hv
    rw [List.getElem?_eq_getElem h1, List.getElem?_eq_getElem h2] at hlk ⊢
    simpa using hlk
  · rw [List.getElem?_eq_none (by rw [h.len]; omega), List.getElem?_eq_none (by rw [h'.len]; omega)]

/-- The start labels satisfy the invariants. -/
theorem wInit_cov (g : WGraph) {S : List Nat} (hS : ∀ s ∈ S, s < g.n) : Cov g S (wInit g S) 0 := by
  intro s hs v k wt hk hw
  cases hw with
  | nil => exact (wInv_init g hS).src s hs
  | snoc _ _ => omega

/-! ## `wdistFast`: the early-exit loop returns the `n`-th iterate -/

section rowloop
variable {g : WGraph}

theorem wfRound_fst (g : WGraph) (d : Array (Option Int)) : (wfRound g d).1.toList = (wRound g d.toList).1 :=
  congrArg Prod.fst (wfRound_sim g d)

theorem wfRound_snd (g : WGraph) (d : Array (Option Int)) : (wfRound g d).2 = (wRound g d.toList).2 :=
  congrArg Prod.snd (wfRound_sim g d)

/-- If the `m`-th iterate is a fixpoint and `m < fuel`, the loop returns it. -/
theorem wfGo_fix (hwf : g.WF) (S : List Nat) : ∀ (fuel m : Nat) (d : Array (Option Int)), m < fuel →
    (wRound g (iter (wRound g) m d.toList)).2 = false →
    (wfGo g fuel d).toList = iter (wRound g) m d.toList := by
  have hR := wRound_relax hwf S
  intro fuel
  induction fuel with
  | zero => intro m d hm; omega
  | succ f ih =>
    intro m d hm hf
    unfold wfGo
    have h1 := wfRound_fst g d
    have h2 := wfRound_snd g d
    split <;> rename_i d' heq <;> rw [heq] at h1 h2 <;> simp only [] at h1 h2
    · cases m with
      | zero => rw [iter, ← h2] at hf; cases hf
      | succ m' =>
        rw [iter, ← h1]
        exact ih m' d' (by omega) (by rw [h1]; exact hf)
    · obtain ⟨he, ht⟩ := hR.noupd _ h2.symm
      rw [iter_fix hR ht, h1, he]

theorem wfGoF_fst (g : WGraph) : ∀ (fuel : Nat) (d : Array (Option Int)), (wfGoF g fuel d).1 = wfGo g fuel d := by
  intro fuel
  induction fuel with
  | zero => intro d; rfl
  | succ f ih =>
    intro d
    unfold wfGoF wfGo
    split <;> rename_i d' heq
    · exact ih d'
    · rfl

/-- The loop's flag after `fuel + 1` rounds is the flag of the round after `fuel` rounds. -/
theorem wfGoF_snd (hwf : g.WF) (S : List Nat) : ∀ (fuel : Nat) (d : Array (Option Int)),
    (wfGoF g (fuel+1) d).2 = (wRound g (iter (wRound g) fuel d.toList)).2 := by
  have hR := wRound_relax hwf S
  intro fuel
  induction fuel with
  | zero =>
    intro d
    have h2 := wfRound_snd g d
    unfold wfGoF
    split <;> rename_i d' heq <;> rw [heq] at h2 <;> simp only [] at h2
    · rw [iter, ← h2]; rfl
    · rw [iter, ← h2]
  | succ f ih =>
    intro d
    have h1 := wfRound_fst g d
    have h2 := wfRound_snd g d
    rw [wfGoF]
    split <;> rename_i d' heq <;> rw [heq] at h1 h2 <;> simp only [] at h1 h2
    · rw [ih d', iter, h1]
    · obtain ⟨_, ht⟩ := hR.noupd _ h2.symm
      rw [iter_fix hR ht, ← h2]

end rowloop

/-- `wdistFastPair` is `wdistFast` plus a flag. -/
theorem wdistFastPair_fst (g : WGraph) (S : List Nat) : (wdistFastPair g S).1 = wdistFast g S := by
  unfold wdistFastPair wdistFast
  rw [← wfGoF_fst]

/-- **The flag of the fast oracle is the flag of `wdistB`** (every source list). -/
theorem wdistFastFlag_eq {g : WGraph} (hwf : g.WF) (S : List Nat) : wdistFastFlag g S = (wdistB g S).2 := by
  unfold wdistFastFlag wdistFastPair
  show (wfGoF g (g.n + 1) (wfInit g.n S)).2 = _
  rw [wfGoF_snd hwf S, wfInit_toList, wdistB_eq, wRoundsN_eq_iter]

/-- **Flag down: the fast oracle returns the list `wdistB` returns** (every source list). -/
theorem wdistFast_eq {g : WGraph} (hwf : g.WF) (S : List Nat) (hf : (wdistB g S).2 = false) :
    wdistFast g S = (wdistB g S).1 := by
  rw [wdistB_eq, wRoundsN_eq_iter] at hf ⊢
  unfold wdistFast
  rw [wfGo_fix hwf S (g.n + 1) g.n _ (by omega) (by rw [wfInit_toList]; exact hf), wfInit_toList]

end GraafVerif.OracleFastProof
