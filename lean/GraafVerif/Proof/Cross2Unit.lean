import GraafVerif.Proof.Cross2Models
/-!
# `DistanceMatrix` metrics of the Floyd-Warshall matrix on unit weights = BFS hop distances

Links C18 (`eccentricities`, `diameter` of `Model/DistMatrix.lean`) with C04 (`BfsDist::distances`)
through `Cross.bfs_eq_bfm_fw` (row `u` of Floyd-Warshall on `unitWeights g` is the BFS distance
vector from `u`).  `infB` is BFS's sentinel (`usize::MAX`), `inf` the matrix's `infinity`
(`isize::MAX`); both only have to be at least the order.
-/
namespace GraafVerif.Cross2
open GraafVerif GraafVerif.Cross GraafVerif.Johnson GraafVerif.Tarjan

/-- A hop distance from one in-range source is below the order (C04: BFS levels are `< order`). -/
theorem hopDist_lt {g : Graph} (hg : g.WF) {u v k : Nat} (hu : u < g.n) (h : IsHopDist g [u] v k) :
    k < g.n := by
  obtain ⟨out, _, hsp⟩ := C04.bfsDist_correct g hg [u]
    (fun s hs => by rw [List.mem_singleton.mp hs]; exact hu) (by simp)
  have hv := (hsp.mem_iff v).mpr (Bfs.isHopDist_reach h)
  obtain ⟨p, hp, rfl⟩ := List.mem_map.mp hv
  rw [isHopDist_unique h (hsp.exact p hp)]
  exact (hsp.lt p hp).2

/-- On unit weights no distance reaches a sentinel that is at least the order. -/
theorem unit_fits {g : Graph} (hg : g.WF) {inf : Int} (hinf : (g.n : Int) ≤ inf) :
    DistFits inf (unitWeights g) := by
  intro u v d hu _ hmin
  obtain ⟨k, rfl, hk⟩ := isMinDist_unit_nat hmin
  have := hopDist_lt hg hu hk
  omega

theorem unit_wf {g : Graph} (hg : g.WF) (hn : 0 < g.n) {inf : Int} (hinf : (g.n : Int) ≤ inf) :
    DistMatrix.WF (fwDM inf (unitWeights g)) :=
  fwDM_wf (unitWeights_wf hg) (unitWeights_functional g) (nonneg_noNegCycle (unitWeights_nonneg g))
    hn (unit_fits hg hinf)

/-- Row `u` of the `DistanceMatrix` of Floyd-Warshall on unit weights, cell by cell, is the
vector the BFS model's `distances()` returns from `[u]` (sentinel `infB` ↦ `inf`). -/
theorem unit_cell {g : Graph} (hg : g.WF) {infB : Nat} (hinfB : g.n ≤ infB) (inf : Int)
    {u : Nat} (hu : u < g.n) :
    ∃ d, Bfs.distances g [u] infB = .ok d ∧ d.length = g.n ∧
      ∀ v, v < g.n → ∃ k, d[v]? = some k ∧ (k = infB ↔ ¬ Reach g u v) ∧
        DistMatrix.get (fwDM inf (unitWeights g)) u v = .ok ((hopToOpt infB k).getD inf) := by
  obtain ⟨d, hd, _, hrow⟩ := bfs_bfm_fw_agree g hg u hu infB hinfB
  obtain ⟨d', hd', hsp⟩ := C04.distances_correct g hg [u]
    (fun s hs => by rw [List.mem_singleton.mp hs]; exact hu) (by simp) infB hinfB
  rw [hd] at hd'
  injection hd' with hd'
  subst hd'
  refine ⟨d, hd, hsp.len, fun v hv => ?_⟩
  obtain ⟨k, hk⟩ := getElem?_cases d v (by rw [hsp.len]; exact hv)
  refine ⟨k, hk, ?_, ?_⟩
  · rw [← reachFrom_single_iff, ← hsp.inf_iff v hv, hk, Option.some.injEq]
  · have hcell : Fw.get g.n (Fw.distances (unitWeights g)) u v = hopToOpt infB k := by
      have h1 := row_getElem? g.n (Fw.distances (unitWeights g)) u hv
      rw [hrow, List.getElem?_map, hk] at h1
      exact (Option.some.inj h1).symm
    have := fwDM_get (inf := inf) (unitWeights_wf hg) (u := u) (v := v) hu hv
    rw [this]
    show DistMatrix.Res.ok ((Fw.get g.n (Fw.distances (unitWeights g)) u v).getD inf) = _
    rw [hcell]

/-- `eccentricities()[u]` of the Floyd-Warshall matrix of a strongly connected unweighted digraph
is the largest BFS hop distance from `u`: it is attained at some vertex and bounds all entries
of the vector the BFS model returns. -/
theorem unit_ecc_eq_max_hop {g : Graph} (hg : g.WF) (hn : 0 < g.n) {infB : Nat} (hinfB : g.n ≤ infB)
    {inf : Int} (hinf : (g.n : Int) ≤ inf) (hsc : StronglyConnected g) {u : Nat} (hu : u < g.n) :
    ∃ (d : List Nat) (e : Nat), Bfs.distances g [u] infB = .ok d ∧
      (DistMatrix.ecc (fwDM inf (unitWeights g)))[u]? = some (e : Int) ∧
      (∃ v, v < g.n ∧ d[v]? = some e) ∧ (∀ v, v < g.n → ∃ k, d[v]? = some k ∧ k ≤ e) := by
  obtain ⟨d, hd, _, hcell⟩ := unit_cell hg hinfB inf hu
  -- in the strongly connected case every cell is the hop distance itself
  have hfin : ∀ v, v < g.n → ∃ k, d[v]? = some k ∧
      DistMatrix.get (fwDM inf (unitWeights g)) u v = .ok (k : Int) := by
    intro v hv
    obtain ⟨k, hk, hinfk, hget⟩ := hcell v hv
    have hne : k ≠ infB := fun h => hinfk.mp h (hsc u v hu hv)
    refine ⟨k, hk, ?_⟩
    rw [hget, (hopToOpt_some (inf := infB) (k := k) (x := (k : Int))).mpr ⟨hne, rfl⟩]
    rfl
  obtain ⟨hlen, hecc⟩ := C18.ecc_spec _ (unit_wf hg hn hinf)
  obtain ⟨e', he', ⟨v0, hv0, hat⟩, hle⟩ := hecc u hu
  obtain ⟨k0, hk0, hget0⟩ := hfin v0 hv0
  rw [hget0] at hat
  injection hat with hat
  subst hat
  refine ⟨d, k0, hd, he', ⟨v0, hv0, hk0⟩, fun v hv => ?_⟩
  obtain ⟨k, hk, hget⟩ := hfin v hv
  obtain ⟨x, hx, hxle⟩ := hle v hv
  rw [hget] at hx
  injection hx with hx
  subst hx
  exact ⟨k, hk, by omega⟩

/-- The same in declarative terms: `eccentricities()[u]` is the largest hop distance from `u`. -/
theorem unit_ecc_is_max_hopDist {g : Graph} (hg : g.WF) (hn : 0 < g.n)
    {inf : Int} (hinf : (g.n : Int) ≤ inf) (hsc : StronglyConnected g) {u : Nat} (hu : u < g.n) :
    ∃ e : Nat, (DistMatrix.ecc (fwDM inf (unitWeights g)))[u]? = some (e : Int) ∧
      (∃ v, v < g.n ∧ IsHopDist g [u] v e) ∧
      (∀ v k, v < g.n → IsHopDist g [u] v k → k ≤ e) := by
  obtain ⟨d, e, hd, he, ⟨v0, hv0, hat⟩, hle⟩ :=
    unit_ecc_eq_max_hop hg hn (Nat.le_refl g.n) hinf hsc hu
  obtain ⟨d', hd', hsp⟩ := C04.distances_correct g hg [u]
    (fun s hs => by rw [List.mem_singleton.mp hs]; exact hu) (by simp) g.n (Nat.le_refl _)
  rw [hd] at hd'
  injection hd' with hd'
  subst hd'
  refine ⟨e, he, ⟨v0, hv0, ?_⟩, fun v k hv hk => ?_⟩
  · obtain ⟨k, hk⟩ := reachFrom_hopDist (reachFrom_single_iff.mpr (hsc u v0 hu hv0))
    have := hsp.dist v0 k hk
    rw [hat] at this
    rw [Option.some.inj this]
    exact hk
  · obtain ⟨k', hk', hle'⟩ := hle v hv
    have := hsp.dist v k hk
    rw [hk'] at this
    rw [← Option.some.inj this]
    exact hle'

/-- `diameter()` of the Floyd-Warshall matrix of a strongly connected unweighted digraph is the
largest BFS hop distance over all sources: attained by some entry of some BFS distance vector,
and bounding every entry of every one. -/
theorem unit_diameter_eq_max_hop {g : Graph} (hg : g.WF) (hn : 0 < g.n) {infB : Nat}
    (hinfB : g.n ≤ infB) {inf : Int} (hinf : (g.n : Int) ≤ inf) (hsc : StronglyConnected g) :
    ∃ D : Nat, DistMatrix.diameter (fwDM inf (unitWeights g)) = (D : Int) ∧
      (∃ u v d, u < g.n ∧ v < g.n ∧ Bfs.distances g [u] infB = .ok d ∧ d[v]? = some D) ∧
      (∀ u v d, u < g.n → v < g.n → Bfs.distances g [u] infB = .ok d →
        ∃ k, d[v]? = some k ∧ k ≤ D) := by
  obtain ⟨⟨u0, hu0, hat⟩, hmax⟩ := C18.diameter_spec _ (unit_wf hg hn hinf)
  have hu0' : u0 < g.n := hu0
  obtain ⟨d0, e0, hd0, he0, ⟨v0, hv0, hat0⟩, _⟩ := unit_ecc_eq_max_hop hg hn hinfB hinf hsc hu0'
  rw [he0] at hat
  have hD : DistMatrix.diameter (fwDM inf (unitWeights g)) = (e0 : Int) := (Option.some.inj hat).symm
  refine ⟨e0, hD, ⟨u0, v0, d0, hu0', hv0, hd0, hat0⟩, fun u v d hu hv hd => ?_⟩
  obtain ⟨d', e, hd', he, _, hle⟩ := unit_ecc_eq_max_hop hg hn hinfB hinf hsc hu
  rw [hd] at hd'
  injection hd' with hd'
  subst hd'
  obtain ⟨k, hk, hke⟩ := hle v hv
  have := hmax (e : Int) (List.mem_of_getElem? he)
  rw [hD] at this
  exact ⟨k, hk, by omega⟩

/-- The Floyd-Warshall matrix of an unweighted digraph is `is_connected()` iff the Tarjan model
returns one component iff the BFS model from every vertex yields every vertex. -/
theorem unit_isConnected_iff {g : Graph} (hg : g.WF) (hn : 0 < g.n) {inf : Int}
    (hinf : (g.n : Int) ≤ inf) :
    (DistMatrix.isConnected (fwDM inf (unitWeights g)) = true ↔
      components (vgOf g) = .ret [List.range g.n]) ∧
    (DistMatrix.isConnected (fwDM inf (unitWeights g)) = true ↔ StronglyConnected g) := by
  have h := fw_isConnected_iff_sc (unitWeights_wf hg) (unitWeights_functional g)
    (nonneg_noNegCycle (unitWeights_nonneg g)) hn (unit_fits hg hinf)
  rw [unitWeights_toGraph] at h
  exact ⟨h.trans (sc_iff_tarjan_one hg hn), h⟩

/-- Without any connectivity hypothesis: `eccentricities()[u]` is the maximum of the BFS distance
vector from `u` read with the matrix's sentinel (`infB ↦ inf`). -/
theorem unit_ecc_general {g : Graph} (hg : g.WF) (hn : 0 < g.n) {infB : Nat} (hinfB : g.n ≤ infB)
    {inf : Int} (hinf : (g.n : Int) ≤ inf) {u : Nat} (hu : u < g.n) :
    ∃ (d : List Nat) (e : Int), Bfs.distances g [u] infB = .ok d ∧
      (DistMatrix.ecc (fwDM inf (unitWeights g)))[u]? = some e ∧
      (∃ v k, v < g.n ∧ d[v]? = some k ∧ e = (hopToOpt infB k).getD inf) ∧
      (∀ v, v < g.n → ∃ k, d[v]? = some k ∧ (hopToOpt infB k).getD inf ≤ e) := by
  obtain ⟨d, hd, _, hcell⟩ := unit_cell hg hinfB inf hu
  obtain ⟨_, hecc⟩ := C18.ecc_spec _ (unit_wf hg hn hinf)
  obtain ⟨e, he, ⟨v0, hv0, hat⟩, hle⟩ := hecc u hu
  refine ⟨d, e, hd, he, ?_, fun v hv => ?_⟩
  · obtain ⟨k, hk, _, hget⟩ := hcell v0 hv0
    rw [hget] at hat
    injection hat with hat
    exact ⟨v0, k, hv0, hk, hat.symm⟩
  · obtain ⟨k, hk, _, hget⟩ := hcell v hv
    obtain ⟨x, hx, hxe⟩ := hle v hv
    rw [hget] at hx
    injection hx with hx
    exact ⟨k, hk, by rw [hx]; exact hxe⟩

/-- `periphery()` of the Floyd-Warshall matrix of a strongly connected unweighted digraph: the
vertices from which some vertex is at hop distance exactly `diameter()`. -/
theorem unit_periphery_iff {g : Graph} (hg : g.WF) (hn : 0 < g.n) {inf : Int}
    (hinf : (g.n : Int) ≤ inf) (hsc : StronglyConnected g) {u : Nat} (hu : u < g.n) :
    ∃ D : Nat, DistMatrix.diameter (fwDM inf (unitWeights g)) = (D : Int) ∧
      (u ∈ DistMatrix.periphery (fwDM inf (unitWeights g)) ↔ ∃ v, v < g.n ∧ IsHopDist g [u] v D) := by
  have hw := unit_wf hg hn hinf
  obtain ⟨⟨u0, hu0, hat⟩, hmax⟩ := C18.diameter_spec _ hw
  have hu0' : u0 < g.n := hu0
  obtain ⟨e0, he0, _, _⟩ := unit_ecc_is_max_hopDist hg hn hinf hsc hu0'
  rw [he0] at hat
  have hD : DistMatrix.diameter (fwDM inf (unitWeights g)) = (e0 : Int) := (Option.some.inj hat).symm
  obtain ⟨e, he, ⟨v1, hv1, hat1⟩, hle⟩ := unit_ecc_is_max_hopDist hg hn hinf hsc hu
  have heD : e ≤ e0 := by
    have := hmax (e : Int) (List.mem_of_getElem? he)
    rw [hD] at this
    omega
  refine ⟨e0, hD, ?_⟩
  rw [(C18.periphery_spec _ hw).2 u, hD, he, Option.some.injEq]
  constructor
  · intro h
    have : e = e0 := by omega
    exact ⟨v1, hv1, this ▸ hat1⟩
  · rintro ⟨v, hv, hvD⟩
    have := hle v e0 hv hvD
    have : e = e0 := by omega
    rw [this]

/-- `e` is the hop eccentricity of `u`: the largest hop distance from `u` to a vertex. -/
def IsHopEcc (g : Graph) (u e : Nat) : Prop :=
  (∃ v, v < g.n ∧ IsHopDist g [u] v e) ∧ ∀ v k, v < g.n → IsHopDist g [u] v k → k ≤ e

theorem isHopEcc_unique {g : Graph} {u e e' : Nat} (h : IsHopEcc g u e) (h' : IsHopEcc g u e') :
    e = e' := by
  obtain ⟨⟨v, hv, hd⟩, hmax⟩ := h
  obtain ⟨⟨v', hv', hd'⟩, hmax'⟩ := h'
  have := hmax v' e' hv' hd'
  have := hmax' v e hv hd
  omega

/-- `center()` of the Floyd-Warshall matrix of a strongly connected unweighted digraph: the
vertices of minimum hop eccentricity. -/
theorem unit_center_iff {g : Graph} (hg : g.WF) (hn : 0 < g.n) {inf : Int}
    (hinf : (g.n : Int) ≤ inf) (hsc : StronglyConnected g) {u : Nat} (hu : u < g.n) :
    u ∈ DistMatrix.center (fwDM inf (unitWeights g)) ↔
      ∃ e, IsHopEcc g u e ∧ ∀ u' e', u' < g.n → IsHopEcc g u' e' → e ≤ e' := by
  have hw := unit_wf hg hn hinf
  have hecc : ∀ {x : Nat}, x < g.n → ∃ e : Nat,
      (DistMatrix.ecc (fwDM inf (unitWeights g)))[x]? = some (e : Int) ∧ IsHopEcc g x e := by
    intro x hx
    obtain ⟨e, he, h1, h2⟩ := unit_ecc_is_max_hopDist hg hn hinf hsc hx
    exact ⟨e, he, h1, h2⟩
  obtain ⟨eu, heu, hEu⟩ := hecc hu
  rw [(C18.center_spec _ hw).2 u]
  constructor
  · rintro ⟨e0, he0, hmin⟩
    rw [heu] at he0
    have he0' : (eu : Int) = e0 := Option.some.inj he0
    refine ⟨eu, hEu, fun u' e' hu' hE' => ?_⟩
    obtain ⟨e'', he'', hE''⟩ := hecc hu'
    have := hmin (e'' : Int) (List.mem_of_getElem? he'')
    rw [isHopEcc_unique hE' hE'']
    omega
  · rintro ⟨e, hE, hmin⟩
    have hee : e = eu := isHopEcc_unique hE hEu
    subst hee
    refine ⟨(e : Int), heu, fun x hx => ?_⟩
    obtain ⟨i, hi, hxi⟩ := List.getElem_of_mem hx
    have hlen : (DistMatrix.ecc (fwDM inf (unitWeights g))).length = g.n := (C18.ecc_spec _ hw).1
    have hi' : i < g.n := by rw [← hlen]; exact hi
    obtain ⟨ei, hei, hEi⟩ := hecc hi'
    rw [List.getElem?_eq_getElem hi, hxi] at hei
    have := hmin i ei hi' hEi
    have hx' : x = (ei : Int) := Option.some.inj hei
    omega

end GraafVerif.Cross2
