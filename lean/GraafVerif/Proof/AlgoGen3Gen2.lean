import GraafVerif.Proof.AlgoGen3Gen
import GraafVerif.Proof.RandAgree
/-! `AlgoGen` set 3, generators, part 2: `random_recursive_tree` and `erdos_renyi` of `AdjacencyMatrix`
(generated from `src/repr/adjacency_matrix/mod.rs`) against `Rand.rrtMX` / `Rand.erMX`. -/
set_option linter.unusedSimpArgs false
namespace GraafVerif.AlgoGenThm
open GraafVerif GraafVerif.AlgoGen GraafVerif.Repr
open Xoshiro256StarStar (ofX)

theorem zipIdx_range' (a k b : Nat) :
    (List.range' a k).zipIdx b = (List.range' a k).map (fun u => (u, u - a + b)) := by
  induction k generalizing a b with
  | zero => rfl
  | succ k ih =>
    rw [List.range'_succ, List.zipIdx_cons, List.map_cons, ih]
    congr 1
    · simp
    · apply List.map_congr_left
      intro u hu
      have := (List.mem_range'_1.1 hu).1
      congr 1
      omega

theorem foldlM_congr_mem {σ α : Type} (l : List α) (f g : σ → α → Option σ)
    (h : ∀ s a, a ∈ l → f s a = g s a) : ∀ s, l.foldlM f s = l.foldlM g s := by
  induction l with
  | nil => intro s; rfl
  | cons a l ih =>
    intro s
    rw [List.foldlM_cons, List.foldlM_cons, h s a List.mem_cons_self]
    cases g s a with
    | none => rfl
    | some s' => exact ih (fun s b hb => h s b (List.mem_cons_of_mem _ hb)) s'

namespace AdjacencyMatrix

/-! ## `random_recursive_tree` -/

/-- vertex `u`: a draw `w`, then `add_arc(u, w % u)` (`% 0` panics) -/
def rstep (g : AdjMatrix) (u : Nat) (w : UInt64) : Option AdjMatrix :=
  if u = 0 then none else g.addArc u (w.toNat % u)

theorem randomRecursiveTree_for0_eq (g : AdjMatrix) (x : Rand.Xo) (u : Nat) :
    (AlgoGen.AdjacencyMatrix.randomRecursiveTree_for0 (g, ofX x) u : Blk _ AdjMatrix _) =
      optS x.next.2 (rstep g u x.next.1) := by
  unfold AlgoGen.AdjacencyMatrix.randomRecursiveTree_for0 rstep modP
  simp only [Xoshiro256StarStar.next_eq, call_ok, ok_bind]
  by_cases hu : u = 0
  · simp only [hu, if_true]; rfl
  · simp only [hu, if_false, ok_bind]
    cases g.addArc u ((Rand.Xo.next x).1.toNat % u) <;> rfl

/-- `AdjacencyMatrix::random_recursive_tree(order, seed)` = the hand-written `rrtMX` on the stream of
`Xoshiro256StarStar::new(seed)`, for every order and seed (`zip(rng)` never runs dry: no `break`). -/
theorem randomRecursiveTree_eq (n : Nat) (seed : UInt64) :
    AlgoGen.AdjacencyMatrix.randomRecursiveTree n seed = optR (Rand.rrtMX (Rand.xoStream seed) n) := by
  unfold AlgoGen.AdjacencyMatrix.randomRecursiveTree Rand.rrtMX
  by_cases h1 : n = 1
  · subst h1; rfl
  · simp only [h1, if_false]
    cases he : AdjMatrix.empty n with
    | none => rfl
    | some e =>
      simp only [optP, ok_bind, Xoshiro256StarStar.new_eq, call_ok, Option.bind_eq_bind, Option.bind_some]
      rw [forLoop_draws (β := Empty) (fun _ => True) (AlgoGen.range 1 n) _ rstep
        (fun g u x _ _ => randomRecursiveTree_for0_eq g x u) (fun _ _ _ _ _ _ _ => trivial)
        (AlgoGen.range 1 n) e _ (fun _ h => h) trivial, draws_new]
      have hfold : (AlgoGen.range 1 n).zipIdx.foldlM (fun s ai => rstep s ai.1 (Rand.xoStream seed ai.2)) e =
          (Rand.rrtParents (Rand.xoStream seed) n).foldlM (fun g a => g.addArc a.1 a.2) e := by
        unfold Rand.rrtParents AlgoGen.range
        rw [zipIdx_range', List.foldlM_map, List.foldlM_map]
        apply foldlM_congr_mem
        intro g u hu
        have := (List.mem_range'_1.1 hu).1
        have hu0 : u ≠ 0 := by omega
        simp [rstep, hu0]
      rw [hfold]
      cases (Rand.rrtParents (Rand.xoStream seed) n).foldlM (fun g a => g.addArc a.1 a.2) e <;> rfl

/-! ## `erdos_renyi` -/

/-- candidate `v` of row `u`: a draw `w`, then `add_arc(u, v)` iff `next_f64() < p` -/
def estep (p : Rand.F64) (g : AdjMatrix) (a : Nat × Nat) (w : UInt64) : Option AdjMatrix :=
  if Rand.f64lt w p then g.addArc a.1 a.2 else some g

/-- the translator's comparison on the mantissa = the hand-written comparison on the draw -/
theorem f64ltM_mant (w : UInt64) (p : Rand.F64) : f64ltM (Rand.mant w) p = Rand.f64lt w p := by
  cases p <;> rfl

theorem erdosRenyi_for1_eq (p : Rand.F64) (u : Nat) (g : AdjMatrix) (x : Rand.Xo) (v : Nat) :
    (AlgoGen.AdjacencyMatrix.erdosRenyi_for1 p u (g, ofX x) v : Blk _ AdjMatrix _) =
      optS x.next.2 (estep p g (u, v) x.next.1) := by
  unfold AlgoGen.AdjacencyMatrix.erdosRenyi_for1 estep
  simp only [Xoshiro256StarStar.nextF64_eq, call_ok, ok_bind, f64ltM_mant]
  by_cases hb : Rand.f64lt (Rand.Xo.next x).1 p = true
  · simp only [hb, if_true]
    cases g.addArc u v <;> rfl
  · simp only [hb, if_false, Bool.false_eq_true]
    rfl

/-- the body of the inner loop never leaves through `break` / `return` -/
theorem erdosRenyi_for1_exits (p : Rand.F64) (u : Nat) (s : AdjMatrix × AlgoGen.Xoshiro256StarStar) (v : Nat) :
    (∃ s', AlgoGen.AdjacencyMatrix.erdosRenyi_for1 p u s v = (.ok s' : Blk _ AdjMatrix _)) ∨
      (∃ e, AlgoGen.AdjacencyMatrix.erdosRenyi_for1 p u s v = (.error (.err e) : Blk _ AdjMatrix _)) := by
  unfold AlgoGen.AdjacencyMatrix.erdosRenyi_for1
  cases hc : AlgoGen.Xoshiro256StarStar.nextF64 s.2 with
  | error e => exact Or.inr ⟨e, by simp [hc]⟩
  | ok r =>
    by_cases hb : f64ltM r.1 p = true
    · cases ha : s.1.addArc u v with
      | none => exact Or.inr ⟨.fault .panic, by simp [hc, hb, ha, optP, panic_def]⟩
      | some g' => exact Or.inl ⟨(g', r.2), by simp [hc, hb, ha, optP]⟩
    · exact Or.inl ⟨(s.1, r.2), by simp [hc, hb]⟩

/-- a fold that acts only on the iterations selected by their index = the fold over the selected ones -/
theorem foldlM_cond_filter {σ α : Type} (c : Nat → Bool) (st : σ → α → Option σ) (M : List (α × Nat)) :
    ∀ g, M.foldlM (fun s ai => if c ai.2 then st s ai.1 else some s) g =
      ((M.filter fun ai => c ai.2).map (·.1)).foldlM st g := by
  induction M with
  | nil => intro g; rfl
  | cons a M ih =>
    intro g
    rw [List.foldlM_cons, List.filter_cons]
    by_cases hc : c a.2 = true
    · simp only [hc, if_true, List.map_cons, List.foldlM_cons]
      cases st g a.1 with
      | none => rfl
      | some g' => exact ih g'
    · simp only [hc, if_false, Bool.false_eq_true, Option.bind_eq_bind, Option.bind_some]
      exact ih g

theorem row_zip (C : Nat × Nat → Bool) (a : Nat) (c : List Nat) :
    ∀ b, ((((c.map fun v => (a, v)).zipIdx b).filter fun vi => C (vi.1.2, vi.2)).map (·.1)) =
      (((c.zipIdx b).filter C).map (·.1)).map fun v => (a, v) := by
  induction c with
  | nil => intro b; rfl
  | cons v c ih =>
    intro b
    simp only [List.map_cons, List.zipIdx_cons, List.filter_cons]
    by_cases hc : C (v, b) = true
    · simp only [hc, if_true, List.map_cons, ih]
    · simp only [hc, if_false, Bool.false_eq_true, ih]

/-- the selected candidates of the flattened nested loops, row by row: row `u` starts at draw
`b + (u - a)·m` when every row has `m` candidates -/
theorem rows_zip (s : Rand.Stream) (p : Rand.F64) (cs : Nat → List Nat) (m : Nat) :
    ∀ (k a b : Nat), (∀ u, a ≤ u → u < a + k → (cs u).length = m) →
      (((((List.range' a k).flatMap fun u => (cs u).map fun v => (u, v)).zipIdx b).filter
          fun ai => Rand.f64lt (s ai.2) p).map (·.1)) =
        (List.range' a k).flatMap fun u => (Rand.erRow s p (b + (u - a) * m) (cs u)).map fun v => (u, v) := by
  intro k
  induction k with
  | zero => intro a b _; rfl
  | succ k ih =>
    intro a b hlen
    rw [List.range'_succ, List.flatMap_cons, List.flatMap_cons, List.zipIdx_append, List.filter_append,
      List.map_append]
    congr 1
    · rw [row_zip (fun vi => Rand.f64lt (s vi.2) p) a (cs a) b]
      simp [Rand.erRow]
    · rw [List.length_map, hlen a (Nat.le_refl _) (by omega), ih (a + 1) (b + m) (fun u h1 h2 => hlen u (by omega) (by omega))]
      rw [List.flatMap_def, List.flatMap_def]
      congr 1
      apply List.map_congr_left
      intro u hu
      have h1 := (List.mem_range'_1.1 hu).1
      obtain ⟨d, rfl⟩ : ∃ d, u = a + 1 + d := ⟨u - (a + 1), by omega⟩
      have e1 : a + 1 + d - (a + 1) = d := by omega
      have e2 : a + 1 + d - a = d + 1 := by omega
      rw [e1, e2, Nat.succ_mul]
      congr 2
      omega

theorem othersFilter_length (n u : Nat) (hu : u < n) : (Rand.othersFilter n u).length = n - 1 := by
  rw [← Rand.othersChain_eq_filter n u hu]
  unfold Rand.othersChain
  simp
  omega

/-- the two nested loops = the hand-written `erArcs` with the draws of the PRNG -/
theorem erdosRenyi_for0_eq (n : Nat) (p : Rand.F64) (g : AdjMatrix) (x : Rand.Xo) :
    ∃ k, (forLoop (AlgoGen.AdjacencyMatrix.erdosRenyi_for0 n p) (List.range n) (g, ofX x) : Blk Empty AdjMatrix _) =
      optS (x.iter k) ((Rand.erArcs (draws x) p n Rand.othersFilter).foldlM (fun g a => g.addArc a.1 a.2) g) := by
  refine ⟨((List.range n).flatMap fun u => (Rand.othersFilter n u).map fun v => (u, v)).length, ?_⟩
  have hflat := forLoop_flat (β := Empty) (AlgoGen.AdjacencyMatrix.erdosRenyi_for0 n p)
    (fun u => AlgoGen.AdjacencyMatrix.erdosRenyi_for1 p u) (fun u => Rand.othersFilter n u)
    (fun s u => by unfold AlgoGen.AdjacencyMatrix.erdosRenyi_for0; exact bind_pair_eta _)
    (erdosRenyi_for1_exits p) (List.range n) (g, ofX x)
  rw [hflat]
  rw [forLoop_draws (β := Empty) (fun _ => True) _ _ (estep p)
    (fun g a x _ _ => erdosRenyi_for1_eq p a.1 g x a.2) (fun _ _ _ _ _ _ _ => trivial)
    _ g x (fun _ h => h) trivial]
  congr 1
  have h1 := foldlM_cond_filter (fun i => Rand.f64lt (draws x i) p) (fun (g : AdjMatrix) (a : Nat × Nat) => g.addArc a.1 a.2)
    (((List.range n).flatMap fun u => (Rand.othersFilter n u).map fun v => (u, v)).zipIdx) g
  unfold estep
  rw [h1]
  congr 1
  rw [List.range_eq_range']
  rw [rows_zip (draws x) p (Rand.othersFilter n) (n - 1) n 0 0
    (fun u _ h => othersFilter_length n u (by omega))]
  unfold Rand.erArcs
  rw [List.range_eq_range']
  simp

/-- `AdjacencyMatrix::erdos_renyi(order, p, seed)` = the hand-written `erMX` on the stream of
`Xoshiro256StarStar::new(seed)`, for every order, every `f64` value `p` and every seed.
TRUSTED reading (see `Model/AlgoGenRt3.lean`): `rng.next_f64() < p` is `f64ltM (mantissa) p`. -/
theorem erdosRenyi_eq (n : Nat) (p : Rand.F64) (seed : UInt64) :
    AlgoGen.AdjacencyMatrix.erdosRenyi n p seed = optR (Rand.erMX (Rand.xoStream seed) n p) := by
  unfold AlgoGen.AdjacencyMatrix.erdosRenyi Rand.erMX
  by_cases hp : p.inUnit = true
  · simp only [hp, assert_true, ok_bind, Bool.not_true, Bool.false_eq_true, if_false]
    by_cases h1 : n = 1
    · subst h1; rfl
    · simp only [h1, if_false]
      cases he : AdjMatrix.empty n with
      | none => rfl
      | some e =>
        obtain ⟨k, hk⟩ := erdosRenyi_for0_eq n p e (Rand.Xo.new seed)
        simp only [optP, ok_bind, Xoshiro256StarStar.new_eq, call_ok, hk, draws_new,
          Option.bind_eq_bind, Option.bind_some]
        cases (Rand.erArcs (Rand.xoStream seed) p n Rand.othersFilter).foldlM (fun g a => g.addArc a.1 a.2) e <;> rfl
  · have hp' : p.inUnit = false := by simpa using hp
    simp only [hp', assert_false, Bool.not_false, if_true]
    rfl

end AdjacencyMatrix
end GraafVerif.AlgoGenThm
