import GraafVerif.Proof.GenArcRepr
import GraafVerif.Proof.GenAL
/-!
# `ArcRepr` instances: AdjacencyList, EdgeList (`empty` and `add_arc` specifications)

(AdjacencyMatrix: `GenAddArcMX`; AdjacencyMap and the weighted list: `GenAddArcMap`.)
-/
namespace GraafVerif.Gen
open GraafVerif.Repr

/-! ## AdjacencyList -/
namespace AL

theorem addArc_spec (d : AdjList) (u v : Nat) (hwf : d.WF) (huv : u ≠ v)
    (hu : u < d.order) (hv : v < d.order) :
    ∃ d', d.addArc u v = some d' ∧ d'.WF ∧ d'.order = d.order ∧
      ∀ a b, (a, b) ∈ d'.arcs ↔ (a, b) ∈ d.arcs ∨ (a = u ∧ b = v) := by
  have hnu : ¬ ¬ u < d.order := by omega
  have hnv : ¬ ¬ v < d.order := by omega
  have hul : u < d.rows.length := hu
  obtain ⟨old, hold⟩ : ∃ old, d.rows[u]? = some old := ⟨d.rows[u], List.getElem?_eq_getElem hul⟩
  refine ⟨⟨d.rows.set u (sinsert v old)⟩, by simp [AdjList.addArc, huv, hu, hv, hold], ?_⟩
  have hord : (⟨d.rows.set u (sinsert v old)⟩ : AdjList).order = d.order := by simp [AdjList.order]
  have hget : ∀ a, (d.rows.set u (sinsert v old))[a]? =
      if u = a then some (sinsert v old) else d.rows[a]? := by
    intro a; rw [List.getElem?_set]; split
    · simp
    · rfl
  refine ⟨⟨by rw [hord]; exact hwf.1, ?_⟩, hord, ?_⟩
  · intro a row hrow
    rw [hord]
    rw [show (⟨d.rows.set u (sinsert v old)⟩ : AdjList).rows = d.rows.set u (sinsert v old) from rfl, hget] at hrow
    split at hrow
    · rename_i hua; subst hua
      have := Option.some.inj hrow; subst this
      have hold' := hwf.2 u old hold
      refine ⟨sorted_sinsert hold'.1, ?_⟩
      intro w hw
      rcases mem_sinsert.mp hw with rfl | hw
      · exact ⟨hv, fun e => huv e.symm⟩
      · exact hold'.2 w hw
    · exact hwf.2 a row hrow
  · intro a b
    rw [mem_arcs, mem_arcs]
    rw [show (⟨d.rows.set u (sinsert v old)⟩ : AdjList).rows = d.rows.set u (sinsert v old) from rfl, hget]
    constructor
    · rintro ⟨row, hrow, hb⟩
      split at hrow
      · rename_i hua; subst hua
        have := Option.some.inj hrow; subst this
        rcases mem_sinsert.mp hb with rfl | hb
        · exact Or.inr ⟨rfl, rfl⟩
        · exact Or.inl ⟨old, hold, hb⟩
      · exact Or.inl ⟨row, hrow, hb⟩
    · rintro (⟨row, hrow, hb⟩ | ⟨rfl, rfl⟩)
      · by_cases hua : u = a
        · subst hua
          rw [hold] at hrow; have := Option.some.inj hrow; subst this
          exact ⟨sinsert v old, by simp, mem_sinsert.mpr (Or.inr hb)⟩
        · exact ⟨row, by simp [hua, hrow], hb⟩
      · exact ⟨sinsert b old, by simp, mem_sinsert.mpr (Or.inl rfl)⟩

def repr : ArcRepr AdjList where
  order := AdjList.order
  has := fun d u v => (u, v) ∈ d.arcs
  WF := AdjList.WF
  addArc := AdjList.addArc
  addArc_spec := addArc_spec

theorem empty_repr {n : Nat} (hn : 1 ≤ n) :
    ∃ e, AdjList.empty n = some e ∧ e.WF ∧ e.order = n ∧ ∀ u v, (u, v) ∉ e.arcs := by
  obtain ⟨d, hd, hwf, ho, harcs⟩ := empty_spec hn
  exact ⟨d, hd, hwf, ho, fun u v h => (harcs u v).mp h⟩

/-- arcs of a well-formed list join distinct vertices of `0..order` -/
theorem arcs_valid {d : AdjList} (hwf : d.WF) : ArcsValid d.order d.arcs := by
  intro a ha
  obtain ⟨row, hrow, hv⟩ := mem_arcs.mp (show (a.1, a.2) ∈ d.arcs from ha)
  have hu : a.1 < d.order := by
    have := List.getElem?_eq_some_iff.mp hrow
    obtain ⟨hlt, _⟩ := this; exact hlt
  have := (hwf.2 a.1 row hrow).2 a.2 hv
  exact ⟨fun e => this.2 e.symm, hu, this.1⟩

end AL

/-! ## EdgeList -/
namespace EL

theorem addArc_spec (d : EdgeList) (u v : Nat) (hwf : d.WF) (huv : u ≠ v)
    (hu : u < d.order) (hv : v < d.order) :
    ∃ d', d.addArc u v = some d' ∧ d'.WF ∧ d'.order = d.order ∧
      ∀ a b, (a, b) ∈ d'.arcs ↔ (a, b) ∈ d.arcs ∨ (a = u ∧ b = v) := by
  refine ⟨⟨pinsert (u, v) d.arcs, d.order⟩, by simp [EdgeList.addArc, huv, hu, hv], ?_, rfl, ?_⟩
  · refine ⟨hwf.1, sorted_pinsert hwf.2.1, ?_⟩
    intro a ha
    rcases mem_pinsert.mp ha with rfl | ha
    · exact ⟨hu, hv, huv⟩
    · exact hwf.2.2 a ha
  · intro a b
    show (a, b) ∈ pinsert (u, v) d.arcs ↔ _
    rw [mem_pinsert]
    constructor
    · rintro (h | h)
      · right; simpa using h
      · exact Or.inl h
    · rintro (h | ⟨rfl, rfl⟩)
      · exact Or.inr h
      · exact Or.inl rfl

def repr : ArcRepr EdgeList where
  order := EdgeList.order
  has := fun d u v => (u, v) ∈ d.arcs
  WF := EdgeList.WF
  addArc := EdgeList.addArc
  addArc_spec := addArc_spec

theorem empty_repr {n : Nat} (hn : 1 ≤ n) :
    ∃ e, EdgeList.empty n = some e ∧ e.WF ∧ e.order = n ∧ ∀ u v, (u, v) ∉ e.arcs := by
  have h0 : n ≠ 0 := by omega
  refine ⟨⟨[], n⟩, by simp [EdgeList.empty, h0], ⟨by show 0 < n; omega, by simp, by simp⟩, rfl, by simp⟩

theorem arcs_valid {d : EdgeList} (hwf : d.WF) : ArcsValid d.order d.arcs := by
  intro a ha
  have := hwf.2.2 a ha
  exact ⟨this.2.2, this.1, this.2.1⟩

end EL
end GraafVerif.Gen
