import GraafVerif.Proof.RandMatrix
/-! `AdjacencyMap`: `collect::<BTreeMap>` of ascending keys, lookups, what `has_arc` shows. -/
namespace GraafVerif.Rand
open GraafVerif.Repr

theorem mupsert_append_last {X : Type} (k : Nat) (x : X) (acc : List (Nat × X)) (h : ∀ e ∈ acc, e.1 < k) :
    mupsert k x (fun _ => x) acc = acc ++ [(k, x)] := by
  induction acc with
  | nil => rfl
  | cons e es ih =>
    have he := h e (by simp)
    obtain ⟨k', x'⟩ := e
    simp only at he
    have h1 : ¬ k < k' := by omega
    have h2 : ¬ k = k' := by omega
    simp only [mupsert, h1, h2, if_false, List.cons_append, ih (fun e he => h e (List.mem_cons_of_mem _ he))]

theorem collectMap_aux {X : Type} (l acc : List (Nat × X)) (hs : SortedK l) (h : ∀ e ∈ acc, ∀ f ∈ l, e.1 < f.1) :
    l.foldl (fun m kv => mupsert kv.1 kv.2 (fun _ => kv.2) m) acc = acc ++ l := by
  induction l generalizing acc with
  | nil => simp
  | cons a as ih =>
    have hs' := List.pairwise_cons.1 hs
    simp only [List.foldl_cons]
    rw [mupsert_append_last _ _ _ (fun e he => h e he a (by simp))]
    rw [ih _ hs'.2]
    · simp
    · intro e he f hf
      rcases List.mem_append.1 he with he | he
      · exact h e he f (List.mem_cons_of_mem _ hf)
      · simp at he; subst he; exact hs'.1 f hf

theorem collectMap_sorted {X : Type} (l : List (Nat × X)) (hs : SortedK l) : collectMap l = l := by
  unfold collectMap
  rw [collectMap_aux l [] hs (by simp)]; simp

theorem mget_mem {X : Type} (u : Nat) (x : X) (l : List (Nat × X)) (h : mget u l = some x) : (u, x) ∈ l := by
  induction l with
  | nil => simp [mget] at h
  | cons e es ih =>
    obtain ⟨k, y⟩ := e
    unfold mget at h
    split at h
    · simp at h; subst_vars; simp
    · split at h
      · simp at h
      · exact List.mem_cons_of_mem _ (ih h)

theorem mget_of_mem {X : Type} (u : Nat) (x : X) (l : List (Nat × X)) (hs : SortedK l) (h : (u, x) ∈ l) :
    mget u l = some x := by
  induction l with
  | nil => simp at h
  | cons e es ih =>
    obtain ⟨k, y⟩ := e
    have hs' := List.pairwise_cons.1 hs
    unfold mget
    rcases List.mem_cons.1 h with h | h
    · have := Prod.mk.inj h; simp [this.1, this.2]
    · have hlt := hs'.1 _ h
      simp only at hlt
      have h1 : ¬ u = k := by omega
      have h2 : ¬ u < k := by omega
      simp only [h1, h2, if_false]
      exact ih hs'.2 h

theorem AdjMap.hasArc_iff (g : AdjMap) (u v : Nat) :
    g.hasArc u v = true ↔ ∃ row, mget u g.rows = some row ∧ v ∈ row := by
  unfold AdjMap.hasArc
  cases h : mget u g.rows with
  | none => simp
  | some row => simp

theorem sortedK_of_keys {X : Type} (n : Nat) (l : List (Nat × X)) (h : l.map (·.1) = List.range n) : SortedK l := by
  unfold SortedK
  have : List.Pairwise (· < ·) (l.map (·.1)) := by rw [h]; exact List.pairwise_lt_range
  exact (List.pairwise_map.1 this)

/-- a map whose keys are `0..n`, collected from a list -/
theorem realizes_collectMap (n : Nat) (l : List (Nat × List Nat)) (hk : l.map (·.1) = List.range n) :
    Realizes (viewAM ⟨collectMap l⟩) n (l.flatMap fun ur => ur.2.map fun v => (ur.1, v)) := by
  have hs := sortedK_of_keys n l hk
  rw [collectMap_sorted l hs]
  refine ⟨?_, hk, fun u v => ?_⟩
  · have := congrArg List.length hk; simpa [viewAM, AdjMap.order] using this
  · simp only [viewAM, AdjMap.hasArc_iff, List.mem_flatMap, List.mem_map, Prod.mk.injEq]
    constructor
    · rintro ⟨row, h1, h2⟩; exact ⟨(u, row), mget_mem _ _ _ h1, v, h2, rfl, rfl⟩
    · rintro ⟨⟨a, row⟩, h1, b, h2, rfl, rfl⟩; exact ⟨row, mget_of_mem _ _ _ hs h1, h2⟩

theorem Realizes.congr {d : View} {n : Nat} {A B : List (Nat × Nat)} (h : Realizes d n A)
    (hab : ∀ u v, (u, v) ∈ A ↔ (u, v) ∈ B) : Realizes d n B :=
  ⟨h.1, h.2.1, fun u v => (h.2.2 u v).trans (hab u v)⟩

/-- `finishMap` of rows filled by `rowInsert` -/
theorem realizes_finishMap (n : Nat) (arcs : List (Nat × Nat)) (hs : SimpleArcs n arcs) :
    Realizes (viewAM (finishMap n (arcs.foldl rowInsert (List.replicate n [])))) n arcs := by
  unfold finishMap
  refine (realizes_collectMap n _ (by simp [List.map_map, Function.comp_def])).congr fun u v => ?_
  simp only [List.mem_flatMap, List.mem_map, List.mem_range, Prod.mk.injEq]
  constructor
  · rintro ⟨_, ⟨a, ha, rfl⟩, b, hb, rfl, rfl⟩
    have := (mem_foldl_rowInsert arcs (List.replicate n []) a b).1 hb
    rcases this with h | h
    · simp [ha] at h
    · exact h.1
  · intro h
    have hu := (hs _ h).1
    exact ⟨(u, _), ⟨u, hu, rfl⟩, v, (mem_foldl_rowInsert arcs _ u v).2 (Or.inr ⟨h, by simpa using hu⟩), rfl, rfl⟩

end GraafVerif.Rand
